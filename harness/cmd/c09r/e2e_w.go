// e2e_w.go: mode w scenarios: a real kafka.Writer{Transport: &kafka.Transport{…}} against
// wfake; the broker answers a Produce (or an auto-creating Metadata request) LATE, or closes
// the connection late, after the caller's context has ended.
//
// Timeline: c<cid>:w = WriteMessages, C1/D1 = Writer.Close, C2/D2 = Transport.CloseIdleConnections.
package main

import (
	"context"
	"fmt"
	"math/rand"
	"net"
	"sync"
	"time"

	kafka "github.com/segmentio/kafka-go"
)

// slackConn honours deadlines late: the produce context of a Writer carries a deadline, which
// the Transport copies to the connection, so that the read would fail at the very instant the
// context expires and the late answer would never be read.  With the slack the connection
// outlives the context and sees the late answer / the late close of the fake.
type slackConn struct {
	net.Conn
	slack time.Duration
}

func (c *slackConn) late(t time.Time) time.Time {
	if t.IsZero() {
		return t
	}
	return t.Add(c.slack)
}
func (c *slackConn) SetDeadline(t time.Time) error      { return c.Conn.SetDeadline(c.late(t)) }
func (c *slackConn) SetReadDeadline(t time.Time) error  { return c.Conn.SetReadDeadline(c.late(t)) }
func (c *slackConn) SetWriteDeadline(t time.Time) error { return c.Conn.SetWriteDeadline(c.late(t)) }

func runW(sc scen) result {
	rng := rand.New(rand.NewSource(sc.seed))
	kind := sc.kind
	tl := &tline{}
	e := newEnv(sc, tl)
	ft := e.ft
	ft.add("kind=" + kind)
	ft.add("fake=wfake")
	ft.add("late-answer-family")
	ft.add("broker=slow")

	nparts := rr(rng, 1, 2)
	fake := newWfake(map[string]int{topicT: nparts})

	writeTO := ms(rr(rng, 20, 50))
	dialTO := ms(rr(rng, 100, 300))
	idleTO := ms(rr(rng, 50, 200))
	ttl := ms(rr(rng, 50, 200))
	d := ms(rr(rng, 10, 40)) // when the context of a WriteMessages call ends
	frng := rand.New(rand.NewSource(rng.Int63()))
	var fmu sync.Mutex
	topic := topicT
	useCtx := false // the calls carry a context that is cancelled after d
	switch kind {
	case "w-late-produce", "w-late-close":
		// the produce context of the Writer = WriteTimeout; the Produce is answered (or the
		// connection closed) 2..4 x WriteTimeout after it arrived
		useCtx = rng.Intn(2) == 0
		fake.fault = func(api string, auto bool) wfault {
			if api != "produce" {
				return wfault{}
			}
			fmu.Lock()
			defer fmu.Unlock()
			return wfault{delay: writeTO * time.Duration(rr(frng, 2, 4)), drop: kind == "w-late-close"}
		}
	case "w-late-metadata":
		// the topic is not in the Transport's cache and the Writer may create it: the Metadata
		// request goes through sendRequest; its answer comes 2..4 x d after it arrived
		topic = "new"
		useCtx = true
		fake.fault = func(api string, auto bool) wfault {
			if api != "metadata" || !auto {
				return wfault{}
			}
			fmu.Lock()
			defer fmu.Unlock()
			return wfault{delay: d * time.Duration(rr(frng, 2, 4)), drop: frng.Intn(3) == 0}
		}
	default:
		panic("unknown kind " + kind)
	}
	if useCtx {
		ft.add("ctx-calls")
	}
	slack := 6 * writeTO
	ft.add("deadline-slack")

	largest := maxDur(maxDur(dialTO, idleTO), maxDur(ttl, writeTO))
	e.wd = maxDur(e.wd, 4*(dialTO+idleTO+ttl+5*writeTO))
	grace := maxDur(1500*time.Millisecond, 3*largest)

	e.baseline()
	dial := e.cc.wrap(func(ctx context.Context, network, address string) (net.Conn, error) {
		c, err := fake.dial(ctx, network, address)
		if err != nil {
			return nil, err
		}
		return &slackConn{Conn: c, slack: slack}, nil
	})
	tr := &kafka.Transport{
		Dial:        dial,
		DialTimeout: dialTO,
		IdleTimeout: idleTO,
		MetadataTTL: ttl,
		ClientID:    clientU,
	}
	w := &kafka.Writer{
		Addr:                   kafka.TCP(wfakeAddr),
		Topic:                  topic,
		Balancer:               &kafka.RoundRobin{},
		MaxAttempts:            rr(rng, 1, 2),
		BatchTimeout:           ms(rr(rng, 1, 5)),
		BatchSize:              rr(rng, 1, 3),
		WriteTimeout:           writeTO,
		ReadTimeout:            ms(200),
		WriteBackoffMin:        ms(2),
		WriteBackoffMax:        ms(10),
		RequiredAcks:           kafka.RequireOne,
		AllowAutoTopicCreation: kind == "w-late-metadata",
		Transport:              tr,
	}
	if verbose {
		w.Logger = klogger{"kafka[w]: "}
	}
	vlogf("scenario %d: mode=w kind=%s parts=%d writeTO=%v d=%v useCtx=%v maxAttempts=%d idleTO=%v ttl=%v wd=%v",
		sc.id, kind, nparts, writeTO, d, useCtx, w.MaxAttempts, idleTO, ttl, e.wd)

	ncallers := rr(rng, 1, 3)
	ncalls := rr(rng, 1, 3)
	var wg sync.WaitGroup
	for i := 0; i < ncallers; i++ {
		wg.Add(1)
		r := rand.New(rand.NewSource(rng.Int63()))
		go func(i int) {
			defer wg.Done()
			for j := 0; j < ncalls; j++ {
				time.Sleep(time.Duration(r.Intn(3000)) * time.Microsecond)
				pol, cd := polNever, time.Duration(0)
				if useCtx {
					pol, cd = polAfter, d
				}
				msgs := make([]kafka.Message, rr(r, 1, 3))
				for k := range msgs {
					msgs[k] = kafka.Message{Value: []byte(fmt.Sprintf("v%d.%d.%d", i, j, k))}
				}
				res := e.call('w', pol, cd, "nil", func(ctx context.Context) error {
					return w.WriteMessages(ctx, msgs...)
				})
				if res == "" {
					return
				}
				if res == "oth" && kind != "w-late-metadata" {
					ft.add("write-timeout") // the produce context (WriteTimeout) expired
				}
			}
		}(i)
	}
	wg.Wait()
	if !e.isHung() && e.doClose(1, func() { w.Close() }) {
		// until every delayed answer has been written (every late close has happened), + 30 ms
		waitCond(e.wd, fake.quiet)
		time.Sleep(ms(30))
		e.doClose(2, tr.CloseIdleConnections)
	}
	vlogf("wfake saw %d produce and %d metadata requests", fake.requests("produce"), fake.requests("metadata"))

	toks, res := e.finish(ms(50), grace, fake.close)
	deriveTags(toks, ft)
	return result{
		args:  fmt.Sprintf("w - ; %s", joinToks(toks)),
		res:   res,
		feats: ft.String(),
	}
}
