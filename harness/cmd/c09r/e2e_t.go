// e2e_t.go: mode t scenarios: kafka.Client / kafka.Transport round trips against
// harness/groupfake (reached through Transport.Dial).
package main

import (
	"context"
	"fmt"
	"math/rand"
	"sync"
	"time"

	kafka "github.com/segmentio/kafka-go"
	"kverif/groupfake"
)

var tKinds = []string{"ok", "silent-ctx", "silent-ctx", "slow-ctx", "refuse", "ctx-before", "close-idle", "close-idle"}

func runT(sc scen) result {
	rng := rand.New(rand.NewSource(sc.seed))
	kind := sc.kind

	b := groupfake.New(groupfake.Config{
		Topics: map[string]int{topicT: 2},
		Logf: func() func(string, ...interface{}) {
			if verbose {
				return vlogf
			}
			return nil
		}(),
	})
	b.Append(topicT, 0, rr(rng, 0, 5))
	tl := &tline{gf: b}
	e := newEnv(sc, tl)
	ft := e.ft
	ft.add("kind=" + kind)
	ft.add("fake=groupfake")

	dialTO := ms(rr(rng, 100, 300))
	idleTO := ms(rr(rng, 50, 200))
	ttl := ms(rr(rng, 50, 200))

	var fmu sync.Mutex
	frng := rand.New(rand.NewSource(rng.Int63()))
	fault := func(api string) groupfake.Fault { return groupfake.Fault{} }
	family := false         // the "late answer" family
	var lateUntil time.Time // (guarded by fmu) when the last delayed answer / close is due
	policy := func(r *rand.Rand) (int, time.Duration) { return polAfter, ms(rr(r, 300, 600)) }
	switch kind {
	case "ok":
	case "silent-ctx":
		ft.add("broker=silent")
		all := rng.Intn(2) == 0 // also the Metadata requests of the pool (the pool never gets ready)
		if all {
			ft.add("silent-api=md")
		} else {
			ft.add("silent-api=other")
		}
		fault = func(api string) groupfake.Fault {
			if all || api != "metadata" {
				return groupfake.Fault{Delay: silence}
			}
			return groupfake.Fault{}
		}
		policy = func(r *rand.Rand) (int, time.Duration) { return polAfter, ms(rr(r, 10, 60)) }
	case "slow-ctx":
		ft.add("broker=slow")
		fault = func(api string) groupfake.Fault { return groupfake.Fault{Delay: ms(rr(frng, 20, 80))} }
		policy = func(r *rand.Rand) (int, time.Duration) { return polAfter, ms(rr(r, 5, 120)) }
	case "refuse":
		ft.add("broker=refuse")
		b.Kill(clientU)
		policy = func(r *rand.Rand) (int, time.Duration) {
			if r.Intn(2) == 0 {
				return polAfter, ms(rr(r, 10, 60))
			}
			return polAfter, ms(rr(r, 400, 700))
		}
	case "ctx-before":
		policy = func(r *rand.Rand) (int, time.Duration) {
			if r.Intn(4) == 0 {
				return polAfter, ms(rr(r, 300, 600))
			}
			return polBefore, 0
		}
	case "close-idle":
		if rng.Intn(2) == 0 {
			fault = func(api string) groupfake.Fault { return groupfake.Fault{Delay: ms(rr(frng, 0, 30))} }
		}
	case "late-answer", "late-close":
		// cancel during a round trip; the broker answers (or closes the connection) LATE:
		// every call's context ends after d, every request other than Metadata (the pool gets
		// ready) is answered / dropped 2..4 x d after it arrived
		family = true
		ft.add("late-answer-family")
		d := ms(rr(rng, 10, 40))
		ft.add("broker=slow")
		fault = func(api string) groupfake.Fault {
			if api == "metadata" {
				return groupfake.Fault{}
			}
			f := groupfake.Fault{Delay: d * time.Duration(rr(frng, 2, 4))}
			if kind == "late-close" {
				f.Drop = 1 + frng.Intn(2)
			}
			if t := time.Now().Add(f.Delay); t.After(lateUntil) {
				lateUntil = t
			}
			return f
		}
		policy = func(r *rand.Rand) (int, time.Duration) { return polAfter, d }
	default:
		panic("unknown kind " + kind)
	}
	b.SetFault(func(api, client, member string) groupfake.Fault {
		if client != clientU {
			return groupfake.Fault{}
		}
		tl.req(api, member)
		fmu.Lock()
		defer fmu.Unlock()
		return fault(api)
	})

	e.wd = maxDur(e.wd, 4*(dialTO+idleTO+ttl))
	grace := maxDur(1500*time.Millisecond, 3*maxDur(dialTO, maxDur(idleTO, ttl)))

	e.baseline()
	tr := &kafka.Transport{
		Dial:        e.cc.wrap(b.DialFor(clientU)),
		DialTimeout: dialTO,
		IdleTimeout: idleTO,
		MetadataTTL: ttl,
		ClientID:    clientU,
	}
	cl := &kafka.Client{Addr: kafka.TCP(b.Addr()), Transport: tr}
	vlogf("scenario %d: mode=t kind=%s dialTO=%v idleTO=%v ttl=%v wd=%v", sc.id, kind, dialTO, idleTO, ttl, e.wd)

	roundTrip := func(r *rand.Rand) func(ctx context.Context) error {
		x := r.Intn(5)
		if family {
			// a Metadata request with a topic list is served from the cache: only requests that
			// go through sendRequest
			x = 1 + r.Intn(6)
		}
		switch x {
		case 0:
			return func(ctx context.Context) error {
				_, err := cl.Metadata(ctx, &kafka.MetadataRequest{Topics: []string{topicT}})
				return err
			}
		case 1, 2:
			return func(ctx context.Context) error {
				_, err := cl.ListOffsets(ctx, &kafka.ListOffsetsRequest{Topics: map[string][]kafka.OffsetRequest{
					topicT: {kafka.FirstOffsetOf(0), kafka.LastOffsetOf(1)},
				}})
				return err
			}
		case 3:
			return func(ctx context.Context) error {
				_, err := cl.Heartbeat(ctx, &kafka.HeartbeatRequest{GroupID: "g", GenerationID: 1, MemberID: "nobody"})
				return err
			}
		case 5:
			return func(ctx context.Context) error {
				_, err := cl.OffsetFetch(ctx, &kafka.OffsetFetchRequest{GroupID: "g", Topics: map[string][]int{topicT: {0, 1}}})
				return err
			}
		case 6:
			return func(ctx context.Context) error {
				_, err := cl.FindCoordinator(ctx, &kafka.FindCoordinatorRequest{Key: "g", KeyType: kafka.CoordinatorKeyTypeConsumer})
				return err
			}
		default:
			return func(ctx context.Context) error {
				res, err := cl.Fetch(ctx, &kafka.FetchRequest{Topic: topicT, Partition: 0, Offset: 0, MinBytes: 1, MaxBytes: 1 << 16, MaxWait: ms(20)})
				if err == nil && res.Records != nil {
					for {
						if _, rerr := res.Records.ReadRecord(); rerr != nil {
							break
						}
					}
				}
				return err
			}
		}
	}

	ncallers := rr(rng, 1, 3)
	ncalls := rr(rng, 1, 4)
	if family {
		ncalls = rr(rng, 1, 3)
	}
	var wg sync.WaitGroup
	for i := 0; i < ncallers; i++ {
		wg.Add(1)
		r := rand.New(rand.NewSource(rng.Int63()))
		go func() {
			defer wg.Done()
			for j := 0; j < ncalls; j++ {
				time.Sleep(time.Duration(r.Intn(5000)) * time.Microsecond)
				pol, d := policy(r)
				if e.call('t', pol, d, "nil", roundTrip(r)) == "" {
					return
				}
			}
		}()
	}
	k := 1
	if kind == "close-idle" {
		// CloseIdleConnections while calls may be in flight
		time.Sleep(ms(rr(rng, 0, 40)))
		e.doClose(k, tr.CloseIdleConnections)
		k++
	}
	wg.Wait()
	if family && !e.isHung() {
		// until every delayed answer has been written (every late close has happened), + 30 ms
		for {
			fmu.Lock()
			rest := time.Until(lateUntil) + ms(30)
			fmu.Unlock()
			if rest <= 0 {
				break
			}
			time.Sleep(rest)
		}
	}
	if !e.isHung() {
		if kind == "close-idle" && rng.Intn(2) == 0 {
			time.Sleep(ms(rr(rng, 0, 2*int(idleTO/time.Millisecond))))
		}
		e.doClose(k, tr.CloseIdleConnections)
	}

	all, res := e.finish(ms(50), grace, b.Close)
	// CloseIdleConnections promises nothing about later requests (the request of a call whose
	// context was cancelled is still written by the connection goroutine): the journal tokens
	// are left out of the mode t timeline; req-after-close says that one came after the last D.
	var toks []string
	lastD := -1
	for i, t := range all {
		if t[0] == 'D' {
			lastD = i
		}
	}
	for i, t := range all {
		if t[0] != 'q' {
			toks = append(toks, t)
		} else if lastD >= 0 && i > lastD && t != "qmd:0" {
			ft.add("req-after-close")
		}
	}
	deriveTags(toks, ft)
	return result{
		args:  fmt.Sprintf("t - ; %s", joinToks(toks)),
		res:   res,
		feats: ft.String(),
	}
}
