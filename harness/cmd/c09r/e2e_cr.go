// e2e_cr.go: the "connect race" family (tag connect-race-family): the set-up of a Transport
// connection (dial + ApiVersions negotiation in connGroup.connect, bounded by DialTimeout, not
// by the request's context) finishes AFTER the requester has given up.
//
//	mode t  setup-late-pool-closed  CloseIdleConnections comes before the set-up completes: the
//	                                helper goroutine must close the connection it cannot pool
//	mode t  setup-late-pool-open    the pool is still open: the connection is pooled, and closed by
//	                                the later CloseIdleConnections (or its idle timer)
//	mode t  setup-fails-late        the slow set-up ends with the peer closing the connection
//	mode w  w-setup-late            a Writer on its own Transport: WriteTimeout expires during the
//	                                set-up; Writer.Close and CloseIdleConnections come before it ends
//
// The fake (wfake) answers ApiVersions after S = 300-700 ms for the connections opened after a
// warm-up.  via=request: the pool is ready (one successful round trip first, its connections
// closed by their idle timers, MetadataTTL one hour) and the calls themselves need a new broker
// connection; via=discover: the warm-up ends with CloseIdleConnections, so that the calls find
// a fresh pool whose discover goroutine runs the slow set-up.
package main

import (
	"context"
	"fmt"
	"math/rand"
	"strings"
	"sync"
	"sync/atomic"
	"time"

	kafka "github.com/segmentio/kafka-go"
)

// runRefresh: kinds refresh-silent (mode t) and w-refresh-silent (mode w), tags
// connect-race-family and refresh-silent-family: after the connection set-up, the first
// Metadata answer and one warm-up call, the fake never answers a Metadata request again (it
// keeps its side open).  The Transport's background refresh must give the connection it uses
// the deadline of the refresh (MetadataTTL): after 3-4 TTLs and CloseIdleConnections (mode w:
// Writer.Close, then CloseIdleConnections, the Transport is not owned by the Writer because
// NewWriter dials with a real net.Dialer) no connection goroutine may be left.
func runRefresh(sc scen) result {
	rng := rand.New(rand.NewSource(sc.seed))
	kind := sc.kind
	tl := &tline{}
	e := newEnv(sc, tl)
	ft := e.ft
	ft.add("kind=" + kind)
	ft.add("fake=wfake")
	ft.add("connect-race-family")
	ft.add("refresh-silent-family")
	ft.add("broker=silent")

	fake := newWfake(map[string]int{topicT: 1})
	ttl := ms(rr(rng, 200, 300))
	dialTO := ms(rr(rng, 100, 300))
	idleTO := ms(rr(rng, 100, 200))
	var armed int32
	fake.journal = func(api string) {
		if api == "metadata" {
			tl.rec("qmd:0")
		}
	}
	fake.fault = func(api string, auto bool) wfault {
		if api == "metadata" && atomic.LoadInt32(&armed) != 0 {
			return wfault{silent: true}
		}
		return wfault{}
	}
	largest := maxDur(ttl, maxDur(dialTO, idleTO))
	e.wd = maxDur(e.wd, 4*(ttl+dialTO+idleTO))
	grace := maxDur(1500*time.Millisecond, 3*largest)

	e.baseline()
	tr := &kafka.Transport{
		Dial:        e.cc.wrap(fake.dial),
		DialTimeout: dialTO,
		IdleTimeout: idleTO,
		MetadataTTL: ttl,
		ClientID:    clientU,
	}
	vlogf("scenario %d: mode=%s kind=%s ttl=%v dialTO=%v idleTO=%v wd=%v", sc.id, sc.mode, kind, ttl, dialTO, idleTO, e.wd)
	wait := time.Duration(rr(rng, 300, 400)) * ttl / 100 // 3-4 TTLs
	if sc.mode == "w" {
		ft.add("owned-transport=no")
		w := &kafka.Writer{
			Addr:         kafka.TCP(wfakeAddr),
			Topic:        topicT,
			Balancer:     &kafka.RoundRobin{},
			MaxAttempts:  1,
			BatchTimeout: ms(rr(rng, 1, 5)),
			BatchSize:    1,
			WriteTimeout: ms(500),
			ReadTimeout:  ms(200),
			RequiredAcks: kafka.RequireOne,
			Transport:    tr,
		}
		if e.call('w', polAfter, 2*time.Second, "nil", func(ctx context.Context) error {
			return w.WriteMessages(ctx, kafka.Message{Value: []byte("v")})
		}) != "nil" {
			ft.add("warmup-failed")
		}
		atomic.StoreInt32(&armed, 1)
		time.Sleep(wait)
		if e.doClose(1, func() { w.Close() }) {
			e.doClose(2, tr.CloseIdleConnections)
		}
	} else {
		cl := &kafka.Client{Addr: kafka.TCP(wfakeAddr), Transport: tr}
		if e.call('t', polAfter, 2*time.Second, "nil", func(ctx context.Context) error {
			_, err := cl.Produce(ctx, &kafka.ProduceRequest{
				Topic:        topicT,
				Partition:    0,
				RequiredAcks: kafka.RequireOne,
				Records:      kafka.NewRecordReader(kafka.Record{Value: kafka.NewBytes([]byte("v"))}),
			})
			return err
		}) != "nil" {
			ft.add("warmup-failed")
		}
		atomic.StoreInt32(&armed, 1)
		time.Sleep(wait)
		e.doClose(1, tr.CloseIdleConnections)
	}
	// a refresh that is in flight keeps its connection until its own deadline (one TTL)
	quiet := largest + ms(300)
	toks, res := e.finish(quiet, grace, func() {
		ft.add(fmt.Sprintf("fake-open=%x", fake.open()))
		fake.close()
	})
	deriveTags(toks, ft)
	return result{
		args:  fmt.Sprintf("%s - ; %s", sc.mode, joinToks(toks)),
		res:   res,
		feats: ft.String(),
	}
}

func runCR(sc scen) result {
	if strings.HasSuffix(sc.kind, "refresh-silent") {
		return runRefresh(sc)
	}
	rng := rand.New(rand.NewSource(sc.seed))
	kind := sc.kind
	tl := &tline{}
	e := newEnv(sc, tl)
	ft := e.ft
	ft.add("kind=" + kind)
	ft.add("fake=wfake")
	ft.add("connect-race-family")
	ft.add("broker=slow")

	fake := newWfake(map[string]int{topicT: rr(rng, 1, 2)})
	S := ms(rr(rng, 300, 700))
	d := ms(rr(rng, 50, 150))
	dialTO := 2*S + ms(100)
	idleTO := ms(rr(rng, 50, 100))
	via := "request"
	if sc.variant == "discover" {
		via = "discover"
	}
	ft.add("via=" + via)
	ttl := time.Hour
	if via == "discover" {
		ttl = ms(rr(rng, 100, 300))
	}
	var slow int32
	fake.fault = func(api string, auto bool) wfault {
		if api == "apiversions" && atomic.LoadInt32(&slow) != 0 {
			return wfault{delay: S, drop: kind == "setup-fails-late"}
		}
		return wfault{}
	}
	e.wd = maxDur(e.wd, 4*(dialTO+idleTO))
	grace := maxDur(maxDur(1500*time.Millisecond, dialTO), 3*idleTO)

	e.baseline()
	tr := &kafka.Transport{
		Dial:        e.cc.wrap(fake.dial),
		DialTimeout: dialTO,
		IdleTimeout: idleTO,
		MetadataTTL: ttl,
		ClientID:    clientU,
	}
	vlogf("scenario %d: mode=%s kind=%s via=%s S=%v d=%v dialTO=%v idleTO=%v wd=%v", sc.id, sc.mode, kind, via, S, d, dialTO, idleTO, e.wd)
	nclose := 0
	closeIdle := func() bool {
		nclose++
		return e.doClose(nclose, tr.CloseIdleConnections)
	}
	// until no connection set-up is pending at the fake any more
	settle := func(extra time.Duration) {
		waitCond(e.wd, fake.quiet)
		time.Sleep(extra)
	}

	if sc.mode == "w" {
		writeTO := ms(rr(rng, 100, 150))
		w := &kafka.Writer{
			Addr:         kafka.TCP(wfakeAddr),
			Topic:        topicT,
			Balancer:     &kafka.RoundRobin{},
			MaxAttempts:  1,
			BatchTimeout: ms(rr(rng, 1, 5)),
			BatchSize:    1,
			WriteTimeout: writeTO,
			ReadTimeout:  ms(200),
			RequiredAcks: kafka.RequireOne,
			Transport:    tr,
		}
		if verbose {
			w.Logger = klogger{"kafka[w]: "}
		}
		write := func(pol int, cd time.Duration) string {
			return e.call('w', pol, cd, "nil", func(ctx context.Context) error {
				return w.WriteMessages(ctx, kafka.Message{Value: []byte("v")})
			})
		}
		// warm-up: the pool becomes ready; its connections are closed by their idle timers
		if write(polAfter, 2*time.Second) != "nil" {
			ft.add("warmup-failed")
		}
		waitCond(2*time.Second, func() bool { return e.cc.nOpen() == 0 })
		atomic.StoreInt32(&slow, 1)
		n := rr(rng, 1, 2)
		var wg sync.WaitGroup
		for i := 0; i < n; i++ {
			wg.Add(1)
			go func() {
				defer wg.Done()
				if write(polNever, 0) == "oth" {
					ft.add("write-timeout") // the produce context (WriteTimeout) expired during the set-up
				}
			}()
		}
		wg.Wait()
		if !e.isHung() && e.doClose(1, func() { w.Close() }) {
			nclose = 1
			time.Sleep(ms(rr(rng, 0, 30)))
			closeIdle() // C2/D2, before the set-up completes
			settle(ms(100))
		}
	} else {
		cl := &kafka.Client{Addr: kafka.TCP(wfakeAddr), Transport: tr}
		produce := func(pol int, cd time.Duration) string {
			return e.call('t', pol, cd, "nil", func(ctx context.Context) error {
				_, err := cl.Produce(ctx, &kafka.ProduceRequest{
					Topic:        topicT,
					Partition:    0,
					RequiredAcks: kafka.RequireOne,
					Records:      kafka.NewRecordReader(kafka.Record{Value: kafka.NewBytes([]byte("v"))}),
				})
				return err
			})
		}
		// warm-up with the fast fake
		if produce(polAfter, 2*time.Second) != "nil" {
			ft.add("warmup-failed")
		}
		if via == "discover" {
			closeIdle() // the pool is gone: the calls below start a new one
		}
		waitCond(2*time.Second, func() bool { return e.cc.nOpen() == 0 })
		atomic.StoreInt32(&slow, 1)
		n := rr(rng, 1, 3)
		var wg sync.WaitGroup
		for i := 0; i < n; i++ {
			wg.Add(1)
			go func() {
				defer wg.Done()
				produce(polAfter, d) // must return ctx: the connection is not there in time
			}()
		}
		wg.Wait()
		if !e.isHung() {
			switch kind {
			case "setup-late-pool-open":
				settle(ms(50)) // the set-up has completed: the connection is in the pool
				if closeIdle() {
					time.Sleep(ms(50))
					closeIdle()
				}
			default:
				time.Sleep(ms(rr(rng, 20, 50)))
				closeIdle() // before the set-up completes
				settle(ms(100))
			}
		}
	}

	toks, res := e.finish(ms(50), grace, fake.close)
	deriveTags(toks, ft)
	return result{
		args:  fmt.Sprintf("%s - ; %s", sc.mode, joinToks(toks)),
		res:   res,
		feats: ft.String(),
	}
}
