// engine.go: the scenario engine shared by the e2e runners: calls under a watchdog,
// Close under a watchdog, caller goroutines, the census and the feature tags derived
// from the finished timeline.
package main

import (
	"context"
	"fmt"
	"math/rand"
	"runtime"
	"strings"
	"sync"
	"sync/atomic"
	"time"

	kafka "github.com/segmentio/kafka-go"
)

type scen struct {
	id   int
	seed int64
	op   string // e2e, det, cac
	mode string // p, g, t ("" for cac)
	kind string // e2e only
	// variant: "ff" = run against fetchfake, "gf" = groupfake variant of a fetchfake kind,
	// "lo" = the broker is silent at ListOffsets
	variant string
}

type result struct{ args, res, feats string }

// commitModeOf: s (CommitInterval == 0), a (CommitInterval > 0) or - (no group); a function
// of the plan entry only.
func commitModeOf(sc scen) string {
	if sc.op == "cac" || sc.mode == "g" {
		switch sc.kind {
		case "commit-slow", "ctx-commit", "gen-self-end":
			return "s"
		case "interval":
			return "a"
		}
		return []string{"s", "a"}[(uint64(sc.seed)>>7)&1]
	}
	return "-"
}

// env is the state of one running e2e scenario.
type env struct {
	sc scen
	tl *tline
	cc *connCensus
	ft *feats
	wd time.Duration // watchdog of one call / one Close

	mu       sync.Mutex
	nextCid  int
	fails    []string
	hung     bool
	firstMsg chan struct{} // closed when the first call returned a message
	msgOnce  sync.Once
	lastD    time.Time
	closes   int32 // number of D recorded

	baseN, baseK int
}

func newEnv(sc scen, tl *tline) *env {
	return &env{sc: sc, tl: tl, cc: &connCensus{}, ft: newFeats(), wd: 8 * time.Second, firstMsg: make(chan struct{})}
}

func (e *env) fail(s string) {
	e.mu.Lock()
	e.fails = append(e.fails, s)
	if strings.HasPrefix(s, "HANG") {
		e.hung = true
	}
	e.mu.Unlock()
	vlogf("FAIL %s", s)
}

func (e *env) isHung() bool {
	e.mu.Lock()
	defer e.mu.Unlock()
	return e.hung
}

// baseline is taken after the fake is up and before the Reader / Transport exists.
func (e *env) baseline() {
	e.baseN = runtime.NumGoroutine()
	e.baseK, _ = kafkaGoroutines()
}

// call policies
const (
	polNever  = 0 // the context of the call is never cancelled
	polAfter  = 1 // cancelled after d
	polBefore = 2 // cancelled before the call starts
)

// call runs one call into kafka-go: in its own goroutine, under the watchdog.  kind is
// f, r, m or t; okName is the result name of a nil error.  It returns the result name
// ("" when the call hung).
func (e *env) call(kind byte, policy int, d time.Duration, okName string, fn func(ctx context.Context) error) string {
	e.mu.Lock()
	e.nextCid++
	cid := e.nextCid
	e.mu.Unlock()

	ctx, cancel := context.WithCancel(context.Background())
	e.tl.rec(fmt.Sprintf("c%x:%c", cid, kind))
	var tm *time.Timer
	xtok := fmt.Sprintf("x%x", cid)
	switch policy {
	case polBefore:
		e.tl.rec(xtok)
		cancel()
		e.ft.add("cancel-before")
	case polAfter:
		tm = time.AfterFunc(d, func() {
			e.tl.rec(xtok)
			cancel()
		})
	}
	done := make(chan string, 1)
	go func() {
		err := fn(ctx)
		res, oth, foreign := classify(err, okName, ctx)
		e.tl.rec(fmt.Sprintf("r%x:%s", cid, res))
		if res == "oth" {
			e.ft.setOnce("oth", oth)
			vlogf("call %x: other error: %v", cid, err)
		}
		if foreign {
			// a context error that is not the one of the call's own context
			e.ft.add("ctx-foreign")
		}
		done <- res
	}()
	wt := time.NewTimer(e.wd)
	defer wt.Stop()
	select {
	case res := <-done:
		if tm != nil {
			tm.Stop()
		}
		cancel()
		if res == "msg" {
			e.msgOnce.Do(func() { close(e.firstMsg) })
		}
		return res
	case <-wt.C:
		// abandoned: its context is left alone
		_ = cancel
		e.fail(fmt.Sprintf("HANG:call%x", cid))
		if verbose {
			vlogf("call %x hung; stacks:\n%s", cid, dumpStacks())
		}
		return ""
	}
}

// doClose runs Close number k under the watchdog; false when it hung.
func (e *env) doClose(k int, closeFn func()) bool {
	done := make(chan struct{})
	e.tl.rec(fmt.Sprintf("C%x", k))
	t0 := time.Now()
	go func() {
		closeFn()
		e.tl.rec(fmt.Sprintf("D%x", k))
		e.mu.Lock()
		e.lastD = time.Now()
		e.mu.Unlock()
		atomic.AddInt32(&e.closes, 1)
		close(done)
	}()
	wt := time.NewTimer(e.wd)
	defer wt.Stop()
	select {
	case <-done:
		if time.Since(t0) > 2*time.Second {
			e.ft.add("close-slow")
		}
		return true
	case <-wt.C:
		e.fail(fmt.Sprintf("HANG:close%x", k))
		if verbose {
			vlogf("close %x hung; stacks:\n%s", k, dumpStacks())
		}
		return false
	}
}

// prog is the random program of a Reader scenario.
type prog struct {
	callers   int
	ncalls    int    // calls per caller
	kinds     string // call kinds to draw from (with repetition = weight), e.g. "ffrm"
	thinkMax  int    // ms
	policy    func(rng *rand.Rand, kind byte) (int, time.Duration)
	afterEOF  int    // calls a caller still makes after it saw eof / cp
	close2    string // "", "seq", "conc"
	newcalls  int
	newKinds  string
	closeWait func() // blocks until the Close is to be issued
}

// caller is one caller goroutine.
func (e *env) caller(rd *kafka.Reader, p *prog, seed int64) {
	rng := rand.New(rand.NewSource(seed))
	var last kafka.Message
	have := false
	post := 0
	for i := 0; i < p.ncalls; i++ {
		if p.thinkMax > 0 {
			time.Sleep(time.Duration(rng.Intn(p.thinkMax*1000+1)) * time.Microsecond)
		}
		kind := p.kinds[rng.Intn(len(p.kinds))]
		if kind == 'm' && !have {
			kind = 'f'
		}
		pol, d := p.policy(rng, kind)
		res := e.readerCall(rd, kind, pol, d, &last, &have)
		if res == "" {
			return // hung
		}
		if res == "eof" || res == "cp" {
			post++
			if post > p.afterEOF {
				return
			}
		}
	}
}

func (e *env) readerCall(rd *kafka.Reader, kind byte, pol int, d time.Duration, last *kafka.Message, have *bool) string {
	switch kind {
	case 'f':
		var m kafka.Message
		res := e.call('f', pol, d, "msg", func(ctx context.Context) error {
			var err error
			m, err = rd.FetchMessage(ctx)
			return err
		})
		if res == "msg" {
			*last, *have = m, true
		}
		return res
	case 'r':
		var m kafka.Message
		res := e.call('r', pol, d, "msg", func(ctx context.Context) error {
			var err error
			m, err = rd.ReadMessage(ctx)
			return err
		})
		if res == "msg" {
			*last, *have = m, true
		}
		return res
	default:
		lm := *last
		return e.call('m', pol, d, "nil", func(ctx context.Context) error {
			return rd.CommitMessages(ctx, lm)
		})
	}
}

// runProgram runs callers and closes; it returns when every Close and every call has
// returned (or was abandoned by its watchdog), and the new calls were made.
func (e *env) runProgram(rd *kafka.Reader, p *prog, rng *rand.Rand) {
	var wg sync.WaitGroup
	for i := 0; i < p.callers; i++ {
		wg.Add(1)
		seed := rng.Int63()
		go func() {
			defer wg.Done()
			e.caller(rd, p, seed)
		}()
	}
	gap := time.Duration(rng.Intn(3000)) * time.Microsecond
	p.closeWait()
	switch p.close2 {
	case "conc":
		e.ft.add("close2=conc")
		var cw sync.WaitGroup
		cw.Add(1)
		go func() {
			defer cw.Done()
			time.Sleep(gap)
			e.doClose(2, func() { rd.Close() })
		}()
		e.doClose(1, func() { rd.Close() })
		cw.Wait()
	case "seq":
		e.ft.add("close2=seq")
		if e.doClose(1, func() { rd.Close() }) {
			time.Sleep(gap)
			e.doClose(2, func() { rd.Close() })
		}
	default:
		e.doClose(1, func() { rd.Close() })
	}
	wg.Wait() // bounded: every call is under its own watchdog
	if e.isHung() {
		return
	}
	if p.newcalls > 0 {
		e.ft.add("newcalls")
		var last kafka.Message
		have := false
		for i := 0; i < p.newcalls; i++ {
			kind := p.newKinds[rng.Intn(len(p.newKinds))]
			d := time.Duration(150+rng.Intn(151)) * time.Millisecond
			if e.readerCall(rd, kind, polAfter, d, &last, &have) == "" {
				return
			}
		}
	}
}

// finish waits for the quiet period after the last D, takes the census, ends the
// timeline and builds the result.  shutdown stops the fake (after the census).
func (e *env) finish(quiet, grace time.Duration, shutdown func()) (toks []string, res string) {
	e.mu.Lock()
	lastD := e.lastD
	e.mu.Unlock()
	if !e.isHung() {
		if !lastD.IsZero() {
			if rest := quiet - time.Since(lastD); rest > 0 {
				time.Sleep(rest)
			}
		}
		// census
		dl := time.Now().Add(grace)
		for {
			// (runtime.NumGoroutine() <= baseN is not used as a shortcut: goroutines of the fake
			// that end would hide as many leaked ones)
			open := e.cc.nOpen()
			ok := open == 0
			if ok {
				k, _ := kafkaGoroutines()
				ok = k <= e.baseK
			}
			if ok {
				break
			}
			if time.Now().After(dl) {
				k, where, parked, orphan, stuck := kafkaCensus()
				if stuck {
					e.ft.add("stuck-refresh")
				}
				if parked {
					e.ft.add("parked-in-promise")
				}
				if orphan {
					e.ft.add("orphan-conn")
				}
				g := k - e.baseK
				if g < 0 {
					g = 0
				}
				e.fail(fmt.Sprintf("LEAK:g=%x,c=%x", g, open))
				if where != "" {
					e.ft.setOnce("leak", where)
				}
				if verbose {
					vlogf("leak g=%d c=%d; stacks:\n%s", g, open, dumpStacks())
				}
				break
			}
			time.Sleep(5 * time.Millisecond)
		}
	}
	toks = e.tl.tokens()
	for _, n := range e.tl.notes {
		e.ft.add(n)
	}
	shutdown()
	e.mu.Lock()
	defer e.mu.Unlock()
	if len(e.fails) == 0 {
		return toks, "ok"
	}
	return toks, strings.Join(e.fails, "+")
}

// deriveTags adds the feature tags that are functions of the timeline.
func deriveTags(toks []string, ft *feats) {
	type cinfo struct {
		kind   byte
		begin  int
		ret    int
		res    string
		afterD bool
	}
	calls := map[string]*cinfo{}
	var cpos []int
	firstD := -1
	joined := false
	for i, t := range toks {
		switch {
		case t[0] == 'c':
			j := strings.IndexByte(t, ':')
			calls[t[1:j]] = &cinfo{kind: t[j+1], begin: i, ret: -1, afterD: firstD >= 0}
			if firstD >= 0 {
				ft.add("late-call")
			}
		case t[0] == 'r':
			j := strings.IndexByte(t, ':')
			if c := calls[t[1:j]]; c != nil {
				c.ret, c.res = i, t[j+1:]
			}
		case t[0] == 'x':
			ft.add("ctx-cancel")
		case t[0] == 'C':
			cpos = append(cpos, i)
			if t != "C1" {
				ft.add("two-closes")
			}
		case t[0] == 'D':
			if firstD < 0 {
				firstD = i
			}
		case t[0] == 'j':
			joined = true
			ft.add("joined")
		case strings.HasPrefix(t, "qhb"):
			ft.add("hb-seen")
		case strings.HasPrefix(t, "qoc"):
			ft.add("commit-seen")
		case strings.HasPrefix(t, "qlv"):
			if joined {
				ft.add("left")
			}
		}
	}
	for _, c := range calls {
		for _, cp := range cpos {
			if c.begin < cp && (c.ret < 0 || c.ret > cp) {
				ft.add("close-while-blocked")
			}
		}
		if c.afterD && c.res == "msg" {
			ft.add("late-msg")
		}
		if c.afterD && c.kind == 'm' && c.ret >= 0 && c.res != "cp" {
			ft.add("late-commit-not-cp")
		}
	}
}

func joinToks(toks []string) string {
	if len(toks) == 0 {
		return "."
	}
	return strings.Join(toks, ",")
}

func ms(n int) time.Duration { return time.Duration(n) * time.Millisecond }

// rr draws from [lo, hi].
func rr(rng *rand.Rand, lo, hi int) int { return lo + rng.Intn(hi-lo+1) }
