// sfake.go: a tiny raw peer for the "silent step" family: it accepts connections (net.Pipe),
// answers ApiVersions, Metadata and ListOffsets of the legacy Conn (decoded / encoded with
// kafka-go's protocol package) and, at ONE chosen step of the partition reader's connection
// set-up, falls SILENT FOR EVER: no answer, the connection stays open on this side until the
// fake is shut down at the very end of the scenario.  It can also write only the first half
// of a response frame.  One broker (node 1, sfake:9092) leading partition 0 of topic t.
package main

import (
	"bytes"
	"context"
	"errors"
	"net"
	"sync"

	"github.com/segmentio/kafka-go/protocol"
	"github.com/segmentio/kafka-go/protocol/apiversions"
	"github.com/segmentio/kafka-go/protocol/fetch"
	"github.com/segmentio/kafka-go/protocol/listoffsets"
	meta "github.com/segmentio/kafka-go/protocol/metadata"
	"kverif/groupfake"
)

const sfakeAddr = "sfake:9092"

// what the fake does with a request
const (
	sfAnswer = iota
	sfSilent // no answer, for ever
	sfHalf   // the first half of the response frame, then nothing
)

type sfake struct {
	tl   *tline
	nrec int64
	// rule decides per request: conn = 1, 2, … in dial order, nreq = 1, 2, … on that connection,
	// api = "apiversions", "metadata", "listoffsets", "fetch" or "other"
	rule func(conn, nreq int, api string) int
	// deaf: connections from this dial index on are accepted and never read (0 = none)
	deaf int

	mu     sync.Mutex
	nconn  int
	closed bool
	conns  []net.Conn
	done   chan struct{}
	wg     sync.WaitGroup
	silent chan struct{} // closed when the silent step has been reached
	once   sync.Once
}

func newSfake(tl *tline, nrec int) *sfake {
	return &sfake{tl: tl, nrec: int64(nrec), done: make(chan struct{}), silent: make(chan struct{})}
}

type addrConn struct {
	net.Conn
	remote string
}

func (c *addrConn) LocalAddr() net.Addr  { return wfakeNetAddr("client:10000") }
func (c *addrConn) RemoteAddr() net.Addr { return wfakeNetAddr(c.remote) }

func (f *sfake) dial(ctx context.Context, network, address string) (net.Conn, error) {
	if err := ctx.Err(); err != nil {
		return nil, err
	}
	f.mu.Lock()
	defer f.mu.Unlock()
	if f.closed {
		return nil, errors.New("sfake: closed")
	}
	cli, srv := net.Pipe()
	f.nconn++
	idx := f.nconn
	f.conns = append(f.conns, srv)
	vlogf("sfake: accepted connection %d (%s)", idx, address)
	if f.deaf != 0 && idx >= f.deaf {
		// accepted, never read: the client blocks in its first write (a full send buffer)
		f.reached()
	} else {
		f.wg.Add(1)
		go f.serve(srv, idx)
	}
	return &addrConn{Conn: cli, remote: sfakeAddr}, nil
}

func (f *sfake) reached() { f.once.Do(func() { close(f.silent) }) }

// close shuts the fake down: only now are the silent connections closed on this side.
func (f *sfake) close() {
	f.mu.Lock()
	if f.closed {
		f.mu.Unlock()
		return
	}
	f.closed = true
	close(f.done)
	for _, c := range f.conns {
		c.Close()
	}
	f.mu.Unlock()
	f.wg.Wait()
}

func (f *sfake) serve(c net.Conn, idx int) {
	defer f.wg.Done()
	for nreq := 1; ; nreq++ {
		ver, corr, _, msg, err := protocol.ReadRequest(c)
		if err != nil || msg == nil {
			return // the client closed the connection
		}
		api, tok := "other", "qpr:0"
		var res protocol.Message
		switch req := msg.(type) {
		case *apiversions.Request:
			api = "apiversions"
			res = &apiversions.Response{ApiKeys: groupfake.ApiVersions}
		case *meta.Request:
			api, tok = "metadata", "qmd:0"
			res = &meta.Response{
				Brokers:      []meta.ResponseBroker{{NodeID: 1, Host: "sfake", Port: 9092}},
				ControllerID: 1,
				Topics: []meta.ResponseTopic{{Name: topicT, Partitions: []meta.ResponsePartition{
					{PartitionIndex: 0, LeaderID: 1, ReplicaNodes: []int32{1}, IsrNodes: []int32{1}}}}},
			}
		case *listoffsets.Request:
			api, tok = "listoffsets", "qlo:0"
			r := &listoffsets.Response{Topics: []listoffsets.ResponseTopic{}}
			for _, t := range req.Topics {
				rt := listoffsets.ResponseTopic{Topic: t.Topic, Partitions: []listoffsets.ResponsePartition{}}
				for _, p := range t.Partitions {
					off := f.nrec
					if p.Timestamp == -2 {
						off = 0
					}
					rt.Partitions = append(rt.Partitions, listoffsets.ResponsePartition{Partition: p.Partition, Timestamp: -1, Offset: off})
				}
				r.Topics = append(r.Topics, rt)
			}
			res = r
		case *fetch.Request:
			api, tok = "fetch", "qfe:0"
		}
		f.tl.rec(tok)
		what := f.rule(idx, nreq, api)
		vlogf("sfake: connection %d request %d: %s v%d -> %d", idx, nreq, api, ver, what)
		if res == nil {
			what = sfSilent // (a Fetch is never answered by this fake)
		}
		switch what {
		case sfHalf:
			var buf bytes.Buffer
			if err := protocol.WriteResponse(&buf, ver, corr, res); err != nil {
				return
			}
			b := buf.Bytes()
			c.Write(b[:len(b)/2])
			fallthrough
		case sfSilent:
			f.reached()
			<-f.done
			return
		}
		if err := protocol.WriteResponse(c, ver, corr, res); err != nil {
			return
		}
	}
}
