// nlv.go: op `nlv`, the deterministic replay of "no LeaveGroup after a failed re-join":
// a group Reader joins (member 1) and syncs; its next Heartbeat is answered <hbcode> (27:
// the generation ends, the member id is kept, no state change in the fake); the re-join that
// carries the member id is answered <joincode>; as soon as that answer exists the Reader is
// closed.  Result: which member the faulted JoinGroup carried, how many LeaveGroup requests
// carried member 1's id between the first j and the return of Close, and how many members
// the coordinator still holds.
package main

import (
	"fmt"
	"math/rand"
	"strconv"
	"sync"
	"time"

	kafka "github.com/segmentio/kafka-go"
	"kverif/groupfake"
)

const nlvHBCode = 0x1b // RebalanceInProgress

func nlvJoinCode(sc scen) int {
	c, err := strconv.ParseInt(sc.variant, 16, 16)
	if err != nil {
		return 0x10
	}
	return int(c)
}

func nlvArgs(sc scen) string { return fmt.Sprintf("%x %x", nlvHBCode, nlvJoinCode(sc)) }

// nlvOnce runs the scenario once; again = a second successful join happened before Close
// returned (the run does not show what it is meant to show).
func nlvOnce(sc scen, rng *rand.Rand, joincode int) (res string, again bool) {
	const wd = 8 * time.Second
	b := groupfake.New(groupfake.Config{
		Topics: map[string]int{topicT: 1},
		Logf: func() func(string, ...interface{}) {
			if verbose {
				return vlogf
			}
			return nil
		}(),
	})
	defer b.Close()
	b.Append(topicT, 0, rr(rng, 0, 5))
	tl := &tline{gf: b}

	var mu sync.Mutex
	phase := 0 // 0: wait for the first Heartbeat, 1: wait for the re-join, 2: done
	rejoinMember := ""
	b.SetFault(func(api, client, member string) groupfake.Fault {
		if client != clientU {
			return groupfake.Fault{}
		}
		tl.req(api, member)
		mu.Lock()
		defer mu.Unlock()
		switch {
		case phase == 0 && api == "heartbeat":
			// a Heartbeat exists only after JoinGroup, SyncGroup and OffsetFetch succeeded
			phase = 1
			return groupfake.Fault{Code: nlvHBCode}
		case phase == 1 && api == "join":
			phase = 2
			rejoinMember = member
			return groupfake.Fault{Code: int16(joincode)}
		}
		return groupfake.Fault{} // every later request (JoinGroup included) is answered normally
	})

	cfg := kafka.ReaderConfig{
		Brokers:           []string{b.Addr()},
		Topic:             topicT,
		GroupID:           "g",
		Dialer:            &kafka.Dialer{ClientID: clientU, DialFunc: b.DialFor(clientU), Timeout: ms(300)},
		QueueCapacity:     4,
		MinBytes:          1,
		MaxBytes:          1 << 20,
		MaxWait:           ms(rr(rng, 20, 60)),
		ReadBatchTimeout:  ms(200),
		ReadLagInterval:   -1,
		ReadBackoffMin:    ms(5),
		ReadBackoffMax:    ms(10),
		HeartbeatInterval: ms(rr(rng, 10, 30)),
		SessionTimeout:    ms(400),
		RebalanceTimeout:  ms(300),
		// long enough for Close to come before the Reader joins again (as a new member)
		JoinGroupBackoff: ms(400),
	}
	if verbose {
		cfg.Logger = klogger{"kafka[u]: "}
	}
	rd := kafka.NewReader(cfg)
	closeRd := func() bool { return runWatched(wd, func() { rd.Close() }) }

	// the faulted JoinGroup has been answered when the fake has written its "join" event
	answered := func() bool {
		for _, e := range b.History() {
			if e.Kind == "join" && e.Client == clientU && e.Code == joincode {
				return true
			}
		}
		return false
	}
	if !waitCond(wd, answered) {
		if verbose {
			vlogf("nlv: the faulted JoinGroup never came; stacks:\n%s", dumpStacks())
		}
		closeRd()
		return "HANG:setup", false
	}
	if !closeRd() {
		if verbose {
			vlogf("nlv: close hung; stacks:\n%s", dumpStacks())
		}
		return "HANG:close1", false
	}
	tl.rec("D1")
	members := len(b.Members())

	// evaluate the history up to the return of Close
	num := map[string]int{}
	id := func(m string) int {
		if m == "" {
			return 0
		}
		if n, ok := num[m]; ok {
			return n
		}
		num[m] = len(num) + 1
		return num[m]
	}
	first := ""
	joins, lv := 0, 0
hist:
	for _, e := range b.History() {
		switch {
		case e.Kind == "tl" && e.Note == "D1":
			break hist
		case e.Kind == "join" && e.Client == clientU && e.Code == 0 && e.Drop == 0:
			joins++
			id(e.Member)
			if first == "" {
				first = e.Member
			}
		case e.Kind == "tlq" && e.Note == "leave" && first != "" && e.Member == first:
			lv++
		}
	}
	mu.Lock()
	rj := id(rejoinMember)
	mu.Unlock()
	return fmt.Sprintf("rejoin=%x,lv=%x,members=%x", rj, lv, members), joins > 1
}

func runNlv(sc scen) result {
	rng := rand.New(rand.NewSource(sc.seed))
	joincode := nlvJoinCode(sc)
	ft := newFeats()
	ft.add("nlv")
	ft.add("hb=" + hx(nlvHBCode))
	ft.add("join=" + hx(joincode))
	ft.add("later-joins=normal")
	vlogf("scenario %d: nlv %s", sc.id, nlvArgs(sc))
	var res string
	for try := 0; try < 4; try++ {
		var again bool
		res, again = nlvOnce(sc, rng, joincode)
		if !again {
			break
		}
		if try == 3 {
			ft.add("second-join") // still raced after three retries: reported as it is
			break
		}
		ft.add("retried")
	}
	return result{nlvArgs(sc), res, ft.String()}
}
