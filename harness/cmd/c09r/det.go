// det.go: the deterministic single-threaded op `det` and the op `cac` (CommitMessages
// after Close).
package main

import (
	"context"
	"fmt"
	"math/rand"
	"strings"
	"time"

	kafka "github.com/segmentio/kafka-go"
	"kverif/groupfake"
)

// detReader creates the fake and the Reader of a det / cac scenario.
func detReader(mode, commitmode string, nrec, qcap int, rng *rand.Rand) (*groupfake.Broker, *kafka.Reader) {
	b := groupfake.New(groupfake.Config{
		Topics: map[string]int{topicT: 1},
		Logf: func() func(string, ...interface{}) {
			if verbose {
				return vlogf
			}
			return nil
		}(),
	})
	b.Append(topicT, 0, nrec)
	cfg := kafka.ReaderConfig{
		Brokers:          []string{b.Addr()},
		Topic:            topicT,
		Dialer:           &kafka.Dialer{ClientID: clientU, DialFunc: b.DialFor(clientU), Timeout: ms(300)},
		QueueCapacity:    qcap,
		MinBytes:         1,
		MaxBytes:         1 << 20,
		MaxWait:          ms(rr(rng, 20, 60)),
		ReadBatchTimeout: ms(200),
		ReadLagInterval:  -1,
		ReadBackoffMin:   ms(5),
		ReadBackoffMax:   ms(10),
	}
	if mode == "g" {
		cfg.GroupID = "g"
		cfg.HeartbeatInterval = ms(rr(rng, 10, 30))
		cfg.SessionTimeout = ms(400)
		cfg.RebalanceTimeout = ms(300)
		cfg.JoinGroupBackoff = ms(20)
		if commitmode == "a" {
			cfg.CommitInterval = ms(rr(rng, 5, 30))
		}
	}
	if verbose {
		cfg.Logger = klogger{"kafka[u]: "}
	}
	return b, kafka.NewReader(cfg)
}

// step runs one call under the watchdog; cancelAfter > 0 ends its context after that time.
func step(wd, cancelAfter time.Duration, okName string, fn func(ctx context.Context) error) (string, bool) {
	ctx, cancel := context.WithCancel(context.Background())
	var tm *time.Timer
	if cancelAfter > 0 {
		tm = time.AfterFunc(cancelAfter, cancel)
	}
	var res string
	ok := runWatched(wd, func() {
		r, oth, _ := classify(fn(ctx), okName, ctx)
		if r == "oth" {
			vlogf("step: other error %s", oth)
		}
		res = r
	})
	if !ok {
		_ = cancel // abandoned: its context is left alone
		return "", false
	}
	if tm != nil {
		tm.Stop()
	}
	cancel()
	return res, true
}

// detParams draws the parameters of a det scenario (a function of the sub-seed only, so
// that the parent can print the arguments of a scenario whose worker died).
func detParams(sc scen) (rng *rand.Rand, commitmode string, n, k, j, qcap int) {
	rng = rand.New(rand.NewSource(sc.seed))
	commitmode = commitModeOf(sc)
	n = rng.Intn(13)
	if rng.Intn(6) == 0 {
		n = rr(rng, 13, 40)
	}
	qcap = n + rng.Intn(4)
	if qcap == 0 {
		qcap = 1
	}
	if rng.Intn(5) == 0 {
		qcap = 0x40
	}
	if n > 0 {
		k = rng.Intn(n + 1)
		if sc.mode == "p" && k == 0 {
			// without a FetchMessage the partition reader of a Reader without group never
			// starts and the queue would stay empty
			k = 1
		}
	}
	j = rng.Intn(n - k + 3)
	return
}

func detArgs(sc scen) string {
	_, cm, n, k, j, qcap := detParams(sc)
	return fmt.Sprintf("%s %s %x %x %x %x", sc.mode, cm, n, k, j, qcap)
}

func runDet(sc scen) result {
	rng, commitmode, n, k, j, qcap := detParams(sc)
	mode := sc.mode
	args := detArgs(sc)
	ft := newFeats()
	ft.add("det")
	ft.add("mode=" + mode)
	ft.add("buffered=" + hx(n-k))
	vlogf("scenario %d: det %s", sc.id, args)

	const wd = 8 * time.Second
	b, rd := detReader(mode, commitmode, n, qcap, rng)
	defer b.Close()
	var out []string
	hang := func(what string) result {
		if verbose {
			vlogf("hang %s; stacks:\n%s", what, dumpStacks())
		}
		return result{args, "HANG:" + what, ft.String()}
	}
	var last kafka.Message
	fetch := func(cancelAfter time.Duration) (string, bool) {
		return step(wd, cancelAfter, "msg", func(ctx context.Context) error {
			m, err := rd.FetchMessage(ctx)
			if err == nil {
				last = m
			}
			return err
		})
	}
	for i := 0; i < k; i++ {
		r, ok := fetch(0)
		if !ok {
			return hang(fmt.Sprintf("fetch%x", i+1))
		}
		out = append(out, r)
	}
	if mode == "g" && k > 0 {
		lm := last
		r, ok := step(wd, 0, "nil", func(ctx context.Context) error { return rd.CommitMessages(ctx, lm) })
		if !ok {
			return hang("commit")
		}
		out = append(out, r)
	}
	if !waitCond(wd, func() bool { return int(rd.Stats().QueueLength) == n-k }) {
		return hang("queue")
	}
	if !runWatched(wd, func() { rd.Close() }) {
		return hang("close")
	}
	out = append(out, "D")
	seenD := true
	for i := 0; i < j; i++ {
		r, ok := fetch(ms(300))
		if !ok {
			return hang(fmt.Sprintf("latefetch%x", i+1))
		}
		if r == "msg" && seenD {
			ft.add("late-msg")
		}
		out = append(out, r)
	}
	if mode == "p" {
		r, ok := step(wd, ms(300), "nil", func(ctx context.Context) error { return rd.CommitMessages(ctx, last) })
		if !ok {
			return hang("latecommit")
		}
		out = append(out, r)
	}
	return result{args, strings.Join(out, ","), ft.String()}
}

func cacParams(sc scen) (rng *rand.Rand, commitmode string, n, qcap int) {
	rng = rand.New(rand.NewSource(sc.seed))
	commitmode = commitModeOf(sc)
	n = rr(rng, 0x10, 0x40)
	qcap = rr(rng, 1, 8)
	return
}

func cacArgs(sc scen) string {
	_, cm, n, _ := cacParams(sc)
	return fmt.Sprintf("%s %x", cm, n)
}

func runCac(sc scen) result {
	rng, commitmode, n, qcap := cacParams(sc)
	args := cacArgs(sc)
	ft := newFeats()
	ft.add("cac")
	ft.add("qcap=" + hx(qcap))
	vlogf("scenario %d: cac %s qcap=%d", sc.id, args, qcap)

	const wd = 8 * time.Second
	b, rd := detReader("g", commitmode, rr(rng, 1, 6), qcap, rng)
	defer b.Close()
	hang := func(what string) result {
		if verbose {
			vlogf("hang %s; stacks:\n%s", what, dumpStacks())
		}
		return result{args, "HANG:" + what, ft.String()}
	}
	var last kafka.Message
	if _, ok := step(wd, 0, "msg", func(ctx context.Context) error {
		m, err := rd.FetchMessage(ctx)
		last = m
		return err
	}); !ok {
		return hang("setup")
	}
	if !waitCond(wd, func() bool { return stableU(b) }) {
		return hang("setup")
	}
	if !runWatched(wd, func() { rd.Close() }) {
		return hang("close")
	}
	var cp, cx, nl, oth int
	for i := 0; i < n; i++ {
		r, ok := step(wd, ms(60), "nil", func(ctx context.Context) error { return rd.CommitMessages(ctx, last) })
		if !ok {
			return hang(fmt.Sprintf("commit%x", i+1))
		}
		switch r {
		case "cp":
			cp++
		case "ctx":
			cx++
		case "nil":
			nl++
		default:
			oth++
		}
	}
	if cx+nl+oth > 0 {
		ft.add("late-commit-not-cp")
	}
	return result{args, fmt.Sprintf("%x:%x:%x:%x", cp, cx, nl, oth), ft.String()}
}
