// c09r: correspondence harness for the Reader / ConsumerGroup / Transport half of C09
// ("Close, cancellation and use-after-close behave and terminate in every schedule").
//
// common.go: the timeline (one total order of tokens), the connection and goroutine
// census, the watchdog helpers and the classification of results.
package main

import (
	"bytes"
	"context"
	"errors"
	"fmt"
	"io"
	"net"
	"os"
	"runtime"
	"sort"
	"strings"
	"sync"
	"sync/atomic"
	"time"

	"kverif/fetchfake"
	"kverif/groupfake"
)

// ---------------------------------------------------------------- verbose log

var (
	verbose bool
	logMu   sync.Mutex
	logT0   = time.Now()
)

func vlogf(format string, args ...interface{}) {
	if !verbose {
		return
	}
	logMu.Lock()
	fmt.Fprintf(os.Stderr, "[%7.1fms] %s\n", float64(time.Since(logT0).Microseconds())/1000, strings.TrimRight(fmt.Sprintf(format, args...), "\n"))
	logMu.Unlock()
}

// klogger is the kafka.Logger given to the Reader in verbose mode.
type klogger struct{ prefix string }

func (l klogger) Printf(format string, args ...interface{}) {
	vlogf(l.prefix+format, args...)
}

// ---------------------------------------------------------------- timeline

// client id of the Reader / Transport under test, and of the auxiliary Reader.
const (
	clientU = "u"
	clientV = "v"
)

// tline is the one globally ordered timeline of a scenario.  With a groupfake broker
// the tokens are stored in the broker's own history (Broker.Record: the same mutex
// orders them with the "join" events the coordinator writes); otherwise they are
// kept here and the events of the fetchfake are pulled in before every append.
type tline struct {
	gf *groupfake.Broker

	mu     sync.Mutex
	toks   []string
	ff     *fetchfake.Fake
	ffNext int

	// notes: feature tags found while projecting the groupfake history (see tokens)
	notes []string

	// aoc: the fake's "ocommit" events of the client become `aoc` tokens (the answer of an
	// OffsetCommit has been produced)
	aoc bool
}

func (t *tline) rec(tok string) {
	if t.gf != nil {
		t.gf.Record(groupfake.Event{Kind: "tl", Note: tok})
	} else {
		t.mu.Lock()
		t.pullLocked()
		t.toks = append(t.toks, tok)
		t.mu.Unlock()
	}
	vlogf("TL %s", tok)
}

// req journals a request that arrived at the groupfake (called from the FaultFunc).
func (t *tline) req(api, member string) {
	t.gf.Record(groupfake.Event{Kind: "tlq", Note: api, Member: member})
	vlogf("TL q%s member=%q", api, member)
}

func (t *tline) pullLocked() {
	if t.ff == nil {
		return
	}
	evs := t.ff.EventsFrom(t.ffNext)
	t.ffNext += len(evs)
	for _, e := range evs {
		switch e.Kind {
		case fetchfake.EvFetch:
			t.toks = append(t.toks, "qfe:0")
		case fetchfake.EvMetadata:
			t.toks = append(t.toks, "qmd:0")
		case fetchfake.EvListOffsets:
			t.toks = append(t.toks, "qlo:0")
		case fetchfake.EvUnknown:
			t.toks = append(t.toks, "qpr:0")
		}
	}
}

var apiShort = map[string]string{
	"heartbeat": "hb", "ocommit": "oc", "fetch": "fe", "join": "jo", "sync": "sy", "ofetch": "of",
	"leave": "lv", "findcoordinator": "fc", "listoffsets": "lo", "metadata": "md",
}

// tokens ends the timeline and returns it.
func (t *tline) tokens() []string {
	if t.gf == nil {
		t.mu.Lock()
		defer t.mu.Unlock()
		t.pullLocked()
		return append([]string(nil), t.toks...)
	}
	num := map[string]int{}
	id := func(m string) int {
		if m == "" {
			return 0
		}
		if n, ok := num[m]; ok {
			return n
		}
		num[m] = len(num) + 1
		return num[m]
	}
	var out []string
	lastJ := "" // member id of the last j that no D followed yet
	for _, e := range t.gf.History() {
		if lastJ != "" && e.Member == lastJ {
			// why the member of the last j may not have to (or cannot) leave
			switch {
			case e.Kind == "evict":
				t.notes = append(t.notes, "evicted")
			case (e.Kind == "join" || e.Kind == "sync" || e.Kind == "hb") && e.Client == clientU && e.Code != 0:
				t.notes = append(t.notes, fmt.Sprintf("member-error=%s:%x", e.Kind, e.Code))
			}
		}
		switch e.Kind {
		case "tl":
			if e.Note[0] == 'D' {
				lastJ = ""
			}
			out = append(out, e.Note)
		case "tlq":
			s := apiShort[e.Note]
			if s == "" {
				s = "pr"
			}
			out = append(out, fmt.Sprintf("q%s:%x", s, id(e.Member)))
		case "join":
			if e.Client == clientU && e.Code == 0 && e.Drop == 0 {
				out = append(out, fmt.Sprintf("j%x", id(e.Member)))
				lastJ = e.Member
			}
		case "ocommit":
			if t.aoc && e.Client == clientU {
				out = append(out, "aoc")
			}
		}
	}
	return out
}

// ---------------------------------------------------------------- census

type dialFunc func(ctx context.Context, network, address string) (net.Conn, error)

// connCensus counts the client connections opened through wrap and not yet closed.
type connCensus struct {
	open   int64
	opened int64
}

type countedConn struct {
	net.Conn
	c    *connCensus
	once sync.Once
}

func (c *countedConn) Close() error {
	c.once.Do(func() { atomic.AddInt64(&c.c.open, -1) })
	return c.Conn.Close()
}

func (cc *connCensus) wrap(d dialFunc) dialFunc {
	return func(ctx context.Context, network, address string) (net.Conn, error) {
		c, err := d(ctx, network, address)
		if err != nil {
			return nil, err
		}
		atomic.AddInt64(&cc.open, 1)
		atomic.AddInt64(&cc.opened, 1)
		return &countedConn{Conn: c, c: cc}, nil
	}
}

func (cc *connCensus) nOpen() int { return int(atomic.LoadInt64(&cc.open)) }

const kafkaPkg = "github.com/segmentio/kafka-go"

// kafkaGoroutines counts the goroutines that were started by a go statement inside
// kafka-go ("created by github.com/segmentio/kafka-go…"), i.e. the goroutines of a
// Reader / ConsumerGroup / Transport / Dialer, and summarises where they are.  The
// goroutines of the fakes and of the harness itself (the call goroutines, which are
// created by package main) do not count.
func kafkaGoroutines() (int, string) {
	n, where, _ := kafkaGoroutinesP()
	return n, where
}

// kafkaGoroutinesP also tells whether one of these goroutines is parked in the promise of a
// Transport round trip: its stack contains async.resolve / async.reject, or it is
// (*conn).run blocked in a channel send.
func kafkaGoroutinesP() (int, string, bool) {
	n, where, parked, _ := kafkaGoroutinesPO()
	return n, where, parked
}

// kafkaGoroutinesPO also tells whether one of them is an orphaned Transport connection: a
// (*conn).run that waits for requests (not inside a round trip).
func kafkaGoroutinesPO() (int, string, bool, bool) {
	n, where, parked, orphan, _ := kafkaCensus()
	return n, where, parked, orphan
}

// kafkaCensus: … and stuck = a Transport connection goroutine ((*conn).run created by
// connGroup.connect) that is blocked inside a round trip.
func kafkaCensus() (int, string, bool, bool, bool) {
	buf := make([]byte, 1<<20)
	for {
		n := runtime.Stack(buf, true)
		if n < len(buf) {
			buf = buf[:n]
			break
		}
		buf = make([]byte, 2*len(buf))
	}
	n := 0
	parked, orphan, stuck := false, false, false
	where := map[string]int{}
	for _, blk := range bytes.Split(buf, []byte("\n\n")) {
		lines := strings.Split(string(blk), "\n")
		created := ""
		for _, l := range lines {
			if strings.HasPrefix(l, "created by ") {
				created = l
			}
		}
		if !strings.Contains(created, kafkaPkg) {
			continue
		}
		n++
		body := string(blk)
		if strings.Contains(body, "async.resolve") || strings.Contains(body, "async.reject") ||
			(strings.Contains(lines[0], "[chan send") && strings.Contains(body, "(*conn).run")) {
			parked = true
		}
		if strings.Contains(body, "(*conn).run") && !strings.Contains(body, "(*conn).roundTrip") && strings.Contains(lines[0], "[chan receive") {
			orphan = true
		}
		if strings.Contains(body, "(*conn).run") && strings.Contains(created, "connGroup).connect") &&
			(strings.Contains(body, "(*conn).roundTrip") || strings.Contains(body, "protocol.RoundTrip")) {
			stuck = true
		}
		top := ""
		for _, l := range lines[1:] {
			if strings.HasPrefix(l, kafkaPkg) {
				top = l
				break
			}
		}
		where[frameName(top)+"<"+frameName(strings.TrimPrefix(created, "created by "))]++
	}
	var keys []string
	for k, c := range where {
		if c > 1 {
			k = fmt.Sprintf("%s*%d", k, c)
		}
		keys = append(keys, k)
	}
	sort.Strings(keys)
	return n, strings.Join(keys, "/"), parked, orphan, stuck
}

// frameName shortens "github.com/segmentio/kafka-go.(*Reader).run.func1(0x…)" or
// "…kafka-go.(*reader).run in goroutine 12" to "(*Reader).run.func1".
func frameName(l string) string {
	l = strings.TrimPrefix(l, kafkaPkg)
	l = strings.TrimPrefix(l, "/")
	l = strings.TrimPrefix(l, ".")
	if i := strings.Index(l, " in goroutine"); i >= 0 {
		l = l[:i]
	}
	// drop the argument list (the last parenthesis group)
	if strings.HasSuffix(l, ")") {
		if i := strings.LastIndex(l, "("); i > 0 {
			l = l[:i]
		}
	}
	return sanitize(l, 60)
}

func dumpStacks() string {
	buf := make([]byte, 1<<20)
	n := runtime.Stack(buf, true)
	return string(buf[:n])
}

// sanitize makes a text safe for a result or a feature tag.
func sanitize(s string, max int) string {
	var b strings.Builder
	for _, r := range s {
		switch {
		case r == ' ' || r == '\t' || r == '\n':
			b.WriteByte('_')
		case r == ',' || r == '|' || r == '+' || r == ';':
			b.WriteByte('.')
		case r < 0x20 || r > 0x7e:
			b.WriteByte('?')
		default:
			b.WriteRune(r)
		}
		if b.Len() >= max {
			break
		}
	}
	return b.String()
}

// ---------------------------------------------------------------- results

// classify maps the error of a call to the result names of the interchange format.
// "ctx" is an error that wraps the error of the call's OWN context (which has ended); a
// context error from somewhere else (an internal deadline of kafka-go that surfaces) is
// "oth", foreign = true.
func classify(err error, okName string, ctx context.Context) (res, oth string, foreign bool) {
	switch {
	case err == nil:
		return okName, "", false
	case errors.Is(err, io.EOF):
		return "eof", "", false
	case errors.Is(err, io.ErrClosedPipe):
		return "cp", "", false
	case ctx.Err() != nil && errors.Is(err, ctx.Err()):
		return "ctx", "", false
	case errors.Is(err, context.Canceled), errors.Is(err, context.DeadlineExceeded):
		return "oth", sanitize(err.Error(), 70), true
	}
	return "oth", sanitize(err.Error(), 70), false
}

// runWatched runs fn in its own goroutine and waits for it under the watchdog.
func runWatched(wd time.Duration, fn func()) bool {
	done := make(chan struct{})
	go func() {
		defer close(done)
		fn()
	}()
	t := time.NewTimer(wd)
	defer t.Stop()
	select {
	case <-done:
		return true
	case <-t.C:
		return false
	}
}

func waitCond(d time.Duration, cond func() bool) bool {
	dl := time.Now().Add(d)
	for {
		if cond() {
			return true
		}
		if time.Now().After(dl) {
			return false
		}
		time.Sleep(2 * time.Millisecond)
	}
}

func hx(v int) string { return fmt.Sprintf("%x", v) }

func maxDur(a, b time.Duration) time.Duration {
	if a > b {
		return a
	}
	return b
}

// feats is a set of feature tags (plain tags and key=value tags).
type feats struct {
	mu sync.Mutex
	m  map[string]bool
}

func newFeats() *feats { return &feats{m: map[string]bool{}} }

func (f *feats) add(tag string) {
	f.mu.Lock()
	f.m[tag] = true
	f.mu.Unlock()
}

// setOnce adds key=value unless a tag with that key exists.
func (f *feats) setOnce(key, val string) {
	f.mu.Lock()
	defer f.mu.Unlock()
	for k := range f.m {
		if strings.HasPrefix(k, key+"=") {
			return
		}
	}
	f.m[key+"="+val] = true
}

func (f *feats) String() string {
	f.mu.Lock()
	defer f.mu.Unlock()
	var l []string
	for k := range f.m {
		l = append(l, k)
	}
	// kind= first, the rest sorted
	sort.Slice(l, func(i, j int) bool {
		ki, kj := strings.HasPrefix(l[i], "kind="), strings.HasPrefix(l[j], "kind=")
		if ki != kj {
			return ki
		}
		return l[i] < l[j]
	})
	if len(l) == 0 {
		return "."
	}
	return strings.Join(l, ",")
}
