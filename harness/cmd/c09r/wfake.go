// wfake.go: a small wire-level fake broker for the Writer scenarios (mode w): ApiVersions,
// Metadata and Produce over net.Pipe connections, decoded / encoded with kafka-go's protocol
// package.  One broker (node 1, wfake:9092) that leads every partition.  A fault function
// can delay an answer or close the connection late instead of answering.
package main

import (
	"context"
	"errors"
	"net"
	"sort"
	"sync"
	"time"

	"github.com/segmentio/kafka-go/protocol"
	"github.com/segmentio/kafka-go/protocol/apiversions"
	meta "github.com/segmentio/kafka-go/protocol/metadata"
	"github.com/segmentio/kafka-go/protocol/produce"
)

const (
	wfakeHost = "wfake"
	wfakePort = 9092
	wfakeAddr = "wfake:9092"
)

// wfault: answer after delay; drop = close the connection (after the delay) instead.
type wfault struct {
	delay time.Duration
	drop  bool
	// silent: never answered; the fake keeps its side open and only watches for the client
	// closing the connection
	silent bool
}

type wfake struct {
	mu      sync.Mutex
	topics  map[string]int // topic -> partitions
	offsets map[string]int64
	conns   map[net.Conn]struct{}
	closed  bool
	done    chan struct{}
	wg      sync.WaitGroup
	pending int // delayed answers / closes that are still due
	nreq    map[string]int

	// fault is called (without the lock) for every ApiVersions ("apiversions": the connection
	// set-up), Metadata ("metadata", auto = the request allows topic creation and names topics)
	// and Produce ("produce") request
	fault func(api string, auto bool) wfault
	// journal, when set, is called for every Metadata and Produce request that arrived
	journal func(api string)
}

func newWfake(topics map[string]int) *wfake {
	return &wfake{topics: topics, offsets: map[string]int64{}, conns: map[net.Conn]struct{}{}, done: make(chan struct{}), nreq: map[string]int{}}
}

func (f *wfake) dial(ctx context.Context, network, address string) (net.Conn, error) {
	if err := ctx.Err(); err != nil {
		return nil, err
	}
	f.mu.Lock()
	defer f.mu.Unlock()
	if f.closed {
		return nil, errors.New("wfake: closed")
	}
	cli, srv := net.Pipe()
	f.conns[srv] = struct{}{}
	f.wg.Add(1)
	go f.serve(srv)
	return &wfakeConn{Conn: cli}, nil
}

// wfakeConn gives the client end host:port addresses.
type wfakeConn struct{ net.Conn }

type wfakeNetAddr string

func (a wfakeNetAddr) Network() string { return "tcp" }
func (a wfakeNetAddr) String() string  { return string(a) }

func (c *wfakeConn) LocalAddr() net.Addr  { return wfakeNetAddr("client:10000") }
func (c *wfakeConn) RemoteAddr() net.Addr { return wfakeNetAddr(wfakeAddr) }

func (f *wfake) close() {
	f.mu.Lock()
	if f.closed {
		f.mu.Unlock()
		return
	}
	f.closed = true
	close(f.done)
	for c := range f.conns {
		c.Close()
	}
	f.mu.Unlock()
	f.wg.Wait()
}

// quiet: no delayed answer or close is due any more.
func (f *wfake) quiet() bool {
	f.mu.Lock()
	defer f.mu.Unlock()
	return f.pending == 0
}

func (f *wfake) requests(api string) int {
	f.mu.Lock()
	defer f.mu.Unlock()
	return f.nreq[api]
}

var wfakeVersions = []apiversions.ApiKeyResponse{
	{ApiKey: int16(protocol.Produce), MinVersion: 3, MaxVersion: 7},
	{ApiKey: int16(protocol.Metadata), MinVersion: 1, MaxVersion: 6},
	{ApiKey: int16(protocol.ApiVersions), MinVersion: 0, MaxVersion: 0},
}

func (f *wfake) serve(c net.Conn) {
	defer f.wg.Done()
	defer func() {
		c.Close()
		f.mu.Lock()
		delete(f.conns, c)
		f.mu.Unlock()
	}()
	for {
		ver, corr, _, msg, err := protocol.ReadRequest(c)
		if err != nil || msg == nil {
			return
		}
		var res protocol.Message
		var flt wfault
		switch req := msg.(type) {
		case *apiversions.Request:
			f.count("apiversions")
			if f.fault != nil {
				flt = f.fault("apiversions", false)
			}
			if !f.late(flt) {
				return
			}
			res = &apiversions.Response{ApiKeys: wfakeVersions}
		case *meta.Request:
			auto := req.AllowAutoTopicCreation && len(req.TopicNames) > 0
			f.count("metadata")
			vlogf("wfake: metadata v%d topics=%v auto=%v", ver, req.TopicNames, req.AllowAutoTopicCreation)
			if f.journal != nil {
				f.journal("metadata")
			}
			if f.fault != nil {
				flt = f.fault("metadata", auto)
			}
			if flt.silent {
				f.hush(c)
				return
			}
			if !f.late(flt) {
				return
			}
			res = f.metadata(req)
		case *produce.Request:
			f.count("produce")
			vlogf("wfake: produce v%d acks=%d", ver, req.Acks)
			if f.fault != nil {
				flt = f.fault("produce", false)
			}
			if !f.late(flt) {
				return
			}
			res = f.produce(req)
		default:
			vlogf("wfake: unexpected request %T", msg)
			return
		}
		c.SetWriteDeadline(time.Now().Add(5 * time.Second))
		if err := protocol.WriteResponse(c, ver, corr, res); err != nil {
			return
		}
	}
}

func (f *wfake) count(api string) {
	f.mu.Lock()
	f.nreq[api]++
	f.mu.Unlock()
}

// open is the number of connections that the fake still sees open (no EOF from the client yet).
func (f *wfake) open() int {
	f.mu.Lock()
	defer f.mu.Unlock()
	return len(f.conns)
}

// hush: the request is never answered; returns when the client has closed the connection (or
// the fake is shut down).
func (f *wfake) hush(c net.Conn) {
	buf := make([]byte, 512)
	for {
		if _, err := c.Read(buf); err != nil {
			return
		}
	}
}

// late waits for the delay of a fault; false = close the connection now.
func (f *wfake) late(flt wfault) bool {
	if flt.delay > 0 {
		f.mu.Lock()
		f.pending++
		f.mu.Unlock()
		t := time.NewTimer(flt.delay)
		ok := true
		select {
		case <-t.C:
		case <-f.done:
			ok = false
		}
		t.Stop()
		f.mu.Lock()
		f.pending--
		f.mu.Unlock()
		if !ok {
			return false
		}
	}
	return !flt.drop
}

func (f *wfake) metadata(req *meta.Request) *meta.Response {
	f.mu.Lock()
	defer f.mu.Unlock()
	res := &meta.Response{
		Brokers:      []meta.ResponseBroker{{NodeID: 1, Host: wfakeHost, Port: wfakePort}},
		ClusterID:    "wfake",
		ControllerID: 1,
		Topics:       []meta.ResponseTopic{},
	}
	names := req.TopicNames
	if names == nil {
		for t := range f.topics {
			names = append(names, t)
		}
		sort.Strings(names)
	}
	for _, name := range names {
		n, ok := f.topics[name]
		if !ok && req.AllowAutoTopicCreation {
			f.topics[name], n, ok = 1, 1, true
		}
		t := meta.ResponseTopic{Name: name, Partitions: []meta.ResponsePartition{}}
		if !ok {
			t.ErrorCode = 3 // UnknownTopicOrPartition
		}
		for p := 0; p < n; p++ {
			t.Partitions = append(t.Partitions, meta.ResponsePartition{PartitionIndex: int32(p), LeaderID: 1,
				ReplicaNodes: []int32{1}, IsrNodes: []int32{1}, OfflineReplicas: []int32{}})
		}
		res.Topics = append(res.Topics, t)
	}
	return res
}

func (f *wfake) produce(req *produce.Request) *produce.Response {
	f.mu.Lock()
	defer f.mu.Unlock()
	res := &produce.Response{}
	for _, t := range req.Topics {
		rt := produce.ResponseTopic{Topic: t.Topic}
		for _, p := range t.Partitions {
			key := t.Topic + "/" + string(rune('0'+p.Partition))
			rp := produce.ResponsePartition{Partition: p.Partition, BaseOffset: f.offsets[key], LogAppendTime: -1}
			if n, ok := f.topics[t.Topic]; !ok || int(p.Partition) >= n {
				rp.ErrorCode = 3
			} else {
				f.offsets[key]++
			}
			rt.Partitions = append(rt.Partitions, rp)
		}
		res.Topics = append(res.Topics, rt)
	}
	return res
}
