// c09r -seed S -n N [-workers W] [-only I] [-list] [-deadline D]
//
// The parent process plans N scenarios from ONE math/rand PRNG seeded by S (op, mode, kind and a
// sub-seed per scenario), re-executes itself as W worker processes (worker w runs the scenarios
// with index ≡ w mod W, serially) and prints one line per scenario, in id order:
//
//	<id> e2e <mode> <commitmode> ; <tok>,<tok>,… | ok or HANG:…+LEAK:g=…,c=…+… | <tags>
//	<id> det <mode> <commitmode> <N> <k> <j> <qcap> | msg,…,nil,D,msg,…,eof,… | det,mode=…,buffered=…[,late-msg]
//	<id> cac <commitmode> <n> | <cp>:<ctx>:<nil>:<oth> | cac,qcap=…[,late-commit-not-cp]
//	<id> gse <hbfault> <wind> | fnret_before_close=<0|1>,join_before_fnret=<0|1>,commit=<nil|err|none>,census=<ok|LEAK:…> | gse,hb=…,wind=…
//	<id> nlv <hbcode> <joincode> | rejoin=<m>,lv=<n>,members=<n> | nlv,hb=…,join=…,later-joins=normal[,retried]
//
// mode: p (Reader, Partition), g (Reader, GroupID), t (kafka.Client / Transport; C/D =
// CloseIdleConnections), w (kafka.Writer on a Transport against wfake; call kind w =
// WriteMessages, C1/D1 = Writer.Close, C2/D2 = Transport.CloseIdleConnections; no q tokens).
// Guaranteed for N >= 20 (converted from the last ordinary e2e entries): 2 nlv, and the "late
// answer" family (tag late-answer-family): 3 t late-answer, 2 t late-close, w-late-produce,
// w-late-close, w-late-metadata, late-reply-reader in g and in p; and (N >= 28) 3 gse and 3 mode g
// gen-self-end (tag gen-self-end-family; verdicts OVERLAP:join-before-commit-answered and
// OVERLAP:close-before-commit-answered, see e2e_gf.go and hold.go); and (N >= 46) the "silent
// step" family (mode p, tag silent-step-family, e2e_ss.go / sfake.go) and the "connect race" family
// (modes t and w, tag connect-race-family, e2e_cr.go; incl. 2 t refresh-silent + w-refresh-silent,
// tag refresh-silent-family).
//
// Timeline tokens (one total order): c<cid>:<f|r|m|t|w>  x<cid>  r<cid>:<msg|nil|eof|cp|ctx|oth>
// C<k> D<k>  q<api>:<m>  j<m>.  A worker that reported HANG or LEAK exits (code 3) and the parent
// starts a fresh one for the rest; a worker that dies gives PANIC:<stderr> for the scenario it had
// begun; a worker that exceeds the global deadline is killed (HANG:worker for what it left).
// -only I runs scenario I alone in this process with a verbose log on stderr.
package main

import (
	"bufio"
	"flag"
	"fmt"
	"io"
	"math/rand"
	"os"
	"os/exec"
	"runtime"
	"strconv"
	"strings"
	"sync"
	"sync/atomic"
	"time"
)

// plan draws the scenarios (op, mode, kind, sub-seed) of a run.
func plan(seed int64, n int) []scen {
	rng := rand.New(rand.NewSource(seed))
	ncac := n / 10
	ndet := n / 5
	if n >= 20 {
		if ncac < 2 {
			ncac = 2
		}
		if ndet < 6 {
			ndet = 6
		}
	}
	ne2e := n - ncac - ndet
	nt := (ne2e*15 + 50) / 100
	np := (ne2e*35 + 50) / 100
	ng := ne2e - nt - np
	var l []scen
	for i := 0; i < ncac; i++ {
		l = append(l, scen{op: "cac"})
	}
	for i := 0; i < ndet; i++ {
		l = append(l, scen{op: "det", mode: []string{"p", "g"}[i%2]})
	}
	for i := 0; i < np; i++ {
		l = append(l, scen{op: "e2e", mode: "p"})
	}
	for i := 0; i < ng; i++ {
		l = append(l, scen{op: "e2e", mode: "g"})
	}
	for i := 0; i < nt; i++ {
		l = append(l, scen{op: "e2e", mode: "t"})
	}
	rng.Shuffle(len(l), func(i, j int) { l[i], l[j] = l[j], l[i] })

	// the expensive scenarios come first, on consecutive indexes (= different workers):
	// index 0: the one scenario with a broker silent at ListOffsets (10 s hard-coded deadline),
	// then up to three scenarios with a silent coordinator (5 s ConsumerGroupConfig.Timeout).
	front := 0
	toFront := func(mode string) bool {
		for i := front; i < len(l); i++ {
			if l[i].op == "e2e" && l[i].mode == mode {
				l[front], l[i] = l[i], l[front]
				front++
				return true
			}
		}
		return false
	}
	if n >= 100 && toFront("p") {
		l[front-1].kind, l[front-1].variant = "silent", "lo"
	}
	nsilent := 0
	switch {
	case n >= 100:
		nsilent = 3
	case n >= 40:
		nsilent = 2
	case n >= 20:
		nsilent = 1
	}
	for i := 0; i < nsilent; i++ {
		if toFront("g") {
			l[front-1].kind = "coord-silent"
		}
	}
	for i := range l {
		l[i].id = i + 1
		l[i].seed = rng.Int63()
		if l[i].op != "e2e" || l[i].kind != "" {
			continue
		}
		switch l[i].mode {
		case "p":
			if rng.Intn(10) < 3 {
				l[i].kind = pKindsFF[rng.Intn(len(pKindsFF))]
				l[i].variant = "ff"
				if l[i].kind == "silent" && rng.Intn(3) == 0 {
					l[i].variant = "gf"
				}
			} else {
				l[i].kind = pKindsGF[rng.Intn(len(pKindsGF))]
			}
		case "g":
			l[i].kind = gKinds[rng.Intn(len(gKinds))]
		case "t":
			l[i].kind = tKinds[rng.Intn(len(tKinds))]
		}
	}
	// op nlv (replay of "no LeaveGroup after a failed re-join"): the last two ordinary mode g
	// e2e entries become nlv scenarios; every other entry keeps its id, sub-seed and kind.
	if n >= 20 {
		codes := []string{"f", "10"} // assigned from the back: the first nlv of the run gets 0x10
		for i := len(l) - 1; i >= front && len(codes) > 0; i-- {
			if l[i].op == "e2e" && l[i].mode == "g" {
				l[i].op, l[i].mode, l[i].kind, l[i].variant = "nlv", "", "", codes[0]
				codes = codes[1:]
			}
		}
	}
	// the "late answer" family (cancel during a round trip, the broker answers or closes the
	// connection LATE) is guaranteed in every run with N >= 20: the last ordinary mode p / g
	// e2e entries are converted (the others keep id, sub-seed and kind).  In priority order,
	// as far as entries are left: 3 t late-answer, 2 t late-close, one of each w kind, one
	// late-reply-reader in mode g and one in mode p.
	if n >= 20 {
		type fam struct{ mode, kind string }
		want := []fam{{"t", "late-answer"}, {"t", "late-close"}, {"w", "w-late-produce"}, {"w", "w-late-close"}, {"w", "w-late-metadata"},
			{"t", "late-answer"}, {"g", "late-reply-reader"}, {"t", "late-answer"}, {"t", "late-close"}, {"p", "late-reply-reader"}}
		// (ordinary mode t entries are taken only when a small N leaves no other)
		for pass := 0; pass < 2; pass++ {
			for i := len(l) - 1; i >= front && len(want) > 0; i-- {
				ordinary := l[i].op == "e2e" && !strings.HasPrefix(l[i].kind, "late-") && !strings.HasPrefix(l[i].kind, "w-late-")
				if !ordinary || (pass == 0) != (l[i].mode == "p" || l[i].mode == "g") {
					continue
				}
				l[i].mode = want[0].mode
				l[i].kind, l[i].variant = want[0].kind, ""
				want = want[1:]
			}
		}
		// the "generation ends on its own" family, taken from the entries that are left (all of
		// it for N >= 28): op gse with hbfault 1b, 19, 0 and the mode g kind gen-self-end with
		// heartbeat code 1b, 19, 16
		type gfam struct{ op, kind, variant string }
		wantG := []gfam{{"gse", "", "1b"}, {"e2e", "gen-self-end", "1b"}, {"gse", "", "19"}, {"e2e", "gen-self-end", "19"},
			{"gse", "", "0"}, {"e2e", "gen-self-end", "16"}}
		for pass := 0; pass < 2; pass++ {
			for i := len(l) - 1; i >= front && len(wantG) > 0; i-- {
				k := l[i].kind
				ordinary := l[i].op == "e2e" && !strings.HasPrefix(k, "late-") && !strings.HasPrefix(k, "w-late-") && k != "gen-self-end"
				if !ordinary || (pass == 0) != (l[i].mode == "p" || l[i].mode == "g") {
					continue
				}
				w := wantG[0]
				wantG = wantG[1:]
				l[i].op, l[i].kind, l[i].variant = w.op, w.kind, w.variant
				l[i].mode = "g"
				if w.op == "gse" {
					l[i].mode = ""
				}
			}
		}
	}
	// the "silent step" family (mode p; kind silent-metadata once on sfake and once on
	// groupfake) and the "connect race" family (mode t, one mode w), taken from the entries
	// that are left (all of them for N >= 46)
	if n >= 20 {
		type sfam struct{ mode, kind, variant string }
		want := []sfam{{"p", "silent-metadata", "ss"}, {"t", "setup-late-pool-closed", ""}, {"p", "silent-mid", "ss"}, {"t", "setup-late-pool-closed", "discover"},
			{"p", "silent-accept", "ss"}, {"t", "setup-late-pool-open", ""}, {"p", "silent-metadata", "gf"}, {"t", "setup-fails-late", ""},
			{"p", "silent-apiversions", "ss"}, {"t", "setup-late-pool-closed", ""}, {"p", "silent-fetch", "ss"}, {"w", "w-setup-late", ""},
			{"t", "refresh-silent", ""}, {"w", "w-refresh-silent", ""}, {"t", "refresh-silent", ""}}
		for pass := 0; pass < 2; pass++ {
			for i := len(l) - 1; i >= front && len(want) > 0; i-- {
				if l[i].op != "e2e" || reservedKind(l[i].kind) || (pass == 0) != (l[i].mode == "p" || l[i].mode == "g") {
					continue
				}
				l[i].mode, l[i].kind, l[i].variant = want[0].mode, want[0].kind, want[0].variant
				want = want[1:]
			}
		}
	}
	return l
}

// reservedKind: a kind of one of the guaranteed families (never drawn at random).
func reservedKind(k string) bool {
	return strings.HasPrefix(k, "late-") || strings.HasPrefix(k, "w-late-") || k == "gen-self-end" ||
		(strings.HasPrefix(k, "silent-") && k != "silent-ctx") || strings.HasPrefix(k, "setup-") || k == "w-setup-late" || strings.HasSuffix(k, "refresh-silent")
}

// argPrefix is what the parent prints for a scenario that never produced its line.
func argPrefix(sc scen) string {
	switch sc.op {
	case "e2e":
		return sc.mode + " " + commitModeOf(sc) + " ; ."
	case "det":
		return detArgs(sc)
	case "nlv":
		return nlvArgs(sc)
	case "gse":
		return gseArgs(sc)
	}
	return cacArgs(sc)
}

func runScenario(sc scen) result {
	procs := []int{2, 4, 8, 16}[int(uint64(sc.seed)%4)]
	if procs > runtime.NumCPU() {
		procs = runtime.NumCPU()
	}
	runtime.GOMAXPROCS(procs)
	switch sc.op {
	case "det":
		return runDet(sc)
	case "cac":
		return runCac(sc)
	case "nlv":
		return runNlv(sc)
	case "gse":
		return runGse(sc)
	}
	switch {
	case sc.variant == "ss":
		return runSS(sc)
	case strings.HasPrefix(sc.kind, "setup-") || sc.kind == "w-setup-late" || strings.HasSuffix(sc.kind, "refresh-silent"):
		return runCR(sc)
	case sc.mode == "w":
		return runW(sc)
	case sc.mode == "t":
		return runT(sc)
	case sc.variant == "ff":
		return runFF(sc)
	}
	return runGF(sc)
}

func fmtLine(sc scen, r result) string {
	return fmt.Sprintf("%d %s %s | %s | %s", sc.id, sc.op, r.args, r.res, r.feats)
}

const exitRestart = 3

func workerMain(scens []scen, w, of, from int) {
	out := bufio.NewWriter(os.Stdout)
	for i, sc := range scens {
		if i%of != w || sc.id < from {
			continue
		}
		fmt.Fprintf(os.Stderr, "BEGIN %d\n", sc.id)
		selfTest(sc.id)
		r := runScenario(sc)
		fmt.Fprintln(out, fmtLine(sc, r))
		out.Flush()
		if strings.Contains(r.res, "HANG") || strings.Contains(r.res, "LEAK") {
			// abandoned goroutines are still around: go on in a fresh process
			os.Exit(exitRestart)
		}
	}
}

// selfTest exercises the parent's handling of dying and stalling workers:
// C09R_TEST_CRASH=<id> panics in a goroutine, C09R_TEST_STALL=<id> never finishes.
func selfTest(id int) {
	if os.Getenv("C09R_TEST_CRASH") == fmt.Sprint(id) {
		go func() { panic("selftest: crash in a goroutine") }()
		time.Sleep(time.Second)
	}
	if os.Getenv("C09R_TEST_STALL") == fmt.Sprint(id) {
		time.Sleep(time.Hour)
	}
}

type tailBuf struct {
	mu    sync.Mutex
	lines []string
	begun int
}

func (t *tailBuf) add(l string) {
	t.mu.Lock()
	defer t.mu.Unlock()
	if strings.HasPrefix(l, "BEGIN ") {
		t.begun, _ = strconv.Atoi(strings.TrimPrefix(l, "BEGIN "))
		t.lines = t.lines[:0]
		return
	}
	t.lines = append(t.lines, l)
	if len(t.lines) > 400 {
		t.lines = append(t.lines[:0], t.lines[len(t.lines)-200:]...)
	}
}

// panicText extracts the panic message and the first frames from a crashed worker's stderr.
func (t *tailBuf) panicText() string {
	t.mu.Lock()
	defer t.mu.Unlock()
	start := 0
	for i, l := range t.lines {
		if strings.HasPrefix(l, "panic:") || strings.HasPrefix(l, "fatal error:") {
			start = i
			break
		}
	}
	var keep []string
	for _, l := range t.lines[start:] {
		l = strings.TrimSpace(l)
		if l == "" || strings.HasPrefix(l, "/") || strings.HasPrefix(l, "goroutine ") {
			continue
		}
		keep = append(keep, l)
		if len(keep) >= 6 {
			break
		}
	}
	if len(keep) == 0 {
		return "worker-died"
	}
	return sanitize(strings.Join(keep, ";"), 300)
}

func main() {
	seed := flag.Int64("seed", 1, "PRNG seed")
	n := flag.Int("n", 150, "number of scenarios")
	workers := flag.Int("workers", 12, "worker processes")
	only := flag.Int("only", 0, "run only this scenario, verbosely, in this process")
	worker := flag.Int("worker", -1, "(internal) worker index")
	of := flag.Int("of", 0, "(internal) number of workers")
	from := flag.Int("from", 0, "(internal) skip the scenarios with a smaller id")
	deadline := flag.Duration("deadline", 0, "global deadline per worker (default 60s + 3s per scenario of the worker)")
	list := flag.Bool("list", false, "print the plan only")
	flag.Parse()

	scens := plan(*seed, *n)
	if *list {
		for _, sc := range scens {
			fmt.Printf("%d %s %s %s %s\n", sc.id, sc.op, sc.mode, sc.kind, sc.variant)
		}
		return
	}
	if *only > 0 {
		if *only > len(scens) {
			fmt.Fprintln(os.Stderr, "no such scenario")
			os.Exit(2)
		}
		verbose = true
		sc := scens[*only-1]
		logT0 = time.Now()
		fmt.Println(fmtLine(sc, runScenario(sc)))
		return
	}
	if *worker >= 0 {
		workerMain(scens, *worker, *of, *from)
		return
	}

	W := *workers
	if W < 1 {
		W = 1
	}
	if W > len(scens) && len(scens) > 0 {
		W = len(scens)
	}
	dl := *deadline
	if dl == 0 {
		dl = 60*time.Second + time.Duration((len(scens)+W-1)/W)*3*time.Second
	}
	exe, err := os.Executable()
	if err != nil {
		exe = os.Args[0]
	}

	var mu sync.Mutex
	lines := make([]string, len(scens)+1)
	next := 1
	out := bufio.NewWriter(os.Stdout)
	put := func(id int, line string) {
		mu.Lock()
		defer mu.Unlock()
		if lines[id] == "" {
			lines[id] = line
		}
		for next <= len(scens) && lines[next] != "" {
			fmt.Fprintln(out, lines[next])
			next++
		}
		out.Flush()
	}
	have := func(id int) bool {
		mu.Lock()
		defer mu.Unlock()
		return lines[id] != ""
	}

	var wg sync.WaitGroup
	for w := 0; w < W; w++ {
		wg.Add(1)
		go func(w int) {
			defer wg.Done()
			stop := time.Now().Add(dl)
			from := 0
			for attempt := 0; attempt < len(scens)+2; attempt++ {
				// anything left for this worker?
				left := false
				for i, sc := range scens {
					if i%W == w && sc.id >= from && !have(sc.id) {
						left = true
					}
				}
				if !left {
					return
				}
				cmd := exec.Command(exe, "-seed", fmt.Sprint(*seed), "-n", fmt.Sprint(*n), "-worker", fmt.Sprint(w), "-of", fmt.Sprint(W), "-from", fmt.Sprint(from))
				stdout, _ := cmd.StdoutPipe()
				stderr, _ := cmd.StderrPipe()
				if err := cmd.Start(); err != nil {
					fmt.Fprintln(os.Stderr, "c09r: cannot start worker:", err)
					return
				}
				tail := &tailBuf{}
				var rd sync.WaitGroup
				rd.Add(2)
				go func() {
					defer rd.Done()
					s := bufio.NewScanner(stdout)
					s.Buffer(make([]byte, 1<<20), 1<<26)
					for s.Scan() {
						l := s.Text()
						if i := strings.IndexByte(l, ' '); i > 0 {
							if id, err := strconv.Atoi(l[:i]); err == nil && id >= 1 && id <= len(scens) {
								put(id, l)
							}
						}
					}
					io.Copy(io.Discard, stdout)
				}()
				go func() {
					defer rd.Done()
					s := bufio.NewScanner(stderr)
					s.Buffer(make([]byte, 1<<20), 1<<26)
					for s.Scan() {
						tail.add(s.Text())
					}
					io.Copy(io.Discard, stderr)
				}()
				var killedFlag int32
				timer := time.AfterFunc(time.Until(stop), func() {
					atomic.StoreInt32(&killedFlag, 1)
					cmd.Process.Kill()
				})
				rd.Wait()
				werr := cmd.Wait()
				timer.Stop()
				tail.mu.Lock()
				begun := tail.begun
				tail.mu.Unlock()
				if atomic.LoadInt32(&killedFlag) != 0 {
					for i, sc := range scens {
						if i%W == w && !have(sc.id) {
							put(sc.id, fmt.Sprintf("%d %s %s | HANG:worker | kind=%s", sc.id, sc.op, argPrefix(sc), kindTag(sc)))
						}
					}
					return
				}
				if werr == nil {
					return
				}
				if ee, ok := werr.(*exec.ExitError); ok && ee.ExitCode() == exitRestart {
					from = begun + 1
					continue
				}
				// the worker died (a panic in a kafka-go goroutine cannot be recovered)
				if begun > 0 && !have(begun) {
					sc := scens[begun-1]
					put(begun, fmt.Sprintf("%d %s %s | PANIC:%s | kind=%s", sc.id, sc.op, argPrefix(sc), tail.panicText(), kindTag(sc)))
				}
				from = begun + 1
			}
		}(w)
	}
	wg.Wait()
	// anything that is still missing (should not happen)
	for _, sc := range scens {
		if !have(sc.id) {
			put(sc.id, fmt.Sprintf("%d %s %s | HANG:worker | kind=%s", sc.id, sc.op, argPrefix(sc), kindTag(sc)))
		}
	}
}

func kindTag(sc scen) string {
	if sc.kind != "" {
		return sc.kind
	}
	return sc.op
}
