// Package saslfake is a scripted wire-level Kafka broker for property C18 together with
// reference SASL servers written for the harness from the RFCs (PLAIN: RFC 4616;
// SCRAM-SHA-256/512: RFC 5802 / RFC 7677) using only the standard library: crypto/hmac,
// crypto/sha256, crypto/sha512 and a hand-written PBKDF2-HMAC (Hi of RFC 5802 section 2.2).
// Nothing here uses github.com/xdg-go/scram (that is the client under test).
package saslfake

import (
	"bytes"
	"crypto/hmac"
	"crypto/sha256"
	"crypto/sha512"
	"encoding/base64"
	"errors"
	"fmt"
	"hash"
	"strconv"
	"strings"
)

// Server is one server-side SASL conversation.
type Server interface {
	// Step consumes a client message; done reports that the server accepted the
	// authentication with this reply; a non-nil error is a rejection.
	Step(in []byte) (out []byte, done bool, err error)
}

// User is a stored credential.  Name and Password are the strings as the server
// stores them (for SCRAM: already in SASLprep-normalised form, taken from PrepTable,
// never computed by a library).
type User struct {
	Name     string
	Password string
	Salt     []byte
	Iter     int
}

type DB []User

func (db DB) lookup(name string) *User {
	for i := range db {
		if db[i].Name == name {
			return &db[i]
		}
	}
	return nil
}

var ErrReject = errors.New("sasl: authentication failed")

// ---------------------------------------------------------------- PLAIN (RFC 4616)

type plainServer struct {
	db   DB
	done bool
}

func NewPlainServer(db DB) Server { return &plainServer{db: db} }

// message = [authzid] NUL authcid NUL passwd
func (s *plainServer) Step(in []byte) ([]byte, bool, error) {
	if s.done {
		return nil, false, ErrReject
	}
	s.done = true
	parts := bytes.Split(in, []byte{0})
	if len(parts) != 3 {
		return nil, false, ErrReject
	}
	authzid, authcid, passwd := string(parts[0]), string(parts[1]), string(parts[2])
	if len(authcid) == 0 || len(passwd) == 0 {
		return nil, false, ErrReject
	}
	if authzid != "" && authzid != authcid {
		return nil, false, ErrReject
	}
	u := s.db.lookup(authcid)
	if u == nil || !hmac.Equal([]byte(u.Password), []byte(passwd)) {
		return nil, false, ErrReject
	}
	return []byte{}, true, nil
}

// ---------------------------------------------------------------- SCRAM (RFC 5802)

// Hi(str, salt, i): PBKDF2 with HMAC as the PRF and dkLen = output length of H
// (one block):  U1 = HMAC(str, salt || INT(1)), Ui = HMAC(str, Ui-1), Hi = U1 xor ... xor Ui.
func Hi(h func() hash.Hash, str, salt []byte, iter int) []byte {
	mac := hmac.New(h, str)
	mac.Write(salt)
	mac.Write([]byte{0, 0, 0, 1})
	u := mac.Sum(nil)
	out := append([]byte(nil), u...)
	for i := 1; i < iter; i++ {
		mac.Reset()
		mac.Write(u)
		u = mac.Sum(u[:0])
		for j := range out {
			out[j] ^= u[j]
		}
	}
	return out
}

func hmacOf(h func() hash.Hash, key []byte, msg string) []byte {
	mac := hmac.New(h, key)
	mac.Write([]byte(msg))
	return mac.Sum(nil)
}

func hashOf(h func() hash.Hash, b []byte) []byte {
	x := h()
	x.Write(b)
	return x.Sum(nil)
}

func HashFor(mech string) func() hash.Hash {
	switch mech {
	case "SCRAM-SHA-256":
		return sha256.New
	case "SCRAM-SHA-512":
		return sha512.New
	}
	return nil
}

type scramServer struct {
	h     func() hash.Hash
	db    DB
	nonce string // server part of the nonce
	state int
	user  *User
	gs2   string
	cfb   string // client-first-message-bare
	sf    string // server-first-message
	full  string // combined nonce
}

// NewScramServer: snonce is the server's nonce contribution (printable, no ',').
func NewScramServer(mech string, db DB, snonce string) Server {
	return &scramServer{h: HashFor(mech), db: db, nonce: snonce}
}

// saslname: "=2C" -> ",", "=3D" -> "="; any other "=" is an error (RFC 5802 section 5.1)
func unescapeName(s string) (string, error) {
	var b strings.Builder
	for i := 0; i < len(s); i++ {
		switch s[i] {
		case ',':
			return "", errors.New("bare comma in saslname")
		case '=':
			if i+3 <= len(s) {
				switch s[i+1 : i+3] {
				case "2C":
					b.WriteByte(',')
					i += 2
					continue
				case "3D":
					b.WriteByte('=')
					i += 2
					continue
				}
			}
			return "", errors.New("bad escape in saslname")
		default:
			b.WriteByte(s[i])
		}
	}
	return b.String(), nil
}

func attr(field string, name byte) (string, bool) {
	if len(field) >= 2 && field[0] == name && field[1] == '=' {
		return field[2:], true
	}
	return "", false
}

func (s *scramServer) Step(in []byte) ([]byte, bool, error) {
	switch s.state {
	case 0:
		s.state = -1
		msg := string(in)
		// gs2-header = gs2-cbind-flag "," [authzid] ","
		f := strings.SplitN(msg, ",", 3)
		if len(f) != 3 {
			return nil, false, ErrReject
		}
		if f[0] != "n" && f[0] != "y" { // no channel binding on offer
			return nil, false, ErrReject
		}
		if f[1] != "" { // an authzid: only "a=<same user>" would be acceptable; none is used here
			return nil, false, ErrReject
		}
		s.gs2 = f[0] + "," + f[1] + ","
		s.cfb = f[2]
		g := strings.Split(s.cfb, ",")
		if len(g) < 2 {
			return nil, false, ErrReject
		}
		if _, isM := attr(g[0], 'm'); isM { // mandatory extension: not supported
			return nil, false, ErrReject
		}
		rawName, ok := attr(g[0], 'n')
		if !ok {
			return nil, false, ErrReject
		}
		cnonce, ok := attr(g[1], 'r')
		if !ok || cnonce == "" {
			return nil, false, ErrReject
		}
		name, err := unescapeName(rawName)
		if err != nil {
			return nil, false, ErrReject
		}
		s.user = s.db.lookup(name)
		if s.user == nil {
			return nil, false, ErrReject // as a Kafka broker does: unknown user fails here
		}
		s.full = cnonce + s.nonce
		s.sf = "r=" + s.full + ",s=" + base64.StdEncoding.EncodeToString(s.user.Salt) + ",i=" + strconv.Itoa(s.user.Iter)
		s.state = 1
		return []byte(s.sf), false, nil
	case 1:
		s.state = -1
		msg := string(in)
		i := strings.LastIndex(msg, ",p=")
		if i < 0 {
			return nil, false, ErrReject
		}
		withoutProof, proofB64 := msg[:i], msg[i+3:]
		g := strings.Split(withoutProof, ",")
		if len(g) < 2 {
			return nil, false, ErrReject
		}
		cb, ok := attr(g[0], 'c')
		if !ok || cb != base64.StdEncoding.EncodeToString([]byte(s.gs2)) {
			return nil, false, ErrReject
		}
		r, ok := attr(g[1], 'r')
		if !ok || r != s.full {
			return nil, false, ErrReject
		}
		proof, err := base64.StdEncoding.DecodeString(proofB64)
		if err != nil {
			return nil, false, ErrReject
		}
		salted := Hi(s.h, []byte(s.user.Password), s.user.Salt, s.user.Iter)
		clientKey := hmacOf(s.h, salted, "Client Key")
		storedKey := hashOf(s.h, clientKey)
		serverKey := hmacOf(s.h, salted, "Server Key")
		authMessage := s.cfb + "," + s.sf + "," + withoutProof
		clientSig := hmacOf(s.h, storedKey, authMessage)
		if len(proof) != len(clientSig) {
			return nil, false, ErrReject
		}
		ck := make([]byte, len(proof))
		for j := range proof {
			ck[j] = proof[j] ^ clientSig[j]
		}
		if !hmac.Equal(hashOf(s.h, ck), storedKey) {
			return nil, false, ErrReject
		}
		serverSig := hmacOf(s.h, serverKey, authMessage)
		s.state = 2
		return []byte("v=" + base64.StdEncoding.EncodeToString(serverSig)), true, nil
	}
	return nil, false, ErrReject
}

// NewServer returns the reference server for a Kafka mechanism name (nil when unknown).
func NewServer(mech string, db DB, snonce string) Server {
	switch mech {
	case "PLAIN":
		return NewPlainServer(db)
	case "SCRAM-SHA-256", "SCRAM-SHA-512":
		return NewScramServer(mech, db, snonce)
	}
	return nil
}

// ---------------------------------------------------------------- self test

// SelfTest replays the RFC 7677 section 3 example conversation (SCRAM-SHA-256, user
// "user", password "pencil") and the RFC 5802 escape rules against this server.
func SelfTest() error {
	salt, _ := base64.StdEncoding.DecodeString("W22ZaJ0SNY7soEsUEjb6gQ==")
	db := DB{{Name: "user", Password: "pencil", Salt: salt, Iter: 4096}}
	s := NewScramServer("SCRAM-SHA-256", db, "%hvYDpWUa2RaTCAfuxFIlj)hNlF$k0")
	out, done, err := s.Step([]byte("n,,n=user,r=rOprNGfwEbeRWgbNEkqO"))
	want := "r=rOprNGfwEbeRWgbNEkqO%hvYDpWUa2RaTCAfuxFIlj)hNlF$k0,s=W22ZaJ0SNY7soEsUEjb6gQ==,i=4096"
	if err != nil || done || string(out) != want {
		return fmt.Errorf("RFC 7677 server-first: %q %v %v", out, done, err)
	}
	out, done, err = s.Step([]byte("c=biws,r=rOprNGfwEbeRWgbNEkqO%hvYDpWUa2RaTCAfuxFIlj)hNlF$k0,p=dHzbZapWIk4jUhN+Ute9ytag9zjfMHgsqmmiz7AndVQ="))
	if err != nil || !done || string(out) != "v=6rriTRBi23WpRR/wtup+mMhUZUn/dB5nLTJRsjl95G4=" {
		return fmt.Errorf("RFC 7677 server-final: %q %v %v", out, done, err)
	}
	// a wrong proof is rejected
	s = NewScramServer("SCRAM-SHA-256", db, "%hvYDpWUa2RaTCAfuxFIlj)hNlF$k0")
	s.Step([]byte("n,,n=user,r=rOprNGfwEbeRWgbNEkqO"))
	if _, _, err = s.Step([]byte("c=biws,r=rOprNGfwEbeRWgbNEkqO%hvYDpWUa2RaTCAfuxFIlj)hNlF$k0,p=dHzbZapWIk4jUhN+Ute9ytag9zjfMHgsqmmiz7AndVU=")); err == nil {
		return errors.New("wrong proof accepted")
	}
	// RFC 5802 section 5 example (SCRAM-SHA-1 there) exercises Hi with another hash: RFC 6070-style
	// check of Hi against PBKDF2-HMAC-SHA256 test vector (password "password", salt "salt", c=2)
	if got := fmt.Sprintf("%x", Hi(sha256.New, []byte("password"), []byte("salt"), 2)); got != "ae4d0c95af6b46d32d0adff928f06dd02a303f8ef3c251dfd6e2d85a95474c43" {
		return fmt.Errorf("Hi/PBKDF2-HMAC-SHA256 c=2: %s", got)
	}
	if got := fmt.Sprintf("%x", Hi(sha512.New, []byte("password"), []byte("salt"), 1)); got != "867f70cf1ade02cff3752599a3a53dc4af34c7a669815ae5d513554e1c8cf252c02d470a285a0501bad999bfe943c08f050235d7d68b1da55e63f73b60a57fce" {
		return fmt.Errorf("Hi/PBKDF2-HMAC-SHA512 c=1: %s", got)
	}
	for _, c := range []struct {
		in, out string
		ok      bool
	}{
		{"a=2Cb=3Dc", "a,b=c", true}, {"plain", "plain", true}, {"a=2", "", false}, {"a=", "", false},
		{"a=2c", "", false}, {"a,b", "", false}, {"=3D=3D", "==", true},
	} {
		got, err := unescapeName(c.in)
		if (err == nil) != c.ok || got != c.out {
			return fmt.Errorf("unescapeName(%q) = %q, %v", c.in, got, err)
		}
	}
	p := NewPlainServer(DB{{Name: "tim", Password: "tanstaaftanstaaf"}})
	if _, done, err := p.Step([]byte("\x00tim\x00tanstaaftanstaaf")); err != nil || !done { // RFC 4616 section 4
		return errors.New("RFC 4616 example rejected")
	}
	p = NewPlainServer(DB{{Name: "tim", Password: "tanstaaftanstaaf"}})
	if _, _, err := p.Step([]byte("\x00tim\x00tanstaaftanstaaF")); err == nil {
		return errors.New("PLAIN wrong password accepted")
	}
	return nil
}

// ---------------------------------------------------------------- SASLprep table

// PrepCase: Raw is what the client is configured with, Stored is its SASLprep (RFC 4013)
// form written down by hand from RFC 4013 section 3 / RFC 3454 tables B.1, C.1.2 and NFKC;
// Prohibited: SASLprep must refuse the string.
type PrepCase struct {
	Label      string
	Raw        string
	Stored     string
	Prohibited bool
}

var PrepTable = []PrepCase{
	{"rfc4013-1 soft hyphen mapped to nothing", "I\u00adX", "IX", false},
	{"rfc4013-2 no transformation", "user", "user", false},
	{"rfc4013-3 case preserved", "USER", "USER", false},
	{"rfc4013-4 NFKC ordinal a", "\u00aa", "a", false},
	{"rfc4013-5 NFKC roman nine", "\u2168", "IX", false},
	{"rfc4013-6 prohibited control", "\u0007", "", true},
	{"rfc4013-7 bidi check", "\u0627\u0031", "", true},
	{"non-ASCII space mapped to space", "pass\u00a0word", "pass word", false},
	{"zero width joiner mapped to nothing", "se\u200dcret", "secret", false},
	{"NFKC fullwidth", "\uff21\uff22c", "ABc", false},
	{"composed stays composed", "caf\u00e9", "caf\u00e9", false},
	{"NFKC composes", "cafe\u0301", "caf\u00e9", false},
}
