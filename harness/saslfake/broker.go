package saslfake

import (
	"bytes"
	"encoding/binary"
	"fmt"
	"io"
	"net"
	"strconv"
	"strings"
	"sync"
	"time"

	"github.com/segmentio/kafka-go/protocol"
	"github.com/segmentio/kafka-go/protocol/apiversions"
	"github.com/segmentio/kafka-go/protocol/metadata"
	"github.com/segmentio/kafka-go/protocol/saslauthenticate"
	"github.com/segmentio/kafka-go/protocol/saslhandshake"
)

// Script is what one scripted broker connection does.
type Script struct {
	HsMax   int // advertised SaslHandshake max version; Absent = key not listed
	AuthMax int // advertised SaslAuthenticate max version; Absent = key not listed
	Mechs   []string
	DB      DB
	SNonce  string
	// fault: the FaultStep-th reaction (0 ApiVersions, 1 SaslHandshake, 2+i the i-th
	// authentication message) is replaced by FaultKind; FaultStep < 0 = no fault
	FaultStep int
	FaultKind string
	// FRawResp: the raw response put on the wire at the fault step is the 4-byte prefix
	// RawPrefix followed by RawPayload bytes 'j'; then the connection is closed
	// (RawEnd "close") or left open and silent (RawEnd "silent"; OnFault is called so that
	// the harness can arm the connection's read deadline)
	RawPrefix  int32
	RawPayload int
	RawEnd     string
	OnFault    func()
	// FRawCut: the genuine raw response of the fault step (for PLAIN optionally padded to CutPad
	// payload bytes 'p') is cut after RawPayload bytes of the frame (prefix included), then
	// RawEnd as above.  A cut position at or past the end of the frame is no cut: the
	// response goes out whole and the journal says so (FrameLen, Cut).
	CutPad int
	// Barrier, when set, is called once per connection when its FIRST authentication message
	// has arrived and before it is answered (the conc family: it returns when the first
	// messages of all connections of the case have arrived, forcing the exchanges to overlap)
	Barrier func()
}

const Absent = -1000

// fault kinds
const (
	FNone     = "none"
	FUnsup    = "unsup"    // error code 33 UNSUPPORTED_SASL_MECHANISM           (framed)
	FAuthFail = "authfail" // error code 58 SASL_AUTHENTICATION_FAILED           (framed)
	FTrunc    = "trunc"    // response cut off mid-frame, then the connection is closed
	FShort    = "short"    // well delimited frame whose body is empty            (framed)
	FCorrID   = "corrid"   // response carrying another correlation id           (framed)
	FNegLen   = "neglen"   // negative length prefix                              (raw)
	FJunk     = "junk"     // well-formed response whose SASL payload is garbage  (auth steps)
	FClose    = "close"    // connection closed instead of a response
	FSilent   = "silent"   // no response at all, connection left open (not part of the enumeration)
	FRawResp  = "rawresp"  // raw exchange: an arbitrary length prefix and payload, then close or silence
	FRawCut   = "rawcut"   // raw exchange: the genuine response cut at a byte position, then close or silence
)

// FErrPrefix: fault kinds "err:<code hex, signed>:<null|empty|text|->": the framed response of
// the fault step carries this error code; for SaslAuthenticate the nullable error_message is
// null, the empty string or a text ("-": the response has no message field).  Code 0 is no
// refusal: the genuine response goes out (with that message).
const FErrPrefix = "err:"

// ParseErrKind decodes an "err:" fault kind.
func ParseErrKind(kind string) (code int16, mode string, ok bool) {
	if !strings.HasPrefix(kind, FErrPrefix) {
		return 0, "", false
	}
	f := strings.Split(kind[len(FErrPrefix):], ":")
	if len(f) != 2 {
		return 0, "", false
	}
	neg := strings.HasPrefix(f[0], "-")
	v, err := strconv.ParseInt(strings.TrimPrefix(f[0], "-"), 16, 32)
	if err != nil {
		return 0, "", false
	}
	if neg {
		v = -v
	}
	return int16(v), f[1], true
}

// encodeAuthResponse writes a SaslAuthenticate response by hand: protocol.WriteResponse
// cannot produce an EMPTY (non-null) error_message.
func encodeAuthResponse(ver int16, corr int32, code int16, mode string, auth []byte) []byte {
	var b []byte
	put16 := func(v int16) { b = append(b, byte(uint16(v)>>8), byte(v)) }
	put32 := func(v int32) { b = append(b, byte(uint32(v)>>24), byte(uint32(v)>>16), byte(uint32(v)>>8), byte(v)) }
	put32(0)
	put32(corr)
	put16(code)
	switch mode {
	case "null":
		put16(-1)
	case "empty":
		put16(0)
	default:
		msg := "Authentication failed: injected refusal"
		put16(int16(len(msg)))
		b = append(b, msg...)
	}
	put32(int32(len(auth)))
	b = append(b, auth...)
	if ver >= 1 {
		b = append(b, 0, 0, 0, 0, 0, 0, 0, 0) // session_lifetime_ms
	}
	binary.BigEndian.PutUint32(b[:4], uint32(len(b)-4))
	return b
}

// Journal is what the broker saw on one connection.
type Journal struct {
	mu      sync.Mutex
	tokens  []string
	verdict bool
	failed  bool // a fault or a rejection was sent
	reached bool // the fault step was reached
	eof     chan struct{}
	eofOnce sync.Once
	notes   []string
	frame   int  // FRawCut: length of the genuine frame at the fault step
	cut     bool // FRawCut: the frame was really cut
}

func newJournal() *Journal { return &Journal{eof: make(chan struct{})} }

func (j *Journal) add(tok string) {
	j.mu.Lock()
	if j.failed {
		tok += "!"
	}
	j.tokens = append(j.tokens, tok)
	j.mu.Unlock()
}
func (j *Journal) note(s string)  { j.mu.Lock(); j.notes = append(j.notes, s); j.mu.Unlock() }
func (j *Journal) isFailed() bool { j.mu.Lock(); defer j.mu.Unlock(); return j.failed }
func (j *Journal) setFailed()     { j.mu.Lock(); j.failed = true; j.mu.Unlock() }
func (j *Journal) setVerdict() {
	j.mu.Lock()
	j.verdict = true
	j.tokens = append(j.tokens, "V")
	j.mu.Unlock()
}
func (j *Journal) Tokens() []string {
	j.mu.Lock()
	defer j.mu.Unlock()
	return append([]string(nil), j.tokens...)
}
func (j *Journal) Notes() []string {
	j.mu.Lock()
	defer j.mu.Unlock()
	return append([]string(nil), j.notes...)
}
func (j *Journal) Frame() (int, bool) { j.mu.Lock(); defer j.mu.Unlock(); return j.frame, j.cut }
func (j *Journal) Verdict() bool      { j.mu.Lock(); defer j.mu.Unlock(); return j.verdict }
func (j *Journal) FaultReached() bool { j.mu.Lock(); defer j.mu.Unlock(); return j.reached }

// ClientGone is closed when the broker's read hit EOF / closed pipe (the client closed).
func (j *Journal) ClientGone() <-chan struct{} { return j.eof }
func (j *Journal) gone()                       { j.eofOnce.Do(func() { close(j.eof) }) }

// Serve runs the scripted broker on the server end of a connection until the client goes
// away (or the script closes the connection).
func Serve(c net.Conn, sc *Script) *Journal {
	j := newJournal()
	go serve(c, sc, j)
	return j
}

func tok(key, ver int16) string { return fmt.Sprintf("%x.%x", int(key), int(ver)) }

func serve(c net.Conn, sc *Script, j *Journal) {
	defer c.Close()
	defer j.gone()
	c.SetDeadline(time.Now().Add(20 * time.Second))
	raw := false
	var srv Server
	authStep := 0
	closedByUs := false

	// reaction k: is it the faulted one?
	fault := func(k int) string {
		if sc.FaultStep >= 0 && k == sc.FaultStep {
			j.mu.Lock()
			j.reached = true
			j.mu.Unlock()
			return sc.FaultKind
		}
		return FNone
	}
	// after our side closed, drain so that a client write does not block on the pipe
	drain := func() {
		closedByUs = true
	}

	writeFramed := func(ver int16, corr int32, msg protocol.Message, kind string) bool {
		var buf bytes.Buffer
		if err := protocol.WriteResponse(&buf, ver, corr, msg); err != nil {
			j.note("encode: " + err.Error())
			return false
		}
		b := buf.Bytes()
		switch kind {
		case FTrunc:
			n := 4 + (len(b)-4)/2
			if n < 6 {
				n = 6
			}
			if n >= len(b) {
				n = len(b) - 1
			}
			c.Write(b[:n])
			drain()
			return false
		case FShort:
			var s [8]byte
			binary.BigEndian.PutUint32(s[:4], 4)
			binary.BigEndian.PutUint32(s[4:], uint32(corr))
			_, err := c.Write(s[:])
			return err == nil
		case FCorrID:
			binary.BigEndian.PutUint32(b[4:8], uint32(corr+7))
			_, err := c.Write(b)
			return err == nil
		case FClose:
			drain()
			return false
		case FSilent:
			return true
		}
		_, err := c.Write(b)
		return err == nil
	}
	writeRaw := func(payload []byte, kind string) bool {
		switch kind {
		case FTrunc:
			var s [4]byte
			binary.BigEndian.PutUint32(s[:], uint32(len(payload)+10))
			c.Write(append(s[:], payload...))
			drain()
			return false
		case FNegLen:
			_, err := c.Write([]byte{0xff, 0xff, 0xff, 0xfe})
			return err == nil
		case FRawResp:
			b := make([]byte, 4+sc.RawPayload)
			binary.BigEndian.PutUint32(b[:4], uint32(sc.RawPrefix))
			for i := 4; i < len(b); i++ {
				b[i] = 'j'
			}
			c.Write(b)
			if sc.RawEnd == "silent" {
				// the read deadline is armed only when the client's read can never be
				// satisfied (fewer payload bytes than announced): after a complete response
				// the broker goes on serving and no real-time deadline must race with that
				if sc.OnFault != nil && int64(sc.RawPrefix) > int64(sc.RawPayload) {
					sc.OnFault()
				}
				return true
			}
			drain()
			return false
		case FClose:
			drain()
			return false
		case FSilent:
			return true
		}
		var s [4]byte
		binary.BigEndian.PutUint32(s[:], uint32(len(payload)))
		_, err := c.Write(append(s[:], payload...))
		return err == nil
	}

	for !closedByUs {
		var lenb [4]byte
		if _, err := io.ReadFull(c, lenb[:]); err != nil {
			return // client closed (or deadline)
		}
		size := int(int32(binary.BigEndian.Uint32(lenb[:])))
		if size < 0 || size > 1<<20 {
			j.add(fmt.Sprintf("badsize:%d", size))
			return
		}
		body := make([]byte, size)
		if _, err := io.ReadFull(c, body); err != nil {
			j.add("partial")
			return
		}

		// while the raw exchange is on, something that is plainly a Kafka request of this
		// client (header with client id "c18") is journalled and served as a request
		looksFramed := len(body) >= 13 && body[0] == 0 && body[1] < 68 && body[2] == 0 && body[3] < 16 &&
			body[8] == 0 && body[9] == 3 && string(body[10:13]) == "c18"
		wasRaw := raw
		if raw && looksFramed {
			raw = false
		}
		if raw {
			// raw SASL bytes after a v0 handshake
			j.add("raw")
			k := 2 + authStep
			if authStep == 0 && sc.Barrier != nil {
				sc.Barrier()
			}
			authStep++
			kind := fault(k)
			var out []byte
			var done bool
			var err error
			if srv != nil {
				out, done, err = srv.Step(body)
			} else {
				err = ErrReject
			}
			if kind == FRawCut {
				if sc.CutPad > 0 && err == nil && len(out) == 0 {
					out = bytes.Repeat([]byte{'p'}, sc.CutPad)
				}
				frame := make([]byte, 4+len(out))
				binary.BigEndian.PutUint32(frame[:4], uint32(len(out)))
				copy(frame[4:], out)
				j.mu.Lock()
				j.frame = len(frame)
				j.cut = err == nil && sc.RawPayload < len(frame)
				j.mu.Unlock()
				if err == nil && sc.RawPayload < len(frame) {
					j.setFailed()
					c.Write(frame[:sc.RawPayload])
					if sc.RawEnd == "silent" {
						if sc.OnFault != nil {
							sc.OnFault()
						}
						continue
					}
					drain()
					continue
				}
				kind = FNone // not a cut: the genuine reaction
			}
			switch {
			case kind == FJunk:
				j.setFailed()
				if !writeRaw([]byte("junk,junk=junk"), FNone) {
					return
				}
			case kind != FNone:
				j.setFailed()
				if !writeRaw(out, kind) {
					if !closedByUs {
						return
					}
				}
			case err != nil:
				// a Kafka broker reports a failed raw exchange by closing the connection
				j.setFailed()
				drain()
			default:
				if !writeRaw(out, FNone) {
					return
				}
				if done {
					j.setVerdict()
					raw = false
				}
			}
			continue
		}

		if len(body) < 8 {
			j.add("runt")
			return
		}
		key := int16(binary.BigEndian.Uint16(body[0:2]))
		ver := int16(binary.BigEndian.Uint16(body[2:4]))
		corr := int32(binary.BigEndian.Uint32(body[4:8]))
		if wasRaw && !j.isFailed() {
			j.add(tok(key, ver) + "?framed-in-raw-exchange")
		} else {
			j.add(tok(key, ver))
		}
		_, _, _, msg, derr := protocol.ReadRequest(bytes.NewReader(append(lenb[:], body...)))
		if derr != nil {
			j.note(fmt.Sprintf("undecodable request key=%d ver=%d: %v", key, ver, derr))
			return
		}

		switch req := msg.(type) {
		case *apiversions.Request:
			kind := FNone
			if !j.Verdict() {
				kind = fault(0)
			}
			res := &apiversions.Response{ApiKeys: []apiversions.ApiKeyResponse{
				{ApiKey: int16(protocol.Metadata), MinVersion: 0, MaxVersion: 1},
				{ApiKey: int16(protocol.ApiVersions), MinVersion: 0, MaxVersion: 0},
			}}
			if sc.HsMax != Absent {
				res.ApiKeys = append(res.ApiKeys, apiversions.ApiKeyResponse{ApiKey: int16(protocol.SaslHandshake), MaxVersion: int16(sc.HsMax)})
			}
			if sc.AuthMax != Absent {
				res.ApiKeys = append(res.ApiKeys, apiversions.ApiKeyResponse{ApiKey: int16(protocol.SaslAuthenticate), MaxVersion: int16(sc.AuthMax)})
			}
			if code, _, ok := ParseErrKind(kind); ok {
				res.ErrorCode = code
				kind = FNone
				if code != 0 {
					j.setFailed()
				}
			} else if kind == FUnsup || kind == FAuthFail {
				res.ErrorCode = map[string]int16{FUnsup: 33, FAuthFail: 58}[kind]
				kind = FNone
				j.setFailed()
			} else if kind != FNone {
				j.setFailed()
			}
			if !writeFramed(ver, corr, res, kind) && !closedByUs {
				return
			}

		case *saslhandshake.Request:
			kind := fault(1)
			res := &saslhandshake.Response{Mechanisms: sc.Mechs}
			supported := false
			for _, m := range sc.Mechs {
				if m == req.Mechanism {
					supported = true
				}
			}
			if !supported {
				res.ErrorCode = 33
				j.setFailed()
			} else {
				srv = NewServer(req.Mechanism, sc.DB, sc.SNonce)
			}
			if code, _, ok := ParseErrKind(kind); ok {
				res.ErrorCode = code
				kind = FNone
				if code != 0 {
					j.setFailed()
					srv = nil
				}
			} else if kind == FUnsup || kind == FAuthFail {
				res.ErrorCode = map[string]int16{FUnsup: 33, FAuthFail: 58}[kind]
				kind = FNone
				j.setFailed()
				srv = nil
			} else if kind != FNone {
				j.setFailed()
			}
			if !writeFramed(ver, corr, res, kind) && !closedByUs {
				return
			}
			if ver == 0 && res.ErrorCode == 0 {
				raw = true
			}

		case *saslauthenticate.Request:
			k := 2 + authStep
			if authStep == 0 && sc.Barrier != nil {
				sc.Barrier()
			}
			authStep++
			kind := fault(k)
			res := &saslauthenticate.Response{}
			var done bool
			var err error
			if srv != nil {
				res.AuthBytes, done, err = srv.Step(req.AuthBytes)
			} else {
				err = ErrReject
			}
			if err != nil {
				res.ErrorCode = 58
				res.ErrorMessage = "Authentication failed: Invalid username or password"
				res.AuthBytes = nil
				j.setFailed()
			}
			if code, mode, ok := ParseErrKind(kind); ok {
				// error code and error_message chosen by the script; code 0: the genuine response
				auth := res.AuthBytes
				if code != 0 {
					auth = nil
					j.setFailed()
				} else if err != nil {
					code = res.ErrorCode
				}
				if _, werr := c.Write(encodeAuthResponse(ver, corr, code, mode, auth)); werr != nil {
					return
				}
				if done && err == nil && code == 0 {
					j.setVerdict()
				}
				continue
			}
			switch kind {
			case FNone:
			case FUnsup, FAuthFail:
				res.ErrorCode = map[string]int16{FUnsup: 33, FAuthFail: 58}[kind]
				res.ErrorMessage = "injected"
				res.AuthBytes = nil
				kind = FNone
				j.setFailed()
			case FJunk:
				res.ErrorCode = 0
				res.ErrorMessage = ""
				res.AuthBytes = []byte("junk,junk=junk")
				kind = FNone
				j.setFailed()
			default:
				j.setFailed()
			}
			if !writeFramed(ver, corr, res, kind) && !closedByUs {
				return
			}
			if done && err == nil && sc.FaultStep != k {
				j.setVerdict()
			}

		case *metadata.Request:
			res := &metadata.Response{
				Brokers:      []metadata.ResponseBroker{{NodeID: 1, Host: "broker.test", Port: 9092}},
				ControllerID: 1,
				Topics: []metadata.ResponseTopic{{Name: "t", Partitions: []metadata.ResponsePartition{
					{PartitionIndex: 0, LeaderID: 1, ReplicaNodes: []int32{1}, IsrNodes: []int32{1}}}}},
			}
			if !writeFramed(ver, corr, res, FNone) {
				return
			}

		default:
			j.note(fmt.Sprintf("unexpected request key=%d", key))
			return
		}
	}
	// our side decided to close: close now and report the client as gone only when it is
	c.Close()
}
