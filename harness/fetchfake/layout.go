// Package fetchfake: reference encoder of partition layouts (mirrors coq/Spec/FetchSpec.v) and a
// scripted wire-level fake broker for the C02 correspondence runs.
package fetchfake

import (
	"bytes"
	"encoding/binary"
	"fmt"
	"io"
	"strings"

	"github.com/segmentio/kafka-go/compress"
	"kverif/kvfmt"
)

type Header struct{ Key, Value []byte }

type Record struct {
	Off, Ts  int64
	Key, Val []byte // nil = null
	Hdrs     []Header
}

// PBatch is one physical batch: Fmt 0/1/2, Codec 0..4, covering Base..Base+Lod.
type PBatch struct {
	Fmt, Codec int
	Base, Lod  int64
	Ts         int64
	Recs       []Record
}

type Layout []PBatch

func (b PBatch) Last() int64 {
	if b.Fmt == 2 || len(b.Recs) == 0 {
		return b.Base + b.Lod
	}
	return b.Recs[len(b.Recs)-1].Off
}

// Blob records one compression performed by the encoder (the model's decompression oracle).
type Blob struct{ Code int; Compressed, Plain []byte }

// SplitRec > 0: in a compressed v2 batch the codec's writer is flushed after that many
// records, so that the compressed payload consists of several blocks (xerial blocks, lz4 blocks,
// gzip / zstd flush points).
type Encoder struct {
	Blobs    []Blob
	SplitRec int
}

func putVarint(b *bytes.Buffer, v int64) {
	u := uint64((v << 1) ^ (v >> 63))
	for u >= 0x80 {
		b.WriteByte(byte(u) | 0x80)
		u >>= 7
	}
	b.WriteByte(byte(u))
}

func putI(b *bytes.Buffer, w int, v int64) {
	var t [8]byte
	binary.BigEndian.PutUint64(t[:], uint64(v))
	b.Write(t[8-w:])
}

func vbytes(b *bytes.Buffer, x []byte) {
	if x == nil {
		putVarint(b, -1)
		return
	}
	putVarint(b, int64(len(x)))
	b.Write(x)
}

func b32(b *bytes.Buffer, x []byte) {
	if x == nil {
		putI(b, 4, -1)
		return
	}
	putI(b, 4, int64(len(x)))
	b.Write(x)
}

func (e *Encoder) compress(code int, plain []byte) []byte { return e.compressParts(code, plain, 0) }

// compressParts compresses plain; split > 0: the writer is flushed after plain[:split].
func (e *Encoder) compressParts(code int, plain []byte, split int) []byte {
	var out bytes.Buffer
	w := compress.Compression(code).Codec().NewWriter(&out)
	if split > 0 && split < len(plain) {
		if _, err := w.Write(plain[:split]); err != nil {
			panic(err)
		}
		if f, ok := w.(interface{ Flush() error }); ok {
			if err := f.Flush(); err != nil {
				panic(err)
			}
		}
		if _, err := w.Write(plain[split:]); err != nil {
			panic(err)
		}
	} else if _, err := w.Write(plain); err != nil {
		panic(err)
	}
	if err := w.Close(); err != nil {
		panic(err)
	}
	c := append([]byte{}, out.Bytes()...)
	e.Blobs = append(e.Blobs, Blob{code, c, append([]byte{}, plain...)})
	return c
}

// Decompress with the real codec (used to double check the oracle table).
func Decompress(code int, c []byte) ([]byte, error) {
	r := compress.Compression(code).Codec().NewReader(bytes.NewReader(c))
	defer r.Close()
	return io.ReadAll(r)
}

func encRecord(base, ts0 int64, r Record) []byte {
	var body bytes.Buffer
	putI(&body, 1, 0)
	putVarint(&body, r.Ts-ts0)
	putVarint(&body, r.Off-base)
	vbytes(&body, r.Key)
	vbytes(&body, r.Val)
	putVarint(&body, int64(len(r.Hdrs)))
	for _, h := range r.Hdrs {
		putVarint(&body, int64(len(h.Key)))
		body.Write(h.Key)
		putVarint(&body, int64(len(h.Value)))
		body.Write(h.Value)
	}
	var out bytes.Buffer
	putVarint(&out, int64(body.Len()))
	out.Write(body.Bytes())
	return out.Bytes()
}

func encMessage(fmtv, attr int, off, ts int64, k, v []byte) []byte {
	var body bytes.Buffer
	putI(&body, 4, 0)
	putI(&body, 1, int64(fmtv))
	putI(&body, 1, int64(attr))
	if fmtv == 1 {
		putI(&body, 8, ts)
	}
	b32(&body, k)
	b32(&body, v)
	var out bytes.Buffer
	putI(&out, 8, off)
	putI(&out, 4, int64(body.Len()))
	out.Write(body.Bytes())
	return out.Bytes()
}

func (e *Encoder) Batch(b PBatch) []byte {
	var out bytes.Buffer
	if b.Fmt == 2 {
		var recs bytes.Buffer
		split := 0
		for i, r := range b.Recs {
			if i == e.SplitRec {
				split = recs.Len()
			}
			recs.Write(encRecord(b.Base, b.Ts, r))
		}
		payload := recs.Bytes()
		if b.Codec != 0 {
			payload = e.compressParts(b.Codec, payload, split)
		}
		putI(&out, 8, b.Base)
		putI(&out, 4, int64(49+len(payload)))
		putI(&out, 4, 0)
		putI(&out, 1, 2)
		putI(&out, 4, 0)
		putI(&out, 2, int64(b.Codec))
		putI(&out, 4, b.Lod)
		putI(&out, 8, b.Ts)
		putI(&out, 8, b.Ts)
		putI(&out, 8, -1)
		putI(&out, 2, -1)
		putI(&out, 4, -1)
		putI(&out, 4, int64(len(b.Recs)))
		out.Write(payload)
		return out.Bytes()
	}
	if b.Codec == 0 {
		for _, r := range b.Recs {
			out.Write(encMessage(b.Fmt, 0, r.Off, r.Ts, r.Key, r.Val))
		}
		return out.Bytes()
	}
	rel := int64(0)
	if b.Fmt == 1 {
		rel = b.Base
	}
	var inner bytes.Buffer
	for _, r := range b.Recs {
		inner.Write(encMessage(b.Fmt, 0, r.Off-rel, r.Ts, r.Key, r.Val))
	}
	last := b.Base
	if len(b.Recs) > 0 {
		last = b.Recs[len(b.Recs)-1].Off
	}
	c := e.compress(b.Codec, inner.Bytes())
	if c == nil {
		c = []byte{}
	}
	return encMessage(b.Fmt, b.Codec, last, b.Ts, nil, c)
}

// FromOffset: the batches a fetch at offset o is answered with.
func (l Layout) FromOffset(o int64) Layout {
	for i, b := range l {
		if b.Last() >= o {
			return l[i:]
		}
	}
	return nil
}

// Encode returns the concatenated batches and the length of the first one.
func (e *Encoder) Encode(l Layout) (all []byte, first int) {
	var out bytes.Buffer
	for i, b := range l {
		out.Write(e.Batch(b))
		if i == 0 {
			first = out.Len()
		}
	}
	return out.Bytes(), first
}

func (l Layout) Records() []Record {
	var rs []Record
	for _, b := range l {
		rs = append(rs, b.Recs...)
	}
	return rs
}

// ---- text form (parsed by ocaml/c02_driver.ml) ----
// batch  : fmt/codec/base/lod/ts/rec+rec+...      ("." = no records)
// record : off~ts~key~val~hdrs     key,val: "-" null, "." empty, else hex
// hdrs   : k=v&k=v  ("." = none; each of k, v "." or hex)

func (r Record) String() string {
	h := "."
	if len(r.Hdrs) > 0 {
		p := make([]string, len(r.Hdrs))
		for i, x := range r.Hdrs {
			p[i] = kvfmt.Bytes(x.Key) + "=" + kvfmt.Bytes(x.Value)
		}
		h = strings.Join(p, "&")
	}
	return fmt.Sprintf("%s~%s~%s~%s~%s", kvfmt.I(r.Off), kvfmt.I(r.Ts), kvfmt.OptBytes(r.Key), kvfmt.OptBytes(r.Val), h)
}

func RecordsString(rs []Record) string {
	if len(rs) == 0 {
		return "."
	}
	p := make([]string, len(rs))
	for i, r := range rs {
		p[i] = r.String()
	}
	return strings.Join(p, "+")
}

func (b PBatch) String() string {
	return fmt.Sprintf("%x/%x/%s/%s/%s/%s", b.Fmt, b.Codec, kvfmt.I(b.Base), kvfmt.I(b.Lod), kvfmt.I(b.Ts), RecordsString(b.Recs))
}

func (l Layout) String() string {
	if len(l) == 0 {
		return "."
	}
	p := make([]string, len(l))
	for i, b := range l {
		p[i] = b.String()
	}
	return strings.Join(p, ";")
}

// BlobsString: compressed:plain pairs, the decompression oracle handed to the model.
func BlobsString(bs []Blob) string {
	if len(bs) == 0 {
		return "."
	}
	p := make([]string, len(bs))
	for i, b := range bs {
		p[i] = fmt.Sprintf("%x:%s:%s", b.Code, kvfmt.Bytes(b.Compressed), kvfmt.Bytes(b.Plain))
	}
	return strings.Join(p, ",")
}
