package fetchfake

import (
	"fmt"
	"math/rand"
	"strings"

	"kverif/kvfmt"
)

// GenOpts steers the layout generator.
type GenOpts struct {
	Formats   []int // allowed formats, e.g. {2} or {0,1,2}
	Codecs    []int // allowed codecs, e.g. {0} or {0,1,2,3,4}
	MaxBatch  int   // max records per batch
	Holes     bool  // compaction holes inside batches and missing tails
	Empties   bool  // retained empty v2 batches
	BigValues bool
	StartOff  int64
	Unordered bool // formats in any order (a real log never goes back from v2 to v0/v1)
}

func genBytes(r *rand.Rand, big bool, nullable bool) []byte {
	switch r.Intn(12) {
	case 0:
		if nullable {
			return nil
		}
	case 1:
		return []byte{}
	}
	n := r.Intn(12)
	if big && r.Intn(4) == 0 {
		n = 100 + r.Intn(400)
	}
	b := make([]byte, n)
	for i := range b {
		if r.Intn(3) == 0 {
			b[i] = byte(r.Intn(256))
		} else {
			b[i] = byte('a' + r.Intn(26))
		}
	}
	return b
}

// GenLayout produces a layout with nrec surviving records; the log is Layout.Records().
func GenLayout(r *rand.Rand, nrec int, o GenOpts) Layout {
	var l Layout
	next := o.StartOff // next free offset
	ts := int64(1_600_000_000_000) + int64(r.Intn(1000))
	lastFmt := 0
	for nrec > 0 || (o.Empties && r.Intn(6) == 0 && len(l) < 40) {
		f := o.Formats[r.Intn(len(o.Formats))]
		if !o.Unordered && f < lastFmt {
			f = lastFmt
		}
		lastFmt = f
		c := o.Codecs[r.Intn(len(o.Codecs))]
		if o.Empties && f == 2 && r.Intn(5) == 0 || nrec == 0 {
			// a retained empty v2 batch
			lod := int64(r.Intn(4))
			l = append(l, PBatch{Fmt: 2, Codec: 0, Base: next, Lod: lod, Ts: ts})
			next += lod + 1
			if nrec == 0 {
				break
			}
			continue
		}
		n := 1 + r.Intn(o.MaxBatch)
		if n > nrec {
			n = nrec
		}
		b := PBatch{Fmt: f, Codec: c, Base: next, Ts: ts}
		if f == 0 {
			b.Ts = 0
		}
		if o.Holes && r.Intn(3) == 0 { // head hole (v2 keeps the original base offset)
			next += int64(1 + r.Intn(3))
			if f != 2 {
				b.Base = next
			}
		}
		for i := 0; i < n; i++ {
			rec := Record{Off: next, Ts: ts, Key: genBytes(r, false, true), Val: genBytes(r, o.BigValues, true)}
			if f == 0 {
				rec.Ts = 0
			}
			if f == 2 && r.Intn(3) == 0 {
				nh := 1 + r.Intn(3)
				for j := 0; j < nh; j++ {
					rec.Hdrs = append(rec.Hdrs, Header{genBytes(r, false, false), genBytes(r, false, false)})
				}
			}
			b.Recs = append(b.Recs, rec)
			next++
			ts += int64(r.Intn(5))
			if o.Holes && r.Intn(4) == 0 && i+1 < n {
				next += int64(1 + r.Intn(3))
			}
		}
		if o.Holes && f == 2 && r.Intn(3) == 0 { // compacted tail
			next += int64(1 + r.Intn(3))
		}
		b.Lod = next - 1 - b.Base
		l = append(l, b)
		nrec -= n
		if o.Holes && r.Intn(5) == 0 {
			next += int64(1 + r.Intn(4)) // whole batches removed
		}
	}
	return l
}

// MsgString is the canonical form of a delivered message: off/ts/key/val/hdrs
// (nil and empty byte strings coincide; ts in ms, 0 when the Time is zero).
func MsgString(off, ts int64, key, val []byte, hdrs []Header) string {
	h := "."
	if len(hdrs) > 0 {
		p := make([]string, len(hdrs))
		for i, x := range hdrs {
			p[i] = kvfmt.Bytes(x.Key) + "=" + kvfmt.Bytes(x.Value)
		}
		h = strings.Join(p, "&")
	}
	return fmt.Sprintf("%s/%s/%s/%s/%s", kvfmt.I(off), kvfmt.I(ts), kvfmt.Bytes(key), kvfmt.Bytes(val), h)
}

func (r Record) MsgString() string { return MsgString(r.Off, r.Ts, r.Key, r.Val, r.Hdrs) }
