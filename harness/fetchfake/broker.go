package fetchfake

// A scripted, gated, wire-level fake Kafka cluster (two brokers b1:9092 / b2:9092 serving the
// same single-partition log) for the C02 end-to-end runs.  Connections are in-memory
// (net.Pipe) and handed out by Fake.Dial, to be plugged into kafka.Dialer.DialFunc.
//
// ApiVersions, Metadata v1 and ListOffsets v1 are answered immediately.  Fetch requests
// (v2 / v5 / v10, legacy Conn encodings) are GATED: the fake publishes a PendingFetch and waits
// for the harness to call RespondData / RespondError / CloseConn on it.
//
// Everything the fake sees is appended to one chronological event log (Fake.EventsFrom) and to
// the per-connection log (ConnInfo.Log).

import (
	"bufio"
	"context"
	"encoding/binary"
	"errors"
	"fmt"
	"io"
	"net"
	"sort"
	"sync"
	"time"
)

type EvKind int

const (
	EvDial         EvKind = iota // connection accepted                       (Conn, Broker, Gen)
	EvDialFail                   // Dial refused on harness request           (Broker, Gen)
	EvApiVersions                // ApiVersions answered
	EvMetadata                   // Metadata answered                         A = leader id named
	EvListOffsets                // ListOffsets answered                      A = timestamp asked, B = offset answered
	EvFetch                      // a fetch became pending                    A = fetch offset, B = partition max bytes
	EvClientClosed               // the client closed the connection (read error on the server side)
	EvServerClosed               // the fake closed the connection (CloseConn, physical cut, Shutdown)
	EvUnknown                    // a request the fake does not serve         A = api key, B = api version
)

func (k EvKind) String() string {
	return [...]string{"dial", "dialfail", "apiversions", "metadata", "listoffsets", "fetch", "clientclosed", "serverclosed", "unknown"}[k]
}

type Event struct {
	Kind              EvKind
	Conn, Broker, Gen int
	A, B              int64
}

func (e Event) String() string {
	return fmt.Sprintf("%s(conn=%d b=%d gen=%d a=%d b=%d)", e.Kind, e.Conn, e.Broker, e.Gen, e.A, e.B)
}

// PendingFetch is a fetch request the fake has received and not answered yet.
type PendingFetch struct {
	ConnID   int
	Broker   int
	Gen      int   // generation of the connection (Fake.SetGen value when it was dialled)
	Offset   int64 // fetch offset
	MaxBytes int   // partition max bytes of the request
	Version  int   // api version of the request: 2, 5 or 10

	corr int32
	sc   *sconn
	done bool // answered / closed (under Fake.mu)
}

// ConnInfo is a snapshot of what the fake knows about one connection.
type ConnInfo struct {
	ID, Broker, Gen int
	LO              []int64 // offsets answered to the ListOffsets requests, in order
	NFetch          int     // fetch requests received
	NMeta           int     // metadata requests received
	Closed          bool    // closed by either side
	ClientClosed    bool
	Log             []Event
}

type wItem struct {
	data  []byte
	close bool
}

type sconn struct {
	f                *Fake
	id, broker, gen  int
	srv              net.Conn
	wq               chan wItem
	done             chan struct{}
	// under f.mu
	lo           []int64
	part         int32 // the partition named by the last fetch
	nfetch       int
	nmeta        int
	closed       bool
	clientClosed bool
	pending      *PendingFetch
	log          []Event
}

type Fake struct {
	Topic string

	mu        sync.Mutex
	version   int // advertised max fetch version
	leader    int
	logStart  int64
	logEnd    int64
	Partition  int32   // the partition the Reader under test is configured with
	parts      []int32 // partition ids in the ORDER the Metadata answer lists them (nil: just partition 0)
	brokerSwap bool    // list the brokers in the order 2, 1
	wrongPart  []int32 // partitions other than Partition named by Fetch / ListOffsets requests
	times     [][2]int64 // (timestamp ms, offset) in offset order: ListOffsets with a real timestamp answers the first offset whose timestamp is >= it
	lso       int64 // last stable offset reported by data answers when below the high watermark; -1: = high watermark
	gen       int
	conns     map[int]*sconn
	nextID    int
	events    []Event
	failDials int
	shut      bool
	wake      chan struct{}
}

// BrokerAddrs are the two addresses to configure the Reader with.
var BrokerAddrs = []string{"b1:9092", "b2:9092"}

// NewFake: fetchVersion ∈ {2,5,10} is the max Fetch version advertised by ApiVersions.
func NewFake(topic string, fetchVersion int, logStart, logEnd int64) *Fake {
	return &Fake{
		Topic:    topic,
		version:  fetchVersion,
		leader:   1,
		lso:      -1,
		logStart: logStart,
		logEnd:   logEnd,
		conns:    map[int]*sconn{},
		wake:     make(chan struct{}, 1),
	}
}

func (f *Fake) poke() {
	select {
	case f.wake <- struct{}{}:
	default:
	}
}

// record must be called with f.mu held.
func (f *Fake) record(sc *sconn, e Event) {
	if sc != nil {
		e.Conn, e.Broker, e.Gen = sc.id, sc.broker, sc.gen
		sc.log = append(sc.log, e)
	}
	f.events = append(f.events, e)
	f.poke()
}

// ---- knobs ----

func (f *Fake) SetGen(g int)            { f.mu.Lock(); f.gen = g; f.mu.Unlock() }
func (f *Fake) SetLeader(id int)        { f.mu.Lock(); f.leader = id; f.mu.Unlock() }
func (f *Fake) Leader() int             { f.mu.Lock(); defer f.mu.Unlock(); return f.leader }
func (f *Fake) SetLog(start, end int64) { f.mu.Lock(); f.logStart, f.logEnd = start, end; f.mu.Unlock() }
func (f *Fake) FailNextDials(n int)     { f.mu.Lock(); f.failDials = n; f.mu.Unlock() }

// SetPartitions: the topic has the given partitions, listed by the Metadata answer in exactly this
// order (real brokers do not sort them); `own` is the partition of the Reader under test, the
// only one the fake holds data for.  The other partitions are led by the other broker.
func (f *Fake) SetPartitions(own int32, order []int32, brokerSwap bool) {
	f.mu.Lock()
	f.Partition, f.parts, f.brokerSwap = own, order, brokerSwap
	f.mu.Unlock()
}

// WrongPartitions: the partitions other than the Reader's own that Fetch / ListOffsets requests named.
func (f *Fake) WrongPartitions() []int32 {
	f.mu.Lock()
	defer f.mu.Unlock()
	return append([]int32{}, f.wrongPart...)
}

// SetTimes: the timestamp index used to answer ListOffsets requests that carry a real timestamp.
func (f *Fake) SetTimes(t [][2]int64) { f.mu.Lock(); f.times = t; f.mu.Unlock() }

// SetLSO: an open transaction on the partition: data answers (fetch v4+) report this last stable
// offset when it is below their high watermark (-1: none, last stable offset = high watermark).
func (f *Fake) SetLSO(o int64) { f.mu.Lock(); f.lso = o; f.mu.Unlock() }

// ---- dialling ----

func brokerOf(addr string) int {
	switch addr {
	case "b1:9092":
		return 1
	case "b2:9092":
		return 2
	}
	return 0
}

// Dial is the kafka.Dialer.DialFunc.
func (f *Fake) Dial(ctx context.Context, network, addr string) (net.Conn, error) {
	if err := ctx.Err(); err != nil {
		return nil, err
	}
	b := brokerOf(addr)
	if b == 0 {
		return nil, fmt.Errorf("fetchfake: unknown address %q", addr)
	}
	f.mu.Lock()
	defer f.mu.Unlock()
	if f.shut {
		return nil, errors.New("fetchfake: shut down")
	}
	if f.failDials > 0 {
		f.failDials--
		f.record(nil, Event{Kind: EvDialFail, Broker: b, Gen: f.gen})
		return nil, errors.New("fetchfake: scripted dial failure")
	}
	c, s := net.Pipe()
	f.nextID++
	sc := &sconn{f: f, id: f.nextID, broker: b, gen: f.gen, srv: s, wq: make(chan wItem, 64), done: make(chan struct{})}
	f.conns[sc.id] = sc
	f.record(sc, Event{Kind: EvDial})
	go sc.readLoop()
	go sc.writeLoop()
	return c, nil
}

// ---- server side of one connection ----

func (sc *sconn) writeLoop() {
	for {
		select {
		case <-sc.done:
			return
		case it := <-sc.wq:
			if len(it.data) > 0 {
				if _, err := sc.srv.Write(it.data); err != nil {
					sc.srv.Close()
					return
				}
			}
			if it.close {
				sc.srv.Close()
				return
			}
		}
	}
}

func (sc *sconn) send(frameBody []byte) {
	b := make([]byte, 4+len(frameBody))
	binary.BigEndian.PutUint32(b, uint32(len(frameBody)))
	copy(b[4:], frameBody)
	select {
	case sc.wq <- wItem{data: b}:
	case <-sc.done:
	}
}

func (sc *sconn) readLoop() {
	f := sc.f
	br := bufio.NewReader(sc.srv)
	defer func() {
		f.mu.Lock()
		if !sc.closed {
			sc.closed = true
			sc.clientClosed = true
			if sc.pending != nil {
				sc.pending.done = true
				sc.pending = nil
			}
			f.record(sc, Event{Kind: EvClientClosed})
		}
		f.mu.Unlock()
		close(sc.done)
		sc.srv.Close()
	}()
	for {
		var szb [4]byte
		if _, err := io.ReadFull(br, szb[:]); err != nil {
			return
		}
		size := int(int32(binary.BigEndian.Uint32(szb[:])))
		if size < 8 || size > 1<<24 {
			return
		}
		req := make([]byte, size)
		if _, err := io.ReadFull(br, req); err != nil {
			return
		}
		sc.handle(req)
	}
}

// a tiny big-endian cursor (panics on short input are turned into a dropped request)
type cur struct {
	b []byte
	p int
}

func (c *cur) i8() int8   { v := int8(c.b[c.p]); c.p++; return v }
func (c *cur) i16() int16 { v := int16(binary.BigEndian.Uint16(c.b[c.p:])); c.p += 2; return v }
func (c *cur) i32() int32 { v := int32(binary.BigEndian.Uint32(c.b[c.p:])); c.p += 4; return v }
func (c *cur) i64() int64 { v := int64(binary.BigEndian.Uint64(c.b[c.p:])); c.p += 8; return v }
func (c *cur) str() string {
	n := int(c.i16())
	if n < 0 {
		return ""
	}
	s := string(c.b[c.p : c.p+n])
	c.p += n
	return s
}

type wbuf struct{ b []byte }

func (w *wbuf) i8(v int8)   { w.b = append(w.b, byte(v)) }
func (w *wbuf) i16(v int16) { w.b = binary.BigEndian.AppendUint16(w.b, uint16(v)) }
func (w *wbuf) i32(v int32) { w.b = binary.BigEndian.AppendUint32(w.b, uint32(v)) }
func (w *wbuf) i64(v int64) { w.b = binary.BigEndian.AppendUint64(w.b, uint64(v)) }
func (w *wbuf) str(s string) {
	w.i16(int16(len(s)))
	w.b = append(w.b, s...)
}

func (sc *sconn) handle(req []byte) {
	f := sc.f
	defer func() {
		if r := recover(); r != nil {
			// malformed request: drop the connection
			sc.srv.Close()
		}
	}()
	c := &cur{b: req}
	key := c.i16()
	ver := c.i16()
	corr := c.i32()
	_ = c.str() // client id
	var w wbuf
	w.i32(corr)
	switch key {
	case 18: // ApiVersions v0
		f.mu.Lock()
		fv := f.version
		f.record(sc, Event{Kind: EvApiVersions})
		f.mu.Unlock()
		w.i16(0)
		keys := [][3]int16{{1, 0, int16(fv)}, {2, 0, 1}, {3, 0, 1}, {18, 0, 0}}
		w.i32(int32(len(keys)))
		for _, k := range keys {
			w.i16(k[0])
			w.i16(k[1])
			w.i16(k[2])
		}
		sc.send(w.b)

	case 3: // Metadata v1
		f.mu.Lock()
		leader := f.leader
		sc.nmeta++
		f.record(sc, Event{Kind: EvMetadata, A: int64(leader)})
		f.mu.Unlock()
		f.mu.Lock()
		parts, own, swap := f.parts, f.Partition, f.brokerSwap
		f.mu.Unlock()
		if parts == nil {
			parts = []int32{0}
		}
		w.i32(2) // brokers
		ids := []int32{1, 2}
		if swap {
			ids = []int32{2, 1}
		}
		for _, id := range ids {
			w.i32(id)
			w.str(fmt.Sprintf("b%d", id))
			w.i32(9092)
			w.str("") // rack
		}
		w.i32(1) // controller id
		w.i32(1) // topics
		w.i16(0)
		w.str(f.Topic)
		w.i8(0) // internal
		w.i32(int32(len(parts)))
		for _, pid := range parts {
			l := int32(leader)
			if pid != own {
				l = 3 - l // the other partitions live on the other broker
			}
			w.i16(0)
			w.i32(pid)
			w.i32(l)
			w.i32(2) // replicas
			w.i32(1)
			w.i32(2)
			w.i32(2) // isr
			w.i32(1)
			w.i32(2)
		}
		sc.send(w.b)

	case 2: // ListOffsets v1
		_ = c.i32() // replica id
		_ = c.i32() // topics
		topic := c.str()
		_ = c.i32() // partitions
		part := c.i32()
		ts := c.i64()
		f.mu.Lock()
		if part != f.Partition {
			f.wrongPart = append(f.wrongPart, part)
		}
		var off int64
		switch ts {
		case -2:
			off = f.logStart
		case -1:
			off = f.logEnd
		default: // a real timestamp: the first offset whose timestamp is at or after it, else the log end
			off = f.logEnd
			for _, to := range f.times {
				if to[0] >= ts {
					off = to[1]
					break
				}
			}
		}
		sc.lo = append(sc.lo, off)
		f.record(sc, Event{Kind: EvListOffsets, A: ts, B: off})
		f.mu.Unlock()
		w.i32(1)
		w.str(topic)
		w.i32(1)
		w.i32(part)
		w.i16(0)
		w.i64(-1) // timestamp
		w.i64(off)
		sc.send(w.b)

	case 1: // Fetch: gated
		v := int(ver)
		_ = c.i32() // replica id
		_ = c.i32() // max wait
		_ = c.i32() // min bytes
		if v >= 3 {
			_ = c.i32() // max bytes
		}
		if v >= 4 {
			_ = c.i8() // isolation level
		}
		if v >= 7 {
			_ = c.i32() // session id
			_ = c.i32() // session epoch
		}
		_ = c.i32() // topics (1)
		_ = c.str()
		_ = c.i32() // partitions (1)
		fpart := c.i32()
		if v >= 9 {
			_ = c.i32() // current leader epoch
		}
		off := c.i64()
		if v >= 5 {
			_ = c.i64() // log start offset
		}
		pmax := c.i32()
		// v7+: forgotten topics array follows; ignored
		f.mu.Lock()
		if fpart != f.Partition {
			f.wrongPart = append(f.wrongPart, fpart)
		}
		sc.nfetch++
		sc.part = fpart
		pf := &PendingFetch{ConnID: sc.id, Broker: sc.broker, Gen: sc.gen, Offset: off, MaxBytes: int(pmax), Version: v, corr: corr, sc: sc}
		sc.pending = pf
		f.record(sc, Event{Kind: EvFetch, A: off, B: int64(pmax)})
		f.mu.Unlock()

	default:
		f.mu.Lock()
		f.record(sc, Event{Kind: EvUnknown, A: int64(key), B: int64(ver)})
		f.mu.Unlock()
		sc.srv.Close()
	}
}

// ---- fetch responses ----

// fetchHeader builds the frame body (correlation id included) of a fetch response up to and
// including the message set size field.
func fetchHeader(v int, corr int32, topic string, part int32, code int16, hwm, lso, logStart int64, declared int32) []byte {
	var w wbuf
	w.i32(corr)
	if v >= 1 {
		w.i32(0) // throttle time
	}
	if v >= 7 {
		w.i16(0) // top level error code
		w.i32(0) // session id
	}
	w.i32(1)
	w.str(topic)
	w.i32(1)
	w.i32(part) // partition: the one the request named
	w.i16(code)
	w.i64(hwm)
	if v >= 4 {
		w.i64(lso)
	}
	if v >= 5 {
		w.i64(logStart)
	}
	if v >= 4 {
		w.i32(-1) // aborted transactions: null
	}
	w.i32(declared)
	return w.b
}

// DataHeaderLen: number of bytes of a fetch response frame body (correlation id included)
// that precede the message set, for fetch version v.
func (f *Fake) DataHeaderLen(v int) int {
	return len(fetchHeader(v, 0, f.Topic, 0, 0, 0, 0, 0, 0))
}

func (p *PendingFetch) take() bool {
	f := p.sc.f
	f.mu.Lock()
	defer f.mu.Unlock()
	if p.done || p.sc.closed {
		return false
	}
	p.done = true
	p.sc.pending = nil
	return true
}

// RespondData answers with error code 0, high watermark hwm (last stable offset = hwm, log
// start = the fake's, aborted = null for v4+), message set size = declaredSize, then msgset.
// If physCut >= 0 only the first physCut bytes of the frame body (everything after the 4-byte
// size prefix, which still announces the full size) are written and the connection is closed.
// Returns false when the fetch was already answered or its connection is gone.
func (p *PendingFetch) RespondData(hwm int64, msgset []byte, declaredSize int, physCut int) bool {
	if physCut < 0 {
		return p.RespondDataFrameCut(hwm, msgset, declaredSize, -1)
	}
	return p.RespondDataFrameCut(hwm, msgset, declaredSize, 4+physCut)
}

// RespondDataFrameCut is RespondData with the cut counted from the start of the FRAME (the
// 4-byte size prefix included): frameCut in [0,4) cuts inside the size prefix; frameCut < 0 = no cut.
func (p *PendingFetch) RespondDataFrameCut(hwm int64, msgset []byte, declaredSize int, frameCut int) bool {
	if !p.take() {
		return false
	}
	sc, f := p.sc, p.sc.f
	f.mu.Lock()
	ls := f.logStart
	lso := hwm
	if f.lso >= 0 && f.lso < hwm {
		lso = f.lso
	}
	f.mu.Unlock()
	body := append(fetchHeader(p.Version, p.corr, f.Topic, sc.part, 0, hwm, lso, ls, int32(declaredSize)), msgset...)
	frame := make([]byte, 4+len(body))
	binary.BigEndian.PutUint32(frame, uint32(len(body)))
	copy(frame[4:], body)
	it := wItem{data: frame}
	if frameCut >= 0 {
		if frameCut > len(frame) {
			frameCut = len(frame)
		}
		it = wItem{data: frame[:frameCut], close: true}
		f.mu.Lock()
		sc.closed = true
		f.record(sc, Event{Kind: EvServerClosed})
		f.mu.Unlock()
	}
	select {
	case sc.wq <- it:
	case <-sc.done:
	}
	return true
}

// RespondError answers with partition error code `code`, no message set, hwm = -1.
func (p *PendingFetch) RespondError(code int16) bool {
	if !p.take() {
		return false
	}
	p.sc.send(fetchHeader(p.Version, p.corr, p.sc.f.Topic, p.sc.part, code, -1, -1, -1, 0))
	return true
}

// CloseConn closes the connection without answering.
func (p *PendingFetch) CloseConn() bool {
	if !p.take() {
		return false
	}
	sc, f := p.sc, p.sc.f
	f.mu.Lock()
	sc.closed = true
	f.record(sc, Event{Kind: EvServerClosed})
	f.mu.Unlock()
	select {
	case sc.wq <- wItem{close: true}:
	case <-sc.done:
	}
	return true
}

// ---- observation ----

// Pending returns all unanswered fetches on live connections, ordered by connection id.
func (f *Fake) Pending() []*PendingFetch {
	f.mu.Lock()
	defer f.mu.Unlock()
	var ps []*PendingFetch
	for _, sc := range f.conns {
		if sc.pending != nil && !sc.closed {
			ps = append(ps, sc.pending)
		}
	}
	sort.Slice(ps, func(i, j int) bool { return ps[i].ConnID < ps[j].ConnID })
	return ps
}

// PendingGen returns the unanswered fetch on a live connection of generation g (the one on
// the youngest connection if there are several), or nil.
func (f *Fake) PendingGen(g int) *PendingFetch {
	var best *PendingFetch
	for _, p := range f.Pending() {
		if p.Gen == g {
			best = p
		}
	}
	return best
}

// wait polls cond (under no lock) each time the fake records an event, until timeout.
func (f *Fake) wait(timeout time.Duration, cond func() bool) bool {
	t := time.NewTimer(timeout)
	defer t.Stop()
	for {
		if cond() {
			return true
		}
		select {
		case <-f.wake:
		case <-t.C:
			return cond()
		}
	}
}

// WaitPending waits until a fetch of the current generation (SetGen) is pending.
func (f *Fake) WaitPending(timeout time.Duration) (*PendingFetch, bool) {
	var p *PendingFetch
	ok := f.wait(timeout, func() bool {
		f.mu.Lock()
		g := f.gen
		f.mu.Unlock()
		p = f.PendingGen(g)
		return p != nil
	})
	return p, ok
}

func (f *Fake) NumEvents() int { f.mu.Lock(); defer f.mu.Unlock(); return len(f.events) }

// EventsFrom returns a copy of the chronological event log from index i on.
func (f *Fake) EventsFrom(i int) []Event {
	f.mu.Lock()
	defer f.mu.Unlock()
	if i >= len(f.events) {
		return nil
	}
	return append([]Event{}, f.events[i:]...)
}

// WaitConn waits until cond holds for the snapshot of connection id.
func (f *Fake) WaitConn(id int, timeout time.Duration, cond func(ConnInfo) bool) bool {
	return f.wait(timeout, func() bool { return cond(f.Conn(id)) })
}

func (f *Fake) Conn(id int) ConnInfo {
	f.mu.Lock()
	defer f.mu.Unlock()
	sc := f.conns[id]
	if sc == nil {
		return ConnInfo{}
	}
	return ConnInfo{ID: sc.id, Broker: sc.broker, Gen: sc.gen, LO: append([]int64{}, sc.lo...), NFetch: sc.nfetch, NMeta: sc.nmeta,
		Closed: sc.closed, ClientClosed: sc.clientClosed, Log: append([]Event{}, sc.log...)}
}

func (f *Fake) NumConns() int { f.mu.Lock(); defer f.mu.Unlock(); return f.nextID }

// Shutdown closes every connection and refuses further dials.
func (f *Fake) Shutdown() {
	f.mu.Lock()
	f.shut = true
	var cs []*sconn
	for _, sc := range f.conns {
		if !sc.closed {
			sc.closed = true
			if sc.pending != nil {
				sc.pending.done = true
				sc.pending = nil
			}
			f.record(sc, Event{Kind: EvServerClosed})
		}
		cs = append(cs, sc)
	}
	f.mu.Unlock()
	for _, sc := range cs {
		sc.srv.Close()
	}
}

// Dump renders the state for diagnostics.
func (f *Fake) Dump() string {
	f.mu.Lock()
	defer f.mu.Unlock()
	s := fmt.Sprintf("gen=%d leader=%d log=[%d,%d) conns=%d\n", f.gen, f.leader, f.logStart, f.logEnd, f.nextID)
	n := len(f.events)
	from := 0
	if n > 40 {
		from = n - 40
	}
	for _, e := range f.events[from:] {
		s += "  " + e.String() + "\n"
	}
	return s
}
