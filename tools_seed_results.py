#!/usr/bin/env python3
"""tools_seed_results.py — copy the isolated-evaluation results (/var/tmp/evalres/<P>-<k>.json, written by
`tools_seed.py eval`) into seeded/<P>-<k>/results.json and print the table DESIGN.md quotes."""
import glob, json, os
rows = []
for d in sorted(glob.glob('/verif/seeded/C*-*')):
    name = os.path.basename(d); p, k = name.split('-')
    f = f'/var/tmp/evalres/{p}-{k}.json'
    if not os.path.exists(f):
        continue
    r = json.load(open(f))
    meta = json.load(open(d + '/meta.json'))
    out = dict(property=p, k=k, evaluated_at_repo_head=r.get('repo_head'),
               how="python3 tools_seed.py eval %s %s %s  (patch applied to a copy of /repo bind-mounted over /repo in a private mount namespace; "
                   "./check <id> quick run from a copy of /verif; /repo itself untouched)" % (p, k, ' '.join(r.get('checks', {}).keys())),
               checks={pid: dict(exit=c['exit'], violation_lines=c['violations'], without_failing_input=c['no_failing_input'],
                                 wall_s=c['wall_s'], broken=[x['broken'] for x in c.get('detail', [])][:4])
                       for pid, c in r.get('checks', {}).items()},
               caught_by=r.get('caught_by', []), error=r.get('error'))
    json.dump(out, open(d + '/results.json', 'w'), indent=1)
    rows.append((name, meta.get('title', '')[:110], ', '.join(f"{pid}{'' if c['violations'] > c['no_failing_input'] else ' (no input)'}" for pid, c in r.get('checks', {}).items() if c['exit'] != 0),
                 ', '.join(pid for pid, c in r.get('checks', {}).items() if c['exit'] == 0)))
for r in rows:
    print('| %s | %s | %s | %s |' % r)
