#!/usr/bin/env python3
"""tools_design.py — regenerate the generated blocks of DESIGN.md (between <!-- BEGIN GENERATED:name --> and
<!-- END GENERATED:name -->) from MANIFEST.json, known_findings.json, evidence/*.json and seeded/*/{meta,results}.json."""
import glob, json, os, re, subprocess

V = '/verif'

def findings():
    k = json.load(open(f'{V}/known_findings.json'))['findings']
    out = ['| id | property | status | what failed |', '|---|---|---|---|']
    for f in k:
        what = f['what']
        what = re.sub(r'^fixed: property=\S+ \S+ ', '', what)
        what = what.split('; replay:')[0].split('; repaired')[0]
        if len(what) > 330:
            what = what[:327] + '…'
        st = ('fixed ' + f['commit']) if f['status'] == 'fixed' else '**known** (key `%s`)' % f['key']
        out.append('| %s | %s | %s | %s |' % (f['id'], f['property'], st, what.replace('|', '/')))
    return '\n'.join(out)

def per_property():
    man = json.load(open(f'{V}/MANIFEST.json'))
    out = []
    for c in man['checks']:
        pid = c['property_id']
        ev = {}
        try:
            ev = json.load(open(f'{V}/evidence/{pid}.json'))
        except Exception:
            pass
        cov = ev.get('coverage', ev)
        thms = []
        try:
            src = open(f'{V}/coq/Properties/{pid}.v').read()
            thms = re.findall(r'^\s*(?:Theorem|Corollary|Lemma)\s+(\w+)', src, re.M)
        except Exception:
            pass
        out.append(f'#### {pid}')
        out.append('')
        out.append(f'*Theorems in `coq/Properties/{pid}.v`* ({len(thms)}): ' + ', '.join('`%s`' % t for t in thms) + '.')
        out.append('')
        out.append('*Claim (MANIFEST `level_claimed.text`).* ' + c['level_claimed']['text'])
        out.append('')
        out.append('*Limits (MANIFEST `level_note`).* ' + c['level_note'])
        out.append('')
    return '\n'.join(out)

def seeds():
    out = ['| seed | change (one line) | needs, to manifest | checks that raise a VIOLATION | run and silent |', '|---|---|---|---|---|']
    n = caught = own = 0
    for d in sorted(glob.glob(f'{V}/seeded/C*-*')):
        name = os.path.basename(d)
        meta = json.load(open(d + '/meta.json'))
        res = {}
        if os.path.exists(d + '/results.json'):
            res = json.load(open(d + '/results.json'))
        cs = res.get('checks', {})
        hit = [pid + ('' if c['violation_lines'] > c['without_failing_input'] else ' (no-failing-input-found)') for pid, c in cs.items() if c['exit'] != 0]
        miss = [pid for pid, c in cs.items() if c['exit'] == 0]
        n += 1
        caught += 1 if hit else 0
        own += 1 if any(h.startswith(meta['property']) for h in hit) else 0
        out.append('| %s | %s | %s | %s | %s |' % (name, meta.get('title', '').replace('|', '/')[:160],
                   meta.get('needs_to_manifest', '').replace('|', '/').replace('\n', ' ')[:200], ', '.join(hit) or '**none**', ', '.join(miss) or '—'))
    out.append('')
    out.append(f'{n} seeded changes kept; {caught} raise a VIOLATION in at least one check, {own} in the check of the property they were written against.')
    return '\n'.join(out)

GEN = dict(findings=findings, per_property=per_property, seeds=seeds)

def main():
    p = f'{V}/DESIGN.md'
    s = open(p).read()
    for name, fn in GEN.items():
        a, b = f'<!-- BEGIN GENERATED:{name} -->', f'<!-- END GENERATED:{name} -->'
        if a in s:
            i, j = s.index(a) + len(a), s.index(b)
            s = s[:i] + '\n' + fn() + '\n' + s[j:]
    open(p, 'w').write(s)

if __name__ == '__main__':
    main()
