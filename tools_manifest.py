#!/usr/bin/env python3
"""tools_manifest.py add <ID> <technique> <text-file> <note-file>  — add/replace a check entry in MANIFEST.json"""
import json, sys
def add(pid, technique, text, note, design_ref=None):
    man = json.load(open('/verif/MANIFEST.json'))
    man['checks'] = [c for c in man['checks'] if c['property_id'] != pid]
    man['checks'].append({
        "property_id": pid, "quick_cmd": f"./check {pid} quick", "thorough_cmd": f"./check {pid} thorough",
        "evidence_file": f"evidence/{pid}.json", "replay_cmd_template": f"./check {pid} --replay {{path}}",
        "engine": "check",
        "level_claimed": {"category": "proof", "text": text, "design_ref": design_ref or f"DESIGN.md section 7 {pid}"},
        "level_note": note, "technique": technique})
    man['checks'].sort(key=lambda c: c['property_id'])
    man['not_applicable'] = [n for n in man.get('not_applicable', []) if n['property_id'] != pid]
    for e in man.get('engines', []):
        if e['name'] == 'check':
            e['serves_properties'] = sorted(c['property_id'] for c in man['checks'])
    json.dump(man, open('/verif/MANIFEST.json', 'w'), indent=1)
if __name__ == '__main__':
    add(sys.argv[2], sys.argv[3], open(sys.argv[4]).read().strip(), open(sys.argv[5]).read().strip())
