#!/usr/bin/env python3
"""Shared machinery of /verif/check (see DESIGN.md section 2.2).

A check is the conjunction of three layers:
  1. obligations  : coqc compiles Properties/<id>.v and its dependency cone
                    (including coq/Gen/*.v regenerated from /repo);
  2. correspondence: the extracted model and the real code are run on the same
                    generated cases and their observables diffed;
  3. search       : when 1 or 2 breaks, look for a concrete failing input.
"""
import fcntl, glob, hashlib, json, os, re, shutil, subprocess, sys, time

VERIF = os.path.dirname(os.path.abspath(__file__))
REPO = os.environ.get("VERIF_REPO", "/repo")
COQ = os.path.join(VERIF, "coq")
BUILD = os.path.join(VERIF, "build")
BIN = os.path.join(BUILD, "bin")
HARNESS = os.path.join(VERIF, "harness")
OCAML = os.path.join(VERIF, "ocaml")
EVIDENCE = os.path.join(VERIF, "evidence")
REPLAYS = os.path.join(VERIF, "replays")
CORPUS = os.path.join(VERIF, "corpus")
NCPU = os.cpu_count() or 4

GOENV = dict(os.environ, GOFLAGS="-mod=mod", GOPROXY="off", GOSUMDB="off",
             GOTOOLCHAIN="local", CGO_ENABLED=os.environ.get("CGO_ENABLED", "0"))

COQ_DIRS = ["Lib", "Spec", "Model", "Gen", "Golden", "Proofs", "Properties"]

FORBIDDEN = re.compile(
    r"\b(Admitted|admit|Axiom|Axioms|Parameter|Parameters|Conjecture|Conjectures|"
    r"Admit Obligations|Unset Guard Checking|Unset Positivity Checking|"
    r"Unset Universe Checking|bypass_check|native_compute)\b|-type-in-type|-impredicative-set")

# standard-library axioms that may appear under Print Assumptions (must be named
# in the evidence's trusted_base when they do)
STDLIB_AXIOMS = {
    "functional_extensionality_dep", "FunctionalExtensionality.functional_extensionality_dep",
    "Eqdep.Eq_rect_eq.eq_rect_eq", "eq_rect_eq", "JMeq_eq", "JMeq.JMeq_eq",
    "proof_irrelevance", "ProofIrrelevance.proof_irrelevance", "classic", "Classical_Prop.classic",
    "propositional_extensionality",
}


class Fail(Exception):
    """A layer of the check broke; .what names the theorem/correspondence."""
    def __init__(self, layer, what, detail=""):
        super().__init__(f"{layer}: {what}")
        self.layer, self.what, self.detail = layer, what, detail


def sh(cmd, cwd=None, timeout=1200, env=None, input=None, check=False):
    t0 = time.time()
    try:
        p = subprocess.run(cmd, shell=isinstance(cmd, str), cwd=cwd, env=env, input=input,
                           capture_output=True, text=True, timeout=timeout)
        rc, out, err = p.returncode, p.stdout, p.stderr
    except subprocess.TimeoutExpired as e:
        rc = 124
        out = e.stdout.decode() if isinstance(e.stdout, bytes) else (e.stdout or "")
        err = (e.stderr.decode() if isinstance(e.stderr, bytes) else (e.stderr or "")) + "\nTIMEOUT"
    if check and rc != 0:
        raise RuntimeError(f"command failed rc={rc}: {cmd}\n{out[-3000:]}\n{err[-3000:]}")
    return rc, out, err, time.time() - t0


class Lock:
    def __init__(self, name):
        os.makedirs(BUILD, exist_ok=True)
        self.path = os.path.join(BUILD, name + ".lock")
    def __enter__(self):
        self.f = open(self.path, "w")
        fcntl.flock(self.f, fcntl.LOCK_EX)
        return self
    def __exit__(self, *a):
        fcntl.flock(self.f, fcntl.LOCK_UN)
        self.f.close()


def write_if_changed(path, content):
    try:
        if open(path).read() == content:
            return False
    except FileNotFoundError:
        pass
    os.makedirs(os.path.dirname(path), exist_ok=True)
    tmp = path + ".tmp%d" % os.getpid()
    with open(tmp, "w") as f:
        f.write(content)
    os.replace(tmp, path)
    return True


# ----------------------------------------------------------------------------- Coq

def coq_files():
    fs = []
    for d in COQ_DIRS:
        fs += sorted(glob.glob(os.path.join(COQ, d, "*.v")))
    return [os.path.relpath(f, COQ) for f in fs]


def coq_project():
    """(Re)generate _CoqProject and the coq_makefile Makefile when the file set changed."""
    content = "-Q . KV\n" + "\n".join(coq_files()) + "\n"
    changed = write_if_changed(os.path.join(COQ, "_CoqProject"), content)
    mk = os.path.join(COQ, "Makefile.coq")
    if changed or not os.path.exists(mk):
        sh("coq_makefile -f _CoqProject -o Makefile.coq", cwd=COQ, check=True)


def coq_cone(target_v):
    """Transitive KV-internal dependencies of a .v file (paths relative to coq/)."""
    seen, todo = [], [target_v]
    while todo:
        f = todo.pop()
        if f in seen:
            continue
        seen.append(f)
        try:
            src = open(os.path.join(COQ, f)).read()
        except FileNotFoundError:
            continue
        for mod in kv_requires(src):
            p = mod.replace(".", "/") + ".v"
            if os.path.exists(os.path.join(COQ, p)):
                todo.append(p)
    return seen


def kv_requires(src):
    """Module names (relative to KV) required by a source text."""
    mods = []
    for m in re.finditer(r"From\s+KV\s+Require\s+(?:Import\s+|Export\s+)?(.*?)\.(?=\s)", src, re.S):
        mods += m.group(1).split()
    for m in re.finditer(r"(?<!From KV )Require\s+(?:Import\s+|Export\s+)?((?:KV\.[\w.']+\s*)+?)\.(?=\s)", src, re.S):
        mods += [x[3:] for x in m.group(1).split()]
    return mods


def strip_comments(src):
    out, depth, i = [], 0, 0
    while i < len(src):
        if src.startswith("(*", i):
            depth += 1; i += 2
        elif src.startswith("*)", i) and depth > 0:
            depth -= 1; i += 2
        else:
            if depth == 0:
                out.append(src[i])
            i += 1
    return "".join(out)


def coq_audit(cone):
    """Forbidden constructs in the cone; returns list of (file, line, text)."""
    bad = []
    for f in cone:
        src = strip_comments(open(os.path.join(COQ, f)).read())
        for n, line in enumerate(src.split("\n"), 1):
            if FORBIDDEN.search(line):
                bad.append((f, n, line.strip()))
            if re.match(r"\s*(Variable|Variables|Hypothesis|Hypotheses)\b", line):
                # allowed only inside a Section: checked coarsely by counting
                pre = "\n".join(src.split("\n")[:n])
                if len(re.findall(r"^\s*Section\s", pre, re.M)) <= len(re.findall(r"^\s*End\s", pre, re.M)):
                    bad.append((f, n, "Variable/Hypothesis outside a Section: " + line.strip()))
    return bad


def count_obligations(cone):
    n = 0
    for f in cone:
        src = strip_comments(open(os.path.join(COQ, f)).read())
        n += len(re.findall(r"\b(Qed|Defined)\s*\.", src))
    return n


def coq_build(prop_id, clean=False, timeout=3000):
    """Layer 1.  Builds Properties/<id>.vo with its cone (full .vo build), recompiles the
    property file itself to capture Print Assumptions, audits the cone.
    Returns dict(obligations, discharged, theorems, axioms, cone, log)."""
    target = f"Properties/{prop_id}.v"
    with Lock("coq"):
        coq_project()
        if clean:
            # a full rebuild from clean, once per state of the sources (shared by the
            # thorough runs of all properties through a stamp)
            h = hashlib.sha1()
            for f in coq_files():
                h.update(f.encode()); h.update(open(os.path.join(COQ, f), "rb").read())
            stamp = os.path.join(BUILD, "clean.stamp")
            if not (os.path.exists(stamp) and open(stamp).read() == h.hexdigest()):
                sh("make -f Makefile.coq clean", cwd=COQ)
                coq_project()
                rc0, o0, e0, _ = sh(f"make -f Makefile.coq -j{NCPU}", cwd=COQ, timeout=timeout)
                if rc0 == 0:
                    with open(stamp, "w") as fh:
                        fh.write(h.hexdigest())
        cone = coq_cone(target)
        obligations = count_obligations(cone)
        rc, out, err, dt = sh(f"make -f Makefile.coq -j{NCPU} {target[:-2]}.vo", cwd=COQ, timeout=timeout)
        log = out + err
        if rc != 0:
            m = re.search(r'File "\./([^"]+)", line (\d+)', log)
            where = f"{m.group(1)}:{m.group(2)}" if m else "?"
            # which Qed-closed statements are still fine: those of the files make considers up to date
            sh(f"make -k -f Makefile.coq -j{NCPU} {target[:-2]}.vo", cwd=COQ, timeout=timeout)
            ok = 0
            for f in cone:
                rq, _, _, _ = sh(f"make -q -f Makefile.coq {f[:-2]}.vo", cwd=COQ, timeout=120)
                if rq == 0:
                    ok += count_obligations([f])
            raise Fail("obligation", f"coqc failed at {where}",
                       json.dumps({"obligations": obligations, "discharged": ok, "log": log[-4000:]}))
        # always re-run the property file: cheap, and prints the assumptions
        rc, out, err, _ = sh(f"coqc -Q . KV {target}", cwd=COQ, timeout=600)
        if rc != 0:
            raise Fail("obligation", f"coqc failed on {target}", (out + err)[-4000:])
    theorems, axioms = parse_assumptions(out)
    bad = coq_audit(cone)
    if bad:
        raise Fail("obligation", "forbidden construct in proof cone", json.dumps(bad[:10]))
    for th, ax in axioms.items():
        for a in ax:
            if a.split(".")[-1] not in {x.split(".")[-1] for x in STDLIB_AXIOMS}:
                raise Fail("obligation", f"theorem {th} depends on non-stdlib axiom {a}")
    return dict(obligations=obligations, discharged=obligations, theorems=theorems,
                axioms=axioms, cone=cone, log=log)


def coqchk(prop_id, timeout=6000):
    """Thorough tier: re-check the property's compiled cone with the independent checker.
    Returns (ok, axioms_text)."""
    with Lock("coq"):
        rc, out, err, dt = sh(f"coqchk -silent -o -Q . KV KV.Properties.{prop_id}", cwd=COQ, timeout=timeout)
    txt = out + err
    m = re.search(r"\* Axioms:(.*?)\n\s*\n\* Constants/Inductives relying on type-in-type", txt, re.S)
    axioms = m.group(1).strip() if m else "?"
    bad = []
    for key in ("type-in-type", "unsafe (co)fixpoints", "positivity is assumed"):
        mm = re.search(re.escape(key) + r":\s*(\S+)", txt)
        if not (mm and mm.group(1) == "<none>"):
            bad.append(key)
    ok = rc == 0 and not bad
    return ok, axioms, dt, txt[-1500:]


def parse_assumptions(out):
    """Parse the output of a Properties file: our files print, before each Print
    Assumptions, nothing; Coq prints 'Closed under the global context' or
    'Axioms:\n name : type ...'.  Theorem names are taken from the source order."""
    blocks = re.split(r"(?=Closed under the global context|Axioms:)", out)
    res = []
    for b in blocks:
        if b.startswith("Closed under"):
            res.append([])
        elif b.startswith("Axioms:"):
            names = re.findall(r"^([A-Za-z_][\w.']*)\s*:", b[len("Axioms:"):], re.M)
            res.append(names)
    return res, {}


def property_theorems(prop_id):
    src = strip_comments(open(os.path.join(COQ, f"Properties/{prop_id}.v")).read())
    ths = re.findall(r"\b(?:Theorem|Corollary)\s+([\w']+)", src)
    pas = re.findall(r"Print Assumptions\s+([\w'.]+)\s*\.", src)
    return ths, pas


def assumptions_report(prop_id, build):
    ths, pas = property_theorems(prop_id)
    blocks = build["theorems"]
    missing = [t for t in ths if t not in pas]
    if missing:
        raise Fail("obligation", f"theorems without Print Assumptions: {missing}")
    if len(blocks) != len(pas):
        raise Fail("obligation", f"Print Assumptions output count {len(blocks)} != {len(pas)}")
    rep = {}
    for name, ax in zip(pas, blocks):
        rep[name] = ax
        for a in ax:
            if a.split(".")[-1] not in {x.split(".")[-1] for x in STDLIB_AXIOMS}:
                raise Fail("obligation", f"theorem {name} depends on axiom {a} not declared by the standard library")
    return rep


# ----------------------------------------------------------------------------- builds

def go_build(cmd, tags="verif", race=False, out=None):
    """Rebuild a harness command against /repo's current working tree."""
    os.makedirs(BIN, exist_ok=True)
    out = out or os.path.join(BIN, cmd + ("_race" if race else ""))
    gosum = os.path.join(HARNESS, "go.sum")
    with Lock("go"):
        shutil.copyfile(os.path.join(REPO, "go.sum"), gosum)
        env = dict(GOENV)
        if race:
            env["CGO_ENABLED"] = "1"
        rc, o, e, dt = sh(["go", "build"] + (["-race"] if race else []) + ["-tags", tags, "-o", out, "./cmd/" + cmd],
                          cwd=HARNESS, env=env, timeout=1200)
    if rc != 0:
        raise Fail("correspondence", f"harness build failed for cmd/{cmd} (does /repo still compile with -tags {tags}?)", (o + e)[-4000:])
    return out


def ocaml_build(name, extract_v=None, driver=None):
    """Extract coq/Extract/<Name>.v in build/ml/<name>/ and compile ocaml/<name>_driver.ml
    against it.  The extracted model needs only Model/ and Spec/ .vo files."""
    extract_v = extract_v or f"Extract/{name.upper()}.v"
    driver = driver or f"{name}_driver.ml"
    d = os.path.join(BUILD, "ml", name)
    os.makedirs(d, exist_ok=True)
    os.makedirs(BIN, exist_ok=True)
    with Lock("coq"):
        coq_project()
        src = open(os.path.join(COQ, extract_v)).read()
        deps = [x.replace(".", "/") + ".vo" for x in kv_requires(src)]
        if not deps:
            raise Fail("correspondence", f"{extract_v} requires no model file")
        rc, o, e, _ = sh(f"make -f Makefile.coq -j{NCPU} " + " ".join(deps), cwd=COQ, timeout=3000)
        if rc != 0:
            raise Fail("correspondence", f"model files for {name} no longer compile", (o + e)[-4000:])
        rc, o, e, _ = sh(f"coqc -Q {COQ} KV {os.path.join(COQ, extract_v)}", cwd=d, timeout=600)
        if rc != 0:
            raise Fail("correspondence", f"extraction failed for {name}", (o + e)[-4000:])
        for junk in glob.glob(os.path.join(COQ, "Extract", "*.vo")) + glob.glob(os.path.join(COQ, "Extract", "*.glob")) + glob.glob(os.path.join(COQ, "Extract", ".*.aux")):
            os.remove(junk)
    with Lock("ml_" + name):
        model = f"{name}_model"
        with open(os.path.join(d, f"{name}_io.ml"), "w") as f:
            f.write(f"open {model.capitalize()}\n" + open(os.path.join(OCAML, "kvio.ml.in")).read())
        shutil.copyfile(os.path.join(OCAML, driver), os.path.join(d, driver))
        exe = os.path.join(BIN, f"{name}_model")
        rc, o, e, _ = sh(f"ocamlfind ocamlopt -O3 -w -a -o {exe} {model}.mli {model}.ml {name}_io.ml {driver}", cwd=d, timeout=600)
        if rc != 0:
            raise Fail("correspondence", f"OCaml build failed for {name}", (o + e)[-4000:])
    return exe


# ----------------------------------------------------------------------------- cases

def parse_cases(text):
    """Lines '<id> <op> <args> | <go result> | <features>' -> list of dicts."""
    cases = []
    for line in text.splitlines():
        if not line.strip():
            continue
        parts = [p.strip() for p in line.split(" | ")]
        head = parts[0].split(" ", 2)
        cases.append(dict(id=head[0], op=head[1] if len(head) > 1 else "",
                          args=head[2] if len(head) > 2 else "",
                          go=parts[1] if len(parts) > 1 else "",
                          feats=parts[2] if len(parts) > 2 else "", line=parts[0]))
    return cases


def run_model(exe, cases_text, timeout=1200):
    rc, out, err, dt = sh([exe], input=cases_text, timeout=timeout)
    if rc != 0:
        raise Fail("correspondence", f"model driver {os.path.basename(exe)} crashed rc={rc}", err[-2000:])
    res = {}
    for line in out.splitlines():
        i, _, r = line.partition(" ")
        res[i] = r
    return res


def diff_cases(cases, model):
    """Returns mismatching cases (model result attached)."""
    bad = []
    for c in cases:
        m = model.get(c["id"])
        if m != c["go"]:
            c2 = dict(c); c2["model"] = m
            bad.append(c2)
    return bad


def coverage_counts(cases, trivial_feats=("",)):
    ev = len(cases)
    seen = set()
    hist = {}
    for c in cases:
        for f in (c["feats"].split(",") if c["feats"] else [""]):
            hist[c["op"] + ":" + f] = hist.get(c["op"] + ":" + f, 0) + 1
        if c["feats"] not in trivial_feats:
            seen.add(hashlib.sha1((c["op"] + " " + c["args"]).encode()).hexdigest())
    return ev, len(seen), hist


# ----------------------------------------------------------------------------- findings, evidence, verdict

def known_findings(prop_id):
    p = os.path.join(VERIF, "known_findings.json")
    if not os.path.exists(p):
        return []
    data = json.load(open(p))
    return [f for f in data.get("findings", []) if f.get("property") == prop_id and f.get("status") == "known"]


def write_evidence(prop_id, tier, seed, coverage, wall_s, violations, assumptions):
    os.makedirs(EVIDENCE, exist_ok=True)
    ev = dict(property_id=prop_id, tier=tier, seed=seed, level="proof", coverage=coverage,
              assumptions=assumptions, wall_s=round(wall_s, 2), violations=violations)
    with open(os.path.join(EVIDENCE, prop_id + ".json"), "w") as f:
        json.dump(ev, f, indent=1, sort_keys=True)
        f.write("\n")


def write_replay(prop_id, payload):
    os.makedirs(REPLAYS, exist_ok=True)
    h = hashlib.sha1(json.dumps(payload, sort_keys=True).encode()).hexdigest()[:10]
    p = os.path.join(REPLAYS, f"{prop_id}-{h}.json")
    with open(p, "w") as f:
        json.dump(payload, f, indent=1, sort_keys=True)
        f.write("\n")
    return p


def repo_fingerprint():
    rc, out, _, _ = sh("git rev-parse HEAD; git status --porcelain | sha1sum", cwd=REPO)
    return out.strip().replace("\n", " ")
