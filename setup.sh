#!/bin/bash
# MANIFEST.setup_cmd: build the framework offline from files on disk.
set -e
cd "$(dirname "$0")"
export GOFLAGS=-mod=mod GOPROXY=off GOSUMDB=off GOTOOLCHAIN=local
mkdir -p build/bin evidence replays coq/Gen
python3 - <<'PY'
import sys, os, json, importlib
sys.path.insert(0, os.getcwd())
import checklib as L
# translators first: coq/Gen/*.v is regenerated from /repo (never committed), and the make needs it
from checks import schema_common, c10
print("vgen schema:", schema_common.generate(None), "schemas")
print("vskel:", c10.generate(None))
L.coq_project()
rc, out, err, dt = L.sh(f"make -f Makefile.coq -j{L.NCPU}", cwd=L.COQ, timeout=7000)
print("coq make rc=%d in %.0fs" % (rc, dt))
if rc != 0:
    print(out[-3000:], err[-3000:]); sys.exit(1)
man = json.load(open("MANIFEST.json"))
for c in man["checks"]:
    pid = c["property_id"]
    mod = importlib.import_module("checks." + pid.lower())
    if hasattr(mod, "setup"):
        mod.setup()
        print("setup", pid, "ok")
PY
