(* Properties/C02.v — a Reader bound to a topic partition delivers exactly the partition's
   records from its position, in order.  Only statements; every proof is [exact <lemma>]. *)
From Coq Require Import List NArith ZArith Bool.
From KV Require Import Lib.Bits Lib.Bytes Lib.Varint Model.MsgSetReader Model.ReaderModel Spec.FetchSpec
  Proofs.ReaderRefute.
Import ListNotations.
Open Scope Z_scope.

(* ---- refuted: Conn.offset after Batch.close can fall below the fetch offset (F1) ---- *)
Definition C02_conn_offset_advances_full_statement : Prop := conn_offset_never_regresses.

Theorem C02_empty_tail_batch_refuted : ~ C02_conn_offset_advances_full_statement.
Proof. exact empty_tail_batch_refutes. Qed.
Print Assumptions C02_empty_tail_batch_refuted.

Theorem C02_empty_tail_batch_witness :
  fetch_run no_decomp 100 100 101 (fetch_response no_compress f1_layout 100 61) 61 false = Some ([], EEOF, 1).
Proof. exact f1_run. Qed.
Print Assumptions C02_empty_tail_batch_witness.

Theorem C02_consecutive_empty_batches_panic_refuted : ~ fetch_never_panics.
Proof. exact consecutive_empty_batches_panic. Qed.
Print Assumptions C02_consecutive_empty_batches_panic_refuted.

Theorem C02_offset_regress_in_compacted_tail_witness :
  fetch_run no_decomp 100 50 52 (fetch_response no_compress g_layout 50 135) 135 false = Some ([], EEOF, 48).
Proof. exact compacted_tail_then_partial_batch_regresses. Qed.
Print Assumptions C02_offset_regress_in_compacted_tail_witness.
