(* Properties/C02.v — a Reader bound to a topic partition delivers exactly the partition's
   records from its position, in order.  Only statements; every proof is [exact <lemma>].

   Structure: L1 (bytes) establishes, for a broker response, the FETCH CONTRACT [fetch_ok]; L2
   (offsets) proves the delivery theorems for every run in which the current generation's data
   responses obey that contract.  Proved here:
     - L2 in full (C02_delivery_exact, C02_setoffset_next, C02_generation_exact, ...), with the
       contract as an explicit hypothesis on labels;
     - C02_conn_offset_advances in full, for arbitrary response bytes;
     - L1 decoding (C02_batch_decode_exact) and C02_progress: proved for every layout whose
       formats are ordered (v0/v1 batches, then v2 batches) and whose sizes fit the wire format
       ([wire_fits]) — v2 batches of any codec, plain v0/v1 messages, compressed v0/v1 wrappers,
       record-less batches, compaction holes —, every fetch offset >= 0 with data at or after it
       and every legal cut (C02_batch_decode_exact_ordered_partial, C02_progress_ordered_partial,
       linked to L2 by C02_contract_ordered); decompression is an oracle with
       decomp c (compress c x) = Some x.  The theorems for the families of responses this was
       built from are kept (…_v2_partial, …_legacy_uncompressed_partial, …_legacy_then_v2_partial,
       …_legacy_wrapped_then_v2_partial).  The statements without the size hypotheses are kept as
       Definitions.
   Three defects of the code found by this check (F1 and two more) were fixed in /repo; their
   witnesses are kept below as regression Examples. *)
From Coq Require Import List NArith ZArith Bool.
From KV Require Import Lib.Bits Lib.Bytes Lib.Varint Model.MsgSetReader Model.ReaderModel Spec.FetchSpec
  Proofs.ReaderBatch Proofs.ReaderProofs Proofs.ReaderLTS
  Proofs.ReaderPrim Proofs.ReaderV2 Proofs.ReaderV2Run Proofs.ReaderV2Sound Proofs.ReaderV2Final
  Proofs.ReaderV1 Proofs.ReaderV1Run Proofs.ReaderV1Final Proofs.ReaderMixedFinal
  Proofs.ReaderWrap Proofs.ReaderWrapInner Proofs.ReaderWrapRun Proofs.ReaderWrapFinal Proofs.ReaderClose
  Model.ReaderLookup Proofs.ReaderLookup.
Import ListNotations.
Open Scope Z_scope.

(* ------------------------------------------------------------------ L1: full statements *)
(* [formats_ordered f l] (Proofs/ReaderWrapFinal.v): the formats of the batches of l never
   decrease, starting at f — a partition's message format is only ever upgraded. *)

(* C02_batch_decode_exact: for every log, layout (record-less batches included), fetch offset
   with data at or after it, and legal cut, reading the batch to its end yields exactly the
   stored records in [o, f) where f >= o is Conn.offset after Batch.close, then io.EOF.
   NOT proved without size hypotheses (an encoder cannot write a key of 2^40 bytes): the proved
   form is C02_batch_decode_exact_ordered_partial below, which adds [Forall wire_fits l] (every
   length fits its wire field), 0 <= o, and makes the fuel bound explicit. *)
Definition C02_batch_decode_exact_full_statement : Prop :=
  forall (compress : Z -> list N -> list N) (decomp : Z -> list N -> option (list N)),
    (forall c x, decomp c (compress c x) = Some x) ->
  forall log l o k hwm,
    log_ok log -> layout_ok log l -> formats_ordered 0 l ->
    from_offset l o <> [] -> valid_cut compress l o k -> hwm <> o ->
    exists fuel0, forall fuel, (fuel0 <= fuel)%nat ->
      exists ms f,
        fetch_run decomp fuel o hwm (fetch_response compress l o k) (Z.of_nat k) false = Some (ms, EEOF, f)
        /\ fetch_ok log o ms f.

(* proved: the full statement restricted to RESPONSES made of v2 batches, COMPRESSED OR NOT (the
   batches before the fetch offset may be anything well formed: the layout may begin with v0/v1
   batches), whose sizes
   fit the wire format ([v2ok]: codec 0..4, lengths and counts below 2^30, record bodies below
   2^31, a record-less batch carries no payload), with decompression as an oracle obeying
   decomp c (compress c x) = Some x: for every such layout — compaction holes at the head,
   inside and at the tail of batches, record-less batches anywhere, any number in a row, any
   mix of compressed and uncompressed batches —, every fetch offset with data at or after it
   and every legal cut (any byte position that keeps the first batch whole), the model's
   Batch.ReadMessage loop returns exactly the stored records in [o, f), in order, with the
   stored offset / millisecond timestamp / key / value / headers, then io.EOF, and leaves
   Conn.offset = f >= o.  Uncompressed batches are delivered record by record up to the cut;
   a compressed batch is delivered whole or not at all.  [fetch_ok] with the exactness of
   [between] says: the records wholly contained in the received bytes with offset >= o, none
   else. *)
Theorem C02_batch_decode_exact_v2_partial :
  forall (compress : Z -> list N -> list N) (decomp : Z -> list N -> option (list N)),
  (forall c x, decomp c (compress c x) = Some x) ->
  forall log l o k hwm,
  log_ok log -> layout_ok log l ->
  Forall (fun b => pb_fmt b = 2) (from_offset l o) -> Forall (v2ok compress) (from_offset l o) ->
  from_offset l o <> [] -> valid_cut compress l o k -> hwm <> o ->
  forall fuel, (S (tokens [] (from_offset l o)) <= fuel)%nat ->
  exists ms f,
    fetch_run decomp fuel o hwm (fetch_response compress l o k) (Z.of_nat k) false = Some (ms, EEOF, f)
    /\ fetch_ok log o ms f.
Proof. exact batch_decode_exact_v2. Qed.
Print Assumptions C02_batch_decode_exact_v2_partial.

(* the link L1 -> L2: such a response is a legal answer in the sense of the delivery theorems *)
Theorem C02_contract_v2 :
  forall (compress : Z -> list N -> list N) (decomp : Z -> list N -> option (list N)),
  (forall c x, decomp c (compress c x) = Some x) ->
  forall log l k hwm fuel g,
  log_ok log -> layout_ok log l ->
  Forall (fun b => pb_fmt b = 2) (from_offset l (g_conn g)) -> Forall (v2ok compress) (from_offset l (g_conn g)) ->
  from_offset l (g_conn g) <> [] -> valid_cut compress l (g_conn g) k -> hwm <> g_conn g ->
  (S (tokens [] (from_offset l (g_conn g))) <= fuel)%nat ->
  ev_ok (fetch_run decomp fuel) log g
        (GFetch (FData hwm (fetch_response compress l (g_conn g) k) (Z.of_nat k) false)).
Proof. exact contract_v2. Qed.
Print Assumptions C02_contract_v2.

(* proved: the full statement restricted to layouts of UNCOMPRESSED v0 / v1 messages
   ([legacy_ok]: format 0 or 1, codec 0, keys and values below 2^29 bytes, v0 records carry no
   timestamp, no record headers): for every such layout (gaps between offsets included),
   every fetch offset o >= 0 with data at or after it — the batch containing o may begin before
   it: readMessageV1 skips those messages — and every legal cut, the Batch.ReadMessage loop
   returns exactly the stored records in [o, f), in order, fields as stored, then io.EOF, and
   leaves Conn.offset = f >= o. *)
Theorem C02_batch_decode_exact_legacy_uncompressed_partial :
  forall (compress : Z -> list N -> list N) (decomp : Z -> list N -> option (list N)) log l o k hwm,
  log_ok log -> layout_ok log l -> Forall legacy_ok l -> 0 <= o ->
  from_offset l o <> [] -> valid_cut compress l o k -> hwm <> o ->
  forall fuel, (length (all_items (from_offset l o)) + 4 <= fuel)%nat ->
  exists ms f,
    fetch_run decomp fuel o hwm (fetch_response compress l o k) (Z.of_nat k) false = Some (ms, EEOF, f)
    /\ fetch_ok log o ms f.
Proof. exact batch_decode_exact_legacy_uncompressed. Qed.
Print Assumptions C02_batch_decode_exact_legacy_uncompressed_partial.

Theorem C02_contract_legacy_uncompressed :
  forall (compress : Z -> list N -> list N) (decomp : Z -> list N -> option (list N)) log l k hwm fuel g,
  log_ok log -> layout_ok log l -> Forall legacy_ok l -> 0 <= g_conn g ->
  from_offset l (g_conn g) <> [] -> valid_cut compress l (g_conn g) k -> hwm <> g_conn g ->
  (length (all_items (from_offset l (g_conn g))) + 4 <= fuel)%nat ->
  ev_ok (fetch_run decomp fuel) log g
        (GFetch (FData hwm (fetch_response compress l (g_conn g) k) (Z.of_nat k) false)).
Proof. exact contract_legacy_uncompressed. Qed.
Print Assumptions C02_contract_legacy_uncompressed.

(* proved: the layout of a partition whose message format was upgraded — uncompressed v0/v1
   batches followed by v2 batches of any codec — with the fetch offset inside the v0/v1 part:
   the response is v0/v1 messages followed by all the v2 batches, cut anywhere legal *)
Theorem C02_batch_decode_exact_legacy_then_v2_partial :
  forall (compress : Z -> list N -> list N) (decomp : Z -> list N -> option (list N)),
  (forall c x, decomp c (compress c x) = Some x) ->
  forall log lg v2 o k hwm,
  log_ok log -> layout_ok log (lg ++ v2) ->
  Forall legacy_ok lg -> Forall (fun b => pb_fmt b = 2) v2 -> Forall (v2ok compress) v2 -> 0 <= o ->
  from_offset lg o <> [] -> valid_cut compress (lg ++ v2) o k -> hwm <> o ->
  forall fuel, (length (all_items (from_offset lg o)) + tokens [] v2 + 5 <= fuel)%nat ->
  exists ms f,
    fetch_run decomp fuel o hwm (fetch_response compress (lg ++ v2) o k) (Z.of_nat k) false = Some (ms, EEOF, f)
    /\ fetch_ok log o ms f.
Proof. exact batch_decode_exact_legacy_then_v2. Qed.
Print Assumptions C02_batch_decode_exact_legacy_then_v2_partial.

Theorem C02_contract_legacy_then_v2 :
  forall (compress : Z -> list N -> list N) (decomp : Z -> list N -> option (list N)),
  (forall c x, decomp c (compress c x) = Some x) ->
  forall log lg v2 k hwm fuel g,
  log_ok log -> layout_ok log (lg ++ v2) ->
  Forall legacy_ok lg -> Forall (fun b => pb_fmt b = 2) v2 -> Forall (v2ok compress) v2 -> 0 <= g_conn g ->
  from_offset lg (g_conn g) <> [] -> valid_cut compress (lg ++ v2) (g_conn g) k -> hwm <> g_conn g ->
  (length (all_items (from_offset lg (g_conn g))) + tokens [] v2 + 5 <= fuel)%nat ->
  ev_ok (fetch_run decomp fuel) log g
        (GFetch (FData hwm (fetch_response compress (lg ++ v2) (g_conn g) k) (Z.of_nat k) false)).
Proof. exact contract_legacy_then_v2. Qed.
Print Assumptions C02_contract_legacy_then_v2.

(* proved: v0/v1 batches whose messages are plain OR inside a compressed wrapper message
   ([lgc_ok]: format 0 or 1; codec 0, or codec 1..4 with the compressed inner message set below
   2^30 bytes; keys and values below 2^29 bytes; v1 inner offsets relative to the batch base, v0
   absolute), alone or followed by v2 batches of any codec, the fetch offset inside the v0/v1
   part: the reader decompresses the wrapper, rebases the inner offsets on the wrapper's offset,
   skips the inner messages below the fetch offset, and pops back to the response when the
   inner set is exhausted; a wrapper that the cut truncates is not delivered at all *)
Theorem C02_batch_decode_exact_legacy_wrapped_then_v2_partial :
  forall (compress : Z -> list N -> list N) (decomp : Z -> list N -> option (list N)),
  (forall c x, decomp c (compress c x) = Some x) ->
  forall o log lg v2 k hwm,
  log_ok log -> layout_ok log (lg ++ v2) ->
  Forall (lgc_ok compress) lg -> Forall (fun b => pb_fmt b = 2) v2 -> Forall (v2ok compress) v2 -> 0 <= o ->
  from_offset lg o <> [] -> valid_cut compress (lg ++ v2) o k -> hwm <> o ->
  forall fuel, (length (all_items (from_offset lg o)) + tokens [] v2 + 5 <= fuel)%nat ->
  exists ms f,
    fetch_run decomp fuel o hwm (fetch_response compress (lg ++ v2) o k) (Z.of_nat k) false = Some (ms, EEOF, f)
    /\ fetch_ok log o ms f.
Proof. exact batch_decode_exact_legacy_wrapped_then_v2. Qed.
Print Assumptions C02_batch_decode_exact_legacy_wrapped_then_v2_partial.

(* proved: C02_batch_decode_exact for EVERY layout with ordered formats whose sizes fit the wire
   format ([wire_fits]: [v2ok] for a v2 batch, [lgc_ok] for a v0/v1 batch), every fetch offset
   o >= 0 with data at or after it, every legal cut; fuel0 = length log + length l + 5 *)
Theorem C02_batch_decode_exact_ordered_partial :
  forall (compress : Z -> list N -> list N) (decomp : Z -> list N -> option (list N)),
  (forall c x, decomp c (compress c x) = Some x) ->
  forall log l o k hwm,
  log_ok log -> layout_ok log l -> formats_ordered 0 l -> Forall (wire_fits compress) l -> 0 <= o ->
  from_offset l o <> [] -> valid_cut compress l o k -> hwm <> o ->
  forall fuel, (length log + length l + 5 <= fuel)%nat ->
  exists ms f,
    fetch_run decomp fuel o hwm (fetch_response compress l o k) (Z.of_nat k) false = Some (ms, EEOF, f)
    /\ fetch_ok log o ms f.
Proof. exact batch_decode_exact_ordered. Qed.
Print Assumptions C02_batch_decode_exact_ordered_partial.

Theorem C02_contract_ordered :
  forall (compress : Z -> list N -> list N) (decomp : Z -> list N -> option (list N)),
  (forall c x, decomp c (compress c x) = Some x) ->
  forall log l k hwm fuel g,
  log_ok log -> layout_ok log l -> formats_ordered 0 l -> Forall (wire_fits compress) l -> 0 <= g_conn g ->
  from_offset l (g_conn g) <> [] -> valid_cut compress l (g_conn g) k -> hwm <> g_conn g ->
  (length log + length l + 5 <= fuel)%nat ->
  ev_ok (fetch_run decomp fuel) log g
        (GFetch (FData hwm (fetch_response compress l (g_conn g) k) (Z.of_nat k) false)).
Proof. exact contract_ordered. Qed.
Print Assumptions C02_contract_ordered.

(* C02_progress: a response whose first batch (whole, by the cut rule) contains a record >= o
   delivers at least one record.  The statement without size hypotheses is kept as a Definition;
   the proved form is C02_progress_ordered_partial (every ordered layout whose sizes fit the wire
   format), after the theorems for the families of responses it was built from. *)
Definition C02_progress_full_statement : Prop :=
  forall (compress : Z -> list N -> list N) (decomp : Z -> list N -> option (list N)),
    (forall c x, decomp c (compress c x) = Some x) ->
  forall log l o k hwm fuel ms e f,
    log_ok log -> layout_ok log l -> formats_ordered 0 l ->
    valid_cut compress l o k -> hwm <> o ->
    (exists b r, hd_error (from_offset l o) = Some b /\ In r (pb_recs b) /\ o <= r_off r) ->
    fetch_run decomp fuel o hwm (fetch_response compress l o k) (Z.of_nat k) false = Some (ms, e, f) ->
    e <> EFuel -> ms <> [].

Theorem C02_progress_v2_partial :
  forall (compress : Z -> list N -> list N) (decomp : Z -> list N -> option (list N)),
  (forall c x, decomp c (compress c x) = Some x) ->
  forall log l o k hwm,
  log_ok log -> layout_ok log l ->
  Forall (fun b => pb_fmt b = 2) (from_offset l o) -> Forall (v2ok compress) (from_offset l o) ->
  from_offset l o <> [] -> valid_cut compress l o k -> hwm <> o ->
  (exists b r, hd_error (from_offset l o) = Some b /\ In r (pb_recs b) /\ o <= r_off r) ->
  forall fuel ms e f, (S (tokens [] (from_offset l o)) <= fuel)%nat ->
  fetch_run decomp fuel o hwm (fetch_response compress l o k) (Z.of_nat k) false = Some (ms, e, f) ->
  ms <> [].
Proof. exact progress_v2. Qed.
Print Assumptions C02_progress_v2_partial.

(* for v0/v1 the first batch of the response always reaches the fetch offset (its last record is
   at or after o), so no extra hypothesis is needed *)
Theorem C02_progress_legacy_uncompressed_partial :
  forall (compress : Z -> list N -> list N) (decomp : Z -> list N -> option (list N)) log l o k hwm,
  log_ok log -> layout_ok log l -> Forall legacy_ok l -> 0 <= o ->
  from_offset l o <> [] -> valid_cut compress l o k -> hwm <> o ->
  forall fuel ms e f, (length (all_items (from_offset l o)) + 4 <= fuel)%nat ->
  fetch_run decomp fuel o hwm (fetch_response compress l o k) (Z.of_nat k) false = Some (ms, e, f) ->
  ms <> [].
Proof. exact progress_legacy_uncompressed. Qed.
Print Assumptions C02_progress_legacy_uncompressed_partial.

Theorem C02_progress_legacy_then_v2_partial :
  forall (compress : Z -> list N -> list N) (decomp : Z -> list N -> option (list N)),
  (forall c x, decomp c (compress c x) = Some x) ->
  forall log lg v2 o k hwm,
  log_ok log -> layout_ok log (lg ++ v2) ->
  Forall legacy_ok lg -> Forall (fun b => pb_fmt b = 2) v2 -> Forall (v2ok compress) v2 -> 0 <= o ->
  from_offset lg o <> [] -> valid_cut compress (lg ++ v2) o k -> hwm <> o ->
  forall fuel ms e f, (length (all_items (from_offset lg o)) + tokens [] v2 + 5 <= fuel)%nat ->
  fetch_run decomp fuel o hwm (fetch_response compress (lg ++ v2) o k) (Z.of_nat k) false = Some (ms, e, f) ->
  ms <> [].
Proof. exact progress_legacy_then_v2. Qed.
Print Assumptions C02_progress_legacy_then_v2_partial.

Theorem C02_progress_legacy_wrapped_then_v2_partial :
  forall (compress : Z -> list N -> list N) (decomp : Z -> list N -> option (list N)),
  (forall c x, decomp c (compress c x) = Some x) ->
  forall o log lg v2 k hwm,
  log_ok log -> layout_ok log (lg ++ v2) ->
  Forall (lgc_ok compress) lg -> Forall (fun b => pb_fmt b = 2) v2 -> Forall (v2ok compress) v2 -> 0 <= o ->
  from_offset lg o <> [] -> valid_cut compress (lg ++ v2) o k -> hwm <> o ->
  forall fuel ms e f, (length (all_items (from_offset lg o)) + tokens [] v2 + 5 <= fuel)%nat ->
  fetch_run decomp fuel o hwm (fetch_response compress (lg ++ v2) o k) (Z.of_nat k) false = Some (ms, e, f) ->
  ms <> [].
Proof. exact progress_legacy_wrapped_then_v2. Qed.
Print Assumptions C02_progress_legacy_wrapped_then_v2_partial.

(* C02_progress for every ordered layout whose sizes fit the wire format *)
Theorem C02_progress_ordered_partial :
  forall (compress : Z -> list N -> list N) (decomp : Z -> list N -> option (list N)),
  (forall c x, decomp c (compress c x) = Some x) ->
  forall log l o k hwm,
  log_ok log -> layout_ok log l -> formats_ordered 0 l -> Forall (wire_fits compress) l -> 0 <= o ->
  valid_cut compress l o k -> hwm <> o ->
  (exists b r, hd_error (from_offset l o) = Some b /\ In r (pb_recs b) /\ o <= r_off r) ->
  forall fuel ms e f, (length log + length l + 5 <= fuel)%nat ->
  fetch_run decomp fuel o hwm (fetch_response compress l o k) (Z.of_nat k) false = Some (ms, e, f) ->
  ms <> [].
Proof. exact progress_ordered. Qed.
Print Assumptions C02_progress_ordered_partial.

(* C02_conn_offset_advances, in full and for every response whatsoever (any bytes, any cut, any
   codec behaviour): Conn.offset after Batch.close is never below the offset the fetch was
   issued at, and every delivered message has fetch offset <= offset < Conn.offset.  (That
   Conn.offset is exactly 1 + the last delivered offset or the batch's lastOffset + 1 over a
   compacted tail is the [fetch_ok] part of C02_batch_decode_exact.) *)
Theorem C02_conn_offset_advances : forall decomp fuel o hwm bytes remain late ms e f,
  fetch_run decomp fuel o hwm bytes remain late = Some (ms, e, f) ->
  o <= f /\ Forall (fun g => o <= g_off g < f) ms.
Proof. exact conn_offset_advances. Qed.
Print Assumptions C02_conn_offset_advances.


(* Batch.Close after the run ([fetch_close]: messages, last error, Conn.offset, Close's result,
   whether the library closes the connection) leaves the offset of the run *)
Theorem C02_close_keeps_run_offset : forall decomp fuel offset hwm i remain late,
  fetch_run decomp fuel offset hwm i remain late
  = match fetch_close decomp fuel offset hwm i remain late with
    | Some (ms, e, off, _, _) => Some (ms, e, off)
    | None => None
    end.
Proof. exact fetch_close_run. Qed.
Print Assumptions C02_close_keeps_run_offset.

(* a connection cut inside the COMPRESSED payload of a v2 batch that the response announces whole
   ([cut_payload]: the batch header is current, its payload size fits the announced rest of the
   response, fewer bytes than the payload arrive): nothing of the batch is delivered, the run
   ends with an I/O error, Conn.offset after Close is the offset before the batch was entered —
   it never passes the records that did not arrive —, Close returns the error and the library
   closes the connection *)
Theorem C02_cut_in_compressed_payload : forall decomp fuel m m1 co off last late acc,
  m_empty m = false -> read_header (S fuel) m = MOk tt m1 -> cut_payload m1 ->
  exists b',
    batch_run_b decomp (S fuel) (mkBatch (Some m) true co off last None late) acc = Some (rev acc, EIO, b')
    /\ b_off b' = off /\ batch_close b' = (off, true) /\ batch_close_err b' = Some EIO.
Proof. exact cut_in_compressed_payload. Qed.
Print Assumptions C02_cut_in_compressed_payload.

(* the same for a compressed v0 / v1 wrapper message ([cut_wrapper]: the wrapper's header is
   current, the value length n was read, the response announces n more bytes, fewer arrive) *)
Theorem C02_cut_in_compressed_wrapper : forall decomp fuel m m1 co off last late acc,
  m_empty m = false -> read_header (S (S fuel)) m = MOk tt m1 -> cut_wrapper m1 ->
  exists b',
    batch_run_b decomp (S (S fuel)) (mkBatch (Some m) true co off last None late) acc = Some (rev acc, EIO, b')
    /\ b_off b' = off /\ batch_close b' = (off, true) /\ batch_close_err b' = Some EIO.
Proof. exact cut_in_compressed_wrapper. Qed.
Print Assumptions C02_cut_in_compressed_wrapper.

(* the high watermark the Batch sees — compared with the fetch offset for the "nothing to read"
   shortcut of Conn.ReadBatchWith — is the high_watermark field of the partition header for
   every fetch version, never the last stable offset: a response of an open transaction
   (last stable offset below the high watermark) fetched at the last stable offset is decoded
   like any other *)
Theorem C02_hwm_of_header_v5 : forall h, hwm_of_header 5 h = fh_hwm h.
Proof. exact hwm_of_header_v5. Qed.
Print Assumptions C02_hwm_of_header_v5.
Theorem C02_header_fields_do_not_matter : forall decomp fuel v offset h i remain late,
  fetch_close_hdr decomp fuel v offset h i remain late = fetch_close decomp fuel offset (fh_hwm h) i remain late.
Proof. exact fetch_close_hdr_hwm. Qed.
Print Assumptions C02_header_fields_do_not_matter.

(* Batch.Read / Conn.Read (io.Reader style): a read whose buffer is too short for the next value
   fails with io.ErrShortBuffer and is a no-op on the position — Batch.Offset and, after Close,
   Conn.offset are still the offset the batch had before the call, so the retry with a larger
   buffer on a new batch gets the very record that was not handed out; a read whose buffer is
   long enough hands out the value and continues as Batch.ReadMessage would *)
Theorem C02_short_read_keeps_position : forall decomp fuel b g b' n t,
  batch_read1 decomp fuel b = BMsg g b' -> n < len (g_val g) ->
  exists bs, batch_reads decomp fuel b (n :: t) = ([RShort], bs, true)
             /\ b_off bs = b_off b /\ fst (fst (reads_close bs true)) = b_off b.
Proof. exact short_read_keeps_position. Qed.
Print Assumptions C02_short_read_keeps_position.
Theorem C02_long_read_delivers : forall decomp fuel b g b' n t,
  batch_read1 decomp fuel b = BMsg g b' -> len (g_val g) <= n ->
  batch_reads decomp fuel b (n :: t)
  = (let '(rs, b2, sh) := batch_reads decomp fuel b' t in (RVal (g_val g) :: rs, b2, sh)).
Proof. exact long_read_delivers. Qed.
Print Assumptions C02_long_read_delivers.

(* instances (identity codec): a compressed v2 batch of three records after an uncompressed one,
   the whole response announced, the connection cut 10 bytes before its end / right after the
   compressed batch's header: the first batch is delivered, nothing of the cut one, Conn.offset
   stays at its base, Close fails, the connection is closed; the same for a v1 wrapper *)
Definition cut_layout : layout :=
  [mkPB 2 0 100 1 ts0 [mkRec 100 ts0 None (Some [1%N]) []; mkRec 101 ts0 None (Some [2%N]) []];
   mkPB 2 2 102 2 ts0 [mkRec 102 ts0 None (Some [3%N]) []; mkRec 103 ts0 None (Some [4%N]) []; mkRec 104 ts0 None (Some [5%N]) []]].
Definition cut_bytes := fetch_bytes no_compress cut_layout 100.
Example C02_regression_cut_compressed_v2 :
  fetch_close no_decomp 100 100 105 (firstn (length cut_bytes - 10) cut_bytes) (blen cut_bytes) false
  = Some (map msg_of (pb_recs (hd (mkPB 0 0 0 0 0 []) cut_layout)), EIO, 102, Some EIO, true)
  /\ fetch_close no_decomp 100 100 105 (firstn (length (enc_batch no_compress (hd (mkPB 0 0 0 0 0 []) cut_layout)) + 61) cut_bytes) (blen cut_bytes) false
  = Some (map msg_of (pb_recs (hd (mkPB 0 0 0 0 0 []) cut_layout)), EIO, 102, Some EIO, true).
Proof. split; vm_compute; reflexivity. Qed.
Definition cutw_layout : layout :=
  [mkPB 1 1 200 1 ts0 [mkRec 200 ts0 None (Some [1%N]) []; mkRec 201 ts0 None (Some [2%N]) []]].
Definition cutw_bytes := fetch_bytes no_compress cutw_layout 200.
Example C02_regression_cut_compressed_wrapper :
  fetch_close no_decomp 100 200 202 (firstn (length cutw_bytes - 5) cutw_bytes) (blen cutw_bytes) false
  = Some ([], EIO, 200, Some EIO, true).
Proof. vm_compute. reflexivity. Qed.

(* regression: the witnesses of the three defects fixed in /repo now meet the property *)
Example C02_regression_empty_tail_batch :
  fetch_run no_decomp 100 100 101 (fetch_response no_compress f1_layout 100 61) 61 false = Some ([], EEOF, 105).
Proof. exact f1_run. Qed.
Example C02_regression_consecutive_empty_batches :
  fetch_run no_decomp 100 90 131 (fetch_response no_compress p_layout 90 262) 262 false
  = Some ([msg_of (rec 90); msg_of (rec 130)], EEOF, 131).
Proof. exact p_run. Qed.
Example C02_regression_compacted_tail_then_partial_batch :
  fetch_run no_decomp 100 50 52 (fetch_response no_compress g_layout 50 135) 135 false = Some ([], EEOF, 51).
Proof. exact g_run. Qed.
Example C02_regression_compressed_compacted_tail :
  fetch_run no_decomp 100 49 51 (fetch_response no_compress c_layout 49 70) 70 false = Some ([], EEOF, 51).
Proof. exact c_run. Qed.

(* ------------------------------------------------------------------ L2: proved *)
(* one generation of the background fetcher: for every sequence of broker / network answers
   (dial failures, ListOffsets values, data responses within the contract, kafka error codes,
   transport errors, io.ErrNoProgress, OffsetOutOfRange look-ups), the messages it sends are the
   stored records of a range [a, offset), in order, each once, fields as stored: a prefix of
   the records from a on; a is the start offset when that is an absolute offset *)
Theorem C02_generation_exact : forall run cfg log, increasing 0 log ->
  forall o evs g' outs,
  evs_ok run cfg log (gen_start o) evs -> gen_run run cfg (gen_start o) evs = Some (g', outs) ->
  exists a rest, msgs_of outs = mm (between a (g_offset g') log)
                 /\ mm (from a log) = msgs_of outs ++ rest /\ (0 <= o -> a = o).
Proof. exact generation_exact. Qed.
Print Assumptions C02_generation_exact.

(* whenever a generation is between two fetches, no stored record lies between its restart
   offset (last sent + 1) and Conn.offset, in either direction *)
Theorem C02_generation_conn_offset : forall run cfg log o evs g' outs,
  increasing 0 log ->
  evs_ok run cfg log (gen_start o) evs -> gen_run run cfg (gen_start o) evs = Some (g', outs) ->
  g_phase g' = PRead ->
  empty log (g_offset g') (g_conn g') /\ empty log (g_conn g') (g_offset g').
Proof. exact generation_conn_offset. Qed.
Print Assumptions C02_generation_conn_offset.

(* C02_restart_offset_absolute_after_init: the FirstOffset / LastOffset placeholder a generation
   starts with is resolved by its first initialised connection ([resolved]: the ListOffsets
   answers of that connection) and at most once per Reader position: the restart offset of
   reader.run is then absolute, no later step (deliveries, error answers, OffsetOutOfRange
   handling, redials) brings a placeholder back, and the initialisation of a redial does not
   move it — a connection lost before the first message was delivered resumes at the offset
   the placeholder was FIRST resolved to, not at the partition's new first / last offset *)
Theorem C02_restart_offset_absolute_after_init : forall run cfg g first last first2 last2 g' outs,
  gen_step run cfg g (GInit first last first2 last2) = Some (g', outs) ->
  g_phase g = PInit -> g_phase g' = PRead -> 0 <= first -> 0 <= last ->
  0 <= g_offset g' /\ g_offset g' = resolved (g_offset g) first last.
Proof. exact init_resolves. Qed.
Print Assumptions C02_restart_offset_absolute_after_init.
Theorem C02_restart_offset_stays_absolute : forall run cfg g ev g' outs,
  gen_step run cfg g ev = Some (g', outs) -> ev_abs run g ev -> 0 <= g_offset g -> 0 <= g_offset g'.
Proof. exact restart_offset_stays_absolute. Qed.
Print Assumptions C02_restart_offset_stays_absolute.
Theorem C02_redial_keeps_resolved_offset : forall run cfg g first last first2 last2 g' outs,
  gen_step run cfg g (GInit first last first2 last2) = Some (g', outs) ->
  g_phase g = PInit -> 0 <= g_offset g -> first <= g_offset g -> g_offset g' = g_offset g.
Proof. exact redial_keeps_resolved_offset. Qed.
Print Assumptions C02_redial_keeps_resolved_offset.

(* the connection of a Reader is bound to the CONFIGURED partition: Dialer.LookupPartition takes
   the partition descriptor of the Metadata answer by its id ([lookup_partition]), so the
   dialled partition ([dialled_partition]: the id DialPartition puts in the Conn, named by every
   Fetch / ListOffsets) is the configured one, and the descriptor found (hence the leader
   dialled) is the same for every order in which the broker lists the partitions *)
Theorem C02_dialled_partition_is_configured : forall id ds p, dialled_partition id ds = Some p -> p = id.
Proof. exact dialled_partition_is_configured. Qed.
Print Assumptions C02_dialled_partition_is_configured.
Theorem C02_lookup_partition_any_order : forall id ds ds',
  NoDup (map pd_id ds) -> Permutation.Permutation ds ds' -> lookup_partition id ds' = lookup_partition id ds.
Proof. exact lookup_partition_permutation. Qed.
Print Assumptions C02_lookup_partition_any_order.

(* C02_delivery_exact: for every label sequence (FetchMessage entries and receptions, SetOffset
   calls, steps of any generation — stale ones answered arbitrarily, cancelled ones cut
   anywhere — with the CURRENT generation's answers within the contract), what FetchMessage
   returned since the last (re)start is a prefix of the stored records from some offset a:
   increasing, no gap, no duplicate, fields as stored *)
Theorem C02_delivery_exact : forall run cfg log, increasing 0 log ->
  forall s s0, reach run cfg log s s0 -> exists a rest, mm (from a log) = r_delivered s ++ rest.
Proof. exact delivery_exact. Qed.
Print Assumptions C02_delivery_exact.

(* C02_setoffset_next: SetOffset(o) with o different from the Reader's offset restarts the
   fetcher at o with nothing delivered yet ... *)
Theorem C02_setoffset_restarts : forall run cfg log s s0 o s' ret,
  reach run cfg log s s0 -> r_version s <> 0 -> o <> r_offset s ->
  r_step run cfg s (LSetOffset o) = RState s' ret ->
  reach run cfg log s' o /\ r_delivered s' = [] /\ r_version s' = r_version s + 1.
Proof. exact setoffset_restarts. Qed.
Print Assumptions C02_setoffset_restarts.

(* ... and whatever is returned afterwards (stale queue entries are filtered by version) is a
   prefix of the stored records at or after o: the next message is the stored record with the
   least offset >= o *)
Theorem C02_setoffset_next : forall run cfg log, increasing 0 log ->
  forall s s0, reach run cfg log s s0 -> r_version s <> 0 -> 0 <= s0 ->
  exists rest, mm (from s0 log) = r_delivered s ++ rest.
Proof. exact delivery_from_start. Qed.
Print Assumptions C02_setoffset_next.

(* Reader.offset IS the position of the next message: what FetchMessage returned since the last
   (re)start, followed by the stored records at or after Reader.offset, is the stored sequence from
   the start position.  (FetchMessage takes its snapshot of the version AFTER the lazy start, so
   the call that starts the fetcher moves Reader.offset like every other call: invariant
   [r_call s = Some snap -> snap = r_version s] of Proofs/ReaderLTS.v.) *)
Theorem C02_offset_is_position : forall run cfg log, increasing 0 log ->
  forall s s0, reach run cfg log s s0 -> r_version s <> 0 -> (0 <= s0 \/ r_delivered s <> []) ->
  exists a, (0 <= s0 -> a = s0) /\ mm (from a log) = r_delivered s ++ mm (from (r_offset s) log).
Proof. exact offset_is_position. Qed.
Print Assumptions C02_offset_is_position.

(* ... hence SetOffset(o) with o = Reader.offset, which changes nothing, is right to change
   nothing: whatever is returned afterwards by the same generation is the stored records at or
   after o, in order — the next message is the stored record with the least offset >= o *)
Theorem C02_setoffset_same_next : forall run cfg log, increasing 0 log ->
  forall s s0 o s1 later,
  reach run cfg log s s0 -> r_version s <> 0 -> r_call s = None -> (0 <= s0 \/ r_delivered s <> []) -> o = r_offset s ->
  reach run cfg log s1 s0 -> r_version s1 <> 0 -> r_delivered s1 = r_delivered s ++ later ->
  r_step run cfg s (LSetOffset o) = RState s None
  /\ exists rest, mm (from o log) = later ++ rest.
Proof. exact setoffset_same_next. Qed.
Print Assumptions C02_setoffset_same_next.

(* the contract composes from one response (the heart of the no-gap / no-duplicate argument) *)
Theorem C02_fetch_extends : forall log lo0 a l c ms f,
  increasing lo0 log -> a <= l -> empty log l c -> empty log c l -> fetch_ok log c ms f ->
  mm (between a l log) ++ ms = mm (between a (next_off ms l) log) /\ a <= next_off ms l /\ l <= next_off ms l
  /\ empty log (next_off ms l) f /\ empty log f (next_off ms l).
Proof. exact fetch_extends. Qed.
Print Assumptions C02_fetch_extends.

(* ------------------------------------------------------------------ non-vacuity / L1 instances *)
Definition ex_recs : list record :=
  [mkRec 10 ts0 (Some [1%N;2%N]) (Some [3%N]) [([104%N], [118%N])];
   mkRec 12 (ts0 + 5) None (Some []) [];
   mkRec 13 (ts0 + 6) (Some [7%N]) None []].
(* a v1 gzip-style wrapper (identity codec), a v0 message, a v2 batch with head and tail holes,
   a compressed v2 batch *)
Definition ex_layout : layout :=
  [mkPB 1 1 3 2 ts0 [mkRec 3 ts0 (Some [9%N]) (Some [8%N]) []; mkRec 5 (ts0+1) None (Some [6%N]) []];
   mkPB 2 0 8 6 ts0 ex_recs;
   mkPB 2 2 15 3 (ts0 + 7) [mkRec 16 (ts0 + 7) (Some [1%N]) (Some [2%N]) []]].

Example C02_instance_whole :
  fetch_run no_decomp 100 4 19 (fetch_response no_compress ex_layout 4 1000) (blen (fetch_bytes no_compress ex_layout 4)) false
  = Some (map msg_of (from 4 (layout_records ex_layout)), EEOF, 19).
Proof. vm_compute. reflexivity. Qed.

(* cut in the middle of the second record of the v2 batch: record-granular delivery *)
Example C02_instance_cut :
  exists ms, fetch_run no_decomp 100 4 19 (fetch_response no_compress ex_layout 4 185) 185 false = Some (ms, EEOF, 11)
             /\ fetch_okb (layout_records ex_layout) 4 ms 11 = true /\ length ms = 2%nat.
Proof. eexists. split; [vm_compute; reflexivity|]. split; vm_compute; reflexivity. Qed.

(* the Reader LTS: start, two fetches, SetOffset back to 5, stale answer ignored *)
Definition ex_run := fetch_run no_decomp 100.
Definition ex_cfg := mkCfg 3 false.
Definition ex_data (o : Z) := FData 19 (fetch_bytes no_compress ex_layout o) (blen (fetch_bytes no_compress ex_layout o)) false.
(* LTake outside a call stands for a new FetchMessage call: LBegin first *)
Fixpoint run_labels (s : rstate) (ls : list label) {struct ls} : option rstate :=
  match ls with
  | [] => Some s
  | l :: t =>
    let s1 := match l, r_call s with
              | LTake, None => match r_step ex_run ex_cfg s LBegin with RState s' _ => s' | _ => s end
              | _, _ => s
              end in
    match r_step ex_run ex_cfg s1 l with RState s' _ => run_labels s' t | _ => None end
  end.
Example C02_instance_reader :
  option_map r_delivered
    (run_labels r_init
       [LBegin; LGen 1 (GInit 3 19 3 19) 99; LGen 1 (GFetch (ex_data 3)) 99; LTake; LTake;
        LSetOffset 12; LGen 1 (GFetch (ex_data 19)) 99;
        LGen 2 (GInit 3 19 3 19) 99; LGen 2 (GFetch (ex_data 12)) 99;
        LTake; LTake; LTake; LTake; LTake; LTake])
  = Some (map msg_of (firstn 2 (from 12 (layout_records ex_layout)))).
Proof. vm_compute. reflexivity. Qed.

(* SetOffset(12), ONE read (the call that starts the fetcher returns the record 12), SetOffset(12)
   again: Reader.offset was 13, so the fetcher restarts at 12 (generation 2) *)
Example C02_instance_setoffset_after_one_read :
  option_map (fun s => (r_version s, r_offset s, map g_off (r_delivered s)))
    (run_labels r_init
       [LSetOffset 12; LBegin; LGen 1 (GInit 3 19 3 19) 99; LGen 1 (GFetch (ex_data 12)) 99; LTake; LSetOffset 12])
  = Some (2, 12, [])
  /\ option_map (fun s => (r_version s, r_offset s, map g_off (r_delivered s)))
    (run_labels r_init
       [LSetOffset 12; LBegin; LGen 1 (GInit 3 19 3 19) 99; LGen 1 (GFetch (ex_data 12)) 99; LTake])
  = Some (1, 13, [12]).
Proof. split; vm_compute; reflexivity. Qed.

(* ---- the synchronisation skeleton the model assumes (which Go critical section / channel operation each step of Model/Lifecycle.v, Model/GroupReader.v, Model/ReaderModel.v stands for, reader_assumptions: Model/SkeletonAssumptions.v)
   holds of /repo's CURRENT source: call/access facts regenerated by harness/cmd/vskel on every run. *)
From KV Require Model.SkeletonAssumptions Gen.Skeleton Proofs.SkeletonReader.
Theorem C02_skeleton_assumptions :
  KV.Model.SkeletonAssumptions.reader_assumptions_hold KV.Gen.Skeleton.calls KV.Gen.Skeleton.accesses = true.
Proof. exact KV.Proofs.SkeletonReader.reader_skeleton_ok. Qed.
Print Assumptions C02_skeleton_assumptions.
