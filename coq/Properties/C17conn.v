(* Properties/C17conn.v — the Conn half of C17: a response cut off at any byte yields an error,
   never a panic, hang or fake data.  Only statements; every proof is [exact <lemma>].
   The incoming stream of the model ends where the peer closed the connection:
   [firstn k frame] = the first k bytes of the response, then end-of-stream.
   Fetch is ReadBatch followed by Batch.Close without reading a message (what ReadMessage
   delivers before the error is the message-set reader's business: C02's model; the harness
   checks it directly on the implementation, see checks/c11.py PART C). *)
From Coq Require Import List NArith ZArith Bool.
From KV Require Import Lib.Bits Lib.Bytes Model.Legacy Model.ConnOps.
From KV Require Import Proofs.ConnOpsBase Proofs.ConnOpsCodec Proofs.ConnOpsProofs Proofs.ConnOpsWitness
  Proofs.ConnOpsCustom Proofs.ConnOpsAll Proofs.ConnOpsNego.
Import ListNotations.
Open Scope Z_scope.

(* ---- every operation of Conn, every negotiated version, every well-formed response (any
   error codes, any values), every cut position k < length frame: the call returns an error
   that is not a Kafka error — never success, never a panic outcome (the model's EPanic is a
   non-Kafka error and is not reachable here, see C17_conn_cut_consumed for its kind) — and the
   Conn has closed its connection ---- *)
Theorem C17_conn_cut : forall st a v off w k,
  negotiated a v = true -> well_formed a v w -> fits (enc (resp_ty a v) w) -> closed st = false ->
  (k < length (frame (wrap32 (corr st + 1)) (enc (resp_ty a v) w)))%nat ->
  exists e st2 s2,
    conn_do st (mkOp a v off) (firstn k (frame (wrap32 (corr st + 1)) (enc (resp_ty a v) w)))
      = (st2, RErr e, s2) /\ is_kafka e = false /\ closed st2 = true.
Proof. exact conn_cut_full. Qed.
Print Assumptions C17_conn_cut.

(* the kind of the error, for ANY incoming bytes and every operation: a cut strictly inside
   what the complete exchange consumed yields io.EOF / io.ErrUnexpectedEOF (for fetch always
   io.ErrUnexpectedEOF, never the io.EOF that means "end of batch") and closes the Conn *)
Theorem C17_conn_cut_consumed : forall st o s st' r s' k,
  closed st = false ->
  conn_do st o s = (st', r, s') ->
  (k + length s' < length s)%nat ->
  exists e st2 s2,
    conn_do st o (firstn k s) = (st2, RErr e, s2) /\ transport e = true /\ closed st2 = true.
Proof. exact conn_do_cut. Qed.
Print Assumptions C17_conn_cut_consumed.

(* a cut at or beyond what the complete exchange consumed (only possible when that exchange
   itself failed before the end of its frame) gives the same result as the complete exchange *)
Theorem C17_conn_cut_beyond : forall st o s st' r s' k,
  closed st = false -> (8 <= k)%nat ->
  conn_do st o s = (st', r, s') ->
  get_bes 4 (firstn 4 s) - 4 <= Z.of_nat (length s) - 8 ->
  (length s <= k + length s')%nat ->
  exists s2, conn_do st o (firstn k s) = (st', r, s2).
Proof. exact conn_do_cut_beyond. Qed.
Print Assumptions C17_conn_cut_beyond.

(* the decoder of a well-formed response returns what was encoded and consumes exactly it *)
Theorem C17_conn_decode_exact : forall t w, wt t w -> forall sz rest,
  Z.of_nat (length (enc t w)) <= sz ->
  read_ty t sz (enc t w ++ rest) = (inl (dec_val t w), sz - Z.of_nat (length (enc t w)), rest).
Proof. exact read_ty_enc. Qed.
Print Assumptions C17_conn_decode_exact.

(* the Conn is not used again: once closed, every later operation fails *)
Theorem C17_conn_no_reuse : forall st ops s,
  closed st = true ->
  exists st', conn_run st ops s = (st', map (fun _ => RErr EClosed) ops, s) /\ closed st' = true.
Proof. exact closed_run. Qed.
Print Assumptions C17_conn_no_reuse.

(* ---- regression instances: the cuts that were swallowed before the fixes ---- *)
(* fetch, 77-byte frame with one magic-1 message: every cut (header, first message header, the
   part Batch.close discards) is io.ErrUnexpectedEOF and the Conn is closed *)
Theorem C17_conn_regression_fetch : forall k, (k < 77)%nat ->
  exists st' s', conn_do (fresh [116%N]) (mkOp AFetch 2 7)
                   (firstn k (frame 1 (enc (resp_ty AFetch 2) w_fetch_ok_v2)))
                 = (st', RErr EUnexpEOF, s') /\ closed st' = true.
Proof. exact fetch_cut_anywhere. Qed.
Print Assumptions C17_conn_regression_fetch.

(* ApiVersions: io.EOF and the Conn is closed *)
Theorem C17_conn_regression_apiversions : forall k, (k < 20)%nat ->
  exists st' s', conn_do (fresh []) (mkOp AApiVersions 0 0)
                   (firstn k (frame 1 (enc (resp_ty AApiVersions 0) w_apiversions)))
                 = (st', RErr EEOF, s') /\ closed st' = true.
Proof. exact apiversions_cut_closed. Qed.
Print Assumptions C17_conn_regression_apiversions.

(* produce error response cut inside the trailing throttle field *)
Theorem C17_conn_regression_produce_error : forall k, (41 <= k < 45)%nat ->
  exists st' s',
    conn_do (fresh [116%N]) (mkOp AProduce 2 0)
      (firstn k (frame 1 (enc (resp_ty AProduce 2) w_produce_v2)))
    = (st', RErr EEOF, s') /\ closed st' = true.
Proof. exact produce_error_cut_in_throttle. Qed.
Print Assumptions C17_conn_regression_produce_error.

(* Batch.Read into a buffer shorter than the value (AFetchRead [1], values "ab" / "cde"), the
   response cut at ANY byte — before, inside or after the value that does not fit: the call
   reports io.ErrUnexpectedEOF, never io.ErrShortBuffer, and the Conn is closed (an instance of
   C17_conn_cut, which quantifies over AFetchRead like over every operation) *)
Theorem C17_conn_short_buffer_read_cut :
  length (frame 1 (enc (resp_ty AFetch 2) w_fetch_two)) = 114%nat /\
  forall k, (k < 114)%nat ->
  exists st' s', conn_do (fresh [116%N]) (mkOp (AFetchRead [1]) 2 7)
                   (firstn k (frame 1 (enc (resp_ty AFetch 2) w_fetch_two)))
                 = (st', RErr EUnexpEOF, s') /\ closed st' = true.
Proof. exact short_buffer_cut_anywhere. Qed.
Print Assumptions C17_conn_short_buffer_read_cut.

(* ---- a peer that goes silent: which deadline bounds the call ([deadline_of], with the fallback of
   ApiVersions to the write deadline).  A call made under the deadline of its own side (read-side
   calls: SetReadDeadline or SetDeadline; write-side calls — produce, join/heartbeat/leave,
   offset-commit, create/delete topics, SASL: SetWriteDeadline or SetDeadline) is bounded in every
   exchange it performs, INCLUDING the implicit version negotiation of a first call on a Conn
   whose versions are not loaded: it returns by that deadline (timeout error, Conn closed: checked
   on the implementation by the stall cases of checks/c11.py) ---- *)
Theorem C17_conn_stall_returns_by_deadline : forall rset wset loaded a,
  (match op_side a with SRead => rset | SWrite => wset end) = true ->
  deadline_of rset wset (stalled_exchange loaded a) <> None.
Proof. exact stall_bounded. Qed.
Print Assumptions C17_conn_stall_returns_by_deadline.

(* ---- non-vacuity ---- *)
Example C17_conn_nonvacuous_fetch_full :
  well_formed AFetch 2 w_fetch_ok_v2 /\
  length (frame 1 (enc (resp_ty AFetch 2) w_fetch_ok_v2)) = 77%nat /\
  conn_do (fresh [116%N]) (mkOp AFetch 2 7) (frame 1 (enc (resp_ty AFetch 2) w_fetch_ok_v2))
  = (mkConn false 1 [116%N] 7, ROk (VL [VZ 0; VZ 100]), []).
Proof.
  split; [|split; [vm_compute; reflexivity|exact fetch_full_ok]].
  split; [unfold w_fetch_ok_v2, one_tp, topic_t, msgset_v1; wt_solve|cbn; repeat eexists].
Qed.

Definition w_offsetfetch : wval :=
  WL (Some [WP (WS (Some [116%N])) (WL (Some [WP (WZ 0) (WP (WZ 42) (WP (WS None) (WZ 0)))]))]).
Example C17_conn_nonvacuous_offsetfetch :
  wt (resp_ty AOffsetFetch 1) w_offsetfetch /\
  length (frame 1 (enc (resp_ty AOffsetFetch 1) w_offsetfetch)) = 35%nat /\
  exists s', conn_do (fresh [116%N]) (mkOp AOffsetFetch 1 0)
    (firstn 34 (frame 1 (enc (resp_ty AOffsetFetch 1) w_offsetfetch)))
  = (mkConn true 1 [116%N] (-1), RErr EEOF, s').
Proof.
  split; [unfold w_offsetfetch; wt_solve|split; [vm_compute; reflexivity|]].
  eexists. vm_compute. reflexivity.
Qed.
