(* Properties/C17conn.v — the Conn half of C17: a response cut off at any byte yields an error,
   never a panic, hang or fake data.  Only statements; every proof is [exact <lemma>].
   The incoming stream of the model ends where the peer closed the connection:
   [firstn k frame] = the first k bytes of the response, then end-of-stream. *)
From Coq Require Import List NArith ZArith Bool.
From KV Require Import Lib.Bits Lib.Bytes Model.Legacy Model.ConnOps.
From KV Require Import Proofs.ConnOpsBase Proofs.ConnOpsCodec Proofs.ConnOpsProofs Proofs.ConnOpsWitness
  Proofs.ConnOpsCustom.
Import ListNotations.
Open Scope Z_scope.

(* ---- the full statement: every operation and version, every well-formed response, every
   cut position: a non-Kafka error and the Conn closes itself.  NOT true of the current
   code for ApiVersions, for error responses of produce / fetch cut in their unread tail,
   and for ReadBatch+Close without reading (witnesses below). ---- *)
Definition C17_conn_cut_full_statement : Prop :=
  forall a v w st off k,
    well_formed a v w -> fits (enc (resp_ty a v) w) -> closed st = false ->
    (k < length (frame (wrap32 (corr st + 1)) (enc (resp_ty a v) w)))%nat ->
    exists e st2 s2,
      conn_do st (mkOp a v off) (firstn k (frame (wrap32 (corr st + 1)) (enc (resp_ty a v) w)))
        = (st2, RErr e, s2) /\ is_kafka e = false /\ closed st2 = true.

(* proved for every operation that reads its whole response before looking at error codes
   (all but produce, fetch, list-offsets, ApiVersions; for produce and list-offsets see
   C17_conn_cut_of_success), every version, every cut position:
   the error is io.EOF or io.ErrUnexpectedEOF (never success, never a Kafka error, never a
   panic outcome) and the Conn is closed *)
Theorem C17_conn_cut_partial : forall st a v off w k,
  schema_api a = true -> wt (resp_ty a v) w -> fits (enc (resp_ty a v) w) -> closed st = false ->
  (k < length (frame (wrap32 (corr st + 1)) (enc (resp_ty a v) w)))%nat ->
  exists e st2 s2,
    conn_do st (mkOp a v off) (firstn k (frame (wrap32 (corr st + 1)) (enc (resp_ty a v) w)))
      = (st2, RErr e, s2) /\ transport e = true /\ closed st2 = true.
Proof. exact conn_cut_schema. Qed.
Print Assumptions C17_conn_cut_partial.

(* every operation but fetch and ApiVersions (so including produce and list-offsets), ANY
   incoming bytes: a cut strictly inside what the complete exchange consumed yields
   io.EOF / io.ErrUnexpectedEOF and closes the Conn *)
Theorem C17_conn_cut_consumed : forall st o s st' r s' k,
  closed st = false -> op_api o <> AFetch -> op_api o <> AApiVersions ->
  conn_do st o s = (st', r, s') ->
  (k + length s' < length s)%nat ->
  exists e st2 s2,
    conn_do st o (firstn k s) = (st2, RErr e, s2) /\ transport e = true /\ closed st2 = true.
Proof. exact conn_do_cut. Qed.
Print Assumptions C17_conn_cut_consumed.

(* every operation but fetch and ApiVersions, any response on which the complete exchange
   succeeds (for produce and list-offsets: every well-formed response without an error code,
   C11_produce_total): every cut position yields io.EOF / io.ErrUnexpectedEOF and the Conn closes *)
Theorem C17_conn_cut_of_success : forall st o id body st' x s' k,
  closed st = false -> op_api o <> AFetch -> op_api o <> AApiVersions -> fits body ->
  conn_do st o (frame id body) = (st', ROk x, s') ->
  (k < length (frame id body))%nat ->
  exists e st2 s2,
    conn_do st o (firstn k (frame id body)) = (st2, RErr e, s2) /\ transport e = true /\ closed st2 = true.
Proof. exact conn_cut_of_ok. Qed.
Print Assumptions C17_conn_cut_of_success.

(* list-offsets v1: every well-formed response (with or without an error code), every cut *)
Theorem C17_conn_cut_listoffsets : forall st off w k,
  well_formed AListOffsets 1 w -> fits (enc (resp_ty AListOffsets 1) w) -> closed st = false ->
  (k < length (frame (wrap32 (corr st + 1)) (enc (resp_ty AListOffsets 1) w)))%nat ->
  exists e st2 s2,
    conn_do st (mkOp AListOffsets 1 off) (firstn k (frame (wrap32 (corr st + 1)) (enc (resp_ty AListOffsets 1) w)))
      = (st2, RErr e, s2) /\ transport e = true /\ closed st2 = true.
Proof. exact conn_cut_listoffsets. Qed.
Print Assumptions C17_conn_cut_listoffsets.

(* the decoder of a well-formed response returns what was encoded and consumes exactly it *)
Theorem C17_conn_decode_exact : forall t w, wt t w -> forall sz rest,
  Z.of_nat (length (enc t w)) <= sz ->
  read_ty t sz (enc t w ++ rest) = (inl (dec_val t w), sz - Z.of_nat (length (enc t w)), rest).
Proof. exact read_ty_enc. Qed.
Print Assumptions C17_conn_decode_exact.

(* the Conn is not used again: once closed, every later operation fails *)
Theorem C17_conn_no_reuse : forall st ops s,
  closed st = true ->
  exists st', conn_run st ops s = (st', map (fun _ => RErr EClosed) ops, s) /\ closed st' = true.
Proof. exact closed_run. Qed.
Print Assumptions C17_conn_no_reuse.

(* ---- fetch (ReadBatch, then Batch.Close without reading a message): a cut inside the fetch
   header or the first message header yields io.ErrUnexpectedEOF (not io.EOF) and closes the
   Conn; nothing is delivered ---- *)
Theorem C17_conn_cut_fetch_header_witness : forall k, (k < 67)%nat ->
  exists st' s', conn_do (fresh [116%N]) (mkOp AFetch 2 7)
                   (firstn k (frame 1 (enc (resp_ty AFetch 2) w_fetch_ok_v2)))
                 = (st', RErr EUnexpEOF, s') /\ closed st' = true.
Proof. exact fetch_cut_header. Qed.
Print Assumptions C17_conn_cut_fetch_header_witness.

(* ---- refutations of the full statement ---- *)
(* ReadBatch+Close with the cut after the first message header: Batch.close ignores the error
   of msgs.discard(), returns nil and keeps the Conn *)
Theorem C17_conn_cut_refuted_fetch_close : forall k, (67 <= k < 77)%nat ->
  exists st' s', conn_do (fresh [116%N]) (mkOp AFetch 2 7)
                   (firstn k (frame 1 (enc (resp_ty AFetch 2) w_fetch_ok_v2)))
                 = (st', ROk (VL [VZ 0; VZ 100]), s') /\ closed st' = false.
Proof. exact fetch_close_swallows_cut. Qed.
Print Assumptions C17_conn_cut_refuted_fetch_close.

(* ApiVersions: io.EOF, but the Conn does not close its connection *)
Theorem C17_conn_cut_refuted_apiversions : forall k, (8 <= k < 18)%nat ->
  exists st' s', conn_do (fresh []) (mkOp AApiVersions 0 0)
                   (firstn k (frame 1 (enc (resp_ty AApiVersions 0) w_apiversions)))
                 = (st', RErr EEOF, s') /\ closed st' = false.
Proof. exact apiversions_cut_not_closed. Qed.
Print Assumptions C17_conn_cut_refuted_apiversions.

(* produce error response cut inside the throttle field the reader never reads (F2): the
   Kafka error is returned and the Conn kept *)
Theorem C17_conn_cut_refuted_produce_error :
  exists st' s',
    conn_do (fresh [116%N]) (mkOp AProduce 2 0)
      (firstn 43 (frame 1 (enc (resp_ty AProduce 2) w_produce_v2)))
    = (st', RErr (EKafka 6), s') /\ closed st' = false.
Proof. exact produce_error_cut_in_throttle. Qed.
Print Assumptions C17_conn_cut_refuted_produce_error.

(* ---- non-vacuity ---- *)
Example C17_conn_nonvacuous_fetch_full :
  conn_do (fresh [116%N]) (mkOp AFetch 2 7) (frame 1 (enc (resp_ty AFetch 2) w_fetch_ok_v2))
  = (mkConn false 1 [116%N] 7, ROk (VL [VZ 0; VZ 100]), []).
Proof. exact fetch_full_ok. Qed.

Definition w_offsetfetch : wval :=
  WL (Some [WP (WS (Some [116%N])) (WL (Some [WP (WZ 0) (WP (WZ 42) (WP (WS None) (WZ 0)))]))]).
Example C17_conn_nonvacuous_offsetfetch :
  wt (resp_ty AOffsetFetch 1) w_offsetfetch /\
  length (frame 1 (enc (resp_ty AOffsetFetch 1) w_offsetfetch)) = 35%nat /\
  exists s', conn_do (fresh [116%N]) (mkOp AOffsetFetch 1 0)
    (firstn 34 (frame 1 (enc (resp_ty AOffsetFetch 1) w_offsetfetch)))
  = (mkConn true 1 [116%N] (-1), RErr EEOF, s').
Proof.
  split; [unfold w_offsetfetch; wt_solve|split; [vm_compute; reflexivity|]].
  eexists. vm_compute. reflexivity.
Qed.
