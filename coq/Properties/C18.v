(* Properties/C18.v — With SASL configured, nothing is sent before authentication succeeds.
   Only statements; every proof is [exact <lemma>].  The model is Model/Sasl.v: one
   connection of the Dialer path or of the Transport path as a labelled transition system
   over wire events; the mechanism (and, for C18_exchange_complete, its server) are
   universally quantified abstract state machines.  [tr s] is the trace newest-first,
   [trace s = rev (tr s)] is chronological. *)
From Coq Require Import List ZArith Bool.
From Coq Require Import NArith.
From KV Require Import Model.Sasl Proofs.SaslProofs Proofs.SaslRawRead Proofs.SaslAddrConc.
Import ListNotations.
Open Scope Z_scope.

(* Every written request that is not ApiVersions(18) / SaslHandshake(17) / SaslAuthenticate(36)
   or raw SASL bytes is preceded, on that connection, by the verdict "accepted". *)
Theorem C18_nothing_before_auth :
  forall mstate mstart mnext p a (s : state mstate),
    reachable mstate mstart mnext p a s ->
    forall l1 m l2, trace s = l1 ++ ESend m :: l2 -> auth_msg m = false -> In EVerdict l1.
Proof. exact nothing_before_auth. Qed.
Print Assumptions C18_nothing_before_auth.

(* The trace only grows: a step conses at least one event onto it. *)
Theorem C18_trace_monotone :
  forall mstate mstart mnext p a (s s' : state mstate) l,
    step mstate mstart mnext p a s l = Some s' ->
    exists evs, evs <> [] /\ tr s' = evs ++ tr s.
Proof. exact trace_monotone. Qed.
Print Assumptions C18_trace_monotone.

(* Any failing step — a non-zero error code (UnsupportedSASLMechanism 33,
   SASLAuthenticationFailed 58, any other), a malformed response (cut off, short body, wrong
   correlation id, or a negative length prefix on the raw exchange), the connection closed,
   a challenge the mechanism rejects, Start failing, no usable handshake version — ends in
   PFailed (dialling returned an error) with the connection closed by the client, the
   connection was never handed out, no verdict was reached, and nothing can happen on it
   any more.  There is no other abnormal end: the model has no panic state. *)
Theorem C18_failure_closes :
  forall mstate mstart mnext p a (s s' : state mstate) r,
    reachable mstate mstart mnext p a s ->
    step mstate mstart mnext p a s (LBroker r) = Some s' ->
    failing mstate mstart mnext p a s r ->
    ph s' = PFailed /\ tr s' = EClose :: ERecv r :: tr s
    /\ ~ In EHandOut (tr s') /\ ~ In EVerdict (tr s')
    /\ (forall l, step mstate mstart mnext p a s' l = None).
Proof. exact failure_closes. Qed.
Print Assumptions C18_failure_closes.

(* What each path really does: the handshake goes out at min(advertised max, 1) (a missing
   key counts as 0; the Dialer gives up on a negative max); SASL bytes travel raw iff that
   version is 0 and in SaslAuthenticate requests iff it is 1; the SaslAuthenticate version
   is 0 on the Dialer path and the negotiated one on the Transport path. *)
Theorem C18_version_framing :
  forall mstate mstart mnext p a (s : state mstate),
    reachable mstate mstart mnext p a s ->
    forall m, In (ESend m) (tr s) ->
      (forall v, m = MReq K_SaslHandshake v -> v = hs_version p a /\ 0 <= v <= 1)
      /\ (authbytes_msg m = true -> (m = MRaw <-> hs_version p a = 0))
      /\ (forall v, m = MReq K_SaslAuthenticate v -> v = auth_version p a /\ hs_version p a = 1).
Proof. exact version_framing. Qed.
Print Assumptions C18_version_framing.

(* Against an honest server for the mechanism (ApiVersions and the handshake answered
   without error; a rejection reported as error 58 when framed, by closing when raw) the
   connection is accepted within n rounds exactly when the mechanism oracle [corun] — client
   machine against server machine with no wire in between — accepts within n rounds:
   neither path, handshake version or framing changes the verdict. *)
Theorem C18_exchange_complete :
  forall mstate mstart mnext p a sstate (srv_init : sstate) srv_next n,
    port_is_number (dial_addr a) = true ->
    0 <= hs_version p a ->
    accepted_or_out
      (drive mstate mstart mnext p a sstate srv_next (3 + n) None 0 init (Some srv_init)) =
    match mstart with
    | None => false
    | Some (ms, out) => corun mstate mnext sstate srv_next n ms (Some srv_init) out
    end.
Proof. exact exchange_complete. Qed.
Print Assumptions C18_exchange_complete.

(* The scripted runs of the correspondence driver (any fault, any fuel) are traces of the
   transition system, so the theorems above apply to them. *)
Theorem C18_run_reachable :
  forall p a k c fault,
    reachable nat (shape_start k) (shape_next k) p a (run_case p a k c fault).
Proof. exact run_case_reachable. Qed.
Print Assumptions C18_run_reachable.

(* ---- the raw (handshake v0) response read ---- *)
(* Transport path (protocol/saslauthenticate readResp): for EVERY announced length (any
   int32, or any integer), every sequence of payload bytes that arrives and either ending,
   the bytes allocated for the response are at most 10 x the payload bytes RECEIVED + 2560 —
   never a function of the announced length — and no more is consumed than arrived or than
   was announced.  [grow] is append's capacity choice, only assumed to lie between 1.25 x and
   2 x the old capacity (runtime.growslice). *)
Theorem C18_raw_read_alloc_bounded :
  forall grow : N -> N,
    (forall c, (512 <= c -> 5 * c <= 4 * grow c)%N) ->
    (forall c, (512 <= c -> grow c <= 2 * c)%N) ->
    forall announced avail e,
      let r := transport_raw_read grow announced avail e in
      (rr_alloc r <= 10 * rr_received r + 2560)%N /\
      (rr_received r <= N.of_nat (length avail))%N /\
      (0 <= announced -> Z.of_N (rr_received r) <= announced).
Proof. exact transport_raw_read_bounded. Qed.
Print Assumptions C18_raw_read_alloc_bounded.

(* the instance the correspondence driver evaluates (growslice's formula) *)
Theorem C18_raw_read_alloc_bounded_go :
  forall announced avail e,
    let r := raw_read Transport announced avail e in
    (rr_alloc r <= 10 * rr_received r + 2560)%N /\
    (rr_received r <= N.of_nat (length avail))%N /\
    (0 <= announced -> Z.of_N (rr_received r) <= announced).
Proof. exact raw_read_transport_bounded. Qed.
Print Assumptions C18_raw_read_alloc_bounded_go.

(* Conn path (conn.go saslAuthenticate, raw branch): NOT bounded by what arrives — it
   allocates the announced length (an observation; the Conn is outside C20's scope). *)
Theorem C18_conn_raw_read_allocates_announced :
  forall announced avail e,
    0 < announced -> rr_alloc (raw_read Dialer announced avail e) = Z.to_N announced.
Proof. exact conn_raw_read_alloc. Qed.
Print Assumptions C18_conn_raw_read_allocates_announced.

(* both paths classify the read alike: payload / io.EOF / io.ErrUnexpectedEOF / protocol
   error (negative length) / deadline *)
Theorem C18_raw_read_outcome_same :
  forall grow announced avail e,
    rr_out (transport_raw_read grow announced avail e) = rr_out (conn_raw_read announced avail e).
Proof. exact raw_read_outcome_same. Qed.
Print Assumptions C18_raw_read_outcome_same.

(* a raw read that yields no payload fails the dial: error, connection closed, never handed
   out, no verdict, nothing can be written afterwards *)
Theorem C18_raw_read_failure_closes :
  forall mstate mstart mnext p a (s : state mstate) i ms out o,
    reachable mstate mstart mnext p a s ->
    ph s = PAuth Raw i ms out ->
    (forall payload, o <> RROk payload) ->
    exists s', step mstate mstart mnext p a s (LBroker (reaction_of_rr o)) = Some s'
      /\ ph s' = PFailed /\ tr s' = EClose :: ERecv (reaction_of_rr o) :: tr s
      /\ ~ In EHandOut (tr s') /\ ~ In EVerdict (tr s')
      /\ (forall l, step mstate mstart mnext p a s' l = None).
Proof. exact raw_read_failure_closes. Qed.
Print Assumptions C18_raw_read_failure_closes.

(* ---- refusal is decided by the error code alone ---- *)
(* [refused r := error_code r <> 0]: two responses that differ only in their error_message
   (null, empty, any text) are the same reaction, hence the same verdict in every state. *)
Theorem C18_refusal_ignores_message : forall code m1 m2 payload,
  refused (mkResp code m1 payload) = refused (mkResp code m2 payload) /\
  reaction_of_response (mkResp code m1 payload) = reaction_of_response (mkResp code m2 payload) /\
  (forall step, fault_of_response step (mkResp code m1 payload) = fault_of_response step (mkResp code m2 payload)).
Proof. exact refusal_ignores_message. Qed.
Print Assumptions C18_refusal_ignores_message.

(* a response with a non-zero error code — any int16, negative or >= 128 included, whatever
   its message — at any step where it is possible fails the dial: error, connection closed,
   never handed out, nothing afterwards *)
Theorem C18_refused_response_fails :
  forall mstate mstart mnext p a (s s' : state mstate) r,
    reachable mstate mstart mnext p a s ->
    refused r = true ->
    step mstate mstart mnext p a s (LBroker (reaction_of_response r)) = Some s' ->
    ph s' = PFailed /\ tr s' = EClose :: ERecv (RErr (error_code r)) :: tr s
    /\ ~ In EHandOut (tr s') /\ ~ In EVerdict (tr s')
    /\ (forall l, step mstate mstart mnext p a s' l = None).
Proof. exact refused_response_fails. Qed.
Print Assumptions C18_refused_response_fails.

(* ---- the dial address ---- *)
(* [a] carries the class of the address that was dialled (dial_addr): numeric port, no port,
   service-name port, IPv6 literal, port 0, port 65536, empty.  For EVERY address class, on
   both paths: a connection that is handed out has the verdict in its trace, and every
   non-authentication request on it comes after the verdict. *)
Theorem C18_authenticated_whatever_address :
  forall mstate mstart mnext p a (s : state mstate),
    reachable mstate mstart mnext p a s ->
    handed_out s = true ->
    In EVerdict (tr s) /\
    (forall l1 m l2, trace s = l1 ++ ESend m :: l2 -> auth_msg m = false -> In EVerdict l1).
Proof. exact authenticated_whatever_address. Qed.
Print Assumptions C18_authenticated_whatever_address.

(* The one class both paths refuse — a port that is not a number: the connection is never
   handed out, no verdict, and nothing is written except, on the Transport path, the
   ApiVersions request that precedes its look at the address. *)
Theorem C18_refused_address_writes_nothing :
  forall mstate mstart mnext p a,
    port_is_number (dial_addr a) = false ->
    forall s : state mstate, reachable mstate mstart mnext p a s ->
      handed_out s = false /\ ~ In EVerdict (tr s) /\ ~ In EHandOut (tr s) /\
      (forall m, In (ESend m) (tr s) -> p = Transport /\ m = MReq K_ApiVersions 0).
Proof. exact refused_address_writes_nothing. Qed.
Print Assumptions C18_refused_address_writes_nothing.

(* ---- n concurrent set-ups over one Mechanism value ---- *)
(* The joint system of n connections (a step of connection i is a step of its component;
   every connection owns the machine state Start gave it) is the product of n single
   systems: every component of a jointly reachable state is a reachable single-connection
   state, so every theorem above holds of each connection whatever the interleaving.
   Obligation on the code (ASSUMPTIONS, S-conc): Mechanism.Start allocates its StateMachine. *)
Theorem C18_concurrent_is_product :
  forall mstate mstart mnext p a n ss,
    mreachable mstate mstart mnext p a n ss ->
    length ss = n /\ Forall (reachable mstate mstart mnext p a) ss.
Proof. exact mreachable_components. Qed.
Print Assumptions C18_concurrent_is_product.

(* ---- non-vacuity ---- *)
Definition adv01 (hs au : option Z) : advert := {| hs_max := hs; auth_max := au; dial_addr := AddrNumericPort |}.
Definition adv_at (hs au : option Z) (ac : addr_class) : advert := {| hs_max := hs; auth_max := au; dial_addr := ac |}.

(* PLAIN, Dialer, handshake v1, right credentials: framed exchange, verdict, hand-out, use *)
Example ex_plain_dialer_v1 :
  trace (run_case Dialer (adv01 (Some 1) (Some 1)) MPlain CredRight None) =
  [ESend (MReq 18 0); ERecv (ROk []); ESend (MReq 17 1); ERecv (ROk []);
   ESend (MReq 36 0); ERecv (ROk []); EVerdict; EHandOut; ESend (MReq 3 1); EClose].
Proof. vm_compute. reflexivity. Qed.

(* SCRAM, Transport, handshake v0, wrong password: raw exchange, the broker closes at the
   client-final step, dialling fails, the client closes, nothing else is written *)
Example ex_scram_transport_v0_wrong :
  trace (run_case Transport (adv01 (Some 0) None) MScram CredWrongPassword None) =
  [ESend (MReq 18 0); ERecv (ROk []); ESend (MReq 17 0); ERecv (ROk []);
   ESend MRaw; ERecv (ROk [11]); ESend MRaw; ERecv RClose; EClose].
Proof. vm_compute. reflexivity. Qed.

(* SCRAM, Transport, v1 with SaslAuthenticate v1 advertised, unsupported mechanism *)
Example ex_scram_transport_unsupported :
  trace (run_case Transport (adv01 (Some 1) (Some 2)) MScram CredRight (Some (1%nat, RErr 33))) =
  [ESend (MReq 18 0); ERecv (ROk []); ESend (MReq 17 1); ERecv (RErr 33); EClose].
Proof. vm_compute. reflexivity. Qed.

Example ex_scram_transport_v1_right :
  trace (run_case Transport (adv01 (Some 3) (Some 2)) MScram CredRight None) =
  [ESend (MReq 18 0); ERecv (ROk []); ESend (MReq 17 1); ERecv (ROk []);
   ESend (MReq 36 1); ERecv (ROk [11]); ESend (MReq 36 1); ERecv (ROk [12]);
   EVerdict; EHandOut; ESend (MReq 3 1); EClose].
Proof. vm_compute. reflexivity. Qed.

(* a negative length prefix on the raw exchange (PLAIN, handshake v0) fails the dial on both
   paths: error, connection closed, nothing written afterwards, never handed out *)
Example ex_neglen_fails :
  forall p,
  trace (run_case p (adv01 (Some 0) None) MPlain CredRight (Some (2%nat, RNegLen))) =
  [ESend (MReq 18 0); ERecv (ROk []); ESend (MReq 17 0); ERecv (ROk []);
   ESend MRaw; ERecv RNegLen; EClose].
Proof. intros p; destruct p; vm_compute; reflexivity. Qed.

(* the oracle is not constant *)
Example ex_corun :
  corun nat (shape_next MScram) nat (shape_srv MScram CredRight) 2 O (Some O) [1] = true /\
  corun nat (shape_next MScram) nat (shape_srv MScram CredRight) 1 O (Some O) [1] = false /\
  corun nat (shape_next MScram) nat (shape_srv MScram CredWrongPassword) 5 O (Some O) [1] = false /\
  corun nat (shape_next MPlain) nat (shape_srv MPlain CredRight) 1 O (Some O) [1] = true.
Proof. vm_compute. repeat split; reflexivity. Qed.

(* raw reads: six bytes 3f ff ff ff 01 02 (announced 2^30 - 1 ... here 1073741823) allocate
   512 bytes on the Transport path and the announced length on the Conn path; 600 arriving
   bytes make ReadAll grow once *)
Example ex_raw_read_huge_prefix :
  raw_read Transport 1073741823 [1; 2] EndClose = mkRR RRUnexpectedEof 2 512 /\
  raw_read Dialer 1073741823 [1; 2] EndClose = mkRR RRUnexpectedEof 2 1073741823 /\
  raw_read Transport 1073741823 [] EndClose = mkRR RREof 0 512 /\
  raw_read Transport 2 [7; 8; 9] EndSilence = mkRR (RROk [7; 8]) 2 512 /\
  raw_read Transport 3 [7; 8] EndSilence = mkRR RRTimeout 2 512 /\
  raw_read Transport (-1) [7; 8] EndClose = mkRR RRProtocol 0 0 /\
  rr_alloc (raw_read Transport 600 (repeat 0 600) EndClose) = (512 + 832)%N.
Proof. vm_compute. repeat split; reflexivity. Qed.

(* error 58 with a null message, Dialer path, framed exchange: refused; code 0 with a text: not *)
Example ex_refusal_null_message :
  trace (run_case Dialer (adv01 (Some 1) (Some 1)) MPlain CredRight
           (fault_of_response 2 (mkResp 58 None []))) =
  [ESend (MReq 18 0); ERecv (ROk []); ESend (MReq 17 1); ERecv (ROk []);
   ESend (MReq 36 0); ERecv (RErr 58); EClose] /\
  fault_of_response 2 (mkResp 0 (Some [1; 2]) []) = None /\
  refused (mkResp (-1) (Some []) []) = true /\ refused (mkResp 200 None []) = true.
Proof. vm_compute. repeat split; reflexivity. Qed.

(* addresses: a service-name port is refused (Dialer: before anything is written and — as the
   code does — without closing the socket; Transport: after ApiVersions, closed); port 65536
   and the empty address authenticate like any other *)
Example ex_addresses :
  trace (run_case Dialer (adv_at (Some 1) (Some 1) AddrServiceName) MPlain CredRight None) = [ERefused] /\
  trace (run_case Transport (adv_at (Some 1) (Some 1) AddrServiceName) MPlain CredRight None) =
    [ESend (MReq 18 0); ERecv (ROk []); EClose] /\
  trace (run_case Dialer (adv_at (Some 1) (Some 1) AddrPortHuge) MPlain CredRight None) =
    trace (run_case Dialer (adv01 (Some 1) (Some 1)) MPlain CredRight None) /\
  handed_out (run_case Transport (adv_at (Some 0) None AddrEmpty) MScram CredRight None) = true.
Proof. vm_compute. repeat split; reflexivity. Qed.
