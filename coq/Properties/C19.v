(* Properties/C19.v — Offset and metadata queries report exactly the brokers' state.
   Only statements; every proof is [exact <lemma>].  Vocabulary: Proofs/QueriesSpec.v. *)
From Coq Require Import List NArith ZArith Bool Sorting.Permutation.
From KV Require Import Lib.Bits Model.Queries Proofs.QueriesSpec Proofs.QueriesSeekMap Proofs.QueriesMerge
  Proofs.QueriesMapping Proofs.QueriesClient Proofs.QueriesReadParts.
Import ListNotations.
Open Scope Z_scope.

(* ======================= Conn.Seek ======================= *)

(* What Seek returns, what it leaves in c.offset and how many list-offsets requests it
   sends, for every current offset, argument, whence (with or without SeekDontCheck) and
   every (first, last) the broker holds.  t is the arithmetic of the property:
   SeekStart first+offset, SeekEnd last-offset, SeekAbsolute offset, SeekCurrent
   current+offset where current is the position Conn.Offset reports (first for the
   FirstOffset placeholder of a fresh connection, last for LastOffset).
   - SeekDontCheck with SeekAbsolute, or with SeekCurrent from a resolved offset: t,
     unchecked, no request;
   - SeekAbsolute to the offset the connection already has: returned as is, no request
     (a documented optimisation, see C19_seek_unchanged_shortcut_example);
   - otherwise t when first <= t <= last, else OffsetOutOfRange and c.offset unchanged
     (SeekDontCheck is ignored for SeekStart/SeekEnd, as documented, and for SeekCurrent
     from a placeholder, which only the broker can resolve). *)
Theorem C19_seek_spec : forall cur off whence f l,
  in_i64 cur -> in_i64 off -> valid_offsets f l ->
  let w := seek_whence whence in
  let t := seek_target cur off w f l in
  (w = SeekStart \/ w = SeekAbsolute \/ w = SeekEnd \/ w = SeekCurrent) ->
  (w = SeekCurrent -> in_i64 (current_position cur f l + off)) ->
  seek cur off whence (OffsOk f l) =
    if seek_unchecked whence cur then mk_seek (SeekOk t) t 0
    else if (w =? SeekAbsolute) && (off =? cur) then mk_seek (SeekOk cur) cur 0
    else if (f <=? t) && (t <=? l) then mk_seek (SeekOk t) t 2
    else mk_seek (SeekErr ErrOffsetOutOfRange) cur 2.
Proof. exact seek_spec. Qed.
Print Assumptions C19_seek_spec.

(* in particular on a connection that has not been positioned yet (c.offset is the
   FirstOffset placeholder, resp. LastOffset after seeking to the end without a check),
   SeekCurrent moves relative to the partition's start (resp. end), range-checked,
   with or without SeekDontCheck *)
Theorem C19_seek_current_fresh : forall d whence f l,
  in_i64 d -> valid_offsets f l -> seek_whence whence = SeekCurrent ->
  seek FirstOffset d whence (OffsOk f l) =
    (if (0 <=? d) && (f + d <=? l) then mk_seek (SeekOk (f + d)) (f + d) 2
     else mk_seek (SeekErr ErrOffsetOutOfRange) FirstOffset 2) /\
  seek LastOffset d whence (OffsOk f l) =
    (if (d <=? 0) && (f <=? l + d) then mk_seek (SeekOk (l + d)) (l + d) 2
     else mk_seek (SeekErr ErrOffsetOutOfRange) LastOffset 2).
Proof. exact seek_current_fresh. Qed.
Print Assumptions C19_seek_current_fresh.

(* any failure (bad whence, out of range, broker error) leaves c.offset untouched *)
Theorem C19_seek_error_keeps_offset : forall cur off whence b,
  seek_is_ok (so_res (seek cur off whence b)) = false -> so_offset (seek cur off whence b) = cur.
Proof. exact seek_error_keeps_offset. Qed.
Print Assumptions C19_seek_error_keeps_offset.

(* on success c.offset is the returned offset *)
Theorem C19_seek_ok_sets_offset : forall cur off whence b x,
  so_res (seek cur off whence b) = SeekOk x -> so_offset (seek cur off whence b) = x.
Proof. exact seek_ok_sets_offset. Qed.
Print Assumptions C19_seek_ok_sets_offset.

(* a broker error on either list-offsets request is returned as is *)
Theorem C19_seek_broker_error : forall cur off whence b f l code n,
  read_offsets b = (f, l, code, n) -> code <> 0 ->
  let w := seek_whence whence in
  (w = SeekStart \/ w = SeekAbsolute \/ w = SeekEnd \/ w = SeekCurrent) ->
  seek_unchecked whence cur = false ->
  (w =? SeekAbsolute) && (off =? cur) = false ->
  seek cur off whence b = mk_seek (SeekErr code) cur n.
Proof. exact seek_broker_error. Qed.
Print Assumptions C19_seek_broker_error.

Theorem C19_seek_bad_whence : forall cur off whence b,
  let w := seek_whence whence in
  ~ (w = SeekStart \/ w = SeekAbsolute \/ w = SeekEnd \/ w = SeekCurrent) ->
  seek cur off whence b = mk_seek SeekBadWhence cur 0.
Proof. exact seek_bad_whence. Qed.
Print Assumptions C19_seek_bad_whence.

(* The unchanged-offset shortcut of C19_seek_spec at work: SeekAbsolute to the offset the
   connection already holds is answered without asking the broker, so it is not
   range-checked — e.g. the placeholder -2 of a fresh connection, or an offset the log
   has since been truncated past.  Documented behaviour, not a defect. *)
Theorem C19_seek_unchanged_shortcut_example : exists cur f l,
  valid_offsets f l /\ ~ (f <= cur <= l) /\
  seek cur cur SeekAbsolute (OffsOk f l) = mk_seek (SeekOk cur) cur 0.
Proof. exact seek_unchanged_shortcut_example. Qed.
Print Assumptions C19_seek_unchanged_shortcut_example.

(* ReadFirstOffset / ReadLastOffset / ReadOffset: the answer for the one partition asked *)
Theorem C19_read_offset_exact : forall t p,
  read_offset_resp [(t, [p])] = if rp_error p =? 0 then ZOk (rp_offset p) else ZErr (rp_error p).
Proof. exact read_offset_exact. Qed.
Print Assumptions C19_read_offset_exact.

(* ======================= ListOffsets: Split / Merge ======================= *)

(* one sub-request per requested (topic, partition, timestamp), duplicates included, in order *)
Theorem C19_split_exact : forall r,
  listoffsets_split r = map (sub_request (q_replica r) (q_isolation r)) (req_entries r).
Proof. exact split_exact. Qed.
Print Assumptions C19_split_exact.

(* For every request and every outcome of every sub-request (answer with any error code /
   returned timestamp / offset, or failure), unless all failed: the merged answer holds
   exactly one entry per requested (topic, partition, timestamp) — the owning sub-request's
   answer with the requested timestamp restored, or (error -1, timestamp -1, offset -1) on
   that partition if the sub-request failed — sorted, throttle = the maximum. *)
Theorem C19_listoffsets_exact : forall r outs,
  length outs = length (req_entries r) ->
  existsb is_answer outs = true \/ outs = [] ->
  exists resp,
    listoffsets_merge (listoffsets_split r) (results_of (req_entries r) outs) = MergeOk resp /\
    Permutation (resp_entries (r_topics resp)) (expected_entries (req_entries r) outs) /\
    r_throttle resp = max_throttle outs /\
    merged_sorted (r_topics resp).
Proof. exact listoffsets_exact. Qed.
Print Assumptions C19_listoffsets_exact.

(* every sub-request failed: the first error is the result *)
Theorem C19_listoffsets_all_failed : forall r outs,
  length outs = length (req_entries r) -> outs <> [] -> existsb is_answer outs = false ->
  listoffsets_merge (listoffsets_split r) (results_of (req_entries r) outs) = MergeErr (first_error outs).
Proof. exact listoffsets_all_failed. Qed.
Print Assumptions C19_listoffsets_all_failed.

(* Failing sub-request i (whatever happened to the others, as long as one still answers)
   changes the entry of that requested (topic, partition) only: the two merged answers are
   l1 ++ x :: l2 and l1 ++ failed :: l2 up to order, with the same l1, l2. *)
Theorem C19_error_isolation : forall r outs i e,
  length outs = length (req_entries r) -> (i < length outs)%nat ->
  existsb is_answer (set_nth i (OFail e) outs) = true ->
  exists resp resp' q o l1 l2,
    nth_error (req_entries r) i = Some q /\ nth_error outs i = Some o /\
    listoffsets_merge (listoffsets_split r) (results_of (req_entries r) outs) = MergeOk resp /\
    listoffsets_merge (listoffsets_split r) (results_of (req_entries r) (set_nth i (OFail e) outs)) = MergeOk resp' /\
    Permutation (resp_entries (r_topics resp)) (l1 ++ expected_entry q o :: l2) /\
    Permutation (resp_entries (r_topics resp')) (l1 ++ (fst q, fail_part (snd q)) :: l2).
Proof. exact error_isolation. Qed.
Print Assumptions C19_error_isolation.

(* ---- the Transport's split round trip (connPool.roundTrip Splitter path, join, joined.await) ----
   Every message is sent; results[i] is the outcome of messages[i] — an answer or the error of
   that round trip (unreachable leader, dropped connection, unknown broker) — and all of them are
   handed to Merge.  For every request and every per-entry outcome: *)

(* the call is Merge over the positionally aligned outcomes *)
Theorem C19_transport_split_is_merge : forall outcome_of r,
  split_round_trip (send_of outcome_of) r =
  listoffsets_merge (listoffsets_split r) (results_of (req_entries r) (map outcome_of (req_entries r))).
Proof. exact split_round_trip_merge. Qed.
Print Assumptions C19_transport_split_is_merge.

(* hence, unless every sub-request failed, the call succeeds: healthy entries carry their
   leader's answer, a failed sub-request's error lands on its own (topic, partition) only *)
Theorem C19_transport_split_exact : forall outcome_of r,
  existsb is_answer (map outcome_of (req_entries r)) = true \/ req_entries r = [] ->
  exists resp,
    split_round_trip (send_of outcome_of) r = MergeOk resp /\
    Permutation (resp_entries (r_topics resp)) (expected_entries (req_entries r) (map outcome_of (req_entries r))) /\
    r_throttle resp = max_throttle (map outcome_of (req_entries r)) /\
    merged_sorted (r_topics resp).
Proof. exact split_round_trip_exact. Qed.
Print Assumptions C19_transport_split_exact.

(* and only when every sub-request failed is the (first) error the result of the call *)
Theorem C19_transport_split_all_failed : forall outcome_of r,
  req_entries r <> [] -> existsb is_answer (map outcome_of (req_entries r)) = false ->
  split_round_trip (send_of outcome_of) r = MergeErr (first_error (map outcome_of (req_entries r))).
Proof. exact split_round_trip_all_failed. Qed.
Print Assumptions C19_transport_split_all_failed.

(* ---- the fan-out mergers: ListGroups (one request per broker), DescribeGroups (one per
   group, to its coordinator), DescribeConfigs (one per broker resource + the topic resources) ----
   NO SILENT DROP: either every sub-request was answered and the result is the concatenation
   of all their items in request order, or the call fails with the error of a failed sub-request;
   a failed part is never skipped. *)
Theorem C19_fanout_no_silent_drop : forall (A : Type) (results : list (part_result A)),
  match concat_merge results with
  | FanOk l => exists parts, results = map PartOk parts /\ l = concat parts
  | FanErr e => exists pre rest, results = map PartOk pre ++ PartErr e :: rest
  end.
Proof. exact fanout_no_silent_drop. Qed.
Print Assumptions C19_fanout_no_silent_drop.

(* ListGroups: additionally every group is attributed to the broker that listed it *)
Theorem C19_listgroups_no_silent_drop : forall (A : Type) (brokers : list Z) (results : list (part_result A)),
  length brokers = length results ->
  match listgroups_merge brokers results with
  | FanOk l => exists parts, results = map PartOk parts /\
                 l = concat (map (fun bp => map (fun g => (g, fst bp)) (snd bp)) (combine brokers parts))
  | FanErr e => In (PartErr e) results
  end.
Proof. exact listgroups_no_silent_drop. Qed.
Print Assumptions C19_listgroups_no_silent_drop.

(* ======================= user-level mappings ======================= *)

Theorem C19_mapping_exact_offsetfetch : forall r,
  NoDup (map fst (ofr_topics r)) ->
  let a := offsetfetch_map r in
  oa_throttle a = ofr_throttle r /\ oa_err a = ofr_error r /\
  Forall2 (fun x t => fst x = fst t /\ Forall2 of_part_same (snd x) (snd t)) (oa_topics a) (ofr_topics r).
Proof. exact offsetfetch_exact. Qed.
Print Assumptions C19_mapping_exact_offsetfetch.

Theorem C19_mapping_exact_offsetcommit : forall r,
  NoDup (map fst (ocr_topics r)) ->
  oca_throttle (offsetcommit_map r) = ocr_throttle r /\ oca_topics (offsetcommit_map r) = ocr_topics r.
Proof. exact offsetcommit_exact. Qed.
Print Assumptions C19_mapping_exact_offsetcommit.

(* what is committed is what the caller asked to commit *)
Theorem C19_mapping_exact_offsetcommit_request : forall g u,
  in_i32 g -> Forall (fun t : str * list oc_commit => Forall (fun c => in_i32 (occ_partition c)) (snd t)) u ->
  ocq_generation (offsetcommit_request g u) = g /\ ocq_topics (offsetcommit_request g u) = u.
Proof. exact offsetcommit_request_exact. Qed.
Print Assumptions C19_mapping_exact_offsetcommit_request.

(* the broker the response registers under an id *)
Theorem C19_find_broker_spec : forall bs id,
  match find_broker bs id with
  | Some m => In m bs /\ mb_node m = id
  | None => forall m, In m bs -> mb_node m <> id
  end.
Proof. exact find_broker_spec. Qed.
Print Assumptions C19_find_broker_spec.

Theorem C19_mapping_exact_metadata : forall r,
  let a := metadata_map r in
  ma_throttle a = md_throttle r /\ ma_cluster a = md_cluster r /\
  Forall2 broker_same (ma_brokers a) (md_brokers r) /\
  ma_controller a = client_broker (md_brokers r) (md_controller r) /\
  Forall2 (md_topic_same (md_brokers r)) (ma_topics a) (md_topics r).
Proof. exact metadata_exact. Qed.
Print Assumptions C19_mapping_exact_metadata.

(* ReadPartitions: the error of the first failing topic that concerns the connection, or
   the partitions of all topics in order, each with its own leader / replicas / isr *)
Theorem C19_mapping_exact_read_partitions : forall v6 ct r,
  read_partitions v6 ct r =
  match find (rp_topic_fails ct) (md_topics r) with
  | Some t => PartsErr (mt_error t)
  | None => PartsOk (flat_map (fun t => map (rp_part v6 (md_brokers r) (mt_name t)) (mt_parts t)) (md_topics r))
  end.
Proof. exact read_partitions_exact. Qed.
Print Assumptions C19_mapping_exact_read_partitions.

Theorem C19_mapping_exact_consumer_offsets : forall asked md ofr t rest parts,
  ma_topics md = t :: rest -> amap_get (oa_topics ofr) (at_name t) = Some parts ->
  NoDup (map oa_partition parts) ->
  consumer_offsets_request asked md = Some (asked, map pt_id (at_parts t)) /\
  consumer_offsets_result md ofr = Some (map (fun p => (oa_partition p, oa_offset p)) parts).
Proof. exact consumer_offsets_exact. Qed.
Print Assumptions C19_mapping_exact_consumer_offsets.

(* the five mappings in one statement (each conjunct is one of the theorems above) *)
Theorem C19_mapping_exact :
  (forall r, NoDup (map fst (ofr_topics r)) ->
     let a := offsetfetch_map r in
     oa_throttle a = ofr_throttle r /\ oa_err a = ofr_error r /\
     Forall2 (fun x t => fst x = fst t /\ Forall2 of_part_same (snd x) (snd t)) (oa_topics a) (ofr_topics r)) /\
  (forall r, NoDup (map fst (ocr_topics r)) ->
     oca_throttle (offsetcommit_map r) = ocr_throttle r /\ oca_topics (offsetcommit_map r) = ocr_topics r) /\
  (forall g u, in_i32 g ->
     Forall (fun t : str * list oc_commit => Forall (fun c => in_i32 (occ_partition c)) (snd t)) u ->
     ocq_generation (offsetcommit_request g u) = g /\ ocq_topics (offsetcommit_request g u) = u) /\
  (forall asked md ofr t rest parts,
     ma_topics md = t :: rest -> amap_get (oa_topics ofr) (at_name t) = Some parts ->
     NoDup (map oa_partition parts) ->
     consumer_offsets_request asked md = Some (asked, map pt_id (at_parts t)) /\
     consumer_offsets_result md ofr = Some (map (fun p => (oa_partition p, oa_offset p)) parts)) /\
  (forall r, let a := metadata_map r in
     ma_throttle a = md_throttle r /\ ma_cluster a = md_cluster r /\
     Forall2 broker_same (ma_brokers a) (md_brokers r) /\
     ma_controller a = client_broker (md_brokers r) (md_controller r) /\
     Forall2 (md_topic_same (md_brokers r)) (ma_topics a) (md_topics r)) /\
  (forall v6 ct r,
     read_partitions v6 ct r =
     match find (rp_topic_fails ct) (md_topics r) with
     | Some t => PartsErr (mt_error t)
     | None => PartsOk (flat_map (fun t => map (rp_part v6 (md_brokers r) (mt_name t)) (mt_parts t)) (md_topics r))
     end).
Proof. exact mapping_exact. Qed.
Print Assumptions C19_mapping_exact.

(* ======================= Client.ListOffsets (user level) ======================= *)

(* What ListOffsets reports for one (topic, partition) is a function of that partition's
   own entries in the merged answer (and of what was asked for it): the PartitionOffsets
   prepared from the request, with the partition's entries applied in order. *)
Theorem C19_listoffsets_client_local : forall u res th m k,
  listoffsets_client u res = Some (th, m) ->
  th = r_throttle res /\
  tpmap_get m k = match entries_for (r_topics res) k with
                  | [] => tpmap_get (lo_prepare u) k
                  | es => po_apply_all (po_start u k) es
                  end.
Proof. exact listoffsets_client_local. Qed.
Print Assumptions C19_listoffsets_client_local.

(* hence an error or a failed sub-request on another partition cannot change it *)
Theorem C19_listoffsets_client_isolation : forall u res res' th th' m m' k,
  listoffsets_client u res = Some (th, m) -> listoffsets_client u res' = Some (th', m') ->
  entries_for (r_topics res) k = entries_for (r_topics res') k ->
  tpmap_get m k = tpmap_get m' k.
Proof. exact listoffsets_client_isolation. Qed.
Print Assumptions C19_listoffsets_client_isolation.

(* the PartitionOffsets prepared for a requested partition depends on its own requests only *)
Theorem C19_listoffsets_prepare_local : forall u k,
  tpmap_get (lo_prepare u) k = match requested_ts u k with
                               | [] => None
                               | tss => Some (fold_left po_request tss (po_fresh (snd k)))
                               end.
Proof. exact lo_prepare_local. Qed.
Print Assumptions C19_listoffsets_prepare_local.

(* the common query (first and last offset of a partition): exactly the leader's two answers *)
Theorem C19_listoffsets_client_first_last : forall p f l e1 e2 ep1 ep2,
  po_apply_all (fold_left po_request [FirstOffset; LastOffset] (po_fresh p))
    [ {| rp_partition := p; rp_error := e1; rp_ts := FirstOffset; rp_offset := f; rp_epoch := ep1 |};
      {| rp_partition := p; rp_error := e2; rp_ts := LastOffset; rp_offset := l; rp_epoch := ep2 |} ]
  = Some {| po_partition := p; po_first := f; po_last := l; po_offsets := []; po_nil := false;
            po_error := if e2 =? 0 then e1 else e2 |}.
Proof. exact listoffsets_client_first_last. Qed.
Print Assumptions C19_listoffsets_client_first_last.

(* ReadPartitions reports every partition's own error code on that partition (and nothing
   else changes): topic, id and error of the returned partitions are those of the response,
   in order *)
Theorem C19_read_partitions_partition_errors : forall v6 ct r l,
  read_partitions v6 ct r = PartsOk l ->
  map (fun p => (pt_topic p, pt_id p, pt_error p)) l =
  flat_map (fun t => map (fun p => (mt_name t, mp_index p, mp_error p)) (mt_parts t)) (md_topics r).
Proof. exact read_partitions_partition_errors. Qed.
Print Assumptions C19_read_partitions_partition_errors.

(* ---- ReadPartitions: which topics the request asks for ---- *)

(* The topic array of the metadata request, for every shape of the argument (None = call
   without argument / nil slice, Some l = non-nil slice, possibly empty) and every
   connection: the caller's topics, else the connection's topic, else the NULL array
   (all topics) — never the empty array, which a broker reads as "no topic". *)
Theorem C19_read_partitions_request_exact : forall ct arg,
  read_partitions_request ct arg = topics_asked ct arg.
Proof. exact read_partitions_request_exact. Qed.
Print Assumptions C19_read_partitions_request_exact.

(* no topic named by the caller or the connection: the request asks for all topics,
   whatever the nil-ness of the caller's slice *)
Theorem C19_read_partitions_asks_all : forall arg,
  arg_topics arg = [] -> read_partitions_request [] arg = None.
Proof. exact read_partitions_asks_all. Qed.
Print Assumptions C19_read_partitions_asks_all.

(* against a broker that answers what is on the wire (null array: every topic; a list:
   one entry per distinct name, the cluster's topic or UNKNOWN_TOPIC_OR_PARTITION), the
   result lists exactly the cluster's partitions for the topics asked *)
Theorem C19_read_partitions_call_exact : forall v6 ct arg cluster,
  let topics := topics_of_cluster cluster (topics_asked ct arg) in
  read_partitions_call v6 ct arg cluster =
  match find (rp_topic_fails ct) topics with
  | Some t => PartsErr (mt_error t)
  | None => PartsOk (flat_map (fun t => map (rp_part v6 (md_brokers cluster) (mt_name t)) (mt_parts t)) topics)
  end.
Proof. exact read_partitions_call_exact. Qed.
Print Assumptions C19_read_partitions_call_exact.

Theorem C19_read_partitions_all_topics : forall v6 arg cluster,
  arg_topics arg = [] ->
  read_partitions_call v6 [] arg cluster =
  match find (fun t => negb (mt_error t =? 0)) (md_topics cluster) with
  | Some t => PartsErr (mt_error t)
  | None => PartsOk (flat_map (fun t => map (rp_part v6 (md_brokers cluster) (mt_name t)) (mt_parts t)) (md_topics cluster))
  end.
Proof. exact read_partitions_all_topics. Qed.
Print Assumptions C19_read_partitions_all_topics.

(* ======================= Client.roundTrip: which cluster answers ======================= *)

(* Every Client query goes to the cluster at the effective address: the request's Addr
   when it has one (whatever the client's), else the client's Addr; with neither, the
   documented error and no round trip. *)
Theorem C19_client_addr_exact : forall (A Q R : Type) (transport : A -> Q -> R) req_addr client_addr q,
  client_round_trip transport req_addr client_addr q =
  option_map (fun a => transport a q) (effective_addr req_addr client_addr).
Proof. exact client_round_trip_exact. Qed.
Print Assumptions C19_client_addr_exact.

Theorem C19_client_addr_request_first : forall (A Q R : Type) (transport : A -> Q -> R) a client_addr q,
  client_round_trip transport (Some a) client_addr q = Some (transport a q).
Proof. exact client_round_trip_request_addr. Qed.
Print Assumptions C19_client_addr_request_first.

Theorem C19_client_addr_none : forall (A Q R : Type) (transport : A -> Q -> R) q,
  client_round_trip transport None None q = None.
Proof. exact client_round_trip_no_addr. Qed.
Print Assumptions C19_client_addr_none.

(* composed with any of the user-level mappings f proved exact above (metadata_map,
   offsetfetch_map, offsetcommit_map, listoffsets_client ...): what the API reports is f of
   the answer of the cluster at the effective address — the state of THAT cluster *)
Theorem C19_client_query_exact : forall (A Q R U : Type) (transport : A -> Q -> R) (f : R -> U) req_addr client_addr q,
  option_map f (client_round_trip transport req_addr client_addr q) =
  match effective_addr req_addr client_addr with
  | Some a => Some (f (transport a q))
  | None => None
  end.
Proof. exact client_query_exact. Qed.
Print Assumptions C19_client_query_exact.

(* ======================= non-vacuity ======================= *)

Example C19_seek_example :
  seek 150 20 SeekEnd (OffsOk 100 200) = mk_seek (SeekOk 180) 180 2 /\
  seek 150 20 SeekStart (OffsOk 100 200) = mk_seek (SeekOk 120) 120 2 /\
  seek 150 101 SeekStart (OffsOk 100 200) = mk_seek (SeekErr 1) 150 2 /\
  seek 150 20 (SeekCurrent + SeekDontCheck) (OffsOk 100 200) = mk_seek (SeekOk 170) 170 0 /\
  seek FirstOffset 5 SeekCurrent (OffsOk 100 200) = mk_seek (SeekOk 105) 105 2 /\
  seek FirstOffset 5 (SeekCurrent + SeekDontCheck) (OffsOk 100 200) = mk_seek (SeekOk 105) 105 2 /\
  valid_offsets 100 200 /\ in_i64 150.
Proof. repeat split; vm_compute; try reflexivity; intro H; discriminate H. Qed.

(* two topics, a partition asked at two timestamps, one sub-request failing *)
Definition C19_ex_req : lo_request :=
  {| q_replica := -1; q_isolation := 0;
     q_topics := [([98%N], [{| qp_partition := 1; qp_epoch := -1; qp_ts := -2 |};
                           {| qp_partition := 1; qp_epoch := -1; qp_ts := -1 |}]);
                  ([97%N], [{| qp_partition := 0; qp_epoch := -1; qp_ts := 1234 |}])] |}.
Definition C19_ex_outs : list outcome :=
  [OAnswer 0 (-1) 10 3 0; OFail 77; OAnswer 0 1300 42 3 5].

Example C19_listoffsets_example :
  listoffsets_merge (listoffsets_split C19_ex_req) (results_of (req_entries C19_ex_req) C19_ex_outs) =
  MergeOk {| r_throttle := 5;
             r_topics := [([97%N], [{| rp_partition := 0; rp_error := 0; rp_ts := 1234; rp_offset := 42; rp_epoch := 3 |}]);
                          ([98%N], [{| rp_partition := 1; rp_error := -1; rp_ts := -1; rp_offset := -1; rp_epoch := -1 |};
                                    {| rp_partition := 1; rp_error := 0; rp_ts := -2; rp_offset := 10; rp_epoch := 3 |}])] |}
  /\ length C19_ex_outs = length (req_entries C19_ex_req).
Proof. split; vm_compute; reflexivity. Qed.

(* an empty non-nil slice on a connection without topic still lists the whole cluster *)
Example C19_read_partitions_example :
  let cluster := {| md_throttle := 0; md_brokers := [{| mb_node := 1; mb_host := [104%N]; mb_port := 9092; mb_rack := [] |}];
                    md_cluster := []; md_controller := 1;
                    md_topics := [{| mt_error := 0; mt_name := [111%N]; mt_internal := false;
                                     mt_parts := [{| mp_error := 0; mp_index := 0; mp_leader := 1; mp_replicas := [1]; mp_isr := [1]; mp_offline := [] |}] |}] |} in
  read_partitions_request [] (Some []) = None /\
  read_partitions_call false [] (Some []) cluster = read_partitions_call false [] None cluster /\
  exists p, read_partitions_call false [] (Some []) cluster = PartsOk [p] /\ pt_id p = 0 /\ pt_topic p = [111%N].
Proof. repeat split. eexists. repeat split. Qed.

(* two clusters (true / false) answering differently: a request addressed to the second
   one is answered by the second one although the client's default is the first *)
Example C19_client_addr_example :
  client_round_trip (fun (a : bool) (q : Z) => if a then q + 1 else q + 1000) (Some false) (Some true) 5 = Some 1005 /\
  client_round_trip (fun (a : bool) (q : Z) => if a then q + 1 else q + 1000) None (Some true) 5 = Some 6.
Proof. split; reflexivity. Qed.
