(* Properties/C08.v — Writer batches respect size limits and are flushed without further
   input.  Only statements; every proof is [exact <lemma>].  Model: Model/Writer.v (the
   mechanism of /repo/writer.go as an atomic-step transition system); a run is
   [run (step cfg) init ls = Some s] for an arbitrary label sequence ls (every schedule, every
   timer firing, every broker reaction). *)
From Coq Require Import List NArith ZArith Bool Arith Sorted.
From KV Require Import Lib.LTS Model.Writer Proofs.WriterStmts Proofs.WriterC08 Proofs.WriterHolds Proofs.WriterC01a Proofs.WriterHolds2 Proofs.WriterTrickle.
Import ListNotations.

(* Every produce request the broker ever sees carries at most BatchSize messages, at most
   BatchBytes bytes (the exact rule of writeBatch.add: an over-sized sum is admitted only into an
   empty batch, and validation has already rejected single messages above BatchBytes — so the
   bound holds without exception), is not empty, and holds records of one topic-partition. *)
Theorem C08_limits :
  forall cfg ls s, cfg_ok cfg -> run (step cfg) init ls = Some s ->
  forall a, In a (s_journal s) ->
    length (a_msgs a) <= batchSize cfg /\
    (sum_sizes (a_msgs a) <= batchBytes cfg)%N /\
    a_msgs a <> [] /\
    (forall m, In m (a_msgs a) -> tp_of cfg m = a_tp a).
Proof. exact C08_limits_proof. Qed.
Print Assumptions C08_limits.

(* A call that the validation rejects (a message larger than BatchBytes anywhere in the call,
   Writer.Topic and Message.Topic both set or both empty, or a failed metadata lookup) returns
   that error in the same step; the successor state differs from s only by the record of the
   returned call: no partition writer, batch, WaitGroup count, journal or log entry changes. *)
Theorem C08_rejected_sends_nothing :
  forall cfg s g msgs merr e s',
    msgs <> [] -> validate cfg merr msgs = Some e ->
    step cfg s (Call g msgs merr) = Some s' ->
    s' = add_call s (s_wg s) (mkCall g msgs [] (CReturned (RErr (if closed s then EClosed else e)))).
Proof. exact C08_rejected_sends_nothing_proof. Qed.
Print Assumptions C08_rejected_sends_nothing.

(* What the validation rejects: the first too-large message wins (wherever it stands, also
   last); with all sizes fine a message without exactly one topic is an error; acceptance
   means every message is within BatchBytes and has a topic. *)
Theorem C08_validate_spec :
  forall cfg merr msgs,
    (forall i m, nth_error msgs i = Some m -> (batchBytes cfg < m_size m)%N ->
       exists i', i' <= i /\ validate cfg merr msgs = Some (ETooLarge i')) /\
    (forall i, validate cfg merr msgs = Some (ETooLarge i) ->
       exists m, nth_error msgs i = Some m /\ (batchBytes cfg < m_size m)%N) /\
    ((forall m, In m msgs -> (m_size m <= batchBytes cfg)%N) ->
     forall i m, nth_error msgs i = Some m -> choose_topic cfg m = None ->
       exists e, validate cfg merr msgs = Some e) /\
    (validate cfg merr msgs = None ->
       forall m, In m msgs -> (m_size m <= batchBytes cfg)%N /\ choose_topic cfg m <> None).
Proof. exact C08_validate_spec_proof. Qed.
Print Assumptions C08_validate_spec.

(* A batch is closed as soon as it is full: an open batch is never full (and never empty). *)
Theorem C08_open_batch_never_full :
  forall cfg ls s, run (step cfg) init ls = Some s ->
  forall p pw b, nth_error (s_pws s) p = Some pw -> pw_curr pw = Some b ->
    b_size b < batchSize cfg /\ (b_bytes b < batchBytes cfg)%N /\
    b_msgs b <> [] /\ b_bytes b = sum_sizes (b_msgs b).
Proof. exact C08_open_batch_never_full_proof. Qed.
Print Assumptions C08_open_batch_never_full.

(* ... or otherwise by its timer, without further writes: for every open batch the timer step
   is enabled and moves exactly that batch to the tail of the partition's queue. *)
Theorem C08_open_batch_has_timer :
  forall cfg ls s, run (step cfg) init ls = Some s ->
  forall p pw b, nth_error (s_pws s) p = Some pw -> pw_curr pw = Some b ->
    exists s' pw', step cfg s (Timer p (b_k b)) = Some s' /\
                   nth_error (s_pws s') p = Some pw' /\
                   pw_curr pw' = None /\ pw_queue pw' = pw_queue pw ++ [b].
Proof. exact C08_open_batch_has_timer_proof. Qed.
Print Assumptions C08_open_batch_has_timer.

(* ... and is produced as soon as the earlier batches of that partition have completed: a
   non-empty queue has a live sender goroutine whose next step (Get, or the next step of the
   batch it is sending, whatever the broker's reaction) is enabled. *)
Theorem C08_queued_batch_served :
  forall cfg ls s, run (step cfg) init ls = Some s ->
  forall p pw, nth_error (s_pws s) p = Some pw -> pw_queue pw <> [] ->
    pw_alive pw = true /\
    match pw_snd pw with
    | None => step cfg s (Get p) <> None
    | Some sd => match sd_ph sd with
                 | PAttempt => forall r, step cfg s (Attempt p r) <> None
                 | PBackoff => step cfg s (BackoffDone p) <> None
                 | PFinish _ => step cfg s (Finish p) <> None
                 end
    end.
Proof. exact C08_queued_batch_served_proof. Qed.
Print Assumptions C08_queued_batch_served.

(* The extracted boolean predicate that the correspondence run evaluates on the journal of
   every recorded real history is true on every run of the model. *)
Theorem C08_limits_holds_on_runs :
  forall cfg ls s, cfg_ok cfg -> run (step cfg) init ls = Some s ->
    C08_limits_holds cfg (s_journal s) = true.
Proof. exact C08_limits_holds_runs. Qed.
Print Assumptions C08_limits_holds_on_runs.

(* ... and nothing of a rejected call (too large, topic conflict, metadata failure, closed —
   at enter() or, when Close ran in between, at batchMessages) is ever sent, in any later state. *)
Theorem C08_rejected_never_sent :
  forall cfg ls s, run (step cfg) init ls = Some s ->
  forall c cl, nth_error (s_calls s) c = Some cl -> rejected cl = true ->
  forall m a, In m (c_msgs cl) -> In a (s_journal s) -> ~ In m (a_msgs a).
Proof. exact C08_rejected_never_sent_proof. Qed.
Print Assumptions C08_rejected_never_sent.

Theorem C08_rejected_sends_nothing_holds_on_runs :
  forall cfg ls s, run (step cfg) init ls = Some s ->
    rejected_sends_nothing_holds (s_calls s) (s_journal s) = true.
Proof. exact rejected_sends_nothing_holds_runs. Qed.
Print Assumptions C08_rejected_sends_nothing_holds_on_runs.

(* The limits are the EFFECTIVE ones: an option field that is not positive stands for its
   documented default (accessors batchSize()/batchBytes()/maxAttempts(): 100 / 1048576 / 10),
   never for "unlimited"; the configuration built from any option values satisfies cfg_ok, so
   C08_limits applies to it.  (The accessor mapping is compared by op cfgd; every end-to-end
   scenario's cfg is read through the accessors of the very Writer it runs.) *)
Theorem C08_defaulted_config_ok :
  forall o asy wt retr, cfg_ok (cfg_of_options o asy wt retr).
Proof. exact cfg_of_options_ok. Qed.
Print Assumptions C08_defaulted_config_ok.

(* BatchTimeout counts from the batch's OPENING.  In the transition system the awaitBatch goroutine
   is spawned with the batch and its Timer step stays enabled whatever is added later
   (C08_open_batch_has_timer).  Timed reading (batches_by_deadline of Model/Writer.v: a batch opens
   with its first message at t0 and takes the following ones while they arrive before t0 + timeout
   and there is room): every batch spans less than BatchTimeout from its FIRST message, however
   densely later messages keep arriving, and respects BatchSize — so every produce request passes
   span_ok, the check the trickle family (op trk) applies to the real Writer's requests with the
   accept times of their messages.  (The effective BatchTimeout is positive: dflt.) *)
Theorem C08_timeout_counts_from_opening :
  forall fuel timeout bsize ts b, (0 < timeout)%Z -> 1 <= bsize -> StronglySorted Z.le ts ->
    In b (batches_by_deadline fuel timeout bsize ts) ->
    exists t0 rest, b = t0 :: rest /\ (forall t, In t b -> (t0 <= t < t0 + timeout)%Z) /\
                    length b <= bsize /\ span_ok timeout 0 bsize b = true.
Proof. exact C08_timeout_counts_from_opening_pos_proof. Qed.
Print Assumptions C08_timeout_counts_from_opening.

(* BatchTimeout 300, one message every 100 ms, 14 messages: requests of 3 (arrivals at
   t0, t0+100, t0+200; the one at t0+300 is not before the deadline), never one of 14 *)
Example C08_trickle_example :
  map (@length Z) (batches_by_deadline 20 300 100 (map (fun i => Z.of_nat i * 100)%Z (seq 0 14)))
  = [3; 3; 3; 3; 2].
Proof. vm_compute. reflexivity. Qed.

(* The deprecated constructor kafka.NewWriter(WriterConfig): the effective configuration is that
   of the mapped fields — the configured BatchBytes / BatchSize / MaxAttempts ARE the limits
   (zero = documented default).  op nwc compares the real constructor field by field. *)
Theorem C08_newwriter_config_carried : forall c wt retr,
  cfg_of_writer_config c wt retr = cfg_of_options (options_of_writer_config c) (wc_async c) wt retr /\
  batchBytes (cfg_of_writer_config c wt retr) = Z.to_N (dflt (wc_batchBytes c) 1048576) /\
  batchSize (cfg_of_writer_config c wt retr) = Z.to_nat (dflt (wc_batchSize c) 100) /\
  maxAttempts (cfg_of_writer_config c wt retr) = Z.to_nat (dflt (wc_maxAttempts c) 10) /\
  cfg_ok (cfg_of_writer_config c wt retr).
Proof. exact cfg_of_writer_config_eq. Qed.
Print Assumptions C08_newwriter_config_carried.

(* ... and the Transport it builds takes SASL, TLS and ClientID from WriterConfig.Dialer
   independently of each other (it authenticates exactly when the dialer has a SASL mechanism,
   with or without TLS); op nwt compares the real constructor (hosted by C18's check). *)
Theorem C08_newwriter_transport : forall d idle ttl,
  t_sasl (transport_of_writer_config (Some d) idle ttl) = d_sasl d /\
  t_tls (transport_of_writer_config (Some d) idle ttl) = d_tls d /\
  t_clientID (transport_of_writer_config (Some d) idle ttl) = d_clientID d /\
  t_dial (transport_of_writer_config (Some d) idle ttl) = true /\
  (0 < t_idleMs (transport_of_writer_config (Some d) idle ttl) \/ idle < 0)%Z /\
  (0 < t_ttlMs (transport_of_writer_config (Some d) idle ttl) \/ ttl < 0)%Z.
Proof. exact transport_of_writer_config_sasl. Qed.
Print Assumptions C08_newwriter_transport.

Example C08_zero_means_default :
  let c := cfg_of_options (mkOpt 0 0 0 0 0 0 0 0)%Z false None (fun _ => false) in
  batchSize c = 100 /\ batchBytes c = 1048576%N /\ maxAttempts c = 10 /\
  validate c None [mkMsg 1 (Some 0%N) 1048577 0] = Some (ETooLarge 0) /\
  validate c None [mkMsg 1 (Some 0%N) 1048576 0] = None.
Proof. vm_compute. repeat split; reflexivity. Qed.

(* ---- non-vacuity: BatchSize 2, BatchBytes 100; a call of three 40-byte messages: the first
   two fill a batch exactly by count, the third is flushed by its timer; a 50+50 pair hits
   BatchBytes exactly.  Both limits are met with equality in the journal. *)
Definition ex_cfg : config := mkCfg 2 100 2 false (Some 0%N) (fun e => N.eqb e 7).
Definition ex_m (id sz : N) : msg := mkMsg id None sz 0.
Definition ex_run : list label :=
  [Call 1 [ex_m 1 40; ex_m 2 40; ex_m 3 40] None; Assign 0; Get 0; Attempt 0 AppliedAcked; Finish 0;
   Timer 0 1; Get 0; Attempt 0 AppliedAcked; Finish 0; Timer 0 0; Return 0;
   Call 1 [ex_m 4 50; ex_m 5 50] None; Assign 1; Get 0; Attempt 0 AppliedAcked].
Example C08_nonvacuous :
  cfg_ok ex_cfg /\
  exists s, run (step ex_cfg) init ex_run = Some s /\
            map (fun a => (length (a_msgs a), sum_sizes (a_msgs a))) (s_journal s)
            = [(2, 80%N); (1, 40%N); (2, 100%N)].
Proof. split; [unfold cfg_ok; simpl; auto|]. eexists; split; vm_compute; reflexivity. Qed.

(* a rejected call: the too-large message is the last one *)
Example C08_rejected_nonvacuous :
  validate ex_cfg None [ex_m 1 40; ex_m 2 101] = Some (ETooLarge 1) /\
  validate ex_cfg None [mkMsg 1 (Some 3%N) 40 0] = Some (ETopic 0).
Proof. split; vm_compute; reflexivity. Qed.

(* ---- the synchronisation skeleton the Writer model assumes (which Go critical section each
   label of Model/Writer.v stands for: Model/SkeletonAssumptions.v, writer_assumptions) holds
   of /repo's CURRENT source: facts regenerated by harness/cmd/vskel on every run. *)
From KV Require Model.SkeletonAssumptions Gen.Skeleton Proofs.SkeletonWriter.
Theorem C08_skeleton_assumptions :
  KV.Model.SkeletonAssumptions.writer_assumptions_hold KV.Gen.Skeleton.calls KV.Gen.Skeleton.accesses = true.
Proof. exact KV.Proofs.SkeletonWriter.writer_skeleton_ok. Qed.
Print Assumptions C08_skeleton_assumptions.
