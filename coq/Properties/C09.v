(* Properties/C09.v — Close, use-after-close and termination: the kafka.Writer half of C09.
   Only statements; every proof is [exact <lemma>].  Model: Model/Writer.v; a run is
   [run (step cfg) init ls = Some s] for an arbitrary label sequence (every interleaving of
   Close with in-flight and newly arriving calls, batch timers, retries and back-off sleeps,
   and every sequence of broker reactions).

   stuck cfg s : Close waits (s_close s = ClWaiting) and no step other than an environment
   decision (a new call, a context ending) is enabled — Close can never return.
   is_env      : Call, CtxDone, CloseMark.  Every other label is a step some goroutine of
   the Writer, the broker or a timer takes on its own.

   Former defect F3 (fixed in /repo by re-checking w.closed under w.mutex in batchMessages):
   a WriteMessages call that passed enter() before Close marked the writer closed, and whose
   batchMessages ran after Close emptied w.writers, created a partition writer nobody closes
   and Close never returned.  Now that call fails with io.ErrClosedPipe (label Assign in a
   closed state), and the theorems below hold for EVERY run.  The regression scenario is run
   on the implementation by op f3 of harness/cmd/writer. *)
From Coq Require Import List NArith Bool Arith.
From KV Require Import Lib.LTS Model.Writer Proofs.WriterStmts Proofs.WriterC09.
Import ListNotations.

(* After Close has marked the writer closed, WriteMessages fails with io.ErrClosedPipe in the
   same step and changes nothing but the record of that call. *)
Theorem C09_w_after_close :
  forall cfg s g msgs merr s',
    closed s = true -> step cfg s (Call g msgs merr) = Some s' ->
    s' = add_call s (s_wg s) (mkCall g msgs [] (CReturned (RErr EClosed))).
Proof. exact C09_w_after_close_proof. Qed.
Print Assumptions C09_w_after_close.

(* Close is never stuck, in every schedule: in every reachable state in which Close waits,
   some non-environment step is enabled (a timer, a sender step, a pending batchMessages — which
   now returns ErrClosedPipe —, a waiting call's return, or — WaitGroup at 0 — Close's return). *)
Theorem C09_w_close_no_stuck :
  forall cfg ls s, run (step cfg) init ls = Some s -> s_close s = ClWaiting ->
    exists l, is_env l = false /\ step cfg s l <> None.
Proof. exact C09_w_close_no_stuck_proof. Qed.
Print Assumptions C09_w_close_no_stuck.

Theorem C09_w_close_never_stuck :
  forall cfg ls s, run (step cfg) init ls = Some s -> ~ stuck cfg s.
Proof. exact C09_w_close_never_stuck_proof. Qed.
Print Assumptions C09_w_close_never_stuck.

(* The WaitGroup counter is exactly the number of live accounted activities (calls between
   enter and leave, sender goroutines, awaitBatch goroutines): it never underflows and Close's
   Wait returns exactly when all of them are gone. *)
Theorem C09_w_waitgroup_exact :
  forall cfg ls s, run (step cfg) init ls = Some s ->
    s_wg s = active_calls s + alive_senders s + awaiters s.
Proof. exact C09_w_waitgroup_exact_proof. Qed.
Print Assumptions C09_w_waitgroup_exact.

(* The decision procedure used by the correspondence driver for "stuck" is sound. *)
Theorem C09_w_stuckb_sound : forall cfg s, stuckb cfg s = true -> stuck cfg s.
Proof. exact stuckb_sound_proof. Qed.
Print Assumptions C09_w_stuckb_sound.

(* Termination variant: the measure [mu] (Proofs/WriterC09.v: per call not yet assigned
   2 + #messages * (2*MaxAttempts + 5); per waiting call 1; per partition writer its live sender,
   its awaitBatch goroutines, 2*MaxAttempts + 3 per batch not yet sent, the remaining attempts
   of the batch being sent; 1 while Close waits) strictly decreases on EVERY non-environment
   step.  Hence between two environment decisions only finitely many steps happen, and with
   C09_w_close_no_stuck every fair run lets Close return.  (Wall-clock bounds are outside the
   model.) *)
Theorem C09_w_close_variant :
  forall cfg ls s l s', run (step cfg) init ls = Some s -> is_env l = false ->
    step cfg s l = Some s' -> mu cfg s' < mu cfg s.
Proof. exact C09_w_variant_proof. Qed.
Print Assumptions C09_w_close_variant.

(* When Close has returned: nothing is pending anywhere (no open or queued batch, no batch
   being sent, no live sender or timer goroutine), every call has returned, and every message
   of every accepted call has been handed to the Completion callback — i.e. it was
   acknowledged or exhausted its attempts (C01_completion_once gives the outcome). *)
Theorem C09_w_close_post :
  forall cfg ls s, run (step cfg) init ls = Some s -> s_close s = ClReturned ->
    (forall p pw, nth_error (s_pws s) p = Some pw ->
       pw_curr pw = None /\ pw_queue pw = [] /\ pw_snd pw = None /\ pw_alive pw = false /\ pw_await pw = []) /\
    (forall c cl, nth_error (s_calls s) c = Some cl -> returned cl = true) /\
    (forall c cl m, nth_error (s_calls s) c = Some cl -> rejected cl = false -> In m (c_msgs cl) ->
       exists ms o, In (ms, o) (s_compl s) /\ In m ms).
Proof. exact C09_w_close_post_proof. Qed.
Print Assumptions C09_w_close_post.

(* ---- non-vacuity: Close racing a waiting call with an open batch AND a call that passed
   enter() but not yet batchMessages: the open batch is flushed by CloseMark and sent (one retry),
   the first call returns nil, the late call returns ErrClosedPipe, the sender exits, Close
   returns; a call after that is refused. *)
Definition ex_cfg : config := mkCfg 5 100 2 false (Some 0%N) (fun e => N.eqb e 7).
Definition ex_run : list label :=
  [Call 1 [mkMsg 1 None 30 0] None; Assign 0; Call 2 [mkMsg 2 None 30 0] None; CloseMark; Assign 1;
   Get 0; Attempt 0 (NotApplied 7%N); BackoffDone 0; Attempt 0 AppliedAcked; Finish 0; Timer 0 0;
   Return 0; SenderExit 0; CloseWaitDone; Call 1 [mkMsg 3 None 30 0] None].
Example C09_nonvacuous :
  exists s, run (step ex_cfg) init ex_run = Some s /\ s_close s = ClReturned /\
            map c_ph (s_calls s) = [CReturned RNil; CReturned (RErr EClosed); CReturned (RErr EClosed)] /\
            s_wg s = 0 /\ length (s_pws s) = 1.
Proof.
  eexists. split; [vm_compute; reflexivity|]. split; [vm_compute; reflexivity|].
  split; [vm_compute; reflexivity|]. split; vm_compute; reflexivity.
Qed.
