(* Properties/C09.v — Close, use-after-close and termination: the kafka.Writer half of C09.
   Only statements; every proof is [exact <lemma>].  Model: Model/Writer.v; a run is
   [run (step cfg) init ls = Some s] for an arbitrary label sequence (every interleaving of
   Close with in-flight and newly arriving calls, batch timers, retries and back-off sleeps,
   and every sequence of broker reactions).

   stuck cfg s : Close waits (s_close s = ClWaiting) and no step other than an environment
   decision (a new call, a context ending) is enabled — Close can never return.
   is_env      : Call, CtxDone, CloseMark.  Every other label is a step some goroutine of
   the Writer, the broker or a timer takes on its own.

   Former defect F3 (fixed in /repo by re-checking w.closed under w.mutex in batchMessages):
   a WriteMessages call that passed enter() before Close marked the writer closed, and whose
   batchMessages ran after Close emptied w.writers, created a partition writer nobody closes
   and Close never returned.  Now that call fails with io.ErrClosedPipe (label Assign in a
   closed state), and the theorems below hold for EVERY run.  The regression scenario is run
   on the implementation by op f3 of harness/cmd/writer. *)
From Coq Require Import List NArith Bool Arith.
From KV Require Import Lib.LTS Model.Writer Proofs.WriterStmts Proofs.WriterC09.
Import ListNotations.

(* After Close has marked the writer closed, WriteMessages fails with io.ErrClosedPipe in the
   same step and changes nothing but the record of that call. *)
Theorem C09_w_after_close :
  forall cfg s g msgs merr s',
    closed s = true -> step cfg s (Call g msgs merr) = Some s' ->
    s' = add_call s (s_wg s) (mkCall g msgs [] (CReturned (RErr EClosed))).
Proof. exact C09_w_after_close_proof. Qed.
Print Assumptions C09_w_after_close.

(* Close is never stuck, in every schedule: in every reachable state in which Close waits,
   some non-environment step is enabled (a timer, a sender step, a pending batchMessages — which
   now returns ErrClosedPipe —, a waiting call's return, or — WaitGroup at 0 — Close's return). *)
Theorem C09_w_close_no_stuck :
  forall cfg ls s, run (step cfg) init ls = Some s -> s_close s = ClWaiting ->
    exists l, is_env l = false /\ step cfg s l <> None.
Proof. exact C09_w_close_no_stuck_proof. Qed.
Print Assumptions C09_w_close_no_stuck.

Theorem C09_w_close_never_stuck :
  forall cfg ls s, run (step cfg) init ls = Some s -> ~ stuck cfg s.
Proof. exact C09_w_close_never_stuck_proof. Qed.
Print Assumptions C09_w_close_never_stuck.

(* The WaitGroup counter is exactly the number of live accounted activities (calls between
   enter and leave, sender goroutines, awaitBatch goroutines): it never underflows and Close's
   Wait returns exactly when all of them are gone. *)
Theorem C09_w_waitgroup_exact :
  forall cfg ls s, run (step cfg) init ls = Some s ->
    s_wg s = active_calls s + alive_senders s + awaiters s.
Proof. exact C09_w_waitgroup_exact_proof. Qed.
Print Assumptions C09_w_waitgroup_exact.

(* The decision procedure used by the correspondence driver for "stuck" is sound. *)
Theorem C09_w_stuckb_sound : forall cfg s, stuckb cfg s = true -> stuck cfg s.
Proof. exact stuckb_sound_proof. Qed.
Print Assumptions C09_w_stuckb_sound.

(* Termination variant: the measure [mu] (Proofs/WriterC09.v: per call not yet assigned
   2 + #messages * (2*MaxAttempts + 5); per waiting call 1; per partition writer its live sender,
   its awaitBatch goroutines, 2*MaxAttempts + 3 per batch not yet sent, the remaining attempts
   of the batch being sent; 1 while Close waits) strictly decreases on EVERY non-environment
   step.  Hence between two environment decisions only finitely many steps happen, and with
   C09_w_close_no_stuck every fair run lets Close return.  (Wall-clock bounds are outside the
   model.) *)
Theorem C09_w_close_variant :
  forall cfg ls s l s', run (step cfg) init ls = Some s -> is_env l = false ->
    step cfg s l = Some s' -> mu cfg s' < mu cfg s.
Proof. exact C09_w_variant_proof. Qed.
Print Assumptions C09_w_close_variant.

(* When Close has returned: nothing is pending anywhere (no open or queued batch, no batch
   being sent, no live sender or timer goroutine), every call has returned, and every message
   of every accepted call has been handed to the Completion callback — i.e. it was
   acknowledged or exhausted its attempts (C01_completion_once gives the outcome). *)
Theorem C09_w_close_post :
  forall cfg ls s, run (step cfg) init ls = Some s -> s_close s = ClReturned ->
    (forall p pw, nth_error (s_pws s) p = Some pw ->
       pw_curr pw = None /\ pw_queue pw = [] /\ pw_snd pw = None /\ pw_alive pw = false /\ pw_await pw = []) /\
    (forall c cl, nth_error (s_calls s) c = Some cl -> returned cl = true) /\
    (forall c cl m, nth_error (s_calls s) c = Some cl -> rejected cl = false -> In m (c_msgs cl) ->
       exists ms o, In (ms, o) (s_compl s) /\ In m ms).
Proof. exact C09_w_close_post_proof. Qed.
Print Assumptions C09_w_close_post.

(* ---- non-vacuity: Close racing a waiting call with an open batch AND a call that passed
   enter() but not yet batchMessages: the open batch is flushed by CloseMark and sent (one retry),
   the first call returns nil, the late call returns ErrClosedPipe, the sender exits, Close
   returns; a call after that is refused. *)
Definition ex_cfg : config := mkCfg 5 100 2 false (Some 0%N) (fun e => N.eqb e 7).
Definition ex_run : list label :=
  [Call 1 [mkMsg 1 None 30 0] None; Assign 0; Call 2 [mkMsg 2 None 30 0] None; CloseMark; Assign 1;
   Get 0; Attempt 0 (NotApplied 7%N); BackoffDone 0; Attempt 0 AppliedAcked; Finish 0; Timer 0 0;
   Return 0; SenderExit 0; CloseWaitDone; Call 1 [mkMsg 3 None 30 0] None].
Example C09_nonvacuous :
  exists s, run (step ex_cfg) init ex_run = Some s /\ s_close s = ClReturned /\
            map c_ph (s_calls s) = [CReturned RNil; CReturned (RErr EClosed); CReturned (RErr EClosed)] /\
            s_wg s = 0 /\ length (s_pws s) = 1.
Proof.
  eexists. split; [vm_compute; reflexivity|]. split; [vm_compute; reflexivity|].
  split; [vm_compute; reflexivity|]. split; vm_compute; reflexivity.
Qed.

(* ======================================================================================
   Reader / ConsumerGroup / Transport half of C09.
   Model: Model/Lifecycle.v — the kafka.Reader shell of /repo/reader.go (closed, stctx/stop, done,
   join, msgs, commits, runError, the run(cg) loop, subscribe/unsubscribe, commitLoop, the partition
   reader goroutines of start, readLag), the ConsumerGroup.run goroutine and the functions started on
   its generations (/repo/consumergroup.go), and the two context-aware waits of a Transport round
   trip (/repo/transport.go connPool.roundTrip, async.await).  A run is
   [run step (init c) ls = Some s] for an arbitrary label sequence: every interleaving of any
   number of Close calls with in-flight and newly arriving FetchMessage / ReadMessage /
   CommitMessages calls, rebalances in progress, and every outcome (answer, error, time-out,
   refused dial) of every network exchange.  From here on the names step, init, state, label, …
   are those of Model/Lifecycle.v.

   Classes of labels:
     is_env l     a user decision: a new call, a context ending, a new Close call, SetOffset
     is_clock l   the firing of a PERIODIC ticker (heartbeat, CommitInterval, ReadLagInterval)
     is_race s l  a select takes another ready branch although its cancellation branch
                  (<-ctx.Done(), <-r.stctx.Done(), <-cg.done, <-gen.done) is ready too
     progress s l = none of the three: a step a goroutine, the broker or a one-shot timer takes

   Three former defects of this half are fixed in /repo and the model mirrors the fixed code
   (their schedules are kept as regressions, C09_r_regressions, and replayed on the implementation
   by ops det / cac / nlv of harness/cmd/c09r):
     43be141  FetchMessage returns io.EOF as soon as r.closed is set (buffered messages are dropped)
     0aeb2fd  CommitMessages checks r.stctx first (non-blocking) and also while waiting for the result
     da142dd  joinGroup keeps the member id on every error, so run leaves the group with it
   ====================================================================================== *)
From KV Require Import Model.Lifecycle Proofs.LifecycleBase Proofs.LifecycleSafe Proofs.LifecycleGen
  Proofs.LifecyclePost Proofs.LifecycleCalls Proofs.LifecycleLive Proofs.LifecycleVariant.

(* ---- C09_ctx: FetchMessage / ReadMessage (in the select on r.msgs, and in the two selects of the
   commit that ReadMessage performs), CommitMessages (both selects) and a Transport round trip
   (waiting for the pool to be ready, awaiting the promise): in EVERY state — reachable or not, no
   other precondition — the context may end (LCtx c) and the step after it, the return of the call
   with the context's error (LRetCtx c: result RCtx), is enabled. ---- *)
Theorem C09_ctx : forall s c k, panicked s = false ->
  nth_error (calls s) c = Some k -> blocked (k_ph k) = true -> k_ctx k = false ->
  exists s1 s2, step s (LCtx c) = Some s1 /\ step s1 (LRetCtx c) = Some s2 /\
    nth_error (calls s2) c = Some (mkCall (k_kind k) true (PDone RCtx)) /\
    hist s2 = ERet c RCtx :: ECtx c :: hist s.
Proof. exact ctx_proof. Qed.
Print Assumptions C09_ctx.

Theorem C09_ctx_already_ended : forall s c k, panicked s = false ->
  nth_error (calls s) c = Some k -> blocked (k_ph k) = true -> k_ctx k = true ->
  step s (LRetCtx c) = Some (ret c k RCtx s).
Proof. exact ctx_already_proof. Qed.
Print Assumptions C09_ctx_already_ended.

(* ---- C09_r_after_close, full strength.  In every run, every call that BEGAN after some Close
   call had returned ([call_info i (hist s)] = (kind, true, _)):
   * its return event is io.EOF for FetchMessage, for ReadMessage the error
     fmt.Errorf("fetching message: %w", io.EOF) (result class REOF = errors.Is(err, io.EOF)), and
     io.ErrClosedPipe for CommitMessages of a group Reader (without a GroupID CommitMessages returns
     errOnlyAvailableWithGroup before and after Close: class ROther) — first conjunct, the monitor
     [mon_after_close] that is also run on the implementation's timelines;
   * while it exists it is never blocked in a select, never at the select that enqueues into
     r.commits (so nothing is enqueued), never delivers a message: it is at the head of
     FetchMessage's loop, at CommitMessages' non-blocking closed check, or has returned; and from
     those two points the ONLY step of the call is the return with io.EOF / io.ErrClosedPipe, which
     is enabled (no wait, not even for its context). ---- *)
Theorem C09_r_after_close : forall c ls s, run step (init c) ls = Some s ->
  mon_after_close (c_group c) (hist s) = true /\
  (forall i k late pre, nth_error (calls s) i = Some k -> call_info i (hist s) = Some (k_kind k, late, pre) ->
     late = true -> k_kind k <> KTrip ->
     blocked (k_ph k) = false /\ k_ph k <> PCSelect /\
     (k_ph k = PFLock \/ k_ph k = PCCheck \/ exists r, k_ph k = PDone r) /\
     (k_ph k = PFLock -> step s (LFLock i) = Some (ret i k REOF s)) /\
     (k_ph k = PCCheck -> step s (LCCheck i) = Some (ret i k RClosedPipe s))).
Proof. exact after_close_full_proof. Qed.
Print Assumptions C09_r_after_close.

(* the state once a Close call has returned, also for the calls that were already in flight: the
   Reader is marked closed, r.stctx is cancelled, every partition reader has exited (r.msgs never
   grows again), r.runError can no longer fire; a FetchMessage still in its select returns io.EOF
   once the queue is empty and closed; for a CommitMessages in a select the io.ErrClosedPipe
   branch is ready *)
Theorem C09_r_after_close_state : forall c ls s, run step (init c) ls = Some s -> close_returned s = true ->
  closed s = true /\ stctx s = true /\ all_exited s = true /\
  (forall l s', step s l = Some s' -> length (msgs s') <= length (msgs s)) /\
  (forall i, step s (LFRunErr i) = None) /\
  (forall i k v, nth_error (calls s) i = Some k -> k_ph k = PFSelect v -> msgs s = [] -> mclosed s = true ->
     step s (LFEof i) = Some (ret i k REOF s)) /\
  (forall i k, nth_error (calls s) i = Some k -> k_ph k = PCSelect ->
     step s (LCClosed i) = Some (ret i k RClosedPipe s) /\ (croom s = false -> step s (LCEnq i) = None)).
Proof. exact after_close_state_proof. Qed.
Print Assumptions C09_r_after_close_state.

(* ---- C09_r_close_no_stuck: in every reachable state in which a Close call waits (r.join.Wait()
   or <-r.done) some goroutine has an enabled PROGRESS step: the Close call itself, a partition
   reader (its context is cancelled), Reader.run, ConsumerGroup.run, or a function of the
   generation being closed. ---- *)
Theorem C09_r_close_no_stuck : forall c ls s, run step (init c) ls = Some s -> close_waits s = true ->
  exists l, progress s l = true /\ step s l <> None.
Proof. exact close_no_stuck_proof. Qed.
Print Assumptions C09_r_close_no_stuck.

(* Close's first three statements (mark closed, r.cancel(), r.stop()) are always enabled, and from
   r.join.Wait() on the state is [stopping] *)
Theorem C09_r_close_begins : forall c ls s, run step (init c) ls = Some s ->
  (forall k p, nth_error (closers s) k = Some p -> crank p <= 2 ->
     progress s (LCloseStep k) = true /\ step s (LCloseStep k) <> None) /\
  (cl_at 3 s -> stopping s = true).
Proof. exact close_begins_proof. Qed.
Print Assumptions C09_r_close_begins.

(* ---- C09_r_close_variant.  The statement of the design — a measure that strictly decreases on
   EVERY non-environment step after Close started — is kept below as a Definition; it is NOT a
   property of this (or any reasonable) implementation, so the partiality is inherent and not a
   gap of the proof: a heartbeat tick answered OK leaves the control state unchanged for as long
   as the generation lives (periodic tickers are meant to recur), and Go's select chooses
   uniformly among ready branches, so e.g. cg.Next may hand out one more generation although
   r.stctx is already cancelled (probability 1/2 each time, never forever).  Proved, for EVERY state
   (reachable or not) in which r.stop() has been executed: every PROGRESS step strictly decreases
   the measure [mu] (Proofs/LifecycleVariant.v: weighted sum of the remaining control points of
   every Close call, partition reader, caller, Reader.run, ConsumerGroup.run, generation function,
   readLag goroutine, plus 2 per queued message and 9 per queued commit request), and [stopping]
   is stable.  With C09_r_close_no_stuck / C09_r_close_begins: in every run in which progress steps
   are taken whenever enabled (weak fairness), ticks are finite per unit of time (clock driven)
   and a select with a ready cancellation branch eventually takes it, every Close call returns.
   Wall-clock bounds are outside the model. ---- *)
Definition C09_r_close_variant_full_statement : Prop :=
  exists m : state -> nat, forall c ls s l s', run step (init c) ls = Some s -> closed s = true ->
    is_env l = false -> step s l = Some s' -> m s' < m s.

Theorem C09_r_close_variant_partial : forall s l s', stopping s = true -> step s l = Some s' ->
  stopping s' = true /\ (progress s l = true -> mu s' < mu s).
Proof. exact variant_partial_proof. Qed.
Print Assumptions C09_r_close_variant_partial.

(* ---- C09_r_close_post.  After a Close call has returned (the event EClosed is in the history):
   (1) silence: no Heartbeat, OffsetCommit, Fetch, JoinGroup or SyncGroup request reaches a broker
       any more (mon_silent judges every request event against its past); ---- *)
Theorem C09_r_close_post_silent : forall c ls s, run step (init c) ls = Some s -> mon_silent (hist s) = true.
Proof. exact silent_holds. Qed.
Print Assumptions C09_r_close_post_silent.

(* (2) leave, strict: at every Close return, the member id the coordinator handed out last
       ([EJoined m], however many JoinGroup requests — successful or failed — followed) has been the
       subject of a LeaveGroup attempt since: the request was sent ([EReq ALeave m]) or the
       coordinator could not be reached for it ([ELeaveUnreach m]).  [mstat h] = that member id if
       no such attempt followed it, else 0. *)
Theorem C09_r_close_post_leave : forall c ls s, run step (init c) ls = Some s -> mon_leave (hist s) = true.
Proof. exact leave_holds. Qed.
Print Assumptions C09_r_close_post_leave.

(* (3) registry: every goroutine Close accounts for (partition readers, Reader.run,
       ConsumerGroup.run, every ACCOUNTED generation function: heartbeat, commitLoop, unsubscribe
       waiter) has ended and every connection they held is closed.  What may still run are
       functions Generation.Start launched on an already closed generation (unaccounted by the
       code), the readLag goroutines (never joined by Close) and the helper goroutine of a leader
       lookup (Dialer.LookupPartition) that was abandoned because its context ended — but no lookup
       CONNECTION is open any more (no ILookup): LookupPartition closes it on every way out of the
       FUNCTION, which is also what lets the orphaned helper end (LInExit); without ReadLagInterval no
       connection at all is open. *)
Theorem C09_r_close_post_registry : forall c ls s, run step (init c) ls = Some s -> close_returned s = true ->
  live_acc s = 0 /\
  live s = unacc_live s + lag_live (lag s) + count (fun i => negb (idone i)) (inners s) /\
  conns s = count iconn (inners s) /\
  (forall j, nth_error (inners s) j <> Some ILookup) /\
  (c_lag c = false -> live s = unacc_live s + count (fun i => negb (idone i)) (inners s) /\ conns s = 0).
Proof. exact close_post_registry. Qed.
Print Assumptions C09_r_close_post_registry.

(*     and those stragglers are finite (C09_r_close_variant_partial) and leave nothing behind:
       when no goroutine has a step of its own left, the live-goroutine set and the
       open-connection set are empty *)
Theorem C09_r_close_post_quiescent : forall c ls s, run step (init c) ls = Some s -> close_returned s = true ->
  (forall l, is_env l = false -> step s l = None) -> live s = 0 /\ conns s = 0.
Proof. exact close_post_quiescent_proof. Qed.
Print Assumptions C09_r_close_post_quiescent.

(* (4) r.msgs is closed at most once in every run (any number of concurrent Close calls), closing
       it never panics, and exactly once when every Close call has returned *)
Theorem C09_r_close_post_msgs_once : forall c ls s, run step (init c) ls = Some s ->
  panicked s = false /\ msgs_closes (hist s) <= 1 /\
  (mclosed s = true <-> msgs_closes (hist s) = 1) /\
  (close_returned s = true -> (forall k p, nth_error (closers s) k = Some p -> p = CLRet) -> msgs_closes (hist s) = 1).
Proof. exact close_post_msgs. Qed.
Print Assumptions C09_r_close_post_msgs_once.

(* (5) a generation is joined before the group moves on — ALSO when it ended on its own.  The
       self-termination path is in the model: a failed heartbeat (LHbTick f false) or any returning
       function puts the function into NRet, its exit handler (LFnHandler) closes gen.done, run
       takes <-gen.done (LGWaitDone, why = WEnded) and calls gen.close() (LGClose: closing done is
       then a no-op) which still waits for every ACCOUNTED function (GCloseWait until acc_exited).
       Hence: the generation's coordinator connection is closed (nextGeneration's deferred
       conn.Close(): g_conn = false), and a new JoinGroup can be sent (no current generation), only
       when every accounted function of it has run its exit handler; while one has not,
       gen.close() cannot return.  With C09_r_close_post_registry: nothing accounted outlives
       Close.  The abstraction "gen.close() waits" is C15_accounting over Model/ConsumerGroup.v; that
       Generation.close has ONE way out (a single section of g.lock followed by <-g.joined) is
       skeleton assumption R19 (reader_assumptions, checked against /repo's current source by
       C09_reader_skeleton_assumptions below). *)
Theorem C09_r_generation_joined : forall c ls s, run step (init c) ls = Some s ->
  (forall k g, nth_error (gens s) k = Some g -> g_conn g = false ->
     acc_exited k s = true /\ g_done g = true /\ cur_gen (gph s) <> Some k) /\
  (cur_gen (gph s) = None -> forall k g, nth_error (gens s) k = Some g ->
     acc_exited k s = true /\ g_conn g = false /\ g_done g = true) /\
  (forall k w, gph s = GCloseWait k w -> acc_exited k s = false -> step s LGJoined = None).
Proof. exact generation_joined_proof. Qed.
Print Assumptions C09_r_generation_joined.

(* (6) the dial path of a partition reader (reader.initialize -> Dialer.DialLeader -> LookupPartition):
       LFDial opens the lookup connection and starts the helper goroutine that reads the partitions
       on it WITHOUT a deadline (ILookup); the function leaves through the answer / an error
       (LFLookup) or through <-ctx.Done() (LFSeeCancel) and closes the connection on each of these
       ways out.  Invariant: an open lookup connection always belongs to a partition reader that is
       still inside LookupPartition — so none survives the function, whatever the broker does
       (silent after accept, after ApiVersions, after the request, mid-response). *)
Theorem C09_r_lookup_conn_owned : forall c ls s, run step (init c) ls = Some s ->
  forall j, nth_error (inners s) j = Some ILookup ->
    exists i f, nth_error (fetchers s) i = Some f /\ f_ph f = FLookup j.
Proof. exact inv8_reach. Qed.
Print Assumptions C09_r_lookup_conn_owned.

(* ---- regressions of the three former defects (schedules in Model/Lifecycle.v): a FetchMessage
   after Close with a message still buffered returns io.EOF and leaves the buffer alone; a
   CommitMessages after Close returns io.ErrClosedPipe and r.commits stays empty; after a failed
   re-join the member id is kept, LeaveGroup is sent for it and only then is it cleared. ---- *)
Theorem C09_r_regressions :
  (exists s, run step (init (cfg_p 4)) wit_fetch_buffered = Some s /\ close_returned s = true /\
     map k_ph (calls s) = [PDone RMsg; PDone REOF] /\ msgs s = [1] /\ C09R_holds false (hist s) = true) /\
  (exists s, run step (init (cfg_g true 4)) wit_commit_enqueued = Some s /\ close_returned s = true /\
     map k_ph (calls s) = [PDone RClosedPipe] /\ commits s = [] /\ live s = 0 /\ C09R_holds true (hist s) = true) /\
  (exists s, run step (init (cfg_g true 4)) wit_no_leave = Some s /\ close_returned s = true /\ live s = 0 /\
     C09R_holds true (hist s) = true /\ In (EJoined 1) (hist s) /\ In (EReq ALeave 1) (hist s) /\ mid s = None).
Proof. exact after_close_regressions_proof. Qed.
Print Assumptions C09_r_regressions.

(* ---- non-vacuity: group Reader, synchronous commits, ReadLag off: join, generation handed to
   Reader.run, one partition reader with a batch of 1, ReadMessage (fetch + commit acknowledged),
   a FetchMessage blocked on the empty queue, a heartbeat, TWO concurrent Close calls; the blocked
   call gets io.EOF, LeaveGroup is sent, everything is gone, a late FetchMessage gets io.EOF. ---- *)
Definition exr_run : list label :=
  join_ok ++ [LRNextCall; LRNextGen; LRSub 1; LRStartC; LRStartU;
   LFDial 0 DOk; LFLookup 0 DOk; LFOffsets 0 DOk; LFFetch 0; LFResp 0 (FData 1); LFPush 0; LFBatchEnd 0 false;
   LCall KRead; LFLock 0; LFRecv 0; LCCheck 0; LCEnq 0; LClTake 1; LClCommit 1 true; LCReply 0;
   LCall KFetch; LFLock 1; LHbTick 0 true;
   LCloseCall; LCloseCall; LCloseStep 0; LCloseStep 1; LCloseStep 0; LCloseStep 0; LCloseStep 1; LCloseStep 1;
   LFSeeCancel 0; LCloseStep 0; LCloseStep 1;
   LRNextCall; LRNextCtx; LRCgClose; LGWaitClosed; LGClose;
   LFnSeeDone 0; LFnHandler 0; LFnSeeDone 1; LFnHandler 1; LFnSeeDone 2; LUnCancel 2; LUnJoin 2; LFnHandler 2;
   LGJoined; LGLeaveCoord true; LGLeaveReq; LRCgWait; LRDone;
   LCloseStep 1; LCloseStep 1; LCloseStep 0; LCloseStep 0; LFEof 1;
   LCall KFetch; LFLock 2].
Example C09_r_nonvacuous :
  option_map (fun s => (map k_ph (calls s), closers s, live s, conns s, msgs_closes (hist s),
                        C09R_holds true (hist s),
                        existsb (fun e => match e with EReq ALeave 1 => true | _ => false end) (hist s),
                        existsb (fun e => match e with EReq AHb 1 => true | _ => false end) (hist s),
                        existsb (fun e => match e with EReq ACommit 1 => true | _ => false end) (hist s)))
             (run step (init (cfg_g true 4)) exr_run)
  = Some ([PDone RMsg; PDone REOF; PDone REOF], [CLRet; CLRet], 0, 0, 1, true, true, true, true).
Proof. vm_compute. reflexivity. Qed.

(* ---- the synchronisation skeleton the Writer model assumes (which Go critical section each
   label of Model/Writer.v stands for: Model/SkeletonAssumptions.v, writer_assumptions) holds
   of /repo's CURRENT source: facts regenerated by harness/cmd/vskel on every run. *)
From KV Require Model.SkeletonAssumptions Gen.Skeleton Proofs.SkeletonWriter.
Theorem C09_skeleton_assumptions :
  KV.Model.SkeletonAssumptions.writer_assumptions_hold KV.Gen.Skeleton.calls KV.Gen.Skeleton.accesses = true.
Proof. exact KV.Proofs.SkeletonWriter.writer_skeleton_ok. Qed.
Print Assumptions C09_skeleton_assumptions.

(* ---- Transport half, connection life cycle of a connGroup (Model/TransportConnect.v: grabConnOrConnect
   and its connect helper, grabConn, releaseConn, idle timer, closeIdleConns, the release in conn.run).
   A connection is in set-up, in use, pooled, closed — nowhere else: in a closed group
   (CloseIdleConnections / Writer.Close of an owned Transport) nothing is pooled, and once no set-up
   and no request is in progress any more every connection that was ever set up is closed; in
   particular a set-up that completes after its requester left is pooled while the group is open and
   closed when it is not (the helper's  if !g.releaseConn(c) { c.close() }). ---- *)
From KV Require Model.TransportConnect Proofs.TransportConnectProofs.
Theorem C09_t_closed_group_holds_nothing : forall ls s,
  run KV.Model.TransportConnect.tc_step KV.Model.TransportConnect.tc_init ls = Some s ->
  (KV.Model.TransportConnect.tc_closed s = true ->
     forall i, nth_error (KV.Model.TransportConnect.tc_conns s) i <> Some KV.Model.TransportConnect.TPooled) /\
  (KV.Model.TransportConnect.tc_closed s = true ->
     forallb (fun c => negb (KV.Model.TransportConnect.tc_active c)) (KV.Model.TransportConnect.tc_conns s) = true ->
     forallb (fun c => negb (KV.Model.TransportConnect.tc_open c)) (KV.Model.TransportConnect.tc_conns s) = true).
Proof. exact KV.Proofs.TransportConnectProofs.tc_closed_pool_proof. Qed.
Print Assumptions C09_t_closed_group_holds_nothing.

Theorem C09_t_late_setup_pooled_or_closed : forall ls s i,
  run KV.Model.TransportConnect.tc_step KV.Model.TransportConnect.tc_init ls = Some s ->
  nth_error (KV.Model.TransportConnect.tc_conns s) i = Some (KV.Model.TransportConnect.TSetup false) ->
  KV.Model.TransportConnect.tc_step s (KV.Model.TransportConnect.TSetupOk i) =
    Some (KV.Model.TransportConnect.tc_set i
            (if KV.Model.TransportConnect.tc_closed s then KV.Model.TransportConnect.TClosed
             else KV.Model.TransportConnect.TPooled) s).
Proof. exact KV.Proofs.TransportConnectProofs.tc_late_setup_proof. Qed.
Print Assumptions C09_t_late_setup_pooled_or_closed.

(* a connection that serves a request is bounded by that request's deadline (TDeadline), whether or not its
   requester is still waiting and whether or not the group has been closed meanwhile; the obligation behind
   the label — the connRequest carries the context whose deadline bounds the request: the caller's in
   sendRequest, the per-refresh WithTimeout context (not the pool context) in connPool.discover — is
   stated at the step in Model/TransportConnect.v and replayed by the refresh-silent scenarios *)
Theorem C09_t_busy_connection_bounded : forall ls s i,
  run KV.Model.TransportConnect.tc_step KV.Model.TransportConnect.tc_init ls = Some s ->
  nth_error (KV.Model.TransportConnect.tc_conns s) i = Some KV.Model.TransportConnect.TBusy ->
  KV.Model.TransportConnect.tc_step s (KV.Model.TransportConnect.TDeadline i) =
    Some (KV.Model.TransportConnect.tc_set i KV.Model.TransportConnect.TClosed s) /\
  (KV.Model.TransportConnect.tc_closed s = true ->
   KV.Model.TransportConnect.tc_step s (KV.Model.TransportConnect.TRelease i) =
     Some (KV.Model.TransportConnect.tc_set i KV.Model.TransportConnect.TClosed s)).
Proof. exact KV.Proofs.TransportConnectProofs.tc_busy_bounded_proof. Qed.
Print Assumptions C09_t_busy_connection_bounded.

(* ---- the synchronisation skeleton the model assumes (which Go critical section / channel operation each step of Model/Lifecycle.v, Model/GroupReader.v, Model/ReaderModel.v stands for, reader_assumptions: Model/SkeletonAssumptions.v)
   holds of /repo's CURRENT source: call/access facts regenerated by harness/cmd/vskel on every run. *)
From KV Require Model.SkeletonAssumptions Gen.Skeleton Proofs.SkeletonReader.
Theorem C09_reader_skeleton_assumptions :
  KV.Model.SkeletonAssumptions.reader_assumptions_hold KV.Gen.Skeleton.calls KV.Gen.Skeleton.accesses = true.
Proof. exact KV.Proofs.SkeletonReader.reader_skeleton_ok. Qed.
Print Assumptions C09_reader_skeleton_assumptions.

(* ---- who closes a connection (lifecycle_assumptions L1, L2 of Model/SkeletonAssumptions.v): the lookup
   connection of Dialer.LookupPartition(s) is closed by a defer of the function itself; the connect helper of
   grabConnOrConnect closes a connection it can neither hand over nor pool — of /repo's CURRENT source. *)
From KV Require Proofs.SkeletonLifecycle.
Theorem C09_lifecycle_skeleton_assumptions :
  KV.Model.SkeletonAssumptions.lifecycle_assumptions_hold KV.Gen.Skeleton.calls KV.Gen.Skeleton.accesses = true.
Proof. exact KV.Proofs.SkeletonLifecycle.lifecycle_skeleton_ok. Qed.
Print Assumptions C09_lifecycle_skeleton_assumptions.
