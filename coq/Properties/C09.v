(* Properties/C09.v — Close, use-after-close and termination: the kafka.Writer half of C09.
   Only statements; every proof is [exact <lemma>].  Model: Model/Writer.v; a run is
   [run (step cfg) init ls = Some s] for an arbitrary label sequence (every interleaving of
   Close with in-flight and newly arriving calls, batch timers, retries and back-off sleeps,
   and every sequence of broker reactions).

   stuck cfg s : Close waits (s_close s = ClWaiting) and no step other than an environment
   decision (a new call, a context ending) is enabled — Close can never return.
   is_env      : Call, CtxDone, CloseMark.  Every other label is a step some goroutine of
   the Writer, the broker or a timer takes on its own.

   DEFECT F3 (confirmed on the implementation by the f3 replay of harness/cmd/writer): a
   WriteMessages call that passed enter() before Close marked the writer closed, and whose
   batchMessages runs after Close emptied w.writers, creates a new partition writer; its
   sender goroutine waits on a queue nobody will close, the WaitGroup never reaches 0, Close
   never returns.  The model records this interleaving in the ghost flag s_late. *)
From Coq Require Import List NArith Bool Arith.
From KV Require Import Lib.LTS Model.Writer Proofs.WriterStmts Proofs.WriterC09.
Import ListNotations.

(* After Close has marked the writer closed, WriteMessages fails with io.ErrClosedPipe in the
   same step and changes nothing but the record of that call. *)
Theorem C09_w_after_close :
  forall cfg s g msgs merr s',
    closed s = true -> step cfg s (Call g msgs merr) = Some s' ->
    s' = add_call s (s_wg s) (mkCall g msgs [] (CReturned (RErr EClosed))).
Proof. exact C09_w_after_close_proof. Qed.
Print Assumptions C09_w_after_close.

(* The property at full strength: Close is never stuck, in every schedule. *)
Definition C09_w_close_no_stuck_full_statement : Prop :=
  forall cfg ls s, cfg_ok cfg -> run (step cfg) init ls = Some s -> ~ stuck cfg s.

(* It is REFUTED by the code as it is (F3): a reachable stuck state exists.  Witness (in
   Proofs/WriterC09.v, checked by vm_compute): BatchSize 1, one message;
   [Call; CloseMark; Assign 0; Timer 0 0; Get 0; Attempt 0 AppliedAcked; Finish 0; Return 0] —
   WriteMessages returns nil, the record is produced, Close waits forever. *)
Theorem C09_w_close_refuted :
  exists cfg ls s, cfg_ok cfg /\ run (step cfg) init ls = Some s /\ stuck cfg s.
Proof. exact C09_w_close_refuted_proof. Qed.
Print Assumptions C09_w_close_refuted.

Theorem C09_w_close_no_stuck_is_false : ~ C09_w_close_no_stuck_full_statement.
Proof. exact C09_w_close_no_stuck_false. Qed.
Print Assumptions C09_w_close_no_stuck_is_false.

(* Outside that interleaving Close is never stuck: in every reachable state in which Close
   waits and no batchMessages ran after CloseMark, some non-environment step is enabled
   (a timer, a sender step, a waiting call's return, or — WaitGroup at 0 — Close's return). *)
Theorem C09_w_close_no_stuck_partial :
  forall cfg ls s, run (step cfg) init ls = Some s -> s_late s = false -> s_close s = ClWaiting ->
    exists l, is_env l = false /\ step cfg s l <> None.
Proof. exact C09_w_close_no_stuck_partial_proof. Qed.
Print Assumptions C09_w_close_no_stuck_partial.

(* The WaitGroup counter is exactly the number of live accounted activities (calls between
   enter and leave, sender goroutines, awaitBatch goroutines): it never underflows and Close's
   Wait returns exactly when all of them are gone. *)
Theorem C09_w_waitgroup_exact :
  forall cfg ls s, run (step cfg) init ls = Some s ->
    s_wg s = active_calls s + alive_senders s + awaiters s.
Proof. exact C09_w_waitgroup_exact_proof. Qed.
Print Assumptions C09_w_waitgroup_exact.

(* The decision procedure used by the correspondence driver for "stuck" is sound. *)
Theorem C09_w_stuckb_sound : forall cfg s, stuckb cfg s = true -> stuck cfg s.
Proof. exact stuckb_sound_proof. Qed.
Print Assumptions C09_w_stuckb_sound.

(* Termination variant: the measure [mu] (Proofs/WriterC09.v: per call not yet assigned
   2 + #messages * (2*MaxAttempts + 5); per waiting call 1; per partition writer its live sender,
   its awaitBatch goroutines, 2*MaxAttempts + 3 per batch not yet sent, the remaining attempts
   of the batch being sent; 1 while Close waits) strictly decreases on EVERY non-environment
   step.  Hence between two environment decisions only finitely many steps happen, and with
   C09_w_close_no_stuck_partial every fair run without the late batchMessages lets Close
   return.  (Wall-clock bounds are outside the model.) *)
Theorem C09_w_close_variant :
  forall cfg ls s l s', run (step cfg) init ls = Some s -> is_env l = false ->
    step cfg s l = Some s' -> mu cfg s' < mu cfg s.
Proof. exact C09_w_variant_proof. Qed.
Print Assumptions C09_w_close_variant.

(* When Close has returned: nothing is pending anywhere (no open or queued batch, no batch
   being sent, no live sender or timer goroutine), every call has returned, and every message
   of every accepted call has been handed to the Completion callback — i.e. it was
   acknowledged or exhausted its attempts (C01_completion_once gives the outcome). *)
Theorem C09_w_close_post :
  forall cfg ls s, run (step cfg) init ls = Some s -> s_late s = false -> s_close s = ClReturned ->
    (forall p pw, nth_error (s_pws s) p = Some pw ->
       pw_curr pw = None /\ pw_queue pw = [] /\ pw_snd pw = None /\ pw_alive pw = false /\ pw_await pw = []) /\
    (forall c cl, nth_error (s_calls s) c = Some cl -> returned cl = true) /\
    (forall c cl m, nth_error (s_calls s) c = Some cl -> rejected cl = false -> In m (c_msgs cl) ->
       exists ms o, In (ms, o) (s_compl s) /\ In m ms).
Proof. exact C09_w_close_post_proof. Qed.
Print Assumptions C09_w_close_post.

(* ---- non-vacuity: Close racing a waiting call and an open batch, without the late Assign:
   the open batch is flushed by CloseMark, sent, the call returns, the sender exits, Close
   returns. *)
Definition ex_cfg : config := mkCfg 5 100 2 false (Some 0%N) (fun e => N.eqb e 7).
Definition ex_run : list label :=
  [Call 1 [mkMsg 1 None 30 0] None; Assign 0; CloseMark; Get 0; Attempt 0 (NotApplied 7%N);
   BackoffDone 0; Attempt 0 AppliedAcked; Finish 0; Timer 0 0; Return 0; SenderExit 0; CloseWaitDone;
   Call 1 [mkMsg 2 None 30 0] None].
Example C09_nonvacuous :
  exists s, run (step ex_cfg) init ex_run = Some s /\ s_late s = false /\ s_close s = ClReturned /\
            map c_ph (s_calls s) = [CReturned RNil; CReturned (RErr EClosed)] /\ s_wg s = 0.
Proof.
  eexists. split; [vm_compute; reflexivity|]. split; [vm_compute; reflexivity|].
  split; [vm_compute; reflexivity|]. split; vm_compute; reflexivity.
Qed.
