(* Properties/C03.v — Consumer group: commits never pass undelivered records; resume at the
   commit.  Only statements; every proof is [exact <lemma>] (refutations: a concrete run).
   Model: Model/GroupReader.v (atomic-step LTS of kafka.Reader in group mode + coordinator
   spec + ghost history, newest event first).  "h = h1 ++ e :: h2": h2 is the history
   strictly before event e. *)
From Coq Require Import List NArith ZArith Bool.
From KV Require Import Lib.LTS Model.GroupReader Proofs.GroupReaderBase Proofs.GroupReaderCommit
  Proofs.GroupReaderCover Proofs.GroupReaderStart.
Import ListNotations.
Open Scope Z_scope.

(* Every OffsetCommit REQUEST (accepted or not) carries, per partition, exactly 1 + the offset
   of a message this member's application passed to CommitMessages earlier (ReadMessage =
   FetchMessage; CommitMessages) — hence <= 1 + the highest such offset. *)
Theorem C03_commit_bound : forall cfg ls s, run (step cfg) init ls = Some s ->
  forall h1 r mid g offs code ap h2, st_hist s = h1 ++ EvOffsetCommit r mid g offs code ap :: h2 ->
  forall t c, In (t, c) offs ->
    exists id msgs, In (EvCommitCall r id msgs) h2 /\ In (t, c - 1) msgs.
Proof. exact commit_bound. Qed.
Print Assumptions C03_commit_bound.

(* CommitInterval = 0: when CommitMessages (call id) returns nil, then for every message
   (t,o) of the call there is, after the call and before the return, an OffsetCommit that the
   coordinator applied and acknowledged, right after which its committed offset of t
   (= the newest applied commit of the history) is >= o+1. *)
Theorem C03_sync_commit_recorded : forall cfg ls s, cfg_sync cfg = true ->
  run (step cfg) init ls = Some s ->
  forall h1 r id h2, st_hist s = h1 ++ EvCommitRet r id RNil :: h2 ->
  exists msgs, In (EvCommitCall r id msgs) h2 /\
    forall t o, In (t, o) msgs ->
      exists ha r' mid g offs hb c',
        h2 = ha ++ EvOffsetCommit r' mid g offs 0 true :: hb /\
        hist_committed (EvOffsetCommit r' mid g offs 0 true :: hb) t = Some c' /\ o + 1 <= c' /\
        exists msgs', In (EvCommitCall r id msgs') hb.
Proof. exact sync_commit_recorded. Qed.
Print Assumptions C03_sync_commit_recorded.

(* Each generation's OffsetFetch answers the coordinator's committed offset at that moment
   (-1 when none), the assignment starts there or at StartOffset when there is none, and every
   partition reader is initialised from the offset its member fetched (FirstOffset -> log
   start, LastOffset -> the high watermark at that moment). *)
Theorem C03_assignment_start : forall cfg ls s, run (step cfg) init ls = Some s ->
  (forall h1 r g t raw start h2, st_hist s = h1 ++ EvOffsetFetch r g t raw start :: h2 ->
     raw = match hist_committed h2 t with Some c => c | None => -1 end /\
     start = (if raw <? 0 then cfg_start cfg else raw)) /\
  (forall h1 r v t given resolved h2, st_hist s = h1 ++ EvReaderInit r v t given resolved :: h2 ->
     resolved = resolve_start given (hist_hw h2 t) /\
     exists g raw, In (EvOffsetFetch r g t raw given) h2).
Proof. exact assignment_start. Qed.
Print Assumptions C03_assignment_start.

Theorem C03_committed_is_history : forall cfg ls s, run (step cfg) init ls = Some s ->
  forall t, lookup (co_committed (st_co s)) t = hist_committed (st_hist s) t.
Proof. exact committed_is_history. Qed.
Print Assumptions C03_committed_is_history.

(* StartOffset = FirstOffset: every OffsetCommit request (a fortiori every acknowledged one)
   for (t, c) is preceded by a delivery (FetchMessage return, to some member) of every record
   0 <= x < c of t.  Holds for arbitrary assignments (even overlapping ones), rebalances,
   evictions, coordinator faults, stale queued messages and stale commits. *)
Theorem C03_delivered_before_covered : forall cfg ls s, cfg_start cfg = FirstOffset ->
  run (step cfg) init ls = Some s ->
  forall h1 r mid g offs code ap h2, st_hist s = h1 ++ EvOffsetCommit r mid g offs code ap :: h2 ->
  forall t c, In (t, c) offs -> forall x, 0 <= x < c -> exists r' v, In (EvDeliver r' v t x) h2.
Proof. exact delivered_before_covered. Qed.
Print Assumptions C03_delivered_before_covered.

Theorem C03_committed_covered : forall cfg ls s, cfg_start cfg = FirstOffset ->
  run (step cfg) init ls = Some s ->
  forall t c, lookup (co_committed (st_co s)) t = Some c ->
  forall x, 0 <= x < c -> exists r' v, In (EvDeliver r' v t x) (st_hist s).
Proof. exact committed_covered. Qed.
Print Assumptions C03_committed_covered.


(* Generation end with requests still queued in Reader.commits (sync mode): the ctx.Done branch
   FIRST drains the queue into the stash and THEN commits; every drained request waits for that
   final commit and the commit carries an offset >= each of its commits.  Together with
   C03_sync_commit_recorded (which covers every nil answer, including those of the final
   commit): a request answered nil after the generation ended is covered by a recorded
   OffsetCommit. *)
Theorem C03_final_commit_drains_first : forall cfg s r s', cfg_sync cfg = true ->
  step cfg s (LLoopFinal r) = Some s' ->
  exists ws,
    rd_loop (st_rd s' r) = CLBusy ws commitRetries true 0 /\
    rd_commits (st_rd s' r) = [] /\
    forall rq, In rq (rd_commits (st_rd s r)) ->
      In (cq_id rq) ws /\
      forall t c, In (t, c) (cq_commits rq) ->
        exists c', lookup (rd_stash (st_rd s' r)) t = Some c' /\ c <= c'.
Proof. exact final_drains_then_commits. Qed.
Print Assumptions C03_final_commit_drains_first.

(* ---- StartOffset = LastOffset: REFUTED.  A generation that ends without a commit leaves
   no committed offset, the next generation restarts at the THEN-latest offset: the records
   appended in between (>= the first start offset) are skipped, and the next acknowledged
   commit covers them. *)
Definition cfg_last : config := {| cfg_sync := true; cfg_start := LastOffset |}.
Definition tp0 : tp := (0%N, 0%N).
Definition witness_last : list label :=
  [LAppend tp0; LJoinSync 0 true [tp0]; LOffsetFetch 0; LSubscribe 0; LReaderInit 0 tp0;
   LGenEnd 0; LUnsubscribe 0; LLoopFinal 0; LLoopAttempt 0 NoFault; LGenClose 0;
   LAppend tp0; LAppend tp0;
   LJoinSync 0 true [tp0]; LOffsetFetch 0; LSubscribe 0; LReaderInit 0 tp0; LAppend tp0;
   LReaderEmit 0 tp0; LFetchSnap 0; LFetchRecv 0;
   LCommitCall 0 [(tp0, 3)]; LLoopRecv 0; LLoopAttempt 0 NoFault].

Theorem C03_delivered_before_covered_lastoffset_refuted :
  exists ls s h1 r mid g offs h2 t c f x,
    run (step cfg_last) init ls = Some s /\
    st_hist s = h1 ++ EvOffsetCommit r mid g offs 0 true :: h2 /\ In (t, c) offs /\
    first_start h2 t = Some f /\ f <= x < c /\
    forall r' v, ~ In (EvDeliver r' v t x) h2.
Proof.
  destruct (run (step cfg_last) init witness_last) as [s|] eqn:E; [|vm_compute in E; discriminate E].
  exists witness_last, s.
  vm_compute in E. inversion E; subst; clear E. cbn [st_hist].
  eexists [_], _, _, _, _, _, tp0, 4, 1, 1.
  split; [reflexivity|]. split; [reflexivity|]. split; [left; reflexivity|].
  split; [vm_compute; reflexivity|]. split; [split; [apply Z.le_refl|reflexivity]|].
  intros r' v H. cbn in H. repeat (destruct H as [H|H]; [discriminate H|]). exact H.
Qed.
Print Assumptions C03_delivered_before_covered_lastoffset_refuted.

(* ---- not proved: kept as full statements *)
(* gap-free delivery per (member, version, partition): each delivery is the resolved start
   of that partition reader or the successor of an earlier delivery of the same stream
   (the model's queue/version-filter invariant of Proofs/GroupReaderCover.v implies it; the
   boolean form is evaluated on every recorded and every model history) *)
Definition C03_delivery_gap_free_full_statement : Prop :=
  forall cfg ls s, run (step cfg) init ls = Some s ->
  forall h1 r v t o h2, st_hist s = h1 ++ EvDeliver r v t o :: h2 ->
    (exists given, In (EvReaderInit r v t given o) h2) \/ In (EvDeliver r v t (o - 1)) h2.

(* ---- quiescence.  The assignment of a generation is an environment label of the model, so
   the needed fact about it is an explicit hypothesis: [assignment_covers_existing existing g h]
   = every partition of the EXISTING subscribed topics appears in an assignment distributed in
   generation g (the history checker evaluates its boolean form on what the real group leader
   computed).  If moreover every member of generation g has drained the partitions assigned to
   it (reader at the high watermark, nothing queued), every stored record of those partitions
   has been delivered to some member.  Whether the members eventually drain (fairness, wall
   clock) is outside the model and is exercised by the recorded histories under watchdogs. *)
Theorem C03_quiescent_all_delivered : forall cfg ls s existing g, cfg_start cfg = FirstOffset ->
  run (step cfg) init ls = Some s ->
  assignment_covers_existing existing g (st_hist s) ->
  (forall r mid asg t, In (EvAssign r mid g asg) (st_hist s) -> In t asg -> drained s r t) ->
  forall t, In t existing -> forall x, 0 <= x < hw_of (st_hw s) t ->
    exists r' v, In (EvDeliver r' v t x) (st_hist s).
Proof. exact quiescent_all_delivered. Qed.
Print Assumptions C03_quiescent_all_delivered.

(* ---- non-vacuity: a run with two members, a rebalance moving the partition, a stale
   queued message delivered after the rebalance and committed through the new generation,
   a rejected commit (IllegalGeneration) and an accepted one; the boolean C03 predicate
   (the one the harness evaluates on recorded histories) holds on it *)
Definition cfg_first : config := {| cfg_sync := true; cfg_start := FirstOffset |}.
Definition demo : list label :=
  [LAppend tp0; LAppend tp0; LAppend tp0;
   LJoinSync 0 true [tp0]; LOffsetFetch 0; LSubscribe 0; LReaderInit 0 tp0;
   LReaderEmit 0 tp0; LReaderEmit 0 tp0; LFetchSnap 0; LFetchRecv 0;
   LCommitCall 0 [(tp0, 0)]; LLoopRecv 0; LLoopAttempt 0 NoFault;
   LFetchSnap 0;                                   (* blocked in FetchMessage with version 2 *)
   LJoinSync 1 true [tp0];                          (* member 1 joins: generation 2 *)
   LCommitCall 0 [(tp0, 0)]; LLoopRecv 0;
   LLoopAttempt 0 NoFault; LLoopAttempt 0 NoFault; LLoopAttempt 0 NoFault;  (* 3 x IllegalGeneration *)
   LGenEnd 0; LUnsubscribe 0; LLoopFinal 0; LLoopAttempt 0 NoFault; LGenClose 0;
   LOffsetFetch 1; LSubscribe 1; LReaderInit 1 tp0; LReaderEmit 1 tp0; LFetchSnap 1; LFetchRecv 1;
   LJoinSync 0 false []; LOffsetFetch 0; LSubscribe 0;
   LFetchRecv 0;                                    (* stale message (version 2, offset 1) passes the filter *)
   LCommitCall 0 [(tp0, 1)]; LLoopRecv 0; LLoopAttempt 0 NoFault].
Example C03_demo_run :
  match run (step cfg_first) init demo with
  | Some s => (C03_holds cfg_first (st_hist s) && negb (lost_b (st_hist s))
               && (Nat.leb 24 (length (st_hist s))))%bool = true
  | None => False
  end.
Proof. vm_compute. reflexivity. Qed.

Example C03_witness_last_lost :
  match run (step cfg_last) init witness_last with
  | Some s => lost_b (st_hist s) = true
  | None => False
  end.
Proof. vm_compute. reflexivity. Qed.

(* ---- the synchronisation skeleton the model assumes (which Go critical section / channel operation each step of Model/Lifecycle.v, Model/GroupReader.v, Model/ReaderModel.v stands for, reader_assumptions: Model/SkeletonAssumptions.v)
   holds of /repo's CURRENT source: call/access facts regenerated by harness/cmd/vskel on every run. *)
From KV Require Model.SkeletonAssumptions Gen.Skeleton Proofs.SkeletonReader.
Theorem C03_skeleton_assumptions :
  KV.Model.SkeletonAssumptions.reader_assumptions_hold KV.Gen.Skeleton.calls KV.Gen.Skeleton.accesses = true.
Proof. exact KV.Proofs.SkeletonReader.reader_skeleton_ok. Qed.
Print Assumptions C03_skeleton_assumptions.

(* non-vacuity of the queued-at-generation-end case: three calls on distinct partitions are
   while the loop is busy with a failing commit of the first, the other two are queued and
   the generation ends; they are drained into ONE final commit that answers both *)
Definition tp1 : tp := (0%N, 1%N).
Definition tp2 : tp := (0%N, 2%N).
Definition demo_end : list label :=
  [LAppend tp0; LAppend tp1; LAppend tp2;
   LJoinSync 0 true [tp0; tp1; tp2]; LOffsetFetch 0; LSubscribe 0;
   LReaderInit 0 tp0; LReaderInit 0 tp1; LReaderInit 0 tp2;
   LReaderEmit 0 tp0; LReaderEmit 0 tp1; LReaderEmit 0 tp2;
   LFetchSnap 0; LFetchRecv 0; LFetchSnap 0; LFetchRecv 0; LFetchSnap 0; LFetchRecv 0;
   LCommitCall 0 [(tp0, 0)]; LLoopRecv 0; LLoopAttempt 0 (FCode 16);
   LCommitCall 0 [(tp1, 0)]; LCommitCall 0 [(tp2, 0)];
   LGenEnd 0; LLoopAttempt 0 NoFault;
   LLoopFinal 0; LLoopAttempt 0 NoFault].
Example C03_demo_queued_at_generation_end :
  match run (step cfg_first) init demo_end with
  | Some s =>
    match st_hist s with
    | EvCommitRet 0 1 RNil :: EvCommitRet 0 2 RNil :: EvOffsetCommit 0 _ _ offs 0 true :: _ =>
      (C03_holds cfg_first (st_hist s) && Nat.eqb (length offs) 2)%bool = true
    | _ => False
    end
  | None => False
  end.
Proof. vm_compute. reflexivity. Qed.
