(* Properties/C10.v — Types documented as goroutine-safe are free of data races.
   Only statements; every proof is [exact <lemma>].

   Structure of the argument.
   (1) C10_lockset_sound (generic, Model/DRF.v): in every trace that respects lock
       semantics and in which every access to a location is performed under the protection
       its (instance-level) policy demands, no location with a GuardedBy / RGuardedBy /
       AtomicOnly policy has a data race.
   (2) C10_discipline_sound: the type-level check [discipline_ok facts pol] on extracted
       access facts establishes that semantic condition for every trace that CONFORMS to the
       facts (each access event executes an extracted site with at least the site's
       must-hold lockset, on the lock instance belonging to the accessed object).
       Conformance is the translator's soundness: assumed, exercised by the -race runs.
   (3) C10_current_discipline: the check holds of the facts extracted from /repo's current
       source (Gen/Skeleton.v, regenerated on every run) and the policy Model/Policy.v,
       minus exactly the access sites named in Policy.exempt (known_exceptions: recorded
       defects, reported by the check, currently none; reviewed_sites: argued in Policy.v).
   (4) C10_exported_closed: no exported method of the listed types escapes the analysis. *)
From Coq Require Import List String Bool.
From KV Require Import Model.DRF Model.Policy Gen.Skeleton Proofs.DRFSound Proofs.DRFBridge Proofs.DRFPublish Proofs.DRFCurrent.
Import ListNotations.
Open Scope string_scope.

Theorem C10_lockset_sound : forall (pol : loc -> iprot) (tr : trace),
  wf_locks tr -> respects pol tr ->
  forall x, pol x <> IOther -> ~ race_on tr x.
Proof. exact lockset_sound. Qed.
Print Assumptions C10_lockset_sound.

Theorem C10_discipline_sound : forall facts pol field_of lock_inst tr,
  discipline_ok facts pol = true -> wf_locks tr -> conforms facts field_of lock_inst tr ->
  forall x, ipol pol field_of lock_inst x <> IOther -> ~ race_on tr x.
Proof. exact discipline_sound. Qed.
Print Assumptions C10_discipline_sound.

(* THE obligation a source change breaks: a Lock removed, a field read outside its mutex,
   an atomic counter turned plain, a new field without a policy entry, a new construct the
   translator cannot classify. *)
(* current_ok :=  discipline_ok checked_facts kafka          (checked_facts := without exempt accesses)
                 && fields_covered fields kafka
                 && unknowns_reviewed unknowns reviewed_unknowns
                 && handoffs_present kafka chans                        (Proofs/DRFCurrent.v) *)
Theorem C10_current_discipline : current_ok = true.
Proof. exact current_discipline. Qed.
Print Assumptions C10_current_discipline.

Theorem C10_exported_closed :
  exported_closed listed_types types_seen exported_methods functions = true.
Proof. exact current_exported_closed. Qed.
Print Assumptions C10_exported_closed.

(* (1)+(2)+(3) combined for the current source *)
Theorem C10_current_no_race : forall field_of lock_inst tr,
  wf_locks tr -> conforms checked_facts field_of lock_inst tr ->
  forall x, ipol kafka field_of lock_inst x <> IOther -> ~ race_on tr x.
Proof. exact current_no_race. Qed.
Print Assumptions C10_current_no_race.

(* The ownership-phase arguments behind WriteOnceBeforePublish and HandedOff.  Their
   hypotheses (a publication / hand-off event that happens-before every later access) are
   what these policy kinds MEAN; the syntactic check only establishes the "written on fresh
   objects only" / "a channel with a send or close and a receive exists" halves. *)
Theorem C10_publish_sound : forall tr x t0 p,
  (exists e, ev tr p = Some (t0, e)) ->
  (forall i t a, ev tr i = Some (t, a) -> acc_loc a = Some x ->
     (t = t0 /\ i < p) \/ (is_rd a = true /\ hb tr p i)) ->
  ~ race_on tr x.
Proof. exact publish_sound. Qed.
Print Assumptions C10_publish_sound.

Theorem C10_handoff_sound : forall tr x ts t1 p,
  (exists e, ev tr p = Some (ts, e)) ->
  (forall i t a, ev tr i = Some (t, a) -> acc_loc a = Some x ->
     (t = ts /\ i < p) \/ (t = t1 /\ hb tr p i)) ->
  ~ race_on tr x.
Proof. exact handoff_sound. Qed.
Print Assumptions C10_handoff_sound.

(* The full statement, of which the theorems above prove the part for the checked kinds:
   every location of every listed type is race free in every trace of every client program.
   Not proved: for WriteOnceBeforePublish and HandedOff only the phase arguments
   C10_publish_sound / C10_handoff_sound are proved (their publication hypotheses are not
   derived from the extracted facts); nothing is proved for the trusted kinds Confined /
   SelfSynchronised / LockTransferred. *)
Definition C10_full_statement : Prop :=
  forall field_of lock_inst tr,
    wf_locks tr -> conforms accesses field_of lock_inst tr ->
    forall x, ~ race_on tr x.

(* ---- non-vacuity *)
Example C10_nonvacuous_trace : wf_locks tr_ok /\ respects pol_ok tr_ok /\ ~ race_on tr_ok 5.
Proof. exact (conj tr_ok_wf (conj tr_ok_respects tr_ok_no_race)). Qed.
Example C10_nonvacuous_handoff : handed_off tr_handoff 7 0 1 2.
Proof. exact tr_handoff_ok. Qed.
Example C10_race_definable : race_on tr_racy 5.
Proof. exact tr_racy_race. Qed.
(* the shape of the F7 races fixed in /repo (a read of a mutex-guarded field with an empty
   lockset, e.g. the former Batch.Err) is rejected by the CURRENT policy *)
Example C10_unlocked_read_rejected :
  discipline_ok (mkAcc "Batch" "err" KRead "Batch.Err" [] false "batch.go:128" :: nil) kafka = false /\
  discipline_ok (mkAcc "Conn" "offset" KRead "Batch.ReadMessage" [("Batch.mutex", MW)] false "batch.go:212" :: nil) kafka = false /\
  discipline_ok (mkAcc "Reader" "version" KRead "Reader.start$1" [] false "reader.go:1211" :: nil) kafka = false /\
  discipline_ok (mkAcc "Batch" "err" KRead "Batch.Err" [("Batch.mutex", MW)] false "batch.go:128" :: nil) kafka = true.
Proof. exact current_policy_rejects_unlocked. Qed.
Example C10_discipline_discriminates :
  discipline_ok demo_good demo_pol = true /\
  discipline_ok (mkAcc "T" "a" KRead "T.Peek" [] false "t.go:6" :: demo_good) demo_pol = false.
Proof. exact (conj demo_accepts (proj1 demo_rejects)). Qed.
