(* Properties/C12.v — Transport routes requests to the right broker at a mutually supported
   version.  Only statements; every proof is [exact <lemma>] (or a [vm_compute] witness for
   the refutations and the non-vacuity examples). *)
From Coq Require Import List NArith ZArith Bool Sorted Permutation.
From KV Require Import Model.Routing Proofs.RoutingProofs Proofs.RoutingSort.
From KV Require Model.RoutingSkeleton Gen.Skeleton Proofs.SkeletonRouting.
Import ListNotations.
Open Scope Z_scope.

(* ---- version: ApiKey.SelectVersion(bmin, bmax) for a client supporting [cmin, cmax] ---- *)
Theorem C12_select_highest_common : forall cmin cmax bmin bmax,
  cmin <= cmax -> bmin <= bmax ->
  Z.max cmin bmin <= Z.min cmax bmax ->
  select_version cmin cmax bmin bmax = Z.min cmax bmax
  /\ cmin <= select_version cmin cmax bmin bmax <= cmax
  /\ bmin <= select_version cmin cmax bmin bmax <= bmax.
Proof. exact select_version_overlap. Qed.
Print Assumptions C12_select_highest_common.

(* without overlap: the client's own bound nearest to the broker's range (the broker will
   answer UNSUPPORTED_VERSION); in every case a version the client can encode *)
Theorem C12_select_no_overlap : forall cmin cmax bmin bmax,
  cmin <= cmax -> bmin <= bmax ->
  (bmax < cmin -> select_version cmin cmax bmin bmax = cmin)
  /\ (cmax < bmin -> select_version cmin cmax bmin bmax = cmax).
Proof. exact select_version_disjoint. Qed.
Print Assumptions C12_select_no_overlap.

Theorem C12_select_client_range : forall cmin cmax bmin bmax,
  cmin <= cmax -> cmin <= select_version cmin cmax bmin bmax <= cmax.
Proof. exact select_version_client. Qed.
Print Assumptions C12_select_client_range.

(* the version a connection uses for key k is SelectVersion applied to the (last) range the
   broker advertised for k in its ApiVersions response, and 0 for a key it did not advertise *)
Theorem C12_connection_version : forall client adv1 adv2 k bmin bmax,
  (forall e, In e adv2 -> fst e <> k) ->
  conn_version (negotiate client (adv1 ++ (k, (bmin, bmax)) :: adv2)) k =
  select_version (fst (lookup_range client k)) (snd (lookup_range client k)) bmin bmax.
Proof. exact negotiate_advertised. Qed.
Print Assumptions C12_connection_version.

Theorem C12_connection_version_unadvertised : forall client adv k,
  (forall e, In e adv -> fst e <> k) -> conn_version (negotiate client adv) k = 0.
Proof. exact negotiate_not_advertised. Qed.
Print Assumptions C12_connection_version_unadvertised.

(* the payload of a Produce request is encoded in the record format of the negotiated version:
   record batches (magic 2) exactly from Produce v3 on, message sets (magic 1) exactly below *)
Theorem C12_produce_record_format : forall v,
  (produce_record_version v = 2 <-> 3 <= v) /\ (produce_record_version v = 1 <-> v < 3).
Proof. exact produce_record_format. Qed.
Print Assumptions C12_produce_record_format.

(* the requests that set a connection up are negotiated like every other request: ApiVersions
   first (v0), then SaslHandshake at SelectVersion of the advertised range of key 17, then the
   raw token exchange exactly when that is 0, else SaslAuthenticate at the version negotiated
   for key 36 (C12_connection_version applies to it as to every key) *)
Theorem C12_setup_requests_negotiated : forall client adv1 adv2 bmin bmax,
  (forall e, In e adv2 -> fst e <> K_SaslHandshake) ->
  let neg := negotiate client (adv1 ++ (K_SaslHandshake, (bmin, bmax)) :: adv2) in
  let hv := select_version (fst (lookup_range client K_SaslHandshake)) (snd (lookup_range client K_SaslHandshake)) bmin bmax in
  connection_setup true neg =
  [SReq K_ApiVersions 0; SReq K_SaslHandshake hv;
   if hv =? 0 then SRawToken else SReq K_SaslAuthenticate (conn_version neg K_SaslAuthenticate)].
Proof. exact connection_setup_versions. Qed.
Print Assumptions C12_setup_requests_negotiated.

(* ---- produce / fetch / raw-produce: routed by partition leader ---- *)
(* [brokers_wf]: the Brokers map is keyed by the ID field and ids are >= 0 (see C12_layout_wf).
   Ok b  : every named topic is known and b is the broker the layout designates for EVERY
           named partition (b = Broker{ID:-1} only when no partition is named);
   Err e : e says what is wrong ([route_problem]: unknown topic, unknown partition, leader not
           among the brokers, or two named partitions with different leaders);
   and whenever something is wrong the result is an error; never a panic. *)
Theorem C12_route_leader : forall c ts, brokers_wf c ->
  (forall b, route_leader c ts = Ok b ->
     (forall t, names_topic ts t -> get_topic c t <> None)
     /\ (forall t p, names_part ts t p -> leader_of c t p = Some b)
     /\ ((forall t p, ~ names_part ts t p) -> b = no_broker))
  /\ (forall e, route_leader c ts = Err e -> route_problem c ts e)
  /\ (forall e, route_problem c ts e -> exists e', route_leader c ts = Err e')
  /\ route_leader c ts <> Panic.
Proof. exact route_leader_spec. Qed.
Print Assumptions C12_route_leader.

(* and the request then goes to that broker's connection group *)
Theorem C12_send_to_leader : forall c conns r fc b,
  route c r = Some (Ok b) -> 0 <= b_id b -> mhas Z.eqb conns (b_id b) = true ->
  send_request c conns r fc = Sent [WReq (TBroker (b_id b)) (api_of r)].
Proof. exact send_broker_message. Qed.
Print Assumptions C12_send_to_leader.

Theorem C12_send_route_error : forall c conns r fc e,
  route c r = Some (Err e) -> send_request c conns r fc = Rejected [] (RejRoute e).
Proof. exact send_route_error. Qed.
Print Assumptions C12_send_route_error.

(* ---- list-offsets: Split makes one message per named partition; each goes to the leader,
        or fails like produce/fetch when the layout knows none ---- *)
Theorem C12_listoffsets_split : forall ts,
  (forall m, In m (split_listoffsets ts) -> exists t p, m = [(t, [p])] /\ names_part ts t p)
  /\ (forall t p, names_part ts t p -> In [(t, [p])] (split_listoffsets ts)).
Proof. intro ts. split; [exact (split_listoffsets_single ts) | exact (split_listoffsets_complete ts)]. Qed.
Print Assumptions C12_listoffsets_split.

(* On every well-formed layout: an unknown topic, an unknown partition or a leader that is not
   among the brokers is the same error produce/fetch give, and otherwise the message goes to
   the partition's leader -- so Ok b holds exactly when b is the designated leader. *)
Theorem C12_route_leader_listoffsets : forall c t p rest_p rest_t,
  parts_wf c ->
  route_listoffsets c ((t, p :: rest_p) :: rest_t) =
  match get_topic c t with
  | None => Err (ENoTopic t)
  | Some tp =>
      match mget Z.eqb (t_parts tp) p with
      | None => Err (ENoPartition t p)
      | Some part =>
          match get_broker c (p_leader part) with
          | Some b => Ok b
          | None => Err (ENoLeader t p)
          end
      end
  end.
Proof. exact route_listoffsets_spec. Qed.
Print Assumptions C12_route_leader_listoffsets.

Theorem C12_route_leader_listoffsets_iff : forall c t p rest_p rest_t b,
  parts_wf c ->
  (route_listoffsets c ((t, p :: rest_p) :: rest_t) = Ok b <-> leader_of c t p = Some b).
Proof. exact route_listoffsets_ok_iff. Qed.
Print Assumptions C12_route_leader_listoffsets_iff.

(* the layout used by the remaining refutation and the examples: no controller, a leaderless partition *)
Definition refute_md : metadata :=
  {| md_controller := -1;
     md_brokers := [ {| mb_id := 0; mb_addr := 1 |}; {| mb_id := 1; mb_addr := 2 |} ];
     md_topics := [ {| mt_name := [116%N]; mt_err := 0; mt_internal := false;
                       mt_parts := [ {| mp_idx := 0; mp_err := 5; mp_leader := -1; mp_replicas := [-1; 0]; mp_isr := [-1]; mp_offline := [] |};
                                     {| mp_idx := 1; mp_err := 0; mp_leader := 1; mp_replicas := [1; 0]; mp_isr := [1]; mp_offline := [] |} ] |} ] |}.

(* ---- create-topics, delete-topics, create-partitions, ...: the controller ---- *)
Theorem C12_route_controller : forall c conns api fc b,
  get_broker c (c_controller c) = Some b -> 0 <= b_id b -> mhas Z.eqb conns (b_id b) = true ->
  route_controller c = Ok b
  /\ send_request c conns (RController api) fc = Sent [WReq (TBroker (b_id b)) api].
Proof.
  intros c conns api fc b H Hn Hc. split; [exact (route_controller_known c b H)|].
  exact (send_broker_message c conns (RController api) fc b (f_equal Some (route_controller_known c b H)) Hn Hc).
Qed.
Print Assumptions C12_route_controller.

(* REFUTED when the layout has no controller (ControllerID -1, or an id that is not among the
   brokers): no error; the request is sent to broker 0 *)
Theorem C12_route_controller_unknown_refuted :
  exists m,
    let c := make_layout (normalize m) in
    brokers_wf c /\ get_broker c (c_controller c) = None
    /\ send_request c (c_brokers c) (RController K_CreateTopics) (fun _ _ => None) = Sent [WReq (TBroker 0) K_CreateTopics].
Proof.
  exists refute_md. cbv zeta.
  split; [apply make_layout_brokers_wf; vm_compute; intros b [<-|[<-|[]]]; discriminate|].
  split; vm_compute; reflexivity.
Qed.
Print Assumptions C12_route_controller_unknown_refuted.

(* ---- group and transactional requests: a find-coordinator exchange first.  [coord ktype key]
        is how the cluster answers a lookup; group and transaction coordinator of the same
        string are in general different brokers.  A GroupMessage looks up (Group, m.Group()), a
        TransactionalMessage (Transaction, m.Transaction()): the lookup on the wire carries the
        matching key type, and the request goes to the node THAT lookup names.  An error code in
        the answer, a failed exchange, or a node without connection group fails the request
        and nothing is sent after the lookup. ---- *)
Theorem C12_route_coordinator : forall c conns coord api key,
  send_request c conns (RGroup api key) coord = via_coordinator conns coord KT_Group key api
  /\ send_request c conns (RTxn api key) coord = via_coordinator conns coord KT_Txn key api
  /\ forall kt,
      (forall a, coord kt key = Some a -> fc_err a = 0 -> 0 <= fc_node a -> mhas Z.eqb conns (fc_node a) = true ->
         via_coordinator conns coord kt key api = Sent [WFind kt key; WReq (TBroker (fc_node a)) api])
      /\ (forall a, coord kt key = Some a -> fc_err a = 0 -> 0 <= fc_node a -> mhas Z.eqb conns (fc_node a) = false ->
         via_coordinator conns coord kt key api = Rejected [WFind kt key] RejBrokerNotAvailable)
      /\ (forall a, coord kt key = Some a -> fc_err a <> 0 ->
         via_coordinator conns coord kt key api = Rejected [WFind kt key] (RejCoordinatorError (fc_err a)))
      /\ (coord kt key = None ->
         via_coordinator conns coord kt key api = Rejected [WFind kt key] RejCoordinatorLookup).
Proof.
  intros c conns coord api key. split; [reflexivity|]. split; [reflexivity|]. intro kt.
  split; [exact (via_coordinator_ok conns coord kt key api)|].
  split; [exact (via_coordinator_unknown_broker conns coord kt key api)|].
  split; [exact (via_coordinator_error conns coord kt key api) | exact (via_coordinator_failed conns coord kt key api)].
Qed.
Print Assumptions C12_route_coordinator.

(* with distinct coordinators for the same string the two kinds of request go to different brokers *)
Example C12_coordinator_key_type_example :
  let coord := fun kt (_ : name) => Some {| fc_err := 0; fc_node := if kt =? KT_Txn then 2 else 1 |} in
  let conns := [(1, {| b_id := 1; b_addr := 1 |}); (2, {| b_id := 2; b_addr := 2 |})] in
  send_request empty_cluster conns (keyed_request 13 [120%N]) coord = Sent [WFind 0 [120%N]; WReq (TBroker 1) 13]
  /\ send_request empty_cluster conns (keyed_request 22 [120%N]) coord = Sent [WFind 1 [120%N]; WReq (TBroker 2) 22].
Proof. vm_compute. split; reflexivity. Qed.

(* ---- split requests to coordinators (protocol.Splitter + GroupMessage): describe-groups ----
   A part of a split request is routed by ONE key (Group() = its first group), so the split is
   only right when every part is homogeneous: every group it names has the coordinator the
   part is sent to.  DescribeGroups.Split makes singleton parts, each requested group exactly
   once and in order; so every part is routed by EVERY group it names, for every coordinator
   assignment, and the round trip is one coordinator exchange per requested group. *)
Theorem C12_split_describegroups : forall gs,
  concat (split_describegroups gs) = gs
  /\ (forall part, In part (split_describegroups gs) -> exists g, part = [g] /\ In g gs)
  /\ (forall part g, In part (split_describegroups gs) -> In g part ->
        describegroups_request part = Some (RGroup K_DescribeGroups g))
  /\ (forall coord part, In part (split_describegroups gs) -> part_homogeneous coord part).
Proof.
  intro gs. split; [exact (split_describegroups_concat gs)|].
  split; [exact (split_describegroups_singletons gs)|].
  split; [exact (split_describegroups_routed_by_every_group gs)|].
  intros coord part. exact (split_describegroups_homogeneous coord gs part).
Qed.
Print Assumptions C12_split_describegroups.

Theorem C12_route_describegroups : forall p gs fc,
  ps_ready p = true ->
  round_trip p (QDescribeGroups gs) fc =
  RTSend (map (fun g => via_coordinator (ps_conns p) fc KT_Group g K_DescribeGroups) gs).
Proof. exact round_trip_describegroups. Qed.
Print Assumptions C12_route_describegroups.

(* which API keys take the coordinator route: every request the Kafka protocol addresses to the
   group coordinator (Heartbeat included) is a GroupMessage, every one addressed to the
   transaction coordinator is a TransactionalMessage *)
Theorem C12_coordinator_apis_classified :
  Forall (fun api => message_class api = CGroup) kafka_group_coordinator_apis
  /\ Forall (fun api => message_class api = CTxn) kafka_txn_coordinator_apis.
Proof. exact coordinator_apis_classified. Qed.
Print Assumptions C12_coordinator_apis_classified.

Theorem C12_coordinator_apis_keyed : forall key,
  Forall (fun api => keyed_request api key = RGroup api key) kafka_group_coordinator_apis
  /\ Forall (fun api => keyed_request api key = RTxn api key) kafka_txn_coordinator_apis.
Proof. exact coordinator_apis_keyed. Qed.
Print Assumptions C12_coordinator_apis_keyed.

(* everything else (metadata, find-coordinator, ...): the control connection, i.e. any broker *)
Theorem C12_route_any : forall c conns api fc, send_request c conns (ROther api) fc = Sent [WReq TControl api].
Proof. exact send_other. Qed.
Print Assumptions C12_route_any.

(* ---- the layout built by makeLayout is well-formed (what C12_route_leader assumes) ---- *)
Theorem C12_layout_wf : forall m,
  (forall b, In b (md_brokers m) -> 0 <= mb_id b) ->
  brokers_wf (make_layout m) /\ parts_wf (make_layout m) /\ c_controller (make_layout m) = md_controller m.
Proof.
  intros m H. split; [exact (make_layout_brokers_wf m H)|]. split; [exact (make_layout_parts_wf m) | reflexivity].
Qed.
Print Assumptions C12_layout_wf.

(* ---- topic-filtered metadata served from the cache ---- *)
(* [answered m n] = the entry for n in what the brokers answered (m, unsorted), with its
   partitions sorted, or an UnknownTopicOrPartition entry.  The cache is [normalize m]
   (update sorts before storing; C12_update_sorts).  Distinct topic names are needed: with
   duplicates, which of two entries a lookup returns is unspecified. *)
Theorem C12_filter_exact : forall (m : metadata) (names : list name),
  NoDup (map mt_name (md_topics m)) ->
  md_topics (filter_metadata (Some names) (normalize m)) = map (answered m) names
  /\ md_brokers (filter_metadata (Some names) (normalize m)) = isort broker_lt (md_brokers m)
  /\ md_controller (filter_metadata (Some names) (normalize m)) = md_controller m.
Proof. exact filter_exact. Qed.
Print Assumptions C12_filter_exact.

Theorem C12_filter_unfiltered : forall m, filter_metadata None m = m.
Proof. exact filter_nil_request. Qed.
Print Assumptions C12_filter_unfiltered.

(* update establishes the sortedness the binary search relies on ... *)
Theorem C12_update_sorts : forall m, NoDup (map mt_name (md_topics m)) ->
  StronglySorted (fun a b => name_ltb (mt_name a) (mt_name b) = true) (md_topics (normalize m))
  /\ Permutation (map mt_name (md_topics (normalize m))) (map mt_name (md_topics m)).
Proof. exact normalize_topics_sorted. Qed.
Print Assumptions C12_update_sorts.

(* ... and it does rely on it: on an unsorted list the lookup misses a present name *)
Theorem C12_filter_needs_sorted :
  exists topics n, In n (map mt_name topics) /\ find_metadata_topic topics n = None.
Proof. exact filter_needs_sorted. Qed.
Print Assumptions C12_filter_needs_sorted.

(* the cache hands every topic entry back untouched -- partitions with leader, replicas, ISR,
   offline replicas and error codes ride along -- or it is the Unknown entry *)
Theorem C12_filter_preserves_partition_fields : forall names m t,
  In t (md_topics (filter_metadata (Some names) m)) ->
  In t (md_topics m) \/ exists n, In n names /\ t = unknown_topic n.
Proof. exact filter_preserves_partition_fields. Qed.
Print Assumptions C12_filter_preserves_partition_fields.

(* Client.Metadata's public view of a (cached, filtered) response, field by field: the brokers
   as listed; per topic name, internal flag and error; per partition id, error, and leader /
   replicas / ISR each looked up id by id in the broker list (ISR from IsrNodes, replicas from
   ReplicaNodes) *)
Theorem C12_client_metadata_fields : forall m,
  cm_brokers (client_metadata m) = md_brokers m
  /\ map ct_name (cm_topics (client_metadata m)) = map mt_name (md_topics m)
  /\ forall t, In t (md_topics m) ->
       In (client_topic (md_brokers m) t) (cm_topics (client_metadata m))
       /\ ct_internal (client_topic (md_brokers m) t) = mt_internal t
       /\ ct_err (client_topic (md_brokers m) t) = mt_err t
       /\ map cp_id (ct_parts (client_topic (md_brokers m) t)) = map mp_idx (mt_parts t)
       /\ forall p, In p (mt_parts t) ->
            In (client_partition (md_brokers m) p) (ct_parts (client_topic (md_brokers m) t))
            /\ cp_leader (client_partition (md_brokers m) p) = cm_lookup (md_brokers m) (mp_leader p)
            /\ cp_replicas (client_partition (md_brokers m) p) = map (cm_lookup (md_brokers m)) (mp_replicas p)
            /\ cp_isr (client_partition (md_brokers m) p) = map (cm_lookup (md_brokers m)) (mp_isr p)
            /\ cp_err (client_partition (md_brokers m) p) = mp_err p.
Proof. exact client_metadata_fields. Qed.
Print Assumptions C12_client_metadata_fields.

Theorem C12_client_metadata_lookup : forall bs b,
  In b bs -> NoDup (map mb_id bs) -> cm_lookup bs (mb_id b) = b.
Proof. exact cm_lookup_unique. Qed.
Print Assumptions C12_client_metadata_lookup.

(* ---- the pool as a transition system ---- *)
(* After an update with metadata M completed, and until the next successful update (the
   labels in [mid] are requests and failed refreshes), the view is the one built from M and a
   round trip starting now is routed with make_layout M / answered from the cached M. *)
Theorem C12_follows_refresh : forall p0 pre m mid q fc,
  Forall keeps_view mid ->
  let history := pre ++ [LRefresh (Some m) None] ++ mid in
  let p := fst (pool_run p0 history) in
  view_of m p
  /\ snd (pool_run p0 (history ++ [LRequest q fc])) = snd (pool_run p0 history) ++ [round_trip p q fc]
  /\ (forall r, q = QOne r ->
        round_trip p q fc = RTSend [send_request (make_layout (normalize m)) (ps_conns p) r fc])
  /\ (forall names auto, q = QMetadata names auto ->
        round_trip p q fc =
          (if auto && has_unknown (filter_metadata names (normalize m))
           then RTSend [send_request (make_layout (normalize m)) (ps_conns p) (ROther K_Metadata) fc]
           else RTCache (filter_metadata names (normalize m)))).
Proof. exact follows_refresh. Qed.
Print Assumptions C12_follows_refresh.

Theorem C12_failed_refresh_keeps : forall p md m e,
  ps_meta p = Some md -> fst (pool_step p (LRefresh m (Some e))) = p.
Proof. exact failed_refresh_keeps. Qed.
Print Assumptions C12_failed_refresh_keeps.

(* the connection groups are exactly those of the layout's brokers, after any history of
   refreshes and requests: so a leader / controller / coordinator that the layout lists has a
   connection group (the hypothesis [mhas conns ...] of C12_send_to_leader etc.) *)
Theorem C12_conns_follow_layout : forall ls,
  let p := fst (pool_run pool_init ls) in
  forall id, mget Z.eqb (ps_conns p) id = mget Z.eqb (c_brokers (ps_layout p)) id.
Proof. exact conns_follow_layout. Qed.
Print Assumptions C12_conns_follow_layout.

(* ---- the refresh loop (discover) with its failure branches ---- *)
(* from the select both the timer (a random time below MetadataTTL) and a wake-up start a refresh *)
Theorem C12_refresh_enabled : forall s,
  d_phase s = DWaiting ->
  (exists s1, discover_step s DTimer = Some s1 /\ d_phase s1 = DFetching false /\ d_pool s1 = d_pool s)
  /\ (exists s2, discover_step s DWake = Some s2 /\ d_phase s2 = DFetching true /\ d_pool s2 = d_pool s).
Proof. exact discover_refresh_enabled. Qed.
Print Assumptions C12_refresh_enabled.

(* only the cancellation of the pool's context (pool closed) ends the loop: no answered, failed
   or timed-out exchange does *)
Theorem C12_refresh_stops_only_when_closed : forall s l s',
  discover_step s l = Some s' -> d_phase s' = DStopped -> d_ctx_err s <> None.
Proof. exact discover_stops_only_when_closed. Qed.
Print Assumptions C12_refresh_stops_only_when_closed.

(* after ANY number of refreshes that failed (i/o error), timed out (FFailed E_deadline) or could
   not connect, the next turn sends another Metadata request and an answered one installs the
   brokers' layout *)
Theorem C12_refresh_survives_failures : forall (fs : list (bool * refresh_result)) s w m,
  d_phase s = DWaiting -> d_ctx_err s = None ->
  Forall (fun f => is_failure (snd f) = true) fs ->
  exists s', discover_run s (flat_map (fun f => refresh_turn (fst f) (snd f)) fs ++ refresh_turn w (FAnswered m)) = Some s'
             /\ d_phase s' = DWaiting /\ d_ctx_err s' = None /\ view_of m (d_pool s').
Proof. exact discover_survives_failures. Qed.
Print Assumptions C12_refresh_survives_failures.

(* ---- the pool's reference count: what keeps the refresh loop running ----
   discover stops only when the pool's context is cancelled (C12_refresh_stops_only_when_closed);
   the context is cancelled by the unref that brings p.refc to 0.  Over every history of
   grabPool (found under the read lock / found by the re-check under the write lock / created),
   RoundTrip returns and CloseIdleConnections: the count covers the RoundTrips in progress plus
   the registry, so the context is not cancelled while the pool is registered or in use. *)
Theorem C12_pool_refs_cover_users : forall ls s,
  rp_run rpool_init ls = Some s ->
  rp_users s + (if rp_registered s then 1 else 0) <= rp_refs s \/ rp_created s = false.
Proof. exact pool_refs_cover_users. Qed.
Print Assumptions C12_pool_refs_cover_users.

Theorem C12_pool_alive_while_registered_or_used : forall ls s,
  rp_run rpool_init ls = Some s ->
  (rp_registered s = true \/ 0 < rp_users s) -> rp_cancelled s = false.
Proof. exact pool_alive_while_registered_or_used. Qed.
Print Assumptions C12_pool_alive_while_registered_or_used.

(* update deletes, then adds: a broker that keeps its id but is re-registered at a new address
   (or rack) is in both sets, and the id ends up mapped to the NEW connection group.  The order
   matters: adding first and deleting afterwards leaves the id without a group. *)
Theorem C12_update_moved_broker : forall p m id b_new,
  conns_ok p ->
  mget Z.eqb (c_brokers (make_layout (normalize m))) id = Some b_new ->
  mget Z.eqb (ps_conns (update p (Some m) None)) id = Some b_new.
Proof. exact update_moved_broker. Qed.
Print Assumptions C12_update_moved_broker.

Theorem C12_update_order_matters : forall (conns : list (Z * broker)) id b,
  mget Z.eqb (mset Z.eqb (mdel Z.eqb conns id) id b) id = Some b
  /\ mget Z.eqb (mdel Z.eqb (mset Z.eqb conns id b) id) id = None.
Proof. exact update_order_matters. Qed.
Print Assumptions C12_update_order_matters.

(* T13: the three grabPool steps of the model do take their reference in /repo's CURRENT source:
   every return statement of Transport.grabPool is preceded by p.ref() or constructs the pool
   (call facts of harness/cmd/vskel, regenerated on every run; Model/RoutingSkeleton.v) *)
Theorem C12_pool_reference_skeleton :
  KV.Model.RoutingSkeleton.pool_reference_assumption_holds KV.Gen.Skeleton.calls = true.
Proof. exact KV.Proofs.SkeletonRouting.pool_reference_skeleton_ok. Qed.
Print Assumptions C12_pool_reference_skeleton.

(* eight goroutines make the first use together (one creates, seven lose the race and find the
   pool by the re-check), all return: the pool is still registered and alive *)
Example C12_first_use_example :
  option_map (fun s => (rp_refs s, rp_users s, rp_registered s, rp_cancelled s))
             (rp_run rpool_init (RGrab GCreate :: repeat (RGrab GRecheck) 7 ++ repeat RDone 8))
  = Some (1, 0, true, false).
Proof. vm_compute. reflexivity. Qed.

Theorem C12_create_topics_forces_refresh : forall tr,
  forces_refresh (QOne (RController K_CreateTopics)) (RTSend [Sent tr]) = true.
Proof. exact create_topics_forces_refresh. Qed.
Print Assumptions C12_create_topics_forces_refresh.

(* ---- non-vacuity ---- *)
Definition ex_md : metadata :=
  {| md_controller := 2;
     md_brokers := [ {| mb_id := 2; mb_addr := 3 |}; {| mb_id := 0; mb_addr := 1 |}; {| mb_id := 1; mb_addr := 2 |} ];
     md_topics := [ {| mt_name := [117%N]; mt_err := 0; mt_internal := false;
                       mt_parts := [ {| mp_idx := 1; mp_err := 0; mp_leader := 2; mp_replicas := [2; 0]; mp_isr := [2]; mp_offline := [] |};
                                     {| mp_idx := 0; mp_err := 0; mp_leader := 1; mp_replicas := [1; 0]; mp_isr := [1]; mp_offline := [] |} ] |};
                    {| mt_name := [116%N]; mt_err := 0; mt_internal := false;
                       mt_parts := [ {| mp_idx := 0; mp_err := 0; mp_leader := 1; mp_replicas := [1; 0]; mp_isr := [1]; mp_offline := [] |} ] |} ] |}.

Example C12_route_example :
  let c := make_layout (normalize ex_md) in
  route_leader c [([116%N], [0]); ([117%N], [0])] = Ok {| b_id := 1; b_addr := 2 |}
  /\ route_leader c [([116%N], [0]); ([117%N], [0; 1])] = Err (EMismatch 2 1)
  /\ route_leader c [([118%N], [0])] = Err (ENoTopic [118%N])
  /\ route_leader c [([116%N], [7])] = Err (ENoPartition [116%N] 7)
  /\ route_controller c = Ok {| b_id := 2; b_addr := 3 |}.
Proof. vm_compute. repeat split; reflexivity. Qed.

Example C12_select_example :
  select_version 0 11 4 13 = 11 /\ select_version 0 11 0 7 = 7 /\ select_version 1 5 0 0 = 1
  /\ select_version 0 2 3 4 = 2 /\ select_version 3 8 3 3 = 3.
Proof. vm_compute. repeat split; reflexivity. Qed.

Example C12_filter_example :
  NoDup (map mt_name (md_topics ex_md))
  /\ map mt_name (md_topics (filter_metadata (Some [[117%N]; [120%N]; [116%N]]) (normalize ex_md)))
     = [[117%N]; [120%N]; [116%N]]
  /\ map mt_err (md_topics (filter_metadata (Some [[117%N]; [120%N]; [116%N]]) (normalize ex_md))) = [0; 3; 0].
Proof.
  split; [repeat constructor; cbn; intuition discriminate|]. vm_compute. split; reflexivity.
Qed.

Example C12_follows_example :
  let ls := [LRefresh (Some refute_md) None; LRefresh None (Some 7%N); LRefresh (Some ex_md) None;
             LRefresh None (Some 8%N); LRequest (QOne (RProduce [([116%N], [0])])) (fun _ _ => None)] in
  snd (pool_run pool_init ls) = [RTSend [Sent [WReq (TBroker 1) K_Produce]]].
Proof. vm_compute. reflexivity. Qed.

(* the former defect witnesses, now satisfying the property *)
Example C12_regression_example :
  let c := make_layout (normalize refute_md) in
  let nocoord : coord_fn := fun _ _ => None in
  send_request c (c_brokers c) (RListOffsets [([116%N], [0])]) nocoord = Rejected [] (RejRoute (ENoLeader [116%N] 0))
  /\ send_request c (c_brokers c) (RListOffsets [([120%N], [0])]) nocoord = Rejected [] (RejRoute (ENoTopic [120%N]))
  /\ send_request c (c_brokers c) (RListOffsets [([116%N], [1])]) nocoord = Sent [WReq (TBroker 1) K_ListOffsets]
  /\ send_request c (c_brokers c) (keyed_request 12 [103%N]) (fun _ _ => Some {| fc_err := 0; fc_node := 1 |})
     = Sent [WFind 0 [103%N]; WReq (TBroker 1) 12]
  /\ send_request c (c_brokers c) (keyed_request 12 [103%N]) (fun _ _ => Some {| fc_err := 15; fc_node := -1 |})
     = Rejected [WFind 0 [103%N]] (RejCoordinatorError 15).
Proof. vm_compute. repeat split; reflexivity. Qed.

(* three timed-out refreshes and an i/o error, then the brokers answer: the loop is still running
   and the new layout is in force *)
Example C12_refresh_recovery_example :
  let s0 := {| d_phase := DWaiting; d_pool := update pool_init (Some refute_md) None; d_ctx_err := None |} in
  let ls := refresh_turn false (FFailed E_deadline) ++ refresh_turn false (FFailed E_deadline)
            ++ refresh_turn true (FFailed E_deadline) ++ refresh_turn false (FFailed 9%N)
            ++ refresh_turn false (FAnswered ex_md) in
  option_map (fun s => (d_phase s, ps_layout (d_pool s))) (discover_run s0 ls)
  = Some (DWaiting, make_layout (normalize ex_md)).
Proof. vm_compute. reflexivity. Qed.
