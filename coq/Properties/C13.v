(* Properties/C13.v — Partition balancers return offered partitions and match the
   reference hashes.  Only statements; every proof is [exact <lemma>]. *)
From Coq Require Import List NArith ZArith Bool.
From KV Require Import Lib.Bits Lib.Crc Model.Balancers Spec.RefPartitioners Proofs.BalancersProofs.
Import ListNotations.

(* ---- every balancer returns one of the partitions it was offered ---- *)
Theorem C13_in_range_hash : forall s key n p s',
  (0 < n)%nat -> (Z.of_nat n < ZM31)%Z ->
  hash_step s key (offered n) = Some (p, s') -> In p (offered n).
Proof. exact hash_step_in. Qed.
Print Assumptions C13_in_range_hash.

Theorem C13_in_range_refhash : forall r key n p,
  (0 < n)%nat -> (Z.of_nat n < ZM31)%Z ->
  refhash_balance r key (offered n) = Some p -> In p (offered n).
Proof. exact refhash_in. Qed.
Print Assumptions C13_in_range_refhash.

Theorem C13_in_range_crc32 : forall cons r key ps p,
  (Z.of_nat (length ps) < ZM31)%Z -> crc32_balance cons r key ps = Some p -> In p ps.
Proof. exact crc32_balance_in. Qed.
Print Assumptions C13_in_range_crc32.

Theorem C13_in_range_murmur2 : forall cons r key ps p,
  (Z.of_nat (length ps) < ZM31)%Z -> murmur2_balance cons r key ps = Some p -> In p ps.
Proof. exact murmur2_balance_in. Qed.
Print Assumptions C13_in_range_murmur2.

Theorem C13_in_range_rr : forall s ps p s', rr_step s ps = Some (p, s') -> In p ps.
Proof. exact rr_step_in. Qed.
Print Assumptions C13_in_range_rr.

Theorem C13_in_range_lb : forall cs sz n p cs',
  (0 < n)%nat -> lb_inv cs -> lb_step cs sz (offered n) = Some (p, cs') -> In p (offered n).
Proof. exact lb_step_in. Qed.
Print Assumptions C13_in_range_lb.

(* ---- the keyed balancers are pure functions of (key, n) equal to the reference clients ---- *)
(* Hash = Sarama NewHashPartitioner: |int32(fnv1a(key))| mod n; the state is untouched. *)
Theorem C13_hash_is_sarama : forall s key n,
  bytes_ok key -> (0 < n)%nat -> (Z.of_nat n < ZM31)%Z ->
  hash_step s (Some key) (offered n) = Some (sarama_hash key (Z.of_nat n), s).
Proof. exact hash_step_pure. Qed.
Print Assumptions C13_hash_is_sarama.

(* ReferenceHash = Sarama NewReferenceHashPartitioner: (fnv1a(key) mod 2^31) mod n. *)
Theorem C13_refhash_is_sarama_reference : forall r key n,
  bytes_ok key -> (0 < n)%nat -> (Z.of_nat n < ZM31)%Z ->
  refhash_balance r (Some key) (offered n) = Some (sarama_refhash key (Z.of_nat n)).
Proof. exact refhash_pure. Qed.
Print Assumptions C13_refhash_is_sarama_reference.

(* CRC32Balancer = librdkafka consistent (Consistent) / consistent_random (default):
   crc32(key) mod n indexes the offered list, unless the key is nil/empty and
   Consistent is off (then a random offered partition, see C13_in_range_crc32). *)
Theorem C13_crc32_is_librdkafka : forall cons r key ps,
  ps <> [] -> (Z.of_nat (length ps) < ZM31)%Z ->
  (key_bytes key <> [] \/ cons = true) ->
  crc32_balance cons r key ps =
  Some (nthZ ps (Z.to_N (rdkafka_consistent (key_bytes key) (Z.of_nat (length ps))))).
Proof. exact crc32_is_librdkafka. Qed.
Print Assumptions C13_crc32_is_librdkafka.

(* Murmur2Balancer = Java default partitioner: toPositive(murmur2(key)) % n, with
   Java's signed-int murmur2; nil key without Consistent is random, an empty
   non-nil key is always hashed. *)
Theorem C13_murmur2_is_java : forall cons r key ps,
  ps <> [] -> (Z.of_nat (length ps) < ZM31)%Z -> bytes_ok (key_bytes key) ->
  (key <> None \/ cons = true) ->
  murmur2_balance cons r key ps =
  Some (nthZ ps (Z.to_N (java_partition (key_bytes key) (Z.of_nat (length ps))))).
Proof. exact murmur2_is_java_partition. Qed.
Print Assumptions C13_murmur2_is_java.

Theorem C13_murmur2_hash_is_java : forall data, bytes_ok data -> u32 (java_murmur2 data) = murmur2 data.
Proof. exact murmur2_is_java. Qed.
Print Assumptions C13_murmur2_hash_is_java.

(* ---- RoundRobin: call i goes to ps[(i / ChunkSize) mod n]; the uint64 counter (after
        the fix of the 2^32 wrap, known_findings.json F6) bounds this to 2^64 calls,
        ChunkSize being a Go int is below 2^63 ---- *)
Theorem C13_rr_chunks : forall chunk ps m,
  ps <> [] -> (rr_eff_chunk chunk < ZM64)%Z -> (N.of_nat m < M64)%N ->
  exists s', rr_run m (rr_init chunk) ps =
    Some (map (fun i => nthZ ps ((N.of_nat i / Z.to_N (rr_eff_chunk chunk)) mod lenN ps)) (seq 0 m), s').
Proof. exact rr_chunks. Qed.
Print Assumptions C13_rr_chunks.

(* the same from any counter value (the harness presets it across 2^32 and 2^63) *)
Theorem C13_rr_chunks_from : forall m s ps,
  ps <> [] -> (rr_eff_chunk (rr_chunk s) < ZM64)%Z -> (rr_counter s + N.of_nat m < M64)%N ->
  rr_run m s ps =
  Some (map (fun i => nthZ ps (((rr_counter s + N.of_nat i) / Z.to_N (rr_eff_chunk (rr_chunk s))) mod lenN ps))
            (seq 0 m),
        {| rr_chunk := (if Nat.eqb m 0 then rr_chunk s else rr_eff_chunk (rr_chunk s));
           rr_counter := rr_counter s + N.of_nat m |}).
Proof. exact rr_run_spec. Qed.
Print Assumptions C13_rr_chunks_from.

(* ---- LeastBytes refines the specification "pick any partition with the fewest bytes
        routed since the partition count last changed" (no uint64 overflow) ---- *)
Theorem C13_lb_least : forall calls cs,
  lb_inv cs -> Forall (fun c => (0 < fst c)%nat) calls ->
  (forall b, In b (map snd cs) -> (b + sum_sizes calls < M64)%N) ->
  (sum_sizes calls < M64)%N ->
  exists outs cs', lb_run cs calls = Some (outs, cs') /\ lb_admissible (map snd cs) calls outs.
Proof. exact lb_run_admissible. Qed.
Print Assumptions C13_lb_least.

(* ---- non-vacuity ---- *)
Example C13_hash_example :
  hash_step (rr_init 0) (Some [104; 101; 108; 108; 111]%N) (offered 7) = Some (2%Z, rr_init 0)
  /\ bytes_ok [104; 101; 108; 108; 111]%N.
Proof. split; [vm_compute; reflexivity | repeat constructor]. Qed.

Example C13_rr_example :
  rr_run 7 (rr_init 2) [10; 20; 30]%Z = Some ([10; 10; 20; 20; 30; 30; 10]%Z, {| rr_chunk := 2; rr_counter := 7 |}).
Proof. vm_compute. reflexivity. Qed.

Example C13_lb_example :
  lb_inv [] /\ lb_run [] [(3%nat, 10%N); (3%nat, 5%N); (3%nat, 7%N); (2%nat, 1%N)] = Some ([0; 1; 2; 0]%Z, [(0%Z, 1%N); (1%Z, 0%N)]).
Proof. split; vm_compute; reflexivity. Qed.
