(* Properties/C16.v — Compression codecs are lossless, interoperable and history-independent:
   the part that is kafka-go's own logic (xerial snappy framing, Reset/pool discipline).
   Only statements; every proof is [exact <lemma>].

   The snappy block codec is a parameter [enc]/[dec]/[declen] (snappy.Encode / Decode /
   DecodedLen) constrained by five laws, hypotheses of every theorem below:
     dec (enc b) = Some b;  declen agrees with dec;  enc b <> [];
     enc b does not look like the xerial magic when it sits in the zeroed 16-byte header;
     |enc b| < 2^32 for |b| <= 2^31.
   [toy_enc]/[toy_dec] (Proofs/XerialProofs.v) satisfy them (non-vacuity, end of file). *)
From Coq Require Import List NArith Bool.
From KV Require Import Lib.Bits Model.Xerial Model.CodecPool Spec.Xerial Spec.SnappyBlock
  Proofs.XerialProofs Proofs.XerialPoolProofs Proofs.XerialSnappyProofs.
Import ListNotations.
Local Open Scope N_scope.

(* ---- C16_xerial_roundtrip, framed.  The operations on the writer are any mix [ops] of
   Write(b) and ReadFrom(r) — r any source that ends with io.EOF: arbitrary chopping of its
   Reads, (0, nil) Reads, the last bytes returned together with io.EOF or not ([op_good]) —
   the payload is the concatenation of the bytes offered ([ops_payload]).
   For every pooled writer object [pw] (None = the pool was empty) whose input-buffer capacity
   is at most 2^31, every pooled reader object [pr] and every sequence [ks] of Read buffer sizes:
   all calls and Close succeed and report the full byte counts ([ops_results]); the bytes
   emitted are magic ++ versions ++ concat (len4 (enc block_i) ++ enc block_i) for non-empty
   blocks with concat block_i = payload (nothing at all for an empty payload) — so they depend
   on the mix only through the payload and where blocks are cut; that is what the reference
   encoder of Spec/Xerial.v produces for these blocks and its decoder returns the payload; the
   Reads on that stream are exactly those of a block-buffered reader (ref_reads): what they
   deliver is a prefix of the payload and, with buffers of length >= 1 and more Reads than
   bytes, all of it followed by io.EOF ([delivered]); after ANY number of successful Reads,
   WriteTo delivers exactly the rest and returns nil ([copy_delivers]); the writer goes back
   to the pool with input[:0] and nbytes = 0. *)
Theorem C16_xerial_roundtrip :
  forall (enc : list N -> list N) (dec : list N -> option (list N)) (declen : list N -> option N),
  (forall b, dec (enc b) = Some b) ->
  (forall c b, dec c = Some b -> declen c = Some (len_N b)) ->
  (forall b, enc b <> []) ->
  (forall b, is_xerial_header (take_N 16 (enc b) ++ drop_N (len_N (take_N 16 (enc b))) zeros16) = false) ->
  (forall b, len_N b <= M31 -> len_N (enc b) < M32) ->
  forall (pw : option xwriter) (pr : option xreader) (ops : list wop) (ks : list N),
  Forall op_good ops -> eff_cap (pooled_cap pw) <= M31 ->
  exists blocks released,
    xw_stream enc pw true None ops
    = (released, stream_of (map enc blocks), ops_results ops, true) /\
    concat blocks = ops_payload ops /\ Forall (fun b => b <> []) blocks /\
    (ops_payload ops <> [] ->
       stream_of (map enc blocks) = ref_encode enc blocks /\
       ref_decode dec (stream_of (map enc blocks)) = Some (ops_payload ops)) /\
    (ops_payload ops = [] -> stream_of (map enc blocks) = []) /\
    snd (xr_reads dec declen (xr_open pr (stream_of (map enc blocks))) ks)
    = map of_ref (ref_reads [] blocks ks) /\
    delivered blocks (ops_payload ops) ks /\
    copy_delivers dec declen (xr_open pr (stream_of (map enc blocks))) (ops_payload ops) ks /\
    w_input released = [] /\ w_nbytes released = 0.
Proof. exact roundtrip_framed_ops. Qed.
Print Assumptions C16_xerial_roundtrip.

(* ---- the same without framing: any capacity; the stream is the single block enc payload *)
Theorem C16_xerial_roundtrip_unframed :
  forall (enc : list N -> list N) (dec : list N -> option (list N)) (declen : list N -> option N),
  (forall b, dec (enc b) = Some b) ->
  (forall c b, dec c = Some b -> declen c = Some (len_N b)) ->
  (forall b, enc b <> []) ->
  (forall b, is_xerial_header (take_N 16 (enc b) ++ drop_N (len_N (take_N 16 (enc b))) zeros16) = false) ->
  (forall b, len_N b <= M31 -> len_N (enc b) < M32) ->
  forall (pw : option xwriter) (pr : option xreader) (ops : list wop) (ks : list N),
  Forall op_good ops ->
  exists released,
    xw_stream enc pw false None ops
    = (released, match ops_payload ops with [] => [] | _ :: _ => enc (ops_payload ops) end,
       ops_results ops, true) /\
    snd (xr_reads dec declen
           (xr_open pr (match ops_payload ops with [] => [] | _ :: _ => enc (ops_payload ops) end)) ks)
    = map of_ref (ref_reads [] [ops_payload ops] ks) /\
    delivered [ops_payload ops] (ops_payload ops) ks /\
    copy_delivers dec declen
      (xr_open pr (match ops_payload ops with [] => [] | _ :: _ => enc (ops_payload ops) end))
      (ops_payload ops) ks /\
    w_input released = [] /\ w_nbytes released = 0.
Proof. exact roundtrip_unframed_ops. Qed.
Print Assumptions C16_xerial_roundtrip_unframed.

(* what [copy_delivers] says, spelled out (it is a definition of Proofs/XerialProofs.v) *)
Theorem C16_copy_delivers_meaning : forall dec declen x payload ks,
  copy_delivers dec declen x payload ks <->
  (forall x' rs, xr_reads dec declen x ks = (x', rs) -> forallb is_rdata rs = true ->
   exists x'' rest, xr_write_to dec declen x' = (x'', rest, Some None) /\ rdata rs ++ rest = payload).
Proof. exact (fun dec declen x payload ks => conj (fun H => H) (fun H => H)). Qed.
Print Assumptions C16_copy_delivers_meaning.

(* Reads then WriteTo on raw blocks and on reference streams *)
Theorem C16_unframed_copy :
  forall (enc : list N -> list N) (dec : list N -> option (list N)) (declen : list N -> option N),
  (forall b, dec (enc b) = Some b) ->
  (forall c b, dec c = Some b -> declen c = Some (len_N b)) ->
  (forall b, enc b <> []) ->
  (forall b, is_xerial_header (take_N 16 (enc b) ++ drop_N (len_N (take_N 16 (enc b))) zeros16) = false) ->
  (forall b, len_N b <= M31 -> len_N (enc b) < M32) ->
  forall (pr : option xreader) (b : list N) (ks : list N),
  copy_delivers dec declen (xr_open pr (enc b)) b ks.
Proof. exact raw_block_copy. Qed.
Print Assumptions C16_unframed_copy.

Theorem C16_reference_streams_copy :
  forall (enc : list N -> list N) (dec : list N -> option (list N)) (declen : list N -> option N),
  (forall b, dec (enc b) = Some b) ->
  (forall c b, dec c = Some b -> declen c = Some (len_N b)) ->
  (forall b, enc b <> []) ->
  (forall b, is_xerial_header (take_N 16 (enc b) ++ drop_N (len_N (take_N 16 (enc b))) zeros16) = false) ->
  (forall b, len_N b <= M31 -> len_N (enc b) < M32) ->
  forall (pr : option xreader) (blocks : list (list N)) (ks : list N),
  Forall (fun b => len_N (enc b) < M32) blocks ->
  copy_delivers dec declen (xr_open pr (ref_encode enc blocks)) (concat blocks) ks.
Proof. exact reference_stream_copy. Qed.
Print Assumptions C16_reference_streams_copy.

(* ---- the reference decoder of the snappy BLOCK format (Spec/SnappyBlock.v), the oracle the
   interoperability clause is checked against in the differential run: a Gallina function
   (total, deterministic); what it accepts has the announced length; a block that starts with
   a copy — in particular S2's "repeat" — is rejected *)
Theorem C16_snappy_strict_length : forall c b,
  snappy_block_decode c = Some b ->
  snappy_block_decoded_len c = Some (sb_length b) /\ sb_length b < 4294967296.
Proof. exact snappy_decode_length. Qed.
Print Assumptions C16_snappy_strict_length.

Theorem C16_snappy_copy_first_rejected : forall dlen tag rest fuel,
  tag mod 4 <> 0 -> sb_elements fuel (tag :: rest) [] 0 dlen = None.
Proof. exact snappy_copy_first_rejected. Qed.
Print Assumptions C16_snappy_copy_first_rejected.

(* ---- C16_unframed_readable: a raw block is read back as its content ... *)
Theorem C16_unframed_readable :
  forall (enc : list N -> list N) (dec : list N -> option (list N)) (declen : list N -> option N),
  (forall b, dec (enc b) = Some b) ->
  (forall c b, dec c = Some b -> declen c = Some (len_N b)) ->
  (forall b, enc b <> []) ->
  (forall b, is_xerial_header (take_N 16 (enc b) ++ drop_N (len_N (take_N 16 (enc b))) zeros16) = false) ->
  (forall b, len_N b <= M31 -> len_N (enc b) < M32) ->
  forall (pr : option xreader) (b : list N) (ks : list N),
  snd (xr_reads dec declen (xr_open pr (enc b)) ks) = map of_ref (ref_reads [] [b] ks).
Proof. exact read_raw_block. Qed.
Print Assumptions C16_unframed_readable.

(* ... and a stream of the reference xerial encoder with ANY chunking into blocks (empty
   blocks included) is accepted by the reference decoder and read correctly *)
Theorem C16_reference_streams_readable :
  forall (enc : list N -> list N) (dec : list N -> option (list N)) (declen : list N -> option N),
  (forall b, dec (enc b) = Some b) ->
  (forall c b, dec c = Some b -> declen c = Some (len_N b)) ->
  (forall b, enc b <> []) ->
  (forall b, is_xerial_header (take_N 16 (enc b) ++ drop_N (len_N (take_N 16 (enc b))) zeros16) = false) ->
  (forall b, len_N b <= M31 -> len_N (enc b) < M32) ->
  forall (pr : option xreader) (blocks : list (list N)) (ks : list N),
  Forall (fun b => len_N (enc b) < M32) blocks ->
  ref_decode dec (ref_encode enc blocks) = Some (concat blocks) /\
  snd (xr_reads dec declen (xr_open pr (ref_encode enc blocks)) ks) = map of_ref (ref_reads [] blocks ks) /\
  delivered blocks (concat blocks) ks.
Proof. exact reference_streams_readable. Qed.
Print Assumptions C16_reference_streams_readable.

(* any 8 version bytes after the magic *)
Theorem C16_reference_streams_any_version :
  forall (enc : list N -> list N) (dec : list N -> option (list N)) (declen : list N -> option N),
  (forall b, dec (enc b) = Some b) ->
  (forall c b, dec c = Some b -> declen c = Some (len_N b)) ->
  (forall b, enc b <> []) ->
  (forall b, is_xerial_header (take_N 16 (enc b) ++ drop_N (len_N (take_N 16 (enc b))) zeros16) = false) ->
  (forall b, len_N b <= M31 -> len_N (enc b) < M32) ->
  forall (pr : option xreader) (ver : list N) (blocks : list (list N)) (ks : list N),
  length ver = 8%nat -> Forall (fun b => len_N (enc b) < M32) blocks ->
  snd (xr_reads dec declen (xr_open pr (xerial_magic ++ ver ++ frames (map enc blocks))) ks)
  = map of_ref (ref_reads [] blocks ks).
Proof. exact read_reference_stream. Qed.
Print Assumptions C16_reference_streams_any_version.

(* what "the reads of a block-buffered reader" deliver, independently of the code *)
Theorem C16_reads_deliver_prefix : forall ks cur blocks,
  exists n, ref_read_data (ref_reads cur blocks ks) = firstn n (cur ++ concat blocks).
Proof. exact ref_reads_prefix. Qed.
Print Assumptions C16_reads_deliver_prefix.

Theorem C16_reads_deliver_all : forall ks cur blocks,
  Forall (fun k => 0 < k) ks -> (length (cur ++ concat blocks) < length ks)%nat ->
  ref_read_data (ref_reads cur blocks ks) = cur ++ concat blocks /\
  last (ref_reads cur blocks ks) (RefData []) = RefEOF.
Proof. exact ref_reads_complete. Qed.
Print Assumptions C16_reads_deliver_all.

(* ---- C16_reset_forgets.  Reader: Reset of ANY state (e.g. left by a stream that ended in an
   error at any point) is the state of a newly built reader; Close leaves that state in the pool.
   Writer: a use of a pooled writer depends on the previous state only through the capacity of
   its input buffer (results, emitted bytes, released object: all equal), a capacity-0 object
   is a new one — and by C16_xerial_roundtrip the capacity does not change what the stream
   decodes to. *)
Theorem C16_reset_forgets_reader : forall (j1 j2 : xreader) s,
  xr_reset j1 s = xr_new s /\ xr_reset j1 s = xr_reset j2 s /\ xr_close j1 = xr_new [].
Proof. exact reader_reset_forgets. Qed.
Print Assumptions C16_reset_forgets_reader.

Theorem C16_reset_forgets_reader_open : forall (j : xreader) s, xr_open (Some j) s = xr_open None s.
Proof. exact reader_open_forgets. Qed.
Print Assumptions C16_reset_forgets_reader_open.

Theorem C16_reset_forgets_writer : forall enc (j1 j2 : xwriter) framed room ops,
  w_cap j1 = w_cap j2 ->
  xw_stream enc (Some j1) framed room ops = xw_stream enc (Some j2) framed room ops.
Proof. exact writer_reset_forgets. Qed.
Print Assumptions C16_reset_forgets_writer.

Theorem C16_reset_forgets_writer_fresh : forall enc (j : xwriter) framed room ops,
  w_cap j = 0 -> xw_stream enc (Some j) framed room ops = xw_stream enc None framed room ops.
Proof. exact writer_fresh_is_cap0. Qed.
Print Assumptions C16_reset_forgets_writer_fresh.

(* ---- C16_pool_discipline: on every path of NewReader/NewWriter/Read/Write/Close, for every
   codec side (flags [pkind]) and every choice of sync.Pool, the event trace satisfies the
   monitor: Get only of pooled objects, Use/Finish only of an object Reset (or built) since it
   was acquired, Put only of an acquired object — hence never twice without a Get between *)
Theorem C16_pool_discipline : forall (k : pkind) (acts : list pact),
  disciplined (snd (p_run k p_init acts)) = true.
Proof. exact pool_disciplined. Qed.
Print Assumptions C16_pool_discipline.

Theorem C16_pool_use_after_reset : forall k acts pre o post,
  snd (p_run k p_init acts) = pre ++ EvUse o :: post ->
  exists p1 e p2, pre = p1 ++ e :: p2 /\ (e = EvNew o \/ e = EvReset o)
                  /\ forall e', In e' p2 -> e' <> EvGet o /\ e' <> EvPut o /\ e' <> EvResetFail o.
Proof. exact pool_use_after_reset. Qed.
Print Assumptions C16_pool_use_after_reset.

Theorem C16_pool_released_at_most_once : forall k acts pre o mid post,
  snd (p_run k p_init acts) = pre ++ EvPut o :: mid ++ EvPut o :: post -> In (EvGet o) mid.
Proof. exact pool_no_double_put. Qed.
Print Assumptions C16_pool_released_at_most_once.

Theorem C16_pool_exclusive : forall k acts w w' o,
  p_wrapper (fst (p_run k p_init acts)) w = Some o ->
  p_wrapper (fst (p_run k p_init acts)) w' = Some o -> w = w'.
Proof. exact pool_exclusive. Qed.
Print Assumptions C16_pool_exclusive.

(* ---- non-vacuity: the laws are satisfiable, and a concrete run *)
Example C16_laws_satisfiable :
  (forall b, toy_dec (toy_enc b) = Some b) /\
  (forall c b, toy_dec c = Some b -> toy_declen c = Some (len_N b)) /\
  (forall b, toy_enc b <> []) /\
  (forall b, is_xerial_header (take_N 16 (toy_enc b) ++ drop_N (len_N (take_N 16 (toy_enc b))) zeros16) = false) /\
  (forall b, len_N b <= M31 -> len_N (toy_enc b) < M32).
Proof. exact (conj toy_dec_enc (conj toy_declen_dec (conj toy_nonempty (conj toy_not_magic toy_len32)))). Qed.

(* a dirty pooled writer of capacity 1030 (blocks are cut once fewer than 1024 bytes are free),
   a Write, a ReadFrom whose source chops its Reads, has a (0, nil) Read and returns its last
   bytes together with io.EOF, another Write; framed: two blocks [1..7] and [8;9]; read back
   with two Reads and then WriteTo *)
Example C16_example_run :
  let pw := Some {| w_input := [9; 9]; w_cap := 1030; w_nbytes := 77; w_framed := false |} in
  let src := {| src_data := [4; 5; 6; 7]; src_steps := [1; 0; 2]; src_eof_with_data := true; src_fails := false |} in
  let '(released, data, rs, ok) := xw_stream toy_enc pw true None [OWrite [1; 2; 3]; OReadFrom src; OWrite [8; 9]] in
  data = xerial_header_bytes ++ [0; 0; 0; 8; 1; 1; 2; 3; 4; 5; 6; 7] ++ [0; 0; 0; 3; 1; 8; 9] /\
  rs = [WOk 3; WOk 4; WOk 2] /\ ok = true /\ released = {| w_input := []; w_cap := 1030; w_nbytes := 0; w_framed := true |} /\
  ref_decode toy_dec data = Some [1; 2; 3; 4; 5; 6; 7; 8; 9] /\
  let dirty := Some {| r_src := [5]; r_header := xerial_header_bytes; r_output := [1; 2]; r_offset := 1; r_nbytes := 40 |} in
  snd (xr_reads toy_dec toy_declen (xr_open dirty data) [4; 1; 100; 100; 100])
  = [RData [1; 2; 3; 4]; RData [5]; RData [6; 7]; RData [8; 9]; RErr EEOF] /\
  let '(x', rs2) := xr_reads toy_dec toy_declen (xr_open dirty data) [4; 1] in
  rs2 = [RData [1; 2; 3; 4]; RData [5]] /\
  let '(_, rest, st) := xr_write_to toy_dec toy_declen x' in rest = [6; 7; 8; 9] /\ st = Some None.
Proof. vm_compute. repeat split. Qed.

(* the strict snappy decoder: "abc" as a literal then a 9-byte copy at offset 3; the same with
   offset 0 (S2's repeat) is not snappy; neither is a cut block *)
Example C16_snappy_examples :
  snappy_block_decode [12; 8; 97; 98; 99; 21; 3] = Some [97; 98; 99; 97; 98; 99; 97; 98; 99; 97; 98; 99] /\
  snappy_block_decode [12; 8; 97; 98; 99; 21; 0] = None /\
  snappy_block_decode [12; 8; 97; 98; 99; 21] = None /\
  snappy_block_decode [12; 8; 97; 98; 99] = None /\
  snappy_block_decode [0] = Some [].
Proof. vm_compute. repeat split. Qed.
