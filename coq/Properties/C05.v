(* Properties/C05.v — Record batches: what is produced is exactly what a consumer decodes.
   Only statements; every proof is [exact <lemma>].

   Vocabulary (Spec/RecordFormat.v, Model/Records.v, Proofs/Records*.v):
     dec_set decomp bytes      the strict reference decoder of a record set (lengths, CRC, count checked)
     raw_records items         the records it yields, offsets as stored
     proto_v2 / legacy_v2      the models of protocol.RecordSet.WriteTo (v2) / Conn's recordBatch writer
     pbatch / lbatch           the batch one expects on the wire (base offset 0, lastOffsetDelta n-1,
                               record i with offset delta i, nulls as -1, empties as 0, ...)
     expected_records ts rs    record i = (offset i, ts r_i, key, value, headers) of the input
     wf_in, small, ptimes_ok, ltimes_ok, v2_fits
                               every key/value/header/count below 2^31, timestamps within 2^62 ms,
                               the uncompressed records and the batch below 2^31 bytes (int32 sizes)
   Compression is any pair of functions with decomp c (comp c b) = b. *)
From Coq Require Import List NArith ZArith Bool.
From KV Require Import Lib.Bits Lib.Bytes Lib.Crc Spec.RecordFormat Model.Records
  Proofs.RecordsCodec Proofs.RecordsSet Proofs.RecordsWriters Proofs.RecordsLegacy
  Proofs.RecordsReaders Proofs.RecordsConn Proofs.RecordsFetch Proofs.RecordsV1
  Proofs.RecordsReadersV1 Model.Pages Proofs.PagesProofs Proofs.PagesReadFrom Proofs.PagesWriteAt.
Import ListNotations.
Open Scope Z_scope.

(* ---- the reference codec itself: decode (encode items) = items, for every sequence of
        well-formed items (formats 0/1, wrappers, format 2, every codec) *)
Theorem C05_reference_codec_roundtrip : forall comp decomp : N -> list N -> list N,
  (forall c b, decomp c (comp c b) = b) ->
  forall its, Forall (wf_item comp) its -> zlen (enc_items comp its) < ZM31 ->
  dec_set decomp (enc_set comp its) = Some its.
Proof. exact dec_enc_set. Qed.
Print Assumptions C05_reference_codec_roundtrip.

(* ---- protocol writer, format 2: for every non-empty record list, every codec 0..4, the
        bytes decode (strictly) to exactly the expected batch, whose records are the input
        records in order with offsets 0..n-1 and each record's millisecond timestamp
        (the current time where the record's own timestamp is 0, as the code does) *)
Theorem C05_produce_decodable_proto_v2 : forall comp decomp : N -> list N -> list N,
  (forall c b, decomp c (comp c b) = b) ->
  forall attrs now rs,
  rs <> [] -> Forall wf_in rs -> ptimes_ok now rs -> small rs -> -32768 <= attrs < 32768 ->
  (codec_of attrs <= 4)%N -> v2_fits comp (pbatch attrs now rs) ->
  exists bytes, proto_v2 comp attrs now rs = Some bytes /\
                dec_set decomp bytes = Some [IBatch (pbatch attrs now rs)] /\
                raw_records [IBatch (pbatch attrs now rs)] = expected_records (fun r => pts now (i_ns r)) rs.
Proof. exact proto_v2_full. Qed.
Print Assumptions C05_produce_decodable_proto_v2.

(* ---- legacy Conn writer, format 2 (write.go writeRecord / recordbatch.go, after the fix of
        F4: timestamp delta = timestamp(t_i) - timestamp(t_0)): for every non-empty message
        list — whatever the times: sub-millisecond parts, decreasing, arbitrarily far apart
        within +-2^62 ms — and every codec 0..4, the bytes decode strictly to the expected
        batch, whose records are the inputs in order with offsets 0..n-1 and timestamp(t_i) *)
Theorem C05_produce_decodable_legacy_v2 : forall comp decomp : N -> list N -> list N,
  (forall c b, decomp c (comp c b) = b) ->
  forall codec ms,
  ms <> [] -> Forall wf_in ms -> ltimes_ok ms -> small ms -> (codec <= 4)%N ->
  v2_fits comp (lbatch codec ms) ->
  exists bytes, legacy_v2 comp codec ms = Some bytes /\
                dec_set decomp bytes = Some [IBatch (lbatch codec ms)] /\
                raw_records [IBatch (lbatch codec ms)] = expected_records (fun r => ts_ms (i_ns r)) ms.
Proof. exact legacy_v2_full. Qed.
Print Assumptions C05_produce_decodable_legacy_v2.

(* ---- full statements not (yet) proved in general; see the _partial theorems below ---- *)
(* format 1 writers: messages magic 1, IEEE CRC over magic..value, wrapper for codecs *)
Definition C05_produce_decodable_proto_v1_full_statement : Prop :=
  forall comp decomp : N -> list N -> list N, (forall c b, decomp c (comp c b) = b) ->
  forall attrs now rs, Forall wf_in rs -> ptimes_ok now rs -> small rs -> -128 <= attrs < 128 ->
  (codec_of attrs <= 4)%N -> zlen (proto_v1 comp attrs now rs) < ZM31 ->
  zlen (proto_messages attrs now rs) < ZM31 ->
  exists its, dec_set decomp (proto_v1 comp attrs now rs) = Some its /\
    raw_records its = mapi_from (fun i r => mk_rec i (pts now (i_ns r)) (i_key r) (i_val r) []) 0 rs.
(* proved for attributes = the codec id 0..4 (what Writer/Client pass for format 1); missing:
   other attribute bits.  Messages magic 1, IEEE CRC over magic..value, offsets 0..n-1, one
   wrapper message (offset 0, null key, timestamp = now) holding the compressed inner set
   when a codec is given; format 1 has no headers. *)
Theorem C05_produce_decodable_proto_v1_partial : forall comp decomp : N -> list N -> list N,
  (forall c b, decomp c (comp c b) = b) ->
  forall codec now rs,
  (codec <= 4)%N -> in_i64 now -> Forall wf_in rs -> ptimes_ok now rs -> small rs ->
  zlen (proto_messages 0 now rs) < ZM31 -> zlen (proto_v1 comp (Z.of_N codec) now rs) < ZM31 + 4 ->
  exists its, dec_set decomp (proto_v1 comp (Z.of_N codec) now rs) = Some its /\
    raw_records its = mapi_from (fun i r => mk_rec i (pts now (i_ns r)) (i_key r) (i_val r) []) 0 rs.
Proof. exact proto_v1_decodable. Qed.
Print Assumptions C05_produce_decodable_proto_v1_partial.

(* legacy Conn writer, format 1 (the record set of writeProduceRequestV2): uncompressed
   messages carry Message.Offset as given; with a codec the inner offsets are 0..n-1 inside one
   wrapper (offset 0, null key, timestamp 0).  Every record list (also the empty one). *)
Theorem C05_produce_decodable_legacy_v1 : forall comp decomp : N -> list N -> list N,
  (forall c b, decomp c (comp c b) = b) ->
  forall codec ms,
  (codec <= 4)%N -> Forall wf_in ms -> ltimes_ok ms -> small ms -> Forall (fun m => in_i64 (i_off m)) ms ->
  zlen (concat (map enc_msg (msgs_of (if (codec =? 0)%N then (fun _ r => i_off r) else (fun i _ => i))
                                     (fun r => ts_ms (i_ns r)) ms))) < ZM31 ->
  zlen (enc_items comp (v1_items codec 0 (fun _ r => i_off r) (fun r => ts_ms (i_ns r)) ms)) < ZM31 ->
  exists its, dec_set decomp (legacy_v1 comp codec ms) = Some its /\
    raw_records its = mapi_from (fun i r => mk_rec (if (codec =? 0)%N then i_off r else i)
                                              (ts_ms (i_ns r)) (i_key r) (i_val r) []) 0 ms.
Proof. exact legacy_v1_decodable. Qed.
Print Assumptions C05_produce_decodable_legacy_v1.

(* the message format is a function of the negotiated Produce API version: record batches
   (format 2, the only one carrying headers) exactly from v3 on; what Client.Produce / Writer
   put on the wire at version v is the format-2 writer's output for v >= 3 (so the theorem
   C05_produce_decodable_proto_v2 applies, headers included) and the format-1 writer's below
   (format 1 has no headers: C05_produce_decodable_proto_v1_partial speaks about keys, values,
   timestamps only — the property can hold for header-less records only there). *)
Theorem C05_format_of_version : forall v,
  (format_of_produce_version v = 2 <-> 3 <= v) /\ (format_of_produce_version v = 1 <-> v < 3).
Proof. exact format_of_version. Qed.
Print Assumptions C05_format_of_version.

Theorem C05_produce_at_version : forall (comp : N -> list N -> list N) v attrs now rs,
  (3 <= v -> proto_produce comp v attrs now rs = proto_v2 comp attrs now rs) /\
  (v < 3 -> proto_produce comp v attrs now rs = Some (proto_v1 comp attrs now rs)).
Proof. exact proto_produce_format. Qed.
Print Assumptions C05_produce_at_version.

(* nilify / conn_view (Proofs/RecordsConn.v): nil/empty are not distinguished by the Conn path;
   its makeTime maps t <= 0 to the zero time *)
(* a fetch response: offsets strictly increasing and starting at or after the fetch offset,
   magic-1 wrappers with relative inner offsets 0..n-1 *)
Definition fetch_valid (min : Z) (its : list item) : Prop :=
  (forall r, In r (records_ctl its) -> min <= o_off r < ZM63) /\
  (forall a b l1 l2 l3, records_ctl its = l1 ++ a :: l2 ++ b :: l3 -> o_off a < o_off b) /\
  (forall it, In it its -> match it with
      | IWrap magic off _ _ inner => magic = 1 /\ inner <> [] /\
          map m_off inner = map Z.of_nat (seq 0 (length inner))
      | IMsg m => True
      | IBatch b => b_recs b <> [] /\ b_last b = r_offd (last (b_recs b) {| r_tsd := 0; r_offd := 0; r_key := None; r_val := None; r_hdrs := [] |})
      end).
Definition C05_fetch_paths_agree_full_statement : Prop :=
  forall comp decomp : N -> list N -> list N, (forall c b, decomp c (comp c b) = b) ->
  forall min its, Forall (wf_item comp) its -> fetch_valid min its -> zlen (enc_items comp its) < ZM31 ->
  (forall it, In it its -> match it with IBatch b => (codec_of (b_attrs b) <= 4)%N
                                       | IWrap _ _ a _ _ => (codec_of a <= 4)%N | _ => True end) ->
  proto_read decomp (enc_set comp its) = POut (records its) false /\
  exists fuel0, forall fuel, (fuel0 <= fuel)%nat ->
    msr_read decomp fuel min (enc_items comp its) = (map conn_view (records_ctl its), MEof).
(* a batch / message whose checksum does not match yields none of its records (any items) *)
Definition C05_crc_mismatch_no_records_full_statement : Prop :=
  forall comp decomp : N -> list N -> list N, (forall c b, decomp c (comp c b) = b) ->
  forall good bad_bytes rest, Forall (wf_item comp) good ->
  (forall fuel, exists l, dec_prefix decomp fuel bad_bytes = (l, false) /\ l = []) ->
  exists e, proto_read decomp (let c := enc_items comp good ++ bad_bytes ++ rest in put_bes 4 (zlen c) ++ c)
            = POut (records good) e.

(* ---- proved for fetch responses made of format-2 batches (every codec 0..4, control and
        transactional batches, offset gaps, any timestamps); missing: format 0/1 messages and
        wrappers, and sequences mixing formats (covered by the differential run only) ----
   batch_ok: wf_batch (field ranges, sizes below 2^31), codec <= 4, base+offsetDelta and
   firstTimestamp+timestampDelta within int64; batch_ok' adds: at least one record. *)

(* both paths return the reference's records: Client.Fetch without control batches and
   without error; the Conn path all of them (it does not know control batches), nil for
   empty, then io.EOF; without control batches the two lists are equal up to conn_view *)
Theorem C05_fetch_paths_agree_partial : forall comp decomp : N -> list N -> list N,
  (forall c b, decomp c (comp c b) = b) ->
  forall bs fuel min,
  bs <> [] -> Forall (batch_ok' comp) bs -> zlen (enc_items comp (map IBatch bs)) < ZM31 ->
  (length (records_ctl (map IBatch bs)) < fuel)%nat ->
  proto_read decomp (enc_set comp (map IBatch bs)) = POut (records (map IBatch bs)) false /\
  msr_read decomp fuel min (enc_items comp (map IBatch bs)) =
    (map conn_view (records_ctl (map IBatch bs)), MEof) /\
  (Forall (fun b => is_control (b_attrs b) = false) bs ->
   exists recs, proto_read decomp (enc_set comp (map IBatch bs)) = POut recs false /\
                msr_read decomp fuel min (enc_items comp (map IBatch bs)) = (map conn_view recs, MEof) /\
                recs = records (map IBatch bs)).
Proof. exact fetch_paths_agree_v2. Qed.
Print Assumptions C05_fetch_paths_agree_partial.

(* good items of ANY format, then a format-2 batch (any content [tail] after a stored checksum
   [crc] that differs from the CRC-32C of that content), then anything: Client.Fetch returns
   exactly the records of the good items; it reports the error only when there was no good
   item.  Missing for the full statement: a corrupted format-0/1 message (IEEE checksum). *)
Theorem C05_crc_mismatch_no_records_partial : forall comp decomp : N -> list N -> list N,
  (forall c b, decomp c (comp c b) = b) ->
  forall its base epoch crc tail rest,
  Forall (item_ok comp) its -> in_i64 base -> 9 + zlen tail < ZM31 -> length crc = 4%nat ->
  get_be crc 0%N <> w32 (crc32c tail) ->
  let content := enc_items comp its ++ raw_batch base epoch crc tail ++ rest in
  zlen content < ZM31 ->
  proto_read decomp (put_bes 4 (zlen content) ++ content) =
  POut (records its) (match its with [] => true | _ => false end).
Proof. exact proto_read_items_crc_mismatch. Qed.
Print Assumptions C05_crc_mismatch_no_records_partial.

(* ---- Client.Fetch path on EVERY kind of item (format 0 and 1 messages, compressed wrappers of
        magic 0 (absolute inner offsets) and magic 1 (relative inner offsets, contiguous or not
        — after the fix of the wrapper rebase), format-2 batches; every codec; any mixture):
        exactly the reference's records with absolute offsets, no error.
        item_ok: well-formed (field ranges, sizes below 2^31), codec <= 4, wrappers non-empty,
        a magic-0 wrapper carries the offset of its last inner message, wrapper offset 0 only
        with last inner offset 0. *)
Theorem C05_fetch_protocol_path_all_formats : forall comp decomp : N -> list N -> list N,
  (forall c b, decomp c (comp c b) = b) ->
  forall its, Forall (item_ok comp) its -> zlen (enc_items comp its) < ZM31 ->
  proto_read decomp (enc_set comp its) = POut (records its) false.
Proof. exact proto_read_items. Qed.
Print Assumptions C05_fetch_protocol_path_all_formats.

(* control batches contribute nothing to [records], whatever surrounds them *)
Theorem C05_control_hidden : forall comp decomp : N -> list N -> list N,
  (forall c b, decomp c (comp c b) = b) ->
  forall its, Forall (item_ok comp) its -> zlen (enc_items comp its) < ZM31 ->
  proto_read decomp (enc_set comp its) = POut (flat_map (records_of false) its) false /\
  (forall b, is_control (b_attrs b) = true -> records_of false (IBatch b) = []).
Proof. exact control_hidden_items. Qed.
Print Assumptions C05_control_hidden.

(* ---- pages (protocol/buffer.go; Model/Pages.v): for EVERY sequence of atomic actions of any
        number of buffers and refs, starting from nothing (every interleaving of concurrent
        decodes and Closes, the pool free to forget pages): the invariant holds (every holder
        of a page is counted in its refc; a pooled page has count 0) and the bytes seen through
        a pageRef are the same at every later moment until that ref is closed *)
Open Scope nat_scope.
Theorem C05_pages_stable : forall ops1 ops2 s1 s2 r bytes,
  run s0 ops1 = Some s1 -> run s1 ops2 = Some s2 ->
  read_ref s1 r = Some bytes ->
  Inv s2 /\ (read_ref s2 r = Some bytes \/ In (OUnrefRef r) ops2).
Proof. exact pages_stable. Qed.
Print Assumptions C05_pages_stable.

Theorem C05_pooled_unreferenced : forall ops s, run s0 ops = Some s ->
  forall p, p_pool (get_page s p) = true ->
  p_refc (get_page s p) = 0 /\
  (forall r rf, nth_error (s_refs s) r = Some rf -> r_live rf = true -> ~ In p (map fst (r_segs rf))) /\
  (forall b bf, nth_error (s_bufs s) b = Some bf -> b_live bf = true -> ~ In p (b_pages bf)).
Proof. exact pooled_unreferenced. Qed.
Print Assumptions C05_pooled_unreferenced.

(* pageBuffer.ReadFrom (the loop of protocol/buffer.go: allocate when there is no page or the
   tail page is full, else copy min(free, remaining) bytes behind the bytes of the tail page,
   stop when a copy was shorter than the free space): a buffer holding k bytes (any fill of
   its tail page, in particular a PARTLY filled one) that reads n bytes ends up holding the
   same k bytes followed by exactly those n bytes — no bound on k and n — the invariant is
   kept and every live ref still reads the same bytes; and with fresh pages it always
   completes (two rounds consume at least one byte).
   buf_ok s b l: buffer b is live with the duplicate-free page list l. *)
Theorem C05_pages_read_from : forall fuel s b l data src s',
  Inv s -> buf_ok s b l -> pb_read_from fuel s b data src = Some s' ->
  Inv s' /\
  (exists l', buf_ok s' b (l ++ l')) /\
  buf_content s' b = buf_content s b ++ data /\
  (forall r bytes, read_ref s r = Some bytes -> read_ref s' r = Some bytes).
Proof. exact pb_read_from_spec. Qed.
Print Assumptions C05_pages_read_from.

Theorem C05_pages_read_from_total : forall fuel s b l data,
  Inv s -> buf_ok s b l -> 2 * length data + 3 <= fuel ->
  exists s', pb_read_from fuel s b data [] = Some s'.
Proof. exact pb_read_from_total. Qed.
Print Assumptions C05_pages_read_from_total.

(* pageBuffer.WriteAt (the back-patching of placeholders: contiguousPages.WriteAt walking the
   pages of the range, every page taking the bytes that fall into it): for EVERY offset and
   length inside the buffer — within one page, ending on or starting on a page boundary,
   spanning two, three or more pages — the content afterwards is the content with exactly the
   range [off, off+len) replaced by the data; page lengths, reference counts, pool flags, the
   buffers' page lists and every page of other buffers are unchanged, and the invariant holds.
   (A range reaching beyond the end of the buffer is outside the model: pb_write_at = None.) *)
Theorem C05_pages_write_at : forall s b l off data s',
  Inv s -> buf_ok s b l -> pb_write_at s b off data = Some s' ->
  Inv s' /\ buf_ok s' b l /\
  buf_content s' b = firstn off (buf_content s b) ++ data ++ skipn (off + length data) (buf_content s b) /\
  (forall q, length (p_data (get_page s' q)) = length (p_data (get_page s q)) /\
             p_refc (get_page s' q) = p_refc (get_page s q) /\ p_pool (get_page s' q) = p_pool (get_page s q)) /\
  (forall q, ~ In q l -> get_page s' q = get_page s q) /\
  s_bufs s' = s_bufs s /\ s_refs s' = s_refs s.
Proof. exact pb_write_at_spec. Qed.
Print Assumptions C05_pages_write_at.
Open Scope Z_scope.

(* ---- non-vacuity: concrete instances meeting the hypotheses ---- *)
Example C05_nonvacuous_proto_v2 :
  f4_witness <> [] /\ Forall wf_in f4_witness /\ ptimes_ok 0 f4_witness /\ small f4_witness /\
  v2_fits idc (pbatch 0 0 f4_witness) /\
  (exists bytes, proto_v2 idc 0 0 f4_witness = Some bytes /\
     option_map (fun its => map o_ts (raw_records its)) (dec_set idc bytes) = Some [1600000000000; 1600000000001]).
Proof.
  split; [discriminate|]. split; [repeat constructor; vm_compute; reflexivity|].
  split; [intros m [<-|[<-|[]]]; vm_compute; split; congruence|].
  split; [vm_compute; reflexivity|]. split; [split; vm_compute; reflexivity|].
  eexists. split; [vm_compute; reflexivity|]. vm_compute. reflexivity.
Qed.
(* the former F4 witness (0.9 ms and 1.1 ms into consecutive milliseconds) meets the
   hypotheses and now decodes to its own millisecond timestamps *)
Example C05_nonvacuous_legacy_v2 :
  f4_witness <> [] /\ Forall wf_in f4_witness /\ ltimes_ok f4_witness /\ small f4_witness /\
  v2_fits idc (lbatch 0 f4_witness) /\
  (exists bytes, legacy_v2 idc 0 f4_witness = Some bytes /\
     option_map (fun its => map o_ts (raw_records its)) (dec_set idc bytes) = Some [1600000000000; 1600000000001]).
Proof.
  split; [discriminate|]. split; [repeat constructor; vm_compute; reflexivity|].
  split; [intros m [<-|[<-|[]]]; vm_compute; split; congruence|].
  split; [vm_compute; reflexivity|]. split; [split; vm_compute; reflexivity|].
  eexists. split; [vm_compute; reflexivity|]. vm_compute. reflexivity.
Qed.

(* a page goes back to the pool and is reused by another buffer while an older ref is open *)
Open Scope nat_scope.
Example C05_nonvacuous_pages :
  let ops1 := [ONewBuf; ONewPage 0 None; OAppend 0 [1%N; 2%N; 3%N]; ONewPage 0 None; OAppend 0 [4%N; 5%N];
               ORef 0 [(0%nat, (1%nat, 3%nat))]; ORef 0 [(1%nat, (0%nat, 2%nat))]; OUnrefBuf 0] in
  let ops2 := [OUnrefRef 1; ONewBuf; ONewPage 1 (Some 1%nat); OAppend 1 [9%N; 9%N; 9%N]] in
  exists s1 s2, run s0 ops1 = Some s1 /\ run s1 ops2 = Some s2 /\
    read_ref s1 0 = Some [2%N; 3%N] /\ read_ref s2 0 = Some [2%N; 3%N] /\ read_ref s2 1 = None /\
    p_data (get_page s2 1) = [9%N; 9%N; 9%N].
Proof. cbn zeta. eexists. eexists. split; [vm_compute; reflexivity|]. split; [vm_compute; reflexivity|]. vm_compute. repeat split. Qed.

(* ReadFrom into a buffer whose tail page holds all but 5 bytes of a page: 12 more bytes cross
   the page boundary at a non-aligned position and all arrive, in order, on two pages *)
Example C05_nonvacuous_read_from :
  let k := 256 * 256 - 5 in
  let ops := [ONewBuf; ONewPage 0 None; OAppend 0 (repeat 7%N k)] in
  let data := [1; 2; 3; 4; 5; 6; 7; 8; 9; 10; 11; 12]%N in
  match run s0 ops with
  | Some s1 =>
    match pb_read_from 40 s1 0 data [] with
    | Some s2 =>
      (if list_eq_dec N.eq_dec (skipn k (buf_content s2 0)) data then true else false) &&
      (if list_eq_dec Nat.eq_dec (map (fun p => length (p_data p)) (s_pages s2)) [256 * 256; 7] then true else false)
    | None => false
    end
  | None => false
  end = true.
Proof. vm_compute. reflexivity. Qed.

(* a 4-byte field written across the boundary between the first and the second page *)
Example C05_nonvacuous_write_at :
  let ops := [ONewBuf; ONewPage 0 None; OAppend 0 (repeat 7%N (256 * 256)); ONewPage 0 None; OAppend 0 (repeat 8%N 10)] in
  match run s0 ops with
  | Some s1 =>
    match pb_write_at s1 0 (256 * 256 - 3) [1; 2; 3; 4]%N with
    | Some s2 =>
      (if list_eq_dec N.eq_dec (firstn 8 (skipn (256 * 256 - 5) (buf_content s2 0))) [7; 7; 1; 2; 3; 4; 8; 8]%N then true else false) &&
      (if list_eq_dec Nat.eq_dec (map (fun p => length (p_data p)) (s_pages s2)) [256 * 256; 10] then true else false)
    | None => false
    end
  | None => false
  end = true.
Proof. vm_compute. reflexivity. Qed.
