(* Properties/C01.v — Writer: acknowledged messages are in the log; failures are attributed
   exactly.  Only statements; every proof is [exact <lemma>].  Model: Model/Writer.v; a run is
   [run (step cfg) init ls = Some s] for an arbitrary label sequence (every multiset of
   messages, number of callers, configuration, schedule and sequence of broker reactions:
   applied+acknowledged, applied but answer lost, rejected with an error code, not applied
   with a network error / time-out).  The theorems hold for every classification
   [retriable cfg : err -> bool] of errors.

   acked_attempt cfg s m      : the journal of the fake cluster holds a produce attempt that was
                                applied, acknowledged, contains m, to the partition (topic of m,
                                partition the balancer chose).
   last_attempt_seen s m o    : the last produce attempt that carried m was seen by the client
                                as o (None = acknowledged). *)
From Coq Require Import List NArith ZArith Bool Arith.
From KV Require Import Lib.LTS Model.Writer Proofs.WriterStmts Proofs.WriterC01a Proofs.WriterC01b Proofs.WriterHolds Proofs.WriterHolds2 Proofs.WriterHolds1 Proofs.WriterInFlight.
Import ListNotations.

Theorem C01_nil_means_logged :
  forall cfg ls s, cfg_ok cfg -> run (step cfg) init ls = Some s -> async cfg = false ->
  forall c cl, nth_error (s_calls s) c = Some cl -> c_ph cl = CReturned RNil ->
  forall m, In m (c_msgs cl) -> acked_attempt cfg s m /\ In m (log_of s (tp_of cfg m)).
Proof. exact C01_nil_means_logged_proof. Qed.
Print Assumptions C01_nil_means_logged.

Theorem C01_write_errors_exact :
  forall cfg ls s, cfg_ok cfg -> run (step cfg) init ls = Some s ->
  forall c cl we, nth_error (s_calls s) c = Some cl -> c_ph cl = CReturned (RWriteErrors we) ->
    length we = length (c_msgs cl) /\
    (exists i e, nth_error we i = Some (Some e)) /\
    forall i m o, nth_error (c_msgs cl) i = Some m -> nth_error we i = Some o ->
      (o = None <-> acked_attempt cfg s m) /\ last_attempt_seen s m o.
Proof. exact C01_write_errors_exact_proof. Qed.
Print Assumptions C01_write_errors_exact.

Theorem C01_completion_once :
  forall cfg ls s, cfg_ok cfg -> run (step cfg) init ls = Some s ->
    (* every message in at most one Completion event *)
    NoDup (flat_map (fun ce => map m_id (fst ce)) (s_compl s)) /\
    (* with the outcome of its last attempt, and it belongs to an accepted call *)
    (forall ms o m, In (ms, o) (s_compl s) -> In m ms ->
       last_attempt_seen s m o /\
       exists c cl, nth_error (s_calls s) c = Some cl /\ rejected cl = false /\ In m (c_msgs cl)) /\
    (* a synchronous call that returned nil or WriteErrors: each message was completed, with
       the outcome the call reports for it *)
    (async cfg = false ->
     forall c cl, nth_error (s_calls s) c = Some cl ->
       (c_ph cl = CReturned RNil ->
        forall m, In m (c_msgs cl) -> exists ms, In (ms, None) (s_compl s) /\ In m ms) /\
       (forall we, c_ph cl = CReturned (RWriteErrors we) ->
        forall i m o, nth_error (c_msgs cl) i = Some m -> nth_error we i = Some o ->
          exists ms, In (ms, o) (s_compl s) /\ In m ms)).
Proof. exact C01_completion_once_proof. Qed.
Print Assumptions C01_completion_once.

Theorem C01_no_foreign_log :
  forall cfg ls s, run (step cfg) init ls = Some s ->
  forall tp m, In (tp, m) (s_log s) -> tp = tp_of cfg m.
Proof. exact C01_no_foreign_log_proof. Qed.
Print Assumptions C01_no_foreign_log.

Theorem C01_duplicates_only_by_retry :
  forall cfg ls s, run (step cfg) init ls = Some s ->
    (* the log is exactly what the applied attempts appended, in order: a message appears in
       the log once per applied attempt that carried it *)
    s_log s = flat_map (fun a => if a_applied a then map (pair (a_tp a)) (a_msgs a) else []) (s_journal s) /\
    (* two attempts sharing a message are the same batch, and the client saw the earlier one
       fail with an error it classifies as retriable *)
    (forall j1 a j2 b j3, s_journal s = j1 ++ a :: j2 ++ b :: j3 ->
       (exists m, In m (a_msgs a) /\ In m (a_msgs b)) ->
       a_msgs a = a_msgs b /\ a_tp a = a_tp b /\
       exists e, a_seen a = Some e /\ retriable cfg e = true) /\
    (* at most maxAttempts attempts per batch *)
    (forall p k, length (filter (fun a => Nat.eqb (a_pw a) p && Nat.eqb (a_k a) k) (s_journal s))
                 <= maxAttempts cfg).
Proof. exact C01_duplicates_only_by_retry_proof. Qed.
Print Assumptions C01_duplicates_only_by_retry.

(* Nothing of a rejected call (too large, topic conflict, metadata failure, closed — at
   enter() or, when Close ran in between, at batchMessages) is ever sent. *)
Theorem C01_rejected_never_sent :
  forall cfg ls s, run (step cfg) init ls = Some s ->
  forall c cl, nth_error (s_calls s) c = Some cl -> rejected cl = true ->
  forall m a, In m (c_msgs cl) -> In a (s_journal s) -> ~ In m (a_msgs a).
Proof. exact C08_rejected_never_sent_proof. Qed.
Print Assumptions C01_rejected_never_sent.

(* The extracted boolean predicates that the correspondence run evaluates on every recorded
   real history are true on every run of the model (those proved so far). *)
Theorem C01_nil_holds_on_runs :
  forall cfg ls s, cfg_ok cfg -> run (step cfg) init ls = Some s ->
    C01_nil_holds cfg (s_calls s) (s_journal s) (s_log s) = true.
Proof. exact C01_nil_holds_runs. Qed.
Print Assumptions C01_nil_holds_on_runs.

Theorem C01_we_holds_on_runs :
  forall cfg ls s, cfg_ok cfg -> run (step cfg) init ls = Some s ->
    C01_we_holds cfg (s_calls s) (s_journal s) = true.
Proof. exact C01_we_holds_runs. Qed.
Print Assumptions C01_we_holds_on_runs.

Theorem C01_compl_holds_on_runs :
  forall cfg ls s, cfg_ok cfg -> run (step cfg) init ls = Some s ->
    C01_compl_holds cfg (s_calls s) (s_journal s) (s_compl s) = true.
Proof. exact C01_compl_holds_runs. Qed.
Print Assumptions C01_compl_holds_on_runs.

(* A batch is given up with an error classified as retriable only after MaxAttempts produce
   requests — for EVERY classification [retriable cfg]; recorded histories are judged with the
   SPECIFIED one, retriable_spec (Kafka protocol error table + transient transport errors: a cut
   response = unexpected EOF, reset, broken pipe, refused, time-out), never with the code's own
   isTemporary || isTransientNetworkError, which is compared with it class by class (op rtb). *)
Theorem C01_no_early_giveup_holds_on_runs :
  forall cfg ls s, run (step cfg) init ls = Some s ->
    no_early_giveup_holds cfg (s_journal s) (s_compl s) = true.
Proof. exact no_early_giveup_holds_runs. Qed.
Print Assumptions C01_no_early_giveup_holds_on_runs.

Example C01_retriable_spec_examples :
  retriable_spec 1001%N = true /\ retriable_spec 1005%N = true /\ retriable_spec 1008%N = false /\
  retriable_spec 1006%N = false /\ retriable_spec 65535%N = false /\ retriable_spec 7%N = true /\
  retriable_spec 9%N = false /\ retriable_spec 3%N = true /\ retriable_spec 1%N = false.
Proof. exact retriable_spec_examples. Qed.

Theorem C01_no_foreign_holds_on_runs :
  forall cfg ls s, run (step cfg) init ls = Some s -> C01_no_foreign_holds cfg (s_log s) = true.
Proof. exact C01_no_foreign_holds_runs. Qed.
Print Assumptions C01_no_foreign_holds_on_runs.

Theorem C01_log_is_journal_on_runs :
  forall cfg ls s, run (step cfg) init ls = Some s -> log_is_journal (s_journal s) (s_log s) = true.
Proof. exact log_is_journal_runs. Qed.
Print Assumptions C01_log_is_journal_on_runs.

Theorem C01_dups_holds_on_runs :
  forall cfg ls s, run (step cfg) init ls = Some s -> C01_dups_holds cfg (s_journal s) (s_log s) = true.
Proof. exact C01_dups_holds_runs. Qed.
Print Assumptions C01_dups_holds_on_runs.

Theorem C01_rejected_sends_nothing_holds_on_runs :
  forall cfg ls s, run (step cfg) init ls = Some s ->
    rejected_sends_nothing_holds (s_calls s) (s_journal s) = true.
Proof. exact rejected_sends_nothing_holds_runs. Qed.
Print Assumptions C01_rejected_sends_nothing_holds_on_runs.

(* The broker's verdict on a produce request is "ok | error code" for ANY int16 code: only
   code 0 is success (Client.Produce: ProduceResponse.Error = makeError(code, ...), nil exactly
   for 0), every other code — negative ones like UNKNOWN_SERVER_ERROR = -1 included — is a
   failure the client sees, and nothing was appended.  The transition system takes an arbitrary
   [e : err] in [RejectedCode e]; no theorem above depends on the sign or size of a code.
   (The mapping itself is compared on all 65536 codes on every run: ops prr / pr.) *)
Theorem C01_error_code_sign_independent : forall c : Z,
  (code_err c = None <-> c = 0%Z) /\
  (r_seen (reaction_of_code c) = None <-> c = 0%Z) /\
  (c <> 0%Z -> r_applied (reaction_of_code c) = false /\ exists e, r_seen (reaction_of_code c) = Some e).
Proof. exact code_verdict_sign_independent. Qed.
Print Assumptions C01_error_code_sign_independent.

(* Real time enters only through the broker reaction the client observes.  The deadline of the
   produce round trip is the effective WriteTimeout (produce_deadline_ms o = eff_writeTimeoutMs o;
   ReadTimeout feeds no deadline here: the metadata lookup of WriteMessages runs under the
   caller's context only, metadata_deadline_ms = None) — compared with the context deadline the
   RoundTripper actually receives from the real Writer, for generated option pairs incl. zero =
   default (op pdl).  An acknowledgement arriving within WriteTimeout, whatever ReadTimeout is, is
   therefore seen as an acknowledgement and ends the retry loop at once: one produce request, one
   copy (ops pto run the transition system with this reaction against the real Writer on a
   delaying broker, both ways round); one arriving later is a lost acknowledgement (applied,
   deadline error seen), which C01_duplicates_only_by_retry accounts for. *)
Theorem C01_ack_within_write_timeout : forall o delay cfg n,
  (delay < eff_writeTimeoutMs o)%Z ->
  timed_reaction o delay = AppliedAcked /\
  r_seen (timed_reaction o delay) = None /\
  after_attempt cfg n (r_seen (timed_reaction o delay)) = PFinish None.
Proof. exact ack_within_write_timeout. Qed.
Print Assumptions C01_ack_within_write_timeout.

Theorem C01_ack_after_write_timeout : forall o delay,
  (eff_writeTimeoutMs o <= delay)%Z ->
  r_applied (timed_reaction o delay) = true /\ r_seen (timed_reaction o delay) = Some deadline_err.
Proof. exact ack_after_write_timeout. Qed.
Print Assumptions C01_ack_after_write_timeout.

(* a batch answered with UNKNOWN_SERVER_ERROR (-1) on its last allowed attempt: WriteErrors, not nil *)
Example C01_negative_code_is_an_error :
  exists s, run (step (mkCfg 2 100 1 false (Some 0%N) (fun _ => false))) init
              [Call 1 [mkMsg 1 None 30 0; mkMsg 2 None 30 0] None; Assign 0; Get 0;
               Attempt 0 (reaction_of_code (-1)); Finish 0; Timer 0 0; Return 0] = Some s /\
            map c_ph (s_calls s) = [CReturned (RWriteErrors [Some 65535%N; Some 65535%N])] /\
            s_log s = [] /\ map snd (s_compl s) = [Some 65535%N].
Proof.
  eexists. split; [vm_compute; reflexivity|]. split; [vm_compute; reflexivity|].
  split; vm_compute; reflexivity.
Qed.

(* ---- non-vacuity: two partitions, BatchSize 1, MaxAttempts 2, error 7 retriable, 3 permanent.
   Call 0 = [m1 -> partition 0; m2 -> partition 1]: m1 loses its acknowledgement and is retried
   (duplicate in the log), m2 is rejected with the permanent code 3: WriteErrors [nil; 3]. *)
Definition ex_cfg : config := mkCfg 1 100 2 false (Some 0%N) (fun e => N.eqb e 7).
Definition ex_run : list label :=
  [Call 1 [mkMsg 1 None 30 0; mkMsg 2 None 30 1] None; Assign 0;
   Get 0; Attempt 0 (AppliedLost 7%N); BackoffDone 0; Attempt 0 AppliedAcked; Finish 0;
   Get 1; Attempt 1 (RejectedCode 3%N); Finish 1; Timer 0 0; Timer 1 0; Return 0].
Example C01_nonvacuous :
  exists s, run (step ex_cfg) init ex_run = Some s /\
            map c_ph (s_calls s) = [CReturned (RWriteErrors [None; Some 3%N])] /\
            map m_id (log_of s (0%N, 0%N)) = [1%N; 1%N] /\ log_of s (0%N, 1%N) = [] /\
            map snd (s_compl s) = [None; Some 3%N].
Proof.
  eexists. split; [vm_compute; reflexivity|].
  split; [vm_compute; reflexivity|]. split; [vm_compute; reflexivity|].
  split; vm_compute; reflexivity.
Qed.

(* ---- the synchronisation skeleton the Writer model assumes (which Go critical section each
   label of Model/Writer.v stands for: Model/SkeletonAssumptions.v, writer_assumptions) holds
   of /repo's CURRENT source: facts regenerated by harness/cmd/vskel on every run. *)
From KV Require Model.SkeletonAssumptions Gen.Skeleton Proofs.SkeletonWriter.
Theorem C01_skeleton_assumptions :
  KV.Model.SkeletonAssumptions.writer_assumptions_hold KV.Gen.Skeleton.calls KV.Gen.Skeleton.accesses = true.
Proof. exact KV.Proofs.SkeletonWriter.writer_skeleton_ok. Qed.
Print Assumptions C01_skeleton_assumptions.
