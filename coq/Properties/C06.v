(* Properties/C06.v — a response is only ever delivered to the call that sent the request.
   Only statements; every proof is [exact <lemma>] or a closed computation on a witness. *)
From Coq Require Import List ZArith Bool Arith.
From KV Require Import Model.ConnMux Model.TransportPool
  Proofs.ConnMuxBase Proofs.ConnMuxProofs Proofs.ConnMuxOwn Proofs.TransportPoolProofs Proofs.TransportPoolOwn
  Model.BufferPool Proofs.BufferPoolProofs.
Import ListNotations.
Local Open Scope Z_scope.

(* ======================= legacy Conn (Model/ConnMux.v) ======================= *)

(* In every reachable state of an aligned stream (C11) with fewer than 2^32 requests sent on
   the connection: a call that got past its response header holds exactly the frame whose id
   is its own request id, that frame was produced by the broker for that call's request
   ([fown f = t], [In t answered]) and is in the consumption log; no frame is consumed twice;
   the ids of any two requests that were sent are distinct. *)
Theorem C06_conn_own_response : forall ls s,
  run init ls = Some s -> aligned s -> nsend s < ID_BOUND ->
  (forall t, completed (ph (thr s t)) ->
     exists f, got (thr s t) = Some f /\ fid f = rid (thr s t) /\ fown f = t /\
               In f (consumed s) /\ In t (answered s)) /\
  NoDup (map fown (consumed s)) /\
  (forall t u, presend (ph (thr s t)) = false -> presend (ph (thr s u)) = false ->
     t <> u -> rid (thr s t) <> rid (thr s u)).
Proof. exact conn_own_response. Qed.
Print Assumptions C06_conn_own_response.

(* Giving up on a response also releases the read lock handed over by waitResponse: after the
   abandoning step nobody holds rlock, so no other waiter stays parked on it (its LockR is
   enabled) and, the connection being closed, its peek fails (harness op muxcut, monitor
   mon_conn_cut). *)
Theorem C06_conn_fatal_releases_lock : forall s t s',
  (step s (ReadDone t RFatal) = Some s' \/ step s (BatchClose t RFatal) = Some s' \/
   step s (Deadline t) = Some s' \/ step s (PeekFail t) = Some s') ->
  rlock s' = None /\ closed s' = true.
Proof. exact fatal_releases_lock. Qed.
Print Assumptions C06_conn_fatal_releases_lock.

(* The read lock handed to a Batch.  [holder_phase]: only a call that is peeking, reading its
   response or holding a Batch can hold rlock — in every reachable state. *)
Theorem C06_lock_held_only_by_reader : forall ls s t, run init ls = Some s ->
  rlock s = Some t -> holder_phase (ph (thr s t)) = true.
Proof. intros ls s t H. exact (LockInv_run ls s H t). Qed.
Print Assumptions C06_lock_held_only_by_reader.

(* Batch.Close releases the lock, the Batch's call no longer is a lock holder, and the
   connection is left either closed or exactly at the frame boundary it was at (no new
   misalignment) — for every outcome of discarding the rest of the fetch response except the
   one that stands for C11's hypothesis (a Kafka error returned with bytes left).
   Implementation side: harness op batchrd, byte accounting monitor mon_batch_acct. *)
Theorem C06_batch_close_at_boundary_or_closed : forall s t r s',
  step s (BatchClose t r) = Some s' -> r <> RKafkaLeft ->
  rlock s' = None /\ (closed s' = true \/ misaligned s' = misaligned s) /\
  holder_phase (ph (thr s' t)) = false.
Proof. exact batch_close_at_boundary_or_closed. Qed.
Print Assumptions C06_batch_close_at_boundary_or_closed.

(* Close on a closed Batch changes nothing (batch.conn / batch.lock were reset), the closing step
   itself is enabled only once, and in every reachable state a call that holds no Batch (any
   more) does not hold the lock: the lock is released at most once per Batch. *)
Theorem C06_batch_close_idempotent :
  (forall s t s', step s (BatchCloseAgain t) = Some s' -> s' = s) /\
  (forall s t r s' r', step s (BatchClose t r) = Some s' -> step s' (BatchClose t r') = None) /\
  (forall ls s t, run init ls = Some s -> holder_phase (ph (thr s t)) = false -> rlock s <> Some t).
Proof. exact (conj batch_close_idempotent (conj batch_close_once closed_batch_holds_no_lock)). Qed.
Print Assumptions C06_batch_close_idempotent.

(* The same without any bound on the number of requests the connection carries: it is enough
   that, in every state the run visits, any two OUTSTANDING requests (waiting for their answer,
   or answered and not yet consumed) are fewer than 2^32 sends apart.  (A bound on the NUMBER of
   outstanding requests would not do: one request that is never answered stays outstanding
   while 2^32 later ones complete, and the id is reused.) *)
Theorem C06_conn_own_response_windowed : forall ls s,
  run init ls = Some s -> run_within window init ls -> aligned s ->
  (forall t, completed (ph (thr s t)) ->
     exists f, got (thr s t) = Some f /\ fid f = rid (thr s t) /\ fown f = t /\
               In f (consumed s) /\ In t (answered s)) /\
  NoDup (map fown (consumed s)) /\
  (forall t u, outstanding s t -> outstanding s u -> t <> u -> rid (thr s t) <> rid (thr s u)).
Proof. exact conn_own_response_windowed. Qed.
Print Assumptions C06_conn_own_response_windowed.

(* its hypothesis holds for every run below the total bound (so it subsumes the theorem above) *)
Theorem C06_conn_window_of_bound : forall ls s,
  run init ls = Some s -> nsend s < ID_BOUND -> run_within window init ls.
Proof. intros ls s H B. exact (run_within_of_bound ls init s Inv_init H B). Qed.
Print Assumptions C06_conn_window_of_bound.

(* A call that gives up on ANY code path — write error, EOF / time-out while waiting for its
   header, non-Kafka error (time-out, EOF, parse error) while reading the body in Conn.do,
   Conn.ApiVersions (a Conn.do operation since /repo commit 9708961) or through a Batch —
   leaves the connection closed.  (io.ErrNoProgress is not an abandonment: it is the code's
   answer to a foreign frame when nobody else is in flight.) *)
Theorem C06_conn_abandon_closes : forall ls s, run init ls = Some s ->
  forall t e, ph (thr s t) = Failed e -> e <> ENoProgress -> closed s = true.
Proof.
  intros ls s H t e P N. pose proof (conn_abandon_closes ls s H t) as A.
  unfold abandon_closed in A. rewrite P in A. destruct e; auto; contradiction.
Qed.
Print Assumptions C06_conn_abandon_closes.

(* ... so that a later response cannot reach anybody: once closed the connection stays
   closed, the broker's answers no longer arrive, and whatever is consumed afterwards had
   already arrived before the close (and goes to its owner by C06_conn_own_response). *)
Theorem C06_conn_closed_is_final : forall ls s s', closed s = true -> run s ls = Some s' ->
  closed s' = true /\
  (forall f, In f (wire s') -> In f (wire s)) /\
  (forall f, In f (consumed s') -> In f (consumed s) \/ In f (wire s)) /\
  answered s' = answered s.
Proof. exact conn_closed_final. Qed.
Print Assumptions C06_conn_closed_is_final.

(* ======================= Transport (Model/TransportPool.v) ======================= *)

(* A pooled connection is held by at most one requester; a held connection is not in the idle
   stack and its run loop is waiting for a request; the idle stack has no duplicates and holds
   only connections whose run loop is waiting (no exchange pending) and whose last exchange
   ended without error. *)
Theorem C06_pool_exclusive : forall ls s, prun pinit ls = Some s ->
  (forall r r' c, qph (rq s r) = QHold c -> qph (rq s r') = QHold c -> r = r') /\
  (forall r c, qph (rq s r) = QHold c -> cst (cn s c) = CLoop /\ ~ In c (idle s)) /\
  NoDup (idle s) /\
  (forall c, In c (idle s) -> cst (cn s c) = CLoop /\ lastok (cn s c) = true).
Proof. exact pool_exclusive. Qed.
Print Assumptions C06_pool_exclusive.

(* The value delivered to a RoundTrip caller is a frame the broker produced for the request
   this caller enqueued (on some connection c, as its k-th request) — whatever the broker
   repeats or delays, whichever calls are cancelled — provided no single connection carried
   2^32 requests. *)
Theorem C06_transport_own_response : forall ls s, prun pinit ls = Some s ->
  (forall c, nex (cn s c) < ID_BOUND) ->
  forall r f, qph (rq s r) = QDone (RVal f) ->
    fown f = r /\ exists c k, fid f = wrap32 k /\ lookup_ord k (bsent (cn s c)) = Some r.
Proof. exact transport_own_response. Qed.
Print Assumptions C06_transport_own_response.

(* What the own-response theorem rests on, besides the correlation-id check: on one pooled
   connection the ordinals of the requests sent are strictly increasing (newest first in
   [bsent]) and lie in 1..nex — no id is ever used twice on a connection (the id on the wire
   of ordinal k is wrap32 k).  Implementation-side monitor: mon_ids (harness op trlate). *)
Theorem C06_pool_ids_increasing : forall ls s, prun pinit ls = Some s ->
  forall c, Sorted.StronglySorted Z.gt (map fst (bsent (cn s c))) /\
            Forall (fun k => 1 <= k <= nex (cn s c)) (map fst (bsent (cn s c))).
Proof. exact pool_ids_increasing. Qed.
Print Assumptions C06_pool_ids_increasing.

(* The mechanism named by the property's anchors: a connection whose exchange failed (write
   error, time-out / EOF / cut while reading, correlation-id mismatch) is CClosed at once
   (pstep: CWrite _ false, CReadFail, CRead with a foreign id), and CClosed is final — the
   connection never carries another request.  The own-response theorem does NOT need this
   (the model's broker may inject stale frames anyway); the implementation is nevertheless
   held to it by the monitor mon_fail (harness op trlate). *)
Theorem C06_pool_failed_conn_final : forall ls s s' c,
  PInv s -> (c < nconn s)%nat -> cst (cn s c) = CClosed -> prun s ls = Some s' ->
  cst (cn s' c) = CClosed /\ bsent (cn s' c) = bsent (cn s c).
Proof. exact pool_failed_conn_final. Qed.
Print Assumptions C06_pool_failed_conn_final.

Theorem C06_pool_failure_closes : forall s c,
  (forall s', pstep s (CWrite c false) = Some s' -> cst (cn s' c) = CClosed) /\
  (forall s', pstep s (CReadFail c) = Some s' -> cst (cn s' c) = CClosed) /\
  (forall s', pstep s (CRead c) = Some s' -> cst (cn s' c) = CClosed \/ lastok (cn s' c) = true).
Proof. exact failing_steps_close. Qed.
Print Assumptions C06_pool_failure_closes.

(* Split calls (protocol.Splitter: ListOffsets, ListGroups, DescribeGroups, DescribeConfigs).
   In the model the sub-requests of one call are ordinary requesters [subs] (in request order)
   and the slice handed to the merger is [split_results s subs] = map (outcome of) subs: result
   i is BY POSITION the outcome of the requester carrying sub-request i (transport.go:
   promises[i] = sendRequest(messages[i]); joined.await: results[i] = promises[i].await).
   Under that alignment every value at position i is a frame the broker produced for
   sub-request i — the single-exchange theorem applied pointwise.  The alignment itself is a
   fact about the implementation: harness op trsplit + monitor mon_split hold the code to it. *)
Theorem C06_transport_split_own_response : forall ls s, prun pinit ls = Some s ->
  (forall c, nex (cn s c) < ID_BOUND) ->
  forall subs i r f,
    nth_error subs i = Some r ->
    nth_error (split_results s subs) i = Some (Some (RVal f)) ->
    fown f = r /\ exists c k, fid f = wrap32 k /\ lookup_ord k (bsent (cn s c)) = Some r.
Proof. exact transport_split_own_response. Qed.
Print Assumptions C06_transport_split_own_response.

Theorem C06_transport_split_aligned : forall s subs,
  length (split_results s subs) = length subs /\
  forall i r, nth_error subs i = Some r -> nth_error (split_results s subs) i = Some (sub_result s r).
Proof. intros s subs. split; [apply split_results_length|intros i r; apply split_results_nth]. Qed.
Print Assumptions C06_transport_split_aligned.

(* A connection handed back to the pool sits at a frame boundary: its run loop is waiting, its
   last exchange ended without error, and what is unread on it is a sequence of WHOLE frames, each
   the broker's answer to a request that connection carried (never the rest of a frame).  The
   model is frame-level, so the byte side of this — ReadResponse consumes exactly the frame, in
   particular the truncated tail of a fetch record set — is held on the implementation by harness
   op trtail (every follower on the re-used connection gets its own answer). *)
Theorem C06_released_at_frame_boundary : forall ls s c, prun pinit ls = Some s -> In c (idle s) ->
  cst (cn s c) = CLoop /\ lastok (cn s c) = true /\
  forall f, In f (cwire (cn s c)) ->
    exists k, fid f = wrap32 k /\ lookup_ord k (bsent (cn s c)) = Some (fown f).
Proof. exact released_at_frame_boundary. Qed.
Print Assumptions C06_released_at_frame_boundary.

(* ======================= the decompression buffer pool (Model/BufferPool.v) ======================= *)

(* As long as every acquired buffer is released exactly once (the run uses no ReleaseAgain), two
   live readers never hold the same pooled buffer — whatever the interleaving of acquires and
   releases of readers on any number of Conns.  Obligation on the code: releaseBuffer of
   messageSetReader.decompressed happens once per reader life (Batch.close resets the field);
   harness op poolx checks the consequence on the implementation. *)
Theorem C06_pool_buffer_exclusive : forall ls s,
  forallb disciplined ls = true -> brun binit ls = Some s ->
  forall o1 o2 b, In (o1, b) (bheld s) -> In (o2, b) (bheld s) -> o1 = o2.
Proof. exact buffer_exclusive. Qed.
Print Assumptions C06_pool_buffer_exclusive.

(* ... and one extra release is enough to break it: reader 1 gives its buffer back twice, readers
   2 and 3 then decompress into the same buffer (the seeded change C06-13) *)
Example pool_double_release_shares_a_buffer :
  match brun binit [Acquire 1; Release 1; ReleaseAgain 1 0; Acquire 2; Acquire 3] with
  | Some s => match holds 2 (bheld s), holds 3 (bheld s) with
              | Some a, Some b => Nat.eqb a b
              | _, _ => false
              end
  | None => false
  end = true.
Proof. vm_compute. reflexivity. Qed.

(* ======================= non-vacuity ======================= *)

(* two calls, answers in reverse order, one yields the read lock, both complete with their
   own frame *)
Example conn_nonvacuous :
  match run init [Enter 1 KDo; Enter 2 KDo; LockW 1; Send 1 true true; LockW 2; Send 2 true true;
                  Arrive 2; Arrive 1; LockR 1; PeekOther 1; LockR 2; PeekOwn 2; ReadDone 2 ROk;
                  LockR 1; PeekOwn 1; ReadDone 1 RKafka]%nat with
  | Some s => (negb (misaligned s) && (nsend s <? ID_BOUND) && all_own s [1; 2]%nat &&
               Nat.eqb (outcome_code (ph (thr s 1%nat))) 2 && Nat.eqb (outcome_code (ph (thr s 2%nat))) 1)%bool
  | None => false
  end = true.
Proof. vm_compute. reflexivity. Qed.

(* a Batch: read some, a short buffer, Close, Close again; a waiter is then served *)
Example batch_nonvacuous :
  match run init [Enter 1 KBatch; Enter 2 KDo; LockW 1; Send 1 true true; LockW 2; Send 2 true true;
                  Arrive 1; Arrive 2; LockR 1; PeekOwn 1; BatchOpen 1; BatchRead 1; BatchShort 1;
                  BatchClose 1 ROk; BatchCloseAgain 1; LockR 2; PeekOwn 2; BatchCloseAgain 1;
                  ReadDone 2 ROk]%nat with
  | Some s => (negb (misaligned s) && negb (closed s) && all_own s [1; 2]%nat &&
               Nat.eqb (outcome_code (ph (thr s 1%nat))) 1 && Nat.eqb (outcome_code (ph (thr s 2%nat))) 1)%bool
  | None => false
  end = true.
Proof. vm_compute. reflexivity. Qed.

(* a deadline while waiting closes; the other caller then fails too *)
Example conn_abandon_nonvacuous :
  match run init [Enter 1 KDo; Enter 2 KDo; LockW 1; Send 1 true true; LockW 2; Send 2 true true;
                  LockR 1; Deadline 1; LockR 2; PeekFail 2]%nat with
  | Some s => (closed s && Nat.eqb (outcome_code (ph (thr s 1%nat))) 4 &&
               Nat.eqb (outcome_code (ph (thr s 2%nat))) 4)%bool
  | None => false
  end = true.
Proof. vm_compute. reflexivity. Qed.

(* the former ApiVersions witness: a deadline in the middle of the ApiVersions body now closes
   the connection, and the following call fails instead of consuming left-over bytes *)
Example conn_apiversions_abandon_closes :
  match run init [Enter 1 KApiVersions; LockW 1; Send 1 true true; Arrive 1; LockR 1; PeekOwn 1;
                  Deadline 1; Enter 2 KDo; LockW 2; Send 2 false false]%nat with
  | Some s => (closed s && negb (misaligned s) && Nat.eqb (outcome_code (ph (thr s 1%nat))) 4 &&
               Nat.eqb (outcome_code (ph (thr s 2%nat))) 4)%bool
  | None => false
  end = true.
Proof. vm_compute. reflexivity. Qed.

Example conn_apiversions_no_garbage :
  run init [Enter 1 KApiVersions; LockW 1; Send 1 true true; Arrive 1; LockR 1; PeekOwn 1;
            Deadline 1; Enter 2 KDo; LockW 2; Send 2 true true]%nat = None.
Proof. vm_compute. reflexivity. Qed.

(* the monitors on the journal of the seeded two-site change (conn kept after a time-out, id
   reused): request 0 and request 1 both carry id 4 on conn 0, call 1 gets call 0's answer *)
Example monitors_reject_stale_reuse :
  let reqs := [mkJreq 0 3 None; mkJreq 0 4 (Some 0%nat); mkJreq 0 4 (Some 1%nat)] in
  let anss := [mkJans 0 4 0; mkJans 0 4 1] in
  let res := [mkJres 3 None; mkJres 1 (Some 0%nat)] in
  (mon_ids reqs, mon_fail res reqs, mon_delivery res anss) = (false, false, false).
Proof. vm_compute. reflexivity. Qed.

Example monitors_accept_clean_run :
  let reqs := [mkJreq 0 3 None; mkJreq 0 4 (Some 0%nat); mkJreq 2 2 (Some 1%nat); mkJreq 2 3 (Some 2%nat)] in
  let anss := [mkJans 2 2 1; mkJans 2 3 2] in
  let res := [mkJres 3 None; mkJres 1 (Some 1%nat); mkJres 1 (Some 2%nat)] in
  (mon_ids reqs, mon_fail res reqs, mon_delivery res anss) = (true, true, true).
Proof. vm_compute. reflexivity. Qed.

(* mon_split on the journal of the seeded "promises in completion order" change: the answer to
   (partition 2, first) is delivered under the question (partition 2, timestamp 0x2f0) *)
Example mon_split_rejects_misaligned_merge :
  mon_split [(2, -2); (2, 752)] [mkQa 2 (-2) 2001; mkQa 2 752 2852] [mkQa 2 752 2001; mkQa 2 752 2852] = false.
Proof. vm_compute. reflexivity. Qed.
Example mon_split_accepts_aligned_merge :
  mon_split [(2, -2); (2, 752)] [mkQa 2 (-2) 2001; mkQa 2 752 2852] [mkQa 2 752 2852; mkQa 2 (-2) 2001] = true.
Proof. vm_compute. reflexivity. Qed.

(* transport: a cancelled call's answer is consumed by the run loop before the connection is
   reused; a duplicate of it then fails the next exchange instead of being delivered *)
Example pool_nonvacuous :
  match prun pinit [Connect 0 0; HandOff 0; CWrite 0 true; Cancel 0; BAnswer 0 2; BAnswer 0 2;
                    CRead 0; CRelease 0; Grab 1 0; HandOff 1; CWrite 0 true; CRead 0; Await 1;
                    Connect 2 0; HandOff 2; CWrite 1 true; BAnswer 1 2; CRead 1; CRelease 1;
                    Await 2]%nat with
  | Some s => (Nat.eqb (q_outcome (rq s 0%nat)) 3 && Nat.eqb (q_outcome (rq s 1%nat)) 3 &&
               Nat.eqb (q_outcome (rq s 2%nat)) 1 && q_own 2%nat (rq s 2%nat) &&
               Nat.eqb (length (idle s)) 1%nat)%bool
  | None => false
  end = true.
Proof. vm_compute. reflexivity. Qed.

(* ---- the synchronisation skeleton the model assumes (which Go critical section each label of Model/ConnMux.v / conn_do of Model/ConnOps.v stands for, conn_assumptions: Model/SkeletonAssumptions.v)
   holds of /repo's CURRENT source: call/access facts regenerated by harness/cmd/vskel on every run. *)
From KV Require Model.SkeletonAssumptions Gen.Skeleton Proofs.SkeletonConn.
Theorem C06_skeleton_assumptions :
  KV.Model.SkeletonAssumptions.conn_assumptions_hold KV.Gen.Skeleton.calls KV.Gen.Skeleton.accesses = true.
Proof. exact KV.Proofs.SkeletonConn.conn_skeleton_ok. Qed.
Print Assumptions C06_skeleton_assumptions.

(* ---- the synchronisation skeleton the model assumes (which Go critical section / channel operation each label of Model/TransportPool.v stands for, transport_assumptions: Model/SkeletonAssumptions.v)
   holds of /repo's CURRENT source: call/access facts regenerated by harness/cmd/vskel on every run. *)
From KV Require Model.SkeletonAssumptions Gen.Skeleton Proofs.SkeletonTransport.
Theorem C06_transport_skeleton_assumptions :
  KV.Model.SkeletonAssumptions.transport_assumptions_hold KV.Gen.Skeleton.calls KV.Gen.Skeleton.accesses = true.
Proof. exact KV.Proofs.SkeletonTransport.transport_skeleton_ok. Qed.
Print Assumptions C06_transport_skeleton_assumptions.
