(* Properties/C07.v — Writer preserves per-partition submission order, also across retries.
   Only statements; every proof is [exact <lemma>].  Model: Model/Writer.v; a run is
   [run (step cfg) init ls = Some s] for an arbitrary label sequence (every schedule, timer
   firing and sequence of produce failures / lost acknowledgements).

   [submitted_before cfg s g tp m1 m2]: goroutine g submitted m1 before m2 for partition tp —
   at an earlier position of one WriteMessages call or in an earlier call (sync or Async).
   The model's Call step requires g's previous call to have returned: successive calls.

   (batchMessages re-checks w.closed under w.mutex — fix of defect F3 — so no partition writer
   is created after Close and a partition is served by one partition writer in every run.) *)
From Coq Require Import List NArith Bool Arith.
From KV Require Import Lib.LTS Model.Writer Proofs.WriterStmts Proofs.WriterC07 Proofs.WriterHolds7 Proofs.WriterInFlight Proofs.WriterHolds.
Import ListNotations.

(* Every copy of an earlier batch precedes every copy of a later one: if no produce request
   carries both m1 and m2 (they are in different batches) then every position of m1 in the
   partition log is before every position of m2.  (Messages of the SAME batch are re-sent
   together on a retry, so their copies interleave as blocks; their relative order inside
   each block is C07_batch_internal_order.) *)
Theorem C07_order :
  forall cfg ls s, cfg_ok cfg -> run (step cfg) init ls = Some s ->
  forall g tp m1 m2, submitted_before cfg s g tp m1 m2 ->
    (forall a, In a (s_journal s) -> ~ (In m1 (a_msgs a) /\ In m2 (a_msgs a))) ->
    forall i j, nth_error (log_of s tp) i = Some m1 -> nth_error (log_of s tp) j = Some m2 -> i < j.
Proof. exact C07_order_proof. Qed.
Print Assumptions C07_order.

(* The order inside a produce request is the submission order. *)
Theorem C07_batch_internal_order :
  forall cfg ls s, run (step cfg) init ls = Some s ->
  forall g tp m1 m2 a, submitted_before cfg s g tp m1 m2 -> In a (s_journal s) ->
    forall i j, nth_error (a_msgs a) i = Some m1 -> nth_error (a_msgs a) j = Some m2 -> i < j.
Proof. exact C07_batch_internal_order_proof. Qed.
Print Assumptions C07_batch_internal_order.

(* All attempts of batch k of a partition writer precede all attempts of batch k+1 in the
   broker's journal; the attempts of one batch carry identical records to the same partition;
   and a topic-partition is served by one partition writer. *)
Theorem C07_retries_contiguous :
  forall cfg ls s, run (step cfg) init ls = Some s ->
  forall i j a b, nth_error (s_journal s) i = Some a -> nth_error (s_journal s) j = Some b ->
    (a_pw a = a_pw b -> a_k a < a_k b -> i < j) /\
    (a_pw a = a_pw b -> a_k a = a_k b -> a_msgs a = a_msgs b /\ a_tp a = a_tp b) /\
    (a_tp a = a_tp b -> a_pw a = a_pw b).
Proof. exact C07_retries_contiguous_proof. Qed.
Print Assumptions C07_retries_contiguous.

(* batchMessages, under w.mutex, observes w.closed on EVERY call and in EVERY state — also on a
   Writer that has already written (w.writers non-nil but emptied by Close): a call admitted
   before Close that reaches batchMessages after it fails with ErrClosedPipe and registers no
   second partition writer (which would send concurrently with the first one still draining).
   (On the implementation: the close-race-used family — the fake holds the metadata lookup of
   a late call on a used Writer until Close has started.) *)
Theorem C07_late_assign_always_rejected : forall cfg s c cl,
  closed s = true -> nth_error (s_calls s) c = Some cl -> c_ph cl = CEntered ->
  step cfg s (Assign c) = Some (ret_call s c cl (RErr EClosed)).
Proof. exact late_assign_always_rejected. Qed.
Print Assumptions C07_late_assign_always_rejected.

(* One produce round trip per partition in flight: the sender goroutine starts attempt k+1 of a
   batch only after the round trip of attempt k has RETURNED (an attempt and its answer are one
   step of the transition system; Writer.produce calls Client.Produce synchronously — no
   goroutine, no select on ctx.Done()): the attempts started for the batch being sent are exactly
   its journalled round trips, and no batch still queued or open has any.  So an attempt can never
   land after a later attempt or a later batch.  (On the implementation: the late-landing family —
   a RoundTripper that ignores context expiry and holds one produce — and the fake's check that
   no two produce round trips of a partition overlap.) *)
Theorem C07_one_round_trip_in_flight :
  forall cfg ls s, run (step cfg) init ls = Some s ->
  forall p pw, nth_error (s_pws s) p = Some pw ->
    (forall sd, pw_snd pw = Some sd ->
       length (filter (fun a => Nat.eqb (a_pw a) p && Nat.eqb (a_k a) (b_k (sd_batch sd))) (s_journal s)) = sd_att sd) /\
    (forall b, In b (pw_queue pw ++ opt_list (pw_curr pw)) ->
       filter (fun a => Nat.eqb (a_pw a) p && Nat.eqb (a_k a) (b_k b)) (s_journal s) = []).
Proof. exact C07_one_round_trip_in_flight_proof. Qed.
Print Assumptions C07_one_round_trip_in_flight.

(* The extracted boolean predicate that the correspondence run evaluates on every recorded
   real history (per goroutine and partition: the applied produce requests, projected on the
   goroutine's submission ranks, are increasing blocks, each a copy of the previous one or
   entirely after it) is true on every run of the model. *)
Theorem C07_holds_for_on_runs :
  forall cfg ls s g tp, run (step cfg) init ls = Some s ->
    C07_holds_for cfg (s_calls s) (s_journal s) g tp = true.
Proof. exact C07_holds_for_runs. Qed.
Print Assumptions C07_holds_for_on_runs.

(* ---- non-vacuity: BatchSize 1, MaxAttempts 3; goroutine 1 submits m1, m2 (two batches) in one
   call; batch 0 loses its acknowledgement (applied, error 7 retriable) and is retried while
   batch 1 is already queued: the log is [m1; m1; m2]. *)
Definition ex_cfg : config := mkCfg 1 100 3 false (Some 0%N) (fun e => N.eqb e 7).
Definition ex_m (id : N) : msg := mkMsg id None 30 0.
Definition ex_run : list label :=
  [Call 1 [ex_m 1; ex_m 2] None; Assign 0; Get 0; Attempt 0 (AppliedLost 7%N); BackoffDone 0;
   Attempt 0 AppliedAcked; Finish 0; Get 0; Attempt 0 AppliedAcked; Finish 0].
Example C07_nonvacuous :
  exists s, run (step ex_cfg) init ex_run = Some s /\
            submitted_before ex_cfg s 1 (0%N, 0%N) (ex_m 1) (ex_m 2) /\
            map m_id (log_of s (0%N, 0%N)) = [1%N; 1%N; 2%N].
Proof.
  eexists. split; [vm_compute; reflexivity|]. split; [|vm_compute; reflexivity].
  exists [], [], []. vm_compute. reflexivity.
Qed.

(* the interleaving that used to break the order (defect F3, fixed): Async, call 0 = [m1] is
   batched; call 1 = [m2] passes enter(); Close; call 1's batchMessages now fails with
   ErrClosedPipe and m2 is never sent. *)
Definition ex_cfg2 : config := mkCfg 1 100 1 true (Some 0%N) (fun _ => false).
Definition ex_run2 : list label :=
  [Call 1 [ex_m 1] None; Assign 0; Return 0; Call 1 [ex_m 2] None; CloseMark; Assign 1;
   Get 0; Attempt 0 AppliedAcked; Finish 0; Timer 0 0; SenderExit 0; CloseWaitDone].
Example C07_late_call_rejected :
  exists s, run (step ex_cfg2) init ex_run2 = Some s /\
            map c_ph (s_calls s) = [CReturned RNil; CReturned (RErr EClosed)] /\
            map m_id (log_of s (0%N, 0%N)) = [1%N] /\ s_close s = ClReturned.
Proof.
  eexists. split; [vm_compute; reflexivity|]. split; [vm_compute; reflexivity|].
  split; vm_compute; reflexivity.
Qed.

(* ---- the synchronisation skeleton the Writer model assumes (which Go critical section each
   label of Model/Writer.v stands for: Model/SkeletonAssumptions.v, writer_assumptions) holds
   of /repo's CURRENT source: facts regenerated by harness/cmd/vskel on every run. *)
From KV Require Model.SkeletonAssumptions Gen.Skeleton Proofs.SkeletonWriter.
Theorem C07_skeleton_assumptions :
  KV.Model.SkeletonAssumptions.writer_assumptions_hold KV.Gen.Skeleton.calls KV.Gen.Skeleton.accesses = true.
Proof. exact KV.Proofs.SkeletonWriter.writer_skeleton_ok. Qed.
Print Assumptions C07_skeleton_assumptions.
