(* Properties/C20sasl.v — C20 for the one response the Transport reads outside
   protocol.ReadResponse: the raw (SaslHandshake v0) SASL authentication response, a 4-byte
   length taken from the wire followed by that many bytes (protocol/saslauthenticate readResp).
   Only statements; every proof is [exact <lemma>].  The model is Model/Sasl.v (C18's). *)
From Coq Require Import List NArith ZArith Bool.
From KV Require Import Model.Sasl Proofs.SaslRawRead.
Import ListNotations.

(* For EVERY announced length (any integer the four bytes can denote), every sequence of
   payload bytes that actually arrives and either ending (close / silence), the bytes allocated
   for the response are at most 10 x the payload bytes RECEIVED + 2560: never a function of the
   announced length.  [grow] is append's capacity choice, only assumed to lie between 1.25 x
   and 2 x the old capacity (runtime.growslice). *)
Theorem C20_raw_sasl_alloc_proportional :
  forall grow : N -> N,
    (forall c, (512 <= c -> 5 * c <= 4 * grow c)%N) ->
    (forall c, (512 <= c -> grow c <= 2 * c)%N) ->
    forall announced avail e,
      let r := transport_raw_read grow announced avail e in
      (rr_alloc r <= 10 * rr_received r + 2560)%N /\
      (rr_received r <= N.of_nat (length avail))%N /\
      (0 <= announced -> Z.of_N (rr_received r) <= announced).
Proof. exact transport_raw_read_bounded. Qed.
Print Assumptions C20_raw_sasl_alloc_proportional.

(* the instance the correspondence driver evaluates (growslice's formula) *)
Theorem C20_raw_sasl_alloc_proportional_go :
  forall announced avail e,
    let r := raw_read Transport announced avail e in
    (rr_alloc r <= 10 * rr_received r + 2560)%N /\
    (rr_received r <= N.of_nat (length avail))%N /\
    (0 <= announced -> Z.of_N (rr_received r) <= announced).
Proof. exact raw_read_transport_bounded. Qed.
Print Assumptions C20_raw_sasl_alloc_proportional_go.
