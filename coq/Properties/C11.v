(* Properties/C11.v — A Conn stays usable after broker-reported errors and is never reused
   misaligned.  Only statements; every proof is [exact <lemma>].
   Model: Model/Legacy.v (read.go / discard.go) + Model/ConnOps.v (per-operation response
   readers, waitResponse, Conn.do, ReadBatchWith + Batch.close).  [conn_do st o s] = one
   operation on a connection whose peer will deliver the bytes s; it returns the new state, the
   result and the bytes not consumed.  [negotiated a v]: v is a version Conn can use for API a;
   [well_formed a v w]: w is a value of the response grammar of (a, v) (reference encoder [enc])
   answering the one topic / partition the Conn asks for. *)
From Coq Require Import List NArith ZArith Bool.
From KV Require Import Lib.Bits Lib.Bytes Model.Legacy Model.ConnOps.
From KV Require Import Proofs.ConnOpsBase Proofs.ConnOpsCodec Proofs.ConnOpsProofs Proofs.ConnOpsWitness
  Proofs.ConnOpsCustom Proofs.ConnOpsAll Proofs.ConnOpsInflight Proofs.ConnOpsNego.
Import ListNotations.
Open Scope Z_scope.

(* ---- every operation (produce, fetch = ReadBatch+Close, list-offsets, metadata, the group
   APIs, create/delete topics, ApiVersions, SASL), every negotiated version, every well-formed
   response carrying any error code in any of its error fields, whatever follows in the stream:
   if the result is a Kafka error, the reader sits exactly behind the frame and the Conn is
   kept ---- *)
Theorem C11_aligned_after_kafka_error : forall a v w st off code rest st' s',
  negotiated a v = true ->
  well_formed a v w -> fits (enc (resp_ty a v) w) -> closed st = false ->
  conn_do st (mkOp a v off) (frame (wrap32 (corr st + 1)) (enc (resp_ty a v) w) ++ rest)
    = (st', RErr (EKafka code), s') ->
  s' = rest /\ closed st' = false.
Proof. exact aligned_full. Qed.
Print Assumptions C11_aligned_after_kafka_error.

(* equivalently: the next operation runs exactly as on a connection that was never used for
   the first exchange (open, same counters, fed the rest of the stream) *)
Theorem C11_next_as_fresh : forall a v w st off code rest st' s' o2,
  negotiated a v = true ->
  well_formed a v w -> fits (enc (resp_ty a v) w) -> closed st = false ->
  conn_do st (mkOp a v off) (frame (wrap32 (corr st + 1)) (enc (resp_ty a v) w) ++ rest)
    = (st', RErr (EKafka code), s') ->
  conn_do st' o2 s' = conn_do (mkConn false (wrap32 (corr st + 1)) (cfg_topic st) (offset st')) o2 rest.
Proof. exact next_as_fresh. Qed.
Print Assumptions C11_next_as_fresh.

(* the same for ANY incoming bytes (no well-formedness): success of any operation but
   ApiVersions, or a Kafka error of any operation but ApiVersions / list-offsets, means that
   exactly the frame announced by the size prefix was consumed.  For fetch this says what
   ReadBatch + Close consume: the header, and then the whole message set (skipped after a
   broker error, discarded when highWaterMark = offset, discarded by Batch.close otherwise). *)
Theorem C11_frame_exact : forall st o s st' r s',
  closed st = false -> op_api o <> AApiVersions ->
  conn_do st o s = (st', r, s') ->
  match r with
  | ROk _ => True
  | RErr (EKafka _) => op_api o <> AListOffsets
  | _ => False
  end ->
  consumed_frame s s' /\ closed st' = false.
Proof. exact frame_exact. Qed.
Print Assumptions C11_frame_exact.

(* ---- a framing / transport error closes the Conn and every later operation fails ---- *)
(* the one exception, visible in the statement: io.ErrNoProgress (waitResponse returns it
   without closing; with aligned streams and a single goroutine it needs a broker that answers
   with a foreign correlation id) *)
Theorem C11_closed_after_other_error : forall st o s st' e s',
  conn_do st o s = (st', RErr e, s') ->
  is_kafka e = false -> e <> ENoProgress ->
  closed st' = true.
Proof. exact closed_after_other_error. Qed.
Print Assumptions C11_closed_after_other_error.

Theorem C11_closed_every_later_fails : forall st ops s,
  closed st = true ->
  exists st', conn_run st ops s = (st', map (fun _ => RErr EClosed) ops, s) /\ closed st' = true.
Proof. exact closed_run. Qed.
Print Assumptions C11_closed_every_later_fails.

(* ---- Conn.inflight: enter/leave balance and the desynchronisation detector ----
   [conn_do_i (st, n)] threads Conn.inflight = n through one call ([Spins] = the call never
   returns: waitResponse loops on a frame with a foreign correlation id because
   concurrency() <> 1 and no other goroutine will consume it). *)
(* every call that returns leaves the counter where it found it, on every exit path *)
Theorem C11_inflight_balanced : forall st n o s st' n' r s',
  conn_do_i (st, n) o s = ((st', n'), Returns r, s') -> n' = n.
Proof. exact inflight_balanced. Qed.
Print Assumptions C11_inflight_balanced.

(* hence after any completed call sequence inflight = 0, every call returns (the detector is
   enabled for the next call), and the results are those of conn_run, to which the theorems of
   this file apply *)
Theorem C11_inflight_zero_detector_enabled : forall ops st s,
  conn_run_i (st, 0) ops s =
    let '(st', rs, s') := conn_run st ops s in ((st', 0), map Returns rs, s').
Proof. exact run_inflight_zero. Qed.
Print Assumptions C11_inflight_zero_detector_enabled.

(* the detector: a foreign correlation id on an open Conn is io.ErrNoProgress, nothing consumed *)
Theorem C11_foreign_id_is_noprogress : forall st o s,
  closed st = false -> foreign_head (wrap32 (corr st + 1)) s = true ->
  exists st', conn_do st o s = (st', RErr ENoProgress, s) /\ closed st' = false.
Proof. exact foreign_id_is_noprogress. Qed.
Print Assumptions C11_foreign_id_is_noprogress.

(* why the balance matters: with a leaked counter the same situation never returns *)
Theorem C11_leaked_counter_spins : forall st n o s,
  closed st = false -> 1 <= n -> foreign_head (wrap32 (corr st + 1)) s = true ->
  exists sti, conn_do_i (st, n) o s = (sti, Spins, s).
Proof. exact leaked_counter_spins. Qed.
Print Assumptions C11_leaked_counter_spins.

(* ---- no byte of one response is interpreted as part of another: over ANY sequence of
   operations answered by well-formed frames (any error codes, any values), after the run
   either the Conn has closed itself (and consumes nothing more, see above), or exactly the
   frames of the operations performed have been consumed — each operation read its own frame —
   and every result was a success or a Kafka error.  ([script_stream c l] = the frames of l
   with the correlation ids the Conn will use; the statement holds for every prefix.) ---- *)
Theorem C11_no_cross_interpretation : forall l st rest st' rs s',
  closed st = false -> script_ok l ->
  conn_run st (map fst l) (script_stream (corr st) l ++ rest) = (st', rs, s') ->
  closed st' = true \/ (s' = rest /\ closed st' = false /\ Forall done_result rs).
Proof. exact run_aligned. Qed.
Print Assumptions C11_no_cross_interpretation.

(* one step of it: on a well-formed frame an operation either is done (success / Kafka error)
   with the reader exactly behind its frame and the Conn open, or fails otherwise with the
   Conn closed *)
Theorem C11_step : forall st a v off w rest st' r s',
  negotiated a v = true -> well_formed a v w -> fits (enc (resp_ty a v) w) -> closed st = false ->
  conn_do st (mkOp a v off) (frame (wrap32 (corr st + 1)) (enc (resp_ty a v) w) ++ rest) = (st', r, s') ->
  corr st' = wrap32 (corr st + 1) /\
  ((done_result r /\ s' = rest /\ closed st' = false) \/
   (exists e, r = RErr e /\ is_kafka e = false /\ closed st' = true)).
Proof. exact wf_step. Qed.
Print Assumptions C11_step.

(* ---- Conn.offset is not disturbed by a broker error: after a Kafka error (after any result) the
   Conn's offset is the one it was positioned at — for fetch the offset seeked to before the
   call ([op_off], the model's Seek), for every other operation the offset it had.  Together with
   C11_next_as_fresh (stated with [offset st']): the next operation behaves as on a fresh Conn
   positioned at the SAME offset; the retry fetches from there, not from 0 ---- *)
Theorem C11_kafka_error_keeps_offset : forall st o s st' c s',
  conn_do st o s = (st', RErr (EKafka c), s') ->
  offset st' = op_offset st o /\
  (op_api o <> AFetch -> (forall acts, op_api o <> AFetchRead acts) -> offset st' = offset st).
Proof. exact kafka_error_keeps_offset. Qed.
Print Assumptions C11_kafka_error_keeps_offset.

(* ---- version negotiation (negotiateVersion / loadVersions as a step of [conn_nop]; the state is
   (conn_state, cached version map)) ---- *)
(* C11's first sentence for the implicit ApiVersions exchange: when it is answered by a
   well-formed response carrying an error code, the negotiating operation returns that Kafka
   error, NOTHING is cached, the reader sits behind the ApiVersions frame and the Conn is open:
   the next operation behaves as on a fresh connection (it asks ApiVersions again and then sends
   its own request at the version a fresh Conn would choose) *)
Theorem C11_failed_apiversions_as_fresh : forall st a key offered off w code rest st1 s1,
  supported a = Some (key, offered) ->
  well_formed AApiVersions 0 w -> fits (enc (resp_ty AApiVersions 0) w) -> closed st = false ->
  conn_do st (mkOp AApiVersions 0 0)
    (frame (wrap32 (corr st + 1)) (enc (resp_ty AApiVersions 0) w) ++ rest) = (st1, RErr (EKafka code), s1) ->
  conn_nop (st, None) a off (frame (wrap32 (corr st + 1)) (enc (resp_ty AApiVersions 0) w) ++ rest)
    = ((st1, None), RErr (EKafka code), rest) /\
  closed st1 = false /\ corr st1 = wrap32 (corr st + 1).
Proof. exact nego_failed_as_fresh. Qed.
Print Assumptions C11_failed_apiversions_as_fresh.

(* the version map is stored only by a successful ApiVersions exchange, and then kept *)
Theorem C11_versions_cached_only_on_success : forall st a off s st' t r s',
  conn_nop (st, None) a off s = ((st', Some t), r, s') ->
  exists st1 r0 s1, conn_do st (mkOp AApiVersions 0 0) s = (st1, ROk r0, s1) /\ t = table_of r0.
Proof. exact nego_cache_only_on_success. Qed.
Print Assumptions C11_versions_cached_only_on_success.

Theorem C11_versions_cache_kept : forall st t a off s c' r s',
  conn_nop (st, Some t) a off s = (c', r, s') -> snd c' = Some t.
Proof. exact nego_cache_kept. Qed.
Print Assumptions C11_versions_cache_kept.

(* ---- Batch.Read / Batch.ReadMessage / Conn.Read / Conn.ReadMessage: the operation
   [AFetchRead acts] = ReadBatch, the actions (a >= 0: Read into a buffer of a bytes, -1:
   ReadMessage) until io.ErrShortBuffer or the end of the batch, then Batch.Close.  Its result is
   ROk (fin_val flag offset outcomes) when Close returns nil (flag 0) or io.ErrShortBuffer (flag 1):
   exactly the outcomes after which Batch.close keeps the Conn.  All theorems above
   (C11_aligned_after_kafka_error, C11_step, C11_no_cross_interpretation, C17_conn_cut) quantify
   over it as over every other operation.  In particular, on ANY incoming bytes: after Close
   following io.ErrShortBuffer (or success) the reader sits exactly at the next frame boundary
   and the Conn is open ---- *)
Theorem C11_read_short_buffer_aligned : forall st acts v off s st' x s',
  closed st = false ->
  conn_do st (mkOp (AFetchRead acts) v off) s = (st', ROk x, s') ->
  consumed_frame s s' /\ closed st' = false.
Proof.
  intros st acts v off s st' x s' Hcl H.
  exact (frame_exact st (mkOp (AFetchRead acts) v off) s st' (ROk x) s' Hcl
           (fun E => match E in _ = y return match y with AFetchRead _ => True | _ => False end with eq_refl => I end) H I).
Qed.
Print Assumptions C11_read_short_buffer_aligned.

(* instances: ReadMessage, then Read into a 1-byte buffer (value "cde"): io.ErrShortBuffer, the
   batch offset is rolled back to 8, the offset of the message that did not fit; the following
   heartbeat reads its own frame; the documented retry with a larger buffer delivers it *)
Theorem C11_regression_short_buffer :
  conn_run (fresh [116%N]) [mkOp (AFetchRead [-1; 1]) 2 7; hb]
    (frame 1 (enc (resp_ty AFetch 2) w_fetch_two) ++ hb_frame 2)
  = (mkConn false 2 [116%N] 7,
     [ROk (fin_val 1 8 [act_val 1 7 [] [97%N; 98%N] 0; act_val 0 1 [] [99%N] 1]); ROk (VZ 0)], []) /\
  conn_do (fresh [116%N]) (mkOp (AFetchRead [-1; 3]) 2 7) (frame 1 (enc (resp_ty AFetch 2) w_fetch_two))
  = (mkConn false 1 [116%N] 7,
     ROk (fin_val 0 9 [act_val 1 7 [] [97%N; 98%N] 0; act_val 0 3 [] [99%N; 100%N; 101%N] 0]), []).
Proof. exact (conj short_buffer_then_next_ok short_buffer_retry_ok). Qed.
Print Assumptions C11_regression_short_buffer.

(* ---- regression instances: the responses that left the stream misaligned before the fixes
   (defect F2 and the highWaterMark = offset case) ---- *)
Theorem C11_regression_produce :
  then_next_ok AProduce 2 0 w_produce_v2 6 /\ then_next_ok AProduce 3 0 w_produce_v2 6 /\
  then_next_ok AProduce 7 0 w_produce_v7 6.
Proof. exact (conj produce_v2_then_next_ok (conj produce_v3_then_next_ok produce_v7_then_next_ok)). Qed.
Print Assumptions C11_regression_produce.

Theorem C11_regression_fetch :
  then_next_ok AFetch 5 3 w_fetch_v5 1 /\ then_next_ok AFetch 10 3 w_fetch_v10_part 1 /\
  then_next_ok AFetch 10 3 w_fetch_v10_top 6 /\ then_next_ok AFetch 2 3 w_fetch_v2 1.
Proof.
  exact (conj fetch_v5_partition_then_next_ok (conj fetch_v10_partition_then_next_ok
         (conj fetch_v10_toplevel_then_next_ok fetch_v2_partition_then_next_ok))).
Qed.
Print Assumptions C11_regression_fetch.

Theorem C11_regression_fetch_hwm_eq_offset :
  conn_run (fresh [116%N]) [mkOp AFetch 2 100; hb]
    (frame 1 (enc (resp_ty AFetch 2) w_fetch_ok_v2) ++ hb_frame 2)
  = (mkConn false 2 [116%N] 100, [ROk (VL [VZ 0; VZ 100]); ROk (VZ 0)], []).
Proof. exact fetch_hwm_eq_offset_then_next_ok. Qed.
Print Assumptions C11_regression_fetch_hwm_eq_offset.

Theorem C11_regression_former_cross_interpretation :
  conn_run (fresh [116%N]) [mkOp AProduce 2 0; hb; hb; hb; hb; hb]
    (frame 1 (enc (resp_ty AProduce 2) w_produce_v2_thr6)
     ++ hb_frame 2 ++ hb_frame 3 ++ hb_frame 4 ++ hb_frame 5 ++ hb_frame 6)
  = (mkConn false 6 [116%N] (-1),
     [RErr (EKafka 6); ROk (VZ 0); ROk (VZ 0); ROk (VZ 0); ROk (VZ 0); ROk (VZ 0)], []).
Proof. exact former_cross_interpretation_ok. Qed.
Print Assumptions C11_regression_former_cross_interpretation.

(* ---- non-vacuity: the hypotheses are met by concrete non-trivial instances ---- *)
Example C11_nonvacuous_witnesses_well_formed :
  negotiated AProduce 7 = true /\ well_formed AProduce 7 w_produce_v7 /\
  negotiated AFetch 10 = true /\ well_formed AFetch 10 w_fetch_v10_top /\
  well_formed AFetch 5 w_fetch_v5 /\ well_formed AFetch 2 w_fetch_v2.
Proof.
  split; [reflexivity|]. split; [wf_solve|]. split; [reflexivity|].
  split; [wf_solve|]. split; wf_solve.
Qed.

Definition w_joingroup_err : wval :=
  WP (WZ 100) (WP (WZ 27) (WP (WZ 3) (WP (WS (Some [114%N])) (WP (WS (Some [108%N])) (WP (WS None)
     (WL (Some [WP (WS (Some [109%N])) (WS (Some [1%N; 2%N]))]))))))).
#[local] Hint Unfold w_joingroup_err : wvals.
Example C11_nonvacuous_script :
  script_ok [(mkOp AJoinGroup 2 0, w_joingroup_err); (mkOp AProduce 2 0, w_produce_v2);
             (mkOp AHeartbeat 0 0, WZ 0)] /\
  conn_run (fresh [116%N]) [mkOp AJoinGroup 2 0; mkOp AProduce 2 0; hb]
    (script_stream 0 [(mkOp AJoinGroup 2 0, w_joingroup_err); (mkOp AProduce 2 0, w_produce_v2);
                      (mkOp AHeartbeat 0 0, WZ 0)] ++ [7%N])
  = (mkConn false 3 [116%N] (-1), [RErr (EKafka 27); RErr (EKafka 6); ROk (VZ 0)], [7%N]).
Proof.
  split; [|vm_compute; reflexivity].
  repeat (apply Forall_cons || apply Forall_nil); cbn [fst snd op_api op_ver];
    (split; [reflexivity|split; [wf_solve|vm_compute; reflexivity]]).
Qed.

(* ---- the synchronisation skeleton the model assumes (which Go critical section each label of Model/ConnMux.v / conn_do of Model/ConnOps.v stands for, conn_assumptions: Model/SkeletonAssumptions.v)
   holds of /repo's CURRENT source: call/access facts regenerated by harness/cmd/vskel on every run. *)
From KV Require Model.SkeletonAssumptions Gen.Skeleton Proofs.SkeletonConn.
Theorem C11_skeleton_assumptions :
  KV.Model.SkeletonAssumptions.conn_assumptions_hold KV.Gen.Skeleton.calls KV.Gen.Skeleton.accesses = true.
Proof. exact KV.Proofs.SkeletonConn.conn_skeleton_ok. Qed.
Print Assumptions C11_skeleton_assumptions.
