(* Properties/C11.v — A Conn stays usable after broker-reported errors and is never reused
   misaligned.  Only statements; every proof is [exact <lemma>].
   Model: Model/Legacy.v (read.go / discard.go) + Model/ConnOps.v (per-operation response
   readers, waitResponse, Conn.do, Batch.close).  [conn_do st o s] = one operation on a
   connection whose peer will deliver the bytes s; it returns the new state, the result and
   the bytes not consumed. *)
From Coq Require Import List NArith ZArith Bool.
From KV Require Import Lib.Bits Lib.Bytes Model.Legacy Model.ConnOps.
From KV Require Import Proofs.ConnOpsBase Proofs.ConnOpsCodec Proofs.ConnOpsProofs Proofs.ConnOpsWitness
  Proofs.ConnOpsCustom Proofs.ConnOpsAll.
Import ListNotations.
Open Scope Z_scope.

(* ---- the full statement (every operation, version, well-formed response, error field,
   error code): REFUTED on the current code for produce and fetch (defect F2), see below ---- *)
Definition C11_aligned_after_kafka_error_full_statement : Prop :=
  forall a v w st off code rest st' s',
    well_formed a v w -> fits (enc (resp_ty a v) w) -> closed st = false ->
    conn_do st (mkOp a v off) (frame (wrap32 (corr st + 1)) (enc (resp_ty a v) w) ++ rest)
      = (st', RErr (EKafka code), s') ->
    s' = rest /\ closed st' = false.

(* proved for EVERY operation of Conn except produce and fetch, every version, error field and
   code: the operations that read their whole response and only then look at error codes
   (metadata v1/v6, brokers, controller, find-coordinator, join/sync/heartbeat/leave,
   offset-commit/fetch, list-groups, create/delete-topics, sasl handshake/authenticate:
   [schema_api]), list-offsets v1 and ApiVersions v0.  Missing for the full statement: produce
   and fetch, which are refuted below. *)
Theorem C11_aligned_after_kafka_error_partial : forall a v w st off code rest st' s',
  (schema_api a = true \/ (a = AListOffsets /\ v = 1%N) \/ (a = AApiVersions /\ v = 0%N)) ->
  well_formed a v w -> fits (enc (resp_ty a v) w) -> closed st = false ->
  conn_do st (mkOp a v off) (frame (wrap32 (corr st + 1)) (enc (resp_ty a v) w) ++ rest)
    = (st', RErr (EKafka code), s') ->
  s' = rest /\ closed st' = false.
Proof. intros a v w st off code rest st' s' H. exact (aligned_all_but_produce_fetch a v H w st off code rest st' s'). Qed.
Print Assumptions C11_aligned_after_kafka_error_partial.

(* produce, every version, EVERY well-formed response carrying a partition error code: the
   4-byte throttle field is left in the stream (the general form of F2 for produce) *)
Theorem C11_produce_error_always_misaligned : forall v w st off code rest st' s',
  well_formed AProduce v w -> fits (enc (resp_ty AProduce v) w) -> closed st = false ->
  conn_do st (mkOp AProduce v off) (frame (wrap32 (corr st + 1)) (enc (resp_ty AProduce v) w) ++ rest)
    = (st', RErr (EKafka code), s') ->
  exists thr, s' = put_bes 4 thr ++ rest /\ closed st' = false.
Proof. exact produce_error_never_aligned. Qed.
Print Assumptions C11_produce_error_always_misaligned.

(* produce and list-offsets on a well-formed response never fail otherwise: success (frame
   consumed) or the Kafka error *)
Theorem C11_produce_total : forall st v off name part thr rest,
  wt TStr name -> wt (t_produce_part v) part ->
  let body := enc (resp_ty AProduce v) (w_produce name part thr) in
  let id := wrap32 (corr st + 1) in
  fits body -> closed st = false ->
  (exists x, conn_do st (mkOp AProduce v off) (frame id body ++ rest)
             = (mkConn false id (cfg_topic st) (offset st), ROk x, rest)) \/
  (exists c, conn_do st (mkOp AProduce v off) (frame id body ++ rest)
             = (mkConn false id (cfg_topic st) (offset st), RErr (EKafka c), put_bes 4 thr ++ rest)).
Proof. exact conn_do_produce_frame. Qed.
Print Assumptions C11_produce_total.

(* the same without any assumption on the incoming bytes: success or a Kafka error of such an
   operation means it consumed exactly the frame announced by the size prefix *)
Theorem C11_frame_exact : forall st o s st' r s',
  closed st = false -> op_api o <> AFetch -> op_api o <> AApiVersions ->
  conn_do st o s = (st', r, s') ->
  match r with
  | ROk _ => True
  | RErr (EKafka _) => schema_api (op_api o) = true
  | _ => False
  end ->
  consumed_frame s s' /\ closed st' = false.
Proof. exact frame_exact. Qed.
Print Assumptions C11_frame_exact.

(* after a Kafka error the next operation runs exactly as on a connection that was never
   used for the first exchange (same counters, open, positioned at the next frame) *)
Theorem C11_next_as_fresh : forall st o s st' code s' o2,
  closed st = false -> schema_api (op_api o) = true ->
  conn_do st o s = (st', RErr (EKafka code), s') ->
  consumed_frame s s' /\
  conn_do st' o2 s' = conn_do (mkConn false (corr st') (cfg_topic st) (offset st')) o2 s'.
Proof. exact next_as_fresh. Qed.
Print Assumptions C11_next_as_fresh.

(* refutations (F2): concrete well-formed responses after which the stream is misaligned *)
Theorem C11_aligned_refuted_produce :
  ~ aligned_statement AProduce 2 /\ ~ aligned_statement AProduce 3 /\ ~ aligned_statement AProduce 7.
Proof. exact (conj refuted_produce_v2 (conj refuted_produce_v3 refuted_produce_v7)). Qed.
Print Assumptions C11_aligned_refuted_produce.

Theorem C11_aligned_refuted_fetch_partition :
  ~ aligned_statement AFetch 5 /\ ~ aligned_statement AFetch 10 /\ ~ aligned_statement AFetch 2.
Proof. exact (conj refuted_fetch_partition_v5 (conj refuted_fetch_partition_v10 refuted_fetch_partition_v2)). Qed.
Print Assumptions C11_aligned_refuted_fetch_partition.

Theorem C11_aligned_refuted_fetch_toplevel : ~ aligned_statement AFetch 10.
Proof. exact refuted_fetch_toplevel_v10. Qed.
Print Assumptions C11_aligned_refuted_fetch_toplevel.

Theorem C11_full_statement_refuted : ~ C11_aligned_after_kafka_error_full_statement.
Proof. exact (fun H => refuted_produce_v2 (H AProduce 2%N)). Qed.
Print Assumptions C11_full_statement_refuted.

(* what the next operation returns after the produce witness: io.ErrNoProgress, Conn kept *)
Theorem C11_refuted_next_operation :
  conn_run (fresh [116%N]) [mkOp AProduce 2 0; hb]
    (frame 1 (enc (resp_ty AProduce 2) w_produce_v2) ++ hb_frame 2)
  = (mkConn false 2 [116%N] (-1), [RErr (EKafka 6); RErr ENoProgress], [0;0;0;0]%N ++ hb_frame 2).
Proof. exact produce_then_next_noprogress. Qed.
Print Assumptions C11_refuted_next_operation.

(* ---- a framing / transport error closes the Conn and every later operation fails ---- *)
(* exceptions, both visible in the statement: io.ErrNoProgress (waitResponse returns it without
   closing) and ApiVersions (does not go through Conn.do) *)
Theorem C11_closed_after_other_error : forall st o s st' e s',
  conn_do st o s = (st', RErr e, s') ->
  is_kafka e = false -> e <> ENoProgress -> op_api o <> AApiVersions ->
  closed st' = true.
Proof. exact closed_after_other_error. Qed.
Print Assumptions C11_closed_after_other_error.

Theorem C11_closed_every_later_fails : forall st ops s,
  closed st = true ->
  exists st', conn_run st ops s = (st', map (fun _ => RErr EClosed) ops, s) /\ closed st' = true.
Proof. exact closed_run. Qed.
Print Assumptions C11_closed_every_later_fails.

(* ---- no byte of one response is interpreted as part of another ---- *)
Definition C11_no_cross_interpretation_full_statement : Prop :=
  forall ops st s st' rs s',
    closed st = false -> conn_run st ops s = (st', rs, s') ->
    Forall (fun r => match r with ROk _ | RErr (EKafka _) => True | _ => False end) rs ->
    frames_consumed s (length ops) s'.

(* proved for runs whose outcomes are successes of any operation but fetch / ApiVersions, or
   Kafka errors of the read-everything-first operations; missing: Kafka errors of produce,
   fetch, list-offsets (F2), fetch successes (hwm = offset with a non-empty message set leaves
   the set unread) *)
Theorem C11_no_cross_interpretation_partial : forall ops st s st' rs s',
  closed st = false ->
  conn_run st ops s = (st', rs, s') ->
  Forall2 clean_outcome ops rs ->
  frames_consumed s (length ops) s' /\ closed st' = false.
Proof. exact run_frames_exact. Qed.
Print Assumptions C11_no_cross_interpretation_partial.

(* the full statement fails: after the produce witness (throttle 6) ErrNoProgress does not close
   the Conn and the fifth heartbeat "succeeds" on bytes of a foreign frame header *)
Theorem C11_no_cross_interpretation_refuted :
  exists st s,
    conn_run (fresh [116%N]) [mkOp AProduce 2 0; hb; hb; hb; hb; hb]
      (frame 1 (enc (resp_ty AProduce 2) w_produce_v2_thr6)
       ++ hb_frame 2 ++ hb_frame 3 ++ hb_frame 4 ++ hb_frame 5 ++ hb_frame 6)
    = (st, [RErr (EKafka 6); RErr ENoProgress; RErr ENoProgress; RErr ENoProgress;
            RErr ENoProgress; ROk (VZ 0)], s) /\ closed st = false.
Proof. exact cross_interpretation_witness. Qed.
Print Assumptions C11_no_cross_interpretation_refuted.

(* ---- non-vacuity: the hypotheses are met by concrete non-trivial instances ---- *)
Definition w_joingroup_err : wval :=
  WP (WZ 100) (WP (WZ 27) (WP (WZ 3) (WP (WS (Some [114%N])) (WP (WS (Some [108%N])) (WP (WS None)
     (WL (Some [WP (WS (Some [109%N])) (WS (Some [1%N; 2%N]))]))))))).
#[local] Hint Unfold w_joingroup_err : wvals.
Example C11_nonvacuous_joingroup_kafka_error :
  well_formed AJoinGroup 2 w_joingroup_err /\
  conn_run (fresh [116%N]) [mkOp AJoinGroup 2 0; hb]
    (frame 1 (enc (resp_ty AJoinGroup 2) w_joingroup_err) ++ hb_frame 2)
  = (mkConn false 2 [116%N] (-1), [RErr (EKafka 27); ROk (VZ 0)], []).
Proof. split; [wf_solve|vm_compute; reflexivity]. Qed.

Example C11_nonvacuous_produce_ok :
  well_formed AProduce 2 w_produce_v2 /\
  exists w, well_formed AProduce 7 w /\
    conn_run (fresh [116%N]) [mkOp AProduce 7 0; hb]
      (frame 1 (enc (resp_ty AProduce 7) w) ++ hb_frame 2)
    = (mkConn false 2 [116%N] (-1), [ROk (VL [VZ 0; VZ 5; VZ 7]); ROk (VZ 0)], []).
Proof.
  split; [wf_solve|].
  exists (WP (one_tp (WP (WZ 0) (WP (WZ 0) (WP (WZ 5) (WP (WZ 7) (WZ 0)))))) (WZ 0)).
  split; [wf_solve|vm_compute; reflexivity].
Qed.
