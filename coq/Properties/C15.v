(* Properties/C15.v — A consumer group has one live generation at a time and ends it
   promptly.  Only statements; every proof is [exact <lemma>].

   All theorems quantify over every label sequence [ls] accepted by the atomic-step model of
   /repo/consumergroup.go ([run (init w) ls = Some s]; w = number of partition watchers), i.e.
   over every schedule of the goroutines, every user behaviour (Start, function exit, Next,
   Close) and every history of coordinator answers (success, RebalanceInProgress, other Kafka
   error, dropped connection at each call).  [hist s] is the ghost history, newest first:
   in [hist s = post ++ e :: pre], [pre] is what happened before [e]. *)
From Coq Require Import List ZArith Bool Arith.
From KV Require Import Model.ConsumerGroup Proofs.ConsumerGroupBase Proofs.ConsumerGroupAcc
  Proofs.ConsumerGroupLive Proofs.ConsumerGroupRun Proofs.ConsumerGroupProofs.
Import ListNotations.

(* ---- accounting of Generation.Start / close (the interleaving-sensitive part) ----
   no channel is closed twice; closed = done; routines = number of accounted functions whose
   exit handler has not run; joined is closed exactly when the generation has ended, routines
   is 0 and an accounted function existed; gen.close() only waits when an accounted function
   exists, and while it waits with joined still open some accounted function has yet to run
   its exit handler (no lost wake-up). *)
Theorem C15_accounting : forall w ls s, run (init w) ls = Some s ->
  panicked s = false /\
  (forall k g, nth_error (gens s) k = Some g ->
     g_closed g = g_done g /\ g_routines g = Z.of_nat (count_live k (fns s)) /\
     (g_joined g = true <-> (g_closed g = true /\ g_routines g = 0%Z /\ has_acc k (fns s) = true))) /\
  (forall wy, pc s = PCloseWait wy ->
     exists g, nth_error (gens s) (cur s) = Some g /\ g_closed g = true /\
               has_acc (cur s) (fns s) = true /\
               (g_joined g = false -> 0 < count_live (cur s) (fns s))).
Proof. exact accounting_holds. Qed.
Print Assumptions C15_accounting.

(* the exit handler of a returned accounted function is always enabled (it only needs the lock) *)
Theorem C15_exit_handler_enabled : forall w ls s, run (init w) ls = Some s ->
  forall k i f, nth_error (fns s) i = Some f -> live_of k f = true -> f_st f = FReturned ->
  exists s', step s (LFnHandler i) = Some s'.
Proof. exact live_fn_can_move. Qed.
Print Assumptions C15_exit_handler_enabled.

(* ---- cancel on end: gen.done is closed (every context of the generation is cancelled) in
   the very step in which an accounted function's exit handler runs or gen.close() (Close /
   end of generation) reaches it; if it was still open, HDone is recorded in that step ---- *)
Theorem C15_cancel_on_end : forall w ls s l s',
  run (init w) ls = Some s -> step s l = Some s' ->
  forall k, ends_gen s l = Some k ->
  exists g', nth_error (gens s') k = Some g' /\ g_done g' = true /\ g_closed g' = true /\
    (gen_done s k = false -> exists es, hist s' = es ++ hist s /\ In (HDone k) es).
Proof. exact cancel_on_end_holds. Qed.
Print Assumptions C15_cancel_on_end.

(* a failed heartbeat, a watcher seeing a change / losing the connection / failing its first
   query, and any function return put the function into the state whose only next step is
   that exit handler (accounted) — or it was a late start ... *)
Theorem C15_cancel_on_end_triggers : forall s l s' i, step s l = Some s' -> triggers l = Some i ->
  exists f f', nth_error (fns s) i = Some f /\ f_st f = FRunning /\
    nth_error (fns s') i = Some f' /\
    f_st f' = (if f_acc f then FReturned else FExited) /\ f_gen f' = f_gen f /\ f_acc f' = f_acc f.
Proof. exact trigger_returns. Qed.
Print Assumptions C15_cancel_on_end_triggers.

(* ... and a late (unaccounted) function only ever exists on a generation that has ended *)
Theorem C15_late_start_only_on_ended_generation : forall w ls s, run (init w) ls = Some s ->
  forall i f, nth_error (fns s) i = Some f -> f_acc f = false -> gen_done s (f_gen f) = true.
Proof. exact late_fn_gen_done. Qed.
Print Assumptions C15_late_start_only_on_ended_generation.

(* ---- one live generation: when Next returns generation j, every function whose Start on
   an earlier generation k was accounted has already returned ---- *)
Theorem C15_one_live_generation : forall w ls s, run (init w) ls = Some s ->
  forall post n j pre, hist s = post ++ HNextRet n j :: pre ->
  forall k f, k < j -> In (HStart k f true) (hist s) -> In (HFnRet k f) pre.
Proof. exact one_live_final. Qed.
Print Assumptions C15_one_live_generation.

(* ---- heartbeats are sent only by the accounted, not yet returned heartbeat function of a
   created generation, with that generation's member id, and never after a later generation
   was created or handed out or after run exited (one request per tick label; the period
   itself is a clock claim outside the model) ---- *)
Theorem C15_heartbeat_only_while_live : forall w ls s, run (init w) ls = Some s ->
  forall post k f m pre, hist s = post ++ HHeartbeat k f m :: pre ->
    In (HStart k f true) pre /\ ~ In (HFnRet k f) pre /\ In (HGenNew k m) pre /\
    (forall j m', In (HGenNew j m') pre -> j <= k) /\
    (forall n j, In (HNextRet n j) pre -> j <= k) /\
    (forall x m', ~ In (HRunExit x m') pre).
Proof. exact heartbeat_final. Qed.
Print Assumptions C15_heartbeat_only_while_live.

(* ---- the heartbeat obligation does not depend on the member assignment of the SyncGroup answer
   (empty for a stand-by member, not covering every configured topic, or spanning several topics):
   (1) a label sequence and the same sequence with every assignment erased have the same run, so
   every theorem of this file holds for every assignment; (2) whatever was assigned, once the
   offset fetch succeeded the heartbeat function is started as an ACCOUNTED function of the new
   generation, and (3) as long as it has not returned, a heartbeat tick with any coordinator answer
   is enabled (a RebalanceInProgress answer makes it return, which ends the generation:
   C15_cancel_on_end_triggers, C15_cancel_on_end).  That ticks come at HeartbeatInterval is a clock
   claim outside the model. ---- *)
Theorem C15_heartbeats_independent_of_assignment :
  (forall ls s, run s (map erase_asg ls) = run s ls) /\
  (forall w ls s, run (init w) ls = Some s ->
    (pc s = PStartHB ->
       exists s' f, step s LStartHB = Some s' /\ nth_error (fns s') (length (fns s)) = Some f /\
                    is_hb f = true /\ f_acc f = true /\ f_gen f = cur s /\ f_st f = FRunning) /\
    (forall i f a, nth_error (fns s) i = Some f -> is_hb f = true -> running f = true ->
       exists s', step s (LHbTick i a) = Some s')).
Proof. exact (conj run_erase_asg heartbeat_started_and_enabled). Qed.
Print Assumptions C15_heartbeats_independent_of_assignment.

(* ---- re-join after back-off: between a failure of nextGeneration other than
   RebalanceInProgress and any later coordinator / JoinGroup request there is a Backoff ---- *)
Theorem C15_rejoin_after_backoff : forall w ls s, run (init w) ls = Some s ->
  forall post e pre, hist s = post ++ e :: pre -> (e = HCoordReq \/ exists m, e = HJoinReq m) ->
  forall pre1 c pre2, pre = pre1 ++ HFail c :: pre2 -> c <> ERebalance -> In HBackoff pre1.
Proof. exact backoff_final. Qed.
Print Assumptions C15_rejoin_after_backoff.

(* ---- leave on close.  "The current member id" is the memberID variable of
   ConsumerGroup.run: it is set from every successful JoinGroup response, kept across generations,
   across RebalanceInProgress results and across a failed JoinGroup request (joinGroup returns
   the id it was given), and cleared only right after a leave attempt for it
   (C15_member_id_cleared_only_after_leave).  [HRunExit x (Some m)] = run returns while that
   variable holds m.  Whenever run exits holding m, a LeaveGroup for m was attempted (request
   sent: HLeaveReq, or the coordinator could not be reached for it: HLeaveUnreach) since the
   last JoinGroup request; and Close returns only after run exited. ---- *)
Theorem C15_leave_on_close : forall w ls s, run (init w) ls = Some s ->
  (forall post x m pre, hist s = post ++ HRunExit x (Some m) :: pre ->
     exists pre1 e pre2, pre = pre1 ++ e :: pre2 /\ ev_is_leave m e = true /\ forall m', ~ In (HJoinReq m') pre1)
  /\ (forall post c pre, hist s = post ++ HCloseRet c :: pre -> exists x m, In (HRunExit x m) pre).
Proof. exact leave_final. Qed.
Print Assumptions C15_leave_on_close.

(* the same read at the Close return: run has exited before it, and if run held m the leave
   attempt for m precedes the Close return *)
Theorem C15_leave_before_close_returns : forall w ls s, run (init w) ls = Some s ->
  forall post c pre, hist s = post ++ HCloseRet c :: pre ->
  exists x om, In (HRunExit x om) pre /\
    (forall m, om = Some m -> exists e, In e pre /\ ev_is_leave m e = true).
Proof. exact leave_before_close_return. Qed.
Print Assumptions C15_leave_before_close_returns.

(* a member id is held at exit only on the ErrGroupClosed path and on the exit from the error
   offer after RebalanceInProgress (the former defect F5, fixed in /repo: run now leaves there) *)
Theorem C15_member_id_held_at_exit_only_on : forall w ls s, run (init w) ls = Some s ->
  forall x m, In (HRunExit x (Some m)) (hist s) -> x = XOffer ERebalance \/ x = XClosed.
Proof. exact leave_only_gap. Qed.
Print Assumptions C15_member_id_held_at_exit_only_on.

(* run's member id variable goes from holding m to empty only in a step that has just recorded
   a leave attempt for m (before the fix of joinGroup a failed JoinGroup request cleared it
   silently); with C15_leave_on_close: a member id obtained from the coordinator is never
   abandoned without a LeaveGroup attempt, whether at Close or before a back-off *)
Theorem C15_member_id_cleared_only_after_leave : forall s l s' m,
  step s l = Some s' -> mid s = Some m -> mid s' = None -> left_since_join m (hist s') = true.
Proof. exact id_cleared_only_after_leave. Qed.
Print Assumptions C15_member_id_cleared_only_after_leave.

(* regression of the JoinGroup-error witness: generation 0 of member 1 ends (heartbeat answered
   RebalanceInProgress), the re-join with id 1 is lost: LeaveGroup for 1 follows that JoinGroup
   request, before Close returns *)
Theorem C15_joinerr_scenario_leaves : exists s, run (init 0) joinerr_scenario = Some s /\
  mon_leave_full (hist s) = true /\ In (HCloseRet 0) (hist s) /\
  (exists post pre, hist s = post ++ HLeaveReq 1 :: pre /\ In (HJoinReq (Some 1)) pre).
Proof. exact joinerr_scenario_leaves. Qed.
Print Assumptions C15_joinerr_scenario_leaves.

(* regression of the former F5 witness: join as member 1, SyncGroup answers RebalanceInProgress,
   nobody calls Next, Close: LeaveGroup for member 1 is sent before Close returns *)
Theorem C15_f5_scenario_leaves : exists s, run (init 0) f5_scenario = Some s /\
  mon_leave_full (hist s) = true /\ In (HLeaveReq 1) (hist s) /\ In (HCloseRet 0) (hist s).
Proof. exact f5_scenario_leaves. Qed.
Print Assumptions C15_f5_scenario_leaves.

(* ---- the leader's metadata reads inside the JoinGroup step (assignTopicPartitions): one read for
   all topics; only when it answers UnknownTopicOrPartition and there are >= 2 topics, at most one
   more read per topic; the step fails with class e only if some read answered an error e other
   than UnknownTopicOrPartition.  (The generation theorems do not depend on the number of reads:
   the step is one LJoin label whose leadership outcome is [fst (leader_assign ...)]; the
   differential run compares the number of reads with the real code.) ---- *)
Theorem C15_leader_metadata_reads : forall nt first per ld n, leader_assign nt first per = (ld, n) ->
  1 <= n <= S nt /\ (1 < n -> first = MUnknown /\ 2 <= nt) /\
  (forall e, ld = LeaderFail e -> first = MErr e \/ (first = MUnknown /\ In (MErr e) (firstn nt per))) /\
  ld <> NotLeader.
Proof. exact leader_assign_spec. Qed.
Print Assumptions C15_leader_metadata_reads.

(* ---- the coordinator connection layer under the [coordinator] interface (makeConnect /
   timeoutCoordinator over a real Conn; tied to the code by the wire-level family `conn`).
   The deadline armed before a call is Timeout, except Timeout+RebalanceTimeout for JoinGroup and
   Timeout+SessionTimeout for SyncGroup: in particular an unanswered Heartbeat or LeaveGroup fails
   after Timeout whatever the session timeout is, so "the generation ends when a heartbeat fails"
   takes effect within HeartbeatInterval + Timeout.  (Measured times are clock observations: the
   harness compares the class of the failure time, with margins, not the theorem.) ---- *)
Theorem C15_deadline_of_call : forall t r s c,
  t <= deadline_ms t r s c /\
  (c <> CJoinGroup -> c <> CSyncGroup -> deadline_ms t r s c = t) /\
  deadline_ms t r s CHeartbeat = t /\ deadline_ms t r s CLeaveGroup = t /\
  deadline_ms t r s CJoinGroup = t + r /\ deadline_ms t r s CSyncGroup = t + s.
Proof. exact deadline_ms_spec. Qed.
Print Assumptions C15_deadline_of_call.

(* connecting tries every bootstrap broker in order: it fails iff all are down, and otherwise uses
   the first reachable one — so a generation is reached, and LeaveGroup can be sent at Close,
   whenever some broker is up *)
Theorem C15_connect_tries_all : forall up,
  (connect up = None <-> forall b, In b up -> b = false) /\
  (forall i, connect up = Some i ->
     nth_error up i = Some true /\ forall j, j < i -> nth_error up j = Some false).
Proof. exact connect_tries_all. Qed.
Print Assumptions C15_connect_tries_all.

(* ---- the boolean monitors run on the implementation's recorded timelines are the ones the
   theorems above are read from ---- *)
Theorem C15_monitors_hold : forall w ls s, run (init w) ls = Some s ->
  mon_one_live (hist s) = true /\ mon_heartbeat (hist s) = true /\
  mon_backoff (hist s) = true /\ mon_leave_full (hist s) = true.
Proof. exact monitors_final. Qed.
Print Assumptions C15_monitors_hold.

(* order of a generation's end: done is closed at most once per generation, before joined is
   closed, before any late Start on it, and before the next generation is created *)
Theorem C15_generation_end_order : forall w ls s, run (init w) ls = Some s -> mon_done (hist s) = true.
Proof. exact done_holds. Qed.
Print Assumptions C15_generation_end_order.

(* ---- non-vacuity: a run with two generations, a watcher, accounted and late starts, a failed
   heartbeat-less rebalance by function exit, a failed join with back-off, Close during publish ---- *)
Definition C15_example_run : list label :=
  [LCoord AOk; LJoin (JOk 1 LeaderOk); LSync AOk [(0, [0; 1])]; LFetch AOk; LStartHB; LStartWatch;
   LNextCall 0; LNextGen 0; LStart 0; LStart 0; LHbTick 0 AOk; LWatchInit 1 AOk;
   LFnReturn 2; LFnHandler 2; LWaitGenDone; LGenCloseLock; LStart 0; LFnSeeDone 0; LFnSeeDone 1;
   LFnHandler 1; LFnReturn 3; LFnHandler 0; LFnHandler 3; LGenCloseJoined;
   LCoord AOk; LJoin (JErr EKafka); LLeaveCoord AOk; LLeaveReq AOk; LNextCall 1; LNextErr 1; LBackoffFire;
   LCoord AOk; LJoin (JOk 2 NotLeader); LSync AOk []; LFetch AOk; LStartHB; LStartWatch;
   LNextCall 2; LNextGen 2; LHbTick 5 (AErr ERebalance); LFnHandler 5;
   LWatchInit 6 (AErr EDropped); LFnHandler 6; LWaitGenDone; LGenCloseLock;
   LCoord AOk; LCloseCall 0; LJoin (JOk 2 NotLeader); LSync AOk [(0, [3]); (1, [0; 2])]; LFetch AOk; LStartHB; LStartWatch;
   LPublishAbort; LGenCloseLock; LFnSeeDone 7; LFnHandler 7; LWatchInit 8 AOk; LFnSeeDone 8; LFnHandler 8;
   LGenCloseJoined; LLeaveCoord AOk; LLeaveReq AOk; LCloseRet 0].

Example C15_example :
  option_map (fun s => (pc s, mid s, length (gens s), length (fns s), C15_holds (hist s), mon_leave_full (hist s),
                        existsb (fun e => match e with HNextRet _ 1 => true | _ => false end) (hist s),
                        existsb (fun e => match e with HBackoff => true | _ => false end) (hist s),
                        existsb (fun e => match e with HHeartbeat 1 5 2 => true | _ => false end) (hist s),
                        existsb (fun e => match e with HStart 0 4 false => true | _ => false end) (hist s)))
             (run (init 1) C15_example_run)
  = Some (PExited, Some 2, 3, 9, true, true, true, true, true, true).
Proof. vm_compute. reflexivity. Qed.

(* ---- the synchronisation skeleton the consumer-group model assumes (which Go critical
   section / channel operation each label of Model/ConsumerGroup.v stands for:
   Model/SkeletonAssumptions.v, consumergroup_assumptions) holds of /repo's CURRENT source:
   facts regenerated by harness/cmd/vskel on every run. *)
From KV Require Model.SkeletonAssumptions Gen.Skeleton Proofs.SkeletonConsumerGroup.
Theorem C15_skeleton_assumptions :
  KV.Model.SkeletonAssumptions.consumergroup_assumptions_hold KV.Gen.Skeleton.calls KV.Gen.Skeleton.accesses = true.
Proof. exact KV.Proofs.SkeletonConsumerGroup.consumergroup_skeleton_ok. Qed.
Print Assumptions C15_skeleton_assumptions.
