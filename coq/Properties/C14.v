(* Properties/C14.v — Group balancers (Range, RoundRobin, RackAffinity) assign every
   partition to exactly one subscriber, evenly.  Only statements; every proof is
   [exact <lemma>].

   Vocabulary (Model/GroupBalancers.v): a balancer's result is a list of
   (member id, topic, partitions) — the Go map groupAssignments[id][topic];
   [assigned a id t] is groupAssignments[id][t] (nil when absent).
   Proofs/*: [wf_group ms] = distinct member ids and duplicate-free topic lists;
   [subscribes t m] = t in m.Topics; [tkeys a] = the (id, topic) keys of the result;
   [topic_parts a t] = concatenation of everything assigned for topic t;
   [subscribers t ms] = the subscribers of t sorted by id (see C14_subscribers_spec);
   [slice lo hi l] = l[lo:hi]. *)
From Coq Require Import List NArith ZArith Bool Arith Permutation Sorted.
From KV Require Import Model.GroupBalancers Proofs.GroupBalancersBase Proofs.GroupBalancersRange
  Proofs.GroupBalancersRR Proofs.GroupBalancersProofs Proofs.GroupBalancersRackGlobal
  Proofs.GroupBalancersLeader Proofs.GroupBalancersSync.
Import ListNotations.

(* ---- exactly once, to a subscriber, nothing else ----
   The result is a map (no key twice); every key is (a listed member, a topic it
   subscribes to); and for every topic the partitions assigned over all members are, as a
   multiset, exactly the listed partitions of that topic when it has a subscriber, and
   none otherwise.  (With distinct partition ids: each partition is held by exactly one
   member.) *)
Theorem C14_range_partition : forall ms ps, wf_group ms ->
  let a := range_assign ms ps in
  NoDup (tkeys a) /\
  (forall tr, In tr a ->
     exists m, In m ms /\ m_id m = fst (fst tr) /\ In (snd (fst tr)) (m_topics m)) /\
  (forall t, Permutation (topic_parts a t)
                         (if existsb (subscribes t) ms then find_partitions t ps else [])).
Proof. exact range_partition. Qed.
Print Assumptions C14_range_partition.

Theorem C14_rr_partition : forall ms ps, wf_group ms ->
  let a := rr_assign ms ps in
  NoDup (tkeys a) /\
  (forall tr, In tr a ->
     exists m, In m ms /\ m_id m = fst (fst tr) /\ In (snd (fst tr)) (m_topics m)) /\
  (forall t, Permutation (topic_parts a t)
                         (if existsb (subscribes t) ms then find_partitions t ps else [])).
Proof. exact rr_partition. Qed.
Print Assumptions C14_rr_partition.

(* RackAffinity ranges over two Go maps; [zo t] / [ro t] are the orders in which the two
   loops of assignTopic visit the racks (zones) of topic t: any permutations.  It never
   panics (no slice bound or index is exceeded, no division by zero), for every order. *)
Theorem C14_rack_no_panic : forall zo ro ms ps, wf_group ms ->
  (forall t, Permutation (zo t) (zones_of (aget t (partitions_by_topic ps))) /\
             Permutation (ro t) (zones_of (aget t (partitions_by_topic ps)))) ->
  exists a, rack_assign zo ro ms ps = Some a.
Proof. exact rack_no_panic. Qed.
Print Assumptions C14_rack_no_panic.

Theorem C14_rack_partition : forall zo ro ms ps a, wf_group ms ->
  (forall t, Permutation (zo t) (zones_of (aget t (partitions_by_topic ps))) /\
             Permutation (ro t) (zones_of (aget t (partitions_by_topic ps)))) ->
  rack_assign zo ro ms ps = Some a ->
  NoDup (tkeys a) /\
  (forall tr, In tr a ->
     exists m, In m ms /\ m_id m = fst (fst tr) /\ In (snd (fst tr)) (m_topics m)) /\
  (forall t, Permutation (topic_parts a t)
                         (if existsb (subscribes t) ms then find_partitions t ps else [])).
Proof. exact rack_partition. Qed.
Print Assumptions C14_rack_partition.

(* with distinct partition ids in a topic, "exactly one member" literally: for any result
   satisfying the three clauses above (so for all three balancers), every listed
   partition of a subscribed topic is held by one and only one listed member, a
   subscriber of the topic *)
Theorem C14_exactly_one_holder : forall ms ps a t p, wf_group ms ->
  (NoDup (tkeys a) /\
   (forall tr, In tr a ->
      exists m, In m ms /\ m_id m = fst (fst tr) /\ In (snd (fst tr)) (m_topics m)) /\
   (forall t, Permutation (topic_parts a t)
                          (if existsb (subscribes t) ms then find_partitions t ps else []))) ->
  NoDup (find_partitions t ps) -> In p (find_partitions t ps) ->
  existsb (subscribes t) ms = true ->
  exists m, In m ms /\ In t (m_topics m) /\ In p (assigned a (m_id m) t) /\
    forall m', In m' ms -> In p (assigned a (m_id m') t) -> m' = m.
Proof. exact exactly_one_holder. Qed.
Print Assumptions C14_exactly_one_holder.

(* ---- evenness: per topic, with P listed partitions and M subscribers, every subscriber
   holds floor(P/M) or floor(P/M)+1 of them; any two differ by at most one ---- *)
Theorem C14_range_even : forall ms ps, wf_group ms ->
  forall t m1 m2, In m1 ms -> In m2 ms -> In t (m_topics m1) -> In t (m_topics m2) ->
    let a := range_assign ms ps in
    let P := length (find_partitions t ps) in
    let M := length (filter (subscribes t) ms) in
    length (assigned a (m_id m1) t) <= length (assigned a (m_id m2) t) + 1 /\
    P / M <= length (assigned a (m_id m1) t) <= P / M + 1.
Proof. exact range_even. Qed.
Print Assumptions C14_range_even.

Theorem C14_rr_even : forall ms ps, wf_group ms ->
  forall t m1 m2, In m1 ms -> In m2 ms -> In t (m_topics m1) -> In t (m_topics m2) ->
    let a := rr_assign ms ps in
    let P := length (find_partitions t ps) in
    let M := length (filter (subscribes t) ms) in
    length (assigned a (m_id m1) t) <= length (assigned a (m_id m2) t) + 1 /\
    P / M <= length (assigned a (m_id m1) t) <= P / M + 1.
Proof. exact rr_even. Qed.
Print Assumptions C14_rr_even.

Theorem C14_rack_even : forall zo ro ms ps a, wf_group ms ->
  (forall t, Permutation (zo t) (zones_of (aget t (partitions_by_topic ps))) /\
             Permutation (ro t) (zones_of (aget t (partitions_by_topic ps)))) ->
  rack_assign zo ro ms ps = Some a ->
  forall t m1 m2, In m1 ms -> In m2 ms -> In t (m_topics m1) -> In t (m_topics m2) ->
    let P := length (find_partitions t ps) in
    let M := length (filter (subscribes t) ms) in
    length (assigned a (m_id m1) t) <= length (assigned a (m_id m2) t) + 1 /\
    P / M <= length (assigned a (m_id m1) t) <= P / M + 1.
Proof. exact rack_even. Qed.
Print Assumptions C14_rack_even.

(* ---- Range and RoundRobin depend on the set of members, not on the listing order ---- *)
Theorem C14_range_order_independent : forall ms ms' ps, wf_group ms -> Permutation ms ms' ->
  forall id t, assigned (range_assign ms ps) id t = assigned (range_assign ms' ps) id t.
Proof. exact range_order_independent. Qed.
Print Assumptions C14_range_order_independent.

Theorem C14_rr_order_independent : forall ms ms' ps, wf_group ms -> Permutation ms ms' ->
  forall id t, assigned (rr_assign ms ps) id t = assigned (rr_assign ms' ps) id t.
Proof. exact rr_order_independent. Qed.
Print Assumptions C14_rr_order_independent.

(* [subscribers t ms]: the subscribers of t, strictly sorted by id (Go string order) *)
Theorem C14_subscribers_spec : forall t ms, NoDup (map m_id ms) ->
  Permutation (subscribers t ms) (filter (subscribes t) ms) /\
  StronglySorted (fun a b => bytes_ltb (m_id a) (m_id b) = true) (subscribers t ms).
Proof. exact subscribers_spec. Qed.
Print Assumptions C14_subscribers_spec.

(* ---- Range: the i-th subscriber (by id) holds the contiguous run
   parts[i*P/M : (i+1)*P/M] of the listed partition order ---- *)
Theorem C14_range_contiguous : forall ms ps t m, wf_group ms -> In m ms -> In t (m_topics m) ->
  let parts := find_partitions t ps in
  let P := length parts in
  let M := length (subscribers t ms) in
  exists i, i < M /\ nth_error (subscribers t ms) i = Some m /\
    assigned (range_assign ms ps) (m_id m) t = slice (i * P / M) (S i * P / M) parts.
Proof. exact range_contiguous. Qed.
Print Assumptions C14_range_contiguous.

(* ---- RoundRobin: the i-th subscriber holds parts[i], parts[i+M], parts[i+2M], ...
   (all n with i + n*M < P: there are (P + M - 1 - i) / M of them) ---- *)
Theorem C14_rr_every_kth : forall ms ps t m, wf_group ms -> In m ms -> In t (m_topics m) ->
  let parts := find_partitions t ps in
  let M := length (subscribers t ms) in
  exists i, i < M /\ nth_error (subscribers t ms) i = Some m /\
    assigned (rr_assign ms ps) (m_id m) t =
    map (fun n => nth (i + n * M) parts 0%Z) (seq 0 ((length parts + M - 1 - i) / M)).
Proof. exact rr_every_kth. Qed.
Print Assumptions C14_rr_every_kth.

(* ---- RackAffinity: for every topic t and rack z, with [cs] the subscribers of t in
   rack z, [pz] the listed partitions of t led in z, T = floor(P/M): the members of cs
   together hold (for t) the first n partitions of pz for some
   n >= min(|pz|, |cs| * T), possibly among others; hence at least that many of the
   partitions they hold are led in z.  For every iteration order. ---- *)
Theorem C14_rack_affinity : forall zo ro ms ps a, wf_group ms ->
  (forall t, Permutation (zo t) (zones_of (aget t (partitions_by_topic ps))) /\
             Permutation (ro t) (zones_of (aget t (partitions_by_topic ps)))) ->
  rack_assign zo ro ms ps = Some a ->
  forall t z, existsb (subscribes t) ms = true ->
  let mems := filter (subscribes t) ms in
  let parts := filter (fun p => bytes_eqb (p_topic p) t) ps in
  let cs := map m_id (filter (fun m => bytes_eqb (m_userdata m) z) mems) in
  let pz := map p_id (filter (fun p => bytes_eqb (p_rack p) z) parts) in
  let T := length parts / length mems in
  let held := flat_map (fun c => assigned a c t) cs in
  (exists n other, Nat.min (length pz) (length cs * T) <= n /\
                   Permutation held (firstn n pz ++ other)) /\
  Nat.min (length pz) (length cs * T) <= length (filter (fun x => existsb (Z.eqb x) pz) held).
Proof. exact rack_affinity. Qed.
Print Assumptions C14_rack_affinity.

(* ---- the group leader (reader.go extractTopics + consumergroup.go assignTopicPartitions):
   [extract_topics ms] are the topics the leader asks the broker for; the broker
   ([broker_read cluster topics]) answers with the partitions of exactly those topics, or
   fails as a whole (UnknownTopicOrPartition) when it does not have one of them
   ([topic_exists cluster t] = the cluster lists a partition of t); after such a failure
   with more than one topic the leader asks for each topic on its own and skips the unknown
   ones; [leader_partitions ms cluster] is what the balancer is then handed and
   [leader_range/leader_rr/leader_rack] the balancer applied to it.
   The leader asks for exactly the subscribed topics, each once, in sorted order. ---- *)
Theorem C14_extract_topics : forall ms,
  (forall t, In t (extract_topics ms) <-> exists m, In m ms /\ In t (m_topics m)) /\
  NoDup (extract_topics ms) /\
  StronglySorted (fun a b => bytes_ltb a b = true) (extract_topics ms).
Proof. exact extract_topics_spec. Qed.
Print Assumptions C14_extract_topics.

(* the metadata requests, in order: the sorted union of the subscriptions; after an
   unknown-topic failure with more than one topic, one request per topic *)
Theorem C14_leader_requests : forall ms cluster,
  let topics := extract_topics ms in
  leader_requests ms cluster =
  if forallb (topic_exists cluster) topics then [topics]
  else if 1 <? length topics then topics :: map (fun t => [t]) topics else [topics].
Proof. exact leader_requests_spec. Qed.
Print Assumptions C14_leader_requests.

(* what the balancer is handed for a topic — whether or not some subscribed topic is missing
   from the cluster: all the cluster has of it, iff somebody subscribes to it *)
Theorem C14_leader_partitions : forall ms cluster t,
  find_partitions t (leader_partitions ms cluster) =
  if existsb (subscribes t) ms then find_partitions t cluster else [].
Proof. exact find_partitions_leader. Qed.
Print Assumptions C14_leader_partitions.

(* end to end, judged against the CLUSTER: no key twice, keys are subscriptions of listed
   members, and per topic the assigned partitions are exactly (multiset) the partitions the
   cluster has of it when it has a subscriber, none otherwise; loads floor/ceil *)
Theorem C14_leader_partition : forall ms cluster, wf_group ms ->
  forall a,
    (a = leader_range ms cluster \/ a = leader_rr ms cluster \/
     (exists zo ro,
        (forall t, Permutation (zo t) (zones_of (aget t (partitions_by_topic (leader_partitions ms cluster)))) /\
                   Permutation (ro t) (zones_of (aget t (partitions_by_topic (leader_partitions ms cluster))))) /\
        leader_rack zo ro ms cluster = Some a)) ->
    NoDup (tkeys a) /\
    (forall tr, In tr a ->
       exists m, In m ms /\ m_id m = fst (fst tr) /\ In (snd (fst tr)) (m_topics m)) /\
    (forall t, Permutation (topic_parts a t)
                           (if existsb (subscribes t) ms then find_partitions t cluster else [])).
Proof. exact leader_partition_all. Qed.
Print Assumptions C14_leader_partition.

(* topics the cluster lacks get nothing (a consequence of the three clauses above) *)
Theorem C14_leader_missing_topic : forall ms cluster a t,
  (NoDup (tkeys a) /\
   (forall tr, In tr a ->
      exists m, In m ms /\ m_id m = fst (fst tr) /\ In (snd (fst tr)) (m_topics m)) /\
   (forall t, Permutation (topic_parts a t)
                          (if existsb (subscribes t) ms then find_partitions t cluster else []))) ->
  topic_exists cluster t = false -> topic_parts a t = [].
Proof. exact leader_missing_topic_nothing. Qed.
Print Assumptions C14_leader_missing_topic.

Theorem C14_leader_rack_no_panic : forall zo ro ms cluster, wf_group ms ->
  (forall t, Permutation (zo t) (zones_of (aget t (partitions_by_topic (leader_partitions ms cluster)))) /\
             Permutation (ro t) (zones_of (aget t (partitions_by_topic (leader_partitions ms cluster))))) ->
  exists a, leader_rack zo ro ms cluster = Some a.
Proof. exact leader_rack_no_panic. Qed.
Print Assumptions C14_leader_rack_no_panic.

(* with distinct partition ids per topic in the cluster: every partition the cluster has
   of a subscribed topic is held by exactly one listed member, a subscriber of the topic —
   for Range, RoundRobin and (every iteration order) RackAffinity *)
Theorem C14_leader_exactly_one : forall ms cluster t p, wf_group ms ->
  NoDup (find_partitions t cluster) -> In p (find_partitions t cluster) ->
  (exists m, In m ms /\ In t (m_topics m)) ->
  let one_holder a :=
    exists m, In m ms /\ In t (m_topics m) /\ In p (assigned a (m_id m) t) /\
      forall m', In m' ms -> In p (assigned a (m_id m') t) -> m' = m in
  one_holder (leader_range ms cluster) /\
  one_holder (leader_rr ms cluster) /\
  forall zo ro a,
    (forall t, Permutation (zo t) (zones_of (aget t (partitions_by_topic (leader_partitions ms cluster)))) /\
               Permutation (ro t) (zones_of (aget t (partitions_by_topic (leader_partitions ms cluster))))) ->
    leader_rack zo ro ms cluster = Some a -> one_holder a.
Proof. exact leader_exactly_one. Qed.
Print Assumptions C14_leader_exactly_one.

Theorem C14_leader_even : forall ms cluster, wf_group ms ->
  forall a,
    (a = leader_range ms cluster \/ a = leader_rr ms cluster \/
     (exists zo ro,
        (forall t, Permutation (zo t) (zones_of (aget t (partitions_by_topic (leader_partitions ms cluster)))) /\
                   Permutation (ro t) (zones_of (aget t (partitions_by_topic (leader_partitions ms cluster))))) /\
        leader_rack zo ro ms cluster = Some a)) ->
  forall t m1 m2, In m1 ms -> In m2 ms -> In t (m_topics m1) -> In t (m_topics m2) ->
    let P := length (find_partitions t cluster) in
    let M := length (filter (subscribes t) ms) in
    length (assigned a (m_id m1) t) <= length (assigned a (m_id m2) t) + 1 /\
    P / M <= length (assigned a (m_id m1) t) <= P / M + 1.
Proof. exact leader_even_all. Qed.
Print Assumptions C14_leader_even.

(* ---- what the coordinator RECEIVES: the leader's SyncGroup request
   (consumergroup.go makeSyncGroupRequestV0).  [sync_request a] is the decoded request built
   from the assignment a: one entry per member of a, holding (topic, int32 partitions);
   [wire_triples] reads it back as (member, topic, partitions).
   The request names every member of the assignment exactly once and the entry of member
   id carries, for every topic, exactly assignments[id][topic] (converted to int32). ---- *)
Theorem C14_sync_request_is_assignment : forall a,
  NoDup (map fst (sync_request a)) /\
  (forall id, In id (map fst (sync_request a)) <-> exists tr, In tr a /\ fst (fst tr) = id) /\
  (forall id t, assigned (wire_triples (sync_request a)) id t = map int32_of (assigned a id t)) /\
  (forall z, (-2147483648 <= z < 2147483648)%Z -> int32_of z = z).
Proof. exact sync_request_spec. Qed.
Print Assumptions C14_sync_request_is_assignment.

(* end to end on the wire: for every group, every cluster with int32 partition ids (also
   one lacking subscribed topics), every balancer and iteration order, the SyncGroup request
   the coordinator receives gives every partition the cluster has of a subscribed topic to
   exactly one subscriber (the three clauses, to which C14_exactly_one_holder applies), with
   floor/ceil loads *)
Theorem C14_leader_wire_partition : forall ms cluster, wf_group ms ->
  (forall p, In p cluster -> (-2147483648 <= p_id p < 2147483648)%Z) ->
  forall a,
    (a = leader_range ms cluster \/ a = leader_rr ms cluster \/
     (exists zo ro,
        (forall t, Permutation (zo t) (zones_of (aget t (partitions_by_topic (leader_partitions ms cluster)))) /\
                   Permutation (ro t) (zones_of (aget t (partitions_by_topic (leader_partitions ms cluster))))) /\
        leader_rack zo ro ms cluster = Some a)) ->
    let w := wire_triples (sync_request a) in
    (NoDup (tkeys w) /\
     (forall tr, In tr w ->
        exists m, In m ms /\ m_id m = fst (fst tr) /\ In (snd (fst tr)) (m_topics m)) /\
     (forall t, Permutation (topic_parts w t)
                            (if existsb (subscribes t) ms then find_partitions t cluster else []))) /\
    (forall t m1 m2, In m1 ms -> In m2 ms -> In t (m_topics m1) -> In t (m_topics m2) ->
       let P := length (find_partitions t cluster) in
       let M := length (filter (subscribes t) ms) in
       length (assigned w (m_id m1) t) <= length (assigned w (m_id m2) t) + 1 /\
       P / M <= length (assigned w (m_id m1) t) <= P / M + 1).
Proof. exact leader_wire_partition. Qed.
Print Assumptions C14_leader_wire_partition.

(* ---- non-vacuity: a concrete group meeting the hypotheses ---- *)
Definition ex_ms : list member :=
  [ mkMember [99]%N [[116]; [117]]%N [2]%N;      (* "c" subscribes t,u  rack 2 *)
    mkMember [97]%N [[116]]%N [1]%N;             (* "a" subscribes t    rack 1 *)
    mkMember [97; 49]%N [[117]; [116]]%N []%N ]. (* "a1" subscribes u,t no rack *)
Definition ex_ps : list partition :=
  [ mkPartition [116]%N 4 [2]%N; mkPartition [117]%N 0 [1]%N; mkPartition [116]%N 0 [1]%N;
    mkPartition [116]%N 7 [2]%N; mkPartition [116]%N 2 [1]%N; mkPartition [118]%N 0 [1]%N;
    mkPartition [116]%N 9 [3]%N ]%Z.

Example C14_example_wf : wf_group ex_ms.
Proof.
  split.
  - repeat (constructor; [cbn; intuition congruence|]). constructor.
  - intros m [<-|[<-|[<-|[]]]]; repeat (constructor; [cbn; intuition congruence|]); constructor.
Qed.

Example C14_example_range :
  range_assign ex_ms ex_ps =
  [ ([97]%N, [116]%N, [4]%Z); ([97; 49]%N, [116]%N, [0; 7]%Z); ([99]%N, [116]%N, [2; 9]%Z);
    ([97; 49]%N, [117]%N, []); ([99]%N, [117]%N, [0]%Z) ].
Proof. vm_compute. reflexivity. Qed.

Example C14_example_rr :
  rr_assign ex_ms ex_ps =
  [ ([97]%N, [116]%N, [4; 2]%Z); ([97; 49]%N, [116]%N, [0; 9]%Z); ([99]%N, [116]%N, [7]%Z);
    ([97; 49]%N, [117]%N, [0]%Z); ([99]%N, [117]%N, []) ].
Proof. vm_compute. reflexivity. Qed.

Example C14_example_rack_orders :
  rack_orders_ok (fun t => zones_of (aget t (partitions_by_topic ex_ps)))
                 (fun t => rev (zones_of (aget t (partitions_by_topic ex_ps)))) ex_ps.
Proof. exact (rack_orders_canonical ex_ps). Qed.

Example C14_example_rack :
  rack_assign (fun t => zones_of (aget t (partitions_by_topic ex_ps)))
              (fun t => rev (zones_of (aget t (partitions_by_topic ex_ps)))) ex_ms ex_ps =
  Some [ ([99]%N, [116]%N, [4; 7]%Z); ([97]%N, [116]%N, [0; 2]%Z); ([97; 49]%N, [116]%N, [9]%Z);
         ([99]%N, [117]%N, [0]%Z) ].
Proof. vm_compute. reflexivity. Qed.

(* the pattern that hides a topic from a leader that stops at the first seen topic:
   "a" lists t, "c" lists t then u *)
Example C14_example_leader :
  extract_topics ex_ms = [[116]; [117]]%N /\
  leader_range ex_ms ex_ps = range_assign ex_ms ex_ps /\
  extract_topics [mkMember [97]%N [[116]]%N []; mkMember [99]%N [[116]; [117]]%N []] = [[116]; [117]]%N.
Proof. vm_compute. repeat split; reflexivity. Qed.

(* a cluster lacking the subscribed topic u: the bulk request fails, the leader asks for t
   and u separately, and t's partitions are still all assigned *)
Definition ex_cluster_no_u : list partition :=
  filter (fun p => negb (bytes_eqb (p_topic p) [117]%N)) ex_ps.
Example C14_example_leader_fallback :
  leader_requests ex_ms ex_cluster_no_u = [[[116]; [117]]; [[116]]; [[117]]]%N /\
  leader_range ex_ms ex_cluster_no_u =
  [ ([97]%N, [116]%N, [4]%Z); ([97; 49]%N, [116]%N, [0; 7]%Z); ([99]%N, [116]%N, [2; 9]%Z);
    ([97; 49]%N, [117]%N, []); ([99]%N, [117]%N, []) ].
Proof. vm_compute. split; reflexivity. Qed.

(* the SyncGroup request of the example: "c" carries t and u, "a" only t *)
Example C14_example_sync :
  sync_request (range_assign ex_ms ex_ps) =
  [ ([97]%N, [([116]%N, [4]%Z)]);
    ([97; 49]%N, [([116]%N, [0; 7]%Z); ([117]%N, [])]);
    ([99]%N, [([116]%N, [2; 9]%Z); ([117]%N, [0]%Z)]) ].
Proof. vm_compute. reflexivity. Qed.
