(* Properties/C04.v — every frame on the wire is the canonical Kafka encoding;
   decoding inverts it.  Only statements; every proof is [exact <lemma>]. *)
From Coq Require Import List NArith ZArith Bool.
From KV Require Import Lib.Bits Lib.Bytes Lib.Varint Model.Schema Gen.Schemas Golden.Schemas
  Proofs.SchemaBase Proofs.SchemaDefs Proofs.SchemaPrims Proofs.SchemaRoundtrip Proofs.SchemaFrames Proofs.SchemaGen.
Import ListNotations.

(* ---- the schemas the code derives from its struct tags today are the pinned Kafka grammar ---- *)
Theorem C04_canonical : schemas = golden_schemas.
Proof. exact gen_is_golden. Qed.
Print Assumptions C04_canonical.

(* every registered message type is a struct whose arrays have elements of at least
   one wire byte, sane int widths, distinct non-negative tag ids, tagged fields only in
   flexible versions, no zero-size field the encoder would skip but the decoder read *)
Theorem C04_schemas_ok : schemas_ok schemas = true.
Proof. exact gen_schemas_ok. Qed.
Print Assumptions C04_schemas_ok.

(* ---- decode (encode v) = canon v, generic in the schema ---- *)
Theorem C04_roundtrip : forall c flex t,
  schema_ok flex t = true -> flex && is_marker t = false ->
  forall v bs, wfb flex t v = true -> encode flex t v = Some bs ->
    bytes_ok bs /\ (min_size flex t <= N.of_nat (length bs))%N /\
    forall rest extra al, (0 <= extra)%Z -> (lenZ bs + extra < ZM31)%Z ->
      (al + alloc_of t v <= budget c)%N ->
      decode c flex t (st (bs ++ rest) (lenZ bs + extra) al)
      = Ok (canon t v) (st rest extra (al + alloc_of t v)).
Proof. exact roundtrip. Qed.
Print Assumptions C04_roundtrip.

(* ---- frames ---- *)
Theorem C04_frame_wellformed : forall body, (Z.of_nat (length body) < ZM31)%Z ->
  frame body = put_bes 4 (Z.of_nat (length body)) ++ body /\
  length (frame body) = (4 + length body)%nat /\
  get_bes 4 (firstn 4 (frame body)) = Z.of_nat (length body).
Proof. exact frame_wellformed. Qed.
Print Assumptions C04_frame_wellformed.

(* a request is size ++ api key ++ version ++ correlation id ++ client id ++ body, the
   client id a (nullable, in flexible versions) int16-prefixed string followed there
   by an empty tag buffer; the body is the encoding of the value *)
Theorem C04_request_frame : forall flex t key ver corr client v f,
  write_request flex t key ver corr client v = Some f ->
  exists b, encode flex t v = Some b /\
    f = frame (enc_i16 key ++ enc_i16 ver ++ enc_i32 corr ++
               (if flex
                then (match client with [] => enc_i16 (-1) | _ => enc_i16 (lenZ client) ++ client end) ++ put_uvarint 0
                else enc_i16 (lenZ client) ++ client) ++ b).
Proof. exact write_request_shape. Qed.
Print Assumptions C04_request_frame.

Theorem C04_response_frame : forall flex t corr v f,
  write_response flex t corr v = Some f ->
  exists b, encode flex t v = Some b /\
    f = frame (enc_i32 corr ++ (if flex then put_uvarint 0 else []) ++ b).
Proof. exact write_response_shape. Qed.
Print Assumptions C04_response_frame.

(* ReadResponse on a frame WriteResponse produced returns the correlation id and the
   (canonical) value and consumes exactly that frame: the rest of the stream is untouched *)
Theorem C04_response_consumes_one_frame : forall c flex fields tagged corr v f rest,
  let t := TStruct fields tagged in
  schema_ok flex t = true -> wfb flex t v = true -> in_signed 4 corr ->
  write_response flex t corr v = Some f ->
  (Z.of_nat (length f) < ZM31)%Z ->
  (alloc_of t v <= budget c)%N ->
  read_response c flex t (f ++ rest) = Ok (corr, canon t v) (st rest 0 (alloc_of t v)).
Proof. exact response_roundtrip. Qed.
Print Assumptions C04_response_consumes_one_frame.

(* ---- non-vacuity: a flexible struct with a tagged field, a nullable string, a nested array ---- *)
Definition ex_ty : ty :=
  TStruct [TInt 2; TString true; TArray false 24%N (TStruct [TInt 4; TBytes true] [])] [(0%Z, TInt 8)].
Definition ex_val : value :=
  VStruct [VInt (-2); VString []; VArray (Some [VStruct [VInt 7; VBytes None] []; VStruct [VInt (-1); VBytes (Some [1; 2; 3]%N)] []]) 0]
          [VInt 9000000000].
Definition ex_frame : option (list N) := Eval vm_compute in write_response true ex_ty 77 ex_val.
Example C04_example :
  schema_ok true ex_ty = true /\ wfb true ex_ty ex_val = true /\
  write_response true ex_ty 77 ex_val = ex_frame /\
  match ex_frame with
  | Some f => read_response {| budget := 1000 |} true ex_ty (f ++ [9; 9]%N)
              = Ok (77%Z, canon ex_ty ex_val) (st [9; 9]%N 0 (alloc_of ex_ty ex_val))
  | None => False
  end.
Proof. repeat split; vm_compute; reflexivity. Qed.

(* ---- "skipping tagged fields it does not know" ----
   A flexible struct whose tag buffer carries entries with tag ids the schema does not have —
   before and after the entries it knows — decodes to the same value as without them, and the
   decoder consumes exactly the struct's bytes (their payloads are read and thrown away; they
   count as allocated because d.read makes a buffer for them). *)
From KV Require Import Proofs.SchemaEqns Proofs.SchemaUnknownTags.

Theorem C04_unknown_tags_skipped : forall c fields tagged fs ts br cnt bt pre post,
  let t := TStruct fields tagged in
  let v := VStruct fs ts in
  schema_ok true t = true -> wfb true t v = true ->
  enc_fields (encode true) fields fs = Some br ->
  enc_tags (encode true) tagged ts = Some (cnt, bt) ->
  unknown_ok tagged pre -> unknown_ok tagged post ->
  let bs := br ++ tag_buffer pre cnt bt post in
  forall rest extra al, (0 <= extra)%Z -> (lenZ bs + extra < ZM31)%Z ->
    (al + alloc_of t v + unknown_alloc pre + unknown_alloc post <= budget c)%N ->
    decode c true t (st (bs ++ rest) (lenZ bs + extra) al)
    = Ok (canon t v) (st rest extra (al + alloc_of t v + unknown_alloc pre + unknown_alloc post)).
Proof. exact unknown_tags_skipped. Qed.
Print Assumptions C04_unknown_tags_skipped.

(* the same through ReadResponse: "every well-formed response decodes to exactly the field values
   the broker encoded and consumes exactly one frame, skipping tagged fields it does not know" —
   tagged fields in the response header (the client knows none) and unknown ones in the body *)
Theorem C04_response_unknown_tags : forall c fields tagged fs ts br cnt bt hdr pre post corr rest,
  let t := TStruct fields tagged in
  let v := VStruct fs ts in
  schema_ok true t = true -> wfb true t v = true -> in_signed 4 corr ->
  enc_fields (encode true) fields fs = Some br ->
  enc_tags (encode true) tagged ts = Some (cnt, bt) ->
  unknown_ok [] hdr -> unknown_ok tagged pre -> unknown_ok tagged post ->
  let body := enc_i32 corr ++ (put_uvarint (N.of_nat (length hdr)) ++ enc_unknown hdr) ++
              br ++ tag_buffer pre cnt bt post in
  (Z.of_nat (length body) < ZM31)%Z ->
  (unknown_alloc hdr + alloc_of t v + unknown_alloc pre + unknown_alloc post <= budget c)%N ->
  read_response c true t (frame body ++ rest)
  = Ok (corr, canon t v) (st rest 0 (unknown_alloc hdr + alloc_of t v + unknown_alloc pre + unknown_alloc post)).
Proof. exact response_unknown_tags. Qed.
Print Assumptions C04_response_unknown_tags.

(* without unknown entries the buffer is the one the encoder writes *)
Theorem C04_tag_buffer_plain : forall fields tagged fs ts br cnt bt,
  enc_fields (encode true) fields fs = Some br ->
  enc_tags (encode true) tagged ts = Some (cnt, bt) ->
  encode true (TStruct fields tagged) (VStruct fs ts) = Some (br ++ tag_buffer [] cnt bt []).
Proof. exact tag_buffer_plain. Qed.
Print Assumptions C04_tag_buffer_plain.

(* non-vacuity: ex_ty knows tag 0; entries with tags 1 (after) and 7 (before, as an old encoder
   might order them) are skipped *)
Example C04_unknown_tags_example :
  let pre := [(7%Z, [1; 2; 3]%N)] in let post := [(1%Z, []); (9%Z, [255]%N)] in
  unknown_ok [(0%Z, TInt 8)] pre /\ unknown_ok [(0%Z, TInt 8)] post /\
  match ex_val, ex_ty with
  | VStruct fs ts, TStruct fields tagged =>
    match enc_fields (encode true) fields fs, enc_tags (encode true) tagged ts with
    | Some br, Some (cnt, bt) =>
        decode {| budget := 1000 |} true ex_ty
          (st ((br ++ tag_buffer pre cnt bt post) ++ [9]%N) (lenZ (br ++ tag_buffer pre cnt bt post)) 0)
        = Ok (canon ex_ty ex_val) (st [9]%N 0 (alloc_of ex_ty ex_val + 3 + 1))
    | _, _ => False
    end
  | _, _ => False
  end.
Proof.
  cbv zeta. split; [|split].
  - repeat constructor; try (vm_compute; first [reflexivity | discriminate]); cbn; intuition discriminate.
  - repeat constructor; try (vm_compute; first [reflexivity | discriminate]); cbn; intuition discriminate.
  - vm_compute. reflexivity.
Qed.
