(* Properties/C04.v — every frame on the wire is the canonical Kafka encoding;
   decoding inverts it.  Only statements; every proof is [exact <lemma>]. *)
From Coq Require Import List NArith ZArith Bool.
From KV Require Import Lib.Bits Lib.Bytes Lib.Varint Model.Schema Gen.Schemas Golden.Schemas
  Proofs.SchemaBase Proofs.SchemaDefs Proofs.SchemaPrims Proofs.SchemaRoundtrip Proofs.SchemaFrames Proofs.SchemaGen.
Import ListNotations.

(* ---- the schemas the code derives from its struct tags today are the pinned Kafka grammar ---- *)
Theorem C04_canonical : schemas = golden_schemas.
Proof. exact gen_is_golden. Qed.
Print Assumptions C04_canonical.

(* every registered message type is a struct whose arrays have elements of at least
   one wire byte, sane int widths, distinct non-negative tag ids, tagged fields only in
   flexible versions, no zero-size field the encoder would skip but the decoder read *)
Theorem C04_schemas_ok : schemas_ok schemas = true.
Proof. exact gen_schemas_ok. Qed.
Print Assumptions C04_schemas_ok.

(* ---- decode (encode v) = canon v, generic in the schema ---- *)
Theorem C04_roundtrip : forall c flex t,
  schema_ok flex t = true -> flex && is_marker t = false ->
  forall v bs, wfb flex t v = true -> encode flex t v = Some bs ->
    bytes_ok bs /\ (min_size flex t <= N.of_nat (length bs))%N /\
    forall rest extra al, (0 <= extra)%Z -> (lenZ bs + extra < ZM31)%Z ->
      (al + alloc_of t v <= budget c)%N ->
      decode c flex t (st (bs ++ rest) (lenZ bs + extra) al)
      = Ok (canon t v) (st rest extra (al + alloc_of t v)).
Proof. exact roundtrip. Qed.
Print Assumptions C04_roundtrip.

(* ---- frames ---- *)
Theorem C04_frame_wellformed : forall body, (Z.of_nat (length body) < ZM31)%Z ->
  frame body = put_bes 4 (Z.of_nat (length body)) ++ body /\
  length (frame body) = (4 + length body)%nat /\
  get_bes 4 (firstn 4 (frame body)) = Z.of_nat (length body).
Proof. exact frame_wellformed. Qed.
Print Assumptions C04_frame_wellformed.

(* a request is size ++ api key ++ version ++ correlation id ++ client id ++ body, the
   client id a (nullable, in flexible versions) int16-prefixed string followed there
   by an empty tag buffer; the body is the encoding of the value *)
Theorem C04_request_frame : forall flex t key ver corr client v f,
  write_request flex t key ver corr client v = Some f ->
  exists b, encode flex t v = Some b /\
    f = frame (enc_i16 key ++ enc_i16 ver ++ enc_i32 corr ++
               (if flex
                then (match client with [] => enc_i16 (-1) | _ => enc_i16 (lenZ client) ++ client end) ++ put_uvarint 0
                else enc_i16 (lenZ client) ++ client) ++ b).
Proof. exact write_request_shape. Qed.
Print Assumptions C04_request_frame.

Theorem C04_response_frame : forall flex t corr v f,
  write_response flex t corr v = Some f ->
  exists b, encode flex t v = Some b /\
    f = frame (enc_i32 corr ++ (if flex then put_uvarint 0 else []) ++ b).
Proof. exact write_response_shape. Qed.
Print Assumptions C04_response_frame.

(* ReadResponse on a frame WriteResponse produced returns the correlation id and the
   (canonical) value and consumes exactly that frame: the rest of the stream is untouched *)
Theorem C04_response_consumes_one_frame : forall c flex fields tagged corr v f rest,
  let t := TStruct fields tagged in
  schema_ok flex t = true -> wfb flex t v = true -> in_signed 4 corr ->
  write_response flex t corr v = Some f ->
  (Z.of_nat (length f) < ZM31)%Z ->
  (alloc_of t v <= budget c)%N ->
  read_response c flex t (f ++ rest) = Ok (corr, canon t v) (st rest 0 (alloc_of t v)).
Proof. exact response_roundtrip. Qed.
Print Assumptions C04_response_consumes_one_frame.

(* ---- non-vacuity: a flexible struct with a tagged field, a nullable string, a nested array ---- *)
Definition ex_ty : ty :=
  TStruct [TInt 2; TString true; TArray false 24%N (TStruct [TInt 4; TBytes true] [])] [(0%Z, TInt 8)].
Definition ex_val : value :=
  VStruct [VInt (-2); VString []; VArray (Some [VStruct [VInt 7; VBytes None] []; VStruct [VInt (-1); VBytes (Some [1; 2; 3]%N)] []]) 0]
          [VInt 9000000000].
Definition ex_frame : option (list N) := Eval vm_compute in write_response true ex_ty 77 ex_val.
Example C04_example :
  schema_ok true ex_ty = true /\ wfb true ex_ty ex_val = true /\
  write_response true ex_ty 77 ex_val = ex_frame /\
  match ex_frame with
  | Some f => read_response {| budget := 1000 |} true ex_ty (f ++ [9; 9]%N)
              = Ok (77%Z, canon ex_ty ex_val) (st [9; 9]%N 0 (alloc_of ex_ty ex_val))
  | None => False
  end.
Proof. repeat split; vm_compute; reflexivity. Qed.

(* ---- "skipping tagged fields it does not know" ----
   A flexible struct whose tag buffer carries entries with tag ids the schema does not have —
   before and after the entries it knows — decodes to the same value as without them, and the
   decoder consumes exactly the struct's bytes (their payloads are read and thrown away; they
   count as allocated because d.read makes a buffer for them). *)
From KV Require Import Proofs.SchemaEqns Proofs.SchemaUnknownTags.

Theorem C04_unknown_tags_skipped : forall c fields tagged fs ts br cnt bt pre post,
  let t := TStruct fields tagged in
  let v := VStruct fs ts in
  schema_ok true t = true -> wfb true t v = true ->
  enc_fields (encode true) fields fs = Some br ->
  enc_tags (encode true) tagged ts = Some (cnt, bt) ->
  unknown_ok tagged pre -> unknown_ok tagged post ->
  let bs := br ++ tag_buffer pre cnt bt post in
  forall rest extra al, (0 <= extra)%Z -> (lenZ bs + extra < ZM31)%Z ->
    (al + alloc_of t v + unknown_alloc pre + unknown_alloc post <= budget c)%N ->
    decode c true t (st (bs ++ rest) (lenZ bs + extra) al)
    = Ok (canon t v) (st rest extra (al + alloc_of t v + unknown_alloc pre + unknown_alloc post)).
Proof. exact unknown_tags_skipped. Qed.
Print Assumptions C04_unknown_tags_skipped.

(* the same through ReadResponse: "every well-formed response decodes to exactly the field values
   the broker encoded and consumes exactly one frame, skipping tagged fields it does not know" —
   tagged fields in the response header (the client knows none) and unknown ones in the body *)
Theorem C04_response_unknown_tags : forall c fields tagged fs ts br cnt bt hdr pre post corr rest,
  let t := TStruct fields tagged in
  let v := VStruct fs ts in
  schema_ok true t = true -> wfb true t v = true -> in_signed 4 corr ->
  enc_fields (encode true) fields fs = Some br ->
  enc_tags (encode true) tagged ts = Some (cnt, bt) ->
  unknown_ok [] hdr -> unknown_ok tagged pre -> unknown_ok tagged post ->
  let body := enc_i32 corr ++ (put_uvarint (N.of_nat (length hdr)) ++ enc_unknown hdr) ++
              br ++ tag_buffer pre cnt bt post in
  (Z.of_nat (length body) < ZM31)%Z ->
  (unknown_alloc hdr + alloc_of t v + unknown_alloc pre + unknown_alloc post <= budget c)%N ->
  read_response c true t (frame body ++ rest)
  = Ok (corr, canon t v) (st rest 0 (unknown_alloc hdr + alloc_of t v + unknown_alloc pre + unknown_alloc post)).
Proof. exact response_unknown_tags. Qed.
Print Assumptions C04_response_unknown_tags.

(* without unknown entries the buffer is the one the encoder writes *)
Theorem C04_tag_buffer_plain : forall fields tagged fs ts br cnt bt,
  enc_fields (encode true) fields fs = Some br ->
  enc_tags (encode true) tagged ts = Some (cnt, bt) ->
  encode true (TStruct fields tagged) (VStruct fs ts) = Some (br ++ tag_buffer [] cnt bt []).
Proof. exact tag_buffer_plain. Qed.
Print Assumptions C04_tag_buffer_plain.

(* non-vacuity: ex_ty knows tag 0; entries with tags 1 (after) and 7 (before, as an old encoder
   might order them) are skipped *)
Example C04_unknown_tags_example :
  let pre := [(7%Z, [1; 2; 3]%N)] in let post := [(1%Z, []); (9%Z, [255]%N)] in
  unknown_ok [(0%Z, TInt 8)] pre /\ unknown_ok [(0%Z, TInt 8)] post /\
  match ex_val, ex_ty with
  | VStruct fs ts, TStruct fields tagged =>
    match enc_fields (encode true) fields fs, enc_tags (encode true) tagged ts with
    | Some br, Some (cnt, bt) =>
        decode {| budget := 1000 |} true ex_ty
          (st ((br ++ tag_buffer pre cnt bt post) ++ [9]%N) (lenZ (br ++ tag_buffer pre cnt bt post)) 0)
        = Ok (canon ex_ty ex_val) (st [9]%N 0 (alloc_of ex_ty ex_val + 3 + 1))
    | _, _ => False
    end
  | _, _ => False
  end.
Proof.
  cbv zeta. split; [|split].
  - repeat constructor; try (vm_compute; first [reflexivity | discriminate]); cbn; intuition discriminate.
  - repeat constructor; try (vm_compute; first [reflexivity | discriminate]); cbn; intuition discriminate.
  - vm_compute. reflexivity.
Qed.

(* ======================================================================================
   The hand-written Conn codec (write.go, sizeof.go, protocol.go requestHeader, the
   size()/writeTo() methods of the request structs, recordbatch.go), modelled function by
   function in Model/ConnWriters.v: [creq] is a request the Conn can write (one constructor per
   API: produce v2/v3/v7, fetch v2/v5/v10, list-offsets v1, api-versions v0, metadata v1/v6,
   find-coordinator v0, join-group v1/v2, sync-group v0, heartbeat v0, leave-group v0,
   offset-commit v2, offset-fetch v1, list-groups v1, create-topics v0/v1/v2, delete-topics
   v0/v1, sasl-handshake v0/v1, sasl-authenticate v0), [creq_size] the size pre-computation,
   [creq_body] the bytes emitted after the header, [conn_frame] the whole frame.
   ====================================================================================== *)
From KV Require Spec.RecordFormat Model.Records Model.ConnWriters
  Proofs.ConnWritersSize Proofs.ConnWritersDefs Proofs.ConnWritersRefine.

(* ---- (a) the pre-computed size is the number of bytes written: for every request, every
        field value (produce: any messages — nil/empty/non-empty keys and values, headers, any
        times, zero time included; an opaque compressed payload).  Always: the 4-byte prefix is
        the int32 conversion of the number of bytes that follow, and size() agrees with writeTo()
        modulo 2^32; below 2 GiB ([frame_fits]) the prefix IS that number. ---- *)
Theorem C04_conn_size_exact : forall corr client r,
  let rest := enc_i16 (ConnWriters.creq_key r) ++ enc_i16 (ConnWriters.creq_ver r) ++ enc_i32 corr ++
              (enc_i16 (lenZ client) ++ client) ++ ConnWriters.creq_body r in
  ConnWriters.conn_frame corr client r = put_bes 4 (wrap32 (lenZ rest)) ++ rest /\
  wrap32 (ConnWriters.creq_size r) = wrap32 (lenZ (ConnWriters.creq_body r)) /\
  (ConnWritersSize.frame_fits client r = true ->
     ConnWriters.conn_frame corr client r = put_bes 4 (lenZ rest) ++ rest /\
     length (ConnWriters.conn_frame corr client r) = (4 + length rest)%nat /\
     get_bes 4 (firstn 4 (ConnWriters.conn_frame corr client r)) = lenZ rest /\
     (match r with
      | ConnWriters.QProduce _ _ _ _ _ _ _ _ _ => True
      | _ => ConnWriters.creq_size r = lenZ (ConnWriters.creq_body r)
      end)).
Proof. exact ConnWritersSize.conn_size_exact. Qed.
Print Assumptions C04_conn_size_exact.

(* [frame_fits]: what follows the size prefix is shorter than 2^31 bytes *)
Theorem C04_conn_frame_fits_def : forall client r,
  ConnWritersSize.frame_fits client r = (10 + lenZ client + lenZ (ConnWriters.creq_body r) <? ZM31)%Z.
Proof. exact ConnWritersSize.frame_fits_def. Qed.
Print Assumptions C04_conn_frame_fits_def.

(* the size fields inside a produce request: the record set is its int32 size followed by that
   many bytes; in a record batch (v3/v7) the batch length counts what follows that field *)
Theorem C04_conn_produce_set_sizes : forall v cz m0 rest,
  exists body,
    ConnWriters.produce_set_write v cz m0 rest = put_bes 4 (wrap32 (lenZ body)) ++ body /\
    ((lenZ body < ZM31)%Z -> ConnWriters.produce_set_write v cz m0 rest = put_bes 4 (lenZ body) ++ body) /\
    match v with
    | ConnWriters.PV2 => True
    | _ => exists tail, body = put_bes 8 0 ++ put_bes 4 (wrap32 (lenZ body) - 12) ++ tail /\
                        lenZ tail = (lenZ body - 12)%Z
    end.
Proof. exact ConnWritersSize.produce_set_sizes. Qed.
Print Assumptions C04_conn_produce_set_sizes.

(* every record of an uncompressed batch: its varint length prefix counts the record's bytes *)
Theorem C04_conn_record_length_exact : forall base i m,
  exists body, Records.write_record base i m = put_varint (lenZ body) ++ body.
Proof. exact ConnWritersSize.record_length_exact. Qed.
Print Assumptions C04_conn_record_length_exact.

(* ---- (b) refinement to the generic schema model: the frame a hand-written writer produces is
        [write_request] for the grammar the translator regenerates from /repo's protocol package
        for that (api key, version) — looked up in Gen/Schemas.v — applied to the value built from
        the same arguments ([creq_value]; a record set is the opaque [VRecords] of that model).
        [creq_canon_ok]: no pointer to "" as transactional id (the Conn never builds one:
        emptyToNullable) and no empty string where the protocol package's grammar has a
        NULLABLE_STRING but the Conn's struct a plain string (metadata topic names, the
        offset-commit metadata, create-topics config values). ---- *)
Theorem C04_conn_canonical : forall corr client r,
  ConnWritersDefs.creq_canon_ok r = true ->
  exists t, lookup_schema schemas false (ConnWriters.creq_key r) (ConnWriters.creq_ver r) = Some (false, t) /\
    write_request false t (ConnWriters.creq_key r) (ConnWriters.creq_ver r) corr client (ConnWritersDefs.creq_value r)
    = Some (ConnWriters.conn_frame corr client r).
Proof. exact ConnWritersRefine.conn_canonical. Qed.
Print Assumptions C04_conn_canonical.

(* with empty strings in those positions: the same regenerated grammar with its nullable strings
   read as non-null strings ([conn_view]) — the Conn sends "" as a string of length 0, a valid
   NULLABLE_STRING that the generic model (like the protocol package) cannot express *)
Theorem C04_conn_canonical_nonnull_strings : forall corr client r,
  ConnWritersDefs.creq_txid_ok r = true ->
  exists t, lookup_schema schemas false (ConnWriters.creq_key r) (ConnWriters.creq_ver r) = Some (false, t) /\
    write_request false (ConnWritersDefs.conn_view r t) (ConnWriters.creq_key r) (ConnWriters.creq_ver r)
                  corr client (ConnWritersDefs.creq_value r)
    = Some (ConnWriters.conn_frame corr client r).
Proof. exact ConnWritersRefine.conn_canonical_nonnull_strings. Qed.
Print Assumptions C04_conn_canonical_nonnull_strings.

Theorem C04_conn_txid_from_config : forall s v cz acks timeout topic partition m0 rest,
  ConnWritersDefs.creq_txid_ok
    (ConnWriters.QProduce v cz (ConnWriters.empty_to_nullable s) acks timeout topic partition m0 rest) = true.
Proof. exact ConnWritersRefine.empty_to_nullable_ok. Qed.
Print Assumptions C04_conn_txid_from_config.

(* ---- (c) the header: api key, version, correlation id and client id sit where the grammar of
        C04_request_frame puts them (non-flexible header: the client id a non-null string) ---- *)
Theorem C04_conn_header_fields : forall corr client r,
  ConnWriters.conn_frame corr client r =
  frame (enc_i16 (ConnWriters.creq_key r) ++ enc_i16 (ConnWriters.creq_ver r) ++ enc_i32 corr ++
         (enc_i16 (lenZ client) ++ client) ++ ConnWriters.creq_body r).
Proof. exact ConnWritersRefine.conn_header_fields. Qed.
Print Assumptions C04_conn_header_fields.

(* ---- the version in the header: apiVersionMap.negotiate picks a version the Conn supports
        that is not above the maximum the broker advertised for the API (taken as 0 when the
        broker did not list the API), or nothing is sent (-1) ---- *)
Theorem C04_conn_version_le_advertised : forall adv supported,
  let v := ConnWriters.conn_negotiate adv supported in
  let bmax := match adv with Some (_, mx) => mx | None => 0%Z end in
  (v = (-1)%Z /\ forall s, In s supported -> (bmax < s)%Z) \/ (In v supported /\ (v <= bmax)%Z).
Proof. exact ConnWritersSize.conn_negotiate_le_advertised. Qed.
Print Assumptions C04_conn_version_le_advertised.

(* timestamp(t): 0 for the zero time, UnixNano()/1e6 otherwise — the milliseconds Records.ts_ms
   computes from the nanoseconds handed to the record writers *)
Theorem C04_conn_timestamp : forall t,
  ConnWriters.timestamp t = Records.ts_ms (ConnWriters.ns_of t).
Proof. exact ConnWritersSize.timestamp_ts_ms. Qed.
Print Assumptions C04_conn_timestamp.

(* ---- non-vacuity: produce v7 with a transactional id, three messages with distinct
        sub-millisecond / millisecond / zero times, a nil key, an empty value, headers with a nil
        value; a create-topics v2 request; the nil SaslAuthenticate token (regression of
        C04-conn-nil-bytes-written-as-null: now 00 00 00 00 like the protocol package) ---- *)
Definition ex_conn_produce : ConnWriters.creq :=
  ConnWriters.QProduce ConnWriters.PV7 None (Some [116; 120]%N) (-1) 1500000000 [116]%N 3
    {| ConnWriters.c_off := 0; ConnWriters.c_time := ConnWriters.TUnix 1600000000123456789;
       ConnWriters.c_key := None; ConnWriters.c_val := Some [1; 2; 3]%N; ConnWriters.c_hdrs := [] |}
    [ {| ConnWriters.c_off := 0; ConnWriters.c_time := ConnWriters.TUnix 1600000000123999999;
         ConnWriters.c_key := Some [7]%N; ConnWriters.c_val := Some []; 
         ConnWriters.c_hdrs := [([104]%N, None); ([105; 106]%N, Some [9]%N)] |};
      {| ConnWriters.c_off := 0; ConnWriters.c_time := ConnWriters.TUnix 1600000007000000000;
         ConnWriters.c_key := Some []; ConnWriters.c_val := None; ConnWriters.c_hdrs := [] |};
      {| ConnWriters.c_off := 0; ConnWriters.c_time := ConnWriters.TZero;
         ConnWriters.c_key := None; ConnWriters.c_val := Some [255]%N; ConnWriters.c_hdrs := [] |} ].
Definition ex_conn_create : ConnWriters.creq :=
  ConnWriters.QCreateTopics ConnWriters.CV2
    [ {| ConnWriters.ct_name := [97]%N; ConnWriters.ct_partitions := 3; ConnWriters.ct_replication := (-1);
         ConnWriters.ct_assignments := [(0%Z, [1; 2]%Z); (1%Z, [])];
         ConnWriters.ct_configs := [([107]%N, [118]%N)] |} ] 2147483647 true.
Example C04_conn_example :
  ConnWritersSize.frame_fits [99]%N ex_conn_produce = true /\
  ConnWritersDefs.creq_canon_ok ex_conn_produce = true /\
  ConnWritersDefs.creq_canon_ok ex_conn_create = true /\
  (exists t, lookup_schema schemas false 0 7 = Some (false, t) /\
     write_request false t 0 7 77 [99]%N (ConnWritersDefs.creq_value ex_conn_produce)
     = Some (ConnWriters.conn_frame 77 [99]%N ex_conn_produce)) /\
  get_bes 4 (firstn 4 (ConnWriters.conn_frame 77 [99]%N ex_conn_produce))
  = Z.of_nat (length (ConnWriters.conn_frame 77 [99]%N ex_conn_produce) - 4) /\
  ConnWriters.conn_frame (-1) [99]%N (ConnWriters.QSaslAuthenticate None)
  = [0; 0; 0; 15; 0; 36; 0; 0; 255; 255; 255; 255; 0; 1; 99; 0; 0; 0; 0]%N /\
  write_request false (TStruct [TBytes false] []) 36 0 (-1) [99]%N (VStruct [VBytes None] [])
  = Some (ConnWriters.conn_frame (-1) [99]%N (ConnWriters.QSaslAuthenticate None)).
Proof.
  split; [vm_compute; reflexivity|]. split; [vm_compute; reflexivity|]. split; [vm_compute; reflexivity|].
  split; [exists (ConnWritersDefs.creq_ty true ex_conn_produce); split; vm_compute; reflexivity|].
  split; vm_compute; [reflexivity|]. split; reflexivity.
Qed.

(* ======================================================================================
   The response direction of the hand-written Conn codec (read.go, the readFrom() methods of
   the response structs, the reflective read(), the inline readers of conn.go): "every
   well-formed response for that version decodes to exactly the field values the broker
   encoded and consumes exactly one frame".  Model/Legacy.v has the reader combinators of
   read.go and the reflective reader [read_ty] over a grammar descriptor, Model/ConnOps.v the
   response grammar of every (operation, version) ([resp_ty]) and the inline readers
   (produce_read, listoffsets_read, fetch_header, apiversions_read: their decoding theorems are
   C11_* over Proofs/ConnOpsAll.v), Model/ConnReaders.v the table reader -> grammar and the two
   consumer-group blobs that are not in protocol/ (ConsumerProtocolSubscription /
   ConsumerProtocolAssignment v0, read by groupMetadata.readFrom and groupAssignment.readFrom ->
   readMapStringInt32).
   ====================================================================================== *)
From KV Require Model.Legacy Model.ConnOps Model.ConnReaders Proofs.ConnOpsCodec Proofs.ConnReadersProofs.

(* the Legacy reader on the reference encoding of a well-typed wire value returns that value
   (null string / bytes / array read as empty) and consumes exactly the encoding, whatever
   follows in the stream: for every grammar descriptor, hence for every response struct the Conn
   reads with readFrom() / read() *)
Theorem C04_conn_response_roundtrip : forall t w, Legacy.wt t w -> forall sz rest,
  (Z.of_nat (length (Legacy.enc t w)) <= sz)%Z ->
  Legacy.read_ty t sz (Legacy.enc t w ++ rest)
  = (inl (Legacy.dec_val t w), (sz - Z.of_nat (length (Legacy.enc t w)))%Z, rest).
Proof. exact ConnOpsCodec.read_ty_enc. Qed.
Print Assumptions C04_conn_response_roundtrip.

(* the Conn's response grammar for every (operation, version) it reads — 29 pairs — IS the
   response schema the translator regenerates from /repo's protocol package for that api key
   and version, read as a Legacy descriptor ([legacy_of]: nullable flags and element sizes
   dropped, RECORDS as BYTES; none of these versions is flexible) *)
Theorem C04_conn_response_grammar_generated : forall a v,
  In (a, v) ConnReadersProofs.conn_responses ->
  exists t, lookup_schema schemas true (ConnReadersProofs.key_of a) (Z.of_N v) = Some (false, t) /\
            ConnReadersProofs.legacy_of t = ConnOps.resp_ty a v.
Proof. exact ConnReadersProofs.resp_ty_is_generated. Qed.
Print Assumptions C04_conn_response_grammar_generated.

(* the member metadata blob of JoinGroup: groupMetadata.readFrom *)
Theorem C04_conn_group_metadata_roundtrip : forall w,
  Legacy.wt ConnReaders.t_group_metadata w -> forall sz rest,
  (Z.of_nat (length (Legacy.enc ConnReaders.t_group_metadata w)) <= sz)%Z ->
  ConnReaders.read_group_metadata sz (Legacy.enc ConnReaders.t_group_metadata w ++ rest)
  = (inl (Legacy.dec_val ConnReaders.t_group_metadata w),
     (sz - Z.of_nat (length (Legacy.enc ConnReaders.t_group_metadata w)))%Z, rest).
Proof. exact ConnReadersProofs.group_metadata_roundtrip. Qed.
Print Assumptions C04_conn_group_metadata_roundtrip.

(* the member assignment blob of SyncGroup: groupAssignment.readFrom -> readMapStringInt32.  The
   result is the encoded value with its topic -> partitions entries as a Go map holds them
   ([assignment_of]: a later entry of the same topic replaces the earlier one; every partition
   list is the one encoded for ITS topic) *)
Theorem C04_conn_group_assignment_roundtrip : forall w,
  Legacy.wt ConnReaders.t_group_assignment w -> forall sz rest,
  (Z.of_nat (length (Legacy.enc ConnReaders.t_group_assignment w)) <= sz)%Z ->
  ConnReaders.read_group_assignment sz (Legacy.enc ConnReaders.t_group_assignment w ++ rest)
  = (inl (ConnReadersProofs.assignment_of (Legacy.dec_val ConnReaders.t_group_assignment w)),
     (sz - Z.of_nat (length (Legacy.enc ConnReaders.t_group_assignment w)))%Z, rest).
Proof. exact ConnReadersProofs.group_assignment_roundtrip. Qed.
Print Assumptions C04_conn_group_assignment_roundtrip.

(* with distinct topics the map is the list of entries that was encoded *)
Theorem C04_conn_assignment_distinct_topics : forall es,
  NoDup (map fst es) -> ConnReaders.map_of_entries es = es.
Proof. exact ConnReadersProofs.map_of_entries_nodup. Qed.
Print Assumptions C04_conn_assignment_distinct_topics.

(* non-vacuity: the assignment {orders: [0 1 2], payments: [7 8], audit: [5]} with null user data *)
Definition ex_conn_assignment : Legacy.wval :=
  Legacy.WP (Legacy.WZ 0%Z)
   (Legacy.WP (Legacy.WL (Some
      [Legacy.WP (Legacy.WS (Some [111; 114; 100; 101; 114; 115]%N))
                 (Legacy.WL (Some [Legacy.WZ 0%Z; Legacy.WZ 1%Z; Legacy.WZ 2%Z]));
       Legacy.WP (Legacy.WS (Some [112; 97; 121; 109; 101; 110; 116; 115]%N))
                 (Legacy.WL (Some [Legacy.WZ 7%Z; Legacy.WZ 8%Z]));
       Legacy.WP (Legacy.WS (Some [97; 117; 100; 105; 116]%N)) (Legacy.WL (Some [Legacy.WZ 5%Z]))]))
      (Legacy.WS None)).
Example C04_conn_assignment_example :
  ConnReaders.read_group_assignment 71%Z (Legacy.enc ConnReaders.t_group_assignment ex_conn_assignment ++ [9]%N)
  = (inl (Legacy.VP (Legacy.VZ 0%Z)
           (Legacy.VP (Legacy.VL
              [Legacy.VP (Legacy.VB [111; 114; 100; 101; 114; 115]%N) (Legacy.VL [Legacy.VZ 0%Z; Legacy.VZ 1%Z; Legacy.VZ 2%Z]);
               Legacy.VP (Legacy.VB [112; 97; 121; 109; 101; 110; 116; 115]%N) (Legacy.VL [Legacy.VZ 7%Z; Legacy.VZ 8%Z]);
               Legacy.VP (Legacy.VB [97; 117; 100; 105; 116]%N) (Legacy.VL [Legacy.VZ 5%Z])])
              (Legacy.VB []))), 0%Z, [9]%N).
Proof. vm_compute. reflexivity. Qed.
