(* Properties/C20.v — malformed length fields cannot crash the client.
   Only statements; every proof is [exact <lemma>]. *)
From Coq Require Import List NArith ZArith Bool.
From KV Require Import Lib.Bits Lib.Bytes Lib.Varint Model.Schema Gen.Schemas
  Proofs.SchemaBase Proofs.SchemaDefs Proofs.SchemaPrims Proofs.SchemaTotal Proofs.SchemaGen Proofs.SchemaC20.
Import ListNotations.

(* For EVERY byte string: ReadResponse returns a message or an error (or reports that the
   memory budget would be exceeded, see below) — never a panic, never an endless loop
   (OutOfFuel is the model's outcome for a wire-counted loop that makes no progress); a
   message is only returned after exactly the declared frame was consumed. *)
Theorem C20_total : forall c flex t input,
  schema_ok flex t = true -> bytes_ok input ->
  match read_response c flex t input with
  | Ok _ s' =>
      exists size, (4 <= length input)%nat /\ size = get_bes 4 (firstn 4 input) /\ (4 <= size)%Z /\
        (4 + size <= Z.of_nat (length input))%Z /\
        d_in s' = skipn (4 + Z.to_nat size) input /\ d_remain s' = 0%Z
  | Err _ _ _ => True
  | Oom => True
  | Panic => False
  | OutOfFuel => False
  end.
Proof. exact read_response_total. Qed.
Print Assumptions C20_total.

(* the same for any value of any type, from any decoder state inside an int32-sized frame:
   a successful decode consumed at least min_size bytes of the input and exactly what it
   subtracted from the frame's remaining size *)
Theorem C20_decode_total : forall c flex t, schema_ok flex t = true ->
  forall s, small s -> good (N.to_nat (min_size flex t)) s (decode c flex t s).
Proof. exact decode_good. Qed.
Print Assumptions C20_decode_total.

(* it applies to every message type registered in /repo/protocol today *)
Theorem C20_every_registered_type : forall c m input,
  In m schemas -> bytes_ok input ->
  match read_response c m.(ms_flex) m.(ms_ty) input with
  | Panic => False | OutOfFuel => False | _ => True
  end.
Proof. exact every_registered_type_total. Qed.
Print Assumptions C20_every_registered_type.

(* Residual (known finding F8b): allocation is bounded by the DECLARED frame size, not by
   the bytes received.  Fourteen bytes make the decoder ask for 2 GiB. *)
Theorem C20_alloc_follows_declared_size_refuted :
  exists t input, schema_ok false t = true /\ length input = 14%nat /\ bytes_ok input /\
    read_response {| budget := 1073741824 |} false t input = Oom.
Proof. exact alloc_follows_declared_size. Qed.
Print Assumptions C20_alloc_follows_declared_size_refuted.

(* non-vacuity: a response announcing 2^31-1 array elements in 12 bytes is an error, not an allocation *)
Example C20_example :
  read_response {| budget := 1073741824 |} false (TStruct [TArray false 40%N (TStruct [TInt 4; TString false] [])] [])
    [0; 0; 0; 8; 0; 0; 0; 1; 127; 255; 255; 255]%N = Err EEof 0 0.
Proof. vm_compute. reflexivity. Qed.
