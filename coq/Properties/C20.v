(* Properties/C20.v — malformed length fields cannot crash the client.
   Only statements; every proof is [exact <lemma>]. *)
From Coq Require Import List NArith ZArith Bool.
From KV Require Import Lib.Bits Lib.Bytes Lib.Varint Model.Schema Gen.Schemas
  Proofs.SchemaBase Proofs.SchemaDefs Proofs.SchemaPrims Proofs.SchemaTotal Proofs.SchemaGen Proofs.SchemaAlloc Proofs.SchemaC20.
Import ListNotations.

(* For EVERY byte string: ReadResponse returns a message or an error (or reports that the
   memory budget would be exceeded, see below) — never a panic, never an endless loop
   (OutOfFuel is the model's outcome for a wire-counted loop that makes no progress); a
   message is only returned after exactly the declared frame was consumed. *)
Theorem C20_total : forall c flex t input,
  schema_ok flex t = true -> bytes_ok input ->
  match read_response c flex t input with
  | Ok _ s' =>
      exists size, (4 <= length input)%nat /\ size = get_bes 4 (firstn 4 input) /\ (4 <= size)%Z /\
        (4 + size <= Z.of_nat (length input))%Z /\
        d_in s' = skipn (4 + Z.to_nat size) input /\ d_remain s' = 0%Z
  | Err _ _ _ => True
  | Oom => True
  | Panic => False
  | OutOfFuel => False
  end.
Proof. exact read_response_total. Qed.
Print Assumptions C20_total.

(* the same for any value of any type, from any decoder state inside an int32-sized frame:
   a successful decode consumed at least min_size bytes of the input and exactly what it
   subtracted from the frame's remaining size *)
Theorem C20_decode_total : forall c flex t, schema_ok flex t = true ->
  forall s, small s -> good (N.to_nat (min_size flex t)) s (decode c flex t s).
Proof. exact decode_good. Qed.
Print Assumptions C20_decode_total.

(* it applies to every message type registered in /repo/protocol today *)
Theorem C20_every_registered_type : forall c m input,
  In m schemas -> bytes_ok input ->
  match read_response c m.(ms_flex) m.(ms_ty) input with
  | Panic => False | OutOfFuel => False | _ => True
  end.
Proof. exact every_registered_type_total. Qed.
Print Assumptions C20_every_registered_type.

(* ---- "never allocates memory out of proportion to the bytes actually received" ----
   What holds: every allocation is paid for by frame bytes the decoder goes on to consume, except
   at most one per nesting level made just before the frame's remaining size is exhausted or an
   error stops the decode.  Hence, for EVERY byte string, ReadResponse allocates at most
   2 * K(t) bytes per byte of the DECLARED frame size (K(t): element sizes summed along the
   deepest nesting path of the schema; at most 217 for the registered types), and with a budget
   above that it never reports Oom. *)
Theorem C20_alloc_bounded_by_declared_size : forall c flex t input,
  schema_ok flex t = true -> bytes_ok input ->
  let size := get_bes 4 (firstn 4 input) in
  let K := Z.max 1 (kfac t) in
  match read_response c flex t input with
  | Ok _ s' => (zal s' <= 2 * K * Z.max 0 size)%Z
  | Err _ _ al => (Z.of_N al <= 2 * K * Z.max 0 size)%Z
  | Oom => (Z.of_N (budget c) < 2 * K * Z.max 0 size)%Z
  | Panic => True
  | OutOfFuel => True
  end.
Proof. exact response_alloc_bounded. Qed.
Print Assumptions C20_alloc_bounded_by_declared_size.

(* the invariant behind it, for any value of any type from any decoder state inside a frame *)
Theorem C20_decode_alloc_accounting : forall c flex t, schema_ok flex t = true ->
  forall s, small s -> nonneg s -> gab c (N.to_nat (min_size flex t)) (kfac t) s (decode c flex t s).
Proof. exact decode_gab. Qed.
Print Assumptions C20_decode_alloc_accounting.

(* The property's clause, under the hypothesis that the whole frame has arrived (then the
   declared size is at most the bytes received): allocation is proportional to the bytes
   received.  Without that hypothesis the clause is false: C20_alloc_follows_declared_size_refuted. *)
Definition C20_alloc_proportional_full_statement : Prop := forall c flex t input,
  schema_ok flex t = true -> bytes_ok input ->
  match read_response c flex t input with
  | Ok _ s' => (zal s' <= 2 * Z.max 1 (kfac t) * Z.of_nat (length input))%Z
  | Err _ _ al => (Z.of_N al <= 2 * Z.max 1 (kfac t) * Z.of_nat (length input))%Z
  | Oom => (Z.of_N (budget c) < 2 * Z.max 1 (kfac t) * Z.of_nat (length input))%Z
  | Panic => True | OutOfFuel => True
  end.

Theorem C20_alloc_proportional_partial : forall c flex t input,
  schema_ok flex t = true -> bytes_ok input -> (4 <= length input)%nat ->
  (4 + get_bes 4 (firstn 4 input) <= Z.of_nat (length input))%Z ->
  let K := Z.max 1 (kfac t) in
  match read_response c flex t input with
  | Ok _ s' => (zal s' <= 2 * K * Z.of_nat (length input))%Z
  | Err _ _ al => (Z.of_N al <= 2 * K * Z.of_nat (length input))%Z
  | Oom => (Z.of_N (budget c) < 2 * K * Z.of_nat (length input))%Z
  | Panic => True
  | OutOfFuel => True
  end.
Proof. exact complete_frame_alloc_proportional. Qed.
Print Assumptions C20_alloc_proportional_partial.

(* for every message type registered in /repo/protocol today, with the constant computed *)
Theorem C20_every_registered_type_alloc : forall c m input,
  In m schemas -> bytes_ok input ->
  let size := get_bes 4 (firstn 4 input) in
  match read_response c m.(ms_flex) m.(ms_ty) input with
  | Ok _ s' => (zal s' <= 2 * KMAX * Z.max 0 size)%Z
  | Err _ _ al => (Z.of_N al <= 2 * KMAX * Z.max 0 size)%Z
  | Oom => (Z.of_N (budget c) < 2 * KMAX * Z.max 0 size)%Z
  | Panic => False
  | OutOfFuel => False
  end.
Proof. exact every_registered_type_alloc. Qed.
Print Assumptions C20_every_registered_type_alloc.

(* Residual (known finding F8b): allocation is bounded by the DECLARED frame size, not by
   the bytes received.  Fourteen bytes make the decoder ask for 2 GiB. *)
Theorem C20_alloc_follows_declared_size_refuted :
  exists t input, schema_ok false t = true /\ length input = 14%nat /\ bytes_ok input /\
    read_response {| budget := 1073741824 |} false t input = Oom.
Proof. exact alloc_follows_declared_size. Qed.
Print Assumptions C20_alloc_follows_declared_size_refuted.

(* the full statement is refuted by the same witness: 14 bytes received, 2 * K * 14 = 28 < budget, yet Oom *)
Theorem C20_alloc_proportional_refuted : ~ C20_alloc_proportional_full_statement.
Proof. exact alloc_proportional_refuted. Qed.
Print Assumptions C20_alloc_proportional_refuted.

(* non-vacuity: a response announcing 2^31-1 array elements in 12 bytes is an error, not an allocation *)
Example C20_example :
  read_response {| budget := 1073741824 |} false (TStruct [TArray false 40%N (TStruct [TInt 4; TString false] [])] [])
    [0; 0; 0; 8; 0; 0; 0; 1; 127; 255; 255; 255]%N = Err EEof 0 0.
Proof. vm_compute. reflexivity. Qed.

(* ---- the raw (SaslHandshake v0) SASL authentication response: the one response the Transport
   reads outside ReadResponse.  Statements in Properties/C20sasl.v (over Model/Sasl.v); restated
   here so that they are part of this property's obligations. ---- *)
From KV Require Model.Sasl Proofs.SaslRawRead Properties.C20sasl.

Theorem C20_raw_sasl_alloc_proportional :
  forall announced avail e,
    let r := Sasl.raw_read Sasl.Transport announced avail e in
    (Sasl.rr_alloc r <= 10 * Sasl.rr_received r + 2560)%N /\
    (Sasl.rr_received r <= N.of_nat (length avail))%N /\
    (0 <= announced -> Z.of_N (Sasl.rr_received r) <= announced)%Z.
Proof. exact C20sasl.C20_raw_sasl_alloc_proportional_go. Qed.
Print Assumptions C20_raw_sasl_alloc_proportional.
