(* Properties/C17.v — a response cut off at any byte yields an error (Transport half:
   protocol.ReadResponse; the Conn half is in Properties/C17conn.v).
   Only statements; every proof is [exact <lemma>]. *)
From Coq Require Import List NArith ZArith Bool.
From KV Require Import Lib.Bits Lib.Bytes Lib.Varint Model.Schema Gen.Schemas
  Proofs.SchemaBase Proofs.SchemaDefs Proofs.SchemaPrims Proofs.SchemaTotal Proofs.SchemaGen Proofs.SchemaC20.
Import ListNotations.

(* whatever bytes arrived: if fewer than the frame announces (4 + declared size), ReadResponse
   does not return a message — hence no fabricated or partially filled data — and does not
   panic or spin; in particular for every strict prefix of every well-formed frame *)
Theorem C17_transport_cut : forall c flex t input,
  schema_ok flex t = true -> bytes_ok input -> (4 <= length input)%nat ->
  (Z.of_nat (length input) < 4 + get_bes 4 (firstn 4 input))%Z ->
  match read_response c flex t input with
  | Ok _ _ => False | Panic => False | OutOfFuel => False
  | Err _ _ _ => True | Oom => True
  end.
Proof. exact cut_never_ok. Qed.
Print Assumptions C17_transport_cut.

(* a cut inside the 4-byte size prefix *)
Theorem C17_transport_cut_in_size : forall c flex t input,
  schema_ok flex t = true -> bytes_ok input -> (length input < 4)%nat ->
  exists e ra al, read_response c flex t input = Err e ra al.
Proof. exact cut_prefix_never_ok. Qed.
Print Assumptions C17_transport_cut_in_size.

(* for every registered message type *)
Theorem C17_every_registered_type : forall c m input,
  In m schemas -> bytes_ok input ->
  match read_response c m.(ms_flex) m.(ms_ty) input with
  | Panic => False | OutOfFuel => False | _ => True
  end.
Proof. exact every_registered_type_total. Qed.
Print Assumptions C17_every_registered_type.

Example C17_example :
  (* metadata-like response cut after 9 of its 16 bytes *)
  read_response {| budget := 1000 |} false (TStruct [TInt 4; TString false] [])
    [0; 0; 0; 12; 0; 0; 0; 7; 0]%N = Err EEof 7 0.
Proof. vm_compute. reflexivity. Qed.
