(* Properties/C17.v — a response cut off at any byte yields an error (Transport half:
   protocol.ReadResponse; the Conn half is in Properties/C17conn.v).
   Only statements; every proof is [exact <lemma>]. *)
From Coq Require Import List NArith ZArith Bool.
From KV Require Import Lib.Bits Lib.Bytes Lib.Varint Model.Schema Gen.Schemas
  Proofs.SchemaBase Proofs.SchemaDefs Proofs.SchemaPrims Proofs.SchemaTotal Proofs.SchemaGen Proofs.SchemaC20.
Import ListNotations.

(* whatever bytes arrived: if fewer than the frame announces (4 + declared size), ReadResponse
   does not return a message — hence no fabricated or partially filled data — and does not
   panic or spin; in particular for every strict prefix of every well-formed frame *)
Theorem C17_transport_cut : forall c flex t input,
  schema_ok flex t = true -> bytes_ok input -> (4 <= length input)%nat ->
  (Z.of_nat (length input) < 4 + get_bes 4 (firstn 4 input))%Z ->
  match read_response c flex t input with
  | Ok _ _ => False | Panic => False | OutOfFuel => False
  | Err _ _ _ => True | Oom => True
  end.
Proof. exact cut_never_ok. Qed.
Print Assumptions C17_transport_cut.

(* a cut inside the 4-byte size prefix *)
Theorem C17_transport_cut_in_size : forall c flex t input,
  schema_ok flex t = true -> bytes_ok input -> (length input < 4)%nat ->
  exists e ra al, read_response c flex t input = Err e ra al.
Proof. exact cut_prefix_never_ok. Qed.
Print Assumptions C17_transport_cut_in_size.

(* for every registered message type *)
Theorem C17_every_registered_type : forall c m input,
  In m schemas -> bytes_ok input ->
  match read_response c m.(ms_flex) m.(ms_ty) input with
  | Panic => False | OutOfFuel => False | _ => True
  end.
Proof. exact every_registered_type_total. Qed.
Print Assumptions C17_every_registered_type.

(* with the memory outcome excluded: for a registered type, as soon as the budget covers what the
   DECLARED frame size allows (2 * 217 * size bytes: C20's bound), a cut response is an error —
   in particular every strict prefix of a well-formed frame *)
Theorem C17_transport_cut_is_error : forall c m input,
  In m schemas -> bytes_ok input -> (4 <= length input)%nat ->
  (Z.of_nat (length input) < 4 + get_bes 4 (firstn 4 input))%Z ->
  (2 * KMAX * Z.max 0 (get_bes 4 (firstn 4 input)) <= Z.of_N (budget c))%Z ->
  exists e ra al, read_response c m.(ms_flex) m.(ms_ty) input = Err e ra al.
Proof. exact registered_cut_is_error. Qed.
Print Assumptions C17_transport_cut_is_error.

Example C17_example :
  (* metadata-like response cut after 9 of its 16 bytes *)
  read_response {| budget := 1000 |} false (TStruct [TInt 4; TString false] [])
    [0; 0; 0; 12; 0; 0; 0; 7; 0]%N = Err EEof 7 0.
Proof. vm_compute. reflexivity. Qed.

(* ---- Conn half: the theorems live in Properties/C17conn.v (over Model/ConnOps.v) and are part
        of this property's proof cone; the central one is restated here ---- *)
From KV Require Model.Legacy Model.ConnOps Proofs.ConnOpsProofs Properties.C17conn.

Theorem C17_conn_cut_every_operation : forall st a v off w k,
  ConnOps.negotiated a v = true -> ConnOps.well_formed a v w ->
  ConnOpsProofs.fits (Legacy.enc (ConnOps.resp_ty a v) w) -> ConnOps.closed st = false ->
  (k < length (ConnOps.frame (wrap32 (ConnOps.corr st + 1)) (Legacy.enc (ConnOps.resp_ty a v) w)))%nat ->
  exists e st2 s2,
    ConnOps.conn_do st (ConnOps.mkOp a v off)
      (firstn k (ConnOps.frame (wrap32 (ConnOps.corr st + 1)) (Legacy.enc (ConnOps.resp_ty a v) w)))
      = (st2, ConnOps.RErr e, s2) /\ ConnOps.is_kafka e = false /\ ConnOps.closed st2 = true.
Proof. exact C17conn.C17_conn_cut. Qed.
Print Assumptions C17_conn_cut_every_operation.
