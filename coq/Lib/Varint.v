(* Lib/Varint.v — Kafka's unsigned varints and zig-zag, as the Go code computes them. *)
From Coq Require Import List NArith ZArith Bool Lia.
From KV Require Import Lib.Bits.
Import ListNotations.
Open Scope N_scope.

(* protocol/encode.go writeUnsignedVarInt (the 32-byte buffer never fills for a uint64):
   while i >= 0x80 emit byte(i)|0x80, i >>= 7; then emit byte(i). *)
Fixpoint uvarint_enc (fuel : nat) (x : N) {struct fuel} : list N :=
  match fuel with
  | O => [x mod 256]
  | S f => if x <? 128 then [x] else (x mod 128 + 128) :: uvarint_enc f (x / 128)
  end.
Definition put_uvarint (x : N) : list N := uvarint_enc 10 (x mod M64).

(* writeVarInt: uint64((i << 1) ^ (i >> 63)) on an int64 *)
Definition zigzag (i : Z) : N :=
  u64 (Z.lxor (wrap64 (i * 2)) (if (i <? 0)%Z then (-1)%Z else 0%Z)).
Definition put_varint (i : Z) : list N := put_uvarint (zigzag i).
(* readVarInt: int64(x>>1) ^ -(int64(x) & 1) *)
Definition unzigzag (x : N) : Z :=
  Z.lxor (Z.of_N (x / 2)) (if N.odd x then (-1)%Z else 0%Z).

(* sizeOfUnsignedVarInt *)
Fixpoint uvarint_len (fuel : nat) (x : N) {struct fuel} : nat :=
  match fuel with
  | O => 1
  | S f => if x <? 128 then 1 else S (uvarint_len f (x / 128))
  end.
