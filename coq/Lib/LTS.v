(* Lib/LTS.v — deterministic labelled transition systems (DESIGN.md section 2.4).

   A model is [step : state -> label -> option state]; [None] = the label is not
   enabled.  All nondeterminism (scheduler, timers, faults) is the choice of the
   next label, so "for every schedule" is [forall ls s, run step init ls = Some s -> ...].
   Generic and small on purpose: every stateful model reuses it. *)
From Coq Require Import List.
Import ListNotations.

Section LTS.
  Variables (state label : Type).
  Variable step : state -> label -> option state.

  Fixpoint run (s : state) (ls : list label) {struct ls} : option state :=
    match ls with
    | [] => Some s
    | l :: ls' => match step s l with
                  | Some s' => run s' ls'
                  | None => None
                  end
    end.

  Definition reachable (init s : state) : Prop := exists ls, run init ls = Some s.

  Definition enabled (s : state) (l : label) : Prop := step s l <> None.

  Lemma run_app : forall ls1 ls2 s,
    run s (ls1 ++ ls2) = match run s ls1 with Some s' => run s' ls2 | None => None end.
  Proof.
    induction ls1 as [|l ls1 IH]; intros ls2 s; simpl; [reflexivity|].
    destruct (step s l); [apply IH|reflexivity].
  Qed.

  Lemma run_snoc : forall ls l s s',
    run s ls = Some s' -> run s (ls ++ [l]) = step s' l.
  Proof.
    intros ls l s s' H. rewrite run_app, H. simpl. destruct (step s' l); reflexivity.
  Qed.

  (* Invariant by induction: holds initially, preserved by every enabled step. *)
  Lemma inv_run : forall (P : state -> Prop),
    (forall s l s', P s -> step s l = Some s' -> P s') ->
    forall ls s s', P s -> run s ls = Some s' -> P s'.
  Proof.
    intros P Hstep. induction ls as [|l ls IH]; intros s s' Hs Hr; simpl in Hr.
    - inversion Hr; subst; exact Hs.
    - destruct (step s l) as [s1|] eqn:E; [|discriminate].
      eapply IH; [|exact Hr]. eapply Hstep; eauto.
  Qed.

  Lemma inv_reachable : forall (P : state -> Prop) init,
    P init ->
    (forall s l s', P s -> step s l = Some s' -> P s') ->
    forall s, reachable init s -> P s.
  Proof.
    intros P init H0 Hstep s [ls Hr]. eapply inv_run; eauto.
  Qed.

  (* The same with an auxiliary invariant Q already established (strengthening). *)
  Lemma inv_run_with : forall (Q P : state -> Prop),
    (forall s l s', Q s -> step s l = Some s' -> Q s') ->
    (forall s l s', Q s -> P s -> step s l = Some s' -> P s') ->
    forall ls s s', Q s -> P s -> run s ls = Some s' -> P s'.
  Proof.
    intros Q P HQ HP ls s s' Q0 P0 Hr.
    assert (H : Q s' /\ P s').
    { eapply (inv_run (fun x => Q x /\ P x)); [|split; eassumption|exact Hr].
      intros x l x' [Qx Px] St. split; eauto. }
    exact (proj2 H).
  Qed.

  (* Relational (two-state) facts: R is reflexive, transitive and contains every step. *)
  Lemma rel_run : forall (R : state -> state -> Prop),
    (forall s, R s s) ->
    (forall a b c, R a b -> R b c -> R a c) ->
    (forall s l s', step s l = Some s' -> R s s') ->
    forall ls s s', run s ls = Some s' -> R s s'.
  Proof.
    intros R Hr Ht Hs. induction ls as [|l ls IH]; intros s s' H; simpl in H.
    - inversion H; subst; apply Hr.
    - destruct (step s l) as [s1|] eqn:E; [|discriminate].
      eapply Ht; [eapply Hs; exact E|eapply IH; exact H].
  Qed.

  (* Prefixes of a successful run are successful. *)
  Lemma run_prefix : forall ls1 ls2 s s',
    run s (ls1 ++ ls2) = Some s' -> exists s1, run s ls1 = Some s1 /\ run s1 ls2 = Some s'.
  Proof.
    intros ls1 ls2 s s' H. rewrite run_app in H.
    destruct (run s ls1) as [s1|]; [|discriminate]. eauto.
  Qed.
End LTS.

Arguments run {state label} step s ls.
Arguments reachable {state label} step init s.
Arguments enabled {state label} step s l.
