(* Lib/Bits.v — fixed-width machine arithmetic over unbounded N/Z, wraps explicit. *)
From Coq Require Import List NArith ZArith Bool Lia.
From Coq Require Import ZifyN ZifyNat ZifyBool.
Import ListNotations.

Definition byte := N.
Definition is_byte (b : N) : Prop := (b < 256)%N.
Definition bytes_ok (l : list N) : Prop := Forall is_byte l.
Definition is_byteb (b : N) : bool := (b <? 256)%N.
Definition bytes_okb (l : list N) : bool := forallb is_byteb l.

Definition M8  : N := 256.
Definition M16 : N := 65536.
Definition M31 : N := 2147483648.
Definition M32 : N := 4294967296.
Definition M63 : N := 9223372036854775808.
Definition M64 : N := 18446744073709551616.

Definition ZM31 : Z := 2147483648.
Definition ZM32 : Z := 4294967296.
Definition ZM63 : Z := 9223372036854775808.
Definition ZM64 : Z := 18446744073709551616.

(* uint32 arithmetic *)
Definition w32 (x : N) : N := (x mod M32)%N.
Definition add32 (a b : N) : N := ((a + b) mod M32)%N.
Definition mul32 (a b : N) : N := ((a * b) mod M32)%N.
Definition shl32 (a k : N) : N := ((a * 2 ^ k) mod M32)%N.
Definition w64 (x : N) : N := (x mod M64)%N.
Definition add64 (a b : N) : N := ((a + b) mod M64)%N.

(* Go's int32(x) for a uint32 x, int64(x) for uint64 x *)
Definition s32 (x : N) : Z :=
  let y := (x mod M32)%N in
  if (y <? M31)%N then Z.of_N y else (Z.of_N y - ZM32)%Z.
Definition s64 (x : N) : Z :=
  let y := (x mod M64)%N in
  if (y <? M63)%N then Z.of_N y else (Z.of_N y - ZM64)%Z.
(* Go's uint32(z) for a signed z; uint64(z) *)
Definition u32 (z : Z) : N := Z.to_N (z mod ZM32)%Z.
Definition u64 (z : Z) : N := Z.to_N (z mod ZM64)%Z.
(* wrap a mathematical integer into the int32 / int64 range (two's complement) *)
Definition wrap32 (z : Z) : Z := ((z + ZM31) mod ZM32 - ZM31)%Z.
Definition wrap64 (z : Z) : Z := ((z + ZM63) mod ZM64 - ZM63)%Z.

Definition in_i32 (z : Z) : Prop := (- ZM31 <= z < ZM31)%Z.
Definition in_i64 (z : Z) : Prop := (- ZM63 <= z < ZM63)%Z.

Lemma w32_lt x : (w32 x < M32)%N.
Proof. unfold w32, M32. apply N.mod_lt. discriminate. Qed.

Lemma s32_range x : in_i32 (s32 x).
Proof.
  unfold in_i32, s32, ZM31, ZM32, M31, M32.
  pose proof (N.mod_lt x 4294967296 ltac:(discriminate)) as H.
  destruct (N.ltb_spec (x mod 4294967296) 2147483648); lia.
Qed.

Lemma u32_s32 x : u32 (s32 x) = w32 x.
Proof.
  unfold u32, s32, w32, ZM32, M31, M32.
  pose proof (N.mod_lt x 4294967296 ltac:(discriminate)) as H.
  set (y := (x mod 4294967296)%N) in *.
  destruct (N.ltb_spec y 2147483648).
  - rewrite Z.mod_small by lia. lia.
  - replace (Z.of_N y - 4294967296)%Z with (Z.of_N y + (-1) * 4294967296)%Z by lia.
    rewrite Z.mod_add by lia. rewrite Z.mod_small by lia. lia.
Qed.

Lemma s32_u32 z : in_i32 z -> s32 (u32 z) = z.
Proof.
  unfold in_i32, s32, u32, ZM31, ZM32, M31, M32. intros Hz.
  assert (Hm : (0 <= z mod 4294967296 < 4294967296)%Z) by (apply Z.mod_pos_bound; lia).
  rewrite N.mod_small by lia.
  destruct (N.ltb_spec (Z.to_N (z mod 4294967296)) 2147483648) as [Hlt|Hge].
  - rewrite Z2N.id by lia.
    destruct (Z_lt_le_dec z 0) as [Hn|Hp].
    + exfalso. replace z with (z + 1 * 4294967296 - 4294967296)%Z in Hlt at 1 by lia.
      replace (z + 1 * 4294967296 - 4294967296)%Z with ((z + 4294967296) + (-1) * 4294967296)%Z in Hlt by lia.
      rewrite Z.mod_add in Hlt by lia. rewrite Z.mod_small in Hlt by lia. lia.
    + apply Z.mod_small. lia.
  - rewrite Z2N.id by lia.
    destruct (Z_lt_le_dec z 0) as [Hn|Hp].
    + replace z with ((z + 4294967296) + (-1) * 4294967296)%Z at 1 by lia.
      rewrite Z.mod_add by lia. rewrite Z.mod_small by lia. lia.
    + exfalso. rewrite Z.mod_small in Hge by lia. lia.
Qed.
