(* Lib/Crc.v — CRC-32 in its bitwise reflected form, polynomial as parameter
   (IEEE 0xEDB88320 for hash/crc32.ChecksumIEEE and message formats 0/1,
   Castagnoli 0x82F63B78 for record batches v2). *)
From Coq Require Import List NArith Bool.
Import ListNotations.
Open Scope N_scope.

Definition crc_poly_ieee : N := 3988292384.        (* 0xEDB88320 *)
Definition crc_poly_castagnoli : N := 2197175160.  (* 0x82F63B78 *)
Definition crc_bit (poly c : N) : N :=
  if N.testbit c 0 then N.lxor (N.shiftr c 1) poly else N.shiftr c 1.
Definition crc_byte (poly c b : N) : N :=
  let c := N.lxor c b in
  crc_bit poly (crc_bit poly (crc_bit poly (crc_bit poly
  (crc_bit poly (crc_bit poly (crc_bit poly (crc_bit poly c))))))).
Definition crc_update (poly c : N) (bs : list N) : N :=
  N.lxor (fold_left (crc_byte poly) bs (N.lxor c 4294967295)) 4294967295.
Definition crc32_ieee (bs : list N) : N := crc_update crc_poly_ieee 0 bs.

Definition crc32c (bs : list N) : N := crc_update crc_poly_castagnoli 0 bs.
