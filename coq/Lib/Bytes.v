(* Lib/Bytes.v — big-endian fixed-width integers over byte lists (byte = N < 256).
   Defined least-significant byte first with append, which keeps the round-trip
   proofs to [lia] + [N.div_mod]. *)
From Coq Require Import List NArith ZArith Bool Lia.
From Coq Require Import ZifyN ZifyNat ZifyBool.
From KV Require Import Lib.Bits.
Import ListNotations.
Open Scope N_scope.

(* the [w] least significant bytes of x, most significant first *)
Fixpoint put_be (w : nat) (x : N) {struct w} : list N :=
  match w with
  | O => []
  | S w' => put_be w' (x / 256) ++ [x mod 256]
  end.

(* accumulate bytes, most significant first *)
Fixpoint get_be (bs : list N) (acc : N) {struct bs} : N :=
  match bs with
  | [] => acc
  | b :: t => get_be t (acc * 256 + b)
  end.

Definition pow256 (w : nat) : N := 256 ^ N.of_nat w.

(* signed values: two's complement in w bytes *)
Definition put_bes (w : nat) (z : Z) : list N := put_be w (Z.to_N (z mod Z.of_N (pow256 w))).
Definition get_bes (w : nat) (bs : list N) : Z :=
  let u := get_be bs 0 in
  if u <? pow256 w / 2 then Z.of_N u else (Z.of_N u - Z.of_N (pow256 w))%Z.

Definition in_signed (w : nat) (z : Z) : Prop :=
  (- Z.of_N (pow256 w / 2) <= z < Z.of_N (pow256 w / 2))%Z.
Definition in_signedb (w : nat) (z : Z) : bool :=
  ((- Z.of_N (pow256 w / 2) <=? z) && (z <? Z.of_N (pow256 w / 2)))%Z.

Lemma pow256_S w : pow256 (S w) = 256 * pow256 w.
Proof. unfold pow256. rewrite Nat2N.inj_succ, N.pow_succ_r'. reflexivity. Qed.

Lemma pow256_pos w : 0 < pow256 w.
Proof. unfold pow256. apply N.neq_0_lt_0. apply N.pow_nonzero. discriminate. Qed.

Lemma put_be_length w : forall x, length (put_be w x) = w.
Proof. induction w as [|w IH]; intros x; cbn [put_be]; [reflexivity|]. rewrite app_length, IH. cbn. lia. Qed.

Lemma put_be_bytes w : forall x, bytes_ok (put_be w x).
Proof.
  induction w as [|w IH]; intros x; cbn [put_be]; [constructor|].
  apply Forall_app. split; [apply IH|]. constructor; [|constructor].
  unfold is_byte. apply N.mod_lt. discriminate.
Qed.

Lemma get_be_app a b acc : get_be (a ++ b) acc = get_be b (get_be a acc).
Proof. revert acc. induction a as [|x a IH]; intros acc; cbn [app get_be]; [reflexivity|]. apply IH. Qed.

Lemma get_put_be w : forall x acc, x < pow256 w -> get_be (put_be w x) acc = acc * pow256 w + x.
Proof.
  induction w as [|w IH]; intros x acc Hx.
  - cbn [put_be get_be]. unfold pow256 in *. cbn in *. lia.
  - cbn [put_be]. rewrite get_be_app. cbn [get_be].
    rewrite pow256_S in *.
    rewrite IH by (apply N.div_lt_upper_bound; lia).
    pose proof (N.div_mod x 256 ltac:(discriminate)). lia.
Qed.

Lemma get_put_be0 w x : x < pow256 w -> get_be (put_be w x) 0 = x.
Proof. intros H. rewrite get_put_be by exact H. lia. Qed.

Lemma get_put_bes w z : (0 < w)%nat -> in_signed w z -> get_bes w (put_bes w z) = z.
Proof.
  intros Hw Hz. unfold get_bes, put_bes, in_signed in *.
  pose proof (pow256_pos w) as Hp.
  assert (Heven : pow256 w = 2 * (pow256 w / 2)).
  { destruct w as [|w']; [lia|]. rewrite pow256_S.
    replace (256 * pow256 w') with ((128 * pow256 w') * 2) by lia.
    rewrite N.div_mul by discriminate. lia. }
  set (P := pow256 w) in *. set (H2 := P / 2) in *.
  assert (Hm : (0 <= z mod Z.of_N P < Z.of_N P)%Z) by (apply Z.mod_pos_bound; lia).
  rewrite get_put_be0 by lia.
  rewrite Z2N.id by lia.
  destruct (N.ltb_spec (Z.to_N (z mod Z.of_N P)) H2) as [Hlt|Hge].
  - destruct (Z_lt_le_dec z 0) as [Hn|Hpz].
    + exfalso.
      replace z with ((z + Z.of_N P) + (-1) * Z.of_N P)%Z in Hlt by lia.
      rewrite Z.mod_add in Hlt by lia. rewrite Z.mod_small in Hlt by lia. lia.
    + apply Z.mod_small. lia.
  - destruct (Z_lt_le_dec z 0) as [Hn|Hpz].
    + replace z with ((z + Z.of_N P) + (-1) * Z.of_N P)%Z at 1 by lia.
      rewrite Z.mod_add by lia. rewrite Z.mod_small by lia. lia.
    + exfalso. rewrite Z.mod_small in Hge by lia. lia.
Qed.

Lemma get_be_lt bs : bytes_ok bs -> forall acc, get_be bs acc < (acc + 1) * pow256 (length bs).
Proof.
  induction bs as [|b t IH]; intros Hok acc.
  - cbn. unfold pow256. cbn. lia.
  - apply Forall_cons_iff in Hok as [Hb Hok]. unfold is_byte in Hb.
    cbn [get_be length]. rewrite pow256_S.
    specialize (IH Hok (acc * 256 + b)). nia.
Qed.

