(* Proofs/PagesProofs.v — invariant of the page transition system and stability of the bytes
   seen through a live pageRef. *)
From Coq Require Import List NArith Bool Arith Lia.
From KV Require Import Model.Pages.
Import ListNotations.

(* ------------------------------------------------------------------ list updates *)
Lemma upd_length {A} (l : list A) : forall i x, length (upd l i x) = length l.
Proof. induction l as [|h t IH]; intros [|i] x; cbn [upd length]; try reflexivity. rewrite IH. reflexivity. Qed.
Lemma nth_upd_same {A} (l : list A) : forall i x d, i < length l -> nth i (upd l i x) d = x.
Proof. induction l as [|h t IH]; intros [|i] x d H; cbn [upd nth length] in *; try lia; try reflexivity. apply IH. lia. Qed.
Lemma nth_upd_other {A} (l : list A) : forall i j x d, i <> j -> nth j (upd l i x) d = nth j l d.
Proof.
  induction l as [|h t IH]; intros [|i] [|j] x d H; cbn [upd nth]; try reflexivity; try lia.
  apply IH. lia.
Qed.
Lemma nth_error_upd_same {A} (l : list A) : forall i x, i < length l -> nth_error (upd l i x) i = Some x.
Proof. induction l as [|h t IH]; intros [|i] x H; cbn [upd nth_error length] in *; try lia; try reflexivity. apply IH. lia. Qed.
Lemma nth_error_upd_other {A} (l : list A) : forall i j x, i <> j -> nth_error (upd l i x) j = nth_error l j.
Proof.
  induction l as [|h t IH]; intros [|i] [|j] x H; cbn [upd nth_error]; try reflexivity; try lia.
  apply IH. lia.
Qed.
Lemma nth_error_lt {A} (l : list A) i x : nth_error l i = Some x -> i < length l.
Proof. intros H. apply nth_error_Some. rewrite H. discriminate. Qed.
Lemma nth_of_nth_error {A} (l : list A) i x d : nth_error l i = Some x -> nth i l d = x.
Proof. intros H. apply nth_error_nth. exact H. Qed.

Lemma sum_upd {A} (f : A -> nat) (l : list A) : forall i x y, nth_error l i = Some y ->
  list_sum (map f (upd l i x)) + f y = list_sum (map f l) + f x.
Proof.
  induction l as [|h t IH]; intros [|i] x y H; cbn [nth_error] in H; try discriminate.
  - injection H as <-. cbn [upd map]. unfold list_sum. cbn [fold_right]. lia.
  - cbn [upd map]. specialize (IH i x y H). unfold list_sum in *. cbn [fold_right]. lia.
Qed.
Lemma sum_app1 {A} (f : A -> nat) (l : list A) x : list_sum (map f (l ++ [x])) = list_sum (map f l) + f x.
Proof. rewrite map_app, list_sum_app. cbn. lia. Qed.

Notation cnt := (count_occ Nat.eq_dec).

Lemma cnt_app1 l p q : cnt (l ++ [q]) p = cnt l p + (if Nat.eq_dec q p then 1 else 0).
Proof. rewrite count_occ_app. cbn [count_occ]. destruct (Nat.eq_dec q p); lia. Qed.

(* ------------------------------------------------------------------ holders and the invariant *)
Definition buf_hold (p : nat) (b : pbuf) : nat := if b_live b then cnt (b_pages b) p else 0.
Definition ref_hold (p : nat) (r : pref) : nat := if r_live r then cnt (map fst (r_segs r)) p else 0.
Definition holders (s : pstate) (p : nat) : nat :=
  list_sum (map (buf_hold p) (s_bufs s)) + list_sum (map (ref_hold p) (s_refs s)).

Definition segs_below (s : pstate) : Prop :=
  forall r rf, nth_error (s_refs s) r = Some rf -> r_live rf = true ->
  forall p lo hi, In (p, (lo, hi)) (r_segs rf) -> hi <= length (p_data (get_page s p)).

Record Inv (s : pstate) : Prop := {
  inv_count : forall p, holders s p <= p_refc (get_page s p);      (* every holder is counted *)
  inv_pool  : forall p, p_pool (get_page s p) = true -> p_refc (get_page s p) = 0;   (* pooled => count 0 *)
  inv_segs  : segs_below s
}.

Lemma Inv_s0 : Inv s0.
Proof.
  split.
  - intros p. unfold holders, get_page. cbn. destruct p; cbn; lia.
  - intros p. unfold get_page. cbn. destruct p; cbn; discriminate.
  - intros r rf H. destruct r; discriminate H.
Qed.

Lemma get_page_lt s p : 0 < p_refc (get_page s p) -> p < length (s_pages s).
Proof.
  intros H. destruct (Nat.lt_ge_cases p (length (s_pages s))) as [|Hge]; [assumption|].
  unfold get_page in H. rewrite nth_overflow in H by exact Hge. cbn in H. lia.
Qed.

(* a page held by a live buffer / live ref is counted, hence known and not pooled *)
Lemma buf_holds s b bf p : Inv s -> nth_error (s_bufs s) b = Some bf -> b_live bf = true -> In p (b_pages bf) ->
  0 < p_refc (get_page s p).
Proof.
  intros I Hb Hl Hin. pose proof (inv_count s I p) as Hc. unfold holders in Hc.
  assert (0 < list_sum (map (buf_hold p) (s_bufs s))); [|lia].
  clear Hc. revert b Hb. induction (s_bufs s) as [|h t IH]; intros [|b] Hb; cbn [nth_error] in Hb; try discriminate.
  - injection Hb as ->. unfold list_sum in *; cbn [map fold_right]. unfold buf_hold at 1. rewrite Hl.
    apply (count_occ_In Nat.eq_dec) in Hin. lia.
  - unfold list_sum in *; cbn [map fold_right]. specialize (IH b Hb). lia.
Qed.
Lemma ref_holds_zero s r rf p : nth_error (s_refs s) r = Some rf -> r_live rf = true ->
  list_sum (map (ref_hold p) (s_refs s)) = 0 -> ~ In p (map fst (r_segs rf)).
Proof.
  intros Hr Hl H0 Hin.
  assert (0 < list_sum (map (ref_hold p) (s_refs s))); [|lia].
  clear H0. revert r Hr. induction (s_refs s) as [|h t IH]; intros [|r] Hr; cbn [nth_error] in Hr; try discriminate.
  - injection Hr as ->. unfold list_sum in *; cbn [map fold_right]. unfold ref_hold at 1. rewrite Hl.
    apply (count_occ_In Nat.eq_dec) in Hin. lia.
  - unfold list_sum in *; cbn [map fold_right]. specialize (IH r Hr). lia.
Qed.
Lemma pooled_not_in_ref s r rf p : Inv s -> nth_error (s_refs s) r = Some rf -> r_live rf = true ->
  p_pool (get_page s p) = true -> ~ In p (map fst (r_segs rf)).
Proof.
  intros I Hr Hl Hp. apply (ref_holds_zero s r rf p Hr Hl).
  pose proof (inv_count s I p). rewrite (inv_pool s I p Hp) in H. unfold holders in H. lia.
Qed.

(* ------------------------------------------------------------------ counters *)
Definition refc_of (ps : list page) (p : nat) : nat := p_refc (nth p ps page0).
Definition data_of (ps : list page) (p : nat) : list N := p_data (nth p ps page0).
Definition pool_of (ps : list page) (p : nat) : bool := p_pool (nth p ps page0).

Lemma inc_page_spec ps q : q < length ps ->
  length (inc_page ps q) = length ps /\
  forall p, refc_of (inc_page ps q) p = refc_of ps p + (if Nat.eq_dec q p then 1 else 0) /\
            data_of (inc_page ps q) p = data_of ps p /\ pool_of (inc_page ps q) p = pool_of ps p.
Proof.
  intros Hq. unfold inc_page. split; [apply upd_length|]. intros p.
  unfold refc_of, data_of, pool_of. destruct (Nat.eq_dec q p) as [->|Hne].
  - rewrite nth_upd_same by exact Hq. cbn. repeat split; lia.
  - rewrite nth_upd_other by exact Hne. repeat split; lia.
Qed.

Lemma inc_pages_spec l : forall ps, (forall q, In q l -> q < length ps) ->
  length (inc_pages ps l) = length ps /\
  forall p, refc_of (inc_pages ps l) p = refc_of ps p + cnt l p /\
            data_of (inc_pages ps l) p = data_of ps p /\ pool_of (inc_pages ps l) p = pool_of ps p.
Proof.
  induction l as [|q l IH]; intros ps H; cbn [inc_pages fold_left].
  - split; [reflexivity|]. intros p. cbn [count_occ]. repeat split; lia.
  - destruct (inc_page_spec ps q (H q (or_introl eq_refl))) as [L1 S1].
    destruct (IH (inc_page ps q)) as [L2 S2].
    { intros x Hx. rewrite L1. apply H. right. exact Hx. }
    fold (inc_pages (inc_page ps q) l). split; [lia|]. intros p.
    destruct (S1 p) as (A1 & B1 & C1). destruct (S2 p) as (A2 & B2 & C2).
    cbn [count_occ]. rewrite A2, A1, B2, B1, C2, C1. destruct (Nat.eq_dec q p); repeat split; lia.
Qed.

Lemma dec_page_spec ps q ps' : dec_page ps q = Some ps' ->
  length ps' = length ps /\ 0 < refc_of ps q /\
  forall p, refc_of ps' p + (if Nat.eq_dec q p then 1 else 0) = refc_of ps p /\
            data_of ps' p = data_of ps p /\
            pool_of ps' p = (if Nat.eq_dec q p then Nat.eqb (refc_of ps' p) 0 else pool_of ps p).
Proof.
  unfold dec_page. intros H. destruct (p_refc (nth q ps page0)) as [|n] eqn:E; [discriminate|].
  injection H as <-.
  assert (Hq : q < length ps).
  { destruct (Nat.lt_ge_cases q (length ps)); [assumption|]. rewrite nth_overflow in E by assumption. discriminate. }
  split; [apply upd_length|]. split; [unfold refc_of; lia|]. intros p.
  unfold refc_of, data_of, pool_of. destruct (Nat.eq_dec q p) as [->|Hne].
  - rewrite nth_upd_same by exact Hq. cbn. repeat split; lia.
  - rewrite nth_upd_other by exact Hne. repeat split; lia.
Qed.

Lemma dec_pages_spec l : forall ps ps', dec_pages ps l = Some ps' ->
  length ps' = length ps /\
  forall p, refc_of ps' p + cnt l p = refc_of ps p /\ data_of ps' p = data_of ps p /\
            (pool_of ps' p = true -> refc_of ps' p = 0 \/ (cnt l p = 0 /\ pool_of ps p = true)).
Proof.
  induction l as [|q l IH]; intros ps ps' H; cbn [dec_pages] in H.
  - injection H as <-. split; [reflexivity|]. intros p. cbn [count_occ]. repeat split; try lia.
    intros Hp. right. split; [reflexivity|exact Hp].
  - destruct (dec_page ps q) as [ps1|] eqn:E; [|discriminate].
    destruct (dec_page_spec ps q ps1 E) as (L1 & _ & S1).
    destruct (IH ps1 ps' H) as (L2 & S2). split; [lia|]. intros p.
    destruct (S1 p) as (A1 & B1 & C1). destruct (S2 p) as (A2 & B2 & C2).
    cbn [count_occ]. destruct (Nat.eq_dec q p) as [->|Hne].
    + repeat split; try lia; try congruence. intros Hp. destruct (C2 Hp) as [|[Hc Hp1]]; [left; assumption|].
      left. rewrite C1 in Hp1. apply Nat.eqb_eq in Hp1. lia.
    + repeat split; try lia; try congruence. intros Hp. destruct (C2 Hp) as [|[Hc Hp1]]; [left; assumption|].
      right. split; [lia|]. rewrite <- C1. exact Hp1.
Qed.

(* ------------------------------------------------------------------ reading through refs *)
Lemma read_seg_prefix (d extra : list N) lo hi : hi <= length d ->
  firstn (hi - lo) (skipn lo (d ++ extra)) = firstn (hi - lo) (skipn lo d).
Proof.
  intros H. destruct (Nat.le_gt_cases lo (length d)) as [Hlo|Hlo].
  - rewrite skipn_app. replace (lo - length d) with 0 by lia. cbn [skipn].
    rewrite firstn_app. rewrite skipn_length. replace (hi - lo - (length d - lo)) with 0 by lia.
    cbn [firstn]. apply app_nil_r.
  - replace (hi - lo) with 0 by lia. reflexivity.
Qed.

Definition same_reads (s s' : pstate) (segs : list seg) : Prop :=
  map (read_seg s') segs = map (read_seg s) segs.

Lemma same_reads_data s s' segs :
  (forall p lo hi, In (p, (lo, hi)) segs ->
     firstn (hi - lo) (skipn lo (p_data (get_page s' p))) = firstn (hi - lo) (skipn lo (p_data (get_page s p)))) ->
  same_reads s s' segs.
Proof.
  intros H. unfold same_reads. apply map_ext_in. intros [p [lo hi]] Hin. unfold read_seg. apply H. exact Hin.
Qed.

(* ------------------------------------------------------------------ the step theorem *)
Ltac inv_some H := match type of H with Some _ = Some _ => injection H as <- | _ => idtac end.

Theorem step_preserves : forall s o s', Inv s -> step s o = Some s' ->
  Inv s' /\
  (forall r bytes, read_ref s r = Some bytes ->
     read_ref s' r = Some bytes \/ (o = OUnrefRef r /\ read_ref s' r = None)).
Proof.
  intros s o s' I Hstep. destruct o as [|b src|b data|b segs|b|r0|p0]; cbn [step] in Hstep.
  - (* ONewBuf *)
    injection Hstep as <-. split.
    + split.
      * intros p. pose proof (inv_count s I p) as H. unfold holders, get_page in *. cbn [s_bufs s_refs s_pages].
        rewrite sum_app1. unfold buf_hold at 2. cbn. lia.
      * intros p. apply (inv_pool s I p).
      * exact (inv_segs s I).
    + intros r bytes H. left. exact H.
  - (* ONewPage *)
    destruct (nth_error (s_bufs s) b) as [bf|] eqn:Hb; [|discriminate].
    destruct (b_live bf) eqn:Hl; cbn [negb] in Hstep; [|discriminate].
    destruct src as [p|].
    + destruct (nth_error (s_pages s) p) as [pg|] eqn:Hp; [|discriminate].
      destruct (p_pool pg) eqn:Hpool; cbn [negb] in Hstep; [|discriminate].
      injection Hstep as <-.
      pose proof (nth_error_lt _ _ _ Hp) as Hplt.
      assert (Hpg : get_page s p = pg) by (apply nth_of_nth_error, Hp).
      assert (Hgp : forall q, q <> p -> get_page {| s_pages := upd (s_pages s) p {| p_refc := S (p_refc pg); p_data := []; p_pool := false |};
                                                    s_bufs := upd (s_bufs s) b {| b_live := true; b_pages := b_pages bf ++ [p] |};
                                                    s_refs := s_refs s |} q = get_page s q).
      { intros q Hq. unfold get_page. cbn [s_pages]. apply nth_upd_other. congruence. }
      split.
      * split.
        -- intros q. pose proof (inv_count s I q) as H. unfold holders in *. cbn [s_bufs s_refs].
           pose proof (sum_upd (buf_hold q) (s_bufs s) b {| b_live := true; b_pages := b_pages bf ++ [p] |} bf Hb) as Hs.
           unfold buf_hold at 2 4 in Hs. cbn [b_live b_pages] in Hs. rewrite Hl, cnt_app1 in Hs.
           destruct (Nat.eq_dec p q) as [->|Hne].
           ++ unfold get_page at 1. cbn [s_pages]. rewrite nth_upd_same by exact Hplt. cbn [p_refc].
              rewrite Hpg in H. lia.
           ++ rewrite Hgp by congruence. lia.
        -- intros q. destruct (Nat.eq_dec q p) as [->|Hne].
           ++ unfold get_page. cbn [s_pages]. rewrite nth_upd_same by exact Hplt. cbn. discriminate.
           ++ rewrite Hgp by exact Hne. apply (inv_pool s I q).
        -- intros r rf Hr Hlr q lo hi Hin. cbn [s_refs] in Hr.
           assert (q <> p).
           { intros ->. apply (pooled_not_in_ref s r rf p I Hr Hlr); [rewrite Hpg; exact Hpool|].
             apply in_map_iff. exists (p, (lo, hi)). split; [reflexivity|exact Hin]. }
           rewrite Hgp by assumption. apply (inv_segs s I r rf Hr Hlr q lo hi Hin).
      * intros r bytes H. left. unfold read_ref in *. cbn [s_refs].
        destruct (nth_error (s_refs s) r) as [rf|] eqn:Hr; [|discriminate].
        destruct (r_live rf) eqn:Hlr; [|discriminate]. injection H as <-. f_equal. f_equal.
        apply same_reads_data. intros q lo hi Hin.
        assert (q <> p).
        { intros ->. apply (pooled_not_in_ref s r rf p I Hr Hlr); [rewrite Hpg; exact Hpool|].
          apply in_map_iff. exists (p, (lo, hi)). split; [reflexivity|exact Hin]. }
        rewrite Hgp by assumption. reflexivity.
    + injection Hstep as <-.
      set (n := length (s_pages s)).
      assert (Hold : forall q, q <> n -> get_page {| s_pages := s_pages s ++ [{| p_refc := 1; p_data := []; p_pool := false |}];
                                                     s_bufs := upd (s_bufs s) b {| b_live := true; b_pages := b_pages bf ++ [n] |};
                                                     s_refs := s_refs s |} q = get_page s q).
      { intros q Hq. unfold get_page. cbn [s_pages].
        destruct (Nat.lt_ge_cases q n).
        - apply app_nth1. assumption.
        - rewrite (nth_overflow (s_pages s)) by assumption. rewrite nth_overflow; [reflexivity|].
          rewrite app_length. cbn. fold n. lia. }
      assert (Hnew : get_page {| s_pages := s_pages s ++ [{| p_refc := 1; p_data := []; p_pool := false |}];
                                 s_bufs := upd (s_bufs s) b {| b_live := true; b_pages := b_pages bf ++ [n] |};
                                 s_refs := s_refs s |} n = {| p_refc := 1; p_data := []; p_pool := false |}).
      { unfold get_page. cbn [s_pages]. rewrite app_nth2 by (fold n; lia). fold n. rewrite Nat.sub_diag. reflexivity. }
      assert (Hn0 : get_page s n = page0) by (unfold get_page; apply nth_overflow; fold n; lia).
      split.
      * split.
        -- intros q. pose proof (inv_count s I q) as H. unfold holders in *. cbn [s_bufs s_refs].
           pose proof (sum_upd (buf_hold q) (s_bufs s) b {| b_live := true; b_pages := b_pages bf ++ [n] |} bf Hb) as Hs.
           unfold buf_hold at 2 4 in Hs. cbn [b_live b_pages] in Hs. rewrite Hl, cnt_app1 in Hs.
           destruct (Nat.eq_dec n q) as [<-|Hne].
           ++ rewrite Hnew. cbn [p_refc]. rewrite Hn0 in H. cbn in H. lia.
           ++ rewrite Hold by congruence. lia.
        -- intros q. destruct (Nat.eq_dec q n) as [->|Hne].
           ++ rewrite Hnew. cbn. discriminate.
           ++ rewrite Hold by exact Hne. apply (inv_pool s I q).
        -- intros r rf Hr Hlr q lo hi Hin. cbn [s_refs] in Hr.
           pose proof (inv_segs s I r rf Hr Hlr q lo hi Hin) as Hle.
           destruct (Nat.eq_dec q n) as [->|Hne]; [rewrite Hn0 in Hle; cbn in Hle; rewrite Hnew; cbn; lia|].
           rewrite Hold by exact Hne. exact Hle.
      * intros r bytes H. left. unfold read_ref in *. cbn [s_refs].
        destruct (nth_error (s_refs s) r) as [rf|] eqn:Hr; [|discriminate].
        destruct (r_live rf) eqn:Hlr; [|discriminate]. injection H as <-. f_equal. f_equal.
        apply same_reads_data. intros q lo hi Hin.
        pose proof (inv_segs s I r rf Hr Hlr q lo hi Hin) as Hle.
        destruct (Nat.eq_dec q n) as [->|Hne].
        -- rewrite Hn0 in *. rewrite Hnew. cbn in *. replace (hi - lo) with 0 by lia. reflexivity.
        -- rewrite Hold by exact Hne. reflexivity.
  - (* OAppend *)
    destruct (nth_error (s_bufs s) b) as [bf|] eqn:Hb; [|discriminate].
    destruct (b_live bf) eqn:Hl; cbn [negb] in Hstep; [|discriminate].
    destruct (rev (b_pages bf)) as [|p t] eqn:Hrev; [discriminate|].
    destruct (nth_error (s_pages s) p) as [pg|] eqn:Hp; [|discriminate].
    destruct (page_size <? length (p_data pg) + length data); [discriminate|].
    injection Hstep as <-.
    pose proof (nth_error_lt _ _ _ Hp) as Hplt.
    assert (Hpg : get_page s p = pg) by (apply nth_of_nth_error, Hp).
    set (s' := {| s_pages := upd (s_pages s) p {| p_refc := p_refc pg; p_data := p_data pg ++ data; p_pool := p_pool pg |};
                  s_bufs := s_bufs s; s_refs := s_refs s |}).
    assert (Hgp : forall q, q <> p -> get_page s' q = get_page s q).
    { intros q Hq. unfold get_page, s'. cbn [s_pages]. apply nth_upd_other. congruence. }
    assert (Hgpp : get_page s' p = {| p_refc := p_refc pg; p_data := p_data pg ++ data; p_pool := p_pool pg |}).
    { unfold get_page, s'. cbn [s_pages]. apply nth_upd_same. exact Hplt. }
    split.
    + split.
      * intros q. pose proof (inv_count s I q) as H. unfold holders in *. fold s'. cbn [s_bufs s_refs s'].
        destruct (Nat.eq_dec q p) as [->|Hne]; [rewrite Hgpp; cbn [p_refc]; rewrite Hpg in H; exact H|].
        rewrite Hgp by exact Hne. exact H.
      * intros q. fold s'. destruct (Nat.eq_dec q p) as [->|Hne].
        -- rewrite Hgpp. cbn [p_pool p_refc]. pose proof (inv_pool s I p). rewrite Hpg in H. exact H.
        -- rewrite Hgp by exact Hne. apply (inv_pool s I q).
      * intros r rf Hr Hlr q lo hi Hin. fold s'. cbn [s_refs s'] in Hr.
        pose proof (inv_segs s I r rf Hr Hlr q lo hi Hin) as Hle.
        destruct (Nat.eq_dec q p) as [->|Hne].
        -- rewrite Hgpp. cbn [p_data]. rewrite app_length. rewrite Hpg in Hle. lia.
        -- rewrite Hgp by exact Hne. exact Hle.
    + intros r bytes H. left. fold s'. unfold read_ref in *. cbn [s_refs s'].
      destruct (nth_error (s_refs s) r) as [rf|] eqn:Hr; [|discriminate].
      destruct (r_live rf) eqn:Hlr; [|discriminate]. injection H as <-. f_equal. f_equal.
      apply same_reads_data. intros q lo hi Hin.
      pose proof (inv_segs s I r rf Hr Hlr q lo hi Hin) as Hle.
      destruct (Nat.eq_dec q p) as [->|Hne].
      * rewrite Hgpp. cbn [p_data]. rewrite Hpg in *. apply read_seg_prefix. exact Hle.
      * rewrite Hgp by exact Hne. reflexivity.
  - (* ORef *)
    destruct (nth_error (s_bufs s) b) as [bf|] eqn:Hb; [|discriminate].
    destruct (b_live bf) eqn:Hl; cbn [negb] in Hstep; [|discriminate].
    destruct (forallb (seg_ok s (b_pages bf)) segs && nodupb (map fst segs)) eqn:Hok; cbn [negb] in Hstep; [|discriminate].
    injection Hstep as <-.
    apply andb_prop in Hok as [Hsegs _]. rewrite forallb_forall in Hsegs.
    assert (Hseg : forall p lo hi, In (p, (lo, hi)) segs ->
              In p (b_pages bf) /\ hi <= length (p_data (get_page s p))).
    { intros p lo hi Hin. specialize (Hsegs _ Hin). unfold seg_ok in Hsegs.
      apply andb_prop in Hsegs as [Hs1 Hs3]. apply andb_prop in Hs1 as [Hs1 Hs2].
      split; [|apply Nat.leb_le; exact Hs3].
      apply existsb_exists in Hs1 as (x & Hx & E). apply Nat.eqb_eq in E. subst x. exact Hx. }
    assert (Hlt : forall q, In q (map fst segs) -> q < length (s_pages s)).
    { intros q Hq. apply in_map_iff in Hq as ([p [lo hi]] & <- & Hin). cbn [fst].
      destruct (Hseg p lo hi Hin) as [Hpb _]. apply get_page_lt. eapply buf_holds; eassumption. }
    destruct (inc_pages_spec (map fst segs) (s_pages s) Hlt) as [HL HS].
    set (s' := {| s_pages := inc_pages (s_pages s) (map fst segs); s_bufs := s_bufs s;
                  s_refs := s_refs s ++ [{| r_live := true; r_segs := segs |}] |}).
    assert (Hd : forall q, p_data (get_page s' q) = p_data (get_page s q)) by (intros q; apply (HS q)).
    split.
    + split.
      * intros q. pose proof (inv_count s I q) as H. unfold holders in *. fold s'. cbn [s_bufs s_refs s'].
        rewrite sum_app1. unfold ref_hold at 2. cbn [r_live r_segs].
        destruct (HS q) as (A & _ & _). unfold refc_of in A. unfold get_page at 1. cbn [s_pages s'].
        rewrite A. unfold get_page in H. lia.
      * intros q. fold s'. destruct (HS q) as (A & _ & C). unfold get_page. cbn [s_pages s'].
        unfold refc_of, pool_of in *. rewrite A, C. intros Hp.
        pose proof (inv_pool s I q Hp) as H0. unfold get_page in H0. rewrite H0.
        destruct (Nat.eq_dec (cnt (map fst segs) q) 0) as [->|Hne]; [reflexivity|].
        exfalso. assert (Hin : In q (map fst segs)) by (apply (count_occ_In Nat.eq_dec); lia).
        apply in_map_iff in Hin as ([p [lo hi]] & <- & Hin). cbn [fst] in *.
        destruct (Hseg p lo hi Hin) as [Hpb _].
        pose proof (buf_holds s b bf p I Hb Hl Hpb). unfold get_page in H. lia.
      * intros r rf Hr Hlr q lo hi Hin. fold s'. rewrite Hd. cbn [s_refs s'] in Hr.
        destruct (Nat.lt_ge_cases r (length (s_refs s))) as [Hrl|Hrl].
        -- rewrite nth_error_app1 in Hr by exact Hrl. apply (inv_segs s I r rf Hr Hlr q lo hi Hin).
        -- rewrite nth_error_app2 in Hr by exact Hrl.
           destruct (r - length (s_refs s)) as [|k]; cbn [nth_error] in Hr; [|destruct k; discriminate].
           injection Hr as <-. cbn [r_segs] in Hin. apply (Hseg q lo hi Hin).
    + intros r bytes H. left. fold s'. unfold read_ref in *. cbn [s_refs s'].
      destruct (nth_error (s_refs s) r) as [rf|] eqn:Hr; [|discriminate].
      rewrite nth_error_app1 by (eapply nth_error_lt; exact Hr). rewrite Hr.
      destruct (r_live rf) eqn:Hlr; [|discriminate]. injection H as <-. f_equal. f_equal.
      apply same_reads_data. intros q lo hi Hin. rewrite Hd. reflexivity.
  - (* OUnrefBuf *)
    destruct (nth_error (s_bufs s) b) as [bf|] eqn:Hb; [|discriminate].
    destruct (b_live bf) eqn:Hl; cbn [negb] in Hstep; [|discriminate].
    destruct (dec_pages (s_pages s) (b_pages bf)) as [ps|] eqn:Hdec; [|discriminate].
    injection Hstep as <-.
    destruct (dec_pages_spec _ _ _ Hdec) as [HL HS].
    set (s' := {| s_pages := ps; s_bufs := upd (s_bufs s) b {| b_live := false; b_pages := [] |}; s_refs := s_refs s |}).
    assert (Hd : forall q, p_data (get_page s' q) = p_data (get_page s q)) by (intros q; apply (HS q)).
    split.
    + split.
      * intros q. pose proof (inv_count s I q) as H. unfold holders in *. fold s'. cbn [s_bufs s_refs s'].
        pose proof (sum_upd (buf_hold q) (s_bufs s) b {| b_live := false; b_pages := [] |} bf Hb) as Hs.
        unfold buf_hold at 2 4 in Hs. cbn [b_live b_pages] in Hs. rewrite Hl in Hs.
        destruct (HS q) as (A & _ & _). unfold refc_of in A. unfold get_page in *. cbn [s_pages s']. lia.
      * intros q. fold s'. destruct (HS q) as (A & _ & C). unfold get_page. cbn [s_pages s'].
        unfold refc_of, pool_of in *. intros Hp. destruct (C Hp) as [H0|[Hc Hp0]]; [exact H0|].
        pose proof (inv_pool s I q Hp0) as H0. unfold get_page in H0. lia.
      * intros r rf Hr Hlr q lo hi Hin. fold s'. rewrite Hd. apply (inv_segs s I r rf Hr Hlr q lo hi Hin).
    + intros r bytes H. left. fold s'. unfold read_ref in *. cbn [s_refs s'].
      destruct (nth_error (s_refs s) r) as [rf|] eqn:Hr; [|discriminate].
      destruct (r_live rf) eqn:Hlr; [|discriminate]. injection H as <-. f_equal. f_equal.
      apply same_reads_data. intros q lo hi Hin. rewrite Hd. reflexivity.
  - (* OUnrefRef *)
    destruct (nth_error (s_refs s) r0) as [rf0|] eqn:Hr0; [|discriminate].
    destruct (r_live rf0) eqn:Hl0; cbn [negb] in Hstep.
    2:{ injection Hstep as <-. split; [exact I|]. intros r bytes H. left. exact H. }
    destruct (dec_pages (s_pages s) (map fst (r_segs rf0))) as [ps|] eqn:Hdec; [|discriminate].
    injection Hstep as <-.
    destruct (dec_pages_spec _ _ _ Hdec) as [HL HS].
    set (s' := {| s_pages := ps; s_bufs := s_bufs s; s_refs := upd (s_refs s) r0 {| r_live := false; r_segs := [] |} |}).
    assert (Hd : forall q, p_data (get_page s' q) = p_data (get_page s q)) by (intros q; apply (HS q)).
    pose proof (nth_error_lt _ _ _ Hr0) as Hr0lt.
    split.
    + split.
      * intros q. pose proof (inv_count s I q) as H. unfold holders in *. fold s'. cbn [s_bufs s_refs s'].
        pose proof (sum_upd (ref_hold q) (s_refs s) r0 {| r_live := false; r_segs := [] |} rf0 Hr0) as Hs.
        unfold ref_hold at 2 4 in Hs. cbn [r_live r_segs] in Hs. rewrite Hl0 in Hs.
        destruct (HS q) as (A & _ & _). unfold refc_of in A. unfold get_page in *. cbn [s_pages s']. lia.
      * intros q. fold s'. destruct (HS q) as (A & _ & C). unfold get_page. cbn [s_pages s'].
        unfold refc_of, pool_of in *. intros Hp. destruct (C Hp) as [H0|[Hc Hp0]]; [exact H0|].
        pose proof (inv_pool s I q Hp0) as H0. unfold get_page in H0. lia.
      * intros r rf Hr Hlr q lo hi Hin. fold s'. rewrite Hd. cbn [s_refs s'] in Hr.
        destruct (Nat.eq_dec r0 r) as [->|Hne].
        -- rewrite nth_error_upd_same in Hr by exact Hr0lt. injection Hr as <-. discriminate Hlr.
        -- rewrite nth_error_upd_other in Hr by exact Hne. apply (inv_segs s I r rf Hr Hlr q lo hi Hin).
    + intros r bytes H. fold s'. destruct (Nat.eq_dec r0 r) as [->|Hne].
      * right. split; [reflexivity|]. unfold read_ref. cbn [s_refs s'].
        rewrite nth_error_upd_same by exact Hr0lt. reflexivity.
      * left. unfold read_ref in *. cbn [s_refs s']. rewrite nth_error_upd_other by exact Hne.
        destruct (nth_error (s_refs s) r) as [rf|] eqn:Hr; [|discriminate].
        destruct (r_live rf) eqn:Hlr; [|discriminate]. injection H as <-. f_equal. f_equal.
        apply same_reads_data. intros q lo hi Hin. rewrite Hd. reflexivity.
  - (* OPoolDrop *)
    destruct (nth_error (s_pages s) p0) as [pg|] eqn:Hp; [|discriminate].
    destruct (p_pool pg) eqn:Hpool; cbn [negb] in Hstep; [|discriminate].
    injection Hstep as <-.
    pose proof (nth_error_lt _ _ _ Hp) as Hplt.
    assert (Hpg : get_page s p0 = pg) by (apply nth_of_nth_error, Hp).
    set (s' := {| s_pages := upd (s_pages s) p0 {| p_refc := p_refc pg; p_data := p_data pg; p_pool := false |};
                  s_bufs := s_bufs s; s_refs := s_refs s |}).
    assert (Hgp : forall q, q <> p0 -> get_page s' q = get_page s q).
    { intros q Hq. unfold get_page, s'. cbn [s_pages]. apply nth_upd_other. congruence. }
    assert (Hgpp : get_page s' p0 = {| p_refc := p_refc pg; p_data := p_data pg; p_pool := false |}).
    { unfold get_page, s'. cbn [s_pages]. apply nth_upd_same. exact Hplt. }
    assert (Hd : forall q, p_data (get_page s' q) = p_data (get_page s q)).
    { intros q. destruct (Nat.eq_dec q p0) as [->|Hne]; [rewrite Hgpp, Hpg; reflexivity|rewrite Hgp by exact Hne; reflexivity]. }
    split.
    + split.
      * intros q. pose proof (inv_count s I q) as H. unfold holders in *. fold s'. cbn [s_bufs s_refs s'].
        destruct (Nat.eq_dec q p0) as [->|Hne]; [rewrite Hgpp; cbn [p_refc]; rewrite Hpg in H; exact H|].
        rewrite Hgp by exact Hne. exact H.
      * intros q. fold s'. destruct (Nat.eq_dec q p0) as [->|Hne]; [rewrite Hgpp; cbn; discriminate|].
        rewrite Hgp by exact Hne. apply (inv_pool s I q).
      * intros r rf Hr Hlr q lo hi Hin. fold s'. rewrite Hd. apply (inv_segs s I r rf Hr Hlr q lo hi Hin).
    + intros r bytes H. left. fold s'. unfold read_ref in *. cbn [s_refs s'].
      destruct (nth_error (s_refs s) r) as [rf|] eqn:Hr; [|discriminate].
      destruct (r_live rf) eqn:Hlr; [|discriminate]. injection H as <-. f_equal. f_equal.
      apply same_reads_data. intros q lo hi Hin. rewrite Hd. reflexivity.
Qed.

(* ------------------------------------------------------------------ every interleaving *)
Lemma run_inv : forall ops s s', Inv s -> run s ops = Some s' -> Inv s'.
Proof.
  induction ops as [|o ops IH]; intros s s' I H; cbn [run] in H.
  - injection H as <-. exact I.
  - destruct (step s o) as [s1|] eqn:E; [|discriminate].
    apply (IH s1 s' (proj1 (step_preserves s o s1 I E)) H).
Qed.

(* from the empty state, for every sequence of actions of any number of buffers, refs and
   goroutines (each action atomic): the invariant holds, and a ref that could be read at some
   point still yields exactly the same bytes at any later point unless it was closed in between *)
Theorem pages_stable : forall ops1 ops2 s1 s2 r bytes,
  run s0 ops1 = Some s1 -> run s1 ops2 = Some s2 ->
  read_ref s1 r = Some bytes ->
  Inv s2 /\ (read_ref s2 r = Some bytes \/ In (OUnrefRef r) ops2).
Proof.
  intros ops1 ops2 s1 s2 r bytes H1 H2 Hr.
  pose proof (run_inv ops1 s0 s1 Inv_s0 H1) as I1. clear H1.
  revert s1 I1 H2 Hr. induction ops2 as [|o ops IH]; intros s1 I1 H2 Hr; cbn [run] in H2.
  - injection H2 as <-. split; [exact I1|]. left. exact Hr.
  - destruct (step s1 o) as [sm|] eqn:E; [|discriminate].
    destruct (step_preserves s1 o sm I1 E) as [Im Hread].
    destruct (Hread r bytes Hr) as [Hk|[Ho Hn]].
    + destruct (IH sm Im H2 Hk) as [I2 [A|A]]; split; try exact I2; [left; exact A|right; right; exact A].
    + split; [apply (run_inv ops sm s2 Im H2)|]. right. left. exact Ho.
Qed.

(* the pool never holds a page that somebody still references *)
Theorem pooled_unreferenced : forall ops s, run s0 ops = Some s ->
  forall p, p_pool (get_page s p) = true ->
  p_refc (get_page s p) = 0 /\
  (forall r rf, nth_error (s_refs s) r = Some rf -> r_live rf = true -> ~ In p (map fst (r_segs rf))) /\
  (forall b bf, nth_error (s_bufs s) b = Some bf -> b_live bf = true -> ~ In p (b_pages bf)).
Proof.
  intros ops s H p Hp. pose proof (run_inv ops s0 s Inv_s0 H) as I.
  split; [apply (inv_pool s I p Hp)|]. split.
  - intros r rf Hr Hl. apply (pooled_not_in_ref s r rf p I Hr Hl Hp).
  - intros b bf Hb Hl Hin. pose proof (buf_holds s b bf p I Hb Hl Hin). rewrite (inv_pool s I p Hp) in H0. lia.
Qed.
