(* Proofs/SaslAddrConc.v — the dial address and concurrent set-ups over one Mechanism value
   (Model/Sasl.v): whatever the address a handed-out connection is authenticated; a refused
   address writes nothing but ApiVersions; n concurrent connections are n single ones. *)
From Coq Require Import List ZArith Bool Lia.
From KV Require Import Model.Sasl Proofs.SaslProofs.
Import ListNotations.
Open Scope Z_scope.

Section Addr.
  Variable mstate : Type.
  Variable mech_start : option (mstate * bytes).
  Variable mech_next : mstate -> bytes -> (bool * mstate * bytes * bool).
  Variable p : path.
  Variable a : advert.

  Local Notation stt := (state mstate).
  Local Notation stp := (step mstate mech_start mech_next p a).
  Local Notation reach := (reachable mstate mech_start mech_next p a).

  Lemma authenticated_whatever_address : forall s : stt, reach s ->
    handed_out s = true ->
    In EVerdict (tr s) /\
    (forall l1 m l2, trace s = l1 ++ ESend m :: l2 -> auth_msg m = false -> In EVerdict l1).
  Proof.
    intros s R H. split.
    - destruct (guarded_inv mstate mech_start mech_next p a s R) as [_ V]. apply V.
      unfold handed_out in H. destruct (ph s); try discriminate H; exact I.
    - apply (nothing_before_auth mstate mech_start mech_next p a s R).
  Qed.

  (* a service-name port: the phases that can be reached and what can have been written *)
  Definition early_phase (x : phase mstate) : Prop :=
    match x with PDialed | PApiSent | PFailed | PRefused => True | _ => False end.

  Lemma refused_inv : port_is_number (dial_addr a) = false ->
    forall s, reach s ->
      early_phase (ph s) /\
      (ph s = PApiSent -> p = Transport) /\
      (forall m, In (ESend m) (tr s) -> p = Transport /\ m = MReq K_ApiVersions 0).
  Proof.
    intros PN. induction 1 as [|s l s' R (IP & IT & IS) H].
    - cbn. repeat split; try discriminate; intros; tauto.
    - apply step_stepR in H. destruct H; cbn [ph tr fail early_phase];
        try (match goal with E : ph s = _ |- _ => rewrite E in IP; cbn in IP; contradiction end).
      + (* start *)
        assert (PT : p = Transport)
          by (unfold dialer_refuses in *; rewrite PN in *; destruct p; [discriminate|reflexivity]).
        split; [exact I|]. split; [intros _; exact PT|].
        intros m0 [X|X]; [injection X as <-; split; [exact PT|reflexivity] | apply IS; exact X].
      + (* refused *)
        split; [exact I|]. split; [discriminate|].
        intros m0 [X|X]; [discriminate X | apply IS; exact X].
      + (* fail *)
        split; [exact I|]. split; [discriminate|].
        intros m0 [X|[X|X]]; try discriminate X. apply IS; exact X.
      + (* handshake sent: impossible *)
        exfalso. match goal with E : ph s = PApiSent |- _ => specialize (IT E) end.
        match goal with T : transport_refuses p a = false |- _ =>
          unfold transport_refuses in T; rewrite IT, PN in T; discriminate T end.
  Qed.

  Lemma refused_address_writes_nothing : port_is_number (dial_addr a) = false ->
    forall s : stt, reach s ->
      handed_out s = false /\ ~ In EVerdict (tr s) /\ ~ In EHandOut (tr s) /\
      (forall m, In (ESend m) (tr s) -> p = Transport /\ m = MReq K_ApiVersions 0).
  Proof.
    intros PN s R. destruct (refused_inv PN s R) as (IP & _ & IS).
    assert (NP : ~ post mstate (ph s)) by (destruct (ph s); cbn in *; tauto).
    destruct (early_inv mstate mech_start mech_next p a s R NP) as [A B].
    split; [unfold handed_out; destruct (ph s); cbn in IP; try contradiction; reflexivity|].
    split; [exact B|]. split; [exact A|exact IS].
  Qed.

  (* ---- n connections sharing the mechanism ---- *)
  Lemma update_length : forall A (l : list A) i x, length (update l i x) = length l.
  Proof. induction l; intros [|i] x; cbn; auto. Qed.

  Lemma Forall_update : forall A (P : A -> Prop) (l : list A) i x,
    Forall P l -> P x -> Forall P (update l i x).
  Proof.
    induction l; intros [|i] x F Px; cbn; auto; inversion F; subst; constructor; auto.
  Qed.

  Lemma mreachable_components : forall n ss,
    mreachable mstate mech_start mech_next p a n ss ->
    length ss = n /\ Forall reach ss.
  Proof.
    induction 1 as [|ss i l ss' M [L F] H].
    - split; [apply repeat_length|]. apply Forall_forall. intros x X.
      apply repeat_spec in X. subst. apply reach_init.
    - unfold mstep in H. destruct (nth_error ss i) as [s|] eqn:N; [|discriminate H].
      destruct (stp s l) as [s'|] eqn:S; [|discriminate H]. injection H as <-.
      split; [rewrite update_length; exact L|].
      apply Forall_update; [exact F|].
      eapply reach_step; [|exact S]. rewrite Forall_forall in F. apply F. eapply nth_error_In; eauto.
  Qed.
End Addr.
