(* Proofs/GroupReaderStart.v — C03_assignment_start: OffsetFetch answers the coordinator's
   committed offset (a function of the history), offset < 0 => StartOffset, and every
   partition reader is initialised from the offset its generation fetched. *)
From Coq Require Import List NArith ZArith Bool Lia.
From Coq Require Import ZifyN ZifyNat ZifyBool.
From KV Require Import Lib.LTS Model.GroupReader Proofs.GroupReaderBase Proofs.GroupReaderCommit Proofs.GroupReaderCover.
Import ListNotations.
Open Scope Z_scope.

Definition fetched (h : list event) (r : nat) (t : tp) (st : Z) : Prop :=
  exists g raw, In (EvOffsetFetch r g t raw st) h.

Definition P_start (cfg : config) (e : event) (h : list event) : Prop :=
  match e with
  | EvOffsetFetch r g t raw start =>
    raw = match hist_committed h t with Some c => c | None => -1 end /\
    start = start_of_raw (cfg_start cfg) raw
  | EvReaderInit r v t given resolved =>
    resolved = resolve_start given (hist_hw h t) /\ fetched h r t given
  | _ => True
  end.

Definition neutral (es : list event) : Prop :=
  forall e, In e es -> match e with EvAppend _ => False | EvOffsetCommit _ _ _ _ _ true => False | _ => True end.

Lemma hist_committed_neutral : forall es h t, neutral es -> hist_committed (es ++ h) t = hist_committed h t.
Proof.
  induction es as [|e es IH]; intros h t Hn; [reflexivity|].
  assert (He := Hn e (or_introl eq_refl)).
  assert (Hn' : neutral es) by (intros e' H'; apply Hn; right; exact H').
  destruct e; cbn [app hist_committed]; try (apply IH; exact Hn').
  destruct applied; [contradiction|apply IH; exact Hn'].
Qed.
Lemma hist_hw_neutral : forall es h t, neutral es -> hist_hw (es ++ h) t = hist_hw h t.
Proof.
  induction es as [|e es IH]; intros h t Hn; [reflexivity|].
  assert (He := Hn e (or_introl eq_refl)).
  assert (Hn' : neutral es) by (intros e' H'; apply Hn; right; exact H').
  destruct e; cbn [app hist_hw]; try (apply IH; exact Hn'). contradiction.
Qed.

Definition sg (h : list event) (cm hw : amap) : Prop :=
  (forall t, lookup cm t = hist_committed h t) /\ (forall t, hw_of hw t = hist_hw h t).
Definition sr (h : list event) (r : nat) (x : rstate) : Prop :=
  (match rd_phase x with PFetched _ _ offs => forall t st, In (t, st) offs -> fetched h r t st | _ => True end) /\
  (forall p, In p (rd_readers x) -> fetched h r (pr_tp p) (pr_start p)).
Definition inv_start (s : state) : Prop :=
  sg (st_hist s) (co_committed (st_co s)) (st_hw s) /\ forall r, sr (st_hist s) r (st_rd s r).

Lemma fetched_mono : forall es h r t st, fetched h r t st -> fetched (es ++ h) r t st.
Proof. intros es h r t st [g [raw H]]; exists g, raw; apply in_or_app; right; exact H. Qed.
Lemma sr_mono : forall es h r x, sr h r x -> sr (es ++ h) r x.
Proof.
  intros es h r x [A B]; split.
  - destruct (rd_phase x); auto. intros t st Hin; apply fetched_mono; eapply A; eauto.
  - intros p Hin; apply fetched_mono; apply B; exact Hin.
Qed.
Lemma sg_neutral : forall es h cm hw, neutral es -> sg h cm hw -> sg (es ++ h) cm hw.
Proof.
  intros es h cm hw Hn [A B]; split; intros t;
    [rewrite hist_committed_neutral by exact Hn; apply A|rewrite hist_hw_neutral by exact Hn; apply B].
Qed.

Lemma P_start_other : forall cfg es h,
  (forall e, In e es -> match e with EvOffsetFetch _ _ _ _ _ => False | EvReaderInit _ _ _ _ _ => False | _ => True end) ->
  forall e1 esa esb, es = esa ++ e1 :: esb -> P_start cfg e1 (esb ++ h).
Proof.
  intros cfg es h H e1 esa esb E. assert (Hin : In e1 es) by (rewrite E; apply in_or_app; right; left; reflexivity).
  specialize (H e1 Hin). destruct e1; cbn; auto; contradiction.
Qed.

Ltac neutral_tac :=
  intros e He; cbn in He; repeat (destruct He as [He|He]; [subst e; exact I|]); try contradiction;
  try (apply in_rev in He; apply in_map_iff in He; destruct He as [? [<- _]]; exact I).

Ltac sg_tac Hi :=
  first [ exact (proj1 Hi) | apply sg_neutral; [neutral_tac|exact (proj1 Hi)] ].
Ltac sother_tac Hi r' := first [ exact (proj2 Hi r') | apply sr_mono; exact (proj2 Hi r') ].
Ltac shist_tac Ho :=
  cbn [push set_rd set_co st_hist];
  first [ exact Ho | apply hist_ok_app; [exact Ho|apply P_start_other; neutral_tac] ].
Ltac scbn := cbn [rd_commits rd_stash rd_phase rd_version rd_msgs rd_readers rd_fetch rd_waiting rd_loop
  with_group with_msgs with_fetch with_commits with_readers with_loop].
Ltac scomp_tac :=
  first [ assumption | exact I | (intros ? [])
        | (intros ? ?; apply fetched_mono; match goal with Sb : forall _, In _ _ -> _ |- _ => apply Sb; assumption end)
        | (match goal with Sa : match rd_phase _ with _ => _ end |- _ =>
             revert Sa; destruct (rd_phase _); auto; intros Sa ? ? ?; apply fetched_mono; eapply Sa; eauto end) ].
Ltac open_start Hi Ho :=
  split; [split; [cbn [push set_rd set_co st_hist st_co st_rd st_hw co_committed]; try (solve [sg_tac Hi])
                 | let r' := fresh "r'" in intros r'; cbn [push set_rd set_co st_hist st_co st_rd st_hw co_committed];
                   first [ (match goal with |- context [upd _ ?r _ r'] => rd_cases r' r;
                            [ destruct (proj2 Hi r) as (Sa & Sb); unfold sr; scbn; split; try (solve [scomp_tac])
                            | sother_tac Hi r' ] end)
                         | sother_tac Hi r' ] ]
         | try (solve [shist_tac Ho]) ].

Lemma finish_start : forall cfg s0 s r ws final (ok : bool) code pre,
  st_hist s0 = st_hist s -> st_rd s0 = st_rd s -> st_hw s0 = st_hw s ->
  sg (pre ++ st_hist s) (co_committed (st_co s0)) (st_hw s) -> (forall r', sr (st_hist s) r' (st_rd s r')) ->
  hist_ok (P_start cfg) (st_hist s) ->
  (forall e, In e pre -> match e with EvOffsetFetch _ _ _ _ _ => False | EvReaderInit _ _ _ _ _ => False | _ => True end) ->
  inv_start (finish cfg s0 r (st_rd s r) ws final ok code pre) /\
  hist_ok (P_start cfg) (st_hist (finish cfg s0 r (st_rd s r) ws final ok code pre)).
Proof.
  intros cfg s0 s r ws final ok code pre Hh Hr Hw Hg Hi Ho Hpre.
  destruct (finish_hist cfg s0 r (st_rd s r) ws final ok code pre) as [es [w [Hrep Hhist]]].
  assert (Hes : forall e, In e es -> exists id, e = EvCommitRet r id (if ok then RNil else RErr code)).
  { intros e He. destruct (replies_events _ _ _ _ _ _ Hrep e He) as [id [_ ->]]. eauto. }
  split; [split|].
  - rewrite Hhist, Hh, finish_co, finish_hw, Hw. apply sg_neutral; [|exact Hg].
    intros e He. destruct (Hes e He) as [id ->]. exact I.
  - intros r'. rewrite Hhist, Hh, app_assoc.
    destruct (Nat.eq_dec r' r) as [->|Hn].
    + destruct (finish_rd_same cfg s0 r (st_rd s r) ws final ok code pre) as [w' ->].
      apply sr_mono. exact (Hi r).
    + rewrite finish_rd_other by exact Hn. rewrite Hr. apply sr_mono. apply Hi.
  - rewrite Hhist, Hh. apply hist_ok_app.
    + apply hist_ok_app; [exact Ho|]. apply P_start_other; exact Hpre.
    + apply P_start_other. intros e He. destruct (Hes e He) as [id ->]. exact I.
Qed.

Lemma sg_commit : forall h cm hw r mid g offs z (b : bool),
  sg h cm hw -> sg ([EvOffsetCommit r mid g offs z b] ++ h) (if b then store cm offs else cm) hw.
Proof.
  intros h cm hw r mid g offs z b [A B]; split; intros t.
  - cbn [app hist_committed]. destruct b; [rewrite lookup_store; destruct (lookup offs t); [reflexivity|apply A]|apply A].
  - cbn [app hist_hw]. apply B.
Qed.

Lemma step_start : forall cfg s l s',
  inv_start s /\ hist_ok (P_start cfg) (st_hist s) -> step cfg s l = Some s' ->
  inv_start s' /\ hist_ok (P_start cfg) (st_hist s').
Proof.
  intros cfg s l s' [Hi Ho] H.
  destruct l; cbn [step] in H; destr_step H;
  try (match goal with |- context [finish _ _ _ _ _ _ _ _ []] =>
         apply finish_start; [reflexivity|reflexivity|reflexivity|exact (proj1 Hi)|exact (proj2 Hi)|exact Ho|intros e []] end; fail);
  try (match goal with |- context [finish _ (set_co _ ?c') _ _ _ _ _ _ [EvOffsetCommit ?r ?mid ?g ?offs ?z ?b]] =>
         apply finish_start; [reflexivity|reflexivity|reflexivity| |exact (proj2 Hi)|exact Ho|intros e [<-|[]]; exact I];
         cbn [set_co st_co];
         replace (co_committed c') with (if b then store (co_committed (st_co s)) offs else co_committed (st_co s))
           by (destruct b; reflexivity);
         apply sg_commit; exact (proj1 Hi) end; fail);
  open_start Hi Ho.
  - (* LAppend *)
    destruct (proj1 Hi) as [A B]. split; intros t0.
    + cbn [app hist_committed]. apply A.
    + cbn [app hist_hw]. unfold hw_of at 1. rewrite lookup_aset. rewrite <- B.
      destruct (tp_eqb t0 t) eqn:Et; [apply tp_eqb_eq in Et; subst; reflexivity|reflexivity].
  - (* LOffsetFetch: phase *)
    intros t0 st Hin. apply in_map_iff in Hin. destruct Hin as [t1 [Heq Hin]]. inversion Heq; subst.
    exists g, (fetch_raw (co_committed (st_co s)) t0). apply in_or_app; left. apply -> in_rev.
    apply in_map_iff. exists t0. split; [reflexivity|exact Hin].
  - (* LOffsetFetch: hist *)
    cbn [push set_rd st_hist]. apply hist_ok_app; [exact Ho|].
    intros e1 esa esb Eq.
    assert (Hin : In e1 (rev (map (fun t : tp => EvOffsetFetch r g t (fetch_raw (co_committed (st_co s)) t)
              (start_of_raw (cfg_start cfg) (fetch_raw (co_committed (st_co s)) t))) asg))).
    { rewrite Eq. apply in_or_app; right; left; reflexivity. }
    apply in_rev in Hin. apply in_map_iff in Hin. destruct Hin as [t0 [<- _]]. cbn. split; [|reflexivity].
    rewrite hist_committed_neutral.
    + unfold fetch_raw. rewrite (proj1 (proj1 Hi)). reflexivity.
    + intros e He.
      assert (He' : In e (rev (map (fun t : tp => EvOffsetFetch r g t (fetch_raw (co_committed (st_co s)) t)
              (start_of_raw (cfg_start cfg) (fetch_raw (co_committed (st_co s)) t))) asg))).
      { rewrite Eq. apply in_or_app; right; right; exact He. }
      apply in_rev in He'. apply in_map_iff in He'. destruct He' as [? [<- _]]. exact I.
  - (* LSubscribe *)
    intros p0 Hin. apply in_map_iff in Hin. destruct Hin as [[t0 st] [<- Hin]]. cbn.
    rewrite E in Sa. eapply Sa; eauto.
  - (* LReaderInit: readers *)
    intros p0 Hin. apply fetched_mono. apply set_reader_In in Hin. destruct Hin as [Hin|[p1 [Hf ->]]].
    + apply Sb; exact Hin.
    + cbn. apply Sb. exact (proj1 (find_reader_In _ _ _ Hf)).
  - (* LReaderInit: hist *)
    cbn [push set_rd st_hist]. cbn [app]. split; [|exact Ho]. cbn.
    destruct (find_reader_In _ _ _ E) as [Hp Ht]. split.
    + rewrite <- (proj2 (proj1 Hi)). reflexivity.
    + rewrite <- Ht. apply (proj2 (proj2 Hi r)). exact Hp.
  - (* LReaderEmit *)
    intros p0 Hin. apply set_reader_In in Hin. destruct Hin as [Hin|[p1 [Hf ->]]].
    + apply Sb; exact Hin.
    + cbn. apply Sb. exact (proj1 (find_reader_In _ _ _ Hf)).
  - (* retry *)
    match goal with |- sg _ (co_committed ?c') _ =>
      replace (co_committed c') with (if b then store (co_committed (st_co s)) (p :: a) else co_committed (st_co s))
        by (destruct b; reflexivity) end.
    apply sg_commit; exact (proj1 Hi).
Qed.

Lemma init_start : forall cfg, inv_start init /\ hist_ok (P_start cfg) (st_hist init).
Proof.
  intros; split; [|exact I]. split.
  - split; intros t; reflexivity.
  - intros r; split; cbn; [exact I|intros ? []].
Qed.

Theorem assignment_start : forall cfg ls s, run (step cfg) init ls = Some s ->
  (forall h1 r g t raw start h2, st_hist s = h1 ++ EvOffsetFetch r g t raw start :: h2 ->
     raw = match hist_committed h2 t with Some c => c | None => -1 end /\
     start = (if raw <? 0 then cfg_start cfg else raw)) /\
  (forall h1 r v t given resolved h2, st_hist s = h1 ++ EvReaderInit r v t given resolved :: h2 ->
     resolved = resolve_start given (hist_hw h2 t) /\
     exists g raw, In (EvOffsetFetch r g t raw given) h2).
Proof.
  intros cfg ls s Hrun.
  assert (J : inv_start s /\ hist_ok (P_start cfg) (st_hist s)).
  { eapply (@inv_run _ _ (step cfg) (fun y => inv_start y /\ hist_ok (P_start cfg) (st_hist y)));
      [|apply init_start|exact Hrun]. intros; eapply step_start; eauto. }
  split.
  - intros h1 r g t raw start h2 Hs. exact (hist_ok_split (P_start cfg) _ _ _ _ (proj2 J) Hs).
  - intros h1 r v t given resolved h2 Hs. exact (hist_ok_split (P_start cfg) _ _ _ _ (proj2 J) Hs).
Qed.

(* the state's committed map and high watermarks are exactly what the history says *)
Theorem committed_is_history : forall cfg ls s, run (step cfg) init ls = Some s ->
  forall t, lookup (co_committed (st_co s)) t = hist_committed (st_hist s) t.
Proof.
  intros cfg ls s Hrun.
  assert (J : inv_start s /\ hist_ok (P_start cfg) (st_hist s)).
  { eapply (@inv_run _ _ (step cfg) (fun y => inv_start y /\ hist_ok (P_start cfg) (st_hist y)));
      [|apply init_start|exact Hrun]. intros; eapply step_start; eauto. }
  exact (proj1 (proj1 (proj1 J))).
Qed.
