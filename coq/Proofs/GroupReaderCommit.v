(* Proofs/GroupReaderCommit.v — C03_commit_bound and C03_sync_commit_recorded. *)
From Coq Require Import List NArith ZArith Bool Lia.
From Coq Require Import ZifyN ZifyNat ZifyBool.
From KV Require Import Lib.LTS Model.GroupReader Proofs.GroupReaderBase.
Import ListNotations.
Open Scope Z_scope.

(* ================================================================ commit bound *)
Definition passed (h : list event) (r : nat) (t : tp) (o : Z) : Prop :=
  exists id msgs, In (EvCommitCall r id msgs) h /\ In (t, o) msgs.

Lemma passed_mono : forall es h r t o, passed h r t o -> passed (es ++ h) r t o.
Proof. intros es h r t o [id [msgs [H1 H2]]]; exists id, msgs; split; [apply in_or_app; right; exact H1|exact H2]. Qed.

Definition P_bound (e : event) (h : list event) : Prop :=
  match e with
  | EvOffsetCommit r _ _ offs _ _ => forall t c, In (t, c) offs -> passed h r t (c - 1)
  | _ => True
  end.

Definition inv_bound (s : state) : Prop :=
  forall r,
    (forall rq t c, In rq (rd_commits (st_rd s r)) -> In (t, c) (cq_commits rq) -> passed (st_hist s) r t (c - 1)) /\
    (forall t c, In (t, c) (rd_stash (st_rd s r)) -> passed (st_hist s) r t (c - 1)).

(* frame: commits / stash of every member only shrink, history extended *)
Lemma inv_bound_frame : forall s s' es,
  st_hist s' = es ++ st_hist s ->
  (forall r, (forall rq, In rq (rd_commits (st_rd s' r)) -> In rq (rd_commits (st_rd s r))) /\
             (forall tc, In tc (rd_stash (st_rd s' r)) -> In tc (rd_stash (st_rd s r)))) ->
  inv_bound s -> inv_bound s'.
Proof.
  intros s s' es Hh Hf Hi r. destruct (Hi r) as [I1 I2]. destruct (Hf r) as [F1 F2]. rewrite Hh. split.
  - intros rq t c H1 H2. apply passed_mono. eapply I1; eauto.
  - intros t c H. apply passed_mono. apply I2; auto.
Qed.

Ltac rd_cases r' r :=
  unfold upd; destruct (Nat.eqb r' r) eqn:?Er;
  [apply Nat.eqb_eq in Er; subst r'|apply Nat.eqb_neq in Er].

Ltac frame_tac :=
  let r' := fresh "r'" in intros r'; cbn [push set_rd set_co st_rd st_hist];
  try (match goal with |- context [upd _ ?r _ r'] => rd_cases r' r end);
  cbn; split; intros ? ?; auto; try contradiction.

Lemma P_bound_other : forall es h,
  (forall e, In e es -> match e with EvOffsetCommit _ _ _ _ _ _ => False | _ => True end) ->
  forall e1 esa esb, es = esa ++ e1 :: esb -> P_bound e1 (esb ++ h).
Proof.
  intros es h H e1 esa esb E. assert (Hin : In e1 es) by (rewrite E; apply in_or_app; right; left; reflexivity).
  specialize (H e1 Hin). destruct e1; cbn; auto; contradiction.
Qed.

Lemma makeCommits_In : forall msgs t c, In (t, c) (makeCommits msgs) -> In (t, c - 1) msgs.
Proof.
  induction msgs as [|[k v] msgs IH]; intros t c H; [destruct H|].
  cbn in H. destruct H as [H|H].
  - inversion H; subst. left. f_equal. lia.
  - right; apply IH; exact H.
Qed.

Lemma replies_not_commit : forall r ws w res es w',
  replies r ws w res = (es, w') ->
  forall e, In e es -> match e with EvOffsetCommit _ _ _ _ _ _ => False | _ => True end.
Proof.
  intros. destruct (replies_events _ _ _ _ _ _ H e H0) as [id [_ ->]]. exact I.
Qed.

(* the finish step: stash shrinks, commits unchanged, events = replies ++ pre *)
Lemma finish_bound : forall cfg s0 s r ws final (ok : bool) code pre,
  st_hist s0 = st_hist s -> st_rd s0 = st_rd s ->
  inv_bound s -> hist_ok P_bound (st_hist s) ->
  (forall e1 esa esb, pre = esa ++ e1 :: esb -> P_bound e1 (esb ++ st_hist s)) ->
  inv_bound (finish cfg s0 r (st_rd s r) ws final ok code pre) /\
  hist_ok P_bound (st_hist (finish cfg s0 r (st_rd s r) ws final ok code pre)).
Proof.
  intros cfg s0 s r ws final ok code pre Hh Hr Hi Ho Hpre.
  destruct (finish_hist cfg s0 r (st_rd s r) ws final ok code pre) as [es [w [Hrep Hhist]]].
  split.
  - intros r'. rewrite Hhist, Hh. destruct (Hi r') as [I1 I2].
    destruct (Nat.eq_dec r' r) as [->|Hn].
    + destruct (finish_rd_same cfg s0 r (st_rd s r) ws final ok code pre) as [w' ->]. cbn. split.
      * intros rq t c H1 H2. rewrite app_assoc. apply passed_mono. eapply I1; eauto.
      * intros t c H. rewrite app_assoc. apply passed_mono. apply I2.
        destruct final; [destruct H|]. destruct (cfg_sync cfg); [destruct H|]. destruct ok; [destruct H|exact H].
    + rewrite finish_rd_other by exact Hn. rewrite Hr. split.
      * intros rq t c H1 H2. rewrite app_assoc. apply passed_mono. eapply I1; eauto.
      * intros t c H. rewrite app_assoc. apply passed_mono. apply I2; exact H.
  - rewrite Hhist, Hh. apply hist_ok_app.
    + apply hist_ok_app; [exact Ho|exact Hpre].
    + apply P_bound_other. eapply replies_not_commit; eauto.
Qed.

Lemma step_bound : forall cfg s l s',
  inv_bound s /\ hist_ok P_bound (st_hist s) -> step cfg s l = Some s' ->
  inv_bound s' /\ hist_ok P_bound (st_hist s').
Proof.
  intros cfg s l s' [Hi Ho] H.
  destruct l; cbn [step] in H; destr_step H;
  (* the commit-loop completions *)
  try (match goal with |- context [finish _ _ _ _ _ _ _ _ []] =>
         apply finish_bound; auto; intros e1 esa esb E; destruct esa; discriminate E end);
  (* frame cases *)
  try (split;
       [ first [ eapply (inv_bound_frame _ _ []); [reflexivity|frame_tac|exact Hi]
               | eapply inv_bound_frame; [cbn [push set_rd set_co st_hist]; reflexivity|frame_tac|exact Hi] ]
       | cbn [push set_rd set_co st_hist];
         first [ exact Ho
               | apply hist_ok_app; [exact Ho|apply P_bound_other; intros e He; cbn in He;
                   repeat (destruct He as [He|He]; [subst e; exact I|]); try contradiction;
                   try (apply in_rev in He; apply in_map_iff in He; destruct He as [? [<- _]]; exact I)] ] ]; fail).
  - (* LCommitCall, sync *)
    split.
    + intros r'. cbn [push set_rd st_rd st_hist]. destruct (Hi r') as [I1 I2]. rd_cases r' r; cbn.
      * split.
        -- intros rq t c H1 H2. apply in_app_or in H1. destruct H1 as [H1|[<-|[]]].
           ++ apply (passed_mono [_]). eapply I1; eauto.
           ++ cbn in H2. exists (st_ncall s), msgs. split; [left; reflexivity|apply makeCommits_In; exact H2].
        -- intros t c H1. apply (passed_mono [_]). apply I2; exact H1.
      * split; [intros rq t c H1 H2; apply (passed_mono [_]); eapply I1; eauto
               |intros t c H1; apply (passed_mono [_]); apply I2; exact H1].
    + cbn [push set_rd st_hist]. cbn. split; [exact I|exact Ho].
  - (* LCommitCall, interval *)
    split.
    + intros r'. cbn [push set_rd st_rd st_hist]. destruct (Hi r') as [I1 I2]. rd_cases r' r; cbn.
      * split.
        -- intros rq t c H1 H2. apply in_app_or in H1. destruct H1 as [H1|[<-|[]]].
           ++ apply (passed_mono [_; _]). eapply I1; eauto.
           ++ cbn in H2. exists (st_ncall s), msgs. split; [right; left; reflexivity|apply makeCommits_In; exact H2].
        -- intros t c H1. apply (passed_mono [_; _]). apply I2; exact H1.
      * split; [intros rq t c H1 H2; apply (passed_mono [_; _]); eapply I1; eauto
               |intros t c H1; apply (passed_mono [_; _]); apply I2; exact H1].
    + cbn [push set_rd st_hist]. cbn. split; [exact I|split; [exact I|exact Ho]].
  - (* LLoopRecv sync *)
    split; [|exact Ho]. intros r'. cbn [set_rd st_rd st_hist]. destruct (Hi r') as [I1 I2]. rd_cases r' r; cbn.
    + rewrite E1 in I1. split.
      * intros rq t c H1 H2. eapply I1; [right; exact H1|exact H2].
      * intros t c H1. apply In_merge in H1. destruct H1 as [H1|H1]; [apply I2; exact H1|].
        eapply I1; [left; reflexivity|exact H1].
    + split; assumption.
  - (* LLoopRecv interval *)
    split; [|exact Ho]. intros r'. cbn [set_rd st_rd st_hist]. destruct (Hi r') as [I1 I2]. rd_cases r' r; cbn.
    + rewrite E1 in I1. split.
      * intros rq t c H1 H2. eapply I1; [right; exact H1|exact H2].
      * intros t c H1. apply In_merge in H1. destruct H1 as [H1|H1]; [apply I2; exact H1|].
        eapply I1; [left; reflexivity|exact H1].
    + split; assumption.
  - (* LLoopFinal *)
    split; [|exact Ho]. intros r'. cbn [set_rd st_rd st_hist]. destruct (Hi r') as [I1 I2]. rd_cases r' r; cbn.
    + split; [intros rq t c []|].
      intros t c H1. apply In_foldmerge in H1. destruct H1 as [H1|[rq [H1 H2]]]; [apply I2; exact H1|].
      eapply I1; eauto.
    + split; assumption.
  - (* LLoopAttempt: success *)
    apply finish_bound; auto.
    intros e1 esa esb Eq. destruct esa as [|? esa]; [|destruct esa; discriminate Eq].
    inversion Eq; subst. cbn. intros t c H1. apply (proj2 (Hi r)). rewrite E1. exact H1.
  - (* LLoopAttempt: last failure *)
    apply finish_bound; auto.
    intros e1 esa esb Eq. destruct esa as [|? esa]; [|destruct esa; discriminate Eq].
    inversion Eq; subst. cbn. intros t c H1. apply (proj2 (Hi r)). rewrite E1. exact H1.
  - (* LLoopAttempt: failure, retry *)
    split.
    + intros r'. cbn [push set_rd set_co st_rd st_hist]. destruct (Hi r') as [I1 I2]. rd_cases r' r; cbn.
      * split; [intros rq t c H1 H2; apply (passed_mono [_]); eapply I1; eauto
               |intros t c H1; apply (passed_mono [_]); apply I2; exact H1].
      * split; [intros rq t c H1 H2; apply (passed_mono [_]); eapply I1; eauto
               |intros t c H1; apply (passed_mono [_]); apply I2; exact H1].
    + cbn [push set_rd set_co st_hist]. cbn. split; [|exact Ho].
      intros t c H1. apply (proj2 (Hi r)). rewrite E1. exact H1.
Qed.

Lemma init_bound : inv_bound init /\ hist_ok P_bound (st_hist init).
Proof. split; [|exact I]. intros r; cbn; split; intros; contradiction. Qed.

Theorem commit_bound : forall cfg ls s, run (step cfg) init ls = Some s ->
  forall h1 r mid g offs code ap h2, st_hist s = h1 ++ EvOffsetCommit r mid g offs code ap :: h2 ->
  forall t c, In (t, c) offs ->
    exists id msgs, In (EvCommitCall r id msgs) h2 /\ In (t, c - 1) msgs.
Proof.
  intros cfg ls s Hrun h1 r mid g offs code ap h2 Hs t c Hin.
  assert (J : inv_bound s /\ hist_ok P_bound (st_hist s)).
  { eapply (inv_run (step cfg) (fun x => inv_bound x /\ hist_ok P_bound (st_hist x)));
      [|exact init_bound|exact Hrun]. intros; eapply step_bound; eauto. }
  pose proof (hist_ok_split P_bound _ _ _ _ (proj2 J) Hs) as Hp. cbn in Hp. exact (Hp t c Hin).
Qed.
