(* Proofs/GroupReaderCommit.v — C03_commit_bound and C03_sync_commit_recorded. *)
From Coq Require Import List NArith ZArith Bool Lia.
From Coq Require Import ZifyN ZifyNat ZifyBool.
From KV Require Import Lib.LTS Model.GroupReader Proofs.GroupReaderBase.
Import ListNotations.
Open Scope Z_scope.

(* ================================================================ commit bound *)
Definition passed (h : list event) (r : nat) (t : tp) (o : Z) : Prop :=
  exists id msgs, In (EvCommitCall r id msgs) h /\ In (t, o) msgs.

Lemma passed_mono : forall es h r t o, passed h r t o -> passed (es ++ h) r t o.
Proof. intros es h r t o [id [msgs [H1 H2]]]; exists id, msgs; split; [apply in_or_app; right; exact H1|exact H2]. Qed.

Definition P_bound (e : event) (h : list event) : Prop :=
  match e with
  | EvOffsetCommit r _ _ offs _ _ => forall t c, In (t, c) offs -> passed h r t (c - 1)
  | _ => True
  end.

Definition inv_bound (s : state) : Prop :=
  forall r,
    (forall rq t c, In rq (rd_commits (st_rd s r)) -> In (t, c) (cq_commits rq) -> passed (st_hist s) r t (c - 1)) /\
    (forall t c, In (t, c) (rd_stash (st_rd s r)) -> passed (st_hist s) r t (c - 1)).

(* frame: commits / stash of every member only shrink, history extended *)
Lemma inv_bound_frame : forall s s' es,
  st_hist s' = es ++ st_hist s ->
  (forall r, (forall rq, In rq (rd_commits (st_rd s' r)) -> In rq (rd_commits (st_rd s r))) /\
             (forall tc, In tc (rd_stash (st_rd s' r)) -> In tc (rd_stash (st_rd s r)))) ->
  inv_bound s -> inv_bound s'.
Proof.
  intros s s' es Hh Hf Hi r. destruct (Hi r) as [I1 I2]. destruct (Hf r) as [F1 F2]. rewrite Hh. split.
  - intros rq t c H1 H2. apply passed_mono. eapply I1; eauto.
  - intros t c H. apply passed_mono. apply I2; auto.
Qed.

Ltac rd_cases r' r :=
  unfold upd; destruct (Nat.eqb r' r) eqn:?Er;
  [apply Nat.eqb_eq in Er; subst r'|apply Nat.eqb_neq in Er].

Ltac frame_tac :=
  let r' := fresh "r'" in intros r'; cbn [push set_rd set_co st_rd st_hist];
  try (match goal with |- context [upd _ ?r _ r'] => rd_cases r' r end);
  cbn; split; intros ? ?; auto; try contradiction.

Lemma P_bound_other : forall es h,
  (forall e, In e es -> match e with EvOffsetCommit _ _ _ _ _ _ => False | _ => True end) ->
  forall e1 esa esb, es = esa ++ e1 :: esb -> P_bound e1 (esb ++ h).
Proof.
  intros es h H e1 esa esb E. assert (Hin : In e1 es) by (rewrite E; apply in_or_app; right; left; reflexivity).
  specialize (H e1 Hin). destruct e1; cbn; auto; contradiction.
Qed.

Lemma makeCommits_In : forall msgs t c, In (t, c) (makeCommits msgs) -> In (t, c - 1) msgs.
Proof.
  induction msgs as [|[k v] msgs IH]; intros t c H; [destruct H|].
  cbn in H. destruct H as [H|H].
  - inversion H; subst. left. f_equal. lia.
  - right; apply IH; exact H.
Qed.

Lemma replies_not_commit : forall r ws w res es w',
  replies r ws w res = (es, w') ->
  forall e, In e es -> match e with EvOffsetCommit _ _ _ _ _ _ => False | _ => True end.
Proof.
  intros. destruct (replies_events _ _ _ _ _ _ H e H0) as [id [_ ->]]. exact I.
Qed.

(* the finish step: stash shrinks, commits unchanged, events = replies ++ pre *)
Lemma finish_bound : forall cfg s0 s r ws final (ok : bool) code pre,
  st_hist s0 = st_hist s -> st_rd s0 = st_rd s ->
  inv_bound s -> hist_ok P_bound (st_hist s) ->
  (forall e1 esa esb, pre = esa ++ e1 :: esb -> P_bound e1 (esb ++ st_hist s)) ->
  inv_bound (finish cfg s0 r (st_rd s r) ws final ok code pre) /\
  hist_ok P_bound (st_hist (finish cfg s0 r (st_rd s r) ws final ok code pre)).
Proof.
  intros cfg s0 s r ws final ok code pre Hh Hr Hi Ho Hpre.
  destruct (finish_hist cfg s0 r (st_rd s r) ws final ok code pre) as [es [w [Hrep Hhist]]].
  split.
  - intros r'. rewrite Hhist, Hh. destruct (Hi r') as [I1 I2].
    destruct (Nat.eq_dec r' r) as [->|Hn].
    + destruct (finish_rd_same cfg s0 r (st_rd s r) ws final ok code pre) as [w' ->]. cbn. split.
      * intros rq t c H1 H2. rewrite app_assoc. apply passed_mono. eapply I1; eauto.
      * intros t c H. rewrite app_assoc. apply passed_mono. apply I2.
        destruct final; [destruct H|]. destruct (cfg_sync cfg); [destruct H|]. destruct ok; [destruct H|exact H].
    + rewrite finish_rd_other by exact Hn. rewrite Hr. split.
      * intros rq t c H1 H2. rewrite app_assoc. apply passed_mono. eapply I1; eauto.
      * intros t c H. rewrite app_assoc. apply passed_mono. apply I2; exact H.
  - rewrite Hhist, Hh. apply hist_ok_app.
    + apply hist_ok_app; [exact Ho|exact Hpre].
    + apply P_bound_other. eapply replies_not_commit; eauto.
Qed.

Ltac rw_stash := match goal with Hs : rd_stash (st_rd ?s ?r) = _ |- _ => rewrite Hs end.

Lemma step_bound : forall cfg s l s',
  inv_bound s /\ hist_ok P_bound (st_hist s) -> step cfg s l = Some s' ->
  inv_bound s' /\ hist_ok P_bound (st_hist s').
Proof.
  intros cfg s l s' [Hi Ho] H.
  destruct l; cbn [step] in H; destr_step H;
  (* the commit-loop completions *)
  try (match goal with |- context [finish _ _ _ _ _ _ _ _ []] =>
         apply finish_bound; auto; intros e1 esa esb Eq; destruct esa; discriminate Eq end);
  (* frame cases *)
  try (split;
       [ first [ eapply (inv_bound_frame _ _ []); [reflexivity|frame_tac|exact Hi]
               | eapply inv_bound_frame; [cbn [push set_rd set_co st_hist]; reflexivity|frame_tac|exact Hi] ]
       | cbn [push set_rd set_co st_hist];
         first [ exact Ho
               | apply hist_ok_app; [exact Ho|apply P_bound_other; intros e He; cbn in He;
                   repeat (destruct He as [He|He]; [subst e; exact I|]); try contradiction;
                   try (apply in_rev in He; apply in_map_iff in He; destruct He as [? [<- _]]; exact I)] ] ]; fail).
  - (* LCommitCall, sync *)
    split.
    + intros r'. cbn [push set_rd st_rd st_hist]. destruct (Hi r') as [I1 I2]. rd_cases r' r; cbn.
      * split.
        -- intros rq t0 c0 H1 H2. apply in_app_or in H1. destruct H1 as [H1|[<-|[]]].
           ++ apply (passed_mono [_]). eapply I1; eauto.
           ++ cbn in H2. exists (st_ncall s), msgs. split; [left; reflexivity|apply makeCommits_In; exact H2].
        -- intros t0 c0 H1. apply (passed_mono [_]). apply I2; exact H1.
      * split; [intros rq t0 c0 H1 H2; apply (passed_mono [_]); eapply I1; eauto
               |intros t0 c0 H1; apply (passed_mono [_]); apply I2; exact H1].
    + cbn [push set_rd st_hist]. cbn. split; [exact I|exact Ho].
  - (* LCommitCall, interval *)
    split.
    + intros r'. cbn [push set_rd st_rd st_hist]. destruct (Hi r') as [I1 I2]. rd_cases r' r; cbn.
      * split.
        -- intros rq t0 c0 H1 H2. apply in_app_or in H1. destruct H1 as [H1|[<-|[]]].
           ++ apply (passed_mono [_; _]). eapply I1; eauto.
           ++ cbn in H2. exists (st_ncall s), msgs. split; [right; left; reflexivity|apply makeCommits_In; exact H2].
        -- intros t0 c0 H1. apply (passed_mono [_; _]). apply I2; exact H1.
      * split; [intros rq t0 c0 H1 H2; apply (passed_mono [_; _]); eapply I1; eauto
               |intros t0 c0 H1; apply (passed_mono [_; _]); apply I2; exact H1].
    + cbn [push set_rd st_hist]. cbn. split; [exact I|split; [exact I|exact Ho]].
  - (* LLoopRecv sync *)
    split; [|exact Ho]. intros r'. cbn [set_rd st_rd st_hist]. destruct (Hi r') as [I1 I2]. rd_cases r' r; cbn.
    + rewrite E1 in I1. split.
      * intros rq t0 c0 H1 H2. eapply I1; [right; exact H1|exact H2].
      * intros t0 c0 H1. apply In_merge in H1. destruct H1 as [H1|H1]; [apply I2; exact H1|].
        eapply I1; [left; reflexivity|exact H1].
    + split; assumption.
  - (* LLoopRecv interval *)
    split; [|exact Ho]. intros r'. cbn [set_rd st_rd st_hist]. destruct (Hi r') as [I1 I2]. rd_cases r' r; cbn.
    + rewrite E1 in I1. split.
      * intros rq t0 c0 H1 H2. eapply I1; [right; exact H1|exact H2].
      * intros t0 c0 H1. apply In_merge in H1. destruct H1 as [H1|H1]; [apply I2; exact H1|].
        eapply I1; [left; reflexivity|exact H1].
    + split; assumption.
  - (* LLoopFinal *)
    split; [|exact Ho]. intros r'. cbn [set_rd st_rd st_hist]. destruct (Hi r') as [I1 I2]. rd_cases r' r; cbn.
    + split; [intros rq t0 c0 []|].
      intros t0 c0 H1. apply In_foldmerge in H1. destruct H1 as [H1|[rq [H1 H2]]]; [apply I2; exact H1|].
      eapply I1; eauto.
    + split; assumption.
  - (* LLoopAttempt: success *)
    apply finish_bound; auto.
    intros e1 esa esb Eq. destruct esa as [|? esa]; [|destruct esa; discriminate Eq].
    inversion Eq; subst. cbn. intros t0 c0 H1. apply (proj2 (Hi r)). match goal with Hs : rd_stash (st_rd s r) = _ |- _ => rewrite Hs end. exact H1.
  - (* LLoopAttempt: last failure *)
    apply finish_bound; auto.
    intros e1 esa esb Eq. destruct esa as [|? esa]; [|destruct esa; discriminate Eq].
    inversion Eq; subst. cbn. intros t0 c0 H1. apply (proj2 (Hi r)). match goal with Hs : rd_stash (st_rd s r) = _ |- _ => rewrite Hs end. exact H1.
  - (* LLoopAttempt: failure, retry *)
    split.
    + intros r'. cbn [push set_rd set_co st_rd st_hist]. destruct (Hi r') as [I1 I2]. rd_cases r' r; cbn.
      * split; [intros rq t0 c0 H1 H2; apply (passed_mono [_]); eapply I1; eauto
               |intros t0 c0 H1; apply (passed_mono [_]); apply I2; rw_stash; exact H1].
      * split; [intros rq t0 c0 H1 H2; apply (passed_mono [_]); eapply I1; eauto
               |intros t0 c0 H1; apply (passed_mono [_]); apply I2; exact H1].
    + cbn [push set_rd set_co st_hist]. cbn. split; [|exact Ho].
      intros t0 c0 H1. apply (proj2 (Hi r)). rw_stash. exact H1.
Qed.

Lemma init_bound : inv_bound init /\ hist_ok P_bound (st_hist init).
Proof. split; [|exact I]. intros r; cbn; split; intros; contradiction. Qed.

Theorem commit_bound : forall cfg ls s, run (step cfg) init ls = Some s ->
  forall h1 r mid g offs code ap h2, st_hist s = h1 ++ EvOffsetCommit r mid g offs code ap :: h2 ->
  forall t c, In (t, c) offs ->
    exists id msgs, In (EvCommitCall r id msgs) h2 /\ In (t, c - 1) msgs.
Proof.
  intros cfg ls s Hrun h1 r mid g offs code ap h2 Hs t c Hin.
  assert (J : inv_bound s /\ hist_ok P_bound (st_hist s)).
  { eapply (@inv_run _ _ (step cfg) (fun x => inv_bound x /\ hist_ok P_bound (st_hist x)));
      [|exact init_bound|exact Hrun]. intros; eapply step_bound; eauto. }
  pose proof (hist_ok_split P_bound _ _ _ _ (proj2 J) Hs) as Hp. cbn in Hp. exact (Hp t c Hin).
Qed.

(* ================================================================ sync commit recorded *)
(* after the acknowledged commit e (code 0, applied) the coordinator's committed offset of t
   is >= c, and the call (r,id) is older than e *)
Definition acked (h : list event) (r id : nat) (t : tp) (c : Z) : Prop :=
  exists ha r' mid g offs hb c',
    h = ha ++ EvOffsetCommit r' mid g offs 0 true :: hb /\
    hist_committed (EvOffsetCommit r' mid g offs 0 true :: hb) t = Some c' /\ c <= c' /\
    exists msgs, In (EvCommitCall r id msgs) hb.

Definition P_sync (cfg : config) (e : event) (h : list event) : Prop :=
  match e with
  | EvCommitRet r id RNil =>
    cfg_sync cfg = true ->
    exists msgs, In (EvCommitCall r id msgs) h /\ forall t o, In (t, o) msgs -> acked h r id t (o + 1)
  | _ => True
  end.

Definition inv_sync (s : state) : Prop :=
  forall r,
    (forall rq, In rq (rd_commits (st_rd s r)) ->
       exists msgs, In (EvCommitCall r (cq_id rq) msgs) (st_hist s) /\ cq_commits rq = makeCommits msgs) /\
    (forall ws lft final le, rd_loop (st_rd s r) = CLBusy ws lft final le ->
       forall id, In id ws ->
       exists msgs, In (EvCommitCall r id msgs) (st_hist s) /\
         forall t o, In (t, o) msgs -> le_opt (o + 1) (lookup (rd_stash (st_rd s r)) t)).

Lemma inv_sync_frame : forall s s' es,
  st_hist s' = es ++ st_hist s ->
  (forall r, (forall rq, In rq (rd_commits (st_rd s' r)) -> In rq (rd_commits (st_rd s r))) /\
             ((rd_loop (st_rd s' r) = rd_loop (st_rd s r) /\ rd_stash (st_rd s' r) = rd_stash (st_rd s r)) \/
              rd_loop (st_rd s' r) = CLIdle \/ rd_loop (st_rd s' r) = CLExited)) ->
  inv_sync s -> inv_sync s'.
Proof.
  intros s s' es Hh Hf Hi r. destruct (Hi r) as [I1 I2]. destruct (Hf r) as [F1 F2]. rewrite Hh. split.
  - intros rq H. destruct (I1 rq (F1 rq H)) as [msgs [A B]]. exists msgs; split; [apply in_or_app; right; exact A|exact B].
  - intros ws lft final le HL id Hid. destruct F2 as [[F2 F3]|[F2|F2]]; [|rewrite F2 in HL; discriminate HL..].
    rewrite F2 in HL. rewrite F3. destruct (I2 _ _ _ _ HL id Hid) as [msgs [A B]].
    exists msgs; split; [apply in_or_app; right; exact A|exact B].
Qed.

Ltac frame_sync_tac :=
  let r' := fresh "r'" in intros r'; cbn [push set_rd set_co st_rd st_hist];
  try (match goal with |- context [upd _ ?r _ r'] => rd_cases r' r end);
  cbn; (split; [intros ? ?; auto; try contradiction|auto]).

Lemma P_sync_other : forall cfg es h,
  (forall e, In e es -> match e with EvCommitRet _ _ RNil => False | _ => True end) ->
  forall e1 esa esb, es = esa ++ e1 :: esb -> P_sync cfg e1 (esb ++ h).
Proof.
  intros cfg es h H e1 esa esb E. assert (Hin : In e1 es) by (rewrite E; apply in_or_app; right; left; reflexivity).
  specialize (H e1 Hin). destruct e1; cbn; auto. destruct res; [contradiction|exact I].
Qed.

Lemma makeCommits_In' : forall msgs t o, In (t, o) msgs -> In (t, o + 1) (makeCommits msgs).
Proof.
  intros msgs t o H. unfold makeCommits. apply in_map_iff. exists (t, o). split; [reflexivity|exact H].
Qed.

Lemma finish_sync : forall cfg s0 s r ws lft final le (ok : bool) code pre,
  st_hist s0 = st_hist s -> st_rd s0 = st_rd s ->
  inv_sync s -> hist_ok (P_sync cfg) (st_hist s) ->
  rd_loop (st_rd s r) = CLBusy ws lft final le ->
  (ok = true -> (pre = [] /\ rd_stash (st_rd s r) = []) \/
                exists mid g, pre = [EvOffsetCommit r mid g (rd_stash (st_rd s r)) 0 true]) ->
  (forall e, In e pre -> match e with EvCommitRet _ _ RNil => False | _ => True end) ->
  inv_sync (finish cfg s0 r (st_rd s r) ws final ok code pre) /\
  hist_ok (P_sync cfg) (st_hist (finish cfg s0 r (st_rd s r) ws final ok code pre)).
Proof.
  intros cfg s0 s r ws lft final le ok code pre Hh Hr Hi Ho HL Hok Hpre.
  destruct (finish_hist cfg s0 r (st_rd s r) ws final ok code pre) as [es [w [Hrep Hhist]]].
  split.
  - intros r'. rewrite Hhist, Hh. destruct (Hi r') as [I1 I2].
    destruct (Nat.eq_dec r' r) as [->|Hn].
    + destruct (finish_rd_same cfg s0 r (st_rd s r) ws final ok code pre) as [w' ->]. cbn. split.
      * intros rq H. destruct (I1 rq H) as [msgs [A B]]. exists msgs; split; [|exact B].
        rewrite app_assoc; apply in_or_app; right; exact A.
      * intros ws' l' f' le' HL'. destruct final; discriminate HL'.
    + rewrite finish_rd_other by exact Hn. rewrite Hr. split.
      * intros rq H. destruct (I1 rq H) as [msgs [A B]]. exists msgs; split; [|exact B].
        rewrite app_assoc; apply in_or_app; right; exact A.
      * intros ws' l' f' le' HL' id Hid. destruct (I2 _ _ _ _ HL' id Hid) as [msgs [A B]].
        exists msgs; split; [|exact B]. rewrite app_assoc; apply in_or_app; right; exact A.
  - rewrite Hhist, Hh. apply hist_ok_app.
    + apply hist_ok_app; [exact Ho|]. apply P_sync_other; exact Hpre.
    + intros e1 esa esb Ees.
      assert (Hin : In e1 es) by (rewrite Ees; apply in_or_app; right; left; reflexivity).
      destruct (replies_events _ _ _ _ _ _ Hrep e1 Hin) as [id [Hid ->]].
      destruct ok; [|exact I]. cbn. intros _.
      destruct (proj2 (Hi r) _ _ _ _ HL id Hid) as [msgs [A B]].
      exists msgs. split; [apply in_or_app; right; apply in_or_app; right; exact A|].
      intros t o Hto. destruct (B t o Hto) as [c' [Hl Hc]].
      destruct (Hok eq_refl) as [[-> Hst]|[mid [g ->]]].
      * rewrite Hst in Hl; discriminate Hl.
      * exists esb, r, mid, g, (rd_stash (st_rd s r)), (st_hist s), c'.
        split; [reflexivity|]. split; [cbn [hist_committed]; rewrite Hl; reflexivity|].
        split; [exact Hc|exists msgs; exact A].
Qed.

Lemma step_sync : forall cfg s l s', cfg_sync cfg = true ->
  inv_sync s /\ hist_ok (P_sync cfg) (st_hist s) -> step cfg s l = Some s' ->
  inv_sync s' /\ hist_ok (P_sync cfg) (st_hist s').
Proof.
  intros cfg s l s' Hsync [Hi Ho] H.
  destruct l; cbn [step] in H; destr_step H;
  try congruence;
  (* frame cases *)
  try (split;
       [ first [ eapply (inv_sync_frame _ _ []); [reflexivity|frame_sync_tac|exact Hi]
               | eapply inv_sync_frame; [cbn [push set_rd set_co st_hist]; reflexivity|frame_sync_tac|exact Hi] ]
       | cbn [push set_rd set_co st_hist];
         first [ exact Ho
               | apply hist_ok_app; [exact Ho|apply P_sync_other; intros e He; cbn in He;
                   repeat (destruct He as [He|He]; [subst e; exact I|]); try contradiction;
                   try (apply in_rev in He; apply in_map_iff in He; destruct He as [? [<- _]]; exact I)] ] ]; fail).
  - (* LCommitCall sync *)
    split.
    + intros r'. cbn [push set_rd st_rd st_hist]. destruct (Hi r') as [I1 I2]. rd_cases r' r; cbn.
      * split.
        -- intros rq H1. apply in_app_or in H1. destruct H1 as [H1|[<-|[]]].
           ++ destruct (I1 rq H1) as [m [A B]]. exists m; split; [right; exact A|exact B].
           ++ exists msgs. split; [left; reflexivity|reflexivity].
        -- intros ws lft final le HL id Hid. destruct (I2 _ _ _ _ HL id Hid) as [m [A B]].
           exists m; split; [right; exact A|exact B].
      * split.
        -- intros rq H1. destruct (I1 rq H1) as [m [A B]]. exists m; split; [right; exact A|exact B].
        -- intros ws lft final le HL id Hid. destruct (I2 _ _ _ _ HL id Hid) as [m [A B]].
           exists m; split; [right; exact A|exact B].
    + cbn [push set_rd st_hist]. cbn. split; [exact I|exact Ho].
  - (* LLoopRecv sync *)
    split; [|exact Ho]. intros r'. cbn [set_rd st_rd st_hist]. destruct (Hi r') as [I1 I2]. rd_cases r' r; cbn.
    + match goal with Hc : rd_commits (st_rd s r) = _ |- _ => rewrite Hc in I1 end. split.
      * intros rq H1. apply I1. right; exact H1.
      * intros ws lft final le HL id Hid. inversion HL; subst. destruct Hid as [<-|[]].
        destruct (I1 _ (or_introl eq_refl)) as [m [A B]]. exists m; split; [exact A|].
        intros t0 o Hto. rewrite B. apply merge_covers. apply makeCommits_In'. exact Hto.
    + split; assumption.
  - (* LLoopFinal *)
    split; [|exact Ho]. intros r'. cbn [set_rd st_rd st_hist]. destruct (Hi r') as [I1 I2]. rd_cases r' r; cbn.
    + split; [intros rq []|].
      intros ws lft final le HL id Hid. inversion HL; subst. rewrite Hsync in Hid.
      apply in_map_iff in Hid. destruct Hid as [rq [<- Hrq]].
      destruct (I1 rq Hrq) as [m [A B]]. exists m; split; [exact A|].
      intros t0 o Hto. eapply foldmerge_covers; [exact Hrq|]. rewrite B. apply makeCommits_In'. exact Hto.
    + split; assumption.
  - (* LLoopAttempt, empty stash *)
    eapply finish_sync; eauto. intros e [].
  - (* LLoopAttempt success *)
    eapply finish_sync; eauto.
    + intros _. right. exists mid, g.
      assert (z = 0) by lia. subst z.
      assert (b = true).
      { destruct f; inversion E3; subst; try reflexivity; try discriminate; try lia. }
      subst b. rw_stash. reflexivity.
    + intros e [<-|[]]. exact I.
  - (* LLoopAttempt last failure *)
    eapply finish_sync; eauto.
    + intros Hc; discriminate Hc.
    + intros e [<-|[]]. exact I.
  - (* retry *)
    split.
    + intros r'. cbn [push set_rd set_co st_rd st_hist]. destruct (Hi r') as [I1 I2]. rd_cases r' r; cbn.
      * split.
        -- intros rq H1. destruct (I1 rq H1) as [m [A B]]. exists m; split; [right; exact A|exact B].
        -- intros ws lft fin le HL id Hid. inversion HL; subst.
           destruct (I2 _ _ _ _ E0 id Hid) as [m [A B]]. exists m; split; [right; exact A|].
           intros t0 o Hto. specialize (B t0 o Hto). match goal with Hs : rd_stash (st_rd s r) = _ |- _ => rewrite Hs in B end. exact B.
      * split.
        -- intros rq H1. destruct (I1 rq H1) as [m [A B]]. exists m; split; [right; exact A|exact B].
        -- intros ws lft fin le HL id Hid. destruct (I2 _ _ _ _ HL id Hid) as [m [A B]].
           exists m; split; [right; exact A|exact B].
    + cbn [push set_rd set_co st_hist]. cbn. split; [exact I|exact Ho].
  - (* give up *)
    eapply finish_sync; eauto.
    + intros Hc; discriminate Hc.
    + intros e [].
Qed.

Lemma init_sync : forall cfg, inv_sync init /\ hist_ok (P_sync cfg) (st_hist init).
Proof. intros; split; [|exact I]. intros r; cbn; split; intros; [contradiction|discriminate]. Qed.

Theorem sync_commit_recorded : forall cfg ls s, cfg_sync cfg = true ->
  run (step cfg) init ls = Some s ->
  forall h1 r id h2, st_hist s = h1 ++ EvCommitRet r id RNil :: h2 ->
  exists msgs, In (EvCommitCall r id msgs) h2 /\
    forall t o, In (t, o) msgs -> acked h2 r id t (o + 1).
Proof.
  intros cfg ls s Hsync Hrun h1 r id h2 Hs.
  assert (J : inv_sync s /\ hist_ok (P_sync cfg) (st_hist s)).
  { eapply (@inv_run _ _ (step cfg) (fun x => inv_sync x /\ hist_ok (P_sync cfg) (st_hist x)));
      [|apply init_sync|exact Hrun]. intros; eapply step_sync; eauto. }
  pose proof (hist_ok_split (P_sync cfg) _ _ _ _ (proj2 J) Hs) as Hp. cbn in Hp. exact (Hp Hsync).
Qed.

(* ================================================================ generation end with queued requests
   The step LLoopFinal (ctx.Done branch of the commit loops) FIRST drains Reader.commits into the
   stash and only then commits: every drained request becomes a waiter of that final commit and
   is covered by the stash the commit will carry. *)
Lemma final_drains_then_commits : forall cfg s r s', cfg_sync cfg = true ->
  step cfg s (LLoopFinal r) = Some s' ->
  exists ws,
    rd_loop (st_rd s' r) = CLBusy ws commitRetries true 0 /\
    rd_commits (st_rd s' r) = [] /\
    forall rq, In rq (rd_commits (st_rd s r)) ->
      In (cq_id rq) ws /\
      forall t c, In (t, c) (cq_commits rq) -> le_opt c (lookup (rd_stash (st_rd s' r)) t).
Proof.
  intros cfg s r s' Hsync H. cbn [step] in H. destr_step H.
  cbn [set_rd st_rd]. rewrite upd_same. cbn. rewrite Hsync.
  eexists; split; [reflexivity|]. split; [reflexivity|].
  intros rq Hin. split.
  - apply in_map; exact Hin.
  - intros t c Hc. eapply foldmerge_covers; eauto.
Qed.
