(* Proofs/SchemaGen.v — obligations about the GENERATED schema table (coq/Gen/Schemas.v,
   rewritten by the translator on every run): a change of /repo/protocol's struct
   tags, field order or types breaks one of these. *)
From Coq Require Import List NArith ZArith Bool.
From KV Require Import Model.Schema Gen.Schemas Golden.Schemas Proofs.SchemaBase.

Lemma gen_is_golden : schemas = golden_schemas.
Proof. apply schemas_eqb_eq. vm_compute. reflexivity. Qed.

Lemma gen_schemas_ok : schemas_ok schemas = true.
Proof. vm_compute. reflexivity. Qed.

Lemma gen_count : length schemas = 334%nat.
Proof. vm_compute. reflexivity. Qed.
