(* Proofs/RecordsReadersV1.v — the protocol reader model on format 0/1 messages and compressed
   wrappers, and on arbitrary sequences of items: Client.Fetch returns the reference's records. *)
From Coq Require Import List NArith ZArith Bool Lia.
From Coq Require Import ZifyN ZifyNat ZifyBool.
From KV Require Import Lib.Bits Lib.Bytes Lib.Varint Lib.Crc Spec.RecordFormat Model.Records
  Proofs.RecordsCodec Proofs.RecordsSet Proofs.RecordsWriters Proofs.RecordsReaders.
Import ListNotations.
Open Scope Z_scope.
Arguments PR {A}. Arguments PE {A}. Arguments PP {A}. Arguments PU {A}.

Lemma get_u_put4 x r : get_u 4 (put_be 4 x ++ r) = Some (w32 x, r).
Proof.
  unfold get_u. rewrite take_app by apply put_be_length. rewrite get_put_be_mod. reflexivity.
Qed.

(* key / value part of readMessage *)
Definition p_nb (bs : list N) : option (obytes * list N) :=
  match get_i 4 bs with
  | Some (kl, r6) =>
    if kl <? 0 then Some (None, r6)
    else match take (Z.to_nat kl) r6 with Some (k, r) => Some (Some k, r) | None => None end
  | None => None
  end.
Lemma p_nb_enc b r : osmall b -> p_nb (enc_nbytes b ++ r) = Some (b, r).
Proof.
  intros Hb. unfold p_nb, enc_nbytes. destruct b as [l|].
  - rewrite <- app_assoc. rewrite get_i_put by (try lia; apply in_signed_4, small_i32, Hb).
    pose proof (zlen_nonneg l). destruct (Z.ltb_spec (zlen l) 0); [lia|]. rewrite take_zlen. reflexivity.
  - rewrite get_i_put by (try lia; apply in_signed_4; unfold in_i32, ZM31; lia). reflexivity.
Qed.

Lemma p_read_message_alt bs : p_read_message bs =
  match get_i 8 bs with
  | Some (off, r0) =>
    match get_i 4 r0 with
    | Some (size, r1) =>
      match get_u 4 r1 with
      | Some (crc, r2) =>
        match get_i 1 r2 with
        | Some (magic, r3) =>
          match get_i 1 r3 with
          | Some (attrs, r4) =>
            match (if magic =? 0 then Some (0, r4) else get_i 8 r4) with
            | Some (ts, r5) =>
              match p_nb r5 with
              | Some (k, r7) =>
                match p_nb r7 with
                | Some (v, r9) =>
                  let consumed := (length r2 - length r9)%nat in
                  if (size - 4 <? Z.of_nat consumed) then None
                  else if (crc =? w32 (crc32_ieee (firstn consumed r2)))%N then Some (off, attrs, ts, k, v, r9)
                  else None
                | None => None
                end
              | None => None
              end
            | None => None
            end
          | None => None
          end
        | None => None
        end
      | None => None
      end
    | None => None
    end
  | None => None
  end.
Proof.
  unfold p_read_message, p_nb.
  destruct (get_i 8 bs) as [[off r0]|]; [|reflexivity].
  destruct (get_i 4 r0) as [[size r1]|]; [|reflexivity].
  destruct (get_u 4 r1) as [[crc r2]|]; [|reflexivity].
  destruct (get_i 1 r2) as [[magic r3]|]; [|reflexivity].
  destruct (get_i 1 r3) as [[attrs r4]|]; [|reflexivity].
  destruct (if magic =? 0 then Some (0, r4) else get_i 8 r4) as [[ts r5]|]; [|reflexivity].
  destruct (get_i 4 r5) as [[kl r6]|]; [|reflexivity].
  destruct (kl <? 0).
  - destruct (get_i 4 r6) as [[vl r8]|]; [|reflexivity].
    destruct (vl <? 0); [reflexivity|]. destruct (take (Z.to_nat vl) r8) as [[v r]|]; reflexivity.
  - destruct (take (Z.to_nat kl) r6) as [[k r]|]; [|reflexivity].
    destruct (get_i 4 r) as [[vl r8]|]; [|reflexivity].
    destruct (vl <? 0); [reflexivity|]. destruct (take (Z.to_nat vl) r8) as [[v r']|]; reflexivity.
Qed.

Lemma p_read_message_enc m rest : wf_msg m ->
  p_read_message (enc_msg m ++ rest) = Some (m_off m, m_attrs m, m_ts m, m_key m, m_val m, rest).
Proof.
  intros (Hmg & Hts0 & Ha & Hts & Ho & Hk & Hv & Hsz). rewrite p_read_message_alt.
  unfold enc_msg. cbn zeta. rewrite <- !app_assoc.
  rewrite get_i_put by (try lia; apply in_signed_8, Ho).
  pose proof (zlen_nonneg (msg_body m)) as Hnn.
  rewrite get_i_put by (try lia; apply in_signed_4; unfold in_i32, ZM31 in *; lia).
  rewrite get_u_put4.
  set (B := msg_body m). assert (HB : B = msg_body m) by reflexivity.
  unfold msg_body in HB.
  assert (Hlen : forall r9, (length (B ++ r9) - length r9)%nat = length B) by (intros; rewrite app_length; lia).
  assert (Hfin : (if 4 + zlen B - 4 <? Z.of_nat (length B) then None
                  else if (w32 (crc32_ieee B) =? w32 (crc32_ieee (firstn (length B) (B ++ rest))))%N
                       then Some (m_off m, m_attrs m, m_ts m, m_key m, m_val m, rest) else None) =
                 Some (m_off m, m_attrs m, m_ts m, m_key m, m_val m, rest)).
  { destruct (Z.ltb_spec (4 + zlen B - 4) (Z.of_nat (length B))); [unfold zlen in *; lia|].
    rewrite firstn_app_exact by reflexivity. rewrite N.eqb_refl. reflexivity. }
  destruct Hmg as [H0|H1].
  - rewrite H0 in HB. change (0 =? 0) with true in HB. cbv iota in HB. cbn [app] in HB.
    rewrite HB at 1. rewrite <- !app_assoc.
    rewrite get_i_put by (try lia; apply in_signed_1; lia). change (0 =? 0) with true. cbv iota.
    rewrite get_i_put by (try lia; apply in_signed_1; lia).
    rewrite p_nb_enc by exact Hk. rewrite p_nb_enc by exact Hv.
    cbn zeta.
    replace (put_bes 1 0 ++ put_bes 1 (m_attrs m) ++ enc_nbytes (m_key m) ++ enc_nbytes (m_val m) ++ rest)
      with (B ++ rest) by (rewrite HB, <- !app_assoc; reflexivity).
    rewrite Hlen. rewrite (Hts0 H0) in *. exact Hfin.
  - rewrite H1 in HB. change (1 =? 0) with false in HB. cbv iota in HB.
    rewrite HB at 1. rewrite <- !app_assoc.
    rewrite get_i_put by (try lia; apply in_signed_1; lia). change (1 =? 0) with false. cbv iota.
    rewrite get_i_put by (try lia; apply in_signed_1; lia).
    rewrite get_i_put by (try lia; apply in_signed_8, Hts).
    rewrite p_nb_enc by exact Hk. rewrite p_nb_enc by exact Hv.
    cbn zeta.
    replace (put_bes 1 1 ++ put_bes 1 (m_attrs m) ++ put_bes 8 (m_ts m) ++ enc_nbytes (m_key m) ++ enc_nbytes (m_val m) ++ rest)
      with (B ++ rest) by (rewrite HB, <- !app_assoc; reflexivity).
    rewrite Hlen. exact Hfin.
Qed.

Lemma enc_msg_len m : (26 <= length (enc_msg m))%nat.
Proof.
  unfold enc_msg, msg_body. cbn zeta. rewrite !app_length. unfold put_bes. rewrite !put_be_length.
  assert (forall b, (4 <= length (enc_nbytes b))%nat).
  { intros [l|]; unfold enc_nbytes; [rewrite app_length|]; unfold put_bes; rewrite put_be_length; lia. }
  pose proof (H (m_key m)). pose proof (H (m_val m)). lia.
Qed.

(* the inner messages of a wrapper *)
Lemma p_inner_enc ms : forall fuel acc, Forall wf_msg ms ->
  (length (concat (map enc_msg ms)) <= fuel)%nat ->
  p_inner fuel (concat (map enc_msg ms)) acc = Some (Some (rev acc ++ map (rec_of_msg 0) ms)).
Proof.
  induction ms as [|m ms IH]; intros fuel acc H Hf.
  - cbn [map concat]. destruct fuel; cbn [p_inner]; rewrite app_nil_r; reflexivity.
  - apply Forall_cons_iff in H as [Hm Hs]. cbn [map concat] in *.
    pose proof (enc_msg_len m). rewrite app_length in Hf.
    destruct fuel as [|fuel]; [lia|]. cbn [p_inner].
    destruct (enc_msg m ++ concat (map enc_msg ms)) as [|x t] eqn:Hbt.
    { exfalso. apply (f_equal (@length N)) in Hbt. rewrite app_length in Hbt. cbn in Hbt. lia. }
    rewrite <- Hbt. rewrite p_read_message_enc by exact Hm.
    rewrite IH by (try exact Hs; lia). cbn [rev]. rewrite <- app_assoc. f_equal. f_equal. f_equal.
    cbn [app]. f_equal. unfold rec_of_msg, mk_rec. f_equal. lia.
Qed.

Section Codec.
Variable comp decomp : N -> list N -> list N.
Hypothesis decomp_comp : forall c b, decomp c (comp c b) = b.

(* what a broker may return, as far as Client.Fetch is concerned *)
Definition item_ok (it : item) : Prop :=
  match it with
  | IMsg m => wf_msg m /\ plain m = true
  | IWrap magic off attrs ts inner =>
    wf_wrap comp magic off attrs ts inner /\ (codec_of attrs <= 4)%N /\ inner <> [] /\
    (magic = 0 -> off = last_off inner) /\ (off = 0 -> last_off inner = 0)
  | IBatch b => batch_ok comp b
  end.

Definition reader_of_item (it : item) : preader :=
  match it with
  | IBatch b => reader_of b
  | _ => (false, records_of false it)
  end.

Lemma rebase_inner off inner magic : inner <> [] ->
  (magic = 0 -> off = last_off inner) -> (off = 0 -> last_off inner = 0) ->
  rebase off (map (rec_of_msg 0) inner) =
  (if magic =? 0 then map (rec_of_msg 0) inner else map (rec_of_msg (off - last_off inner)) inner).
Proof.
  intros Hne H0 Hz. unfold rebase. rewrite <- map_rev. unfold last_off in *.
  destruct (rev inner) as [|lm t] eqn:Hrev.
  { exfalso. apply Hne. apply (f_equal (@rev msg)) in Hrev. rewrite rev_involutive in Hrev. exact Hrev. }
  cbn [map].
  assert (Hid : forall d, d = 0 -> map (rec_of_msg d) inner = map (rec_of_msg 0) inner) by (intros d ->; reflexivity).
  destruct (Z.eqb_spec off 0) as [E|E].
  - destruct (Z.eqb_spec magic 0); [reflexivity|]. symmetry. apply Hid. rewrite (Hz E). lia.
  - rewrite map_map.
    assert (Hm : map (fun x => mk_rec (off - (o_off (rec_of_msg 0 lm) - o_off (rec_of_msg 0 x))) (o_ts (rec_of_msg 0 x))
                                             (o_key (rec_of_msg 0 x)) (o_val (rec_of_msg 0 x)) (o_hdrs (rec_of_msg 0 x))) inner =
                       map (rec_of_msg (off - m_off lm)) inner).
    { apply map_ext. intros x. unfold rec_of_msg, mk_rec. cbn [o_off o_ts o_key o_val o_hdrs]. f_equal. lia. }
    rewrite Hm. destruct (Z.eqb_spec magic 0) as [Em|Em]; [|reflexivity].
    apply Hid. rewrite (H0 Em). lia.
Qed.

Lemma p_read_item_enc it rest : item_ok it ->
  (if (nth 16 (enc_item comp it ++ rest) 0 <=? 1)%N then p_read_v1 decomp (enc_item comp it ++ rest)
   else if (nth 16 (enc_item comp it ++ rest) 0 =? 2)%N then p_read_v2 decomp (enc_item comp it ++ rest) else PE)
  = PR (Some (reader_of_item it)) rest.
Proof.
  assert (Hnth : forall m, wf_msg m -> (nth 16 (enc_msg m ++ rest) 0 <=? 1)%N = true).
  { intros m (Hmg & _). unfold enc_msg, msg_body. cbn zeta.
    destruct (put_bes_1 (m_magic m) ltac:(lia)) as (x & Hx & Hv). rewrite Hx. rewrite <- !app_assoc. cbn [app].
    rewrite (app_assoc (put_bes 8 (m_off m))).
    match goal with |- context [(put_bes 8 ?o ++ put_bes 4 ?z) ++ put_be 4 ?c ++ x :: ?T] =>
      rewrite (app_assoc (put_bes 8 o ++ put_bes 4 z) (put_be 4 c) (x :: T)) end.
    rewrite nth_app_exact by (rewrite !app_length; unfold put_bes; rewrite !put_be_length; reflexivity).
    destruct Hmg as [H|H]; rewrite H in Hv; cbn in Hv; apply N.leb_le; lia. }
  destruct it as [m|magic off attrs ts inner|b]; cbn [item_ok enc_item reader_of_item].
  - intros [Hm Hp]. rewrite (Hnth m Hm). unfold p_read_v1. rewrite p_read_message_enc by exact Hm.
    unfold plain in Hp. rewrite Hp. unfold records_of, rec_of_msg, mk_rec.
    replace (m_off m + 0) with (m_off m) by lia. reflexivity.
  - intros ((Hm & Hc & Hin & Hpl) & Hc4 & Hne & H0 & Hz). unfold enc_wrap.
    rewrite (Hnth _ Hm). unfold p_read_v1. rewrite p_read_message_enc by exact Hm.
    cbn [m_off m_attrs m_ts m_key m_val].
    destruct (N.eqb_spec (codec_of attrs) 0); [contradiction|].
    unfold codec_known. replace ((1 <=? codec_of attrs)%N && (codec_of attrs <=? 4)%N) with true by lia.
    cbn [negb]. rewrite decomp_comp. rewrite p_inner_enc by (try exact Hin; lia). cbn [rev app].
    rewrite (rebase_inner off inner magic Hne H0 Hz). reflexivity.
  - intros Hb. rewrite nth16_enc_batch. cbn [N.leb N.compare Pos.compare Pos.compare_cont N.eqb Pos.eqb].
    apply p_read_v2_enc; assumption.
Qed.

Lemma enc_item_len it : item_ok it -> (17 <= length (enc_item comp it))%nat.
Proof.
  destruct it as [m|magic off attrs ts inner|b]; cbn [enc_item]; intros _.
  - pose proof (enc_msg_len m). lia.
  - unfold enc_wrap. match goal with |- context [enc_msg ?w] => pose proof (enc_msg_len w) end. lia.
  - pose proof (enc_batch_len comp b). lia.
Qed.

Lemma p_loop_items its : forall fuel acc, Forall item_ok its ->
  (length (enc_items comp its) < fuel)%nat ->
  p_loop decomp fuel (enc_items comp its) acc = PR (rev acc ++ map reader_of_item its, false) [].
Proof.
  unfold enc_items. induction its as [|it its IH]; intros fuel acc H Hf.
  - cbn [map concat]. destruct fuel; cbn [p_loop]; rewrite app_nil_r; reflexivity.
  - apply Forall_cons_iff in H as [Hi Hs]. cbn [map concat] in *.
    pose proof (enc_item_len it Hi) as Hl. rewrite app_length in Hf.
    destruct fuel as [|fuel]; [lia|]. cbn [p_loop].
    destruct (enc_item comp it ++ concat (map (enc_item comp) its)) as [|x t] eqn:Hbt.
    { exfalso. apply (f_equal (@length N)) in Hbt. rewrite app_length in Hbt. cbn in Hbt. lia. }
    rewrite <- Hbt.
    destruct (Nat.ltb_spec (length (enc_item comp it ++ concat (map (enc_item comp) its))) 17) as [H17|_].
    { rewrite app_length in H17. lia. }
    rewrite p_read_item_enc by exact Hi.
    rewrite IH by (try exact Hs; lia). cbn [rev map]. rewrite <- app_assoc. reflexivity.
Qed.

(* Client.Fetch path on any sequence of items (formats 0, 1, wrappers, format 2; every codec):
   exactly the reference's records with absolute offsets, control batches hidden, no error *)
Theorem proto_read_items its :
  Forall item_ok its -> zlen (enc_items comp its) < ZM31 ->
  proto_read decomp (enc_set comp its) = POut (records its) false.
Proof.
  intros H Hsz. unfold proto_read, enc_set.
  set (C := enc_items comp its) in *. pose proof (zlen_nonneg C).
  rewrite get_i_put by (try lia; apply in_signed_4; unfold in_i32, ZM31 in *; lia).
  assert (Hrec : records its = flat_map (fun rd : preader => if fst rd then [] else snd rd) (map reader_of_item its)).
  { unfold records. clear. induction its as [|it its IH]; [reflexivity|].
    cbn [map flat_map]. rewrite IH. f_equal. destruct it as [m|magic off attrs ts inner|b]; cbn [reader_of_item fst snd]; try reflexivity.
    unfold records_of, reader_of. cbn [fst snd]. destruct (is_control (b_attrs b)); reflexivity. }
  destruct (Z.leb_spec (zlen C) 0) as [Hz|Hz].
  - assert (its = []).
    { destruct its as [|it its']; [reflexivity|]. exfalso. apply Forall_cons_iff in H as [Hi _].
      subst C. unfold enc_items in Hz. cbn [map concat] in Hz. rewrite zlen_app in Hz.
      pose proof (enc_item_len it Hi). pose proof (zlen_nonneg (concat (map (enc_item comp) its'))). unfold zlen in *. lia. }
    subst its. reflexivity.
  - replace (Z.to_nat (zlen C)) with (length C) by (unfold zlen; lia). rewrite firstn_all.
    unfold C. rewrite p_loop_items by (try exact H; lia). cbn [rev app].
    destruct its as [|it its']; [exfalso; subst C; cbn in Hz; lia|].
    rewrite Hrec. reflexivity.
Qed.

Lemma p_loop_items_then_bad its base epoch crc tail rest : forall fuel acc, Forall item_ok its ->
  in_i64 base -> 9 + zlen tail < ZM31 -> length crc = 4%nat -> get_be crc 0%N <> w32 (crc32c tail) ->
  (length (enc_items comp its ++ raw_batch base epoch crc tail ++ rest) < fuel)%nat ->
  p_loop decomp fuel (enc_items comp its ++ raw_batch base epoch crc tail ++ rest) acc =
  PR (rev acc ++ map reader_of_item its, true) [].
Proof.
  unfold enc_items. induction its as [|it its IH]; intros fuel acc H Hb Hsz Hc Hne Hf.
  - cbn [map concat app] in *.
    assert (Hl : (21 <= length (raw_batch base epoch crc tail))%nat).
    { unfold raw_batch. rewrite !app_length. unfold put_bes. rewrite !put_be_length. lia. }
    rewrite app_length in Hf.
    destruct fuel as [|fuel]; [lia|]. cbn [p_loop].
    destruct (raw_batch base epoch crc tail ++ rest) as [|x t] eqn:Hbt.
    { exfalso. apply (f_equal (@length N)) in Hbt. rewrite app_length in Hbt. cbn in Hbt. lia. }
    rewrite <- Hbt.
    destruct (Nat.ltb_spec (length (raw_batch base epoch crc tail ++ rest)) 17) as [H17|_].
    { rewrite app_length in H17. lia. }
    rewrite nth16_raw_batch. cbn [N.leb N.compare Pos.compare Pos.compare_cont N.eqb Pos.eqb].
    rewrite (p_read_v2_badcrc comp decomp decomp_comp) by assumption. rewrite app_nil_r. reflexivity.
  - apply Forall_cons_iff in H as [Hi Hs]. cbn [map concat] in *. rewrite <- app_assoc in *.
    pose proof (enc_item_len it Hi) as Hl. rewrite app_length in Hf.
    destruct fuel as [|fuel]; [lia|]. cbn [p_loop].
    destruct (enc_item comp it ++ concat (map (enc_item comp) its) ++ raw_batch base epoch crc tail ++ rest) as [|x t] eqn:Hbt.
    { exfalso. apply (f_equal (@length N)) in Hbt. rewrite app_length in Hbt. cbn in Hbt. lia. }
    rewrite <- Hbt.
    destruct (Nat.ltb_spec (length (enc_item comp it ++ concat (map (enc_item comp) its) ++ raw_batch base epoch crc tail ++ rest)) 17) as [H17|_].
    { rewrite app_length in H17. lia. }
    rewrite p_read_item_enc by exact Hi.
    rewrite IH by (try assumption; lia). cbn [rev map]. rewrite <- app_assoc. reflexivity.
Qed.

(* good items of any format, then a format-2 batch whose checksum does not match, then anything *)
Theorem proto_read_items_crc_mismatch its base epoch crc tail rest :
  Forall item_ok its -> in_i64 base -> 9 + zlen tail < ZM31 -> length crc = 4%nat ->
  get_be crc 0%N <> w32 (crc32c tail) ->
  let content := enc_items comp its ++ raw_batch base epoch crc tail ++ rest in
  zlen content < ZM31 ->
  proto_read decomp (put_bes 4 (zlen content) ++ content) =
  POut (records its) (match its with [] => true | _ => false end).
Proof.
  intros H Hb Hsz Hc Hne content Hcs. unfold proto_read.
  pose proof (zlen_nonneg content).
  rewrite get_i_put by (try lia; apply in_signed_4; unfold in_i32, ZM31 in *; lia).
  assert (Hpos : 0 < zlen content).
  { unfold content. rewrite !zlen_app. unfold raw_batch. rewrite !zlen_app, !zlen_put_bes.
    pose proof (zlen_nonneg (enc_items comp its)). pose proof (zlen_nonneg rest).
    pose proof (zlen_nonneg crc). pose proof (zlen_nonneg tail). lia. }
  destruct (Z.leb_spec (zlen content) 0); [lia|].
  replace (Z.to_nat (zlen content)) with (length content) by (unfold zlen; lia). rewrite firstn_all.
  unfold content. rewrite p_loop_items_then_bad by (try assumption; fold content; lia). cbn [rev app].
  assert (Hrec : records its = flat_map (fun rd : preader => if fst rd then [] else snd rd) (map reader_of_item its)).
  { unfold records. clear. induction its as [|it its IH]; [reflexivity|].
    cbn [map flat_map]. rewrite IH. f_equal. destruct it as [m|magic off attrs ts inner|b]; cbn [reader_of_item fst snd]; try reflexivity.
    unfold records_of, reader_of. cbn [fst snd]. destruct (is_control (b_attrs b)); reflexivity. }
  destruct its as [|it its']; [reflexivity|]. rewrite Hrec. reflexivity.
Qed.

End Codec.
