(* Proofs/QueriesSpec.v — vocabulary of the C19 statements (definitions only):
   what a faithful broker answers to a split list-offsets request, what the merged
   answer is expected to contain, field-by-field relations for the user-level mappings. *)
From Coq Require Import List NArith ZArith Bool Sorting.Permutation Sorting.Sorted.
From KV Require Import Lib.Bits Model.Queries.
Import ListNotations.
Open Scope Z_scope.

(* ---- Seek ---- *)
(* offsets a broker can hold *)
Definition valid_offsets (f l : Z) : Prop := 0 <= f /\ f <= l /\ l < ZM63.

Definition seek_whence (whence : Z) : Z := Z.ldiff whence SeekDontCheck.
Definition seek_dont (whence : Z) : bool := Z.testbit whence 30.

(* the connection's current position as Conn.Offset reports it — (0, SeekStart) for a
   fresh connection, (0, SeekEnd), or an absolute offset — on a log holding [f, l] *)
Definition current_position (cur f l : Z) : Z :=
  let (o, w) := conn_offset cur in
  if w =? SeekStart then f + o else if w =? SeekEnd then l - o else o.

(* the arithmetic of the property, in unbounded integers *)
Definition seek_target (cur off w f l : Z) : Z :=
  if w =? SeekStart then f + off
  else if w =? SeekEnd then l - off
  else if w =? SeekCurrent then current_position cur f l + off
  else off.

(* SeekDontCheck is honoured for SeekAbsolute, and for SeekCurrent unless the current
   offset is a FirstOffset / LastOffset placeholder that only the broker can resolve *)
Definition seek_unchecked (whence cur : Z) : bool :=
  seek_dont whence &&
  ((seek_whence whence =? SeekAbsolute) || ((seek_whence whence =? SeekCurrent) && negb (is_sentinel cur))).

Definition mk_seek (r : seek_result) (o : Z) (n : N) : seek_out :=
  {| so_res := r; so_offset := o; so_requests := n |}.

Definition seek_is_ok (r : seek_result) : bool := match r with SeekOk _ => true | _ => false end.

(* ---- list offsets: one (topic, partition entry) per sub-request ---- *)
Definition req_entries (r : lo_request) : list (str * req_part) :=
  flat_map (fun t : req_topic => map (pair (fst t)) (snd t)) (q_topics r).

Definition resp_entries (ts : list resp_topic) : list (str * resp_part) :=
  flat_map (fun t : resp_topic => map (pair (fst t)) (snd t)) ts.

Definition sub_request (rep iso : Z) (e : str * req_part) : lo_request :=
  {| q_replica := rep; q_isolation := iso; q_topics := [(fst e, [snd e])] |}.

(* what happens to one sub-request: the leader answers (error code, the timestamp
   field it chose to return, offset, leader epoch, throttle), or the round trip fails *)
Inductive outcome :=
| OAnswer (err ts off epoch throttle : Z)
| OFail (e : Z).

Definition is_answer (o : outcome) : bool := match o with OAnswer _ _ _ _ _ => true | OFail _ => false end.

(* the value handed to Merge for sub-request e *)
Definition result_of (e : str * req_part) (o : outcome) : sub_result :=
  match o with
  | OAnswer err ts off ep th =>
    SubOk {| r_throttle := th;
             r_topics := [(fst e, [{| rp_partition := qp_partition (snd e); rp_error := err;
                                       rp_ts := ts; rp_offset := off; rp_epoch := ep |}])] |}
  | OFail x => SubErr x
  end.

(* the entry the merged answer must carry for sub-request e *)
Definition expected_entry (e : str * req_part) (o : outcome) : str * resp_part :=
  match o with
  | OAnswer err _ off ep _ =>
    (fst e, {| rp_partition := qp_partition (snd e); rp_error := err;
               rp_ts := qp_ts (snd e);       (* the REQUESTED timestamp *)
               rp_offset := off; rp_epoch := ep |})
  | OFail _ => (fst e, fail_part (snd e))
  end.

Definition results_of (es : list (str * req_part)) (outs : list outcome) : list sub_result :=
  map (fun eo => result_of (fst eo) (snd eo)) (combine es outs).

Definition expected_entries (es : list (str * req_part)) (outs : list outcome) : list (str * resp_part) :=
  map (fun eo => expected_entry (fst eo) (snd eo)) (combine es outs).

Definition max_throttle (outs : list outcome) : Z :=
  fold_left (fun m o => match o with OAnswer _ _ _ _ th => Z.max m th | OFail _ => m end) outs 0.

Definition first_error (outs : list outcome) : Z :=
  match outs with OFail e :: _ => e | _ => 0 end.

(* replace the i-th element *)
Fixpoint set_nth {A} (i : nat) (x : A) (l : list A) {struct l} : list A :=
  match l, i with
  | [], _ => []
  | _ :: r, O => x :: r
  | y :: r, S j => y :: set_nth j x r
  end.

(* the merged topics are strictly ascending by name, each topic's partitions by
   (partition, offset) *)
Definition str_lt (a b : str) : Prop := str_ltb a b = true.
Definition part_sorted (l : list resp_part) : Prop := Sorted (fun a b => part_le a b = true) l.
Definition merged_sorted (ts : list resp_topic) : Prop :=
  StronglySorted str_lt (map fst ts) /\ Forall (fun t : resp_topic => part_sorted (snd t)) ts.

(* ---- mappings: field-by-field relations ---- *)
Definition of_part_same (a : of_api_part) (p : of_resp_part) : Prop :=
  oa_partition a = ofp_partition p /\ oa_offset a = ofp_offset p /\
  oa_metadata a = ofp_metadata p /\ oa_error a = ofp_error p.

Definition broker_same (b : broker) (m : md_broker) : Prop :=
  b_id b = mb_node m /\ b_host b = mb_host m /\ b_port b = mb_port m /\ b_rack b = mb_rack m.

(* the broker registered under id in the response (the last one when the id is
   listed twice), as Client.Metadata reports it: the zero Broker when unknown *)
Definition find_broker (bs : list md_broker) (id : Z) : option md_broker :=
  find (fun b => mb_node b =? id) (rev bs).

Definition client_broker (bs : list md_broker) (id : Z) : broker :=
  match find_broker bs id with Some m => mk_broker m | None => zero_broker end.

(* as Conn.ReadPartitions reports replicas: a placeholder carrying the id when unknown *)
Definition conn_broker (bs : list md_broker) (id : Z) : broker :=
  match find_broker bs id with
  | Some m => mk_broker m
  | None => {| b_host := []; b_port := 0; b_id := id; b_rack := [] |}
  end.

Definition md_part_same (bs : list md_broker) (tname : str) (a : partition) (p : md_part) : Prop :=
  pt_topic a = tname /\ pt_id a = mp_index p /\ pt_error a = mp_error p /\
  pt_leader a = client_broker bs (mp_leader p) /\
  pt_replicas a = map (client_broker bs) (mp_replicas p) /\
  pt_isr a = map (client_broker bs) (mp_isr p).

Definition md_topic_same (bs : list md_broker) (a : api_topic) (t : md_topic) : Prop :=
  at_name a = mt_name t /\ at_internal a = mt_internal t /\ at_error a = mt_error t /\
  Forall2 (md_part_same bs (mt_name t)) (at_parts a) (mt_parts t).

(* ReadPartitions *)
Definition rp_topic_fails (conn_topic : str) (t : md_topic) : bool :=
  negb (mt_error t =? 0) && (str_eqb conn_topic [] || str_eqb (mt_name t) conn_topic).

Definition rp_part (v6 : bool) (bs : list md_broker) (tname : str) (p : md_part) : partition :=
  {| pt_topic := tname; pt_id := mp_index p;
     pt_leader := client_broker bs (mp_leader p);
     pt_replicas := map (conn_broker bs) (mp_replicas p);
     pt_isr := map (conn_broker bs) (mp_isr p);
     pt_offline := if v6 then map (conn_broker bs) (mp_offline p) else [];
     pt_error := mp_error p |}.

(* ---- Client.ListOffsets: what is reported for one (topic, partition) ---- *)
(* the entries of the merged protocol answer that concern key k, in order *)
Definition entries_for (ts : list resp_topic) (k : str * Z) : list resp_part :=
  flat_map (fun t : resp_topic =>
              if str_eqb (fst t) (fst k) then filter (fun p => rp_partition p =? snd k) (snd t) else []) ts.

(* the timestamps the caller asked for key k, in order *)
Definition requested_ts (u : lo_user_request) (k : str * Z) : list Z :=
  flat_map (fun t : str * list (Z * Z) =>
              if str_eqb (fst t) (fst k) then map snd (filter (fun r : Z * Z => fst r =? snd k) (snd t)) else []) u.

Fixpoint po_apply_all (po : part_offsets) (ps : list resp_part) {struct ps} : option part_offsets :=
  match ps with
  | [] => Some po
  | p :: r => match po_apply po p with None => None | Some po' => po_apply_all po' r end
  end.

Definition po_start (u : lo_user_request) (k : str * Z) : part_offsets :=
  match tpmap_get (lo_prepare u) k with Some po => po | None => po_zero end.

(* ---- ReadPartitions: which topics are asked for ---- *)
(* the topics the caller names: a call without argument, a nil slice and an empty
   non-nil slice all name none *)
Definition arg_topics (arg : option (list str)) : list str :=
  match arg with None => [] | Some l => l end.

(* the topics the call is about: the caller's, else the connection's, else all (None) *)
Definition topics_asked (conn_topic : str) (arg : option (list str)) : option (list str) :=
  match arg_topics arg, conn_topic with
  | [], [] => None
  | [], _ => Some [conn_topic]
  | l, _ => Some l
  end.

(* the cluster's metadata for the topics asked *)
Definition topics_of_cluster (cluster : md_response) (asked : option (list str)) : list md_topic :=
  match asked with
  | None => md_topics cluster
  | Some names => map (cluster_topic (md_topics cluster)) (str_nodup [] names)
  end.

(* ---- the Transport's split round trip ---- *)
(* what happens to the sub-request for entry e, as a function of the entry (its leader
   answers, or the round trip to that leader fails) *)
Definition send_of (outcome_of : str * req_part -> outcome) (q : lo_request) : sub_result :=
  match q_topics q with
  | [(t, [p])] => result_of (t, p) (outcome_of (t, p))
  | _ => SubErr 0
  end.
