(* Proofs/SchemaTotal.v — for EVERY byte string: decoding never panics and never runs
   out of fuel; a successful decode consumed bytes of the input, at least min_size of
   them, and exactly what it subtracted from the frame's remaining size. *)
From Coq Require Import List NArith ZArith Bool Lia.
From Coq Require Import ZifyN ZifyNat ZifyBool.
From KV Require Import Lib.Bits Lib.Bytes Lib.Varint Model.Schema
  Proofs.SchemaBase Proofs.SchemaDefs Proofs.SchemaPrims Proofs.SchemaEqns.
Import ListNotations.

(* s' is s after consuming k >= m bytes *)
Definition consumes (m : nat) (s s' : dstate) : Prop :=
  exists k, (m <= k <= length (d_in s))%nat /\
    d_in s' = skipn k (d_in s) /\ d_remain s' = (d_remain s - Z.of_nat k)%Z /\
    ((0 <= d_remain s)%Z -> (0 <= d_remain s')%Z) /\ (d_alloc s <= d_alloc s')%N.

Definition good {A} (m : nat) (s : dstate) (r : res A) : Prop :=
  match r with
  | Ok _ s' => consumes m s s'
  | Err _ _ _ => True
  | Oom => True
  | Panic => False
  | OutOfFuel => False
  end.

Lemma consumes_refl s : consumes 0 s s.
Proof. exists 0%nat. cbn [skipn]. repeat split; try lia. Qed.

Lemma skipn_skipn' {A} (a b : nat) (l : list A) : skipn a (skipn b l) = skipn (b + a) l.
Proof.
  revert l. induction b as [|b IH]; intros l; [reflexivity|].
  destruct l as [|x l]; [rewrite !skipn_nil; reflexivity|]. cbn [skipn Nat.add]. apply IH.
Qed.

Lemma consumes_trans m1 m2 s1 s2 s3 : consumes m1 s1 s2 -> consumes m2 s2 s3 -> consumes (m1 + m2) s1 s3.
Proof.
  intros [k1 [Hk1 [Hi1 [Hr1 [Hp1 Ha1]]]]] [k2 [Hk2 [Hi2 [Hr2 [Hp2 Ha2]]]]].
  exists (k1 + k2)%nat. rewrite Hi1 in *. rewrite skipn_length in Hk2.
  repeat split; try lia.
  - rewrite Hi2. rewrite skipn_skipn'. reflexivity.
Qed.

Lemma consumes_weaken m m' s s' : (m' <= m)%nat -> consumes m s s' -> consumes m' s s'.
Proof. intros H [k [Hk R]]. exists k. split; [lia|exact R]. Qed.

Lemma good_bind {A B} m1 m2 s (r : res A) (f : A -> dstate -> res B) :
  good m1 s r -> (forall a s', consumes m1 s s' -> good m2 s' (f a s')) ->
  good (m1 + m2) s (bind r f).
Proof.
  destruct r as [a s'| | | |]; cbn [good bind]; intros H Hf; try exact H; try exact I.
  specialize (Hf a s' H). destruct (f a s') as [b s''| | | |]; cbn [good] in *; try exact Hf; try exact I.
  eapply consumes_trans; eassumption.
Qed.

Lemma good_weaken {A} m m' s (r : res A) : (m' <= m)%nat -> good m s r -> good m' s r.
Proof. intros H. destruct r; cbn [good]; try tauto. apply consumes_weaken. exact H. Qed.

(* ---- primitives ---- *)
Lemma read_z_good k s : (0 <= k)%Z -> good (Z.to_nat k) s (read_z k s).
Proof.
  intros Hk. unfold read_z.
  destruct (Z.leb_spec k 0).
  - cbn [good]. replace (Z.to_nat k) with 0%nat by lia. apply consumes_refl.
  - destruct (Z.leb_spec (d_remain s) 0); [exact I|].
    destruct (Z.ltb_spec (Z.of_nat (length (d_in s))) (Z.min k (d_remain s))); [exact I|].
    destruct (Z.ltb_spec (Z.min k (d_remain s)) k); [exact I|].
    cbn [good]. exists (Z.to_nat k). cbn [d_in d_remain d_alloc].
    repeat split; try lia.
Qed.

Lemma read_n_good k s : good k s (read_n k s).
Proof. unfold read_n. rewrite <- (Nat2Z.id k) at 1. apply read_z_good. lia. Qed.

Lemma read_int_good w s : good w s (read_int w s).
Proof.
  unfold read_int. replace w with (w + 0)%nat at 1 by lia.
  apply good_bind; [apply read_n_good|]. intros bs s' _. cbn [good]. apply consumes_refl.
Qed.

Lemma fail_good {A} m e s : good m s (@fail A e s).
Proof. exact I. Qed.

Lemma uvarint_loop_good n : forall x sh s, good 1 s (uvarint_loop n x sh s).
Proof.
  induction n as [|n IH]; intros x sh s; cbn [uvarint_loop]; [exact I|].
  pose proof (read_n_good 1 s) as H1.
  destruct (read_n 1 s) as [bs s'| | | |]; cbn [bind good] in *; try exact H1; try exact I.
  destruct (N.ltb_spec (match bs with [b] => b | _ => 0%N end) 128).
  - cbn [good]. exact H1.
  - specialize (IH (N.lor x (((match bs with [b] => b | _ => 0%N end) mod 128 * 2 ^ sh) mod M64)) (sh + 7)%N s').
    destruct (uvarint_loop n _ _ s') as [v s''| | | |]; cbn [good] in *; try exact IH; try exact I.
    apply (consumes_weaken (1 + 1) 1); [lia|]. eapply consumes_trans; eassumption.
Qed.

Lemma read_uvarint_good s : good 1 s (read_uvarint s).
Proof. unfold read_uvarint. apply uvarint_loop_good. Qed.

Section Total.
Variable c : cfg.
Variable flex : bool.

(* remain below 2^31 (the frame size is an int32) is what keeps make() in range *)
Definition small (s : dstate) : Prop := (d_remain s < ZM31)%Z.

Lemma consumes_small m s s' : consumes m s s' -> small s -> small s'.
Proof. intros [k [_ [_ [Hr _]]]]. unfold small. lia. Qed.

Lemma alloc_good n esize s :
  (0 <= n)%Z -> (n <= d_remain s)%Z -> small s -> (esize <= 65536)%N -> good 0 s (alloc c n esize s).
Proof.
  intros Hn Hle Hs He. unfold alloc, small, ZM31 in *.
  destruct (Z.ltb_spec n 0); [lia|].
  destruct (N.ltb_spec max_alloc (Z.to_N n * esize)); [unfold max_alloc in *; nia|].
  destruct (N.ltb (budget c) (d_alloc s + Z.to_N n * esize)); [exact I|].
  cbn [good]. exists 0%nat. cbn [d_in d_remain d_alloc skipn]. repeat split; lia.
Qed.

Lemma read_alloc_good n s : small s -> good (Z.to_nat n) s (read_alloc c n s).
Proof.
  intros Hs. unfold read_alloc.
  destruct (Z.ltb_spec n 0); [exact I|].
  destruct (Z.ltb_spec (d_remain s) n); [exact I|]. cbn [orb].
  replace (Z.to_nat n) with (0 + Z.to_nat n)%nat by lia.
  apply good_bind; [apply alloc_good; try assumption; lia|].
  intros _ s' Hc. apply read_z_good. lia.
Qed.

Lemma read_alloc_good0 n s : small s -> good 0 s (read_alloc c n s).
Proof. intros Hs. eapply good_weaken; [|apply read_alloc_good; exact Hs]. lia. Qed.

(* ---- loops ---- *)
Lemma elems_loop_good (dec : dstate -> res value) :
  (forall s, small s -> good 1 s (dec s)) ->
  forall fuel n s, small s -> (length (d_in s) + 1 <= length fuel)%nat ->
    good 0 s (elems_loop dec fuel n s).
Proof.
  intros Hdec. induction fuel as [|f0 fuel IH]; intros n s Hs Hf; [cbn [length] in Hf; lia|].
  cbn [elems_loop].
  destruct (N.eqb n 0); [cbn [good]; apply consumes_refl|].
  destruct (Z.leb (d_remain s) 0); [cbn [good]; apply consumes_refl|].
  specialize (Hdec s Hs).
  destruct (dec s) as [v s'| | | |]; cbn [good] in *; try exact Hdec; try exact I.
  assert (Hf' : (length (d_in s') + 1 <= length fuel)%nat).
  { destruct Hdec as [k [Hk [Hi _]]]. rewrite Hi, skipn_length. cbn [length] in Hf. lia. }
  specialize (IH (n - 1)%N s' (consumes_small _ _ _ Hdec Hs) Hf').
  destruct (elems_loop dec fuel (n - 1) s') as [r s''| | | |]; cbn [bind good] in *; try exact IH; try exact I.
  apply (consumes_weaken (1 + 0) 0); [lia|]. eapply consumes_trans; eassumption.
Qed.

Lemma skip_step_good s : small s -> good 2 s (skip_header_tags_step c s).
Proof.
  intros Hs. unfold skip_header_tags_step.
  replace 2%nat with (1 + (1 + (0 + 0)))%nat by lia.
  apply good_bind; [apply read_uvarint_good|]. intros _ s1 H1.
  apply good_bind; [apply read_uvarint_good|]. intros size s2 H2.
  apply good_bind; [apply read_alloc_good0; eapply consumes_small; [exact H2|eapply consumes_small; eassumption]|].
  intros _ s3 _. cbn [good]. apply consumes_refl.
Qed.

Lemma header_tags_good : forall fuel n s, small s -> (length (d_in s) + 1 <= length fuel)%nat ->
  good 0 s (header_tags c fuel n s).
Proof.
  induction fuel as [|f0 fuel IH]; intros n s Hs Hf; [cbn [length] in Hf; lia|].
  cbn [header_tags].
  destruct (Z.leb n 0); [cbn [good]; apply consumes_refl|].
  pose proof (skip_step_good s Hs) as Hstep.
  destruct (skip_header_tags_step c s) as [u s'| | | |]; cbn [good] in *; try exact Hstep; try exact I.
  assert (Hf' : (length (d_in s') + 1 <= length fuel)%nat).
  { destruct Hstep as [k [Hk [Hi _]]]. rewrite Hi, skipn_length. cbn [length] in Hf. lia. }
  specialize (IH (n - 1)%Z s' (consumes_small _ _ _ Hstep Hs) Hf').
  destruct (header_tags c fuel (n - 1) s') as [r s''| | | |]; cbn [good] in *; try exact IH; try exact I.
  apply (consumes_weaken (2 + 0) 0); [lia|]. eapply consumes_trans; eassumption.
Qed.

Lemma marker_loop_good : forall fuel n s, small s -> (length (d_in s) + 1 <= length fuel)%nat ->
  good 0 s (marker_loop c fuel n s).
Proof.
  induction fuel as [|f0 fuel IH]; intros n s Hs Hf; [cbn [length] in Hf; lia|].
  cbn [marker_loop].
  destruct (Z.leb n 0); [cbn [good]; apply consumes_refl|].
  pose proof (skip_step_good s Hs) as Hstep.
  destruct (skip_header_tags_step c s) as [u s'| | | |]; cbn [good] in *; try exact Hstep; try exact I.
  assert (Hf' : (length (d_in s') + 1 <= length fuel)%nat).
  { destruct Hstep as [k [Hk [Hi _]]]. rewrite Hi, skipn_length. cbn [length] in Hf. lia. }
  specialize (IH (n - 1)%Z s' (consumes_small _ _ _ Hstep Hs) Hf').
  destruct (marker_loop c fuel (n - 1) s') as [r s''| | | |]; cbn [good] in *; try exact IH; try exact I.
  apply (consumes_weaken (2 + 0) 0); [lia|]. eapply consumes_trans; eassumption.
Qed.

Lemma dec_tag_from_in (D : ty -> dstate -> res value) id s : forall l i j r,
  dec_tag_from D id s l i = Some (j, r) -> exists p, In p l /\ r = D (snd p) s.
Proof.
  induction l as [|[k ft] l IH]; intros i j r H; cbn [dec_tag_from] in H; [discriminate|].
  destruct (dec_tag_from D id s l (S i)) as [[j' r']|] eqn:E.
  - injection H as <- <-. destruct (IH _ _ _ E) as [p [Hp Hr]]. exists p. split; [right; exact Hp|exact Hr].
  - destruct (Z.eqb k id); [|discriminate]. injection H as <- <-.
    exists (k, ft). split; [left; reflexivity|reflexivity].
Qed.

Lemma tag_loop_good (D : ty -> dstate -> res value) tagged fs :
  Forall (fun p => forall s, small s -> good 0 s (D (snd p) s)) tagged ->
  forall fuel n ts s, small s -> (length (d_in s) + 1 <= length fuel)%nat ->
    good 0 s (tag_loop c D tagged fs fuel n ts s).
Proof.
  intros HD. induction fuel as [|f0 fuel IH]; intros n ts s Hs Hf; [cbn [length] in Hf; lia|].
  cbn [tag_loop].
  destruct (Z.leb n 0); [cbn [good]; apply consumes_refl|].
  set (step := bind (read_uvarint s) _).
  assert (Hstep : good 2 s step).
  { unfold step. replace 2%nat with (1 + (1 + 0))%nat by lia.
    apply good_bind; [apply read_uvarint_good|]. intros tagid s1 H1.
    apply good_bind; [apply read_uvarint_good|]. intros size s2 H2.
    assert (Hs2 : small s2) by (eapply consumes_small; [exact H2|eapply consumes_small; eassumption]).
    destruct (dec_tag_from D (int_of_u64 tagid) s2 tagged 0) as [[i r]|] eqn:E.
    - destruct (dec_tag_from_in D _ _ _ _ _ _ E) as [p [Hp ->]].
      rewrite Forall_forall in HD. specialize (HD p Hp s2 Hs2).
      replace 0%nat with (0 + 0)%nat by lia. apply good_bind; [exact HD|].
      intros v s3 _. cbn [good]. apply consumes_refl.
    - replace 0%nat with (0 + 0)%nat by lia. apply good_bind; [apply read_alloc_good0; exact Hs2|].
      intros v s3 _. cbn [good]. apply consumes_refl. }
  destruct step as [ts' s'| | | |]; cbn [good] in *; try exact Hstep; try exact I.
  assert (Hf' : (length (d_in s') + 1 <= length fuel)%nat).
  { destruct Hstep as [k [Hk [Hi _]]]. rewrite Hi, skipn_length. cbn [length] in Hf. lia. }
  specialize (IH (n - 1)%Z ts' s' (consumes_small _ _ _ Hstep Hs) Hf').
  destruct (tag_loop c D tagged fs fuel (n - 1) ts' s') as [r s''| | | |]; cbn [good] in *; try exact IH; try exact I.
  apply (consumes_weaken (2 + 0) 0); [lia|]. eapply consumes_trans; eassumption.
Qed.

Lemma dec_fields_good (D : ty -> dstate -> res value) : forall fields,
  Forall (fun t => forall s, small s -> good (N.to_nat (min_size flex t)) s (D t s)) fields ->
  forall s, small s -> good (N.to_nat (min_fields flex fields)) s (dec_fields D fields s).
Proof.
  induction fields as [|ft tr IH]; intros HF s Hs.
  - cbn [dec_fields min_fields good]. apply consumes_refl.
  - apply Forall_cons_iff in HF as [Hx HF]. cbn [dec_fields min_fields].
    replace (N.to_nat (min_size flex ft + min_fields flex tr))
      with (N.to_nat (min_size flex ft) + (N.to_nat (min_fields flex tr) + 0))%nat by lia.
    apply good_bind; [apply Hx; exact Hs|]. intros v s1 H1.
    apply good_bind; [apply IH; [exact HF|eapply consumes_small; eassumption]|].
    intros vs s2 _. cbn [good]. apply consumes_refl.
Qed.

Theorem decode_good : forall t, schema_ok flex t = true ->
  forall s, small s -> good (N.to_nat (min_size flex t)) s (decode c flex t s).
Proof.
  induction t as [| w | | n | n | n e t IH | fields tagged IHf IHt | | r] using ty_ind'; intros Hok s Hs.
  - cbn [decode min_size]. replace (N.to_nat 1) with (1 + 0)%nat by lia.
    apply good_bind; [apply read_n_good|]. intros bs s1 _. cbn [good]. apply consumes_refl.
  - cbn [decode min_size]. rewrite Nat2N.id. replace w with (w + 0)%nat at 1 by lia.
    apply good_bind; [apply read_int_good|]. intros z s1 _. cbn [good]. apply consumes_refl.
  - cbn [decode min_size]. replace (N.to_nat 8) with (8 + 0)%nat by lia.
    apply good_bind; [apply read_n_good|]. intros bs s1 _. cbn [good]. apply consumes_refl.
  - cbn [decode min_size]. destruct flex.
    + replace (N.to_nat 1) with (1 + 0)%nat by lia.
      apply good_bind; [apply read_uvarint_good|]. intros x s1 Hc1.
      destruct (N.ltb x 1); [cbn [good]; apply consumes_refl|].
      replace 0%nat with (0 + 0)%nat by lia.
      apply good_bind; [apply read_alloc_good0; eapply consumes_small; eassumption|].
      intros bs s2 _. cbn [good]. apply consumes_refl.
    + replace (N.to_nat 2) with (2 + 0)%nat by lia.
      apply good_bind; [apply read_int_good|]. intros x s1 Hc1.
      destruct (Z.ltb x 0); [cbn [good]; apply consumes_refl|].
      replace 0%nat with (0 + 0)%nat by lia.
      apply good_bind; [apply read_alloc_good0; eapply consumes_small; eassumption|].
      intros bs s2 _. cbn [good]. apply consumes_refl.
  - cbn [decode min_size]. destruct flex.
    + replace (N.to_nat 1) with (1 + 0)%nat by lia.
      apply good_bind; [apply read_uvarint_good|]. intros x s1 Hc1.
      destruct (N.ltb x 1); [cbn [good]; apply consumes_refl|].
      replace 0%nat with (0 + 0)%nat by lia.
      apply good_bind; [apply read_alloc_good0; eapply consumes_small; eassumption|].
      intros bs s2 _. cbn [good]. apply consumes_refl.
    + replace (N.to_nat 4) with (4 + 0)%nat by lia.
      apply good_bind; [apply read_int_good|]. intros x s1 Hc1.
      destruct (Z.ltb x 0); [cbn [good]; apply consumes_refl|].
      replace 0%nat with (0 + 0)%nat by lia.
      apply good_bind; [apply read_alloc_good0; eapply consumes_small; eassumption|].
      intros bs s2 _. cbn [good]. apply consumes_refl.
  - (* arrays *)
    cbn [schema_ok] in Hok. repeat (apply andb_true_iff in Hok as [Hok ?]).
    assert (Helem : forall s, small s -> good 1 s (decode c flex t s)).
    { intros s0 Hs0. eapply good_weaken; [|apply IH; assumption]. lia. }
    assert (Hbody : forall nn s0, small s0 -> (0 <= nn)%Z -> (nn <= d_remain s0)%Z ->
              good 0 s0 (bind (alloc c nn e s0) (fun _ s1 =>
                          bind (elems_loop (decode c flex t) (0%N :: d_in s1) (Z.to_N nn) s1)
                            (fun r s2 => Ok (VArray (Some (fst r)) (snd r)) s2)))).
    { intros nn s0 Hs0 Hn0 Hn1.
      replace 0%nat with (0 + (0 + 0))%nat by lia.
      apply good_bind; [apply alloc_good; try assumption; lia|]. intros _ s1 Hc1.
      apply good_bind; [apply elems_loop_good; [exact Helem|eapply consumes_small; eassumption|cbn [length]; lia]|].
      intros r s2 _. cbn [good]. apply consumes_refl. }
    rewrite decode_array_eq. cbv zeta. cbn [min_size]. destruct flex.
    + replace (N.to_nat 1) with (1 + 0)%nat by lia.
      apply good_bind; [apply read_uvarint_good|]. intros x s1 Hc1.
      destruct (N.ltb x 1); [cbn [good]; apply consumes_refl|].
      destruct (Z.ltb_spec (d_remain s1) 0); [exact I|].
      destruct (Z.ltb_spec (d_remain s1) (Z.of_N (x - 1))); [exact I|]. cbn [orb].
      apply Hbody; [eapply consumes_small; eassumption|lia|lia].
    + replace (N.to_nat 4) with (4 + 0)%nat by lia.
      apply good_bind; [apply read_int_good|]. intros x s1 Hc1.
      destruct (Z.ltb_spec x 0); [cbn [good]; apply consumes_refl|].
      destruct (Z.ltb_spec (d_remain s1) x); [exact I|].
      apply Hbody; [eapply consumes_small; eassumption|lia|lia].
  - (* structs *)
    rewrite schema_ok_struct_eq in Hok. repeat (apply andb_true_iff in Hok as [Hok ?]).
    rewrite decode_struct_eq, min_size_struct_eq.
    assert (HF : Forall (fun t0 => forall s0, small s0 -> good (N.to_nat (min_size flex t0)) s0 (decode c flex t0 s0)) fields).
    { clear - Hok IHf. induction IHf as [|x r Hx _ IHr]; [constructor|].
      cbn [ok_fields] in Hok. apply andb_true_iff in Hok as [Hok Hr]. apply andb_true_iff in Hok as [_ Hsx].
      constructor; [intros s0 Hs0; apply Hx; assumption|apply IHr; exact Hr]. }
    assert (HT : Forall (fun p => forall s0, small s0 -> good 0 s0 (decode c flex (snd p) s0)) tagged).
    { match goal with H : ok_tags flex tagged = true |- _ => rename H into Htags end.
      clear - Htags IHt. induction IHt as [|[i x] r Hx _ IHr]; [constructor|].
      cbn [ok_tags] in Htags. apply andb_true_iff in Htags as [Htags Hr]. apply andb_true_iff in Htags as [_ Hsx].
      constructor; [|apply IHr; exact Hr].
      cbn [snd] in *. intros s0 Hs0. eapply good_weaken; [|apply Hx; assumption]. lia. }
    replace (N.to_nat (min_fields flex fields + (if flex then 1 else 0)))
      with (N.to_nat (min_fields flex fields) + (if flex then 1 else 0))%nat by (destruct flex; lia).
    apply good_bind; [apply dec_fields_good; assumption|]. intros fs s1 Hc1.
    destruct flex; cbn [negb].
    + replace 1%nat with (1 + 0)%nat by lia.
      apply good_bind; [apply read_uvarint_good|]. intros cnt s2 Hc2.
      apply tag_loop_good; [exact HT| |cbn [length]; lia].
      eapply consumes_small; [exact Hc2|eapply consumes_small; eassumption].
    + cbn [good]. apply consumes_refl.
  - rewrite decode_marker_eq. cbn [min_size]. destruct flex; cbn [negb].
    + replace (N.to_nat 1) with (1 + 0)%nat by lia.
      apply good_bind; [apply read_uvarint_good|]. intros cnt s1 Hc1.
      apply marker_loop_good; [eapply consumes_small; eassumption|cbn [length]; lia].
    + cbn [good]. apply consumes_refl.
  - cbn [decode min_size]. replace (N.to_nat 4) with (4 + 0)%nat by lia.
    apply good_bind; [apply read_int_good|]. intros x s1 Hc1.
    destruct (Z.ltb x 0); [cbn [good]; apply consumes_refl|].
    replace 0%nat with (0 + 0)%nat by lia.
    apply good_bind; [apply read_alloc_good0; eapply consumes_small; eassumption|].
    intros bs s2 _. cbn [good]. apply consumes_refl.
Qed.
End Total.

(* ---- whole responses ---- *)
Lemma Forall_firstn' {A} (P : A -> Prop) n : forall l, Forall P l -> Forall P (firstn n l).
Proof.
  induction n as [|n IH]; intros l H; [constructor|].
  destruct l as [|x l]; [constructor|]. apply Forall_cons_iff in H as [Hx Hl].
  cbn [firstn]. constructor; [exact Hx|apply IH; exact Hl].
Qed.

Lemma get_bes4_range bs : bytes_ok bs -> length bs = 4%nat -> (- ZM31 <= get_bes 4 bs < ZM31)%Z.
Proof.
  intros Hok Hl. unfold get_bes. pose proof (get_be_lt bs Hok 0) as Hlt. rewrite Hl in Hlt.
  change (pow256 4) with 4294967296%N in *. change (4294967296 / 2)%N with 2147483648%N. unfold ZM31.
  destruct (N.ltb_spec (get_be bs 0) 2147483648); lia.
Qed.

Theorem read_response_total c flex t input :
  schema_ok flex t = true -> bytes_ok input ->
  match read_response c flex t input with
  | Ok _ s' =>
      exists size, (4 <= length input)%nat /\ size = get_bes 4 (firstn 4 input) /\ (4 <= size)%Z /\
        (4 + size <= Z.of_nat (length input))%Z /\
        d_in s' = skipn (4 + Z.to_nat size) input /\ d_remain s' = 0%Z
  | Err _ _ _ => True
  | Oom => True
  | Panic => False
  | OutOfFuel => False
  end.
Proof.
  intros Hok Hbytes. unfold read_response.
  (* the size prefix *)
  unfold read_int at 1. unfold read_n, read_z. cbn [d_remain d_in d_alloc].
  change (Z.of_nat 4 <=? 0)%Z with false. change (4 <=? 0)%Z with false. cbv iota.
  change (Z.min (Z.of_nat 4) 4) with 4%Z.
  destruct (Z.ltb_spec (Z.of_nat (length input)) 4) as [Hshort|Hlen]; [exact I|].
  change (4 <? Z.of_nat 4)%Z with false. cbv iota. cbn [bind d_in d_alloc].
  change (Z.to_nat (Z.of_nat 4)) with 4%nat.
  set (size := get_bes 4 (firstn 4 input)).
  assert (Hsize : (- ZM31 <= size < ZM31)%Z).
  { apply get_bes4_range; [apply Forall_firstn'; exact Hbytes|rewrite firstn_length; lia]. }
  set (s1 := {| d_in := skipn 4 input; d_remain := size; d_alloc := 0 |}).
  assert (Hs1 : small s1) by (unfold small, s1; cbn; lia).
  (* everything before the final discardAll *)
  set (A := bind (read_int 4 s1) (fun corr s =>
              bind (if flex
                    then bind (read_uvarint s) (fun cnt s0 => header_tags c (0%N :: 0%N :: d_in s0) (int_of_u64 cnt) s0)
                    else Ok tt s) (fun _ s0 => bind (decode c flex t s0) (fun v s2 => Ok (corr, v) s2)))).
  assert (HA : good 4 s1 A).
  { unfold A. replace 4%nat with (4 + (0 + (0 + 0)))%nat by lia.
    apply good_bind; [apply read_int_good|]. intros corr s2 H2.
    assert (Hs2 : small s2) by (eapply consumes_small; eassumption).
    apply good_bind.
    - destruct flex; [|cbn [good]; apply consumes_refl].
      replace 0%nat with (0 + 0)%nat by lia. eapply good_weaken with (m := (1 + 0)%nat); [lia|].
      apply good_bind; [apply read_uvarint_good|]. intros cnt s3 H3.
      apply header_tags_good; [eapply consumes_small; eassumption|cbn [length]; lia].
    - intros _ s3 H3. apply good_bind.
      + eapply good_weaken; [|apply decode_good; [exact Hok|eapply consumes_small; eassumption]]. lia.
      + intros v s4 _. cbn [good]. apply consumes_refl. }
  (* the expression of read_response is A followed by discard_all *)
  match goal with
  | |- context [bind (read_int 4 s1) ?f] =>
      assert (Hshape : bind (read_int 4 s1) f
                       = bind A (fun r s2 => bind (discard_all s2) (fun _ s3 => Ok r s3)))
  end.
  { unfold A. destruct (read_int 4 s1) as [corr s2| | | |]; cbn [bind]; try reflexivity.
    destruct (if flex then _ else _) as [u s3| | | |]; cbn [bind]; try reflexivity.
    destruct (decode c flex t s3) as [v s4| | | |]; cbn [bind]; reflexivity. }
  rewrite Hshape. clear Hshape.
  (* a non-positive size makes the correlation id read fail *)
  destruct (Z.leb_spec size 0) as [Hneg|Hpos].
  { assert (HAerr : exists e ra al, A = Err e ra al).
    { unfold A, read_int, read_n, read_z, s1. cbn [d_remain d_in d_alloc].
      change (Z.of_nat 4 <=? 0)%Z with false. cbv iota.
      destruct (Z.leb_spec size 0); [|lia]. cbn [bind]. eauto. }
    destruct HAerr as [e [ra [al ->]]]. exact I. }
  destruct A as [r sA| | | |]; cbn [good bind] in *; try exact HA; try exact I.
  destruct HA as [k [Hk [Hi [Hr [Hnn Ha]]]]]. cbn [d_in d_remain] in *. unfold s1 in Hi, Hr, Hnn, Hk. cbn [d_in d_remain] in *.
  rewrite skipn_length in Hk.
  specialize (Hnn ltac:(lia)).
  unfold discard_all.
  destruct (Z.leb_spec (d_remain sA) 0) as [Hz|Hrem]; cbn [bind].
  - exists size. repeat split; try lia.
    + rewrite Hi. rewrite skipn_skipn'. f_equal. lia.
  - destruct (Z.ltb_spec (Z.of_nat (length (d_in sA))) (d_remain sA)) as [Hshort|Henough]; [exact I|].
    cbn [bind d_in d_remain]. rewrite Hi in Henough. rewrite skipn_length, skipn_length in Henough.
    exists size. repeat split; try lia.
    rewrite Hi. rewrite !skipn_skipn'. f_equal. lia.
Qed.

(* C17: a frame cut anywhere before its end never decodes *)
Corollary cut_never_ok c flex t input :
  schema_ok flex t = true -> bytes_ok input -> (4 <= length input)%nat ->
  (Z.of_nat (length input) < 4 + get_bes 4 (firstn 4 input))%Z ->
  match read_response c flex t input with
  | Ok _ _ => False | Panic => False | OutOfFuel => False
  | Err _ _ _ => True | Oom => True
  end.
Proof.
  intros Hok Hb Hl Hcut. pose proof (read_response_total c flex t input Hok Hb) as H.
  destruct (read_response c flex t input); try exact H; try exact I.
  destruct H as [size [_ [-> [_ [Hle _]]]]]. lia.
Qed.

Corollary cut_prefix_never_ok c flex t input :
  schema_ok flex t = true -> bytes_ok input -> (length input < 4)%nat ->
  exists e ra al, read_response c flex t input = Err e ra al.
Proof.
  intros Hok Hb Hl. unfold read_response, read_int at 1. unfold read_n, read_z. cbn [d_remain d_in d_alloc].
  change (Z.of_nat 4 <=? 0)%Z with false. change (4 <=? 0)%Z with false. cbv iota.
  change (Z.min (Z.of_nat 4) 4) with 4%Z.
  destruct (Z.ltb_spec (Z.of_nat (length input)) 4); [|lia]. cbn [bind]. eauto.
Qed.
