(* Proofs/SchemaTotal.v — for EVERY byte string: decoding never panics and never runs
   out of fuel; a successful decode consumed bytes of the input, at least min_size of
   them, and exactly what it subtracted from the frame's remaining size. *)
From Coq Require Import List NArith ZArith Bool Lia.
From Coq Require Import ZifyN ZifyNat ZifyBool.
From KV Require Import Lib.Bits Lib.Bytes Lib.Varint Model.Schema
  Proofs.SchemaBase Proofs.SchemaDefs Proofs.SchemaPrims Proofs.SchemaEqns.
Import ListNotations.

(* s' is s after consuming k >= m bytes *)
Definition consumes (m : nat) (s s' : dstate) : Prop :=
  exists k, (m <= k <= length (d_in s))%nat /\
    d_in s' = skipn k (d_in s) /\ d_remain s' = (d_remain s - Z.of_nat k)%Z /\
    ((0 <= d_remain s)%Z -> (0 <= d_remain s')%Z) /\ (d_alloc s <= d_alloc s')%N.

Definition good {A} (m : nat) (s : dstate) (r : res A) : Prop :=
  match r with
  | Ok _ s' => consumes m s s'
  | Err _ _ _ => True
  | Oom => True
  | Panic => False
  | OutOfFuel => False
  end.

Lemma consumes_refl s : consumes 0 s s.
Proof. exists 0%nat. cbn [skipn]. repeat split; try lia. Qed.

Lemma consumes_trans m1 m2 s1 s2 s3 : consumes m1 s1 s2 -> consumes m2 s2 s3 -> consumes (m1 + m2) s1 s3.
Proof.
  intros [k1 [Hk1 [Hi1 [Hr1 [Hp1 Ha1]]]]] [k2 [Hk2 [Hi2 [Hr2 [Hp2 Ha2]]]]].
  exists (k1 + k2)%nat. rewrite Hi1 in *. rewrite skipn_length in Hk2.
  repeat split; try lia.
  - rewrite Hi2. rewrite skipn_skipn. f_equal. lia.
Qed.

Lemma consumes_weaken m m' s s' : (m' <= m)%nat -> consumes m s s' -> consumes m' s s'.
Proof. intros H [k [Hk R]]. exists k. split; [lia|exact R]. Qed.

Lemma good_bind {A B} m1 m2 s (r : res A) (f : A -> dstate -> res B) :
  good m1 s r -> (forall a s', consumes m1 s s' -> good m2 s' (f a s')) ->
  good (m1 + m2) s (bind r f).
Proof.
  destruct r as [a s'| | | |]; cbn [good bind]; intros H Hf; try exact H; try exact I.
  specialize (Hf a s' H). destruct (f a s') as [b s''| | | |]; cbn [good] in *; try exact Hf; try exact I.
  eapply consumes_trans; eassumption.
Qed.

Lemma good_weaken {A} m m' s (r : res A) : (m' <= m)%nat -> good m s r -> good m' s r.
Proof. intros H. destruct r; cbn [good]; try tauto. apply consumes_weaken. exact H. Qed.

(* ---- primitives ---- *)
Lemma read_z_good k s : (0 <= k)%Z -> good (Z.to_nat k) s (read_z k s).
Proof.
  intros Hk. unfold read_z.
  destruct (Z.leb_spec k 0).
  - cbn [good]. replace (Z.to_nat k) with 0%nat by lia. apply consumes_refl.
  - destruct (Z.leb_spec (d_remain s) 0); [exact I|].
    destruct (Z.ltb_spec (Z.of_nat (length (d_in s))) (Z.min k (d_remain s))); [exact I|].
    destruct (Z.ltb_spec (Z.min k (d_remain s)) k); [exact I|].
    cbn [good]. exists (Z.to_nat k). cbn [d_in d_remain d_alloc].
    repeat split; try lia.
Qed.

Lemma read_n_good k s : good k s (read_n k s).
Proof. unfold read_n. rewrite <- (Nat2Z.id k) at 1. apply read_z_good. lia. Qed.

Lemma read_int_good w s : good w s (read_int w s).
Proof.
  unfold read_int. replace w with (w + 0)%nat at 1 by lia.
  apply good_bind; [apply read_n_good|]. intros bs s' _. cbn [good]. apply consumes_refl.
Qed.

Lemma fail_good {A} m e s : good m s (@fail A e s).
Proof. exact I. Qed.

Lemma uvarint_loop_good n : forall x sh s, good 1 s (uvarint_loop n x sh s).
Proof.
  induction n as [|n IH]; intros x sh s; cbn [uvarint_loop]; [exact I|].
  pose proof (read_n_good 1 s) as H1.
  destruct (read_n 1 s) as [bs s'| | | |]; cbn [bind good] in *; try exact H1; try exact I.
  destruct (N.ltb_spec (match bs with [b] => b | _ => 0%N end) 128).
  - cbn [good]. exact H1.
  - specialize (IH (N.lor x (((match bs with [b] => b | _ => 0%N end) mod 128 * 2 ^ sh) mod M64)) (sh + 7)%N s').
    destruct (uvarint_loop n _ _ s') as [v s''| | | |]; cbn [good] in *; try exact IH; try exact I.
    apply (consumes_weaken (1 + 1) 1); [lia|]. eapply consumes_trans; eassumption.
Qed.

Lemma read_uvarint_good s : good 1 s (read_uvarint s).
Proof. unfold read_uvarint. apply uvarint_loop_good. Qed.

Section Total.
Variable c : cfg.
Variable flex : bool.

(* remain below 2^31 (the frame size is an int32) is what keeps make() in range *)
Definition small (s : dstate) : Prop := (d_remain s < ZM31)%Z.

Lemma consumes_small m s s' : consumes m s s' -> small s -> small s'.
Proof. intros [k [_ [_ [Hr _]]]]. unfold small. lia. Qed.

Lemma alloc_good n esize s :
  (0 <= n)%Z -> (n <= d_remain s)%Z -> small s -> (esize <= 65536)%N -> good 0 s (alloc c n esize s).
Proof.
  intros Hn Hle Hs He. unfold alloc, small, ZM31 in *.
  destruct (Z.ltb_spec n 0); [lia|].
  destruct (N.ltb_spec max_alloc (Z.to_N n * esize)); [unfold max_alloc in *; nia|].
  destruct (N.ltb (budget c) (d_alloc s + Z.to_N n * esize)); [exact I|].
  cbn [good]. exists 0%nat. cbn [d_in d_remain d_alloc skipn]. repeat split; lia.
Qed.

Lemma read_alloc_good n s : small s -> good (Z.to_nat n) s (read_alloc c n s).
Proof.
  intros Hs. unfold read_alloc.
  destruct (Z.ltb_spec n 0); [exact I|].
  destruct (Z.ltb_spec (d_remain s) n); [exact I|]. cbn [orb].
  replace (Z.to_nat n) with (0 + Z.to_nat n)%nat by lia.
  apply good_bind; [apply alloc_good; try assumption; lia|].
  intros _ s' Hc. apply read_z_good. lia.
Qed.

Lemma read_alloc_good0 n s : small s -> good 0 s (read_alloc c n s).
Proof. intros Hs. eapply good_weaken; [|apply read_alloc_good; exact Hs]. lia. Qed.

(* ---- loops ---- *)
Lemma elems_loop_good (dec : dstate -> res value) :
  (forall s, small s -> good 1 s (dec s)) ->
  forall fuel n s, small s -> (length (d_in s) + 1 <= length fuel)%nat ->
    good 0 s (elems_loop dec fuel n s).
Proof.
  intros Hdec. induction fuel as [|f0 fuel IH]; intros n s Hs Hf; [cbn [length] in Hf; lia|].
  cbn [elems_loop].
  destruct (N.eqb n 0); [cbn [good]; apply consumes_refl|].
  destruct (Z.leb (d_remain s) 0); [cbn [good]; apply consumes_refl|].
  specialize (Hdec s Hs).
  destruct (dec s) as [v s'| | | |]; cbn [good] in *; try exact Hdec; try exact I.
  assert (Hf' : (length (d_in s') + 1 <= length fuel)%nat).
  { destruct Hdec as [k [Hk [Hi _]]]. rewrite Hi, skipn_length. cbn [length] in Hf. lia. }
  specialize (IH (n - 1)%N s' (consumes_small _ _ _ Hdec Hs) Hf').
  destruct (elems_loop dec fuel (n - 1) s') as [r s''| | | |]; cbn [bind good] in *; try exact IH; try exact I.
  apply (consumes_weaken (1 + 0) 0); [lia|]. eapply consumes_trans; eassumption.
Qed.

Lemma skip_step_good s : small s -> good 2 s (skip_header_tags_step c s).
Proof.
  intros Hs. unfold skip_header_tags_step.
  replace 2%nat with (1 + (1 + (0 + 0)))%nat by lia.
  apply good_bind; [apply read_uvarint_good|]. intros _ s1 H1.
  apply good_bind; [apply read_uvarint_good|]. intros size s2 H2.
  apply good_bind; [apply read_alloc_good0; eapply consumes_small; [exact H2|eapply consumes_small; eassumption]|].
  intros _ s3 _. cbn [good]. apply consumes_refl.
Qed.

Lemma header_tags_good : forall fuel n s, small s -> (length (d_in s) + 1 <= length fuel)%nat ->
  good 0 s (header_tags c fuel n s).
Proof.
  induction fuel as [|f0 fuel IH]; intros n s Hs Hf; [cbn [length] in Hf; lia|].
  cbn [header_tags].
  destruct (Z.leb n 0); [cbn [good]; apply consumes_refl|].
  pose proof (skip_step_good s Hs) as Hstep.
  destruct (skip_header_tags_step c s) as [u s'| | | |]; cbn [good] in *; try exact Hstep; try exact I.
  assert (Hf' : (length (d_in s') + 1 <= length fuel)%nat).
  { destruct Hstep as [k [Hk [Hi _]]]. rewrite Hi, skipn_length. cbn [length] in Hf. lia. }
  specialize (IH (n - 1)%Z s' (consumes_small _ _ _ Hstep Hs) Hf').
  destruct (header_tags c fuel (n - 1) s') as [r s''| | | |]; cbn [good] in *; try exact IH; try exact I.
  apply (consumes_weaken (2 + 0) 0); [lia|]. eapply consumes_trans; eassumption.
Qed.
End Total.
