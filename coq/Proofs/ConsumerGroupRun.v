(* Proofs/ConsumerGroupRun.v — the run goroutine: re-join only after back-off, leave on
   close (with the RebalanceInProgress gap, F5), proved as invariants of every run of
   Model/ConsumerGroup.v, together with the Prop readings of the boolean monitors. *)
From Coq Require Import List ZArith Bool Arith Lia.
From KV Require Import Model.ConsumerGroup Proofs.ConsumerGroupBase.
Import ListNotations.

(* ================= the invariant ================= *)

(* events none of the three monitors looks at *)
Definition neutral (e : event) : bool :=
  match e with
  | HCoordReq | HJoinReq _ | HFail _ | HBackoff | HRunExit _ _ | HCloseRet _
  | HLeaveReq _ | HLeaveUnreach _ => false
  | _ => true
  end.

(* run exits holding a member id only on the ErrGroupClosed exit and on the exit from the
   error offer after RebalanceInProgress *)
Definition gap_ok (e : event) : bool :=
  match e with
  | HRunExit XClosed _ => true
  | HRunExit (XOffer ERebalance) _ => true
  | HRunExit _ (Some _) => false
  | _ => true
  end.

Definition pcinv (p : pcs) (m : option nat) (h : list event) : Prop :=
  match p with
  | PLeaveConn a | PLeaveReq a => match a with LvExitOffer e => e = ERebalance | _ => True end
  | POffer e true => m = None
  | POffer e false => e = ERebalance /\ pending_fail h = false
  | PBackoff => m = None
  | PExited => existsb ev_is_runexit h = true
  | _ => pending_fail h = false
  end.

Definition Inv3 (p : pcs) (m : option nat) (h : list event) : Prop :=
  mon_backoff h = true /\ mon_leave_full h = true /\ forallb gap_ok h = true /\ pcinv p m h.

Definition Inv (s : state) : Prop := Inv3 (pc s) (mid s) (hist s).

Lemma Inv3_neutral : forall p m h e, neutral e = true -> Inv3 p m h -> Inv3 p m (e :: h).
Proof.
  intros p m h e N [A [B [C D]]].
  destruct e; try discriminate N; unfold Inv3; cbn; rewrite ?A, ?B, ?C;
    (repeat split; auto);
    destruct p as [ | | | | | | | | | | | |? b| | ]; try destruct b; cbn in *; auto.
Qed.

(* ---- tactics for the step case analysis ---- *)
Ltac inner x k :=
  lazymatch x with
  | context [match ?y with _ => _ end] => inner y k
  | _ => k x
  end.

Ltac dm E :=
  repeat (cbv beta iota zeta in E; cbn [option_map] in E;
          match type of E with
          | context [match ?x with _ => _ end] =>
            inner x ltac:(fun z => (is_var z; destruct z) || (let Q := fresh "Q" in destruct z eqn:Q))
          end);
  try discriminate E.

Ltac dgoal :=
  repeat (cbn; match goal with
               | |- context [match ?x with _ => _ end] => is_var x; destruct x
               end).

Ltac rw_hyps :=
  repeat match goal with
         | H : _ = true |- _ => progress rewrite H
         | H : _ = false |- _ => progress rewrite H
         end.

Ltac pure :=
  unfold Inv3, pcinv; dgoal; intros;
  repeat match goal with H : _ /\ _ |- _ => destruct H end; subst; dgoal;
  repeat split; cbn; rw_hyps; cbn; rewrite ?Nat.eqb_refl; cbn; auto; try congruence.

Ltac neut :=
  let H := fresh "H" in
  intro H; repeat (apply Inv3_neutral; [reflexivity|]); exact H.

Ltac fin :=
  cbn;
  repeat match goal with Q : pc ?s = _ |- _ => rewrite Q; clear Q end;
  first [ neut
        | unfold after_close, fail_ng, after_start;
          unfold enter_leave; unfold finish_leave; unfold exit_run;
          cbn;
          repeat match goal with Q : mid ?s = _ |- _ => rewrite Q; clear Q end;
          repeat match goal with
                 | |- context [match mid ?s with _ => _ end] => destruct (mid s)
                 | |- context [match nwatch ?s with _ => _ end] => destruct (nwatch s)
                 | |- context [match ?x with _ => _ end] => is_var x; destruct x; cbn
                 end;
          cbn;
          match goal with |- context [mid ?s] => generalize (mid s) | _ => idtac end;
          match goal with |- context [hist ?s] => generalize (hist s) | _ => idtac end;
          pure ].

Lemma inv_step : forall s l s', Inv s -> step s l = Some s' -> Inv s'.
Proof.
  unfold Inv. intros s l s' H E. unfold step in E.
  destruct (panicked s); [discriminate|].
  revert H.
  destruct l; unfold do_start, handler, end_gen, fn_return in E; dm E;
    inversion E; subst s'; clear E; fin.
Qed.

Lemma inv_init : forall w, Inv (init w).
Proof. intro w. unfold Inv, Inv3; cbn. auto. Qed.

Lemma inv_holds : forall w ls s, run (init w) ls = Some s -> Inv s.
Proof.
  intros w. apply (inv_run Inv (init w) (inv_init w)).
  intros s l s' H E. eapply inv_step; eauto.
Qed.

(* ================= C15.3 re-join after back-off ================= *)
Theorem backoff_holds : forall w ls s, run (init w) ls = Some s -> mon_backoff (hist s) = true.
Proof. intros w ls s H. exact (proj1 (inv_holds w ls s H)). Qed.

Lemma mon_backoff_app : forall post h, mon_backoff (post ++ h) = true -> mon_backoff h = true.
Proof.
  induction post as [|e t IH]; intros h H; cbn [app mon_backoff] in H; [exact H|].
  apply andb_true_iff in H. apply IH. exact (proj2 H).
Qed.

Lemma pending_fail_clear : forall pre1 c pre2,
  pending_fail (pre1 ++ HFail c :: pre2) = false -> c <> ERebalance -> In HBackoff pre1.
Proof.
  induction pre1 as [|a t IH]; intros c pre2 H N; cbn [app] in H.
  - destruct c; cbn in H; [congruence | discriminate | discriminate].
  - destruct a; cbn [pending_fail] in H;
      try (right; eapply IH; eassumption);
      try (left; reflexivity).
    destruct e; try discriminate H. right; eapply IH; eassumption.
Qed.

Lemma pending_fail_set : forall pre1 c pre2,
  c <> ERebalance -> ~ In HBackoff pre1 -> pending_fail (pre1 ++ HFail c :: pre2) = true.
Proof.
  intros pre1 c pre2 N NI.
  destruct (pending_fail (pre1 ++ HFail c :: pre2)) eqn:E; [reflexivity|].
  exfalso. apply NI. eapply pending_fail_clear; eauto.
Qed.

(* between a failure other than RebalanceInProgress and any later coordinator / join
   request there is a Backoff *)
Lemma mon_backoff_spec : forall h, mon_backoff h = true ->
  forall post e pre, h = post ++ e :: pre ->
  (e = HCoordReq \/ exists m, e = HJoinReq m) ->
  forall pre1 c pre2, pre = pre1 ++ HFail c :: pre2 -> c <> ERebalance -> In HBackoff pre1.
Proof.
  intros h M post e pre -> He pre1 c pre2 -> N.
  apply mon_backoff_app in M. cbn [mon_backoff] in M. apply andb_true_iff in M. destruct M as [M _].
  eapply pending_fail_clear; [|exact N].
  destruct He as [->|[m ->]]; cbn in M; apply negb_true_iff in M; exact M.
Qed.

(* ================= C15.4 leave on close ================= *)
Theorem leave_full_holds : forall w ls s, run (init w) ls = Some s -> mon_leave_full (hist s) = true.
Proof. intros w ls s H. exact (proj1 (proj2 (inv_holds w ls s H))). Qed.

Lemma runexit_exists : forall h, existsb ev_is_runexit h = true -> exists x m, In (HRunExit x m) h.
Proof.
  intros h H. apply existsb_exists in H. destruct H as [e [I R]].
  destruct e; try discriminate R. eauto.
Qed.

(* a leave attempt for m is met, scanning back, before any JoinGroup request *)
Lemma left_since_join_spec : forall m h,
  left_since_join m h = true <->
  exists pre1 e pre2, h = pre1 ++ e :: pre2 /\ ev_is_leave m e = true /\
                      forall m', ~ In (HJoinReq m') pre1.
Proof.
  intros m h. split.
  - induction h as [|e t IH]; intro H; [discriminate H|].
    cbn [left_since_join] in H. destruct (ev_is_leave m e) eqn:L.
    + exists [], e, t. split; [reflexivity|]. split; [exact L|]. intros m' I; exact I.
    + assert (G : left_since_join m t = true /\ forall m', e <> HJoinReq m').
      { destruct e; try discriminate H; (split; [exact H | intros m' X; discriminate X]). }
      destruct G as [G1 G2]. destruct (IH G1) as [pre1 [e' [pre2 [-> [L' N]]]]].
      exists (e :: pre1), e', pre2. split; [reflexivity|]. split; [exact L'|].
      intros m' [I|I]; [exact (G2 m' I) | exact (N m' I)].
  - intros [pre1 [e [pre2 [-> [L N]]]]].
    induction pre1 as [|a pre1 IH]; cbn [app left_since_join].
    + rewrite L. reflexivity.
    + destruct (ev_is_leave m a); [reflexivity|].
      destruct a; try (apply IH; intros m' I; apply (N m'); right; exact I).
      exfalso. apply (N m0). left. reflexivity.
Qed.

Lemma mon_leave_full_app : forall post h, mon_leave_full (post ++ h) = true -> mon_leave_full h = true.
Proof.
  induction post as [|e t IH]; intros h H; cbn [app mon_leave_full] in H; [exact H|].
  apply andb_true_iff in H. apply IH. exact (proj2 H).
Qed.

Lemma mon_leave_full_spec : forall h, mon_leave_full h = true <->
  (forall post x m pre, h = post ++ HRunExit x (Some m) :: pre ->
     exists pre1 e pre2, pre = pre1 ++ e :: pre2 /\ ev_is_leave m e = true /\
                         forall m', ~ In (HJoinReq m') pre1) /\
  (forall post c pre, h = post ++ HCloseRet c :: pre -> exists x m, In (HRunExit x m) pre).
Proof.
  intro h. split.
  - intro M. split.
    + intros post x m pre ->. apply mon_leave_full_app in M. cbn [mon_leave_full] in M.
      apply andb_true_iff in M. destruct M as [M _]. cbn in M.
      apply left_since_join_spec in M; exact M.
    + intros post c pre ->. apply mon_leave_full_app in M. cbn [mon_leave_full] in M.
      apply andb_true_iff in M. destruct M as [M _]. cbn in M. apply runexit_exists; exact M.
  - induction h as [|e t IH]; intros [A B]; [reflexivity|].
    cbn [mon_leave_full]. apply andb_true_iff. split.
    + destruct e; try reflexivity.
      * cbn. destruct (B [] c t eq_refl) as [x [m I]].
        apply existsb_exists. exists (HRunExit x m). split; [exact I|reflexivity].
      * destruct m as [m|]; [|reflexivity]. cbn.
        apply left_since_join_spec. exact (A [] x m t eq_refl).
    + apply IH. split.
      * intros post x m pre ->. exact (A (e :: post) x m pre eq_refl).
      * intros post c pre ->. exact (B (e :: post) c pre eq_refl).
Qed.

(* run exits holding a member id only on the ErrGroupClosed exit (after the leave) and on
   the exit from the error offer after RebalanceInProgress (the F5 gap) *)
Theorem leave_only_gap : forall w ls s, run (init w) ls = Some s ->
  forall x m, In (HRunExit x (Some m)) (hist s) -> x = XOffer ERebalance \/ x = XClosed.
Proof.
  intros w ls s H x m I.
  pose proof (proj1 (proj2 (proj2 (inv_holds w ls s H)))) as G.
  rewrite forallb_forall in G. specialize (G _ I).
  destruct x as [|e|]; [right; reflexivity|destruct e; [left; reflexivity|discriminate G|discriminate G]|discriminate G].
Qed.

(* whenever run exits holding a member id, a leave of the current membership was attempted
   (sent, or coordinator unreachable): no JoinGroup request lies between it and the exit *)
Theorem leave_exit : forall w ls s, run (init w) ls = Some s ->
  forall post x m pre, hist s = post ++ HRunExit x (Some m) :: pre ->
  exists pre1 e pre2, pre = pre1 ++ e :: pre2 /\ ev_is_leave m e = true /\
                      forall m', ~ In (HJoinReq m') pre1.
Proof.
  intros w ls s H. exact (proj1 (proj1 (mon_leave_full_spec _) (leave_full_holds w ls s H))).
Qed.

(* Close returns only after run has exited *)
Theorem close_after_exit : forall w ls s, run (init w) ls = Some s ->
  forall post c pre, hist s = post ++ HCloseRet c :: pre -> exists x m, In (HRunExit x m) pre.
Proof.
  intros w ls s H. exact (proj2 (proj1 (mon_leave_full_spec _) (leave_full_holds w ls s H))).
Qed.

(* the former F5 scenario (sync answers RebalanceInProgress, nobody calls Next, Close): run
   now leaves the group before it exits *)
Lemma f5_scenario_leaves : exists s,
  run (init 0) f5_scenario = Some s /\ mon_leave_full (hist s) = true /\
  In (HLeaveReq 1) (hist s) /\ In (HCloseRet 0) (hist s).
Proof.
  eexists. split; [vm_compute; reflexivity|]. cbn [hist].
  split; [vm_compute; reflexivity|]. split; cbn; tauto.
Qed.
