(* Proofs/GroupBalancersRackBase.v — sums over member ids and the hand-out loop of
   RackAffinityGroupBalancer.assignTopic *)
From Coq Require Import List NArith ZArith Bool Arith Lia Permutation.
From KV Require Import Model.GroupBalancers Proofs.GroupBalancersBase.
Import ListNotations.

(* ------------------------------------------------------------------ sums over ids *)
Definition sumf (F : bytes -> nat) (ids : list bytes) : nat := list_sum (map F ids).

Lemma sumf_cons F a l : sumf F (a :: l) = F a + sumf F l.
Proof. reflexivity. Qed.

Lemma sumf_ext_in F G ids : (forall i, In i ids -> F i = G i) -> sumf F ids = sumf G ids.
Proof. intros H. unfold sumf. f_equal. apply map_ext_in. exact H. Qed.

Lemma sumf_add F G ids : sumf (fun i => F i + G i) ids = sumf F ids + sumf G ids.
Proof. induction ids as [|a l IH]; [reflexivity|]. rewrite !sumf_cons, IH. lia. Qed.

Lemma sumf_const k ids : sumf (fun _ => k) ids = k * length ids.
Proof. induction ids as [|a l IH]; [cbn; lia|]. rewrite sumf_cons, IH. cbn [length]. lia. Qed.

Lemma sumf_le F G ids : (forall i, In i ids -> F i <= G i) -> sumf F ids <= sumf G ids.
Proof.
  induction ids as [|a l IH]; intros H; [reflexivity|]. rewrite !sumf_cons.
  specialize (H a (or_introl eq_refl)) as Ha. specialize (IH (fun i Hi => H i (or_intror Hi))). lia.
Qed.

Lemma sumf_update F F' c ids : NoDup ids -> In c ids -> (forall i, i <> c -> F' i = F i) ->
  sumf F' ids + F c = sumf F ids + F' c.
Proof.
  induction ids as [|a l IH]; intros Hnd Hin Hext; [destruct Hin|].
  inversion Hnd; subst. rewrite !sumf_cons.
  destruct (bytes_eq_dec a c) as [->|Hne].
  - rewrite (sumf_ext_in F' F l); [lia|]. intros i Hi. apply Hext. intros ->. contradiction.
  - rewrite (Hext a Hne). destruct Hin as [Hin|Hin]; [contradiction|].
    specialize (IH H2 Hin Hext). lia.
Qed.

Lemma sumf_bound_one F B c ids : NoDup ids -> In c ids -> (forall i, In i ids -> F i <= B) ->
  sumf F ids <= F c + B * (length ids - 1).
Proof.
  intros Hnd Hin HB.
  pose proof (sumf_update F (fun i => if bytes_eq_dec i c then 0 else F i) c ids Hnd Hin) as E.
  cbv beta in E. destruct (bytes_eq_dec c c) as [_|]; [|congruence].
  rewrite Nat.add_0_r in E.
  assert (E' : sumf (fun i => if bytes_eq_dec i c then 0 else F i) ids + F c = sumf F ids).
  { apply E. intros i Hi. destruct (bytes_eq_dec i c); congruence. }
  clear E. rewrite <- E'.
  assert (sumf (fun i => if bytes_eq_dec i c then 0 else F i) ids <= B * (length ids - 1)); [|lia].
  clear E'. revert Hin. induction ids as [|a l IH]; intros Hin; [destruct Hin|].
  inversion Hnd; subst. rewrite sumf_cons. cbn [length].
  destruct (bytes_eq_dec a c) as [->|Hne].
  - replace (S (length l) - 1) with (length l) by lia.
    etransitivity; [apply (sumf_le _ (fun _ => B))|rewrite sumf_const; lia].
    intros i Hi. destruct (bytes_eq_dec i c); [lia|]. apply HB. right. exact Hi.
  - destruct Hin as [Hin|Hin]; [contradiction|].
    assert (IH' := IH H2 (fun i Hi => HB i (or_intror Hi)) Hin).
    assert (F a <= B) by (apply HB; left; reflexivity).
    assert (1 <= length l) by (destruct l; [destruct Hin|cbn; lia]).
    replace (S (length l) - 1) with (1 + (length l - 1)) by lia. lia.
Qed.

Lemma sumf_perm F l l' : Permutation l l' -> sumf F l = sumf F l'.
Proof.
  induction 1; rewrite ?sumf_cons; try lia; reflexivity.
Qed.

Lemma sumf_app F l l' : sumf F (l ++ l') = sumf F l + sumf F l'.
Proof. induction l as [|a l IH]; [reflexivity|]. cbn [app]. rewrite !sumf_cons, IH. lia. Qed.

Definition ind (cs : list bytes) (k : nat) (i : bytes) : nat :=
  if in_dec bytes_eq_dec i cs then k else 0.

Lemma sumf_ind cs k ids : NoDup ids -> NoDup cs -> incl cs ids ->
  sumf (ind cs k) ids = k * length cs.
Proof.
  intros Hnd. induction cs as [|c cs IH]; intros Hcs Hinc.
  - rewrite (sumf_ext_in _ (fun _ => 0)).
    + rewrite sumf_const. cbn. lia.
    + intros i _. unfold ind. destruct (in_dec bytes_eq_dec i []) as [[]|]; reflexivity.
  - inversion Hcs; subst.
    assert (Hc : In c ids) by (apply Hinc; left; reflexivity).
    pose proof (sumf_update (ind cs k) (ind (c :: cs) k) c ids Hnd Hc) as E.
    rewrite IH in E; [|assumption|intros x Hx; apply Hinc; right; exact Hx].
    assert (E1 : ind cs k c = 0) by (unfold ind; destruct (in_dec bytes_eq_dec c cs); [contradiction|reflexivity]).
    assert (E2 : ind (c :: cs) k c = k).
    { unfold ind; destruct (in_dec bytes_eq_dec c (c :: cs)) as [|n]; [reflexivity|]. exfalso. apply n. left. reflexivity. }
    rewrite E1, E2 in E. cbn [length]. rewrite Nat.add_0_r in E. rewrite E; [lia|].
    intros i Hi. unfold ind.
    destruct (in_dec bytes_eq_dec i (c :: cs)) as [[->|Hin]|Hn], (in_dec bytes_eq_dec i cs) as [Hin'|Hn'];
      try reflexivity; try congruence; try contradiction.
    exfalso. apply Hn. right. exact Hin'.
Qed.

(* ------------------------------------------------------------------ lengths of the
   lists held by the members *)
Definition Lf (asg : amap Z) (i : bytes) : nat := length (aget i asg).

Lemma Lf_aappend asg c xs i :
  Lf (aappend c xs asg) i = Lf asg i + (if bytes_eq_dec i c then length xs else 0).
Proof.
  unfold Lf. rewrite aget_aappend.
  destruct (bytes_eqb_spec i c), (bytes_eq_dec i c); try congruence.
  - apply app_length.
  - lia.
Qed.

Lemma take_opt_some {A} k (l : list A) : k <= length l ->
  take_opt k l = Some (firstn k l, skipn k l).
Proof. intros H. unfold take_opt. destruct (Nat.leb_spec k (length l)); [reflexivity|lia]. Qed.

Lemma aget_aappend_ext {V} i c xs (asg : amap V) : exists ext, aget i (aappend c xs asg) = aget i asg ++ ext.
Proof.
  rewrite aget_aappend. destruct (bytes_eqb i c); [exists xs; reflexivity|exists []; rewrite app_nil_r; reflexivity].
Qed.

Section HandOut.
Variable ids : list bytes.
Hypothesis ids_nd : NoDup ids.
Variables T R P : nat.
Hypothesis PMR : P = length ids * T + R.
Hypothesis RltM : R < length ids.

Definition tot (asg : amap Z) := sumf (Lf asg) ids.
Definition over (asg : amap Z) := sumf (fun i => Lf asg i - T) ids.
Definition capped (asg : amap Z) := sumf (fun i => Nat.min (Lf asg i) T) ids.
Definition cnt_le (asg : amap Z) (l : list bytes) := sumf (fun i => if Lf asg i <=? T then 1 else 0) l.

Lemma tot_split asg : tot asg = capped asg + over asg.
Proof.
  unfold tot, capped, over. rewrite <- sumf_add. apply sumf_ext_in. intros i _. lia.
Qed.

Lemma tot_aappend asg c xs : In c ids -> tot (aappend c xs asg) = tot asg + length xs.
Proof.
  intros Hc. unfold tot.
  pose proof (sumf_update (Lf asg) (Lf (aappend c xs asg)) c ids ids_nd Hc) as E.
  rewrite Lf_aappend in E. destruct (bytes_eq_dec c c); [|congruence].
  assert (forall i, i <> c -> Lf (aappend c xs asg) i = Lf asg i).
  { intros i Hi. rewrite Lf_aappend. destruct (bytes_eq_dec i c); [congruence|lia]. }
  specialize (E H). lia.
Qed.

Lemma over_aappend asg c xs : In c ids ->
  over (aappend c xs asg) + (Lf asg c - T) = over asg + (Lf asg c + length xs - T).
Proof.
  intros Hc. unfold over.
  pose proof (sumf_update (fun i => Lf asg i - T) (fun i => Lf (aappend c xs asg) i - T) c ids ids_nd Hc) as E.
  cbv beta in E. rewrite Lf_aappend in E. destruct (bytes_eq_dec c c); [|congruence].
  apply E. intros i Hi. rewrite Lf_aappend. destruct (bytes_eq_dec i c); [congruence|]. f_equal. lia.
Qed.

Lemma capped_bound asg c : In c ids -> capped asg <= Nat.min (Lf asg c) T + T * (length ids - 1).
Proof.
  intros Hc. unfold capped.
  apply (sumf_bound_one (fun i => Nat.min (Lf asg i) T) T c ids ids_nd Hc). intros; lia.
Qed.

Lemma hand_out_ok : forall suf asg remaining rem,
  NoDup (map m_id suf) -> incl (map m_id suf) ids ->
  tot asg + length remaining = P ->
  over asg + rem = R ->
  (forall i, In i ids -> Lf asg i <= T + 1) ->
  (forall i, In i ids -> ~ In i (map m_id suf) -> T <= Lf asg i) ->
  rem <= cnt_le asg (map m_id suf) ->
  exists asg', hand_out suf T asg remaining rem = Some asg' /\
     Permutation (avalues asg') (avalues asg ++ remaining) /\
     (forall i, In i ids -> T <= Lf asg' i <= T + 1) /\
     (forall k, In k (akeys asg') -> In k (akeys asg) \/ In k ids) /\
     (NoDup (akeys asg) -> NoDup (akeys asg')) /\
     (forall i, exists ext, aget i asg' = aget i asg ++ ext).
Proof.
  induction suf as [|m suf IH]; intros asg remaining rem Hnd Hinc Htot Hover Hle Hge Hrem.
  - cbn [hand_out]. exists asg.
    assert (rem = 0) by (unfold cnt_le in Hrem; cbn in Hrem; lia). subst rem.
    assert (Hc : capped asg = T * length ids).
    { unfold capped. rewrite (sumf_ext_in _ (fun _ => T)); [apply sumf_const|].
      intros i Hi. specialize (Hge i Hi). cbn [map In] in Hge. specialize (Hge (fun x => x)). lia. }
    pose proof (tot_split asg) as Ht.
    assert (length remaining = 0) by nia.
    destruct remaining; [|discriminate]. rewrite app_nil_r.
    split; [reflexivity|]. split; [reflexivity|]. split.
    { intros i Hi. split; [apply Hge; [exact Hi|intros []]|apply Hle; exact Hi]. }
    split; [auto|]. split; [auto|]. intros i. exists []. rewrite app_nil_r. reflexivity.
  - cbn [map] in Hnd, Hinc, Hrem. apply NoDup_cons_iff in Hnd; destruct Hnd as [Hnotin Hnd'].
    set (c := m_id m) in *.
    assert (Hc : In c ids) by (apply Hinc; left; reflexivity).
    assert (Hinc' : incl (map m_id suf) ids) by (intros x Hx; apply Hinc; right; exact Hx).
    cbn [hand_out]. fold c. change (length (aget c asg)) with (Lf asg c). set (n := Lf asg c) in *.
    pose proof (tot_split asg) as Ht. pose proof (capped_bound asg c Hc) as Hcb. fold n in Hcb.
    assert (HnT1 : n <= T + 1) by (apply Hle; exact Hc).
    unfold cnt_le in Hrem. rewrite sumf_cons in Hrem. fold (cnt_le asg (map m_id suf)) in Hrem.
    fold n in Hrem.
    assert (Hlen1 : 1 <= length ids) by (destruct ids; [destruct Hc|cbn; lia]).
    (* a step that leaves the maps alone *)
    assert (Hskip : forall rem', rem' <= rem -> (rem' <= cnt_le asg (map m_id suf)) -> T <= n ->
              over asg + rem' = R ->
              exists asg', hand_out suf T asg remaining rem' = Some asg' /\
                Permutation (avalues asg') (avalues asg ++ remaining) /\
                (forall i, In i ids -> T <= Lf asg' i <= T + 1) /\
                (forall k, In k (akeys asg') -> In k (akeys asg) \/ In k ids) /\
                (NoDup (akeys asg) -> NoDup (akeys asg')) /\
                (forall i, exists ext, aget i asg' = aget i asg ++ ext)).
    { intros rem' _ Hr' HTn Ho'. apply IH; try assumption.
      intros i Hi Hni. destruct (bytes_eq_dec i c) as [->|Hne]; [exact HTn|].
      apply Hge; [exact Hi|]. cbn [map In]. fold c. intros [E|E]; [congruence|contradiction]. }
    destruct (Nat.leb_spec n T) as [HnT|HnT]; cbn [andb].
    + (* the member can take more *)
      destruct (Nat.ltb_spec 0 rem) as [Hr|Hr].
      * (* bump *)
        replace (0 <? T - n + 1) with true by (symmetry; apply Nat.ltb_lt; lia).
        assert (Hd : T - n + 1 <= length remaining) by nia.
        rewrite (take_opt_some _ _ Hd).
        set (hd := firstn (T - n + 1) remaining). set (tl := skipn (T - n + 1) remaining).
        assert (Hhd : length hd = T - n + 1) by (unfold hd; rewrite firstn_length; lia).
        assert (Htl : length tl + (T - n + 1) = length remaining) by (unfold tl; rewrite skipn_length; lia).
        pose proof (tot_aappend asg c hd Hc) as Ht'. pose proof (over_aappend asg c hd Hc) as Ho'.
        fold n in Ho'. rewrite Hhd in Ht', Ho'.
        assert (HLc : forall i, Lf (aappend c hd asg) i = Lf asg i + (if bytes_eq_dec i c then T - n + 1 else 0))
          by (intros i; rewrite Lf_aappend, Hhd; reflexivity).
        destruct (IH (aappend c hd asg) tl (rem - 1) Hnd' Hinc') as [asg' [E [Hp [Hb [Hk [Hn Hx]]]]]].
        -- lia.
        -- lia.
        -- intros i Hi. rewrite HLc. destruct (bytes_eq_dec i c) as [->|]; [fold n; lia|].
           specialize (Hle i Hi). lia.
        -- intros i Hi Hni. rewrite HLc. destruct (bytes_eq_dec i c) as [->|Hne]; [fold n; lia|].
           assert (T <= Lf asg i); [|lia]. apply Hge; [exact Hi|]. cbn [map In]. fold c.
           intros [E|E]; [congruence|contradiction].
        -- replace (cnt_le (aappend c hd asg) (map m_id suf)) with (cnt_le asg (map m_id suf)).
           ++ destruct (Nat.leb_spec n T); lia.
           ++ apply sumf_ext_in. intros i Hi. rewrite HLc.
              destruct (bytes_eq_dec i c) as [->|]; [contradiction|]. rewrite Nat.add_0_r. reflexivity.
        -- exists asg'. split; [exact E|]. split.
           { rewrite Hp, avalues_aappend, <- app_assoc. unfold hd, tl. rewrite firstn_skipn. reflexivity. }
           split; [exact Hb|]. split.
           { intros k Hk'. destruct (Hk k Hk') as [H1|H1]; [|auto].
             apply akeys_aappend_incl in H1. destruct H1 as [->|H1]; auto. }
           split.
           { intros H0. apply Hn. apply NoDup_akeys_aappend. exact H0. }
           intros i. destruct (Hx i) as [e1 E1]. destruct (aget_aappend_ext i c hd asg) as [e2 E2].
           exists (e2 ++ e1). rewrite E1, E2, app_assoc. reflexivity.
      * (* no bump: rem = 0 *)
        assert (rem = 0) by lia. subst rem. rewrite Nat.add_0_r.
        destruct (Nat.ltb_spec 0 (T - n)) as [Hpos|Hzero].
        -- assert (Hd : T - n <= length remaining) by nia.
           rewrite (take_opt_some _ _ Hd).
           set (hd := firstn (T - n) remaining). set (tl := skipn (T - n) remaining).
           assert (Hhd : length hd = T - n) by (unfold hd; rewrite firstn_length; lia).
           assert (Htl : length tl + (T - n) = length remaining) by (unfold tl; rewrite skipn_length; lia).
           pose proof (tot_aappend asg c hd Hc) as Ht'. pose proof (over_aappend asg c hd Hc) as Ho'.
           fold n in Ho'. rewrite Hhd in Ht', Ho'.
           assert (HLc : forall i, Lf (aappend c hd asg) i = Lf asg i + (if bytes_eq_dec i c then T - n else 0))
             by (intros i; rewrite Lf_aappend, Hhd; reflexivity).
           destruct (IH (aappend c hd asg) tl 0 Hnd' Hinc') as [asg' [E [Hp [Hb [Hk [Hn Hx]]]]]].
           ++ lia.
           ++ lia.
           ++ intros i Hi. rewrite HLc. destruct (bytes_eq_dec i c) as [->|]; [fold n; lia|].
              specialize (Hle i Hi). lia.
           ++ intros i Hi Hni. rewrite HLc. destruct (bytes_eq_dec i c) as [->|Hne]; [fold n; lia|].
              assert (T <= Lf asg i); [|lia]. apply Hge; [exact Hi|]. cbn [map In]. fold c.
              intros [E|E]; [congruence|contradiction].
           ++ lia.
           ++ exists asg'. split; [exact E|]. split.
              { rewrite Hp, avalues_aappend, <- app_assoc. unfold hd, tl. rewrite firstn_skipn. reflexivity. }
              split; [exact Hb|]. split.
              { intros k Hk'. destruct (Hk k Hk') as [H1|H1]; [|auto].
                apply akeys_aappend_incl in H1. destruct H1 as [->|H1]; auto. }
              split.
              { intros H0. apply Hn. apply NoDup_akeys_aappend. exact H0. }
              intros i. destruct (Hx i) as [e1 E1]. destruct (aget_aappend_ext i c hd asg) as [e2 E2].
              exists (e2 ++ e1). rewrite E1, E2, app_assoc. reflexivity.
        -- apply (Hskip 0); lia.
    + (* already at T+1 *)
      cbn [Nat.ltb Nat.leb]. apply (Hskip rem); lia.
Qed.
End HandOut.
