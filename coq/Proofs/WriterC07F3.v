(* Proofs/WriterC07F3.v — the late-Assign interleaving (defect F3) also breaks the order
   property: a concrete run in which a goroutine's later message precedes its earlier one in
   the partition log. *)
From Coq Require Import List NArith Bool Arith.
From KV Require Import Lib.LTS Model.Writer Proofs.WriterStmts.
Import ListNotations.

Definition f3o_cfg : config := mkCfg 1 100 1 true (Some 0%N) (fun _ => false).
Definition f3o_m (id : N) : msg := mkMsg id None 30 0.
(* Async writer, goroutine 1: call 0 = [m1] is batched and returns; call 1 = [m2] passes
   enter(); Close marks, flushes and closes the partition writer (m1's batch is queued);
   call 1's batchMessages now creates a second partition writer for the same partition,
   whose sender produces m2 before the first one produces m1. *)
Definition f3o_ls : list label :=
  [Call 1 [f3o_m 1] None; Assign 0; Return 0; Call 1 [f3o_m 2] None; CloseMark; Assign 1;
   Get 1; Attempt 1 AppliedAcked; Get 0; Attempt 0 AppliedAcked].

Lemma C07_order_refuted_when_late_proof :
  exists cfg ls s g tp m1 m2 i j,
    cfg_ok cfg /\ runs cfg ls s /\ s_late s = true /\
    submitted_before cfg s g tp m1 m2 /\
    (forall a, In a (s_journal s) -> ~ (In m1 (a_msgs a) /\ In m2 (a_msgs a))) /\
    nth_error (log_of s tp) i = Some m1 /\ nth_error (log_of s tp) j = Some m2 /\ j < i.
Proof.
  exists f3o_cfg, f3o_ls.
  destruct (run (step f3o_cfg) init f3o_ls) as [s|] eqn:E; [|vm_compute in E; discriminate].
  exists s, 1%N, (0%N, 0%N), (f3o_m 1), (f3o_m 2), 1, 0.
  vm_compute in E. inversion E; subst s; clear E.
  split; [unfold cfg_ok; simpl; auto|].
  split; [vm_compute; reflexivity|].
  split; [reflexivity|].
  split; [exists [], [], []; vm_compute; reflexivity|].
  split.
  - intros a Ha [H1 H2]. simpl in Ha. destruct Ha as [<-|[<-|[]]]; simpl in H1, H2.
    + destruct H1 as [H1|[]]. discriminate H1.
    + destruct H2 as [H2|[]]. discriminate H2.
  - split; [vm_compute; reflexivity|]. split; [vm_compute; reflexivity|]. auto.
Qed.
