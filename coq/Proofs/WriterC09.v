(* Proofs/WriterC09.v — C09 (Writer): Close, the WaitGroup, stuckness. *)
From Coq Require Import List NArith Bool Arith Lia ZifyN ZifyNat ZifyBool.
From KV Require Import Lib.LTS Model.Writer Proofs.WriterStmts Proofs.WriterBase.
Import ListNotations.

(* ------------------------------------------------------------------ 1. after close *)
Lemma C09_w_after_close_proof : stmt_C09_w_after_close.
Proof.
  unfold stmt_C09_w_after_close. intros cfg s g msgs merr s' Hc H.
  unfold step in H. destruct (call_admissible s g msgs); [|discriminate].
  rewrite Hc in H. inversion H; reflexivity.
Qed.

(* ------------------------------------------------------------------ 5. stuckb is sound *)
Lemma is_none_true : forall A (o : option A), is_none o = true -> o = None.
Proof. destruct o; simpl; congruence. Qed.

Lemma in_progress_pw : forall s p, p < length (s_pws s) ->
  forall l, In l [Get p; SenderExit p; Attempt p AppliedAcked; BackoffDone p; Finish p] ->
  In l (progress_labels s).
Proof.
  intros s p Hp l Hl. unfold progress_labels. apply in_or_app. left.
  apply in_flat_map. exists p. split; [apply in_seq; lia|exact Hl].
Qed.

Lemma in_progress_call : forall s c, c < length (s_calls s) ->
  forall l, In l [Assign c; Return c] -> In l (progress_labels s).
Proof.
  intros s c Hc l Hl. unfold progress_labels.
  apply in_or_app. right. apply in_or_app. right. apply in_or_app. left.
  apply in_flat_map. exists c. split; [apply in_seq; lia|exact Hl].
Qed.

Lemma in_combine_seq : forall A (l : list A) a p x,
  nth_error l p = Some x -> In (a + p, x) (combine (seq a (length l)) l).
Proof.
  induction l; intros a0 p x H; destruct p; simpl in *; try discriminate.
  - inversion H; subst. left. f_equal. lia.
  - right. replace (a0 + S p) with (S a0 + p) by lia. apply IHl. exact H.
Qed.

Lemma in_progress_timer : forall s p pw k,
  nth_error (s_pws s) p = Some pw -> In k (pw_await pw) -> In (Timer p k) (progress_labels s).
Proof.
  intros s p pw k Hp Hk. unfold progress_labels.
  apply in_or_app. right. apply in_or_app. left.
  apply in_flat_map. exists (p, pw). split.
  - apply (in_combine_seq _ (s_pws s) 0 p pw Hp).
  - simpl. apply in_map. exact Hk.
Qed.

Lemma in_progress_cwd : forall s, In CloseWaitDone (progress_labels s).
Proof.
  intros s. unfold progress_labels.
  apply in_or_app. right. apply in_or_app. right. apply in_or_app. right. left. reflexivity.
Qed.

Lemma nth_error_lt : forall A (l : list A) p x, nth_error l p = Some x -> p < length l.
Proof. intros. apply nth_error_Some. congruence. Qed.

Lemma stuckb_sound_proof : stmt_stuckb_sound.
Proof.
  unfold stmt_stuckb_sound, stuckb, stuck. intros cfg s H.
  destruct (s_close s) eqn:Ec; try discriminate. split; [reflexivity|].
  rewrite forallb_forall in H.
  assert (HN : forall l, In l (progress_labels s) -> step cfg s l = None).
  { intros l Hl. apply is_none_true. apply H. exact Hl. }
  clear H.
  intros l Henv. destruct l; simpl in Henv; try discriminate.
  - (* Assign *)
    destruct (nth_error (s_calls s) c) eqn:E.
    + apply HN. apply (in_progress_call s c (nth_error_lt _ _ _ _ E)). simpl; auto.
    + unfold step. rewrite E. reflexivity.
  - (* Timer *)
    destruct (nth_error (s_pws s) p) as [pw|] eqn:E.
    + destruct (existsb (Nat.eqb k) (pw_await pw)) eqn:Ex.
      * apply existsb_exists in Ex. destruct Ex as [x [Hin Hx]]. apply Nat.eqb_eq in Hx. subst x.
        apply HN. eapply in_progress_timer; eauto.
      * unfold step. rewrite E, Ex. reflexivity.
    + unfold step. rewrite E. reflexivity.
  - (* Get *)
    destruct (nth_error (s_pws s) p) as [pw|] eqn:E.
    + apply HN. apply (in_progress_pw s p (nth_error_lt _ _ _ _ E)). simpl; auto.
    + unfold step. rewrite E. reflexivity.
  - (* SenderExit *)
    destruct (nth_error (s_pws s) p) as [pw|] eqn:E.
    + apply HN. apply (in_progress_pw s p (nth_error_lt _ _ _ _ E)). simpl; auto.
    + unfold step. rewrite E. reflexivity.
  - (* Attempt *)
    destruct (nth_error (s_pws s) p) as [pw|] eqn:E.
    + assert (H0 : step cfg s (Attempt p AppliedAcked) = None).
      { apply HN. apply (in_progress_pw s p (nth_error_lt _ _ _ _ E)). simpl; auto. }
      unfold step in *. rewrite E in *.
      destruct (pw_snd pw) as [[b n [| |e]]|]; try reflexivity; discriminate.
    + unfold step. rewrite E. reflexivity.
  - (* BackoffDone *)
    destruct (nth_error (s_pws s) p) as [pw|] eqn:E.
    + apply HN. apply (in_progress_pw s p (nth_error_lt _ _ _ _ E)). simpl; auto 6.
    + unfold step. rewrite E. reflexivity.
  - (* Finish *)
    destruct (nth_error (s_pws s) p) as [pw|] eqn:E.
    + apply HN. apply (in_progress_pw s p (nth_error_lt _ _ _ _ E)). simpl; auto 6.
    + unfold step. rewrite E. reflexivity.
  - (* Return *)
    destruct (nth_error (s_calls s) c) eqn:E.
    + apply HN. apply (in_progress_call s c (nth_error_lt _ _ _ _ E)). simpl; auto.
    + unfold step. rewrite E. reflexivity.
  - (* CloseWaitDone *)
    apply HN. apply in_progress_cwd.
Qed.

(* ------------------------------------------------------------------ 2. refutation (F3) *)
Definition f3_cfg : config := mkCfg 1 100 1 false (Some 1%N) (fun _ => false).
Definition f3_ls : list label :=
  [Call 1 [mkMsg 1 None 30 0] None; CloseMark; Assign 0; Timer 0 0; Get 0;
   Attempt 0 AppliedAcked; Finish 0; Return 0].

Definition f3_msg : msg := mkMsg 1 None 30 0.
Definition f3_state : state :=
  mkSt ClWaiting 1
       [mkPw (1%N, 0%N) true 1 [(mkBatch 0 [f3_msg] 30, None)] None [] None true []]
       [mkCall 1 [f3_msg] [(0, 0)] (CReturned RNil)]
       [mkAtt 0 0 (1%N, 0%N) [f3_msg] true None]
       [((1%N, 0%N), f3_msg)]
       [([f3_msg], None)]
       true.

Lemma C09_w_close_refuted_proof : stmt_C09_w_close_refuted.
Proof.
  exists f3_cfg, f3_ls, f3_state. split; [|split].
  - unfold cfg_ok; simpl; lia.
  - unfold runs. vm_compute. reflexivity.
  - apply stuckb_sound_proof. vm_compute. reflexivity.
Qed.

(* hence the full-strength statement is false *)
Lemma C09_w_close_no_stuck_false : ~ stmt_C09_w_close_no_stuck.
Proof.
  intros H. destruct C09_w_close_refuted_proof as [cfg [ls [s [Hc [Hr Hs]]]]].
  exact (H cfg ls s Hc Hr Hs).
Qed.

(* ------------------------------------------------------------------ 3. the WaitGroup is exact *)
Definition pww (pw : pwriter) : nat := (if pw_alive pw then 1 else 0) + length (pw_await pw).
Fixpoint wsum (l : list pwriter) : nat := match l with [] => 0 | p :: r => pww p + wsum r end.
Definition acw (c : call) : nat := if returned c then 0 else 1.
Fixpoint csum (l : list call) : nat := match l with [] => 0 | c :: r => acw c + csum r end.

Lemma live_wsum : forall l, length (filter pw_alive l) + length (flat_map pw_await l) = wsum l.
Proof.
  induction l; simpl; auto. unfold pww. rewrite app_length. destruct (pw_alive a); simpl; lia.
Qed.

Lemma active_csum : forall l, length (filter (fun c => negb (returned c)) l) = csum l.
Proof. induction l; simpl; auto. unfold acw. destruct (returned a); simpl; lia. Qed.

Lemma wsum_upd : forall l p x y, nth_error l p = Some x -> wsum (upd l p y) + pww x = wsum l + pww y.
Proof.
  induction l; destruct p; simpl; intros x y H; try discriminate.
  - inversion H; subst; lia.
  - specialize (IHl _ _ y H). lia.
Qed.

Lemma csum_upd : forall l p x y, nth_error l p = Some x -> csum (upd l p y) + acw x = csum l + acw y.
Proof.
  induction l; destruct p; simpl; intros x y H; try discriminate.
  - inversion H; subst; lia.
  - specialize (IHl _ _ y H). lia.
Qed.

Lemma wsum_app : forall a b, wsum (a ++ b) = wsum a + wsum b.
Proof. induction a; simpl; intros; auto. rewrite IHa; lia. Qed.

Lemma csum_app : forall a b, csum (a ++ b) = csum a + csum b.
Proof. induction a; simpl; intros; auto. rewrite IHa; lia. Qed.

Definition pw_ok (pw : pwriter) : Prop :=
  NoDup (pw_await pw) /\ forall k, In k (pw_await pw) -> k < pw_nb pw.

Lemma pw_ok_ext : forall pw pw', pw_await pw' = pw_await pw -> pw_nb pw' = pw_nb pw -> pw_ok pw -> pw_ok pw'.
Proof. unfold pw_ok. intros pw pw' -> ->. auto. Qed.

Lemma pww_ext : forall pw pw', pw_await pw' = pw_await pw -> pw_alive pw' = pw_alive pw -> pww pw' = pww pw.
Proof. unfold pww. intros pw pw' -> ->. auto. Qed.

Lemma put_await : forall pw b, pw_await (put pw b) = pw_await pw.
Proof. intros. unfold put. destruct (pw_open pw); reflexivity. Qed.
Lemma put_nb : forall pw b, pw_nb (put pw b) = pw_nb pw.
Proof. intros. unfold put. destruct (pw_open pw); reflexivity. Qed.
Lemma put_alive : forall pw b, pw_alive (put pw b) = pw_alive pw.
Proof. intros. unfold put. destruct (pw_open pw); reflexivity. Qed.
Lemma put_open : forall pw b, pw_open (put pw b) = pw_open pw.
Proof. intros. unfold put. destruct (pw_open pw) eqn:E; simpl; auto. Qed.
Lemma put_tp : forall pw b, pw_tp (put pw b) = pw_tp pw.
Proof. intros. unfold put. destruct (pw_open pw); reflexivity. Qed.
Lemma put_fin : forall pw b, pw_fin (put pw b) = pw_fin pw.
Proof. intros. unfold put. destruct (pw_open pw); reflexivity. Qed.
Lemma put_snd : forall pw b, pw_snd (put pw b) = pw_snd pw.
Proof. intros. unfold put. destruct (pw_open pw); reflexivity. Qed.
Lemma put_curr : forall pw b, pw_curr (put pw b) = pw_curr pw.
Proof. intros. unfold put. destruct (pw_open pw); reflexivity. Qed.

Lemma Forall_upd : forall A (P : A -> Prop) l i x, Forall P l -> P x -> Forall P (upd l i x).
Proof.
  induction l; destruct i; simpl; intros x HF Hx; auto; inversion HF; subst; constructor; auto.
Qed.

Lemma Forall_nth : forall A (P : A -> Prop) l i x, Forall P l -> nth_error l i = Some x -> P x.
Proof. intros A P l i x HF H. rewrite Forall_forall in HF. apply HF. eapply nth_error_In; eauto. Qed.

Lemma NoDup_app_snoc_lt : forall l n, NoDup l -> (forall k, In k l -> k < n) -> NoDup (l ++ [n]).
Proof.
  induction l as [|a l IHl]; simpl; intros n ND LT.
  - constructor; [intros []|constructor].
  - pose proof (LT a (or_introl eq_refl)) as La. inversion ND; subst. constructor.
    + intros Hin. apply in_app_or in Hin. destruct Hin as [Hin|[Hin|[]]]; [contradiction|]. lia.
    + apply IHl; auto.
Qed.

(* what pw_add does to the accounted goroutines *)
Lemma pw_add_shape : forall cfg pw m pw' k sp, pw_add cfg pw m = (pw', k, sp) ->
  pw_alive pw' = pw_alive pw /\
  ((pw_await pw' = pw_await pw /\ pw_nb pw' = pw_nb pw /\ sp = 0) \/
   (pw_await pw' = pw_await pw ++ [pw_nb pw] /\ pw_nb pw' = S (pw_nb pw) /\ sp = 1)).
Proof.
  intros cfg pw m pw' k sp H. unfold pw_add, new_batch in H.
  destruct (pw_curr pw) as [b|]; [destruct (add_fits cfg b m)|]; simpl in H;
    match type of H with context [if ?c then _ else _] => destruct c end;
    inversion H; subst; simpl; rewrite ?put_await, ?put_nb, ?put_alive; simpl;
    rewrite ?put_await, ?put_nb, ?put_alive; auto.
Qed.

Lemma pw_add_wg : forall cfg pw m pw' k sp, pw_add cfg pw m = (pw', k, sp) ->
  pww pw' = pww pw + sp /\ (pw_ok pw -> pw_ok pw').
Proof.
  intros cfg pw m pw' k sp H. apply pw_add_shape in H. destruct H as [Ha [[Hw [Hn ->]]|[Hw [Hn ->]]]].
  - split; [unfold pww; rewrite Ha, Hw; lia|]. apply pw_ok_ext; auto.
  - split; [unfold pww; rewrite Ha, Hw, app_length; simpl; lia|].
    unfold pw_ok. rewrite Hw, Hn. intros [ND LT]. split.
    + apply NoDup_app_snoc_lt; auto.
    + intros k0 Hk. apply in_app_or in Hk. destruct Hk as [Hk|[<-|[]]]; [apply LT in Hk|]; lia.
Qed.
