(* Proofs/WriterC09.v — C09 (Writer): Close, the WaitGroup, stuckness. *)
From Coq Require Import List NArith Bool Arith Lia ZifyN ZifyNat ZifyBool.
From KV Require Import Lib.LTS Model.Writer Proofs.WriterStmts Proofs.WriterBase.
Import ListNotations.

(* ------------------------------------------------------------------ 1. after close *)
Lemma C09_w_after_close_proof : stmt_C09_w_after_close.
Proof.
  unfold stmt_C09_w_after_close. intros cfg s g msgs merr s' Hc H.
  unfold step in H. destruct (call_admissible s g msgs); [|discriminate].
  rewrite Hc in H. inversion H; reflexivity.
Qed.

(* ------------------------------------------------------------------ 5. stuckb is sound *)
Lemma is_none_true : forall A (o : option A), is_none o = true -> o = None.
Proof. destruct o; simpl; congruence. Qed.

Lemma in_progress_pw : forall s p, p < length (s_pws s) ->
  forall l, In l [Get p; SenderExit p; Attempt p AppliedAcked; BackoffDone p; Finish p] ->
  In l (progress_labels s).
Proof.
  intros s p Hp l Hl. unfold progress_labels. apply in_or_app. left.
  apply in_flat_map. exists p. split; [apply in_seq; lia|exact Hl].
Qed.

Lemma in_progress_call : forall s c, c < length (s_calls s) ->
  forall l, In l [Assign c; Return c] -> In l (progress_labels s).
Proof.
  intros s c Hc l Hl. unfold progress_labels.
  apply in_or_app. right. apply in_or_app. right. apply in_or_app. left.
  apply in_flat_map. exists c. split; [apply in_seq; lia|exact Hl].
Qed.

Lemma in_combine_seq : forall A (l : list A) a p x,
  nth_error l p = Some x -> In (a + p, x) (combine (seq a (length l)) l).
Proof.
  induction l; intros a0 p x H; destruct p; simpl in *; try discriminate.
  - inversion H; subst. left. f_equal. lia.
  - right. replace (a0 + S p) with (S a0 + p) by lia. apply IHl. exact H.
Qed.

Lemma in_progress_timer : forall s p pw k,
  nth_error (s_pws s) p = Some pw -> In k (pw_await pw) -> In (Timer p k) (progress_labels s).
Proof.
  intros s p pw k Hp Hk. unfold progress_labels.
  apply in_or_app. right. apply in_or_app. left.
  apply in_flat_map. exists (p, pw). split.
  - apply (in_combine_seq _ (s_pws s) 0 p pw Hp).
  - simpl. apply in_map. exact Hk.
Qed.

Lemma in_progress_cwd : forall s, In CloseWaitDone (progress_labels s).
Proof.
  intros s. unfold progress_labels.
  apply in_or_app. right. apply in_or_app. right. apply in_or_app. right. left. reflexivity.
Qed.

Lemma nth_error_lt : forall A (l : list A) p x, nth_error l p = Some x -> p < length l.
Proof. intros. apply nth_error_Some. congruence. Qed.

Lemma stuckb_sound_proof : stmt_stuckb_sound.
Proof.
  unfold stmt_stuckb_sound, stuckb, stuck. intros cfg s H.
  destruct (s_close s) eqn:Ec; try discriminate. split; [reflexivity|].
  rewrite forallb_forall in H.
  assert (HN : forall l, In l (progress_labels s) -> step cfg s l = None).
  { intros l Hl. apply is_none_true. apply H. exact Hl. }
  clear H.
  intros l Henv. destruct l; simpl in Henv; try discriminate.
  - (* Assign *)
    destruct (nth_error (s_calls s) c) eqn:E.
    + apply HN. apply (in_progress_call s c (nth_error_lt _ _ _ _ E)). simpl; auto.
    + unfold step. rewrite E. reflexivity.
  - (* Timer *)
    destruct (nth_error (s_pws s) p) as [pw|] eqn:E.
    + destruct (existsb (Nat.eqb k) (pw_await pw)) eqn:Ex.
      * apply existsb_exists in Ex. destruct Ex as [x [Hin Hx]]. apply Nat.eqb_eq in Hx. subst x.
        apply HN. eapply in_progress_timer; eauto.
      * unfold step. rewrite E, Ex. reflexivity.
    + unfold step. rewrite E. reflexivity.
  - (* Get *)
    destruct (nth_error (s_pws s) p) as [pw|] eqn:E.
    + apply HN. apply (in_progress_pw s p (nth_error_lt _ _ _ _ E)). simpl; auto.
    + unfold step. rewrite E. reflexivity.
  - (* SenderExit *)
    destruct (nth_error (s_pws s) p) as [pw|] eqn:E.
    + apply HN. apply (in_progress_pw s p (nth_error_lt _ _ _ _ E)). simpl; auto.
    + unfold step. rewrite E. reflexivity.
  - (* Attempt *)
    destruct (nth_error (s_pws s) p) as [pw|] eqn:E.
    + assert (H0 : step cfg s (Attempt p AppliedAcked) = None).
      { apply HN. apply (in_progress_pw s p (nth_error_lt _ _ _ _ E)). simpl; auto. }
      unfold step in *. rewrite E in *.
      destruct (pw_snd pw) as [[b n [| |e]]|]; try reflexivity; discriminate.
    + unfold step. rewrite E. reflexivity.
  - (* BackoffDone *)
    destruct (nth_error (s_pws s) p) as [pw|] eqn:E.
    + apply HN. apply (in_progress_pw s p (nth_error_lt _ _ _ _ E)). simpl; auto 6.
    + unfold step. rewrite E. reflexivity.
  - (* Finish *)
    destruct (nth_error (s_pws s) p) as [pw|] eqn:E.
    + apply HN. apply (in_progress_pw s p (nth_error_lt _ _ _ _ E)). simpl; auto 6.
    + unfold step. rewrite E. reflexivity.
  - (* Return *)
    destruct (nth_error (s_calls s) c) eqn:E.
    + apply HN. apply (in_progress_call s c (nth_error_lt _ _ _ _ E)). simpl; auto.
    + unfold step. rewrite E. reflexivity.
  - (* CloseWaitDone *)
    apply HN. apply in_progress_cwd.
Qed.

(* ------------------------------------------------------------------ 3. the WaitGroup is exact *)
Definition pww (pw : pwriter) : nat := (if pw_alive pw then 1 else 0) + length (pw_await pw).
Fixpoint wsum (l : list pwriter) : nat := match l with [] => 0 | p :: r => pww p + wsum r end.
Definition acw (c : call) : nat := if returned c then 0 else 1.
Fixpoint csum (l : list call) : nat := match l with [] => 0 | c :: r => acw c + csum r end.

Lemma live_wsum : forall l, length (filter pw_alive l) + length (flat_map pw_await l) = wsum l.
Proof.
  induction l; simpl; auto. unfold pww. rewrite app_length. destruct (pw_alive a); simpl; lia.
Qed.

Lemma active_csum : forall l, length (filter (fun c => negb (returned c)) l) = csum l.
Proof. induction l; simpl; auto. unfold acw. destruct (returned a); simpl; lia. Qed.

Lemma wsum_upd : forall l p x y, nth_error l p = Some x -> wsum (upd l p y) + pww x = wsum l + pww y.
Proof.
  induction l; destruct p; simpl; intros x y H; try discriminate.
  - inversion H; subst; lia.
  - specialize (IHl _ _ y H). lia.
Qed.

Lemma csum_upd : forall l p x y, nth_error l p = Some x -> csum (upd l p y) + acw x = csum l + acw y.
Proof.
  induction l; destruct p; simpl; intros x y H; try discriminate.
  - inversion H; subst; lia.
  - specialize (IHl _ _ y H). lia.
Qed.

Lemma wsum_app : forall a b, wsum (a ++ b) = wsum a + wsum b.
Proof. induction a; simpl; intros; auto. rewrite IHa; lia. Qed.

Lemma csum_app : forall a b, csum (a ++ b) = csum a + csum b.
Proof. induction a; simpl; intros; auto. rewrite IHa; lia. Qed.

Definition pw_ok (pw : pwriter) : Prop :=
  NoDup (pw_await pw) /\ forall k, In k (pw_await pw) -> k < pw_nb pw.

Lemma pw_ok_ext : forall pw pw', pw_await pw' = pw_await pw -> pw_nb pw' = pw_nb pw -> pw_ok pw -> pw_ok pw'.
Proof. unfold pw_ok. intros pw pw' -> ->. auto. Qed.

Lemma pww_ext : forall pw pw', pw_await pw' = pw_await pw -> pw_alive pw' = pw_alive pw -> pww pw' = pww pw.
Proof. unfold pww. intros pw pw' -> ->. auto. Qed.

Lemma put_await : forall pw b, pw_await (put pw b) = pw_await pw.
Proof. intros. unfold put. destruct (pw_open pw); reflexivity. Qed.
Lemma put_nb : forall pw b, pw_nb (put pw b) = pw_nb pw.
Proof. intros. unfold put. destruct (pw_open pw); reflexivity. Qed.
Lemma put_alive : forall pw b, pw_alive (put pw b) = pw_alive pw.
Proof. intros. unfold put. destruct (pw_open pw); reflexivity. Qed.
Lemma put_open : forall pw b, pw_open (put pw b) = pw_open pw.
Proof. intros. unfold put. destruct (pw_open pw) eqn:E; simpl; auto. Qed.
Lemma put_tp : forall pw b, pw_tp (put pw b) = pw_tp pw.
Proof. intros. unfold put. destruct (pw_open pw); reflexivity. Qed.
Lemma put_fin : forall pw b, pw_fin (put pw b) = pw_fin pw.
Proof. intros. unfold put. destruct (pw_open pw); reflexivity. Qed.
Lemma put_snd : forall pw b, pw_snd (put pw b) = pw_snd pw.
Proof. intros. unfold put. destruct (pw_open pw); reflexivity. Qed.
Lemma put_curr : forall pw b, pw_curr (put pw b) = pw_curr pw.
Proof. intros. unfold put. destruct (pw_open pw); reflexivity. Qed.

Lemma Forall_upd : forall A (P : A -> Prop) l i x, Forall P l -> P x -> Forall P (upd l i x).
Proof.
  induction l; destruct i; simpl; intros x HF Hx; auto; inversion HF; subst; constructor; auto.
Qed.

Lemma Forall_nth : forall A (P : A -> Prop) l i x, Forall P l -> nth_error l i = Some x -> P x.
Proof. intros A P l i x HF H. rewrite Forall_forall in HF. apply HF. eapply nth_error_In; eauto. Qed.

Lemma NoDup_app_snoc_lt : forall l n, NoDup l -> (forall k, In k l -> k < n) -> NoDup (l ++ [n]).
Proof.
  induction l as [|a l IHl]; simpl; intros n ND LT.
  - constructor; [intros []|constructor].
  - pose proof (LT a (or_introl eq_refl)) as La. inversion ND; subst. constructor.
    + intros Hin. apply in_app_or in Hin. destruct Hin as [Hin|[Hin|[]]]; [contradiction|]. lia.
    + apply IHl; auto.
Qed.

(* what pw_add does to the accounted goroutines *)
Lemma pw_add_shape : forall cfg pw m pw' k sp, pw_add cfg pw m = (pw', k, sp) ->
  pw_alive pw' = pw_alive pw /\
  ((pw_await pw' = pw_await pw /\ pw_nb pw' = pw_nb pw /\ sp = 0) \/
   (pw_await pw' = pw_await pw ++ [pw_nb pw] /\ pw_nb pw' = S (pw_nb pw) /\ sp = 1)).
Proof.
  intros cfg pw m pw' k sp H. unfold pw_add, new_batch in H.
  destruct (pw_curr pw) as [b|]; [destruct (add_fits cfg b m)|]; simpl in H;
    match type of H with context [if ?c then _ else _] => destruct c end;
    inversion H; subst; simpl; rewrite ?put_await, ?put_nb, ?put_alive; simpl;
    rewrite ?put_await, ?put_nb, ?put_alive; auto.
Qed.

Lemma pw_add_wg : forall cfg pw m pw' k sp, pw_add cfg pw m = (pw', k, sp) ->
  pww pw' = pww pw + sp /\ (pw_ok pw -> pw_ok pw').
Proof.
  intros cfg pw m pw' k sp H. apply pw_add_shape in H. destruct H as [Ha [[Hw [Hn ->]]|[Hw [Hn ->]]]].
  - split; [unfold pww; rewrite Ha, Hw; lia|]. apply pw_ok_ext; auto.
  - split; [unfold pww; rewrite Ha, Hw, app_length; simpl; lia|].
    unfold pw_ok. rewrite Hw, Hn. intros [ND LT]. split.
    + apply NoDup_app_snoc_lt; auto.
    + intros k0 Hk. apply in_app_or in Hk. destruct Hk as [Hk|[<-|[]]]; [apply LT in Hk|]; lia.
Qed.

Lemma pws_add_wg : forall cfg tp m pws i pws' ref sp,
  pws_add cfg tp m i pws = Some (pws', ref, sp) ->
  wsum pws' = wsum pws + sp /\ (Forall pw_ok pws -> Forall pw_ok pws').
Proof.
  induction pws as [|a pws IH]; simpl; intros i pws' ref sp H; [discriminate|].
  destruct (pw_open a && tp_eqb (pw_tp a) tp).
  - destruct (pw_add cfg a m) as [[p' k] sp'] eqn:E. inversion H; subst.
    apply pw_add_wg in E. destruct E as [E1 E2]. simpl. split; [lia|].
    intros HF; inversion HF; subst; constructor; auto.
  - destruct (pws_add cfg tp m (S i) pws) as [[[r' ref'] sp']|] eqn:E; [|discriminate].
    inversion H; subst. apply IH in E. destruct E as [E1 E2]. simpl. split; [lia|].
    intros HF; inversion HF; subst; constructor; auto.
Qed.

Lemma new_pw_ok : forall tp, pw_ok (new_pw tp).
Proof. intros tp. split; simpl; [constructor|intros k []]. Qed.

Lemma assign_one_wg : forall cfg pws wg refs m pws' wg' refs',
  assign_one cfg (pws, wg, refs) m = (pws', wg', refs') ->
  wg' + wsum pws = wg + wsum pws' /\ (Forall pw_ok pws -> Forall pw_ok pws').
Proof.
  intros cfg pws wg refs m pws' wg' refs' H. unfold assign_one in H.
  destruct (pws_add cfg (tp_of cfg m) m 0 pws) as [[[r' ref'] sp']|] eqn:E.
  - inversion H; subst. apply pws_add_wg in E. destruct E as [E1 E2]. split; [lia|auto].
  - destruct (pw_add cfg (new_pw (tp_of cfg m)) m) as [[p' k] sp'] eqn:E2.
    inversion H; subst. apply pw_add_wg in E2. destruct E2 as [E3 E4].
    rewrite wsum_app. simpl.
    assert (H1 : pww (new_pw (tp_of cfg m)) = 1) by reflexivity. split; [lia|].
    intros HF. apply Forall_app. split; auto. constructor; auto. apply E4, new_pw_ok.
Qed.

Lemma assign_fold_wg : forall cfg ms pws wg refs pws' wg' refs',
  fold_left (assign_one cfg) ms (pws, wg, refs) = (pws', wg', refs') ->
  wg' + wsum pws = wg + wsum pws' /\ (Forall pw_ok pws -> Forall pw_ok pws').
Proof.
  induction ms as [|m ms IH]; intros pws wg refs pws' wg' refs' H; cbn [fold_left] in H.
  - inversion H; subst. split; auto.
  - destruct (assign_one cfg (pws, wg, refs) m) as [[pws1 wg1] refs1] eqn:E.
    apply assign_one_wg in E. apply IH in H. destruct E, H. split; [lia|auto].
Qed.

Lemma filter_neq_length : forall l k, NoDup l -> In k l ->
  S (length (filter (fun x => negb (Nat.eqb x k)) l)) = length l.
Proof.
  induction l as [|a l IH]; simpl; intros k ND Hin; [contradiction|].
  inversion ND; subst. destruct (Nat.eqb a k) eqn:E; simpl.
  - apply Nat.eqb_eq in E. subst a. f_equal.
    clear IH ND Hin H2. induction l as [|b l IHl]; simpl; auto.
    destruct (Nat.eqb b k) eqn:E; simpl.
    + apply Nat.eqb_eq in E. subst b. exfalso. apply H1. left; reflexivity.
    + f_equal. apply IHl. intros Hin. apply H1. right; exact Hin.
  - f_equal. apply IH; auto. destruct Hin as [->|Hin]; auto.
    rewrite Nat.eqb_refl in E. discriminate.
Qed.

Lemma wsum_map_close : forall l, wsum (map close_pw l) = wsum l.
Proof.
  induction l as [|a l IH]; simpl; auto. rewrite IH. f_equal.
  unfold close_pw. destruct (pw_open a); auto.
  destruct (pw_curr a); unfold pww; simpl; rewrite ?put_alive, ?put_await; auto.
Qed.

Lemma close_pw_ok : forall pw, pw_ok pw -> pw_ok (close_pw pw).
Proof.
  intros pw. apply pw_ok_ext; unfold close_pw; destruct (pw_open pw); auto;
    destruct (pw_curr pw); simpl; rewrite ?put_await, ?put_nb; auto.
Qed.

Definition wg_inv (s : state) : Prop :=
  s_wg s = csum (s_calls s) + wsum (s_pws s) /\ Forall pw_ok (s_pws s).

Ltac pw_upd E :=
  match goal with |- context [upd _ _ ?y] => pose proof (wsum_upd _ _ _ y E) as HU end.

Lemma wg_inv_step : forall cfg s l s', wg_inv s -> step cfg s l = Some s' -> wg_inv s'.
Proof.
  intros cfg s l s' [Hwg Hok] Hst. destruct l; unfold step in Hst.
  - (* Call *)
    destruct (call_admissible s g msgs); [|discriminate].
    destruct (closed s);
      [|destruct msgs; [|destruct (validate cfg merr (m :: msgs))]];
      inversion Hst; subst s'; unfold wg_inv, add_call; simpl; rewrite csum_app; simpl;
      (split; [unfold acw; simpl; lia|auto]).
  - (* Assign *)
    destruct (nth_error (s_calls s) c) as [cl|] eqn:E; [|discriminate].
    destruct (c_ph cl) eqn:Eph; try discriminate.
    destruct (closed s).
    { inversion Hst; subst s'. unfold wg_inv, ret_call; simpl. split; [|auto].
      pose proof (csum_upd _ _ _ (mkCall (c_g cl) (c_msgs cl) (c_refs cl) (CReturned (RErr EClosed))) E) as HC.
      unfold acw, returned in HC. simpl in HC. rewrite Eph in HC. lia. }
    unfold assign_all in Hst.
    destruct (fold_left (assign_one cfg) (c_msgs cl) (s_pws s, s_wg s, [])) as [[pws wg] refs] eqn:EA.
    inversion Hst; subst s'. apply assign_fold_wg in EA. destruct EA as [EA1 EA2].
    unfold wg_inv; simpl. split; [|auto].
    pose proof (csum_upd _ _ _ (mkCall (c_g cl) (c_msgs cl) refs CWaiting) E) as HC.
    unfold acw, returned in HC. simpl in HC. rewrite Eph in HC. lia.
  - (* Timer *)
    destruct (nth_error (s_pws s) p) as [pw|] eqn:E; [|discriminate].
    destruct (existsb (Nat.eqb k) (pw_await pw)) eqn:Ex; [|discriminate].
    apply existsb_exists in Ex. destruct Ex as [x [Hin Hx]]. apply Nat.eqb_eq in Hx. subst x.
    pose proof (Forall_nth _ _ _ _ _ Hok E) as [ND LT].
    pose proof (filter_neq_length _ _ ND Hin) as HL.
    inversion Hst; subst s'; clear Hst. unfold wg_inv, with_pw_done; simpl.
    set (pw1 := match pw_curr pw with
                | Some b => if Nat.eqb (b_k b) k then set_curr (put pw b) None else pw
                | None => pw end).
    assert (Ha : pw_await pw1 = pw_await pw /\ pw_nb pw1 = pw_nb pw /\ pw_alive pw1 = pw_alive pw).
    { unfold pw1. destruct (pw_curr pw) as [b|]; auto. destruct (Nat.eqb (b_k b) k); auto.
      simpl. rewrite put_await, put_nb, put_alive. auto. }
    destruct Ha as [Ha1 [Ha2 Ha3]]. rewrite Ha1. split.
    + pw_upd E. unfold pww in HU. simpl in HU. rewrite ?Ha1, ?Ha3 in HU. lia.
    + apply Forall_upd; auto. unfold pw_ok. simpl. rewrite ?Ha1, ?Ha2. split.
      * apply NoDup_filter; auto.
      * intros k0 Hk. apply filter_In in Hk. apply LT, Hk.
  - (* Get *)
    destruct (nth_error (s_pws s) p) as [pw|] eqn:E; [|discriminate].
    destruct (pw_alive pw) eqn:Eal; [|discriminate].
    destruct (pw_snd pw); [discriminate|]. destruct (pw_queue pw); [discriminate|].
    inversion Hst; subst s'; clear Hst. unfold wg_inv, with_pw; simpl. split.
    + pw_upd E. unfold pww in HU. simpl in HU. lia.
    + apply Forall_upd; auto. eapply pw_ok_ext; [| |exact (Forall_nth _ _ _ _ _ Hok E)]; auto.
  - (* SenderExit *)
    destruct (nth_error (s_pws s) p) as [pw|] eqn:E; [|discriminate].
    destruct (pw_alive pw) eqn:Eal; [|discriminate].
    destruct (pw_snd pw); [discriminate|]. destruct (pw_queue pw); [|discriminate].
    destruct (pw_open pw); [discriminate|].
    inversion Hst; subst s'; clear Hst. unfold wg_inv, with_pw_done; simpl. split.
    + pw_upd E. unfold pww in HU. simpl in HU. rewrite Eal in HU. lia.
    + apply Forall_upd; auto. eapply pw_ok_ext; [| |exact (Forall_nth _ _ _ _ _ Hok E)]; auto.
  - (* Attempt *)
    destruct (nth_error (s_pws s) p) as [pw|] eqn:E; [|discriminate].
    destruct (pw_snd pw) as [[b n [| |e]]|]; try discriminate.
    inversion Hst; subst s'; clear Hst. unfold wg_inv; simpl. split.
    + pw_upd E. unfold pww in HU. simpl in HU. lia.
    + apply Forall_upd; auto. eapply pw_ok_ext; [| |exact (Forall_nth _ _ _ _ _ Hok E)]; auto.
  - (* BackoffDone *)
    destruct (nth_error (s_pws s) p) as [pw|] eqn:E; [|discriminate].
    destruct (pw_snd pw) as [[b n [| |e]]|]; try discriminate.
    inversion Hst; subst s'; clear Hst. unfold wg_inv, with_pw; simpl. split.
    + pw_upd E. unfold pww in HU. simpl in HU. lia.
    + apply Forall_upd; auto. eapply pw_ok_ext; [| |exact (Forall_nth _ _ _ _ _ Hok E)]; auto.
  - (* Finish *)
    destruct (nth_error (s_pws s) p) as [pw|] eqn:E; [|discriminate].
    destruct (pw_snd pw) as [[b n [| |e]]|]; try discriminate.
    inversion Hst; subst s'; clear Hst. unfold wg_inv; simpl. split.
    + pw_upd E. unfold pww in HU. simpl in HU. lia.
    + apply Forall_upd; auto. eapply pw_ok_ext; [| |exact (Forall_nth _ _ _ _ _ Hok E)]; auto.
  - (* Return *)
    destruct (nth_error (s_calls s) c) as [cl|] eqn:E; [|discriminate].
    destruct (c_ph cl) eqn:Eph; try discriminate.
    assert (HR : forall r, wg_inv (ret_call s c cl r)).
    { intros r. unfold wg_inv, ret_call; simpl. split; [|auto].
      pose proof (csum_upd _ _ _ (mkCall (c_g cl) (c_msgs cl) (c_refs cl) (CReturned r)) E) as HC.
      unfold acw, returned in HC. simpl in HC. rewrite Eph in HC. lia. }
    destruct (async cfg); [inversion Hst; subst; apply HR|].
    destruct (all_results (s_pws s) (c_refs cl)); [|discriminate]. inversion Hst; subst; apply HR.
  - (* CtxDone *)
    destruct (nth_error (s_calls s) c) as [cl|] eqn:E; [|discriminate].
    destruct (c_ph cl) eqn:Eph; try discriminate.
    destruct (async cfg); [discriminate|]. inversion Hst; subst s'.
    unfold wg_inv, ret_call; simpl. split; [|auto].
    pose proof (csum_upd _ _ _ (mkCall (c_g cl) (c_msgs cl) (c_refs cl) (CReturned (RErr ECtx))) E) as HC.
    unfold acw, returned in HC. simpl in HC. rewrite Eph in HC. lia.
  - (* CloseMark *)
    destruct (s_close s); try discriminate. inversion Hst; subst s'. unfold wg_inv; simpl.
    rewrite wsum_map_close. split; auto.
    apply Forall_forall. intros x Hx. apply in_map_iff in Hx. destruct Hx as [y [<- Hy]].
    apply close_pw_ok. rewrite Forall_forall in Hok. auto.
  - (* CloseWaitDone *)
    destruct (s_close s); try discriminate. destruct (s_wg s) eqn:W; try discriminate.
    inversion Hst; subst s'. unfold wg_inv; simpl. split; auto; lia.
Qed.

Lemma wg_inv_runs : forall cfg ls s, runs cfg ls s -> wg_inv s.
Proof.
  intros cfg. apply runs_inv.
  - split; simpl; auto.
  - apply wg_inv_step.
Qed.

Lemma C09_w_waitgroup_exact_proof : stmt_C09_w_waitgroup_exact.
Proof.
  unfold stmt_C09_w_waitgroup_exact. intros cfg ls s Hr.
  destruct (wg_inv_runs _ _ _ Hr) as [H _].
  unfold active_calls, alive_senders, awaiters.
  rewrite active_csum, <- Nat.add_assoc, live_wsum. exact H.
Qed.

(* ------------------------------------------------------------------ 4. Close is never stuck *)
Definition pw_wf (pw : pwriter) : Prop :=
  (forall k, k < pw_nb pw -> In k (map b_k (pw_all pw))) /\
  (forall b, pw_curr pw = Some b ->
     In (b_k b) (pw_await pw) /\ b_k b < pw_nb pw /\ pw_open pw = true) /\
  (pw_alive pw = false -> pw_queue pw = [] /\ pw_snd pw = None /\ pw_open pw = false).

Ltac in_all := unfold pw_all in *; simpl in *;
  repeat (progress (repeat match goal with
  | H : context [map _ (_ ++ _)] |- _ => rewrite map_app in H
  | H : context [In _ (_ ++ _)] |- _ => rewrite in_app_iff in H
  | |- context [map _ (_ ++ _)] => rewrite map_app
  | |- context [In _ (_ ++ _)] => rewrite in_app_iff
  end; simpl in * )).

Lemma pw_add_wf : forall cfg pw m pw' k sp, pw_add cfg pw m = (pw', k, sp) ->
  pw_open pw = true -> pw_wf pw ->
  pw_wf pw' /\ pw_nb pw <= pw_nb pw' /\ k < pw_nb pw'.
Proof.
  intros cfg pw m pw' k sp H Ho [W1 [W2 W3]].
  destruct pw as [tp o nb fin snd q cur al aw]. simpl in Ho. subst o.
  unfold pw_add, new_batch, put in H. simpl in *.
  destruct cur as [b|]; [destruct (add_fits cfg b m)|]; simpl in H;
    match type of H with context [if ?c then _ else _] => destruct c end;
    inversion H; subst; clear H; unfold pw_wf; simpl.
  all: try (destruct (W2 _ eq_refl) as [W2a [W2b _]]).
  all: (split; [split; [|split]|]).
  all: match goal with
       | |- forall k : nat, _ -> _ =>
         intros k0 Hk0;
         try first [ apply W1 in Hk0; in_all; tauto
               | match type of Hk0 with _ < S ?n =>
                   assert (Hc : k0 < n \/ k0 = n) by lia end; destruct Hc as [Hc|Hc];
                 [apply W1 in Hc|subst k0]; in_all; tauto ]
       | |- forall b : batch, _ -> _ =>
         intros b0 Hb0; inversion Hb0; subst; clear Hb0; simpl;
         rewrite ?in_app_iff; simpl; try (repeat split; auto; lia)
       | |- _ = false -> _ =>
         intros Hal; try (destruct (W3 Hal) as [_ [_ Hf]]; discriminate)
       | |- _ /\ _ => simpl; try lia
       end.
Qed.

Lemma flush_wf : forall pw b, pw_wf pw -> pw_curr pw = Some b -> pw_wf (set_curr (put pw b) None).
Proof.
  intros pw b [W1 [W2 W3]] Hc. destruct (W2 _ Hc) as [_ [_ Ho]].
  destruct pw as [tp o nb fin snd q cur al aw]. simpl in *. subst. unfold put; simpl.
  unfold pw_wf; simpl. split; [|split].
  - intros k Hk. apply W1 in Hk. in_all. tauto.
  - discriminate.
  - intros Hal. destruct (W3 Hal) as [_ [_ Hf]]. discriminate.
Qed.

Lemma set_await_wf : forall pw a, pw_wf pw ->
  (forall b, pw_curr pw = Some b -> In (b_k b) a) -> pw_wf (set_await pw a).
Proof.
  intros pw a [W1 [W2 W3]] H. destruct pw as [tp o nb fin snd q cur al aw].
  unfold pw_wf; simpl in *. split; [exact W1|split; [|exact W3]].
  intros b Hb. destruct (W2 _ Hb) as [_ [Hx Hy]]. auto.
Qed.

Definition timer_pw (pw : pwriter) (k : nat) : pwriter :=
  let pw1 := match pw_curr pw with
             | Some b => if Nat.eqb (b_k b) k then set_curr (put pw b) None else pw
             | None => pw
             end in
  set_await pw1 (filter (fun x => negb (Nat.eqb x k)) (pw_await pw1)).

Lemma timer_wf : forall pw k, pw_wf pw -> pw_wf (timer_pw pw k).
Proof.
  intros pw k W. unfold timer_pw. destruct (pw_curr pw) as [b|] eqn:Ec.
  - destruct (Nat.eqb (b_k b) k) eqn:Ek.
    + apply set_await_wf; [apply flush_wf; auto|]. simpl. discriminate.
    + apply set_await_wf; auto. intros b0 Hb0. rewrite Ec in Hb0. inversion Hb0; subst b0.
      apply filter_In. split; [|rewrite Ek; reflexivity].
      destruct W as [_ [W2 _]]. apply (W2 _ Ec).
  - apply set_await_wf; auto. intros b0 Hb0. congruence.
Qed.

Lemma timer_open : forall pw k, pw_open (timer_pw pw k) = pw_open pw.
Proof.
  intros. unfold timer_pw. destruct (pw_curr pw) as [b|]; auto.
  destruct (Nat.eqb (b_k b) k); simpl; auto. apply put_open.
Qed.

Lemma timer_nb : forall pw k, pw_nb (timer_pw pw k) = pw_nb pw.
Proof.
  intros. unfold timer_pw. destruct (pw_curr pw) as [b|]; auto.
  destruct (Nat.eqb (b_k b) k); simpl; auto. apply put_nb.
Qed.

Lemma close_pw_wf : forall pw, pw_wf pw -> pw_wf (close_pw pw).
Proof.
  intros pw W. unfold close_pw. destruct (pw_open pw) eqn:Eo; auto.
  assert (G : forall pw1, pw_wf pw1 -> pw_curr pw1 = None ->
              pw_wf (mkPw (pw_tp pw1) false (pw_nb pw1) (pw_fin pw1) (pw_snd pw1) (pw_queue pw1)
                          (pw_curr pw1) (pw_alive pw1) (pw_await pw1))).
  { intros pw1 [W1 [W2 W3]] Hc. unfold pw_wf; simpl. split; [exact W1|split].
    - intros b Hb. congruence.
    - intros Hal. destruct (W3 Hal) as [Ha [Hb _]]. auto. }
  destruct (pw_curr pw) as [b|] eqn:Ec.
  - apply G; [apply flush_wf; auto|reflexivity].
  - apply G; auto.
Qed.

Lemma close_pw_open : forall pw, pw_open (close_pw pw) = false.
Proof. intros pw. unfold close_pw. destruct (pw_open pw) eqn:Eo; auto. Qed.

Lemma close_pw_nb : forall pw, pw_nb (close_pw pw) = pw_nb pw.
Proof.
  intros pw. unfold close_pw. destruct (pw_open pw); auto.
  destruct (pw_curr pw); simpl; auto. apply put_nb.
Qed.

Definition ref_ok (pws : list pwriter) (r : nat * nat) : Prop :=
  exists pw, nth_error pws (fst r) = Some pw /\ snd r < pw_nb pw.
Definition pws_le (a b : list pwriter) : Prop :=
  forall p pw, nth_error a p = Some pw -> exists pw', nth_error b p = Some pw' /\ pw_nb pw <= pw_nb pw'.

Lemma ref_ok_mono : forall a b r, pws_le a b -> ref_ok a r -> ref_ok b r.
Proof.
  intros a b r H [pw [H1 H2]]. destruct (H _ _ H1) as [pw' [H3 H4]]. exists pw'. split; auto. lia.
Qed.

Lemma pws_le_refl : forall a, pws_le a a.
Proof. intros a p pw H. exists pw. auto. Qed.

Lemma pws_le_trans : forall a b c, pws_le a b -> pws_le b c -> pws_le a c.
Proof.
  intros a b c H1 H2 p pw H. destruct (H1 _ _ H) as [pw1 [H3 H4]].
  destruct (H2 _ _ H3) as [pw2 [H5 H6]]. exists pw2. split; auto. lia.
Qed.

Lemma pws_le_upd : forall l p x y, nth_error l p = Some x -> pw_nb x <= pw_nb y -> pws_le l (upd l p y).
Proof.
  intros l p x y H Hn q pw Hq. destruct (Nat.eq_dec p q) as [->|N].
  - exists y. rewrite nth_error_upd_eq by (eapply nth_error_lt; eauto). split; auto. congruence.
  - exists pw. rewrite nth_error_upd_neq by exact N. auto.
Qed.

Lemma pws_le_cons : forall x y l l', pw_nb x <= pw_nb y -> pws_le l l' -> pws_le (x :: l) (y :: l').
Proof.
  intros x y l l' H1 H2 [|p] pw H; simpl in *.
  - inversion H; subst. exists y; auto.
  - apply H2; auto.
Qed.

Lemma pws_le_app : forall l r, pws_le l (l ++ r).
Proof.
  intros l r p pw H. exists pw. split; auto. rewrite nth_error_app1; auto. eapply nth_error_lt; eauto.
Qed.

Lemma pws_le_map_close : forall l, pws_le l (map close_pw l).
Proof.
  intros l p pw H. exists (close_pw pw). split; [apply map_nth_error; auto|rewrite close_pw_nb; auto].
Qed.

Lemma pws_add_wf : forall cfg tp m pws i pws' ref sp,
  pws_add cfg tp m i pws = Some (pws', ref, sp) -> Forall pw_wf pws ->
  Forall pw_wf pws' /\ pws_le pws pws' /\
  (exists pw, i <= fst ref /\ nth_error pws' (fst ref - i) = Some pw /\ snd ref < pw_nb pw).
Proof.
  induction pws as [|a pws IH]; simpl; intros i pws' ref sp H HF; [discriminate|].
  inversion HF; subst.
  destruct (pw_open a && tp_eqb (pw_tp a) tp) eqn:Eo.
  - apply andb_true_iff in Eo. destruct Eo as [Eo _].
    destruct (pw_add cfg a m) as [[p' k] sp'] eqn:E. inversion H; subst.
    destruct (pw_add_wf _ _ _ _ _ _ E Eo H2) as [Q1 [Q2 Q3]]. split; [constructor; auto|split].
    + apply pws_le_cons; auto. apply pws_le_refl.
    + exists p'. simpl. rewrite Nat.sub_diag. simpl. auto.
  - destruct (pws_add cfg tp m (S i) pws) as [[[r' ref'] sp']|] eqn:E; [|discriminate].
    inversion H; subst. destruct (IH _ _ _ _ E H3) as [Q1 [Q2 [pw [Q3 [Q4 Q5]]]]].
    split; [constructor; auto|split].
    + apply pws_le_cons; auto.
    + exists pw. split; [lia|split; auto].
      replace (fst ref - i) with (S (fst ref - S i)) by lia. simpl. auto.
Qed.

Lemma new_pw_wf : forall tp, pw_wf (new_pw tp).
Proof.
  intros tp. unfold pw_wf; simpl. split; [intros k Hk; lia|split; [discriminate|discriminate]].
Qed.

Lemma assign_one_wf : forall cfg pws wg refs m pws' wg' refs',
  assign_one cfg (pws, wg, refs) m = (pws', wg', refs') -> Forall pw_wf pws ->
  Forall pw_wf pws' /\ pws_le pws pws' /\ (Forall (ref_ok pws) refs -> Forall (ref_ok pws') refs').
Proof.
  intros cfg pws wg refs m pws' wg' refs' H HF. unfold assign_one in H.
  destruct (pws_add cfg (tp_of cfg m) m 0 pws) as [[[r' ref'] sp']|] eqn:E.
  - inversion H; subst. destruct (pws_add_wf _ _ _ _ _ _ _ _ E HF) as [Q1 [Q2 [pw [Q3 [Q4 Q5]]]]].
    split; [auto|split; [auto|]]. intros HR. apply Forall_app. split.
    + eapply Forall_impl; [|exact HR]. intros r. apply ref_ok_mono; auto.
    + constructor; [|constructor]. exists pw. rewrite Nat.sub_0_r in Q4. auto.
  - destruct (pw_add cfg (new_pw (tp_of cfg m)) m) as [[p' k] sp'] eqn:E2.
    inversion H; subst.
    destruct (pw_add_wf _ _ _ _ _ _ E2 eq_refl (new_pw_wf _)) as [Q1 [Q2 Q3]].
    split; [apply Forall_app; split; auto|split; [apply pws_le_app|]].
    intros HR. apply Forall_app. split.
    + eapply Forall_impl; [|exact HR]. intros r. apply ref_ok_mono. apply pws_le_app.
    + constructor; [|constructor]. exists p'. simpl.
      rewrite nth_error_app2, Nat.sub_diag by lia. simpl. auto.
Qed.

Lemma assign_fold_wf : forall cfg ms pws wg refs pws' wg' refs',
  fold_left (assign_one cfg) ms (pws, wg, refs) = (pws', wg', refs') -> Forall pw_wf pws ->
  Forall pw_wf pws' /\ pws_le pws pws' /\ (Forall (ref_ok pws) refs -> Forall (ref_ok pws') refs').
Proof.
  induction ms as [|m ms IH]; intros pws wg refs pws' wg' refs' H HF; cbn [fold_left] in H.
  - inversion H; subst. split; [auto|split; [apply pws_le_refl|auto]].
  - destruct (assign_one cfg (pws, wg, refs) m) as [[pws1 wg1] refs1] eqn:E.
    destruct (assign_one_wf _ _ _ _ _ _ _ _ E HF) as [Q1 [Q2 Q3]].
    destruct (IH _ _ _ _ _ _ H Q1) as [R1 [R2 R3]].
    split; [auto|split; [eapply pws_le_trans; eauto|auto]].
Qed.

Definition refs_ok (pws : list pwriter) (cs : list call) : Prop :=
  Forall (fun cl => Forall (ref_ok pws) (c_refs cl)) cs.

Lemma refs_ok_mono : forall a b cs, pws_le a b -> refs_ok a cs -> refs_ok b cs.
Proof.
  intros a b cs H HR. unfold refs_ok in *. eapply Forall_impl; [|exact HR].
  intros cl Hcl. eapply Forall_impl; [|exact Hcl]. intros r. apply ref_ok_mono; auto.
Qed.

Definition cl_inv (s : state) : Prop :=
  Forall pw_wf (s_pws s) /\
  (closed s = true -> Forall (fun pw => pw_open pw = false) (s_pws s)) /\
  refs_ok (s_pws s) (s_calls s).

Lemma cl_inv_upd : forall s p pw pw' wg j lg cp,
  cl_inv s -> nth_error (s_pws s) p = Some pw ->
  pw_wf pw' -> pw_open pw' = pw_open pw -> pw_nb pw <= pw_nb pw' ->
  cl_inv (mkSt (s_close s) wg (upd (s_pws s) p pw') (s_calls s) j lg cp).
Proof.
  intros s p pw pw' wg j lg cp [I1 [I2 I3]] E W Ho Hn. unfold cl_inv; simpl. split; [|split].
  - apply Forall_upd; auto.
  - intros HC. specialize (I2 HC). apply Forall_upd; auto.
    rewrite Ho. apply (Forall_nth _ _ _ _ _ I2 E).
  - eapply refs_ok_mono; [|exact I3]. eapply pws_le_upd; eauto.
Qed.

Ltac wf_fields pw W :=
  destruct pw as [tp o nb fin snd q cur al aw]; destruct W as [W1 [W2 W3]];
  unfold pw_wf; simpl in *; subst.

Lemma cl_inv_step : forall cfg s l s', cl_inv s -> step cfg s l = Some s' -> cl_inv s'.
Proof.
  intros cfg s l s' I Hst. destruct l; unfold step in Hst.
  - (* Call *)
    destruct I as [I1 [I2 I3]].
    destruct (call_admissible s g msgs); [|discriminate].
    assert (HA : forall wg cl, c_refs cl = [] -> cl_inv (add_call s wg cl)).
    { intros wg cl Hcl. unfold cl_inv, add_call; simpl. split; [auto|split; [exact I2|]].
      apply Forall_app. split; [exact I3|]. constructor; [rewrite Hcl; constructor|constructor]. }
    destruct (closed s);
      [|destruct msgs; [|destruct (validate cfg merr (m :: msgs))]];
      inversion Hst; subst s'; apply HA; reflexivity.
  - (* Assign *)
    destruct I as [I1 [I2 I3]].
    destruct (nth_error (s_calls s) c) as [cl|] eqn:E; [|discriminate].
    destruct (c_ph cl) eqn:Eph; try discriminate.
    destruct (closed s) eqn:Ecl.
    { inversion Hst; subst s'. unfold cl_inv, ret_call; simpl.
      split; [auto|split; [intros _; apply I2; reflexivity|]]. apply Forall_upd; auto. simpl.
      apply (Forall_nth _ _ _ _ _ I3 E). }
    unfold assign_all in Hst.
    destruct (fold_left (assign_one cfg) (c_msgs cl) (s_pws s, s_wg s, [])) as [[pws wg] refs] eqn:EA.
    inversion Hst; subst s'; clear Hst.
    destruct (assign_fold_wf _ _ _ _ _ _ _ _ EA I1) as [Q1 [Q2 Q3]].
    unfold cl_inv; simpl. split; [auto|split].
    + intros HC. unfold closed in *. simpl in HC. congruence.
    + unfold refs_ok. apply Forall_upd.
      * apply (refs_ok_mono _ _ _ Q2 I3).
      * simpl. apply Q3. constructor.
  - (* Timer *)
    destruct (nth_error (s_pws s) p) as [pw|] eqn:E; [|discriminate].
    destruct (existsb (Nat.eqb k) (pw_await pw)) eqn:Ex; [|discriminate].
    inversion Hst; subst s'; clear Hst. unfold with_pw_done.
    change (cl_inv (mkSt (s_close s) (pred (s_wg s)) (upd (s_pws s) p (timer_pw pw k)) (s_calls s)
                         (s_journal s) (s_log s) (s_compl s))).
    eapply cl_inv_upd; eauto.
    + apply timer_wf. destruct I as [I1 _]. apply (Forall_nth _ _ _ _ _ I1 E).
    + apply timer_open.
    + rewrite timer_nb. lia.
  - (* Get *)
    destruct (nth_error (s_pws s) p) as [pw|] eqn:E; [|discriminate].
    destruct (pw_alive pw) eqn:Eal; [|discriminate].
    destruct (pw_snd pw) eqn:Es; [discriminate|]. destruct (pw_queue pw) as [|b q0] eqn:Eq; [discriminate|].
    inversion Hst; subst s'; clear Hst. unfold with_pw.
    eapply cl_inv_upd; eauto.
    destruct I as [I1 _]. pose proof (Forall_nth _ _ _ _ _ I1 E) as W. wf_fields pw W.
    split; [|split; [exact W2|discriminate]].
    intros k Hk. apply W1 in Hk. in_all. tauto.
  - (* SenderExit *)
    destruct (nth_error (s_pws s) p) as [pw|] eqn:E; [|discriminate].
    destruct (pw_alive pw) eqn:Eal; [|discriminate].
    destruct (pw_snd pw) eqn:Es; [discriminate|]. destruct (pw_queue pw) as [|b q0] eqn:Eq; [|discriminate].
    destruct (pw_open pw) eqn:Eo; [discriminate|].
    inversion Hst; subst s'; clear Hst. unfold with_pw_done.
    eapply cl_inv_upd; eauto.
    destruct I as [I1 _]. pose proof (Forall_nth _ _ _ _ _ I1 E) as W. wf_fields pw W.
    split; [exact W1|split; [exact W2|auto]].
  - (* Attempt *)
    destruct (nth_error (s_pws s) p) as [pw|] eqn:E; [|discriminate].
    destruct (pw_snd pw) as [[b n [| |e]]|] eqn:Es; try discriminate.
    inversion Hst; subst s'; clear Hst.
    eapply cl_inv_upd; eauto.
    destruct I as [I1 _]. pose proof (Forall_nth _ _ _ _ _ I1 E) as W. wf_fields pw W.
    split; [|split; [exact W2|]].
    + intros k Hk. apply W1 in Hk. in_all. tauto.
    + intros Hal. destruct (W3 Hal) as [_ [Hf _]]. discriminate.
  - (* BackoffDone *)
    destruct (nth_error (s_pws s) p) as [pw|] eqn:E; [|discriminate].
    destruct (pw_snd pw) as [[b n [| |e]]|] eqn:Es; try discriminate.
    inversion Hst; subst s'; clear Hst. unfold with_pw.
    eapply cl_inv_upd; eauto.
    destruct I as [I1 _]. pose proof (Forall_nth _ _ _ _ _ I1 E) as W. wf_fields pw W.
    split; [|split; [exact W2|]].
    + intros k Hk. apply W1 in Hk. in_all. tauto.
    + intros Hal. destruct (W3 Hal) as [_ [Hf _]]. discriminate.
  - (* Finish *)
    destruct (nth_error (s_pws s) p) as [pw|] eqn:E; [|discriminate].
    destruct (pw_snd pw) as [[b n [| |e]]|] eqn:Es; try discriminate.
    inversion Hst; subst s'; clear Hst.
    eapply cl_inv_upd; eauto.
    destruct I as [I1 _]. pose proof (Forall_nth _ _ _ _ _ I1 E) as W. wf_fields pw W.
    split; [|split; [exact W2|]].
    + intros k Hk. apply W1 in Hk. in_all. tauto.
    + intros Hal. destruct (W3 Hal) as [_ [Hf _]]. discriminate.
  - (* Return *)
    destruct (nth_error (s_calls s) c) as [cl|] eqn:E; [|discriminate].
    destruct (c_ph cl) eqn:Eph; try discriminate.
    assert (HR : forall r, cl_inv (ret_call s c cl r)).
    { intros r. destruct I as [I1 [I2 I3]]. unfold cl_inv, ret_call; simpl.
      split; [auto|split; [auto|]]. apply Forall_upd; auto. simpl.
      apply (Forall_nth _ _ _ _ _ I3 E). }
    destruct (async cfg); [inversion Hst; subst; apply HR|].
    destruct (all_results (s_pws s) (c_refs cl)); [|discriminate]. inversion Hst; subst; apply HR.
  - (* CtxDone *)
    destruct (nth_error (s_calls s) c) as [cl|] eqn:E; [|discriminate].
    destruct (c_ph cl) eqn:Eph; try discriminate.
    destruct (async cfg); [discriminate|]. inversion Hst; subst s'.
    destruct I as [I1 [I2 I3]]. unfold cl_inv, ret_call; simpl.
    split; [auto|split; [auto|]]. apply Forall_upd; auto. simpl.
    apply (Forall_nth _ _ _ _ _ I3 E).
  - (* CloseMark *)
    destruct I as [I1 [I2 I3]].
    destruct (s_close s); try discriminate. inversion Hst; subst s'. unfold cl_inv; simpl.
    split; [|split].
    + apply Forall_forall. intros x Hx. apply in_map_iff in Hx. destruct Hx as [y [<- Hy]].
      apply close_pw_wf. rewrite Forall_forall in I1. auto.
    + intros _. apply Forall_forall. intros x Hx. apply in_map_iff in Hx.
      destruct Hx as [y [<- Hy]]. apply close_pw_open.
    + eapply refs_ok_mono; [apply pws_le_map_close|exact I3].
  - (* CloseWaitDone *)
    destruct I as [I1 [I2 I3]].
    destruct (s_close s) eqn:Ec; try discriminate. destruct (s_wg s) eqn:W; try discriminate.
    inversion Hst; subst s'. unfold cl_inv, closed in *; simpl. rewrite Ec in I2.
    split; [auto|split; auto].
Qed.

Lemma cl_inv_runs : forall cfg ls s, runs cfg ls s -> cl_inv s.
Proof.
  intros cfg. apply runs_inv.
  - unfold cl_inv, refs_ok; simpl. split; [constructor|split; [intros; constructor|constructor]].
  - apply cl_inv_step.
Qed.

Lemma ex_or_all : forall A (f : A -> bool) l,
  (exists p x, nth_error l p = Some x /\ f x = true) \/ Forall (fun x => f x = false) l.
Proof.
  induction l as [|a l IH]; [right; constructor|].
  destruct (f a) eqn:E.
  - left. exists 0, a. simpl. auto.
  - destruct IH as [[p [x [H1 H2]]]|IH].
    + left. exists (S p), x. simpl. auto.
    + right. constructor; auto.
Qed.

Lemma find_fin : forall k (fin : list (batch * option err)),
  In k (map b_k (map fst fin)) -> find (fun be => Nat.eqb (b_k (fst be)) k) fin <> None.
Proof.
  induction fin as [|a fin IH]; simpl; intros H; [contradiction|].
  destruct (Nat.eqb (b_k (fst a)) k) eqn:E; [discriminate|].
  destruct H as [H|H]; [apply Nat.eqb_neq in E; contradiction|auto].
Qed.

Definition quiet (pw : pwriter) : Prop := pw_await pw = [] /\ pw_alive pw = false.

Lemma all_results_some : forall pws refs,
  Forall pw_wf pws -> Forall quiet pws -> Forall (ref_ok pws) refs -> all_results pws refs <> None.
Proof.
  induction refs as [|r rs IH]; simpl; intros W Q R; [discriminate|].
  inversion R as [|r0 rs0 Hr Hrs]; subst. destruct Hr as [pw [H1 H2]].
  unfold batch_result. rewrite H1.
  pose proof (Forall_nth _ _ _ _ _ W H1) as [W1 [W2 W3]].
  pose proof (Forall_nth _ _ _ _ _ Q H1) as [Q1 Q2].
  destruct (W3 Q2) as [Hq [Hs _]].
  assert (Hc : pw_curr pw = None).
  { destruct (pw_curr pw) eqn:Ec; auto. destruct (W2 _ eq_refl) as [Hin _].
    rewrite Q1 in Hin. destruct Hin. }
  apply W1 in H2. unfold pw_all in H2. rewrite Hq, Hs, Hc in H2. simpl in H2.
  rewrite app_nil_r in H2. apply find_fin in H2.
  destruct (find (fun be => Nat.eqb (b_k (fst be)) (snd r)) (pw_fin pw)); [|congruence]. simpl.
  specialize (IH W Q Hrs). destruct (all_results pws rs); congruence.
Qed.

Lemma csum_0 : forall l, (forall c, In c l -> returned c = true) -> csum l = 0.
Proof.
  induction l as [|a l IH]; simpl; intros H; auto.
  rewrite IH by auto. unfold acw. rewrite (H a) by auto. reflexivity.
Qed.

Lemma wsum_0 : forall l, Forall quiet l -> wsum l = 0.
Proof.
  induction l as [|a l IH]; simpl; intros H; auto. inversion H as [|x y [Q1 Q2] Hl]; subst.
  rewrite IH by auto. unfold pww. rewrite Q1, Q2. reflexivity.
Qed.

Lemma C09_w_close_no_stuck_proof : stmt_C09_w_close_no_stuck.
Proof.
  unfold stmt_C09_w_close_no_stuck. intros cfg ls s Hr HC.
  destruct (wg_inv_runs _ _ _ Hr) as [Hwg Hok].
  destruct (cl_inv_runs _ _ _ Hr) as [I1 [I2 I3]].
  assert (Hcl : closed s = true) by (unfold closed; rewrite HC; reflexivity).
  specialize (I2 Hcl).
  (* (i) a live awaitBatch goroutine *)
  destruct (ex_or_all _ (fun pw => match pw_await pw with [] => false | _ => true end) (s_pws s))
    as [[p [pw [E Hf]]]|NoAw].
  { destruct (pw_await pw) as [|k aw] eqn:Ea; [discriminate|].
    exists (Timer p k). split; [reflexivity|]. unfold step. rewrite E, Ea. simpl.
    rewrite Nat.eqb_refl. simpl. discriminate. }
  (* (ii) a live sender *)
  destruct (ex_or_all _ pw_alive (s_pws s)) as [[p [pw [E Hal]]]|NoAl].
  { pose proof (Forall_nth _ _ _ _ _ I2 E) as Ho. simpl in Ho.
    destruct (pw_snd pw) as [[b n [| |e]]|] eqn:Es.
    - exists (Attempt p AppliedAcked). split; [reflexivity|]. unfold step. rewrite E, Es. discriminate.
    - exists (BackoffDone p). split; [reflexivity|]. unfold step. rewrite E, Es. discriminate.
    - exists (Finish p). split; [reflexivity|]. unfold step. rewrite E, Es. discriminate.
    - destruct (pw_queue pw) as [|b q] eqn:Eq.
      + exists (SenderExit p). split; [reflexivity|]. unfold step. rewrite E, Hal, Es, Eq, Ho. discriminate.
      + exists (Get p). split; [reflexivity|]. unfold step. rewrite E, Hal, Es, Eq. discriminate. }
  assert (HQ : Forall quiet (s_pws s)).
  { rewrite Forall_forall in *. intros pw Hin. specialize (NoAw pw Hin). specialize (NoAl pw Hin).
    simpl in *. split; auto. destruct (pw_await pw); [reflexivity|discriminate]. }
  (* (iii) a call before batchMessages *)
  destruct (ex_or_all _ (fun c => match c_ph c with CEntered => true | _ => false end) (s_calls s))
    as [[c [cl [E Hf]]]|NoEnt].
  { exists (Assign c). split; [reflexivity|]. unfold step. rewrite E.
    destruct (c_ph cl); try discriminate. rewrite Hcl. discriminate. }
  (* (iv) a waiting call *)
  destruct (ex_or_all _ (fun c => match c_ph c with CWaiting => true | _ => false end) (s_calls s))
    as [[c [cl [E Hf]]]|NoWait].
  { exists (Return c). split; [reflexivity|]. unfold step. rewrite E.
    destruct (c_ph cl); try discriminate.
    destruct (async cfg); [discriminate|].
    destruct (all_results (s_pws s) (c_refs cl)) eqn:EA; [discriminate|].
    exfalso. revert EA. apply all_results_some; auto.
    apply (Forall_nth _ _ _ _ _ I3 E). }
  (* (v) the counter is 0 *)
  exists CloseWaitDone. split; [reflexivity|]. unfold step. rewrite HC.
  assert (H0 : s_wg s = 0).
  { rewrite Hwg, (wsum_0 _ HQ), csum_0; auto.
    rewrite Forall_forall in *. intros c0 Hin. specialize (NoEnt c0 Hin). specialize (NoWait c0 Hin).
    simpl in *. unfold returned. destruct (c_ph c0); try discriminate; reflexivity. }
  rewrite H0. discriminate.
Qed.

Lemma C09_w_close_never_stuck_proof : stmt_C09_w_close_never_stuck.
Proof.
  unfold stmt_C09_w_close_never_stuck. intros cfg ls s Hr [HC Hst].
  destruct (C09_w_close_no_stuck_proof cfg ls s Hr HC) as [l [Hl Hen]].
  apply Hen. apply Hst. exact Hl.
Qed.

(* ------------------------------------------------------------------ 6. after Close returned (partial) *)
Lemma csum_ge : forall l c cl, nth_error l c = Some cl -> acw cl <= csum l.
Proof.
  induction l as [|a l IH]; destruct c; simpl; intros cl H; try discriminate.
  - inversion H; subst; lia.
  - specialize (IH _ _ H). lia.
Qed.

Lemma wsum_ge : forall l p pw, nth_error l p = Some pw -> pww pw <= wsum l.
Proof.
  induction l as [|a l IH]; destruct p; simpl; intros pw H; try discriminate.
  - inversion H; subst; lia.
  - specialize (IH _ _ H). lia.
Qed.

Definition ret_inv (s : state) : Prop := wg_inv s /\ (s_close s = ClReturned -> s_wg s = 0).

Lemma ret_inv_step : forall cfg s l s', ret_inv s -> step cfg s l = Some s' -> ret_inv s'.
Proof.
  intros cfg s l s' [I J] Hst. split; [eapply wg_inv_step; eauto|].
  destruct I as [Hwg _]. destruct l; unfold step in Hst.
  - destruct (call_admissible s g msgs); [|discriminate].
    destruct (closed s) eqn:Ecl;
      [|unfold closed in Ecl; destruct msgs; [|destruct (validate cfg merr (m :: msgs))]];
      inversion Hst; subst s'; simpl; auto; intros HC; rewrite HC in Ecl; discriminate.
  - destruct (nth_error (s_calls s) c) as [cl|] eqn:E; [|discriminate].
    destruct (c_ph cl) eqn:Eph; try discriminate.
    destruct (closed s); [inversion Hst; subst s'; simpl; intros HC; rewrite (J HC); reflexivity|].
    destruct (assign_all cfg (s_pws s) (s_wg s) (c_msgs cl)) as [[pws wg] refs].
    inversion Hst; subst s'; simpl. intros HC. specialize (J HC).
    pose proof (csum_ge _ _ _ E) as G. unfold acw, returned in G. rewrite Eph in G. lia.
  - destruct (nth_error (s_pws s) p) as [pw|]; [|discriminate].
    destruct (existsb (Nat.eqb k) (pw_await pw)); [|discriminate].
    inversion Hst; subst s'; simpl. intros HC. rewrite (J HC). reflexivity.
  - destruct (nth_error (s_pws s) p) as [pw|]; [|discriminate].
    destruct (pw_alive pw); [|discriminate]. destruct (pw_snd pw); [discriminate|].
    destruct (pw_queue pw); [discriminate|]. inversion Hst; subst s'; simpl. auto.
  - destruct (nth_error (s_pws s) p) as [pw|]; [|discriminate].
    destruct (pw_alive pw); [|discriminate]. destruct (pw_snd pw); [discriminate|].
    destruct (pw_queue pw); [|discriminate]. destruct (pw_open pw); [discriminate|].
    inversion Hst; subst s'; simpl. intros HC. rewrite (J HC). reflexivity.
  - destruct (nth_error (s_pws s) p) as [pw|]; [|discriminate].
    destruct (pw_snd pw) as [[b n [| |e]]|]; try discriminate. inversion Hst; subst s'; simpl. auto.
  - destruct (nth_error (s_pws s) p) as [pw|]; [|discriminate].
    destruct (pw_snd pw) as [[b n [| |e]]|]; try discriminate. inversion Hst; subst s'; simpl. auto.
  - destruct (nth_error (s_pws s) p) as [pw|]; [|discriminate].
    destruct (pw_snd pw) as [[b n [| |e]]|]; try discriminate. inversion Hst; subst s'; simpl. auto.
  - destruct (nth_error (s_calls s) c) as [cl|]; [|discriminate].
    destruct (c_ph cl); try discriminate.
    destruct (async cfg); [|destruct (all_results (s_pws s) (c_refs cl)); [|discriminate]];
      inversion Hst; subst s'; simpl; intros HC; rewrite (J HC); reflexivity.
  - destruct (nth_error (s_calls s) c) as [cl|]; [|discriminate].
    destruct (c_ph cl); try discriminate. destruct (async cfg); [discriminate|].
    inversion Hst; subst s'; simpl; intros HC; rewrite (J HC); reflexivity.
  - destruct (s_close s); try discriminate. inversion Hst; subst s'; simpl. discriminate.
  - destruct (s_close s); try discriminate. destruct (s_wg s) eqn:W; try discriminate.
    inversion Hst; subst s'; simpl. auto.
Qed.

Lemma ret_inv_runs : forall cfg ls s, runs cfg ls s -> ret_inv s.
Proof.
  intros cfg. apply runs_inv.
  - split; [split; simpl; auto|discriminate].
  - apply ret_inv_step.
Qed.

(* the first two conjuncts of stmt_C09_w_close_post ;
   the third one is added in C09_w_close_post_proof below *)
Lemma C09_w_close_post_partial_proof :
  forall cfg ls s, runs cfg ls s -> s_close s = ClReturned ->
    (forall p pw, nth_error (s_pws s) p = Some pw ->
       pw_curr pw = None /\ pw_queue pw = [] /\ pw_snd pw = None /\ pw_alive pw = false /\ pw_await pw = []) /\
    (forall c cl, nth_error (s_calls s) c = Some cl -> returned cl = true).
Proof.
  intros cfg ls s Hr HC.
  destruct (ret_inv_runs _ _ _ Hr) as [[Hwg _] J]. specialize (J HC).
  destruct (cl_inv_runs _ _ _ Hr) as [I1 _].
  split.
  - intros p pw E. pose proof (wsum_ge _ _ _ E) as G.
    assert (Hp : pww pw = 0) by lia. unfold pww in Hp.
    assert (Hal : pw_alive pw = false) by (destruct (pw_alive pw); [simpl in Hp; lia|reflexivity]).
    assert (Haw : pw_await pw = []) by (destruct (pw_await pw); [reflexivity|simpl in Hp; lia]).
    destruct (Forall_nth _ _ _ _ _ I1 E) as [W1 [W2 W3]]. destruct (W3 Hal) as [Hq [Hs _]].
    repeat split; auto.
    destruct (pw_curr pw) eqn:Ec; auto. destruct (W2 _ eq_refl) as [Hin _].
    rewrite Haw in Hin. destruct Hin.
  - intros c cl E. pose proof (csum_ge _ _ _ E) as G.
    assert (Hp : acw cl = 0) by lia. unfold acw in Hp. destruct (returned cl); [reflexivity|discriminate].
Qed.

(* ------------------------------------------------------------------ 7. termination variant *)
Fixpoint lsum {A} (f : A -> nat) (l : list A) : nat :=
  match l with [] => 0 | x :: r => f x + lsum f r end.

Lemma lsum_upd : forall A (f : A -> nat) l p x y,
  nth_error l p = Some x -> lsum f (upd l p y) + f x = lsum f l + f y.
Proof.
  induction l; destruct p; simpl; intros x y H; try discriminate.
  - inversion H; subst; lia.
  - specialize (IHl _ _ y H). lia.
Qed.

Lemma lsum_app : forall A (f : A -> nat) a b, lsum f (a ++ b) = lsum f a + lsum f b.
Proof. induction a; simpl; intros; auto. rewrite IHa; lia. Qed.

(* cost of a batch not yet taken by the sender *)
Definition bc (cfg : config) : nat := 2 * maxAttempts cfg + 3.
Definition sc (cfg : config) (sd : sending) : nat :=
  match sd_ph sd with
  | PAttempt => 2 * (maxAttempts cfg - sd_att sd) + 2
  | PBackoff => 2 * (maxAttempts cfg - sd_att sd) + 3
  | PFinish _ => 1
  end.
Definition pwc (cfg : config) (pw : pwriter) : nat :=
  (if pw_alive pw then 1 else 0) + length (pw_await pw)
  + match pw_snd pw with Some sd => sc cfg sd | None => 0 end
  + length (pw_queue pw) * bc cfg
  + match pw_curr pw with Some _ => bc cfg | None => 0 end.
Definition cc (cfg : config) (c : call) : nat :=
  match c_ph c with
  | CEntered => 2 + length (c_msgs c) * (bc cfg + 2)
  | CWaiting => 1
  | CReturned _ => 0
  end.
Definition mu (cfg : config) (s : state) : nat :=
  (match s_close s with ClWaiting => 1 | _ => 0 end)
  + lsum (cc cfg) (s_calls s) + lsum (pwc cfg) (s_pws s).

Lemma filter_le : forall A (f : A -> bool) l, length (filter f l) <= length l.
Proof. induction l; simpl; auto. destruct (f a); simpl; lia. Qed.

Lemma filter_lt : forall k l, existsb (Nat.eqb k) l = true ->
  length (filter (fun x => negb (Nat.eqb x k)) l) < length l.
Proof.
  induction l as [|a l IH]; simpl; intros H; [discriminate|].
  pose proof (filter_le _ (fun x => negb (Nat.eqb x k)) l) as Hle.
  destruct (Nat.eqb a k) eqn:E; simpl; [lia|].
  rewrite Nat.eqb_sym, E in H. simpl in H. specialize (IH H). lia.
Qed.

Lemma timer_cost : forall cfg pw k, existsb (Nat.eqb k) (pw_await pw) = true ->
  pwc cfg (timer_pw pw k) < pwc cfg pw.
Proof.
  intros cfg pw k H. destruct pw as [tp o nb fin snd q cur al aw]. simpl in H.
  pose proof (filter_lt _ _ H) as HL.
  unfold timer_pw, put, pwc; simpl. destruct cur as [b|]; simpl; [|lia].
  destruct (Nat.eqb (b_k b) k); simpl; [|lia].
  destruct o; simpl; rewrite ?app_length; simpl; lia.
Qed.

Lemma pw_add_cost : forall cfg pw m pw' k sp, pw_add cfg pw m = (pw', k, sp) ->
  pwc cfg pw' <= pwc cfg pw + bc cfg + 1.
Proof.
  intros cfg pw m pw' k sp H. destruct pw as [tp o nb fin snd q cur al aw].
  unfold pw_add, new_batch, put in H. simpl in H.
  destruct cur as [b|]; [destruct (add_fits cfg b m)|]; simpl in H;
    match type of H with context [if ?c then _ else _] => destruct c end;
    destruct o; simpl in H; inversion H; subst; clear H; unfold pwc; simpl;
    rewrite ?app_length; simpl; rewrite ?app_length; simpl; lia.
Qed.

Lemma pws_add_cost : forall cfg tp m pws i pws' ref sp,
  pws_add cfg tp m i pws = Some (pws', ref, sp) ->
  lsum (pwc cfg) pws' <= lsum (pwc cfg) pws + bc cfg + 1.
Proof.
  induction pws as [|a pws IH]; simpl; intros i pws' ref sp H; [discriminate|].
  destruct (pw_open a && tp_eqb (pw_tp a) tp).
  - destruct (pw_add cfg a m) as [[p' k] sp'] eqn:E. inversion H; subst.
    apply pw_add_cost in E. simpl. lia.
  - destruct (pws_add cfg tp m (S i) pws) as [[[r' ref'] sp']|] eqn:E; [|discriminate].
    inversion H; subst. apply IH in E. simpl. lia.
Qed.

Lemma assign_one_cost : forall cfg pws wg refs m pws' wg' refs',
  assign_one cfg (pws, wg, refs) m = (pws', wg', refs') ->
  lsum (pwc cfg) pws' <= lsum (pwc cfg) pws + (bc cfg + 2).
Proof.
  intros cfg pws wg refs m pws' wg' refs' H. unfold assign_one in H.
  destruct (pws_add cfg (tp_of cfg m) m 0 pws) as [[[r' ref'] sp']|] eqn:E.
  - inversion H; subst. apply pws_add_cost in E. lia.
  - destruct (pw_add cfg (new_pw (tp_of cfg m)) m) as [[p' k] sp'] eqn:E2.
    inversion H; subst. apply pw_add_cost in E2.
    assert (H1 : pwc cfg (new_pw (tp_of cfg m)) = 1) by reflexivity.
    rewrite lsum_app. simpl. lia.
Qed.

Lemma assign_fold_cost : forall cfg ms pws wg refs pws' wg' refs',
  fold_left (assign_one cfg) ms (pws, wg, refs) = (pws', wg', refs') ->
  lsum (pwc cfg) pws' <= lsum (pwc cfg) pws + length ms * (bc cfg + 2).
Proof.
  induction ms as [|m ms IH]; intros pws wg refs pws' wg' refs' H; cbn [fold_left] in H.
  - inversion H; subst. simpl. lia.
  - destruct (assign_one cfg (pws, wg, refs) m) as [[pws1 wg1] refs1] eqn:E.
    apply assign_one_cost in E. apply IH in H. simpl. lia.
Qed.

Ltac pwc_upd E :=
  match goal with |- context [lsum (pwc ?cfg) (upd ?l ?p ?y)] =>
    pose proof (lsum_upd _ (pwc cfg) _ _ _ y E) as HU;
    let L1 := fresh "L1" in let L2 := fresh "L2" in
    let H1 := fresh in let H2 := fresh in
    remember (lsum (pwc cfg) (upd l p y)) as L1 eqn:H1;
    remember (lsum (pwc cfg) l) as L2 eqn:H2; clear H1 H2
  end.
Ltac cc_upd E :=
  match goal with |- context [lsum (cc ?cfg) (upd ?l ?p ?y)] =>
    pose proof (lsum_upd _ (cc cfg) _ _ _ y E) as HC;
    let L1 := fresh "L1" in let L2 := fresh "L2" in
    let H1 := fresh in let H2 := fresh in
    remember (lsum (cc cfg) (upd l p y)) as L1 eqn:H1;
    remember (lsum (cc cfg) l) as L2 eqn:H2; clear H1 H2
  end.

(* holds in every state, reachable or not *)
Lemma mu_decreases : forall cfg s l s',
  is_env l = false -> step cfg s l = Some s' -> mu cfg s' < mu cfg s.
Proof.
  intros cfg s l s' Henv Hst. destruct l; simpl in Henv; try discriminate; unfold step in Hst.
  - (* Assign *)
    destruct (nth_error (s_calls s) c) as [cl|] eqn:E; [|discriminate].
    destruct (c_ph cl) eqn:Eph; try discriminate.
    destruct (closed s).
    { inversion Hst; subst s'; clear Hst. unfold mu, ret_call; simpl.
      cc_upd E. unfold cc in HC. simpl in HC. rewrite Eph in HC. lia. }
    unfold assign_all in Hst.
    destruct (fold_left (assign_one cfg) (c_msgs cl) (s_pws s, s_wg s, [])) as [[pws wg] refs] eqn:EA.
    inversion Hst; subst s'; clear Hst. apply assign_fold_cost in EA.
    unfold mu; simpl. cc_upd E. unfold cc in HC. simpl in HC. rewrite Eph in HC. lia.
  - (* Timer *)
    destruct (nth_error (s_pws s) p) as [pw|] eqn:E; [|discriminate].
    destruct (existsb (Nat.eqb k) (pw_await pw)) eqn:Ex; [|discriminate].
    inversion Hst; subst s'; clear Hst. unfold with_pw_done, mu; simpl.
    pose proof (timer_cost cfg _ _ Ex) as HT.
    pose proof (lsum_upd _ (pwc cfg) _ _ _ (timer_pw pw k) E) as HU.
    unfold timer_pw in HU at 1. lia.
  - (* Get *)
    destruct (nth_error (s_pws s) p) as [pw|] eqn:E; [|discriminate].
    destruct (pw_alive pw) eqn:Eal; [|discriminate].
    destruct (pw_snd pw) eqn:Es; [discriminate|]. destruct (pw_queue pw) as [|b q0] eqn:Eq; [discriminate|].
    inversion Hst; subst s'; clear Hst. unfold with_pw, mu; simpl. pwc_upd E.
    unfold pwc in HU. simpl in HU. rewrite Eal, Es, Eq in HU. unfold sc, bc in *. simpl in HU.
    destruct (0 <? maxAttempts cfg); simpl in HU; lia.
  - (* SenderExit *)
    destruct (nth_error (s_pws s) p) as [pw|] eqn:E; [|discriminate].
    destruct (pw_alive pw) eqn:Eal; [|discriminate].
    destruct (pw_snd pw) eqn:Es; [discriminate|]. destruct (pw_queue pw) as [|b q0] eqn:Eq; [|discriminate].
    destruct (pw_open pw) eqn:Eo; [discriminate|].
    inversion Hst; subst s'; clear Hst. unfold with_pw_done, mu; simpl. pwc_upd E.
    unfold pwc in HU. simpl in HU. rewrite Eal, Es, Eq in HU. simpl in HU. lia.
  - (* Attempt *)
    destruct (nth_error (s_pws s) p) as [pw|] eqn:E; [|discriminate].
    destruct (pw_snd pw) as [[b n [| |e]]|] eqn:Es; try discriminate.
    inversion Hst; subst s'; clear Hst. unfold mu; simpl. pwc_upd E.
    unfold pwc in HU. simpl in HU. rewrite Es in HU. unfold sc in HU. simpl in HU.
    unfold after_attempt in HU. destruct (r_seen r) as [e|]; simpl in HU; [|lia].
    destruct (retriable cfg e); simpl in HU; [|lia].
    destruct (S n <? maxAttempts cfg) eqn:El; simpl in HU; [|lia].
    apply Nat.ltb_lt in El. lia.
  - (* BackoffDone *)
    destruct (nth_error (s_pws s) p) as [pw|] eqn:E; [|discriminate].
    destruct (pw_snd pw) as [[b n [| |e]]|] eqn:Es; try discriminate.
    inversion Hst; subst s'; clear Hst. unfold with_pw, mu; simpl. pwc_upd E.
    unfold pwc in HU. simpl in HU. rewrite Es in HU. unfold sc in HU. simpl in HU. lia.
  - (* Finish *)
    destruct (nth_error (s_pws s) p) as [pw|] eqn:E; [|discriminate].
    destruct (pw_snd pw) as [[b n [| |e]]|] eqn:Es; try discriminate.
    inversion Hst; subst s'; clear Hst. unfold mu; simpl. pwc_upd E.
    unfold pwc in HU. simpl in HU. rewrite Es in HU. unfold sc in HU. simpl in HU. lia.
  - (* Return *)
    destruct (nth_error (s_calls s) c) as [cl|] eqn:E; [|discriminate].
    destruct (c_ph cl) eqn:Eph; try discriminate.
    assert (HR : forall r, mu cfg (ret_call s c cl r) < mu cfg s).
    { intros r. unfold mu, ret_call; simpl.
      cc_upd E. unfold cc in HC. simpl in HC. rewrite Eph in HC. lia. }
    destruct (async cfg); [inversion Hst; subst; apply HR|].
    destruct (all_results (s_pws s) (c_refs cl)); [|discriminate]. inversion Hst; subst; apply HR.
  - (* CloseWaitDone *)
    destruct (s_close s) eqn:Ec; try discriminate. destruct (s_wg s); try discriminate.
    inversion Hst; subst s'. unfold mu; simpl. rewrite Ec. lia.
Qed.

Lemma C09_w_variant_proof : forall cfg ls s l s',
  runs cfg ls s -> is_env l = false -> step cfg s l = Some s' -> mu cfg s' < mu cfg s.
Proof. intros cfg ls s l s' _. apply mu_decreases. Qed.

(* ------------------------------------------------------------------ 6. after Close returned (full) *)
Definition pw_msgs (pw : pwriter) : list msg := flat_map b_msgs (pw_all pw).
Definition pw_has (pw : pwriter) (m : msg) : Prop := In m (pw_msgs pw).
Definition msg_in (pws : list pwriter) (m : msg) : Prop :=
  exists p pw, nth_error pws p = Some pw /\ pw_has pw m.
Definition fin_ok (compl : list (list msg * option err)) (pw : pwriter) : Prop :=
  forall b e, In (b, e) (pw_fin pw) -> In (b_msgs b, e) compl.
Definition covered (pws : list pwriter) (cl : call) : Prop :=
  c_ph cl = CEntered \/ rejected cl = true \/ forall m, In m (c_msgs cl) -> msg_in pws m.
Definition post_inv (s : state) : Prop :=
  Forall (fin_ok (s_compl s)) (s_pws s) /\ Forall (covered (s_pws s)) (s_calls s).

Lemma fm_app : forall A B (f : A -> list B) l1 l2, flat_map f (l1 ++ l2) = flat_map f l1 ++ flat_map f l2.
Proof. induction l1; simpl; intros; auto. rewrite IHl1, app_assoc. reflexivity. Qed.

Ltac fm_all := unfold pw_has, pw_msgs, pw_all in *; simpl in *;
  repeat (progress (repeat match goal with
  | H : context [flat_map _ (_ ++ _)] |- _ => rewrite fm_app in H
  | H : context [In _ (_ ++ _)] |- _ => rewrite in_app_iff in H
  | |- context [flat_map _ (_ ++ _)] => rewrite fm_app
  | |- context [In _ (_ ++ _)] => rewrite in_app_iff
  end; simpl in * )).

Definition pws_sub (a b : list pwriter) : Prop :=
  forall p pw, nth_error a p = Some pw ->
    exists pw', nth_error b p = Some pw' /\ forall m, pw_has pw m -> pw_has pw' m.

Lemma msg_in_mono : forall a b m, pws_sub a b -> msg_in a m -> msg_in b m.
Proof.
  intros a b m H [p [pw [H1 H2]]]. destruct (H _ _ H1) as [pw' [H3 H4]]. exists p, pw'. auto.
Qed.

Lemma covered_mono : forall a b cl, pws_sub a b -> covered a cl -> covered b cl.
Proof.
  intros a b cl H [C|[C|C]]; [left; auto|right; left; auto|right; right].
  intros m Hm. eapply msg_in_mono; eauto.
Qed.

Lemma pws_sub_refl : forall a, pws_sub a a.
Proof. intros a p pw H. exists pw. auto. Qed.

Lemma pws_sub_trans : forall a b c, pws_sub a b -> pws_sub b c -> pws_sub a c.
Proof.
  intros a b c H1 H2 p pw H. destruct (H1 _ _ H) as [pw1 [H3 H4]].
  destruct (H2 _ _ H3) as [pw2 [H5 H6]]. exists pw2. split; auto.
Qed.

Lemma pws_sub_upd : forall l p x y, nth_error l p = Some x ->
  (forall m, pw_has x m -> pw_has y m) -> pws_sub l (upd l p y).
Proof.
  intros l p x y H Hn q pw Hq. destruct (Nat.eq_dec p q) as [->|N].
  - exists y. rewrite nth_error_upd_eq by (eapply nth_error_lt; eauto). split; auto.
    assert (pw = x) by congruence. subst. auto.
  - exists pw. rewrite nth_error_upd_neq by exact N. auto.
Qed.

Lemma pws_sub_cons : forall x y l l', (forall m, pw_has x m -> pw_has y m) ->
  pws_sub l l' -> pws_sub (x :: l) (y :: l').
Proof.
  intros x y l l' H1 H2 [|p] pw H; simpl in *.
  - inversion H; subst. exists y; auto.
  - apply H2; auto.
Qed.

Lemma pws_sub_app : forall l r, pws_sub l (l ++ r).
Proof.
  intros l r p pw H. exists pw. split; auto. rewrite nth_error_app1; auto. eapply nth_error_lt; eauto.
Qed.

Lemma pw_add_has : forall cfg pw m pw' k sp, pw_add cfg pw m = (pw', k, sp) -> pw_open pw = true ->
  (forall x, pw_has pw x -> pw_has pw' x) /\ pw_has pw' m /\ pw_fin pw' = pw_fin pw.
Proof.
  intros cfg pw m pw' k sp H Ho.
  destruct pw as [tp o nb fin snd q cur al aw]. simpl in Ho. subst o.
  unfold pw_add, new_batch, put in H. simpl in *.
  destruct cur as [b|]; [destruct (add_fits cfg b m)|]; simpl in H;
    match type of H with context [if ?c then _ else _] => destruct c end;
    inversion H; subst; clear H; simpl; (split; [intros x Hx|split; [|reflexivity]]);
    fm_all; tauto.
Qed.

Lemma pws_add_has : forall cfg tp m pws i pws' ref sp,
  pws_add cfg tp m i pws = Some (pws', ref, sp) ->
  pws_sub pws pws' /\ msg_in pws' m /\
  (forall compl, Forall (fin_ok compl) pws -> Forall (fin_ok compl) pws').
Proof.
  induction pws as [|a pws IH]; simpl; intros i pws' ref sp H; [discriminate|].
  destruct (pw_open a && tp_eqb (pw_tp a) tp) eqn:Eo.
  - apply andb_true_iff in Eo. destruct Eo as [Eo _].
    destruct (pw_add cfg a m) as [[p' k] sp'] eqn:E. inversion H; subst.
    destruct (pw_add_has _ _ _ _ _ _ E Eo) as [Q1 [Q2 Q3]]. split; [|split].
    + apply pws_sub_cons; auto. apply pws_sub_refl.
    + exists 0, p'. simpl. auto.
    + intros compl HF. inversion HF; subst. constructor; auto.
      unfold fin_ok in *. rewrite Q3. auto.
  - destruct (pws_add cfg tp m (S i) pws) as [[[r' ref'] sp']|] eqn:E; [|discriminate].
    inversion H; subst. destruct (IH _ _ _ _ E) as [Q1 [[p [pw [Q2 Q2']]] Q3]]. split; [|split].
    + apply pws_sub_cons; auto.
    + exists (S p), pw. simpl. auto.
    + intros compl HF. inversion HF; subst. constructor; auto.
Qed.

Lemma assign_one_has : forall cfg pws wg refs m pws' wg' refs',
  assign_one cfg (pws, wg, refs) m = (pws', wg', refs') ->
  pws_sub pws pws' /\ msg_in pws' m /\
  (forall compl, Forall (fin_ok compl) pws -> Forall (fin_ok compl) pws').
Proof.
  intros cfg pws wg refs m pws' wg' refs' H. unfold assign_one in H.
  destruct (pws_add cfg (tp_of cfg m) m 0 pws) as [[[r' ref'] sp']|] eqn:E.
  - inversion H; subst. eapply pws_add_has; eauto.
  - destruct (pw_add cfg (new_pw (tp_of cfg m)) m) as [[p' k] sp'] eqn:E2.
    inversion H; subst. destruct (pw_add_has _ _ _ _ _ _ E2 eq_refl) as [Q1 [Q2 Q3]].
    split; [apply pws_sub_app|split].
    + exists (length pws), p'. rewrite nth_error_app2, Nat.sub_diag by lia. simpl. auto.
    + intros compl HF. apply Forall_app. split; auto. constructor; [|constructor].
      unfold fin_ok. rewrite Q3. simpl. intros b e [].
Qed.

Lemma assign_fold_has : forall cfg ms pws wg refs pws' wg' refs',
  fold_left (assign_one cfg) ms (pws, wg, refs) = (pws', wg', refs') ->
  pws_sub pws pws' /\ (forall m, In m ms -> msg_in pws' m) /\
  (forall compl, Forall (fin_ok compl) pws -> Forall (fin_ok compl) pws').
Proof.
  induction ms as [|m ms IH]; intros pws wg refs pws' wg' refs' H; cbn [fold_left] in H.
  - inversion H; subst. split; [apply pws_sub_refl|split; [intros m []|auto]].
  - destruct (assign_one cfg (pws, wg, refs) m) as [[pws1 wg1] refs1] eqn:E.
    destruct (assign_one_has _ _ _ _ _ _ _ _ E) as [Q1 [Q2 Q3]].
    destruct (IH _ _ _ _ _ _ H) as [R1 [R2 R3]].
    split; [eapply pws_sub_trans; eauto|split; [|auto]].
    intros m0 [<-|Hin]; [eapply msg_in_mono; eauto|auto].
Qed.

Lemma timer_has : forall pw k, pw_wf pw ->
  (forall x, pw_has pw x -> pw_has (timer_pw pw k) x) /\ pw_fin (timer_pw pw k) = pw_fin pw.
Proof.
  intros pw k [_ [W2 _]]. destruct pw as [tp o nb fin snd q cur al aw]. simpl in W2.
  unfold timer_pw, put. simpl. destruct cur as [b|]; [|split; auto].
  destruct (W2 _ eq_refl) as [_ [_ Ho]]. subst o.
  destruct (Nat.eqb (b_k b) k); simpl; (split; [|reflexivity]); intros x Hx; fm_all; tauto.
Qed.

Lemma close_has : forall pw, pw_wf pw ->
  (forall x, pw_has pw x -> pw_has (close_pw pw) x) /\ pw_fin (close_pw pw) = pw_fin pw.
Proof.
  intros pw [_ [W2 _]]. destruct pw as [tp o nb fin snd q cur al aw]. simpl in W2.
  unfold close_pw, put. simpl. destruct o; [|split; auto].
  destruct cur as [b|]; simpl; (split; [|reflexivity]); intros x Hx; fm_all; tauto.
Qed.

Lemma first_topic_err_kind : forall cfg merr ms i e,
  first_topic_err cfg merr i ms = Some e -> (exists j, e = ETopic j) \/ (exists j e', e = EMeta j e').
Proof.
  induction ms as [|m ms IH]; simpl; intros i e H; [discriminate|].
  destruct (choose_topic cfg m); [|inversion H; left; eauto].
  destruct merr as [[j e']|]; [destruct (Nat.eqb i j); [inversion H; right; eauto|]|]; eapply IH; eauto.
Qed.

Lemma validate_rejected : forall cfg merr ms e g, validate cfg merr ms = Some e ->
  rejected (mkCall g ms [] (CReturned (RErr e))) = true.
Proof.
  intros cfg merr ms e g H. unfold validate in H.
  destruct (first_too_large cfg 0 ms); [inversion H; reflexivity|].
  apply first_topic_err_kind in H. destruct H as [[j ->]|[j [e' ->]]]; reflexivity.
Qed.

Lemma post_inv_upd : forall s p pw pw' wg j lg compl',
  post_inv s -> nth_error (s_pws s) p = Some pw ->
  (forall x, pw_has pw x -> pw_has pw' x) -> fin_ok compl' pw' -> incl (s_compl s) compl' ->
  post_inv (mkSt (s_close s) wg (upd (s_pws s) p pw') (s_calls s) j lg compl').
Proof.
  intros s p pw pw' wg j lg compl' [P1 P2] E Hh Hf Hi. unfold post_inv; simpl. split.
  - apply Forall_upd; auto. eapply Forall_impl; [|exact P1].
    intros a Ha b e Hbe. apply Hi. apply Ha. exact Hbe.
  - eapply Forall_impl; [|exact P2]. intros cl. apply covered_mono. eapply pws_sub_upd; eauto.
Qed.

Lemma post_inv_step : forall cfg s l s',
  cl_inv s -> post_inv s -> step cfg s l = Some s' -> post_inv s'.
Proof.
  intros cfg s l s' [I1 _] P Hst. destruct l; unfold step in Hst.
  - (* Call *)
    destruct P as [P1 P2].
    assert (HA : forall wg cl, covered (s_pws s) cl -> post_inv (add_call s wg cl)).
    { intros wg cl Hcl. unfold post_inv, add_call; simpl. split; [auto|].
      apply Forall_app. split; [exact P2|]. constructor; [exact Hcl|constructor]. }
    destruct (call_admissible s g msgs); [|discriminate].
    destruct (closed s);
      [|destruct msgs; [|destruct (validate cfg merr (m :: msgs)) eqn:Ev]];
      inversion Hst; subst s'; apply HA.
    + right; left; reflexivity.
    + right; right. intros m [].
    + right; left. eapply validate_rejected; eauto.
    + left; reflexivity.
  - (* Assign *)
    destruct P as [P1 P2].
    destruct (nth_error (s_calls s) c) as [cl|] eqn:E; [|discriminate].
    destruct (c_ph cl) eqn:Eph; try discriminate.
    destruct (closed s).
    { inversion Hst; subst s'. unfold post_inv, ret_call; simpl. split; [auto|].
      apply Forall_upd; auto. right; left. reflexivity. }
    unfold assign_all in Hst.
    destruct (fold_left (assign_one cfg) (c_msgs cl) (s_pws s, s_wg s, [])) as [[pws wg] refs] eqn:EA.
    inversion Hst; subst s'; clear Hst.
    destruct (assign_fold_has _ _ _ _ _ _ _ _ EA) as [Q1 [Q2 Q3]].
    unfold post_inv; simpl. split; [auto|]. apply Forall_upd.
    + eapply Forall_impl; [|exact P2]. intros a. apply covered_mono; auto.
    + right; right. simpl. exact Q2.
  - (* Timer *)
    destruct (nth_error (s_pws s) p) as [pw|] eqn:E; [|discriminate].
    destruct (existsb (Nat.eqb k) (pw_await pw)) eqn:Ex; [|discriminate].
    inversion Hst; subst s'; clear Hst. unfold with_pw_done.
    change (post_inv (mkSt (s_close s) (pred (s_wg s)) (upd (s_pws s) p (timer_pw pw k)) (s_calls s)
                           (s_journal s) (s_log s) (s_compl s))).
    destruct (timer_has pw k (Forall_nth _ _ _ _ _ I1 E)) as [T1 T2].
    eapply post_inv_upd; eauto; [|apply incl_refl].
    unfold fin_ok. rewrite T2. destruct P as [P1 _]. apply (Forall_nth _ _ _ _ _ P1 E).
  - (* Get *)
    destruct (nth_error (s_pws s) p) as [pw|] eqn:E; [|discriminate].
    destruct (pw_alive pw) eqn:Eal; [|discriminate].
    destruct (pw_snd pw) eqn:Es; [discriminate|]. destruct (pw_queue pw) as [|b q0] eqn:Eq; [discriminate|].
    inversion Hst; subst s'; clear Hst. unfold with_pw.
    pose proof (Forall_nth _ _ _ _ _ (proj1 P) E) as F.
    eapply post_inv_upd; eauto; [|apply incl_refl].
    destruct pw as [tp o nb fin snd q cur al aw]; simpl in *; subst. intros x Hx. fm_all. tauto.
  - (* SenderExit *)
    destruct (nth_error (s_pws s) p) as [pw|] eqn:E; [|discriminate].
    destruct (pw_alive pw) eqn:Eal; [|discriminate].
    destruct (pw_snd pw) eqn:Es; [discriminate|]. destruct (pw_queue pw) as [|b q0] eqn:Eq; [|discriminate].
    destruct (pw_open pw) eqn:Eo; [discriminate|].
    inversion Hst; subst s'; clear Hst. unfold with_pw_done.
    pose proof (Forall_nth _ _ _ _ _ (proj1 P) E) as F.
    eapply post_inv_upd; eauto; [|apply incl_refl].
    destruct pw as [tp o nb fin snd q cur al aw]; simpl in *; subst. intros x Hx. fm_all. tauto.
  - (* Attempt *)
    destruct (nth_error (s_pws s) p) as [pw|] eqn:E; [|discriminate].
    destruct (pw_snd pw) as [[b n [| |e]]|] eqn:Es; try discriminate.
    inversion Hst; subst s'; clear Hst.
    pose proof (Forall_nth _ _ _ _ _ (proj1 P) E) as F.
    eapply post_inv_upd; eauto; [|apply incl_refl].
    destruct pw as [tp o nb fin snd q cur al aw]; simpl in *; subst. intros x Hx. fm_all. tauto.
  - (* BackoffDone *)
    destruct (nth_error (s_pws s) p) as [pw|] eqn:E; [|discriminate].
    destruct (pw_snd pw) as [[b n [| |e]]|] eqn:Es; try discriminate.
    inversion Hst; subst s'; clear Hst. unfold with_pw.
    pose proof (Forall_nth _ _ _ _ _ (proj1 P) E) as F.
    eapply post_inv_upd; eauto; [|apply incl_refl].
    destruct pw as [tp o nb fin snd q cur al aw]; simpl in *; subst. intros x Hx. fm_all. tauto.
  - (* Finish *)
    destruct (nth_error (s_pws s) p) as [pw|] eqn:E; [|discriminate].
    destruct (pw_snd pw) as [[b n [| |e]]|] eqn:Es; try discriminate.
    inversion Hst; subst s'; clear Hst.
    pose proof (Forall_nth _ _ _ _ _ (proj1 P) E) as F.
    eapply post_inv_upd; eauto.
    + destruct pw as [tp o nb fin snd q cur al aw]; simpl in *; subst. intros x Hx.
      unfold pw_has, pw_msgs, pw_all in *. simpl in *. rewrite map_app. fm_all. tauto.
    + unfold fin_ok in *. simpl. intros b0 e0 Hin. apply in_app_or in Hin. apply in_or_app.
      destruct Hin as [Hin|[Hin|[]]]; [left; auto|right; left]. inversion Hin; reflexivity.
    + apply incl_appl, incl_refl.
  - (* Return *)
    destruct (nth_error (s_calls s) c) as [cl|] eqn:E; [|discriminate].
    destruct (c_ph cl) eqn:Eph; try discriminate.
    assert (HR : forall r, post_inv (ret_call s c cl r)).
    { intros r. destruct P as [P1 P2]. unfold post_inv, ret_call; simpl. split; [auto|].
      apply Forall_upd; auto. right; right. simpl.
      destruct (Forall_nth _ _ _ _ _ P2 E) as [C|[C|C]]; [congruence| |exact C].
      unfold rejected in C. rewrite Eph in C. discriminate. }
    destruct (async cfg); [inversion Hst; subst; apply HR|].
    destruct (all_results (s_pws s) (c_refs cl)); [|discriminate]. inversion Hst; subst; apply HR.
  - (* CtxDone *)
    destruct (nth_error (s_calls s) c) as [cl|] eqn:E; [|discriminate].
    destruct (c_ph cl) eqn:Eph; try discriminate.
    destruct (async cfg); [discriminate|]. inversion Hst; subst s'.
    destruct P as [P1 P2]. unfold post_inv, ret_call; simpl. split; [auto|].
    apply Forall_upd; auto. right; right. simpl.
    destruct (Forall_nth _ _ _ _ _ P2 E) as [C|[C|C]]; [congruence| |exact C].
    unfold rejected in C. rewrite Eph in C. discriminate.
  - (* CloseMark *)
    destruct P as [P1 P2].
    destruct (s_close s); try discriminate. inversion Hst; subst s'. unfold post_inv; simpl. split.
    + apply Forall_forall. intros x Hx. apply in_map_iff in Hx. destruct Hx as [y [<- Hy]].
      rewrite Forall_forall in I1, P1. unfold fin_ok. rewrite (proj2 (close_has y (I1 y Hy))).
      apply P1. exact Hy.
    + eapply Forall_impl; [|exact P2]. intros cl. apply covered_mono.
      intros p pw Hp. exists (close_pw pw). split; [apply map_nth_error; auto|].
      apply close_has. apply (Forall_nth _ _ _ _ _ I1 Hp).
  - (* CloseWaitDone *)
    destruct P as [P1 P2].
    destruct (s_close s); try discriminate. destruct (s_wg s); try discriminate.
    inversion Hst; subst s'. split; auto.
Qed.

Lemma post_inv_runs : forall cfg ls s, runs cfg ls s -> cl_inv s /\ post_inv s.
Proof.
  intros cfg. apply (runs_inv cfg (fun s => cl_inv s /\ post_inv s)).
  - split; [apply (cl_inv_runs cfg [] init); reflexivity|]. split; simpl; constructor.
  - intros s l s' [I P] Hst. split; [eapply cl_inv_step; eauto|eapply post_inv_step; eauto].
Qed.

Lemma C09_w_close_post_proof : stmt_C09_w_close_post.
Proof.
  unfold stmt_C09_w_close_post. intros cfg ls s Hr HC.
  destruct (C09_w_close_post_partial_proof _ _ _ Hr HC) as [H1 H2].
  split; [exact H1|split; [exact H2|]].
  intros c cl m E Hrej Hin.
  destruct (post_inv_runs _ _ _ Hr) as [_ [P1 P2]].
  destruct (Forall_nth _ _ _ _ _ P2 E) as [C|[C|C]].
  - specialize (H2 _ _ E). unfold returned in H2. rewrite C in H2. discriminate.
  - congruence.
  - destruct (C m Hin) as [p [pw [Ep Hh]]].
    destruct (H1 _ _ Ep) as [Hc [Hq [Hs _]]].
    unfold pw_has, pw_msgs, pw_all in Hh. rewrite Hc, Hq, Hs in Hh. simpl in Hh.
    rewrite app_nil_r in Hh. apply in_flat_map in Hh. destruct Hh as [b [Hb Hm]].
    apply in_map_iff in Hb. destruct Hb as [[b' e] [Hb' Hbe]]. simpl in Hb'. subst b'.
    exists (b_msgs b), e. split; [|exact Hm].
    apply (Forall_nth _ _ _ _ _ P1 Ep). exact Hbe.
Qed.
