(* Proofs/WriterC09.v — C09 (Writer): Close, the WaitGroup, stuckness. *)
From Coq Require Import List NArith Bool Arith Lia ZifyN ZifyNat ZifyBool.
From KV Require Import Lib.LTS Model.Writer Proofs.WriterStmts Proofs.WriterBase.
Import ListNotations.

(* ------------------------------------------------------------------ 1. after close *)
Lemma C09_w_after_close_proof : stmt_C09_w_after_close.
Proof.
  unfold stmt_C09_w_after_close. intros cfg s g msgs merr s' Hc H.
  unfold step in H. destruct (call_admissible s g msgs); [|discriminate].
  rewrite Hc in H. inversion H; reflexivity.
Qed.

(* ------------------------------------------------------------------ 5. stuckb is sound *)
Lemma is_none_true : forall A (o : option A), is_none o = true -> o = None.
Proof. destruct o; simpl; congruence. Qed.

Lemma in_progress_pw : forall s p, p < length (s_pws s) ->
  forall l, In l [Get p; SenderExit p; Attempt p AppliedAcked; BackoffDone p; Finish p] ->
  In l (progress_labels s).
Proof.
  intros s p Hp l Hl. unfold progress_labels. apply in_or_app. left.
  apply in_flat_map. exists p. split; [apply in_seq; lia|exact Hl].
Qed.

Lemma in_progress_call : forall s c, c < length (s_calls s) ->
  forall l, In l [Assign c; Return c] -> In l (progress_labels s).
Proof.
  intros s c Hc l Hl. unfold progress_labels.
  apply in_or_app. right. apply in_or_app. right. apply in_or_app. left.
  apply in_flat_map. exists c. split; [apply in_seq; lia|exact Hl].
Qed.

Lemma in_combine_seq : forall A (l : list A) a p x,
  nth_error l p = Some x -> In (a + p, x) (combine (seq a (length l)) l).
Proof.
  induction l; intros a0 p x H; destruct p; simpl in *; try discriminate.
  - inversion H; subst. left. f_equal. lia.
  - right. replace (a0 + S p) with (S a0 + p) by lia. apply IHl. exact H.
Qed.

Lemma in_progress_timer : forall s p pw k,
  nth_error (s_pws s) p = Some pw -> In k (pw_await pw) -> In (Timer p k) (progress_labels s).
Proof.
  intros s p pw k Hp Hk. unfold progress_labels.
  apply in_or_app. right. apply in_or_app. left.
  apply in_flat_map. exists (p, pw). split.
  - apply (in_combine_seq _ (s_pws s) 0 p pw Hp).
  - simpl. apply in_map. exact Hk.
Qed.

Lemma in_progress_cwd : forall s, In CloseWaitDone (progress_labels s).
Proof.
  intros s. unfold progress_labels.
  apply in_or_app. right. apply in_or_app. right. apply in_or_app. right. left. reflexivity.
Qed.

Lemma nth_error_lt : forall A (l : list A) p x, nth_error l p = Some x -> p < length l.
Proof. intros. apply nth_error_Some. congruence. Qed.

Lemma stuckb_sound_proof : stmt_stuckb_sound.
Proof.
  unfold stmt_stuckb_sound, stuckb, stuck. intros cfg s H.
  destruct (s_close s) eqn:Ec; try discriminate. split; [reflexivity|].
  rewrite forallb_forall in H.
  assert (HN : forall l, In l (progress_labels s) -> step cfg s l = None).
  { intros l Hl. apply is_none_true. apply H. exact Hl. }
  clear H.
  intros l Henv. destruct l; simpl in Henv; try discriminate.
  - (* Assign *)
    destruct (nth_error (s_calls s) c) eqn:E.
    + apply HN. apply (in_progress_call s c (nth_error_lt _ _ _ _ E)). simpl; auto.
    + unfold step. rewrite E. reflexivity.
  - (* Timer *)
    destruct (nth_error (s_pws s) p) as [pw|] eqn:E.
    + destruct (existsb (Nat.eqb k) (pw_await pw)) eqn:Ex.
      * apply existsb_exists in Ex. destruct Ex as [x [Hin Hx]]. apply Nat.eqb_eq in Hx. subst x.
        apply HN. eapply in_progress_timer; eauto.
      * unfold step. rewrite E, Ex. reflexivity.
    + unfold step. rewrite E. reflexivity.
  - (* Get *)
    destruct (nth_error (s_pws s) p) as [pw|] eqn:E.
    + apply HN. apply (in_progress_pw s p (nth_error_lt _ _ _ _ E)). simpl; auto.
    + unfold step. rewrite E. reflexivity.
  - (* SenderExit *)
    destruct (nth_error (s_pws s) p) as [pw|] eqn:E.
    + apply HN. apply (in_progress_pw s p (nth_error_lt _ _ _ _ E)). simpl; auto.
    + unfold step. rewrite E. reflexivity.
  - (* Attempt *)
    destruct (nth_error (s_pws s) p) as [pw|] eqn:E.
    + assert (H0 : step cfg s (Attempt p AppliedAcked) = None).
      { apply HN. apply (in_progress_pw s p (nth_error_lt _ _ _ _ E)). simpl; auto. }
      unfold step in *. rewrite E in *.
      destruct (pw_snd pw) as [[b n [| |e]]|]; try reflexivity; discriminate.
    + unfold step. rewrite E. reflexivity.
  - (* BackoffDone *)
    destruct (nth_error (s_pws s) p) as [pw|] eqn:E.
    + apply HN. apply (in_progress_pw s p (nth_error_lt _ _ _ _ E)). simpl; auto 6.
    + unfold step. rewrite E. reflexivity.
  - (* Finish *)
    destruct (nth_error (s_pws s) p) as [pw|] eqn:E.
    + apply HN. apply (in_progress_pw s p (nth_error_lt _ _ _ _ E)). simpl; auto 6.
    + unfold step. rewrite E. reflexivity.
  - (* Return *)
    destruct (nth_error (s_calls s) c) eqn:E.
    + apply HN. apply (in_progress_call s c (nth_error_lt _ _ _ _ E)). simpl; auto.
    + unfold step. rewrite E. reflexivity.
  - (* CloseWaitDone *)
    apply HN. apply in_progress_cwd.
Qed.

(* ------------------------------------------------------------------ 2. refutation (F3) *)
Definition f3_cfg : config := mkCfg 1 100 1 false (Some 1%N) (fun _ => false).
Definition f3_ls : list label :=
  [Call 1 [mkMsg 1 None 30 0] None; CloseMark; Assign 0; Timer 0 0; Get 0;
   Attempt 0 AppliedAcked; Finish 0; Return 0].

Definition f3_msg : msg := mkMsg 1 None 30 0.
Definition f3_state : state :=
  mkSt ClWaiting 1
       [mkPw (1%N, 0%N) true 1 [(mkBatch 0 [f3_msg] 30, None)] None [] None true []]
       [mkCall 1 [f3_msg] [(0, 0)] (CReturned RNil)]
       [mkAtt 0 0 (1%N, 0%N) [f3_msg] true None]
       [((1%N, 0%N), f3_msg)]
       [([f3_msg], None)]
       true.

Lemma C09_w_close_refuted_proof : stmt_C09_w_close_refuted.
Proof.
  exists f3_cfg, f3_ls, f3_state. split; [|split].
  - unfold cfg_ok; simpl; lia.
  - unfold runs. vm_compute. reflexivity.
  - apply stuckb_sound_proof. vm_compute. reflexivity.
Qed.

(* hence the full-strength statement is false *)
Lemma C09_w_close_no_stuck_false : ~ stmt_C09_w_close_no_stuck.
Proof.
  intros H. destruct C09_w_close_refuted_proof as [cfg [ls [s [Hc [Hr Hs]]]]].
  exact (H cfg ls s Hc Hr Hs).
Qed.

(* ------------------------------------------------------------------ 3. the WaitGroup is exact *)
Definition pww (pw : pwriter) : nat := (if pw_alive pw then 1 else 0) + length (pw_await pw).
Fixpoint wsum (l : list pwriter) : nat := match l with [] => 0 | p :: r => pww p + wsum r end.
Definition acw (c : call) : nat := if returned c then 0 else 1.
Fixpoint csum (l : list call) : nat := match l with [] => 0 | c :: r => acw c + csum r end.

Lemma live_wsum : forall l, length (filter pw_alive l) + length (flat_map pw_await l) = wsum l.
Proof.
  induction l; simpl; auto. unfold pww. rewrite app_length. destruct (pw_alive a); simpl; lia.
Qed.

Lemma active_csum : forall l, length (filter (fun c => negb (returned c)) l) = csum l.
Proof. induction l; simpl; auto. unfold acw. destruct (returned a); simpl; lia. Qed.

Lemma wsum_upd : forall l p x y, nth_error l p = Some x -> wsum (upd l p y) + pww x = wsum l + pww y.
Proof.
  induction l; destruct p; simpl; intros x y H; try discriminate.
  - inversion H; subst; lia.
  - specialize (IHl _ _ y H). lia.
Qed.

Lemma csum_upd : forall l p x y, nth_error l p = Some x -> csum (upd l p y) + acw x = csum l + acw y.
Proof.
  induction l; destruct p; simpl; intros x y H; try discriminate.
  - inversion H; subst; lia.
  - specialize (IHl _ _ y H). lia.
Qed.

Lemma wsum_app : forall a b, wsum (a ++ b) = wsum a + wsum b.
Proof. induction a; simpl; intros; auto. rewrite IHa; lia. Qed.

Lemma csum_app : forall a b, csum (a ++ b) = csum a + csum b.
Proof. induction a; simpl; intros; auto. rewrite IHa; lia. Qed.

Definition pw_ok (pw : pwriter) : Prop :=
  NoDup (pw_await pw) /\ forall k, In k (pw_await pw) -> k < pw_nb pw.

Lemma pw_ok_ext : forall pw pw', pw_await pw' = pw_await pw -> pw_nb pw' = pw_nb pw -> pw_ok pw -> pw_ok pw'.
Proof. unfold pw_ok. intros pw pw' -> ->. auto. Qed.

Lemma pww_ext : forall pw pw', pw_await pw' = pw_await pw -> pw_alive pw' = pw_alive pw -> pww pw' = pww pw.
Proof. unfold pww. intros pw pw' -> ->. auto. Qed.

Lemma put_await : forall pw b, pw_await (put pw b) = pw_await pw.
Proof. intros. unfold put. destruct (pw_open pw); reflexivity. Qed.
Lemma put_nb : forall pw b, pw_nb (put pw b) = pw_nb pw.
Proof. intros. unfold put. destruct (pw_open pw); reflexivity. Qed.
Lemma put_alive : forall pw b, pw_alive (put pw b) = pw_alive pw.
Proof. intros. unfold put. destruct (pw_open pw); reflexivity. Qed.
Lemma put_open : forall pw b, pw_open (put pw b) = pw_open pw.
Proof. intros. unfold put. destruct (pw_open pw) eqn:E; simpl; auto. Qed.
Lemma put_tp : forall pw b, pw_tp (put pw b) = pw_tp pw.
Proof. intros. unfold put. destruct (pw_open pw); reflexivity. Qed.
Lemma put_fin : forall pw b, pw_fin (put pw b) = pw_fin pw.
Proof. intros. unfold put. destruct (pw_open pw); reflexivity. Qed.
Lemma put_snd : forall pw b, pw_snd (put pw b) = pw_snd pw.
Proof. intros. unfold put. destruct (pw_open pw); reflexivity. Qed.
Lemma put_curr : forall pw b, pw_curr (put pw b) = pw_curr pw.
Proof. intros. unfold put. destruct (pw_open pw); reflexivity. Qed.

Lemma Forall_upd : forall A (P : A -> Prop) l i x, Forall P l -> P x -> Forall P (upd l i x).
Proof.
  induction l; destruct i; simpl; intros x HF Hx; auto; inversion HF; subst; constructor; auto.
Qed.

Lemma Forall_nth : forall A (P : A -> Prop) l i x, Forall P l -> nth_error l i = Some x -> P x.
Proof. intros A P l i x HF H. rewrite Forall_forall in HF. apply HF. eapply nth_error_In; eauto. Qed.

Lemma NoDup_app_snoc_lt : forall l n, NoDup l -> (forall k, In k l -> k < n) -> NoDup (l ++ [n]).
Proof.
  induction l as [|a l IHl]; simpl; intros n ND LT.
  - constructor; [intros []|constructor].
  - pose proof (LT a (or_introl eq_refl)) as La. inversion ND; subst. constructor.
    + intros Hin. apply in_app_or in Hin. destruct Hin as [Hin|[Hin|[]]]; [contradiction|]. lia.
    + apply IHl; auto.
Qed.

(* what pw_add does to the accounted goroutines *)
Lemma pw_add_shape : forall cfg pw m pw' k sp, pw_add cfg pw m = (pw', k, sp) ->
  pw_alive pw' = pw_alive pw /\
  ((pw_await pw' = pw_await pw /\ pw_nb pw' = pw_nb pw /\ sp = 0) \/
   (pw_await pw' = pw_await pw ++ [pw_nb pw] /\ pw_nb pw' = S (pw_nb pw) /\ sp = 1)).
Proof.
  intros cfg pw m pw' k sp H. unfold pw_add, new_batch in H.
  destruct (pw_curr pw) as [b|]; [destruct (add_fits cfg b m)|]; simpl in H;
    match type of H with context [if ?c then _ else _] => destruct c end;
    inversion H; subst; simpl; rewrite ?put_await, ?put_nb, ?put_alive; simpl;
    rewrite ?put_await, ?put_nb, ?put_alive; auto.
Qed.

Lemma pw_add_wg : forall cfg pw m pw' k sp, pw_add cfg pw m = (pw', k, sp) ->
  pww pw' = pww pw + sp /\ (pw_ok pw -> pw_ok pw').
Proof.
  intros cfg pw m pw' k sp H. apply pw_add_shape in H. destruct H as [Ha [[Hw [Hn ->]]|[Hw [Hn ->]]]].
  - split; [unfold pww; rewrite Ha, Hw; lia|]. apply pw_ok_ext; auto.
  - split; [unfold pww; rewrite Ha, Hw, app_length; simpl; lia|].
    unfold pw_ok. rewrite Hw, Hn. intros [ND LT]. split.
    + apply NoDup_app_snoc_lt; auto.
    + intros k0 Hk. apply in_app_or in Hk. destruct Hk as [Hk|[<-|[]]]; [apply LT in Hk|]; lia.
Qed.

Lemma pws_add_wg : forall cfg tp m pws i pws' ref sp,
  pws_add cfg tp m i pws = Some (pws', ref, sp) ->
  wsum pws' = wsum pws + sp /\ (Forall pw_ok pws -> Forall pw_ok pws').
Proof.
  induction pws as [|a pws IH]; simpl; intros i pws' ref sp H; [discriminate|].
  destruct (pw_open a && tp_eqb (pw_tp a) tp).
  - destruct (pw_add cfg a m) as [[p' k] sp'] eqn:E. inversion H; subst.
    apply pw_add_wg in E. destruct E as [E1 E2]. simpl. split; [lia|].
    intros HF; inversion HF; subst; constructor; auto.
  - destruct (pws_add cfg tp m (S i) pws) as [[[r' ref'] sp']|] eqn:E; [|discriminate].
    inversion H; subst. apply IH in E. destruct E as [E1 E2]. simpl. split; [lia|].
    intros HF; inversion HF; subst; constructor; auto.
Qed.

Lemma new_pw_ok : forall tp, pw_ok (new_pw tp).
Proof. intros tp. split; simpl; [constructor|intros k []]. Qed.

Lemma assign_one_wg : forall cfg pws wg refs m pws' wg' refs',
  assign_one cfg (pws, wg, refs) m = (pws', wg', refs') ->
  wg' + wsum pws = wg + wsum pws' /\ (Forall pw_ok pws -> Forall pw_ok pws').
Proof.
  intros cfg pws wg refs m pws' wg' refs' H. unfold assign_one in H.
  destruct (pws_add cfg (tp_of cfg m) m 0 pws) as [[[r' ref'] sp']|] eqn:E.
  - inversion H; subst. apply pws_add_wg in E. destruct E as [E1 E2]. split; [lia|auto].
  - destruct (pw_add cfg (new_pw (tp_of cfg m)) m) as [[p' k] sp'] eqn:E2.
    inversion H; subst. apply pw_add_wg in E2. destruct E2 as [E3 E4].
    rewrite wsum_app. simpl.
    assert (H1 : pww (new_pw (tp_of cfg m)) = 1) by reflexivity. split; [lia|].
    intros HF. apply Forall_app. split; auto. constructor; auto. apply E4, new_pw_ok.
Qed.

Lemma assign_fold_wg : forall cfg ms pws wg refs pws' wg' refs',
  fold_left (assign_one cfg) ms (pws, wg, refs) = (pws', wg', refs') ->
  wg' + wsum pws = wg + wsum pws' /\ (Forall pw_ok pws -> Forall pw_ok pws').
Proof.
  induction ms as [|m ms IH]; intros pws wg refs pws' wg' refs' H; cbn [fold_left] in H.
  - inversion H; subst. split; auto.
  - destruct (assign_one cfg (pws, wg, refs) m) as [[pws1 wg1] refs1] eqn:E.
    apply assign_one_wg in E. apply IH in H. destruct E, H. split; [lia|auto].
Qed.

Lemma filter_neq_length : forall l k, NoDup l -> In k l ->
  S (length (filter (fun x => negb (Nat.eqb x k)) l)) = length l.
Proof.
  induction l as [|a l IH]; simpl; intros k ND Hin; [contradiction|].
  inversion ND; subst. destruct (Nat.eqb a k) eqn:E; simpl.
  - apply Nat.eqb_eq in E. subst a. f_equal.
    clear IH ND Hin H2. induction l as [|b l IHl]; simpl; auto.
    destruct (Nat.eqb b k) eqn:E; simpl.
    + apply Nat.eqb_eq in E. subst b. exfalso. apply H1. left; reflexivity.
    + f_equal. apply IHl. intros Hin. apply H1. right; exact Hin.
  - f_equal. apply IH; auto. destruct Hin as [->|Hin]; auto.
    rewrite Nat.eqb_refl in E. discriminate.
Qed.

Lemma wsum_map_close : forall l, wsum (map close_pw l) = wsum l.
Proof.
  induction l as [|a l IH]; simpl; auto. rewrite IH. f_equal.
  unfold close_pw. destruct (pw_open a); auto.
  destruct (pw_curr a); unfold pww; simpl; rewrite ?put_alive, ?put_await; auto.
Qed.

Lemma close_pw_ok : forall pw, pw_ok pw -> pw_ok (close_pw pw).
Proof.
  intros pw. apply pw_ok_ext; unfold close_pw; destruct (pw_open pw); auto;
    destruct (pw_curr pw); simpl; rewrite ?put_await, ?put_nb; auto.
Qed.

Definition wg_inv (s : state) : Prop :=
  s_wg s = csum (s_calls s) + wsum (s_pws s) /\ Forall pw_ok (s_pws s).

Ltac pw_upd E :=
  match goal with |- context [upd _ _ ?y] => pose proof (wsum_upd _ _ _ y E) as HU end.

Lemma wg_inv_step : forall cfg s l s', wg_inv s -> step cfg s l = Some s' -> wg_inv s'.
Proof.
  intros cfg s l s' [Hwg Hok] Hst. destruct l; unfold step in Hst.
  - (* Call *)
    destruct (call_admissible s g msgs); [|discriminate].
    destruct (closed s);
      [|destruct msgs; [|destruct (validate cfg merr (m :: msgs))]];
      inversion Hst; subst s'; unfold wg_inv, add_call; simpl; rewrite csum_app; simpl;
      (split; [unfold acw; simpl; lia|auto]).
  - (* Assign *)
    destruct (nth_error (s_calls s) c) as [cl|] eqn:E; [|discriminate].
    destruct (c_ph cl) eqn:Eph; try discriminate.
    unfold assign_all in Hst.
    destruct (fold_left (assign_one cfg) (c_msgs cl) (s_pws s, s_wg s, [])) as [[pws wg] refs] eqn:EA.
    inversion Hst; subst s'. apply assign_fold_wg in EA. destruct EA as [EA1 EA2].
    unfold wg_inv; simpl. split; [|auto].
    pose proof (csum_upd _ _ _ (mkCall (c_g cl) (c_msgs cl) refs CWaiting) E) as HC.
    unfold acw, returned in HC. simpl in HC. rewrite Eph in HC. lia.
  - (* Timer *)
    destruct (nth_error (s_pws s) p) as [pw|] eqn:E; [|discriminate].
    destruct (existsb (Nat.eqb k) (pw_await pw)) eqn:Ex; [|discriminate].
    apply existsb_exists in Ex. destruct Ex as [x [Hin Hx]]. apply Nat.eqb_eq in Hx. subst x.
    pose proof (Forall_nth _ _ _ _ _ Hok E) as [ND LT].
    pose proof (filter_neq_length _ _ ND Hin) as HL.
    inversion Hst; subst s'; clear Hst. unfold wg_inv, with_pw_done; simpl.
    set (pw1 := match pw_curr pw with
                | Some b => if Nat.eqb (b_k b) k then set_curr (put pw b) None else pw
                | None => pw end).
    assert (Ha : pw_await pw1 = pw_await pw /\ pw_nb pw1 = pw_nb pw /\ pw_alive pw1 = pw_alive pw).
    { unfold pw1. destruct (pw_curr pw) as [b|]; auto. destruct (Nat.eqb (b_k b) k); auto.
      simpl. rewrite put_await, put_nb, put_alive. auto. }
    destruct Ha as [Ha1 [Ha2 Ha3]]. split.
    + pw_upd E. unfold pww in HU. simpl in HU. rewrite Ha1, Ha3 in HU. Show. lia.
    + apply Forall_upd; auto. unfold pw_ok. simpl. rewrite Ha1, Ha2. split.
      * apply NoDup_filter; auto.
      * intros k0 Hk. apply filter_In in Hk. apply LT, Hk.
  - (* Get *)
    destruct (nth_error (s_pws s) p) as [pw|] eqn:E; [|discriminate].
    destruct (pw_alive pw) eqn:Eal; [|discriminate].
    destruct (pw_snd pw); [discriminate|]. destruct (pw_queue pw); [discriminate|].
    inversion Hst; subst s'; clear Hst. unfold wg_inv, with_pw; simpl. split.
    + pw_upd E. unfold pww in HU. simpl in HU. lia.
    + apply Forall_upd; auto. eapply pw_ok_ext; [| |exact (Forall_nth _ _ _ _ _ Hok E)]; auto.
  - (* SenderExit *)
    destruct (nth_error (s_pws s) p) as [pw|] eqn:E; [|discriminate].
    destruct (pw_alive pw) eqn:Eal; [|discriminate].
    destruct (pw_snd pw); [discriminate|]. destruct (pw_queue pw); [|discriminate].
    destruct (pw_open pw); [discriminate|].
    inversion Hst; subst s'; clear Hst. unfold wg_inv, with_pw_done; simpl. split.
    + pw_upd E. unfold pww in HU. simpl in HU. rewrite Eal in HU. lia.
    + apply Forall_upd; auto. eapply pw_ok_ext; [| |exact (Forall_nth _ _ _ _ _ Hok E)]; auto.
  - (* Attempt *)
    destruct (nth_error (s_pws s) p) as [pw|] eqn:E; [|discriminate].
    destruct (pw_snd pw) as [[b n [| |e]]|]; try discriminate.
    inversion Hst; subst s'; clear Hst. unfold wg_inv; simpl. split.
    + pw_upd E. unfold pww in HU. simpl in HU. lia.
    + apply Forall_upd; auto. eapply pw_ok_ext; [| |exact (Forall_nth _ _ _ _ _ Hok E)]; auto.
  - (* BackoffDone *)
    destruct (nth_error (s_pws s) p) as [pw|] eqn:E; [|discriminate].
    destruct (pw_snd pw) as [[b n [| |e]]|]; try discriminate.
    inversion Hst; subst s'; clear Hst. unfold wg_inv, with_pw; simpl. split.
    + pw_upd E. unfold pww in HU. simpl in HU. lia.
    + apply Forall_upd; auto. eapply pw_ok_ext; [| |exact (Forall_nth _ _ _ _ _ Hok E)]; auto.
  - (* Finish *)
    destruct (nth_error (s_pws s) p) as [pw|] eqn:E; [|discriminate].
    destruct (pw_snd pw) as [[b n [| |e]]|]; try discriminate.
    inversion Hst; subst s'; clear Hst. unfold wg_inv; simpl. split.
    + pw_upd E. unfold pww in HU. simpl in HU. lia.
    + apply Forall_upd; auto. eapply pw_ok_ext; [| |exact (Forall_nth _ _ _ _ _ Hok E)]; auto.
  - (* Return *)
    destruct (nth_error (s_calls s) c) as [cl|] eqn:E; [|discriminate].
    destruct (c_ph cl) eqn:Eph; try discriminate.
    assert (HR : forall r, wg_inv (ret_call s c cl r)).
    { intros r. unfold wg_inv, ret_call; simpl. split; [|auto].
      pose proof (csum_upd _ _ _ (mkCall (c_g cl) (c_msgs cl) (c_refs cl) (CReturned r)) E) as HC.
      unfold acw, returned in HC. simpl in HC. rewrite Eph in HC. lia. }
    destruct (async cfg); [inversion Hst; subst; apply HR|].
    destruct (all_results (s_pws s) (c_refs cl)); [|discriminate]. inversion Hst; subst; apply HR.
  - (* CtxDone *)
    destruct (nth_error (s_calls s) c) as [cl|] eqn:E; [|discriminate].
    destruct (c_ph cl) eqn:Eph; try discriminate.
    destruct (async cfg); [discriminate|]. inversion Hst; subst s'.
    unfold wg_inv, ret_call; simpl. split; [|auto].
    pose proof (csum_upd _ _ _ (mkCall (c_g cl) (c_msgs cl) (c_refs cl) (CReturned (RErr ECtx))) E) as HC.
    unfold acw, returned in HC. simpl in HC. rewrite Eph in HC. lia.
  - (* CloseMark *)
    destruct (s_close s); try discriminate. inversion Hst; subst s'. unfold wg_inv; simpl.
    rewrite wsum_map_close. split; auto.
    apply Forall_forall. intros x Hx. apply in_map_iff in Hx. destruct Hx as [y [<- Hy]].
    apply close_pw_ok. rewrite Forall_forall in Hok. auto.
  - (* CloseWaitDone *)
    destruct (s_close s); try discriminate. destruct (s_wg s) eqn:W; try discriminate.
    inversion Hst; subst s'. unfold wg_inv; simpl. split; auto. lia.
Qed.

Lemma wg_inv_runs : forall cfg ls s, runs cfg ls s -> wg_inv s.
Proof.
  intros cfg. apply runs_inv.
  - split; simpl; auto.
  - apply wg_inv_step.
Qed.

Lemma C09_w_waitgroup_exact_proof : stmt_C09_w_waitgroup_exact.
Proof.
  unfold stmt_C09_w_waitgroup_exact. intros cfg ls s Hr.
  destruct (wg_inv_runs _ _ _ Hr) as [H _].
  unfold active_calls, alive_senders, awaiters.
  rewrite active_csum, <- Nat.add_assoc, live_wsum. exact H.
Qed.
