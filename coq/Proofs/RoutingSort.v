From Coq Require Import List NArith ZArith Bool Lia Sorted Permutation.
From Coq Require Import ZifyN ZifyNat ZifyBool.
From KV Require Import Model.Routing.
Import ListNotations.
Local Open Scope nat_scope.

(* Proofs/RoutingSort.v — the metadata cache is sorted by update (normalize) and looked up by
   binary search (find_metadata_topic); on a response with distinct topic names the filtered
   answer is exactly "the topic of that name, or UnknownTopicOrPartition". *)

(* ------------------------------------------------------------------ *)
(* 1. the order on names *)

Lemma name_cmp_eq : forall a b, name_cmp a b = Eq <-> a = b.
Proof.
  induction a as [|x a IH]; destruct b as [|y b]; cbn [name_cmp]; split; intro H;
    try discriminate; try reflexivity.
  - destruct (N.compare x y) eqn:E; try discriminate.
    apply N.compare_eq_iff in E. apply IH in H. subst. reflexivity.
  - injection H as Hx Ha. subst. rewrite N.compare_refl. apply IH. reflexivity.
Qed.

Lemma name_cmp_antisym : forall a b, name_cmp b a = CompOpp (name_cmp a b).
Proof.
  induction a as [|x a IH]; destruct b as [|y b]; cbn [name_cmp]; try reflexivity.
  rewrite (N.compare_antisym x y). destruct (N.compare x y); cbn [CompOpp]; auto.
Qed.

Lemma name_cmp_trans : forall a b c,
  name_cmp a b = Lt -> name_cmp b c = Lt -> name_cmp a c = Lt.
Proof.
  induction a as [|x a IH]; destruct b as [|y b]; destruct c as [|z c]; cbn [name_cmp];
    intros H1 H2; try discriminate; try reflexivity.
  destruct (N.compare x y) eqn:E1; try discriminate;
    destruct (N.compare y z) eqn:E2; try discriminate.
  - apply N.compare_eq_iff in E1. apply N.compare_eq_iff in E2. subst.
    rewrite N.compare_refl. eauto.
  - apply N.compare_eq_iff in E1. subst. rewrite E2. reflexivity.
  - apply N.compare_eq_iff in E2. subst. rewrite E1. reflexivity.
  - assert (N.compare x z = Lt) as Hxz.
    { apply N.compare_lt_iff. apply N.compare_lt_iff in E1. apply N.compare_lt_iff in E2.
      eapply N.lt_trans; eauto. }
    rewrite Hxz. reflexivity.
Qed.

Lemma name_ltb_irrefl : forall a, name_ltb a a = false.
Proof.
  intros a. unfold name_ltb. assert (name_cmp a a = Eq) as H by (apply name_cmp_eq; reflexivity).
  rewrite H. reflexivity.
Qed.

Lemma name_ltb_trans : forall a b c,
  name_ltb a b = true -> name_ltb b c = true -> name_ltb a c = true.
Proof.
  unfold name_ltb. intros a b c H1 H2.
  destruct (name_cmp a b) eqn:E1; try discriminate.
  destruct (name_cmp b c) eqn:E2; try discriminate.
  rewrite (name_cmp_trans a b c E1 E2). reflexivity.
Qed.

Lemma name_ltb_total : forall a b, name_ltb a b = false -> name_ltb b a = false -> a = b.
Proof.
  unfold name_ltb. intros a b H1 H2. rewrite (name_cmp_antisym a b) in H2.
  destruct (name_cmp a b) eqn:E; cbn [CompOpp] in H2; try discriminate.
  apply name_cmp_eq. exact E.
Qed.

Lemma name_ltb_asym : forall a b, name_ltb a b = true -> name_ltb b a = false.
Proof.
  unfold name_ltb. intros a b H. rewrite (name_cmp_antisym a b).
  destruct (name_cmp a b); cbn [CompOpp]; try discriminate. reflexivity.
Qed.

Lemma name_eqb_eq : forall a b, name_eqb a b = true <-> a = b.
Proof.
  unfold name_eqb. intros a b. destruct (name_cmp a b) eqn:E; split; intro H;
    try discriminate; try reflexivity.
  - apply name_cmp_eq. exact E.
  - apply name_cmp_eq in H. rewrite H in E. discriminate.
  - apply name_cmp_eq in H. rewrite H in E. discriminate.
Qed.

(* ------------------------------------------------------------------ *)
(* 2. insertion sort *)

Lemma find_none_intro : forall {A} (p : A -> bool) l,
  (forall x, In x l -> p x = false) -> find p l = None.
Proof.
  induction l as [|a l IH]; intros H; cbn [find]; auto.
  rewrite (H a (or_introl eq_refl)). apply IH. intros x Hx. apply H. right. exact Hx.
Qed.

Section ISort.
  Context {A : Type} (lt : A -> A -> bool).

  Lemma insert_by_perm : forall x l, Permutation (insert_by lt x l) (x :: l).
  Proof.
    induction l as [|y l IH]; cbn [insert_by].
    - apply Permutation_refl.
    - destruct (lt x y).
      + apply Permutation_refl.
      + eapply perm_trans; [apply perm_skip, IH | apply perm_swap].
  Qed.

  Lemma isort_acc_perm : forall l acc,
    Permutation (fold_left (fun acc x => insert_by lt x acc) l acc) (l ++ acc).
  Proof.
    induction l as [|a l IH]; intros acc; cbn [fold_left app].
    - apply Permutation_refl.
    - eapply perm_trans; [apply IH|].
      eapply perm_trans; [apply Permutation_app_head, insert_by_perm|].
      apply Permutation_sym, Permutation_middle.
  Qed.

  Lemma isort_perm : forall l, Permutation (isort lt l) l.
  Proof.
    intros l. unfold isort. eapply perm_trans; [apply isort_acc_perm|].
    rewrite app_nil_r. apply Permutation_refl.
  Qed.

  Hypothesis lt_trans : forall a b c, lt a b = true -> lt b c = true -> lt a c = true.
  Hypothesis lt_asym : forall a b, lt a b = true -> lt b a = false.

  Lemma insert_by_sorted : forall x l,
    StronglySorted (fun a b => lt b a = false) l ->
    StronglySorted (fun a b => lt b a = false) (insert_by lt x l).
  Proof.
    induction l as [|y l IH]; intros H; cbn [insert_by].
    - constructor; constructor.
    - apply StronglySorted_inv in H. destruct H as [Hl Hy].
      destruct (lt x y) eqn:E.
      + constructor.
        * constructor; assumption.
        * constructor.
          -- apply lt_asym. exact E.
          -- eapply Forall_impl; [|exact Hy]. intros z Hz. cbv beta in Hz.
             destruct (lt z x) eqn:E2; auto.
             rewrite (lt_trans z x y E2 E) in Hz. discriminate.
      + constructor.
        * apply IH. exact Hl.
        * apply Forall_forall. intros z Hz.
          eapply Permutation_in in Hz; [|apply insert_by_perm].
          destruct Hz as [Hz | Hz].
          -- subst z. exact E.
          -- rewrite Forall_forall in Hy. apply Hy. exact Hz.
  Qed.

  Lemma isort_acc_sorted : forall l acc,
    StronglySorted (fun a b => lt b a = false) acc ->
    StronglySorted (fun a b => lt b a = false)
                   (fold_left (fun acc x => insert_by lt x acc) l acc).
  Proof.
    induction l as [|a l IH]; intros acc H; cbn [fold_left]; auto.
    apply IH. apply insert_by_sorted. exact H.
  Qed.

  Lemma isort_sorted : forall l, StronglySorted (fun a b => lt b a = false) (isort lt l).
  Proof. intros l. unfold isort. apply isort_acc_sorted. constructor. Qed.

  Context {K : Type} (key : A -> K).
  Hypothesis lt_total : forall a b, lt a b = false -> lt b a = false -> key a = key b.

  Lemma sorted_strict : forall l,
    StronglySorted (fun a b => lt b a = false) l -> NoDup (map key l) ->
    StronglySorted (fun a b => lt a b = true) l.
  Proof.
    induction l as [|a l IH]; intros H ND.
    - constructor.
    - apply StronglySorted_inv in H. destruct H as [Hl Ha].
      cbn [map] in ND. apply NoDup_cons_iff in ND. destruct ND as [Hn ND].
      constructor; auto.
      apply Forall_forall. intros b Hb. rewrite Forall_forall in Ha.
      destruct (lt a b) eqn:E; auto. exfalso. apply Hn.
      rewrite (lt_total a b E (Ha b Hb)). apply in_map. exact Hb.
  Qed.

  Lemma isort_strict : forall l, NoDup (map key l) ->
    StronglySorted (fun a b => lt a b = true) (isort lt l).
  Proof.
    intros l ND. apply sorted_strict.
    - apply isort_sorted.
    - eapply Permutation_NoDup; [|exact ND].
      apply Permutation_sym, Permutation_map, isort_perm.
  Qed.
End ISort.

Lemma sort_topics_perm : forall l, Permutation (isort topic_lt l) l.
Proof. intros l. apply isort_perm. Qed.

Lemma sort_topics_sorted : forall l,
  StronglySorted (fun a b => name_ltb (mt_name b) (mt_name a) = false) (isort topic_lt l).
Proof.
  intros l.
  refine (isort_sorted topic_lt _ _ l); unfold topic_lt.
  - intros a b c. apply name_ltb_trans.
  - intros a b. apply name_ltb_asym.
Qed.

Lemma sort_topics_strict : forall l, NoDup (map mt_name l) ->
  StronglySorted (fun a b => name_ltb (mt_name a) (mt_name b) = true) (isort topic_lt l).
Proof.
  intros l H.
  refine (isort_strict topic_lt _ _ mt_name _ l H); unfold topic_lt.
  - intros a b c. apply name_ltb_trans.
  - intros a b. apply name_ltb_asym.
  - intros a b. apply name_ltb_total.
Qed.

(* ------------------------------------------------------------------ *)
(* 3. sort.Search *)

Lemma div2_bounds : forall i j, i < j -> i <= Nat.div2 (i + j) < j.
Proof.
  intros i j H. rewrite Nat.div2_div.
  pose proof (Nat.div_mod_eq (i + j) 2) as H1.
  pose proof (Nat.mod_upper_bound (i + j) 2) as H2.
  lia.
Qed.

Lemma search_loop_spec : forall n f,
  (forall i j, i <= j -> j < n -> f i = true -> f j = true) ->
  forall fuel i j, i <= j -> j <= n -> j - i <= fuel ->
    (forall k, k < i -> f k = false) -> (j < n -> f j = true) ->
    i <= search_loop fuel f i j <= j
    /\ (forall k, k < search_loop fuel f i j -> f k = false)
    /\ (search_loop fuel f i j < n -> f (search_loop fuel f i j) = true).
Proof.
  intros n f Hmono. induction fuel as [|fuel IH]; intros i j Hij Hjn Hfuel Hlo Hhi;
    cbn [search_loop].
  - assert (i = j) by lia. subst. repeat split; auto; lia.
  - destruct (Nat.ltb i j) eqn:E.
    + apply Nat.ltb_lt in E. pose proof (div2_bounds i j E) as Hh.
      cbv zeta. set (h := Nat.div2 (i + j)) in *.
      destruct (f h) eqn:Fh.
      * destruct (IH i h) as (H1 & H2 & H3); try lia; auto.
        repeat split; auto; lia.
      * assert (Hlo' : forall k, k < S h -> f k = false).
        { intros k Hk. destruct (f k) eqn:Fk; auto.
          rewrite (Hmono k h) in Fh; [discriminate | lia | lia | exact Fk]. }
        destruct (IH (S h) j) as (H1 & H2 & H3); try lia; auto.
        repeat split; auto; lia.
    + apply Nat.ltb_ge in E. assert (i = j) by lia. subst. repeat split; auto; lia.
Qed.

Lemma sort_search_spec : forall n f,
  (forall i j, (i <= j)%nat -> (j < n)%nat -> f i = true -> f j = true) ->
  let r := sort_search n f in
  (r <= n)%nat /\ (forall k, (k < r)%nat -> f k = false) /\ ((r < n)%nat -> f r = true).
Proof.
  intros n f Hmono r. unfold sort_search in r.
  destruct (search_loop_spec n f Hmono n 0 n) as (H1 & H2 & H3); try (intros; lia).
  fold r in H1, H2, H3. repeat split; auto; lia.
Qed.

(* ------------------------------------------------------------------ *)
(* 4. the lookup on a strictly sorted list *)

Lemma StronglySorted_nth : forall {A} (R : A -> A -> Prop) l d,
  StronglySorted R l -> forall i j, i < j -> j < length l -> R (nth i l d) (nth j l d).
Proof.
  intros A R l d H. induction H as [|a l Hl IH Ha]; intros i j Hij Hj; cbn [length] in Hj.
  - lia.
  - destruct j as [|j]; [lia|]. destruct i as [|i]; cbn [nth].
    + rewrite Forall_forall in Ha. apply Ha. apply nth_In. lia.
    + apply IH; lia.
Qed.

Lemma find_nth_some : forall {A} (p : A -> bool) l d r,
  r < length l -> p (nth r l d) = true -> (forall k, k < r -> p (nth k l d) = false) ->
  find p l = Some (nth r l d).
Proof.
  induction l as [|a l IH]; intros d r Hr Hp Hk; cbn [length] in Hr.
  - lia.
  - destruct r as [|r]; cbn [nth find] in *.
    + rewrite Hp. reflexivity.
    + rewrite (Hk 0) by lia. apply IH; [lia | exact Hp |].
      intros k Hlt. apply (Hk (S k)). lia.
Qed.

Lemma find_metadata_topic_sorted : forall topics n,
  StronglySorted (fun a b => name_ltb (mt_name a) (mt_name b) = true) topics ->
  find_metadata_topic topics n = find (fun t => name_eqb (mt_name t) n) topics.
Proof.
  intros topics n HS. unfold find_metadata_topic.
  set (f := fun i => negb (name_ltb (mt_name (nth i topics dummy_topic)) n)).
  assert (Hmono : forall i j, i <= j -> j < length topics -> f i = true -> f j = true).
  { intros i j Hij Hj Hi. destruct (Nat.eq_dec i j) as [Heq|Hne]; [subst; exact Hi|].
    assert (Hij' : i < j) by lia.
    pose proof (StronglySorted_nth _ topics dummy_topic HS i j Hij' Hj) as Hlt.
    cbv beta in Hlt. unfold f in *. apply negb_true_iff in Hi. apply negb_true_iff.
    destruct (name_ltb (mt_name (nth j topics dummy_topic)) n) eqn:E; auto.
    rewrite (name_ltb_trans _ _ _ Hlt E) in Hi. discriminate. }
  pose proof (sort_search_spec (length topics) f Hmono) as Hspec. cbv zeta in Hspec.
  set (r := sort_search (length topics) f) in *.
  destruct Hspec as (Hr & Hlo & Hhi).
  assert (Hlo' : forall k, k < r -> name_eqb (mt_name (nth k topics dummy_topic)) n = false).
  { intros k Hk. apply Hlo in Hk. unfold f in Hk. apply negb_false_iff in Hk.
    unfold name_ltb in Hk. unfold name_eqb.
    destruct (name_cmp (mt_name (nth k topics dummy_topic)) n); auto; discriminate. }
  destruct (Nat.ltb r (length topics)) eqn:E; cbn [andb].
  - apply Nat.ltb_lt in E.
    destruct (name_eqb (mt_name (nth r topics dummy_topic)) n) eqn:Eq.
    + symmetry. apply (find_nth_some (fun t => name_eqb (mt_name t) n)); auto.
    + symmetry. apply find_none_intro. intros x Hx.
      destruct (In_nth _ _ dummy_topic Hx) as (k & Hk & Hx'). subst x.
      destruct (Nat.lt_trichotomy k r) as [Hlt|[Heq|Hgt]].
      * apply Hlo'. exact Hlt.
      * subst k. exact Eq.
      * destruct (name_eqb (mt_name (nth k topics dummy_topic)) n) eqn:Ek; auto. exfalso.
        apply name_eqb_eq in Ek.
        pose proof (StronglySorted_nth _ topics dummy_topic HS r k Hgt Hk) as Hlt.
        cbv beta in Hlt. rewrite Ek in Hlt. specialize (Hhi E). unfold f in Hhi.
        rewrite Hlt in Hhi. discriminate.
  - apply Nat.ltb_ge in E. symmetry. apply find_none_intro. intros x Hx.
    destruct (In_nth _ _ dummy_topic Hx) as (k & Hk & Hx'). subst x.
    apply Hlo'. lia.
Qed.

(* ------------------------------------------------------------------ *)
(* 5. the filtered answer *)

Definition answered (m : metadata) (n : name) : md_topic :=
  match find (fun t => name_eqb (mt_name t) n) (md_topics m) with
  | Some t => normalize_topic t
  | None => unknown_topic n
  end.

Lemma map_name_normalize : forall l, map mt_name (map normalize_topic l) = map mt_name l.
Proof. induction l as [|a l IH]; cbn [map]; [reflexivity|]. rewrite IH. reflexivity. Qed.

Lemma find_map_normalize : forall l n,
  find (fun t => name_eqb (mt_name t) n) (map normalize_topic l)
  = option_map normalize_topic (find (fun t => name_eqb (mt_name t) n) l).
Proof.
  induction l as [|a l IH]; intros n; cbn [map find]; [reflexivity|].
  change (mt_name (normalize_topic a)) with (mt_name a).
  destruct (name_eqb (mt_name a) n); [reflexivity | apply IH].
Qed.

Lemma sorted_map_normalize : forall l,
  StronglySorted (fun a b => name_ltb (mt_name a) (mt_name b) = true) l ->
  StronglySorted (fun a b => name_ltb (mt_name a) (mt_name b) = true) (map normalize_topic l).
Proof.
  intros l H. induction H as [|a l Hl IH Ha]; cbn [map]; constructor; auto.
  apply Forall_forall. intros x Hx. apply in_map_iff in Hx. destruct Hx as (y & Hy & Hin).
  subst x. rewrite Forall_forall in Ha. exact (Ha y Hin).
Qed.

Lemma NoDup_map_inj_in : forall {A B} (f : A -> B) l a b,
  NoDup (map f l) -> In a l -> In b l -> f a = f b -> a = b.
Proof.
  induction l as [|x l IH]; intros a b ND Ha Hb Hf; [destruct Ha|].
  cbn [map] in ND. apply NoDup_cons_iff in ND. destruct ND as [Hn ND].
  destruct Ha as [Ha|Ha]; destruct Hb as [Hb|Hb]; subst.
  - reflexivity.
  - exfalso. apply Hn. rewrite Hf. apply in_map. exact Hb.
  - exfalso. apply Hn. rewrite <- Hf. apply in_map. exact Ha.
  - eapply IH; eauto.
Qed.

Lemma find_perm_nodup : forall (l l' : list md_topic) n,
  Permutation l l' -> NoDup (map mt_name l) ->
  find (fun t => name_eqb (mt_name t) n) l' = find (fun t => name_eqb (mt_name t) n) l.
Proof.
  intros l l' n HP ND.
  assert (ND' : NoDup (map mt_name l')).
  { eapply Permutation_NoDup; [apply Permutation_map; exact HP | exact ND]. }
  destruct (find (fun t => name_eqb (mt_name t) n) l) as [t|] eqn:E1.
  - apply find_some in E1. destruct E1 as [Hin Hp]. cbv beta in Hp.
    assert (Hin' : In t l') by (eapply Permutation_in; eauto).
    destruct (find (fun t => name_eqb (mt_name t) n) l') as [t'|] eqn:E2.
    + apply find_some in E2. destruct E2 as [Hin2 Hp2]. cbv beta in Hp2.
      apply name_eqb_eq in Hp. apply name_eqb_eq in Hp2. f_equal.
      eapply NoDup_map_inj_in; [exact ND' | exact Hin2 | exact Hin' | congruence].
    + exfalso. pose proof (find_none _ _ E2 t Hin') as Hc. cbv beta in Hc. congruence.
  - apply find_none_intro. intros x Hx.
    apply (find_none _ _ E1 x). eapply Permutation_in; [apply Permutation_sym; exact HP | exact Hx].
Qed.

Theorem normalize_topics_sorted : forall m, NoDup (map mt_name (md_topics m)) ->
  StronglySorted (fun a b => name_ltb (mt_name a) (mt_name b) = true) (md_topics (normalize m))
  /\ Permutation (map mt_name (md_topics (normalize m))) (map mt_name (md_topics m)).
Proof.
  intros m ND. cbn [normalize md_topics]. split.
  - apply sorted_map_normalize, sort_topics_strict. exact ND.
  - rewrite map_name_normalize. apply Permutation_map, sort_topics_perm.
Qed.

Theorem filter_exact : forall (m : metadata) (names : list name),
  NoDup (map mt_name (md_topics m)) ->
  md_topics (filter_metadata (Some names) (normalize m)) = map (answered m) names
  /\ md_brokers (filter_metadata (Some names) (normalize m)) = isort broker_lt (md_brokers m)
  /\ md_controller (filter_metadata (Some names) (normalize m)) = md_controller m.
Proof.
  intros m names ND.
  cbn [filter_metadata normalize md_topics md_brokers md_controller].
  split; [|split; reflexivity].
  apply map_ext. intros n. unfold answered.
  rewrite find_metadata_topic_sorted
    by (apply sorted_map_normalize, sort_topics_strict; exact ND).
  rewrite find_map_normalize.
  rewrite (find_perm_nodup (md_topics m) (isort topic_lt (md_topics m)) n
             (Permutation_sym (sort_topics_perm (md_topics m))) ND).
  destruct (find (fun t => name_eqb (mt_name t) n) (md_topics m)); reflexivity.
Qed.

Theorem filter_nil_request : forall m, filter_metadata None m = m.
Proof. intros m. reflexivity. Qed.

Lemma filter_needs_sorted :
  exists topics n, In n (map mt_name topics) /\ find_metadata_topic topics n = None.
Proof.
  exists [unknown_topic [2%N]; unknown_topic [1%N]], [2%N]. split.
  - left. reflexivity.
  - vm_compute. reflexivity.
Qed.

Print Assumptions filter_exact.
Print Assumptions normalize_topics_sorted.
