(* Proofs/SchemaFrames.v — request/response framing: what WriteResponse/WriteRequest
   emit is one well-formed frame, and ReadResponse on it returns the value and
   consumes exactly that frame. *)
From Coq Require Import List NArith ZArith Bool Lia.
From Coq Require Import ZifyN ZifyNat ZifyBool.
From KV Require Import Lib.Bits Lib.Bytes Lib.Varint Model.Schema
  Proofs.SchemaBase Proofs.SchemaDefs Proofs.SchemaPrims Proofs.SchemaEqns Proofs.SchemaRoundtrip.
Import ListNotations.

Arguments put_be : simpl never.
Arguments put_bes : simpl never.
Arguments put_uvarint : simpl never.
Arguments get_bes : simpl never.
Arguments read_uvarint : simpl never.
Arguments read_int : simpl never.
Arguments read_alloc : simpl never.
Arguments read_n : simpl never.

Lemma put_be_put_bes4 n : (Z.of_nat n < ZM31)%Z -> put_be 4 (N.of_nat n mod M32) = put_bes 4 (Z.of_nat n).
Proof.
  intros H. unfold put_bes. f_equal. change (pow256 4) with M32. unfold M32, ZM31 in *.
  rewrite N.mod_small by lia. rewrite Z.mod_small by lia. lia.
Qed.

(* every frame: 4-byte big-endian size = number of bytes that follow *)
Theorem frame_wellformed body : (Z.of_nat (length body) < ZM31)%Z ->
  frame body = put_bes 4 (Z.of_nat (length body)) ++ body /\
  length (frame body) = (4 + length body)%nat /\
  get_bes 4 (firstn 4 (frame body)) = Z.of_nat (length body).
Proof.
  intros H. unfold frame. rewrite put_be_put_bes4 by exact H.
  split; [reflexivity|split].
  - rewrite app_length, put_bes_length. reflexivity.
  - replace (firstn 4 (put_bes 4 (Z.of_nat (length body)) ++ body)) with (put_bes 4 (Z.of_nat (length body))).
    + apply get_put_bes; [lia|]. apply in_signed_4. unfold ZM31 in *. lia.
    + symmetry. rewrite <- (put_bes_length 4 (Z.of_nat (length body))) at 1. apply firstn_app_exact.
Qed.

Theorem write_response_shape flex t corr v f :
  write_response flex t corr v = Some f ->
  exists b, encode flex t v = Some b /\
    f = frame (enc_i32 corr ++ (if flex then put_uvarint 0 else []) ++ b).
Proof.
  unfold write_response. destruct (encode flex t v) as [b|]; [|discriminate].
  intros H. injection H as <-. exists b. split; reflexivity.
Qed.

Theorem write_request_shape flex t key ver corr client v f :
  write_request flex t key ver corr client v = Some f ->
  exists b, encode flex t v = Some b /\
    f = frame (enc_i16 key ++ enc_i16 ver ++ enc_i32 corr ++
               (if flex
                then (match client with [] => enc_i16 (-1) | _ => enc_i16 (lenZ client) ++ client end) ++ put_uvarint 0
                else enc_i16 (lenZ client) ++ client) ++ b).
Proof.
  unfold write_request. destruct (encode flex t v) as [b|]; [|discriminate].
  intros H. injection H as <-. exists b. split; reflexivity.
Qed.

Section Frames.
Variable c : cfg.

(* ReadResponse (WriteResponse v) = v, the rest of the stream untouched *)
Theorem response_roundtrip flex fields tagged corr v f rest :
  let t := TStruct fields tagged in
  schema_ok flex t = true -> wfb flex t v = true -> in_signed 4 corr ->
  write_response flex t corr v = Some f ->
  (Z.of_nat (length f) < ZM31)%Z ->
  (alloc_of t v <= budget c)%N ->
  read_response c flex t (f ++ rest) = Ok (corr, canon t v) (st rest 0 (alloc_of t v)).
Proof.
  intros t Hok Hwf Hcorr Hw Hlen Hb.
  apply write_response_shape in Hw as [b [Henc ->]].
  assert (HRT : RT c flex t) by (apply roundtrip; [exact Hok|apply andb_false_r]).
  destruct (HRT v b Hwf Henc) as [Hbb [_ Hdec]].
  set (hdr := if flex then put_uvarint 0 else []) in *.
  set (body := enc_i32 corr ++ hdr ++ b) in *.
  assert (Hbl : (Z.of_nat (length body) < ZM31)%Z).
  { unfold frame in Hlen. rewrite app_length, put_be_length in Hlen. lia. }
  destruct (frame_wellformed body Hbl) as [Hf _]. rewrite Hf.
  unfold read_response.
  rewrite <- app_assoc.
  change {| d_in := put_bes 4 (Z.of_nat (length body)) ++ body ++ rest; d_remain := 4; d_alloc := 0 |}
    with (st (put_bes 4 (Z.of_nat (length body)) ++ body ++ rest) 4 0).
  rewrite read_int_put by (try (apply in_signed_4; unfold ZM31 in *); lia). cbn [bind st d_in d_alloc].
  unfold body at 1. unfold enc_i32. rewrite <- app_assoc.
  fold (st (put_bes 4 corr ++ (hdr ++ b) ++ rest) (Z.of_nat (length body)) 0).
  assert (Hbody_len : Z.of_nat (length body) = (4 + Z.of_nat (length hdr) + Z.of_nat (length b))%Z).
  { unfold body, enc_i32. rewrite !app_length, put_bes_length. lia. }
  rewrite read_int_put by (try exact Hcorr; lia). cbn [bind].
  rewrite <- app_assoc.
  assert (Hhdr : (if flex
                  then bind (read_uvarint (st (hdr ++ b ++ rest) (Z.of_nat (length body) - Z.of_nat 4) 0))
                         (fun cnt s => header_tags c (0%N :: 0%N :: d_in s) (int_of_u64 cnt) s)
                  else Ok tt (st (hdr ++ b ++ rest) (Z.of_nat (length body) - Z.of_nat 4) 0))
                 = Ok tt (st (b ++ rest) (Z.of_nat (length b)) 0)).
  { unfold hdr in *. destruct flex.
    - pose proof (put_uvarint_length 0) as Hl0.
      rewrite read_uvarint_put by (unfold M64; lia). cbn [bind st d_in].
      change (int_of_u64 0) with 0%Z. cbn [header_tags]. change (0 <=? 0)%Z with true. cbv iota.
      f_equal. unfold st. f_equal. lia.
    - cbn [app length] in *. f_equal. unfold st. f_equal. lia. }
  rewrite Hhdr. cbn [bind].
  replace (Z.of_nat (length b)) with (lenZ b + 0)%Z by (unfold lenZ; lia).
  rewrite Hdec by (unfold lenZ; lia). cbn [bind].
  unfold discard_all. cbn [st d_remain]. change (0 <=? 0)%Z with true. cbv iota. cbn [bind].
  reflexivity.
Qed.
End Frames.
