(* Proofs/ReaderLTS.v — C02, Reader level: the version filter of FetchMessage makes the
   sequence returned since the last (re)start the current generation's sequence. *)
From Coq Require Import List NArith ZArith Bool Lia.
From Coq Require Import ZifyBool.
From KV Require Import Lib.Bits Model.MsgSetReader Model.ReaderModel Spec.FetchSpec Proofs.ReaderProofs.
Import ListNotations.
Open Scope Z_scope.

Section LTS.
Variable run : Z -> Z -> list N -> Z -> bool -> option (list msg * err * Z).
Variable cfg : gcfg.
Variable log : list record.
Hypothesis log_sorted : increasing 0 log.

Definition item_msgs (v : Z) (it : Z * gout) : list msg :=
  if fst it =? v then match snd it with OMsg g _ => [g] | OErr _ => [] end else [].
Definition cur_msgs (v : Z) (q : list (Z * gout)) : list msg := flat_map (item_msgs v) q.

(* only the CURRENT generation's broker answers have to obey the contract *)
Definition label_ok (s : rstate) (l : label) : Prop :=
  match l with
  | LGen v ev _ => v = r_version s -> forall g, find_gen v (r_gens s) = Some g -> ev_ok run log g ev
  | _ => True
  end.

Definition rinv (s0 : Z) (s : rstate) : Prop :=
  0 <= r_version s
  /\ Forall (fun it => fst it <= r_version s) (r_queue s)
  /\ Forall (fun vg => 1 <= fst vg <= r_version s) (r_gens s)
  /\ (r_version s = 0 -> r_delivered s = [] /\ r_queue s = [])
  /\ (r_version s <> 0 ->
      exists g, find_gen (r_version s) (r_gens s) = Some g
                /\ gen_inv log s0 g (r_delivered s ++ cur_msgs (r_version s) (r_queue s))).

Lemma cur_msgs_old v q : Forall (fun it => fst it <= v - 1) q -> cur_msgs v q = [].
Proof.
  induction q as [|it t IH]; intros H; [reflexivity|].
  apply Forall_cons_iff in H as [H1 H2]. cbn [cur_msgs flat_map]. unfold item_msgs at 1.
  replace (fst it =? v) with false by lia. cbn [app]. apply IH, H2.
Qed.

Lemma cur_msgs_app v a b : cur_msgs v (a ++ b) = cur_msgs v a ++ cur_msgs v b.
Proof. apply flat_map_app. Qed.

Lemma cur_msgs_same v outs : cur_msgs v (map (fun o => (v, o)) outs) = msgs_of outs.
Proof.
  induction outs as [|o t IH]; [reflexivity|].
  cbn [map cur_msgs flat_map msgs_of]. unfold item_msgs at 1. cbn [fst snd].
  rewrite Z.eqb_refl. f_equal. exact IH.
Qed.

Lemma cur_msgs_other v v' outs : v' <> v -> cur_msgs v (map (fun o => (v', o)) outs) = [].
Proof.
  intros H. induction outs as [|o t IH]; [reflexivity|].
  cbn [map cur_msgs flat_map]. unfold item_msgs at 1. cbn [fst].
  replace (v' =? v) with false by lia. exact IH.
Qed.

Lemma find_gen_in v gs g : find_gen v gs = Some g -> In (v, g) gs.
Proof.
  induction gs as [|[v' g'] t IH]; [discriminate|]. cbn [find_gen].
  destruct (v' =? v) eqn:E; intros H.
  - injection H as <-. left. f_equal. lia.
  - right. apply IH, H.
Qed.

Lemma find_set_same v g gs g0 : find_gen v gs = Some g0 -> find_gen v (set_gen v g gs) = Some g.
Proof.
  induction gs as [|[v' g'] t IH]; [discriminate|]. cbn [find_gen set_gen].
  destruct (v' =? v) eqn:E; intros H; cbn [find_gen]; rewrite E; [reflexivity|apply IH, H].
Qed.

Lemma find_set_other v w g gs : w <> v -> find_gen w (set_gen v g gs) = find_gen w gs.
Proof.
  intros Hn. induction gs as [|[v' g'] t IH]; [reflexivity|]. cbn [find_gen set_gen].
  destruct (v' =? v) eqn:E; cbn [find_gen].
  - replace (v' =? w) with false by lia. reflexivity.
  - destruct (v' =? w); [reflexivity|exact IH].
Qed.

Lemma set_gen_keys v g gs P :
  Forall (fun vg : Z * gen => P (fst vg)) gs -> Forall (fun vg : Z * gen => P (fst vg)) (set_gen v g gs).
Proof.
  induction gs as [|[v' g'] t IH]; intros H; [constructor|].
  apply Forall_cons_iff in H as [H1 H2]. cbn [set_gen].
  destruct (v' =? v); constructor; auto.
Qed.

Lemma rinv_init s0 : rinv s0 r_init.
Proof.
  unfold rinv, r_init. cbn [r_version r_queue r_gens r_delivered].
  split; [lia|]. split; [constructor|]. split; [constructor|]. split; [split; reflexivity|].
  intros H. exfalso. apply H. reflexivity.
Qed.

Lemma rinv_start s0 s : rinv s0 s -> rinv (r_offset s) (r_start s).
Proof.
  intros (Hv & HQ & HG & HD & HC). unfold rinv, r_start. cbn [r_version r_queue r_gens r_delivered].
  split; [lia|]. split.
  { eapply Forall_impl; [|exact HQ]. cbn. intros. lia. }
  split.
  { constructor; [cbn; lia|]. eapply Forall_impl; [|exact HG]. cbn. intros. lia. }
  split; [intros; lia|]. intros _.
  exists (gen_start (r_offset s)). split.
  - cbn [find_gen]. rewrite Z.eqb_refl. reflexivity.
  - cbn [app]. rewrite cur_msgs_old.
    + apply (gen_start_inv run).
    + eapply Forall_impl; [|exact HQ]. cbn. intros. lia.
Qed.

(* ghost: the offset the current generation was started at *)
Definition next_start (s : rstate) (s0 : Z) (l : label) : Z :=
  match l with
  | LBegin => if r_version s =? 0 then r_offset s else s0
  | LSetOffset o => if o =? r_offset s then s0 else if r_version s =? 0 then s0 else o
  | _ => s0
  end.

Theorem r_step_inv s0 s l s' ret :
  rinv s0 s -> label_ok s l -> r_step run cfg s l = RState s' ret -> rinv (next_start s s0 l) s'.
Proof.
  intros Hinv Hlab Hstep. pose proof Hinv as (Hv & HQ & HG & HD & HC).
  destruct l as [| |o|v ev k]; cbn [r_step next_start] in Hstep |- *.
  - (* LBegin *)
    destruct (r_version s =? 0); injection Hstep as <- <-; [apply (rinv_start s0)|]; exact Hinv.
  - (* LTake *)
    destruct (r_queue s) as [|[v item] q] eqn:Eq; [discriminate|].
    apply Forall_cons_iff in HQ as [HQ1 HQ2]. cbn [fst] in HQ1.
    destruct (r_version s <=? v) eqn:Ev.
    + assert (v = r_version s) by lia. subst v.
      destruct item as [g hwm|e]; injection Hstep as <- <-; unfold rinv;
        cbn [r_version r_queue r_gens r_delivered]; (split; [exact Hv|]); (split; [exact HQ2|]);
        (split; [exact HG|]).
      * split; [intros H0; exfalso; destruct (HD H0) as [_ Hq0]; discriminate Hq0|].
        intros Hn. destruct (HC Hn) as (g0 & Hf & Hg). exists g0. split; [exact Hf|].
        cbn [cur_msgs flat_map] in Hg. unfold item_msgs at 1 in Hg. cbn [fst snd] in Hg.
        rewrite Z.eqb_refl in Hg. rewrite <- app_assoc. exact Hg.
      * split; [intros H0; exfalso; destruct (HD H0) as [_ Hq0]; discriminate Hq0|].
        intros Hn. destruct (HC Hn) as (g0 & Hf & Hg). exists g0. split; [exact Hf|].
        cbn [cur_msgs flat_map] in Hg. unfold item_msgs at 1 in Hg. cbn [fst snd] in Hg.
        rewrite Z.eqb_refl in Hg. exact Hg.
    + injection Hstep as <- <-. unfold rinv. cbn [r_version r_queue r_gens r_delivered].
      split; [exact Hv|]. split; [exact HQ2|]. split; [exact HG|].
      split; [intros H0; exfalso; destruct (HD H0) as [_ Hq0]; discriminate Hq0|].
      intros Hn. destruct (HC Hn) as (g0 & Hf & Hg). exists g0. split; [exact Hf|].
      cbn [cur_msgs flat_map] in Hg. unfold item_msgs at 1 in Hg. cbn [fst] in Hg.
      replace (v =? r_version s) with false in Hg by lia. exact Hg.
  - (* LSetOffset *)
    destruct (o =? r_offset s); [injection Hstep as <- <-; exact Hinv|].
    assert (H1 : rinv s0 (mkR (r_version s) o (r_queue s) (r_gens s) (r_delivered s))) by exact Hinv.
    destruct (r_version s =? 0); injection Hstep as <- <-; [exact H1|].
    apply (rinv_start s0 _ H1).
  - (* LGen *)
    destruct (find_gen v (r_gens s)) as [g|] eqn:Ef; [|discriminate].
    destruct (gen_step run cfg g ev) as [[g' outs]|] eqn:Es; [|discriminate].
    destruct ((k <? length outs)%nat && (r_version s <=? v)) eqn:Ek; [discriminate|].
    injection Hstep as <- <-.
    pose proof (find_gen_in _ _ _ Ef) as Hin.
    pose proof (proj1 (Forall_forall _ _) HG _ Hin) as Hvr. cbn [fst] in Hvr.
    unfold rinv. cbn [r_version r_queue r_gens r_delivered].
    split; [exact Hv|]. split.
    { apply Forall_app. split; [exact HQ|]. apply Forall_forall. intros it Hit.
      apply in_map_iff in Hit as (o & <- & _). cbn [fst]. lia. }
    split; [apply (set_gen_keys v _ _ (fun x => 1 <= x <= r_version s)); exact HG|].
    split; [intros H0; exfalso; lia|].
    intros Hn. destruct (HC Hn) as (g0 & Hf & Hg).
    destruct (Z.eq_dec v (r_version s)) as [Evv|Evv].
    + subst v. rewrite Ef in Hf. injection Hf as <-.
      assert (Hk : (k <? length outs)%nat = false) by (destruct (k <? length outs)%nat; [cbn in Ek; lia|reflexivity]).
      rewrite Hk. rewrite firstn_all2 by (apply Nat.ltb_ge in Hk; exact Hk).
      exists g'. split; [apply (find_set_same _ _ _ _ Ef)|].
      rewrite cur_msgs_app, cur_msgs_same, app_assoc.
      apply (gen_step_inv run cfg log log_sorted s0 g ev); [exact Hg| |exact Es].
      apply (Hlab eq_refl g Ef).
    + exists g0. split; [rewrite find_set_other by lia; exact Hf|].
      rewrite cur_msgs_app, cur_msgs_other by lia. rewrite app_nil_r. exact Hg.
Qed.

(* a run of the Reader *)
(* reach s s0: s is reachable; s0 = the offset the current generation was started at *)
Inductive reach : rstate -> Z -> Prop :=
| reach_init : reach r_init FirstOffset
| reach_step s s0 l s' ret :
    reach s s0 -> label_ok s l -> r_step run cfg s l = RState s' ret -> reach s' (next_start s s0 l).

Lemma reach_inv s s0 : reach s s0 -> rinv s0 s.
Proof.
  induction 1 as [|s s0 l s' ret _ IH Hl Hs]; [apply rinv_init|]. apply (r_step_inv s0 s l s' ret IH Hl Hs).
Qed.

(* C02_delivery_exact: what FetchMessage returned since the last (re)start is a prefix of the
   stored records from some position a on: increasing, no gap, no duplicate, fields as stored *)
Theorem delivery_exact s s0 :
  reach s s0 -> exists a rest, mm (from a log) = r_delivered s ++ rest.
Proof.
  intros Hr. destruct (reach_inv s s0 Hr) as (Hv & HQ & HG & HD & HC).
  destruct (Z.eq_dec (r_version s) 0) as [E0|E0].
  - rewrite (proj1 (HD E0)). exists 0, (mm (from 0 log)). reflexivity.
  - destruct (HC E0) as (g & _ & (a & _ & Hal & HE & _)).
    destruct (between_prefix_from 0 log a (g_offset g) log_sorted Hal) as [rest Hrest].
    exists a, (cur_msgs (r_version s) (r_queue s) ++ mm rest).
    rewrite app_assoc, HE, Hrest. unfold mm. apply map_app.
Qed.

(* C02_setoffset_next: the generation serving the calls made after SetOffset(o) returned was
   started at o; what those calls return is a prefix of the stored records at or after o, so
   the first message returned is the stored record with the least offset >= o *)
Theorem delivery_from_start s s0 :
  reach s s0 -> r_version s <> 0 -> 0 <= s0 -> exists rest, mm (from s0 log) = r_delivered s ++ rest.
Proof.
  intros Hr Hn H0. destruct (reach_inv s s0 Hr) as (Hv & HQ & HG & HD & HC).
  destruct (HC Hn) as (g & _ & (a & Hs0 & Hal & HE & _)).
  rewrite <- (Hs0 H0).
  destruct (between_prefix_from 0 log a (g_offset g) log_sorted Hal) as [rest Hrest].
  exists (cur_msgs (r_version s) (r_queue s) ++ mm rest).
  rewrite app_assoc, HE, Hrest. unfold mm. apply map_app.
Qed.

Lemma setoffset_restarts s s0 o s' ret :
  reach s s0 -> r_version s <> 0 -> o <> r_offset s ->
  r_step run cfg s (LSetOffset o) = RState s' ret ->
  reach s' o /\ r_delivered s' = [] /\ r_version s' = r_version s + 1.
Proof.
  intros Hr Hn Ho Hs.
  pose proof (reach_step s s0 (LSetOffset o) s' ret Hr I Hs) as Hr'.
  cbn [next_start r_step] in Hr', Hs.
  replace (o =? r_offset s) with false in * by lia.
  replace (r_version s =? 0) with false in * by lia.
  injection Hs as <- <-. split; [exact Hr'|]. split; reflexivity.
Qed.

End LTS.
