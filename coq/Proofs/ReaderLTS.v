(* Proofs/ReaderLTS.v — C02, Reader level: the version filter of FetchMessage makes the
   sequence returned since the last (re)start the current generation's sequence. *)
From Coq Require Import List NArith ZArith Bool Lia.
From Coq Require Import ZifyBool.
From KV Require Import Lib.Bits Model.MsgSetReader Model.ReaderModel Spec.FetchSpec Proofs.ReaderProofs.
Import ListNotations.
Open Scope Z_scope.

Section LTS.
Variable run : Z -> Z -> list N -> Z -> bool -> option (list msg * err * Z).
Variable cfg : gcfg.
Variable log : list record.
Hypothesis log_sorted : increasing 0 log.

Definition item_msgs (v : Z) (it : Z * gout) : list msg :=
  if fst it =? v then match snd it with OMsg g _ => [g] | OErr _ => [] end else [].
Definition cur_msgs (v : Z) (q : list (Z * gout)) : list msg := flat_map (item_msgs v) q.

(* only the CURRENT generation's broker answers have to obey the contract *)
Definition label_ok (s : rstate) (l : label) : Prop :=
  match l with
  | LGen v ev _ => v = r_version s -> forall g, find_gen v (r_gens s) = Some g -> ev_ok run log g ev
  | _ => True
  end.

(* Reader.offset is the position after what was returned since the last (re)start *)
Definition pos_after (s0 : Z) (ds : list msg) : Z := fold_left (fun _ g => g_off g + 1) ds s0.

Lemma pos_after_snoc s0 ds g : pos_after s0 (ds ++ [g]) = g_off g + 1.
Proof. unfold pos_after. rewrite fold_left_app. reflexivity. Qed.

Definition rinv (s0 : Z) (s : rstate) : Prop :=
  0 <= r_version s
  /\ Forall (fun it => fst it <= r_version s) (r_queue s)
  /\ Forall (fun vg => 1 <= fst vg <= r_version s) (r_gens s)
  /\ (r_version s = 0 -> r_delivered s = [] /\ r_queue s = [])
  /\ (r_version s <> 0 ->
      exists g, find_gen (r_version s) (r_gens s) = Some g
                /\ gen_inv log s0 g (r_delivered s ++ cur_msgs (r_version s) (r_queue s)))
  (* the snapshot of a call in progress is the current version: the lazy start comes first, and
     SetOffset does not run during a call *)
  /\ (forall snap, r_call s = Some snap -> snap = r_version s /\ r_version s <> 0)
  (* Reader.offset: the start position, then one past the last message returned *)
  /\ (r_version s <> 0 -> r_offset s = pos_after s0 (r_delivered s)).

Lemma cur_msgs_old v q : Forall (fun it => fst it <= v - 1) q -> cur_msgs v q = [].
Proof.
  induction q as [|it t IH]; intros H; [reflexivity|].
  apply Forall_cons_iff in H as [H1 H2]. cbn [cur_msgs flat_map]. unfold item_msgs at 1.
  replace (fst it =? v) with false by lia. cbn [app]. apply IH, H2.
Qed.

Lemma cur_msgs_app v a b : cur_msgs v (a ++ b) = cur_msgs v a ++ cur_msgs v b.
Proof. apply flat_map_app. Qed.

Lemma cur_msgs_same v outs : cur_msgs v (map (fun o => (v, o)) outs) = msgs_of outs.
Proof.
  induction outs as [|o t IH]; [reflexivity|].
  cbn [map cur_msgs flat_map msgs_of]. unfold item_msgs at 1. cbn [fst snd].
  rewrite Z.eqb_refl. f_equal. exact IH.
Qed.

Lemma cur_msgs_other v v' outs : v' <> v -> cur_msgs v (map (fun o => (v', o)) outs) = [].
Proof.
  intros H. induction outs as [|o t IH]; [reflexivity|].
  cbn [map cur_msgs flat_map]. unfold item_msgs at 1. cbn [fst].
  replace (v' =? v) with false by lia. exact IH.
Qed.

Lemma find_gen_in v gs g : find_gen v gs = Some g -> In (v, g) gs.
Proof.
  induction gs as [|[v' g'] t IH]; [discriminate|]. cbn [find_gen].
  destruct (v' =? v) eqn:E; intros H.
  - injection H as <-. left. f_equal. lia.
  - right. apply IH, H.
Qed.

Lemma find_set_same v g gs g0 : find_gen v gs = Some g0 -> find_gen v (set_gen v g gs) = Some g.
Proof.
  induction gs as [|[v' g'] t IH]; [discriminate|]. cbn [find_gen set_gen].
  destruct (v' =? v) eqn:E; intros H; cbn [find_gen]; rewrite E; [reflexivity|apply IH, H].
Qed.

Lemma find_set_other v w g gs : w <> v -> find_gen w (set_gen v g gs) = find_gen w gs.
Proof.
  intros Hn. induction gs as [|[v' g'] t IH]; [reflexivity|]. cbn [find_gen set_gen].
  destruct (v' =? v) eqn:E; cbn [find_gen].
  - replace (v' =? w) with false by lia. reflexivity.
  - destruct (v' =? w); [reflexivity|exact IH].
Qed.

Lemma set_gen_keys v g gs P :
  Forall (fun vg : Z * gen => P (fst vg)) gs -> Forall (fun vg : Z * gen => P (fst vg)) (set_gen v g gs).
Proof.
  induction gs as [|[v' g'] t IH]; intros H; [constructor|].
  apply Forall_cons_iff in H as [H1 H2]. cbn [set_gen].
  destruct (v' =? v); constructor; auto.
Qed.

Lemma rinv_init s0 : rinv s0 r_init.
Proof.
  unfold rinv, r_init. cbn [r_version r_queue r_gens r_delivered r_call r_offset].
  split; [lia|]. split; [constructor|]. split; [constructor|]. split; [split; reflexivity|].
  split; [intros H; exfalso; apply H; reflexivity|]. split; [intros snap H; discriminate|].
  intros H; exfalso; apply H; reflexivity.
Qed.

(* Reader.start outside a call, at position o *)
Definition at_offset (s : rstate) (o : Z) : rstate :=
  mkR (r_version s) o (r_lag s) (r_call s) (r_queue s) (r_gens s) (r_delivered s).

Lemma rinv_start s0 s o : rinv s0 s -> r_call s = None -> rinv o (r_start (at_offset s o)).
Proof.
  intros (Hv & HQ & HG & HD & HC & HK & HO) Hcall. unfold rinv, r_start, at_offset. cbn [r_version r_queue r_gens r_delivered r_call r_offset].
  split; [lia|]. split.
  { eapply Forall_impl; [|exact HQ]. cbn. intros. lia. }
  split.
  { constructor; [cbn; lia|]. eapply Forall_impl; [|exact HG]. cbn. intros. lia. }
  split; [intros; lia|]. split.
  - intros _.
    exists (gen_start o). split.
    + cbn [find_gen]. rewrite Z.eqb_refl. reflexivity.
    + cbn [app]. rewrite cur_msgs_old.
      * apply (gen_start_inv run).
      * eapply Forall_impl; [|exact HQ]. cbn. intros. lia.
  - split; [rewrite Hcall; intros snap H; discriminate|]. intros _. reflexivity.
Qed.

(* ghost: the offset the current generation was started at *)
Definition next_start (s : rstate) (s0 : Z) (l : label) : Z :=
  match l with
  | LBegin => if r_version s =? 0 then r_offset s else s0
  | LSetOffset o => if o =? r_offset s then s0 else if r_version s =? 0 then s0 else o
  | _ => s0
  end.

Lemma rinv_set_call s0 s c :
  rinv s0 s -> (forall snap, c = Some snap -> snap = r_version s /\ r_version s <> 0) -> rinv s0 (set_call s c).
Proof.
  intros (Hv & HQ & HG & HD & HC & HK & HO) Hc. unfold rinv, set_call. cbn [r_version r_queue r_gens r_delivered r_call r_offset].
  split; [exact Hv|]. split; [exact HQ|]. split; [exact HG|]. split; [exact HD|]. split; [exact HC|]. split; [exact Hc|exact HO].
Qed.

Theorem r_step_inv s0 s l s' ret :
  rinv s0 s -> label_ok s l -> r_step run cfg s l = RState s' ret -> rinv (next_start s s0 l) s'.
Proof.
  intros Hinv Hlab Hstep. pose proof Hinv as (Hv & HQ & HG & HD & HC & HK & HO).
  destruct l as [| | |o|v ev k]; cbn [r_step next_start] in Hstep |- *.
  - (* LBegin *)
    destruct (r_version s =? 0) eqn:E0; injection Hstep as <- <-.
    + (* the lazy start, then the snapshot *)
      assert (Hcall : r_call s = None).
      { destruct (r_call s) as [snap|] eqn:Ec; [|reflexivity]. destruct (HK snap eq_refl) as [_ Hn]. lia. }
      apply rinv_set_call; [exact (rinv_start s0 s (r_offset s) Hinv Hcall)|].
      intros snap H. injection H as <-. split; [reflexivity|]. unfold r_start. cbn [r_version]. lia.
    + apply rinv_set_call; [exact Hinv|]. intros snap H. injection H as <-. split; [reflexivity|lia].
  - (* LTake *)
    destruct (r_call s) as [snap|] eqn:Ec; [|discriminate].
    destruct (HK snap eq_refl) as [Hsnap Hnz]. subst snap.
    destruct (r_queue s) as [|[v item] q] eqn:Eq; [discriminate|].
    apply Forall_cons_iff in HQ as [HQ1 HQ2]. cbn [fst] in HQ1.
    destruct (r_version s <=? v) eqn:Ev.
    + assert (v = r_version s) by lia. subst v.
      destruct (HC Hnz) as (g0 & Hf & Hg).
      cbn [cur_msgs flat_map] in Hg. unfold item_msgs at 1 in Hg. cbn [fst snd] in Hg. rewrite Z.eqb_refl in Hg.
      destruct item as [g hwm|e].
      * rewrite Z.eqb_refl in Hstep. injection Hstep as <- <-. unfold rinv.
        cbn [r_version r_queue r_gens r_delivered r_call r_offset].
        split; [exact Hv|]. split; [exact HQ2|]. split; [exact HG|].
        split; [intros H0; exfalso; lia|]. split.
        { intros _. exists g0. split; [exact Hf|]. rewrite <- app_assoc. exact Hg. }
        split; [intros snap H; discriminate|]. intros _. symmetry. apply pos_after_snoc.
      * injection Hstep as <- <-. unfold rinv. cbn [r_version r_queue r_gens r_delivered r_call r_offset].
        split; [exact Hv|]. split; [exact HQ2|]. split; [exact HG|].
        split; [intros H0; exfalso; lia|]. split.
        { intros _. exists g0. split; [exact Hf|]. exact Hg. }
        split; [intros snap H; discriminate|]. exact HO.
    + injection Hstep as <- <-. unfold rinv. cbn [r_version r_queue r_gens r_delivered r_call r_offset].
      split; [exact Hv|]. split; [exact HQ2|]. split; [exact HG|].
      split; [intros H0; exfalso; lia|]. split.
      { intros Hn. destruct (HC Hn) as (g0 & Hf & Hg). exists g0. split; [exact Hf|].
        cbn [cur_msgs flat_map] in Hg. unfold item_msgs at 1 in Hg. cbn [fst] in Hg.
        replace (v =? r_version s) with false in Hg by lia. exact Hg. }
      split; [exact HK|exact HO].
  - (* LAbort *)
    destruct (r_call s) as [snap|]; [|discriminate]. injection Hstep as <- <-.
    apply rinv_set_call; [exact Hinv|]. intros snap' H; discriminate.
  - (* LSetOffset *)
    destruct (r_call s) as [snap|] eqn:Ec; [discriminate|].
    destruct (o =? r_offset s); [injection Hstep as <- <-; exact Hinv|].
    destruct (r_version s =? 0) eqn:E0; injection Hstep as <- <-.
    + (* not started yet: only the position changes *)
      unfold rinv. cbn [r_version r_queue r_gens r_delivered r_call r_offset].
      split; [exact Hv|]. split; [exact HQ|]. split; [exact HG|]. split; [exact HD|]. split; [exact HC|].
      split; [exact HK|]. intros Hn. exfalso. lia.
    + pose proof (rinv_start s0 s o Hinv Ec) as Hst. unfold at_offset in Hst. rewrite Ec in Hst. exact Hst.
  - (* LGen *)
    destruct (find_gen v (r_gens s)) as [g|] eqn:Ef; [|discriminate].
    destruct (gen_step run cfg g ev) as [[g' outs]|] eqn:Es; [|discriminate].
    destruct ((k <? length outs)%nat && (r_version s <=? v)) eqn:Ek; [discriminate|].
    injection Hstep as <- <-.
    pose proof (find_gen_in _ _ _ Ef) as Hin.
    pose proof (proj1 (Forall_forall _ _) HG _ Hin) as Hvr. cbn [fst] in Hvr.
    unfold rinv. cbn [r_version r_queue r_gens r_delivered r_call r_offset].
    split; [exact Hv|]. split.
    { apply Forall_app. split; [exact HQ|]. apply Forall_forall. intros it Hit.
      apply in_map_iff in Hit as (o & <- & _). cbn [fst]. lia. }
    split; [apply (set_gen_keys v _ _ (fun x => 1 <= x <= r_version s)); exact HG|].
    split; [intros H0; exfalso; lia|].
    split; [|split; [exact HK|exact HO]].
    intros Hn. destruct (HC Hn) as (g0 & Hf & Hg).
    destruct (Z.eq_dec v (r_version s)) as [Evv|Evv].
    + subst v. rewrite Ef in Hf. injection Hf as <-.
      assert (Hk : (k <? length outs)%nat = false) by (destruct (k <? length outs)%nat; [cbn in Ek; lia|reflexivity]).
      rewrite Hk. rewrite firstn_all2 by (apply Nat.ltb_ge in Hk; exact Hk).
      exists g'. split; [apply (find_set_same _ _ _ _ Ef)|].
      rewrite cur_msgs_app, cur_msgs_same, app_assoc.
      apply (gen_step_inv run cfg log log_sorted s0 g ev); [exact Hg| |exact Es].
      apply (Hlab eq_refl g Ef).
    + exists g0. split; [rewrite find_set_other by lia; exact Hf|].
      rewrite cur_msgs_app, cur_msgs_other by lia. rewrite app_nil_r. exact Hg.
Qed.

(* a run of the Reader *)
(* reach s s0: s is reachable; s0 = the offset the current generation was started at *)
Inductive reach : rstate -> Z -> Prop :=
| reach_init : reach r_init FirstOffset
| reach_step s s0 l s' ret :
    reach s s0 -> label_ok s l -> r_step run cfg s l = RState s' ret -> reach s' (next_start s s0 l).

Lemma reach_inv s s0 : reach s s0 -> rinv s0 s.
Proof.
  induction 1 as [|s s0 l s' ret _ IH Hl Hs]; [apply rinv_init|]. apply (r_step_inv s0 s l s' ret IH Hl Hs).
Qed.

(* C02_delivery_exact: what FetchMessage returned since the last (re)start is a prefix of the
   stored records from some position a on: increasing, no gap, no duplicate, fields as stored *)
Theorem delivery_exact s s0 :
  reach s s0 -> exists a rest, mm (from a log) = r_delivered s ++ rest.
Proof.
  intros Hr. destruct (reach_inv s s0 Hr) as (Hv & HQ & HG & HD & HC & _).
  destruct (Z.eq_dec (r_version s) 0) as [E0|E0].
  - rewrite (proj1 (HD E0)). exists 0, (mm (from 0 log)). reflexivity.
  - destruct (HC E0) as (g & _ & (a & _ & Hal & HE & _)).
    destruct (between_prefix_from 0 log a (g_offset g) log_sorted Hal) as [rest Hrest].
    exists a, (cur_msgs (r_version s) (r_queue s) ++ mm rest).
    rewrite app_assoc, HE, Hrest. unfold mm. apply map_app.
Qed.

(* C02_setoffset_next: the generation serving the calls made after SetOffset(o) returned was
   started at o; what those calls return is a prefix of the stored records at or after o, so
   the first message returned is the stored record with the least offset >= o *)
Theorem delivery_from_start s s0 :
  reach s s0 -> r_version s <> 0 -> 0 <= s0 -> exists rest, mm (from s0 log) = r_delivered s ++ rest.
Proof.
  intros Hr Hn H0. destruct (reach_inv s s0 Hr) as (Hv & HQ & HG & HD & HC & _).
  destruct (HC Hn) as (g & _ & (a & Hs0 & Hal & HE & _)).
  rewrite <- (Hs0 H0).
  destruct (between_prefix_from 0 log a (g_offset g) log_sorted Hal) as [rest Hrest].
  exists (cur_msgs (r_version s) (r_queue s) ++ mm rest).
  rewrite app_assoc, HE, Hrest. unfold mm. apply map_app.
Qed.

Lemma setoffset_restarts s s0 o s' ret :
  reach s s0 -> r_version s <> 0 -> o <> r_offset s ->
  r_step run cfg s (LSetOffset o) = RState s' ret ->
  reach s' o /\ r_delivered s' = [] /\ r_version s' = r_version s + 1.
Proof.
  intros Hr Hn Ho Hs.
  pose proof (reach_step s s0 (LSetOffset o) s' ret Hr I Hs) as Hr'.
  cbn [next_start r_step] in Hr', Hs.
  destruct (r_call s); [discriminate|].
  replace (o =? r_offset s) with false in * by lia.
  replace (r_version s =? 0) with false in * by lia.
  injection Hs as <- <-. split; [exact Hr'|]. split; reflexivity.
Qed.

(* ---------------------------------------------------------------- Reader.offset is the position *)
Lemma from_from a p l : a <= p -> from p (from a l) = from p l.
Proof.
  intros H. unfold from. induction l as [|x t IH]; [reflexivity|]. cbn [filter].
  destruct (a <=? r_off x) eqn:E1; cbn [filter]; destruct (p <=? r_off x) eqn:E2; try lia; rewrite IH; reflexivity.
Qed.

Lemma from_increasing a : forall l lo, increasing lo l -> increasing lo (from a l).
Proof.
  induction l as [|x t IH]; intros lo H; [exact I|]. destruct H as [H1 H2]. unfold from in *. cbn [filter].
  destruct (a <=? r_off x).
  - split; [exact H1|apply IH, H2].
  - apply IH. clear -H1 H2. destruct t as [|y u]; [exact I|]. destruct H2 as [G1 G2]. split; [lia|exact G2].
Qed.

Lemma increasing_lb_all : forall l lo r, increasing lo l -> In r l -> lo <= r_off r.
Proof.
  induction l as [|x t IH]; intros lo r H Hr; [destruct Hr|]. destruct H as [H1 H2].
  destruct Hr as [->|Hr]; [exact H1|]. specialize (IH _ r H2 Hr). lia.
Qed.

(* a list with increasing offsets, cut after its element x: what is at or after r_off x + 1 is the second part *)
Lemma from_after_last : forall l1 lo x l2,
  increasing lo ((l1 ++ [x]) ++ l2) -> from (r_off x + 1) ((l1 ++ [x]) ++ l2) = l2.
Proof.
  induction l1 as [|y t IH]; intros lo x l2 H.
  - cbn [app] in *. destruct H as [H1 H2]. unfold from. cbn [filter].
    replace (r_off x + 1 <=? r_off x) with false by lia.
    clear H1. induction l2 as [|z u IHu]; [reflexivity|]. destruct H2 as [G1 G2]. cbn [filter].
    replace (r_off x + 1 <=? r_off z) with true by lia. f_equal. apply IHu.
    destruct u as [|w u']; [exact I|]. destruct G2 as [K1 K2]. split; [lia|exact K2].
  - cbn [app] in *. destruct H as [H1 H2]. unfold from. cbn [filter].
    assert (Hx : r_off y < r_off x).
    { pose proof (increasing_lb_all _ _ x H2 ltac:(rewrite <- app_assoc; apply in_or_app; right; left; reflexivity)). lia. }
    replace (r_off x + 1 <=? r_off y) with false by lia. apply (IH _ x l2 H2).
Qed.

Lemma mm_last ds g l : mm l = ds ++ [g] -> exists l1 x, l = l1 ++ [x] /\ mm l1 = ds /\ g_off g = r_off x.
Proof.
  intros H. unfold mm in H. apply map_eq_app in H as (l1 & l2 & -> & H1 & H2).
  destruct l2 as [|x [|y u]]; try discriminate. cbn [map] in H2. injection H2 as H2.
  exists l1, x. split; [reflexivity|]. split; [exact H1|]. rewrite <- H2. reflexivity.
Qed.

Lemma snoc_case {A} (ds : list A) : ds = [] \/ exists l g, ds = l ++ [g].
Proof. induction ds as [|g l _] using rev_ind; [left; reflexivity|right; exists l, g; reflexivity]. Qed.

(* what FetchMessage returned since the last (re)start, followed by the stored records at or
   after Reader.offset, is the stored sequence from the start position: Reader.offset is exactly
   the position of the next message *)
Theorem offset_is_position s s0 :
  reach s s0 -> r_version s <> 0 -> (0 <= s0 \/ r_delivered s <> []) ->
  exists a, (0 <= s0 -> a = s0) /\ mm (from a log) = r_delivered s ++ mm (from (r_offset s) log).
Proof.
  intros Hr Hn Hpos. destruct (reach_inv s s0 Hr) as (Hv & HQ & HG & HD & HC & HK & HO).
  destruct (HC Hn) as (g & _ & (a & Hs0 & Hal & HE & _)). specialize (HO Hn).
  exists a. split; [exact Hs0|].
  destruct (between_prefix_from 0 log a (g_offset g) log_sorted Hal) as [rest Hrest].
  assert (Hall : mm (from a log) = r_delivered s ++ (cur_msgs (r_version s) (r_queue s) ++ mm rest)).
  { rewrite app_assoc, HE, Hrest. unfold mm. apply map_app. }
  destruct (snoc_case (r_delivered s)) as [Ed|(l & d0 & Ed)]; rewrite Ed in *.
  - (* nothing returned yet: the start position *)
    cbn [app]. unfold pos_after in HO. cbn [fold_left] in HO. rewrite HO.
    destruct Hpos as [H0|H0]; [|contradiction]. rewrite (Hs0 H0). reflexivity.
  - rewrite pos_after_snoc in HO.
    unfold mm in Hall. apply map_eq_app in Hall as (l1 & l2 & Hl & H1 & H2).
    destruct (mm_last l d0 l1 H1) as (l1' & x & -> & Hm & Hx).
    assert (Hge : a <= r_off x + 1).
    { assert (Hin : In x (from a log)) by (rewrite Hl; apply in_or_app; left; apply in_or_app; right; left; reflexivity).
      unfold from in Hin. apply filter_In in Hin as [_ Hge]. lia. }
    assert (Hl2 : from (r_offset s) log = l2).
    { rewrite HO, Hx, <- (from_from a (r_off x + 1) log Hge), Hl.
      apply (from_after_last l1' 0 x l2). rewrite <- Hl. apply from_increasing, log_sorted. }
    rewrite Hl2, Hl, <- H1. unfold mm. apply map_app.
Qed.


(* SetOffset(o) with o = Reader.offset changes nothing, and rightly so: whatever the current
   generation returns from then on is the stored records at or after o, in order (s1: any later
   state of the same generation) *)
Theorem setoffset_same_next s s0 o s1 later :
  reach s s0 -> r_version s <> 0 -> r_call s = None -> (0 <= s0 \/ r_delivered s <> []) -> o = r_offset s ->
  reach s1 s0 -> r_version s1 <> 0 -> r_delivered s1 = r_delivered s ++ later ->
  r_step run cfg s (LSetOffset o) = RState s None
  /\ exists rest, mm (from o log) = later ++ rest.
Proof.
  intros Hr Hn Hcall Hpos Ho Hr1 Hn1 Hd1. split.
  { cbn [r_step]. rewrite Hcall. replace (o =? r_offset s) with true by lia. reflexivity. }
  destruct (reach_inv s s0 Hr) as (_ & _ & _ & _ & _ & _ & HO). specialize (HO Hn).
  assert (Hpos1 : 0 <= s0 \/ r_delivered s1 <> []).
  { destruct Hpos as [H|H]; [left; exact H|right]. rewrite Hd1. intros E. apply app_eq_nil in E as [E _]. contradiction. }
  destruct (offset_is_position s1 s0 Hr1 Hn1 Hpos1) as (a1 & Ha1 & Hm1).
  rewrite Hd1 in Hm1. rewrite Ho, HO.
  destruct (snoc_case (r_delivered s)) as [Ed|(l & d0 & Ed)]; rewrite Ed in *.
  - cbn [app] in Hm1. unfold pos_after. cbn [fold_left].
    destruct Hpos as [H0|H0]; [|contradiction]. rewrite <- (Ha1 H0). eexists. exact Hm1.
  - rewrite pos_after_snoc. rewrite <- app_assoc in Hm1.
    unfold mm in Hm1. apply map_eq_app in Hm1 as (l1 & l23 & Hl & H1 & H23).
    destruct (mm_last l d0 l1 H1) as (l1' & x & -> & Hm & Hx).
    assert (Hge : a1 <= r_off x + 1).
    { assert (Hin : In x (from a1 log)) by (rewrite Hl; apply in_or_app; left; apply in_or_app; right; left; reflexivity).
      unfold from in Hin. apply filter_In in Hin as [_ Hge]. lia. }
    assert (Hf : from (g_off d0 + 1) log = l23).
    { rewrite Hx, <- (from_from a1 (r_off x + 1) log Hge), Hl.
      apply (from_after_last l1' 0 x l23). rewrite <- Hl. apply from_increasing, log_sorted. }
    rewrite Hf. eexists. unfold mm. exact H23.
Qed.

End LTS.
