(* Proofs/GroupBalancersRackGlobal.v — RackAffinityGroupBalancer.AssignGroups *)
From Coq Require Import List NArith ZArith Bool Arith Lia Permutation.
From KV Require Import Model.GroupBalancers Proofs.GroupBalancersBase Proofs.GroupBalancersRange
  Proofs.GroupBalancersRR Proofs.GroupBalancersProofs
  Proofs.GroupBalancersRackBase Proofs.GroupBalancersRack.
Import ListNotations.

Definition rack_orders_ok (zo ro : bytes -> list bytes) (ps : list partition) : Prop :=
  forall t, Permutation (zo t) (zones_of (aget t (partitions_by_topic ps))) /\
            Permutation (ro t) (zones_of (aget t (partitions_by_topic ps))).

Definition rack_G (zo ro : bytes -> list bytes) (pbt : amap partition) (t : bytes)
  (mems : list member) : list triple :=
  match rack_assign_topic (zo t) (ro t) mems (aget t pbt) with
  | Some r => map (fun e => (fst e, t, snd e)) r
  | None => []
  end.

Lemma rack_G_topic zo ro pbt t mems tr : In tr (rack_G zo ro pbt t mems) -> snd (fst tr) = t.
Proof.
  unfold rack_G. destruct (rack_assign_topic _ _ _ _); [|intros []].
  intros H. apply in_map_iff in H. destruct H as [e [<- _]]. reflexivity.
Qed.
Lemma rack_G_nil zo ro pbt t : rack_G zo ro pbt t [] = [].
Proof. reflexivity. Qed.

Lemma rack_topics_lift zo ro pbt mbt :
  (forall t mems, In (t, mems) mbt ->
     exists r, rack_assign_topic (zo t) (ro t) mems (aget t pbt) = Some r) ->
  rack_topics zo ro pbt mbt = Some (lift (rack_G zo ro pbt) mbt).
Proof.
  induction mbt as [|[t mems] rest IH]; intros H; [reflexivity|].
  cbn [rack_topics lift flat_map fst snd]. fold (lift (rack_G zo ro pbt) rest).
  destruct (H t mems (or_introl eq_refl)) as [r E].
  unfold rack_G at 1. rewrite E. rewrite IH; [reflexivity|].
  intros t' mems' Hin. apply H. right. exact Hin.
Qed.

Lemma aget_partitions_by_topic t ps :
  aget t (partitions_by_topic ps) = filter (fun p => bytes_eqb (p_topic p) t) ps.
Proof.
  unfold partitions_by_topic.
  change (fold_left (fun acc p => aappend (p_topic p) [p] acc) ps [])
    with (grp p_topic (fun p : partition => p) ps []).
  rewrite aget_grp. cbn [aget app]. apply map_id.
Qed.

Lemma aget_zoned_partitions z parts :
  aget z (zoned_partitions parts) = map p_id (filter (fun p => bytes_eqb (p_rack p) z) parts).
Proof.
  unfold zoned_partitions.
  change (fold_left (fun acc p => aappend (p_rack p) [p_id p] acc) parts [])
    with (grp p_rack p_id parts []).
  rewrite aget_grp. reflexivity.
Qed.

Lemma assigned_of_amap (r : amap Z) (t id : bytes) : NoDup (akeys r) ->
  assigned (map (fun e => (fst e, t, snd e)) r) id t = aget id r.
Proof.
  unfold akeys. induction r as [|[k l] r IH]; intros Hnd; [reflexivity|].
  cbn [map fst snd] in *. apply NoDup_cons_iff in Hnd. destruct Hnd as [Hk Hnd].
  rewrite assigned_cons. cbn [fst snd aget]. rewrite bytes_eqb_refl, andb_true_r.
  rewrite (bytes_eqb_sym id k).
  destruct (bytes_eqb_spec k id) as [->|Hne].
  - rewrite assigned_notin; [apply app_nil_r|].
    intros tr Htr E. apply in_map_iff in Htr. destruct Htr as [e [<- He]]. cbn [fst] in E.
    apply Hk. rewrite <- E. apply in_map. exact He.
  - cbn [app]. apply IH. exact Hnd.
Qed.

Lemma concat_snd_of_amap (r : amap Z) (t : bytes) :
  concat (map snd (map (fun e => (fst e, t, snd e)) r)) = avalues r.
Proof. unfold avalues. rewrite map_map. reflexivity. Qed.

Section RackGlobal.
Variables (zo ro : bytes -> list bytes) (ms : list member) (ps : list partition).
Hypothesis Hwf : wf_group ms.
Hypothesis Hord : rack_orders_ok zo ro ps.

Let pbt := partitions_by_topic ps.
Let mbt := group_by_topic ms.

Lemma bucket_facts t mems : In (t, mems) mbt ->
  mems = filter (subscribes t) ms /\ mems <> [] /\ NoDup (map m_id mems).
Proof.
  intros Hin. pose proof (aget_in t mems mbt (NoDup_akeys_group_by_topic ms) Hin) as E.
  unfold mbt in E. rewrite aget_group_by_topic in E by exact Hwf. subst mems.
  split; [reflexivity|]. split.
  - assert (Hk : In t (akeys mbt)) by (apply (in_map fst) in Hin; exact Hin).
    apply akeys_group_by_topic in Hk. destruct Hk as [m [Hm Ht]].
    intros E. assert (Hf : In m (filter (subscribes t) ms)) by (apply filter_In; rewrite subscribes_iff; tauto).
    rewrite E in Hf. exact Hf.
  - apply NoDup_map_filter. apply Hwf.
Qed.

Lemma bucket_ok t mems : In (t, mems) mbt ->
  let T := length (aget t pbt) / length mems in
  exists r, rack_assign_topic (zo t) (ro t) mems (aget t pbt) = Some r /\
    NoDup (akeys r) /\ incl (akeys r) (map m_id mems) /\
    Permutation (avalues r) (map p_id (aget t pbt)) /\
    (forall i, In i (map m_id mems) -> T <= length (aget i r) <= T + 1) /\
    (forall z, aff mems (zoned_partitions (aget t pbt)) T z r).
Proof.
  intros Hin. destruct (bucket_facts t mems Hin) as [_ [Hne Hnd]].
  destruct (Hord t) as [H1 H2]. apply rack_topic_ok; assumption.
Qed.

Lemma rack_assign_some : rack_assign zo ro ms ps = Some (lift (rack_G zo ro pbt) mbt).
Proof.
  unfold rack_assign. apply rack_topics_lift. intros t mems Hin.
  destruct (bucket_ok t mems Hin) as [r [E _]]. exists r. exact E.
Qed.

(* the bucket of a subscribed topic *)
Lemma subscribed_bucket t : existsb (subscribes t) ms = true ->
  In (t, filter (subscribes t) ms) mbt.
Proof.
  intros E. apply existsb_exists in E. destruct E as [m [Hm Hs]]. apply subscribes_iff in Hs.
  assert (Hk : In t (akeys mbt)) by (apply akeys_group_by_topic; exists m; tauto).
  pose proof (in_aget t mbt (NoDup_akeys_group_by_topic ms) Hk) as Hin.
  unfold mbt in Hin at 1. rewrite aget_group_by_topic in Hin by exact Hwf. exact Hin.
Qed.

Lemma unsubscribed_nil t : existsb (subscribes t) ms = false -> aget t mbt = [].
Proof.
  intros E. unfold mbt. rewrite aget_group_by_topic by exact Hwf.
  destruct (filter (subscribes t) ms) as [|m l] eqn:Ef; [reflexivity|exfalso].
  assert (Hin : In m (filter (subscribes t) ms)) by (rewrite Ef; left; reflexivity).
  apply filter_In in Hin.
  assert (existsb (subscribes t) ms = true) by (apply existsb_exists; exists m; exact Hin). congruence.
Qed.

Lemma rack_assigned_eq id t r : existsb (subscribes t) ms = true ->
  rack_assign_topic (zo t) (ro t) (filter (subscribes t) ms) (aget t pbt) = Some r ->
  NoDup (akeys r) ->
  assigned (lift (rack_G zo ro pbt) mbt) id t = aget id r.
Proof.
  intros Es E Hnd.
  rewrite (assigned_lift _ (rack_G_topic zo ro pbt) (rack_G_nil zo ro pbt)) by apply NoDup_akeys_group_by_topic.
  unfold mbt. rewrite aget_group_by_topic by exact Hwf. unfold rack_G. rewrite E.
  apply assigned_of_amap. exact Hnd.
Qed.

Lemma rack_partition_lemma : exact_partition ms ps (lift (rack_G zo ro pbt) mbt).
Proof.
  unfold exact_partition. split; [|split].
  - apply (NoDup_tkeys_lift _ (rack_G_topic zo ro pbt)); [apply NoDup_akeys_group_by_topic|].
    intros t mems Hin. destruct (bucket_ok t mems Hin) as [r [E [Hnd _]]].
    unfold rack_G. rewrite E. unfold tkeys. rewrite map_map. cbn [fst].
    unfold akeys in Hnd. clear - Hnd. induction r as [|e r IH]; cbn [map] in *; [constructor|].
    apply NoDup_cons_iff in Hnd. destruct Hnd as [Hk Hnd]. constructor; [|auto].
    intros Hi. apply Hk. apply in_map_iff in Hi. destruct Hi as [x [Ex Hx]].
    apply in_map_iff. exists x. split; [congruence|exact Hx].
  - intros tr Htr.
    pose proof (in_lift _ (rack_G_topic zo ro pbt) tr mbt Htr (NoDup_akeys_group_by_topic ms)) as Hin.
    assert (Hk : In (snd (fst tr)) (akeys mbt)) by (eapply lift_topic; [apply rack_G_topic|exact Htr]).
    set (t := snd (fst tr)) in *.
    pose proof (in_aget t mbt (NoDup_akeys_group_by_topic ms) Hk) as Hb.
    destruct (bucket_ok t _ Hb) as [r [E [_ [Hinc _]]]].
    destruct (bucket_facts t _ Hb) as [Ef _].
    unfold rack_G in Hin. rewrite E in Hin. apply in_map_iff in Hin. destruct Hin as [e [Ee He]].
    assert (Hid : In (fst e) (map m_id (aget t mbt))) by (apply Hinc; apply in_map; exact He).
    apply in_map_iff in Hid. destruct Hid as [m [Em Hm]]. rewrite Ef in Hm.
    apply filter_In in Hm. rewrite subscribes_iff in Hm.
    exists m. rewrite <- Ee. cbn [fst snd]. tauto.
  - intros t.
    rewrite (topic_parts_lift _ (rack_G_topic zo ro pbt) (rack_G_nil zo ro pbt)) by apply NoDup_akeys_group_by_topic.
    destruct (existsb (subscribes t) ms) eqn:Es.
    + destruct (bucket_ok t _ (subscribed_bucket t Es)) as [r [E [_ [_ [Hp _]]]]].
      unfold mbt at 1. rewrite aget_group_by_topic by exact Hwf.
      unfold rack_G. rewrite E, concat_snd_of_amap, Hp.
      unfold pbt. rewrite aget_partitions_by_topic. reflexivity.
    + rewrite (unsubscribed_nil t Es). reflexivity.
Qed.

Lemma rack_even_lemma : even_loads ms ps (lift (rack_G zo ro pbt) mbt).
Proof.
  intros t m1 m2 I1 I2 T1 T2 P M.
  assert (Es : existsb (subscribes t) ms = true).
  { apply existsb_exists. exists m1. rewrite subscribes_iff. tauto. }
  destruct (bucket_ok t _ (subscribed_bucket t Es)) as [r [E [Hnd [_ [_ [Hb _]]]]]].
  rewrite !(rack_assigned_eq _ t r Es E Hnd).
  assert (H1 : In (m_id m1) (map m_id (filter (subscribes t) ms)))
    by (apply in_map, filter_In; rewrite subscribes_iff; tauto).
  assert (H2 : In (m_id m2) (map m_id (filter (subscribes t) ms)))
    by (apply in_map, filter_In; rewrite subscribes_iff; tauto).
  pose proof (Hb _ H1) as B1. pose proof (Hb _ H2) as B2.
  unfold pbt in B1, B2. rewrite aget_partitions_by_topic in B1, B2.
  unfold P, M, find_partitions. rewrite map_length. lia.
Qed.

(* affinity: the members of rack z hold, for topic t, a prefix of length >= the bound of
   the partitions of t led in z (in listed order), plus possibly more *)
Lemma rack_affinity_lemma t z : existsb (subscribes t) ms = true ->
  let mems := filter (subscribes t) ms in
  let parts := filter (fun p => bytes_eqb (p_topic p) t) ps in
  let cs := map m_id (filter (fun m => bytes_eqb (m_userdata m) z) mems) in
  let pz := map p_id (filter (fun p => bytes_eqb (p_rack p) z) parts) in
  let T := length parts / length mems in
  let held := flat_map (fun c => assigned (lift (rack_G zo ro pbt) mbt) c t) cs in
  (exists n other, Nat.min (length pz) (length cs * T) <= n /\
                   Permutation held (firstn n pz ++ other)) /\
  Nat.min (length pz) (length cs * T) <= length (filter (fun x => existsb (Z.eqb x) pz) held).
Proof.
  intros Es mems parts cs pz T held.
  destruct (bucket_ok t _ (subscribed_bucket t Es)) as [r [E [Hnd [_ [_ [_ Ha]]]]]].
  destruct (bucket_facts t _ (subscribed_bucket t Es)) as [_ [_ Hmnd]].
  destruct (Ha z) as [n [other [Hn Hp]]].
  rewrite cs_of_eq in Hn, Hp. rewrite aget_zoned_partitions in Hn, Hp.
  unfold pbt in Hn, Hp. rewrite aget_partitions_by_topic in Hn, Hp.
  fold mems parts cs pz T in Hn, Hp.
  assert (Hheld : held = flat_map (fun c => aget c r) cs).
  { unfold held. apply flat_map_ext_in. intros c _. apply (rack_assigned_eq c t r Es E Hnd). }
  rewrite <- Hheld in Hp.
  split; [exists n, other; split; assumption|].
  rewrite (Permutation_length (filter_perm _ _ _ Hp)), filter_app, app_length.
  assert (Hall : filter (fun x => existsb (Z.eqb x) pz) (firstn n pz) = firstn n pz).
  { clear. assert (H : forall x, In x (firstn n pz) -> In x pz) by (intros x; apply firstn_In_incl).
    induction (firstn n pz) as [|a l IH]; [reflexivity|]. cbn [filter].
    assert (Ha : existsb (Z.eqb a) pz = true).
    { apply existsb_exists. exists a. split; [apply H; left; reflexivity|apply Z.eqb_refl]. }
    rewrite Ha. f_equal. apply IH. intros; apply H; right; assumption. }
  rewrite Hall, firstn_length. lia.
Qed.
End RackGlobal.

(* ------------------------------------------------------------------ statements used by
   Properties/C14.v *)
Lemma rack_no_panic zo ro ms ps : wf_group ms -> rack_orders_ok zo ro ps ->
  exists a, rack_assign zo ro ms ps = Some a.
Proof. intros H1 H2. eexists. apply rack_assign_some; assumption. Qed.

Lemma rack_partition zo ro ms ps a : wf_group ms -> rack_orders_ok zo ro ps ->
  rack_assign zo ro ms ps = Some a -> exact_partition ms ps a.
Proof.
  intros H1 H2 E. rewrite (rack_assign_some zo ro ms ps H1 H2) in E. inversion E; subst.
  apply rack_partition_lemma; assumption.
Qed.

Lemma rack_even zo ro ms ps a : wf_group ms -> rack_orders_ok zo ro ps ->
  rack_assign zo ro ms ps = Some a -> even_loads ms ps a.
Proof.
  intros H1 H2 E. rewrite (rack_assign_some zo ro ms ps H1 H2) in E. inversion E; subst.
  apply rack_even_lemma; assumption.
Qed.

Definition rack_affinity_statement (ms : list member) (ps : list partition) (a : list triple) : Prop :=
  forall t z, existsb (subscribes t) ms = true ->
  let mems := filter (subscribes t) ms in
  let parts := filter (fun p => bytes_eqb (p_topic p) t) ps in
  let cs := map m_id (filter (fun m => bytes_eqb (m_userdata m) z) mems) in
  let pz := map p_id (filter (fun p => bytes_eqb (p_rack p) z) parts) in
  let T := length parts / length mems in
  let held := flat_map (fun c => assigned a c t) cs in
  (exists n other, Nat.min (length pz) (length cs * T) <= n /\
                   Permutation held (firstn n pz ++ other)) /\
  Nat.min (length pz) (length cs * T) <= length (filter (fun x => existsb (Z.eqb x) pz) held).

Lemma rack_affinity zo ro ms ps a : wf_group ms -> rack_orders_ok zo ro ps ->
  rack_assign zo ro ms ps = Some a -> rack_affinity_statement ms ps a.
Proof.
  intros H1 H2 E. rewrite (rack_assign_some zo ro ms ps H1 H2) in E. inversion E; subst.
  intros t z Es. apply rack_affinity_lemma; assumption.
Qed.

Lemma rack_orders_canonical ps :
  rack_orders_ok (fun t => zones_of (aget t (partitions_by_topic ps)))
                 (fun t => rev (zones_of (aget t (partitions_by_topic ps)))) ps.
Proof. intros t. split; [reflexivity|apply Permutation_sym, Permutation_rev]. Qed.
