(* Proofs/SchemaPrims.v — the decoder's primitives on a well-formed prefix. *)
From Coq Require Import List NArith ZArith Bool Lia.
From Coq Require Import ZifyN ZifyNat ZifyBool.
From KV Require Import Lib.Bits Lib.Bytes Lib.Varint Model.Schema Proofs.SchemaBase Proofs.SchemaDefs.
Import ListNotations.

Lemma firstn_app_exact {A} (a b : list A) : firstn (length a) (a ++ b) = a.
Proof. rewrite firstn_app, Nat.sub_diag, firstn_all. cbn. apply app_nil_r. Qed.
Lemma skipn_app_exact {A} (a b : list A) : skipn (length a) (a ++ b) = b.
Proof. rewrite skipn_app, Nat.sub_diag, skipn_all. reflexivity. Qed.

Definition st (i : list N) (r : Z) (a : N) : dstate := {| d_in := i; d_remain := r; d_alloc := a |}.

Lemma read_z_app bs rest r al :
  (Z.of_nat (length bs) <= r)%Z ->
  read_z (Z.of_nat (length bs)) (st (bs ++ rest) r al) = Ok bs (st rest (r - Z.of_nat (length bs)) al).
Proof.
  intros Hr. unfold read_z, st. cbn [d_in d_remain d_alloc].
  destruct (Z.leb_spec (Z.of_nat (length bs)) 0) as [Hz|Hp].
  - assert (length bs = 0)%nat as Hl by lia. destruct bs; [|cbn in Hl; lia].
    cbn. f_equal. f_equal. lia.
  - destruct (Z.leb_spec r 0); [lia|].
    rewrite Z.min_l by lia. rewrite app_length.
    destruct (Z.ltb_spec (Z.of_nat (length bs + length rest)) (Z.of_nat (length bs))); [lia|].
    rewrite Z.ltb_irrefl. rewrite Nat2Z.id, firstn_app_exact, skipn_app_exact. reflexivity.
Qed.

Lemma read_n_app bs rest r al :
  (Z.of_nat (length bs) <= r)%Z ->
  read_n (length bs) (st (bs ++ rest) r al) = Ok bs (st rest (r - Z.of_nat (length bs)) al).
Proof. apply read_z_app. Qed.

Lemma read_int_put w z rest r al :
  (0 < w)%nat -> in_signed w z -> (Z.of_nat w <= r)%Z ->
  read_int w (st (put_bes w z ++ rest) r al) = Ok z (st rest (r - Z.of_nat w) al).
Proof.
  intros Hw Hz Hr. unfold read_int.
  assert (Hl : length (put_bes w z) = w) by (unfold put_bes; apply put_be_length).
  rewrite <- Hl at 1. rewrite read_n_app by lia. cbn [bind].
  rewrite get_put_bes by assumption. rewrite Hl. reflexivity.
Qed.

Lemma in_signedb_spec w z : in_signedb w z = true <-> in_signed w z.
Proof. unfold in_signedb, in_signed. rewrite andb_true_iff, Z.leb_le, Z.ltb_lt. tauto. Qed.

(* ---- unsigned varints ---- *)
Lemma lor_add_disjoint a b s : (a < 2 ^ s)%N -> N.lor a (b * 2 ^ s) = (a + b * 2 ^ s)%N.
Proof.
  intros Ha.
  assert (Hland : N.land a (b * 2 ^ s) = 0%N).
  { apply N.bits_inj_0. intros n. rewrite N.land_spec.
    destruct (N.lt_ge_cases n s) as [Hlt|Hge].
    - rewrite N.mul_pow2_bits_low by exact Hlt. apply andb_false_r.
    - replace a with (a mod 2 ^ s)%N by (apply N.mod_small; exact Ha).
      rewrite N.mod_pow2_bits_high by exact Hge. reflexivity. }
  rewrite <- N.lxor_lor by exact Hland. symmetry. apply N.add_nocarry_lxor. exact Hland.
Qed.

Lemma pow2_split s : (2 ^ (s + 7) = 128 * 2 ^ s)%N.
Proof. rewrite N.pow_add_r. change (2 ^ 7)%N with 128%N. lia. Qed.

Lemma uvarint_enc_length fuel : forall x, (1 <= length (uvarint_enc fuel x) <= S fuel)%nat.
Proof.
  induction fuel as [|f IH]; intros x; cbn [uvarint_enc].
  - cbn. lia.
  - destruct (N.ltb_spec x 128); cbn [length]; [lia|]. specialize (IH (x / 128)%N). lia.
Qed.

Lemma uvarint_enc_bytes fuel : forall x, bytes_ok (uvarint_enc fuel x).
Proof.
  induction fuel as [|f IH]; intros x; cbn [uvarint_enc].
  - constructor; [|constructor]. unfold is_byte. apply N.mod_lt. discriminate.
  - destruct (N.ltb_spec x 128).
    + constructor; [|constructor]. unfold is_byte. lia.
    + constructor; [|apply IH]. unfold is_byte.
      pose proof (N.mod_lt x 128 ltac:(discriminate)). lia.
Qed.

(* reading back what uvarint_enc wrote: [x] has at most 7*(fuel+1) bits *)
Lemma uvarint_loop_enc fuel : forall x n acc shift rest r al,
  (x < 128 ^ N.of_nat (S fuel))%N ->
  (acc < 2 ^ shift)%N -> (acc + x * 2 ^ shift < M64)%N ->
  (length (uvarint_enc fuel x) <= n)%nat ->
  (Z.of_nat (length (uvarint_enc fuel x)) <= r)%Z ->
  uvarint_loop n acc shift (st (uvarint_enc fuel x ++ rest) r al) =
  Ok (acc + x * 2 ^ shift)%N (st rest (r - Z.of_nat (length (uvarint_enc fuel x))) al).
Proof.
  induction fuel as [|f IH]; intros x n acc shift rest r al Hx Hacc Hsum Hn Hr.
  - (* one byte *)
    assert (Hx128 : (x < 128)%N) by (cbn in Hx; lia).
    cbn [uvarint_enc] in *. cbn [length] in Hn, Hr.
    destruct n as [|n']; [lia|]. cbn [uvarint_loop].
    rewrite N.mod_small by lia.
    change (read_n 1 (st ([x] ++ rest) r al)) with (read_n (length [x]) (st ([x] ++ rest) r al)).
    rewrite read_n_app by (cbn; lia). cbn [bind].
    destruct (N.ltb_spec x 128); [|lia].
    rewrite (N.mod_small (x * 2 ^ shift)) by lia.
    rewrite lor_add_disjoint by exact Hacc. reflexivity.
  - cbn [uvarint_enc] in *.
    destruct (N.ltb_spec x 128) as [Hlt|Hge].
    + cbn [length] in Hn, Hr. destruct n as [|n']; [lia|]. cbn [uvarint_loop].
      change (read_n 1 (st ([x] ++ rest) r al)) with (read_n (length [x]) (st ([x] ++ rest) r al)).
      rewrite read_n_app by (cbn; lia). cbn [bind].
      destruct (N.ltb_spec x 128); [|lia].
      rewrite (N.mod_small (x * 2 ^ shift)) by lia.
      rewrite lor_add_disjoint by exact Hacc. reflexivity.
    + cbn [length] in Hn, Hr. destruct n as [|n']; [lia|]. cbn [uvarint_loop].
      set (b := (x mod 128 + 128)%N).
      change ((b :: uvarint_enc f (x / 128)) ++ rest) with ([b] ++ (uvarint_enc f (x / 128) ++ rest)).
      change (read_n 1 (st ([b] ++ (uvarint_enc f (x / 128) ++ rest)) r al))
        with (read_n (length [b]) (st ([b] ++ (uvarint_enc f (x / 128) ++ rest)) r al)).
      rewrite read_n_app by (cbn; lia). cbn [bind].
      pose proof (N.mod_lt x 128 ltac:(discriminate)) as Hm.
      pose proof (N.div_mod x 128 ltac:(discriminate)) as Hdm.
      destruct (N.ltb_spec b 128); [unfold b in *; lia|].
      assert (Hbm : (b mod 128 = x mod 128)%N).
      { unfold b. replace (x mod 128 + 128)%N with (x mod 128 + 1 * 128)%N by lia.
        rewrite N.mod_add by discriminate. apply N.mod_small. exact Hm. }
      rewrite Hbm.
      assert (Hp : (0 < 2 ^ shift)%N) by (apply N.neq_0_lt_0, N.pow_nonzero; discriminate).
      assert (Hsmall : ((x mod 128) * 2 ^ shift < M64)%N) by nia.
      rewrite (N.mod_small _ _ Hsmall).
      rewrite lor_add_disjoint by exact Hacc.
      cbn [length]. 
      rewrite IH.
      * f_equal.
        -- rewrite pow2_split. nia.
        -- unfold st. f_equal. lia.
      * rewrite Nat2N.inj_succ, N.pow_succ_r' in Hx.
        apply N.div_lt_upper_bound; [discriminate|]. lia.
      * rewrite pow2_split. nia.
      * rewrite pow2_split. nia.
      * lia.
      * lia.
Qed.

Lemma put_uvarint_length x : (1 <= length (put_uvarint x) <= 11)%nat.
Proof. unfold put_uvarint. apply uvarint_enc_length. Qed.

Lemma put_uvarint_bytes x : bytes_ok (put_uvarint x).
Proof. unfold put_uvarint. apply uvarint_enc_bytes. Qed.

Lemma read_uvarint_put x rest r al :
  (x < M64)%N -> (Z.of_nat (length (put_uvarint x)) <= r)%Z ->
  read_uvarint (st (put_uvarint x ++ rest) r al) =
  Ok x (st rest (r - Z.of_nat (length (put_uvarint x))) al).
Proof.
  intros Hx Hr. unfold read_uvarint. cbn [st d_remain].
  pose proof (put_uvarint_length x) as Hl.
  unfold put_uvarint in *. rewrite (N.mod_small x M64) in * by exact Hx.
  set (n := if (r <? 11)%Z then Z.to_nat r else 11%nat).
  assert (Hn : (length (uvarint_enc 10 x) <= n)%nat).
  { unfold n. destruct (Z.ltb_spec r 11); lia. }
  rewrite uvarint_loop_enc; try assumption.
  - f_equal. lia.
  - eapply N.lt_trans; [exact Hx|]. vm_compute. reflexivity.
  - cbn. lia.
  - cbn [N.pow]. lia.
Qed.

(* ---- allocation ---- *)
Lemma alloc_ok c n esize i r al :
  (0 <= n)%Z -> (Z.to_N n * esize <= max_alloc)%N -> (al + Z.to_N n * esize <= budget c)%N ->
  alloc c n esize (st i r al) = Ok tt (st i r (al + Z.to_N n * esize)).
Proof.
  intros Hn Hm Hb. unfold alloc, st. cbn [d_in d_remain d_alloc].
  destruct (Z.ltb_spec n 0); [lia|].
  destruct (N.ltb_spec max_alloc (Z.to_N n * esize)); [lia|].
  destruct (N.ltb_spec (budget c) (al + Z.to_N n * esize)); [lia|]. reflexivity.
Qed.

Lemma read_alloc_app c bs rest r al :
  (Z.of_nat (length bs) <= r)%Z -> (Z.of_nat (length bs) < ZM31)%Z ->
  (al + N.of_nat (length bs) <= budget c)%N ->
  read_alloc c (Z.of_nat (length bs)) (st (bs ++ rest) r al) =
  Ok bs (st rest (r - Z.of_nat (length bs)) (al + N.of_nat (length bs))).
Proof.
  intros Hr Hsmall Hb. unfold read_alloc. cbn [st d_remain].
  destruct (Z.ltb_spec (Z.of_nat (length bs)) 0); [lia|].
  destruct (Z.ltb_spec r (Z.of_nat (length bs))); [lia|]. cbn [orb].
  rewrite alloc_ok.
  - cbn [bind]. rewrite N.mul_1_r.
    replace (Z.to_N (Z.of_nat (length bs))) with (N.of_nat (length bs)) by lia.
    apply read_z_app. exact Hr.
  - lia.
  - unfold max_alloc, ZM31 in *. lia.
  - lia.
Qed.
