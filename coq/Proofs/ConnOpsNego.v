(* Proofs/ConnOpsNego.v — loadVersions as a step (conn_nop): the version map is cached only
   after a successful ApiVersions exchange; after one that failed with a broker-reported error
   the Conn is as fresh.  Batch.Read / ReadMessage + Close instances. *)
From Coq Require Import List NArith ZArith Bool Lia.
From KV Require Import Lib.Bits Lib.Bytes Model.Legacy Model.ConnOps.
From KV Require Import Proofs.ConnOpsBase Proofs.ConnOpsCodec Proofs.ConnOpsProofs Proofs.ConnOpsWitness
  Proofs.ConnOpsCustom Proofs.ConnOpsAll.
Import ListNotations.
Open Scope Z_scope.

Lemma apiversions_negotiated : negotiated AApiVersions 0 = true.
Proof. reflexivity. Qed.

(* the implicit ApiVersions exchange of a negotiating operation is answered with a well-formed
   response carrying an error code: the operation returns that Kafka error, nothing is cached,
   the reader sits behind the ApiVersions frame and the Conn is open with only its correlation
   counter advanced — the state of a fresh Conn *)
Theorem nego_failed_as_fresh st a key offered off w code rest st1 s1 :
  supported a = Some (key, offered) ->
  well_formed AApiVersions 0 w -> fits (enc (resp_ty AApiVersions 0) w) -> closed st = false ->
  conn_do st (mkOp AApiVersions 0 0)
    (frame (wrap32 (corr st + 1)) (enc (resp_ty AApiVersions 0) w) ++ rest) = (st1, RErr (EKafka code), s1) ->
  conn_nop (st, None) a off (frame (wrap32 (corr st + 1)) (enc (resp_ty AApiVersions 0) w) ++ rest)
    = ((st1, None), RErr (EKafka code), rest) /\
  closed st1 = false /\ corr st1 = wrap32 (corr st + 1).
Proof.
  intros Hsup Hwf Hfit Hcl H.
  destruct (wf_step _ _ _ _ _ _ _ _ _ apiversions_negotiated Hwf Hfit Hcl H)
    as [Hcorr [(_ & Hs & Hcl1)|(e & He & Hk & _)]].
  2:{ inversion He; subst e. discriminate Hk. }
  subst s1. split; [|auto].
  unfold conn_nop. rewrite Hsup, H. destruct a; reflexivity.
Qed.

(* so the next negotiating operation asks again: it is [conn_nop] on an unloaded Conn *)
Corollary nego_next_asks_again st a key offered off w code rest st1 s1 a2 off2 :
  supported a = Some (key, offered) ->
  well_formed AApiVersions 0 w -> fits (enc (resp_ty AApiVersions 0) w) -> closed st = false ->
  conn_do st (mkOp AApiVersions 0 0)
    (frame (wrap32 (corr st + 1)) (enc (resp_ty AApiVersions 0) w) ++ rest) = (st1, RErr (EKafka code), s1) ->
  let '(c1, _, s') := conn_nop (st, None) a off (frame (wrap32 (corr st + 1)) (enc (resp_ty AApiVersions 0) w) ++ rest) in
  conn_nop c1 a2 off2 s' = conn_nop (st1, None) a2 off2 rest /\ snd c1 = None.
Proof.
  intros Hsup Hwf Hfit Hcl H.
  destruct (nego_failed_as_fresh _ _ _ _ off _ _ _ _ _ Hsup Hwf Hfit Hcl H) as [E _].
  rewrite E. split; reflexivity.
Qed.

(* the map is stored only by a successful ApiVersions exchange *)
Theorem nego_cache_only_on_success st a off s st' t r s' :
  conn_nop (st, None) a off s = ((st', Some t), r, s') ->
  exists st1 r0 s1, conn_do st (mkOp AApiVersions 0 0) s = (st1, ROk r0, s1) /\ t = table_of r0.
Proof.
  unfold conn_nop. destruct (supported a) as [[key offered]|].
  - destruct (conn_do st (mkOp AApiVersions 0 0) s) as [[st1 [r0|e]] s1].
    + destruct (negotiate _ _ <? 0).
      * intros H; inversion H. eauto.
      * destruct (conn_do st1 _ s1) as [[a1 b1] c1]. intros H; inversion H. eauto.
    + intros H; inversion H.
  - destruct (conn_do st _ s) as [[a1 b1] c1]. intros H; inversion H.
Qed.

(* a loaded map is never dropped or replaced *)
Theorem nego_cache_kept st t a off s c' r s' :
  conn_nop (st, Some t) a off s = (c', r, s') -> snd c' = Some t.
Proof.
  unfold conn_nop. destruct (supported a) as [[key offered]|].
  - destruct (negotiate _ _ <? 0); [intros H; inversion H; reflexivity|].
    destruct (conn_do st _ s) as [[a1 b1] c1]. intros H; inversion H; reflexivity.
  - destruct (conn_do st _ s) as [[a1 b1] c1]. intros H; inversion H; reflexivity.
Qed.

(* ---- Batch.Read with a buffer that is too short ---- *)
(* two magic-1 messages, offsets 7 and 8, values "ab" and "cde" *)
Definition msg_v1 (off : Z) (value : list N) : list N :=
  put_bes 8 off ++ put_bes 4 (22 + Z.of_nat (length value)) ++ put_bes 4 0 ++ [1%N; 0%N] ++ put_bes 8 1000
  ++ put_bes 4 (-1) ++ put_bes 4 (Z.of_nat (length value)) ++ value.
Definition w_fetch_two : wval :=
  WP (WZ 0) (one_tp (WP (WZ 0) (WP (WZ 0) (WP (WZ 100)
     (WS (Some (msg_v1 7 [97%N; 98%N] ++ msg_v1 8 [99%N; 100%N; 101%N]))))))).
(* ReadMessage, then Read into a 1-byte buffer: io.ErrShortBuffer, Batch.offset rolled back to 8
   (the message that did not fit), Close keeps the Conn; the heartbeat that follows reads its
   own frame *)
Lemma short_buffer_then_next_ok :
  conn_run (fresh [116%N]) [mkOp (AFetchRead [-1; 1]) 2 7; hb]
    (frame 1 (enc (resp_ty AFetch 2) w_fetch_two) ++ hb_frame 2)
  = (mkConn false 2 [116%N] 7,
     [ROk (fin_val 1 8 [act_val 1 7 [] [97%N; 98%N] 0; act_val 0 1 [] [99%N] 1]); ROk (VZ 0)], []).
Proof. vm_compute. reflexivity. Qed.
(* the documented retry with a larger buffer *)
Lemma short_buffer_retry_ok :
  conn_do (fresh [116%N]) (mkOp (AFetchRead [-1; 3]) 2 7) (frame 1 (enc (resp_ty AFetch 2) w_fetch_two))
  = (mkConn false 1 [116%N] 7,
     ROk (fin_val 0 9 [act_val 1 7 [] [97%N; 98%N] 0; act_val 0 3 [] [99%N; 100%N; 101%N] 0]), []).
Proof. vm_compute. reflexivity. Qed.

(* Read into a 1-byte buffer (values "ab", "cde"), response cut at ANY byte — before, inside or
   after the value that does not fit: io.ErrUnexpectedEOF (never io.ErrShortBuffer) and the Conn
   is closed *)
Lemma short_buffer_cut_anywhere :
  length (frame 1 (enc (resp_ty AFetch 2) w_fetch_two)) = 114%nat /\
  forall k, (k < 114)%nat ->
  exists st' s', conn_do (fresh [116%N]) (mkOp (AFetchRead [1]) 2 7)
                   (firstn k (frame 1 (enc (resp_ty AFetch 2) w_fetch_two)))
                 = (st', RErr EUnexpEOF, s') /\ closed st' = true.
Proof.
  split; [vm_compute; reflexivity|].
  intros k Hk. assert (Hc : In k (seq 0 114)) by (apply in_seq; lia). all_cuts.
Qed.

(* ---- deadlines ---- *)
(* a call made under the deadline of its own side is bounded in every exchange it performs,
   including the implicit version negotiation of a first write-side call with only a write
   deadline set *)
Theorem stall_bounded rset wset loaded a :
  (match op_side a with SRead => rset | SWrite => wset end) = true ->
  deadline_of rset wset (stalled_exchange loaded a) <> None.
Proof.
  intros H. unfold stalled_exchange.
  assert (Hown : deadline_of rset wset a <> None).
  { unfold deadline_of. destruct a; cbn [op_side] in *; rewrite ?H; try discriminate;
      destruct rset; try discriminate; destruct wset; discriminate. }
  destruct (supported a) as [p|]; [|exact Hown].
  destruct loaded; [exact Hown|].
  unfold deadline_of. destruct (op_side a); rewrite H in *.
  - discriminate.
  - destruct rset; discriminate.
Qed.

(* ---- Conn.offset ---- *)
(* whatever an operation returns — in particular a Kafka error — the Conn's offset afterwards is
   the offset it was positioned at: unchanged for every operation but fetch, and for fetch
   (ReadBatch + Close without reading) the offset the Conn was seeked to before the call *)
Theorem offset_after_call st o s st' r s' :
  conn_do st o s = (st', r, s') -> offset st' = op_offset st o.
Proof.
  unfold conn_do. destruct (closed st); [intros H; inversion H; reflexivity|].
  destruct (wait_response _ s) as [[[size|e] s1] cl]; [|intros H; inversion H; reflexivity].
  destruct (op_read _ _ _ size s1) as [[[x|e] sz1] s2]; intros H; inversion H; reflexivity.
Qed.
Corollary kafka_error_keeps_offset st o s st' c s' :
  conn_do st o s = (st', RErr (EKafka c), s') ->
  offset st' = op_offset st o /\ (op_api o <> AFetch -> (forall acts, op_api o <> AFetchRead acts) -> offset st' = offset st).
Proof.
  intros H. pose proof (offset_after_call _ _ _ _ _ _ H) as E. split; [exact E|].
  intros H1 H2. rewrite E. unfold op_offset. destruct (op_api o); try reflexivity.
  - contradiction.
  - exfalso. eapply H2. reflexivity.
Qed.
