(* Proofs/SkeletonConn.v — the synchronisation-skeleton assumptions of Model/ConnMux.v and of
   conn_do in Model/ConnOps.v (conn.go, batch.go) hold of /repo's CURRENT source. *)
From Coq Require Import List String Bool.
From KV Require Import Model.DRF Model.SkeletonAssumptions Gen.Skeleton.
Import ListNotations.
Open Scope string_scope.

Lemma conn_skeleton_ok : conn_assumptions_hold calls accesses = true.
Proof. vm_compute. reflexivity. Qed.

(* the checker discriminates:
   1. the read lock taken while still holding the write lock (lock order);
   2. correlationID++ outside wlock;
   3. a third place releasing the handed-over read lock;
   4. peeking the response header without rlock;
   5. waitResponse before the request was written;
   6. inflight turned into a plain counter. *)
Lemma conn_skeleton_rejects :
  conn_assumptions_hold
    (mkCall "Conn.waitResponse" "lock(Conn.rlock)" HCall [("Conn.wlock", MW)] [] ["Conn.doRequest"] [] false "x"
     :: filter (fun k => negb (String.eqb (k_callee k) "lock(Conn.rlock)")) calls) accesses = false /\
  conn_assumptions_hold calls (mkAcc "Conn" "correlationID" KWrite "Conn.doRequest" [] false "x" :: accesses) = false /\
  conn_assumptions_hold (mkCall "Conn.ReadBatchWith" "unlock(?lock)" HCall [] [] ["Conn.waitResponse"] [] false "x" :: calls) accesses = false /\
  conn_assumptions_hold
    (mkCall "Conn.waitResponse" "Conn.peekResponseSizeAndID" HCall [] [] [] [] false "x"
     :: filter (fun k => negb (String.eqb (k_callee k) "Conn.peekResponseSizeAndID")) calls) accesses = false /\
  conn_assumptions_hold (mkCall "Conn.do" "Conn.waitResponse" HCall [] [] [] [] false "x" :: calls) accesses = false /\
  conn_assumptions_hold calls (mkAcc "Conn" "inflight" KWrite "Conn.enter" [] false "x" :: accesses) = false.
Proof. vm_compute. repeat split; reflexivity. Qed.
