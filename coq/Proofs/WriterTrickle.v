(* Proofs/WriterTrickle.v — the batch deadline counts from the OPENING of the batch
   (take_batch / batches_by_deadline / span_ok at the end of Model/Writer.v).
   Sortedness hypothesis: StronglySorted Z.le. *)
From Coq Require Import List ZArith Bool Arith Lia Sorted.
From KV Require Import Model.Writer.
Import ListNotations.

Lemma take_batch_spec : forall ts t0 timeout room b rem,
  take_batch t0 timeout room ts = (b, rem) ->
  ts = b ++ rem /\ length b <= room /\ forall t, In t b -> (t < t0 + timeout)%Z.
Proof.
  induction ts as [|x r IH]; intros t0 timeout room b rem H; cbn [take_batch] in H.
  - inversion H; subst. split; [reflexivity|]. split; [simpl; lia|intros t []].
  - destruct room as [|room].
    + inversion H; subst. split; [reflexivity|]. split; [simpl; lia|intros t []].
    + destruct (Z.ltb x (t0 + timeout)) eqn:E.
      * destruct (take_batch t0 timeout room r) as [b' rem'] eqn:T.
        inversion H; subst; clear H.
        destruct (IH _ _ _ _ _ T) as [E1 [E2 E3]].
        split; [simpl; f_equal; exact E1|]. split; [simpl; lia|].
        intros t [<-|Hi]; [apply Z.ltb_lt; exact E|apply E3; exact Hi].
      * inversion H; subst. split; [reflexivity|]. split; [simpl; lia|intros t []].
Qed.

Lemma StronglySorted_app_r : forall (l1 l2 : list Z),
  StronglySorted Z.le (l1 ++ l2) -> StronglySorted Z.le l2.
Proof.
  induction l1 as [|x r IH]; intros l2 H; simpl in H; [exact H|].
  apply IH. inversion H; assumption.
Qed.

(* General form (0 <= timeout): the first message opens the batch, every LATER message of
   the batch was accepted strictly before t0 + timeout. *)
Lemma C08_timeout_counts_from_opening_nonneg_proof : forall fuel timeout bsize ts b,
  (0 <= timeout)%Z -> 1 <= bsize -> StronglySorted Z.le ts ->
  In b (batches_by_deadline fuel timeout bsize ts) ->
  exists t0 rest, b = t0 :: rest /\
    (forall t, In t rest -> (t0 <= t < t0 + timeout)%Z) /\
    (forall t, In t b -> (t0 <= t <= t0 + timeout)%Z) /\
    length b <= bsize /\ span_ok timeout 0 bsize b = true.
Proof.
  induction fuel as [|f IH]; intros timeout bsize ts b Ht Hb Hs Hi; cbn [batches_by_deadline] in Hi.
  - destruct Hi.
  - destruct ts as [|t0 rest]; [destruct Hi|].
    destruct (take_batch t0 timeout (pred bsize) rest) as [b' rem] eqn:T.
    destruct (take_batch_spec _ _ _ _ _ _ T) as [E1 [E2 E3]].
    inversion Hs as [|? ? Hs' Hall]; subst.
    destruct Hi as [<-|Hi].
    + assert (Hlo : forall t, In t b' -> (t0 <= t)%Z).
      { intros t Hin. rewrite Forall_forall in Hall. apply Hall. apply in_or_app; left; exact Hin. }
      assert (Hin2 : forall t, In t (t0 :: b') -> (t0 <= t <= t0 + timeout)%Z).
      { intros t [<-|Hin]; [lia|]. specialize (Hlo t Hin). specialize (E3 t Hin). lia. }
      exists t0, b'. split; [reflexivity|].
      split; [intros t Hin; split; [apply Hlo; exact Hin|apply E3; exact Hin]|].
      split; [exact Hin2|].
      split; [simpl; lia|].
      unfold span_ok. apply andb_true_iff. split.
      * apply forallb_forall. intros t Hin. specialize (Hin2 t Hin).
        apply andb_true_iff. split; apply Z.leb_le; lia.
      * apply Nat.leb_le. simpl; lia.
    + apply (IH timeout bsize rem b Ht Hb); [eapply StronglySorted_app_r; exact Hs'|exact Hi].
Qed.

(* The statement as requested holds for a positive timeout. *)
Lemma C08_timeout_counts_from_opening_pos_proof : forall fuel timeout bsize ts b,
  (0 < timeout)%Z -> 1 <= bsize -> StronglySorted Z.le ts ->
  In b (batches_by_deadline fuel timeout bsize ts) ->
  exists t0 rest, b = t0 :: rest /\
    (forall t, In t b -> (t0 <= t < t0 + timeout)%Z) /\
    length b <= bsize /\ span_ok timeout 0 bsize b = true.
Proof.
  intros fuel timeout bsize ts b Ht Hb Hs Hi.
  destruct (C08_timeout_counts_from_opening_nonneg_proof fuel timeout bsize ts b) as
    [t0 [rest [E [H1 [H2 [H3 H4]]]]]]; auto; [lia|].
  exists t0, rest. split; [exact E|]. split; [|split; assumption].
  subst b. intros t [<-|Hin]; [lia|apply H1; exact Hin].
Qed.

(* With timeout = 0 the requested conclusion fails for the opening message itself
   (t0 < t0 + 0 is false): the hypothesis 0 <= timeout is not enough. *)
Lemma C08_timeout_counts_from_opening_zero_refuted :
  ~ (forall fuel timeout bsize ts b,
      (0 <= timeout)%Z -> 1 <= bsize -> StronglySorted Z.le ts ->
      In b (batches_by_deadline fuel timeout bsize ts) ->
      exists t0 rest, b = t0 :: rest /\
        (forall t, In t b -> (t0 <= t < t0 + timeout)%Z) /\
        length b <= bsize /\ span_ok timeout 0 bsize b = true).
Proof.
  intros H.
  destruct (H 1 0%Z 1 [0%Z] [0%Z]) as [t0 [rest [E [H1 _]]]].
  - lia.
  - lia.
  - repeat constructor.
  - simpl. left; reflexivity.
  - inversion E; subst. specialize (H1 0%Z (or_introl eq_refl)). lia.
Qed.
