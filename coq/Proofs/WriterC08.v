(* Proofs/WriterC08.v — proofs of the C08 statements of Proofs/WriterStmts.v about Model/Writer.v:
   limits of every produce request, what the validation rejects, the open batch. *)
From Coq Require Import List NArith Bool Arith Lia ZifyN ZifyNat ZifyBool.
From KV Require Import Lib.LTS Model.Writer Proofs.WriterStmts Proofs.WriterBase.
Import ListNotations.

(* ------------------------------------------------------------------ pure step facts *)
Lemma C08_rejected_sends_nothing_proof : stmt_C08_rejected_sends_nothing.
Proof.
  unfold stmt_C08_rejected_sends_nothing.
  intros cfg s g msgs merr e s' Hne Hv H.
  cbn [step] in H.
  destruct (call_admissible s g msgs); [|discriminate].
  destruct (closed s).
  - inversion H; reflexivity.
  - destruct msgs as [|m r]; [congruence|].
    rewrite Hv in H. inversion H; reflexivity.
Qed.

Section Validate.
Variable cfg : config.

Lemma ftl_complete : forall ms k i m,
  nth_error ms i = Some m -> (batchBytes cfg < m_size m)%N ->
  exists i', i' <= i /\ first_too_large cfg k ms = Some (k + i').
Proof.
  induction ms as [|x r IH]; intros k i m Hn Hs.
  - destruct i; discriminate.
  - cbn [first_too_large].
    destruct (batchBytes cfg <? m_size x)%N eqn:E.
    + exists 0. split; [lia|]. f_equal. lia.
    + destruct i as [|i]; simpl in Hn.
      * inversion Hn; subst. apply N.ltb_ge in E. lia.
      * destruct (IH (S k) i m Hn Hs) as [i' [Hle Hf]].
        exists (S i'). split; [lia|]. rewrite Hf. f_equal. lia.
Qed.

Lemma ftl_sound : forall ms k j,
  first_too_large cfg k ms = Some j ->
  k <= j /\ exists m, nth_error ms (j - k) = Some m /\ (batchBytes cfg < m_size m)%N.
Proof.
  induction ms as [|x r IH]; intros k j H; cbn [first_too_large] in H.
  - discriminate.
  - destruct (batchBytes cfg <? m_size x)%N eqn:E.
    + inversion H; subst. split; [lia|]. exists x. rewrite Nat.sub_diag. split; [reflexivity|].
      apply N.ltb_lt in E. exact E.
    + destruct (IH _ _ H) as [Hle [m [Hn Hs]]]. split; [lia|].
      exists m. split; [|exact Hs].
      replace (j - k) with (S (j - S k)) by lia. exact Hn.
Qed.

Lemma ftl_none : forall ms k,
  first_too_large cfg k ms = None <-> (forall m, In m ms -> (m_size m <= batchBytes cfg)%N).
Proof.
  induction ms as [|x r IH]; intros k; cbn [first_too_large].
  - split; [intros _ m []|reflexivity].
  - destruct (batchBytes cfg <? m_size x)%N eqn:E.
    + split; [discriminate|]. intros H. apply N.ltb_lt in E.
      specialize (H x (or_introl eq_refl)). lia.
    + apply N.ltb_ge in E. rewrite IH. split.
      * intros H m [<-|Hi]; auto.
      * intros H m Hi. apply H. right; exact Hi.
Qed.

Lemma fte_not_toolarge : forall merr ms k i, first_topic_err cfg merr k ms <> Some (ETooLarge i).
Proof.
  induction ms as [|x r IH]; intros k i; cbn [first_topic_err].
  - discriminate.
  - destruct (choose_topic cfg x); [|discriminate].
    destruct merr as [[j e]|]; [|apply IH].
    destruct (Nat.eqb k j); [discriminate|apply IH].
Qed.

Lemma fte_some : forall merr ms k i m,
  nth_error ms i = Some m -> choose_topic cfg m = None ->
  exists e, first_topic_err cfg merr k ms = Some e.
Proof.
  induction ms as [|x r IH]; intros k i m Hn Hc.
  - destruct i; discriminate.
  - cbn [first_topic_err]. destruct i as [|i]; simpl in Hn.
    + inversion Hn; subst. rewrite Hc. eauto.
    + destruct (choose_topic cfg x); [|eauto].
      destruct merr as [[j e]|]; [|eapply IH; eauto].
      destruct (Nat.eqb k j); [eauto|eapply IH; eauto].
Qed.

Lemma fte_none : forall merr ms k,
  first_topic_err cfg merr k ms = None -> forall m, In m ms -> choose_topic cfg m <> None.
Proof.
  induction ms as [|x r IH]; intros k H m Hi; cbn [first_topic_err] in H.
  - destruct Hi.
  - destruct (choose_topic cfg x) eqn:E; [|discriminate].
    destruct Hi as [<-|Hi]; [congruence|].
    destruct merr as [[j e]|]; [|eapply IH; eauto].
    destruct (Nat.eqb k j); [discriminate|eapply IH; eauto].
Qed.

Lemma validate_none : forall merr ms, validate cfg merr ms = None ->
  forall m, In m ms -> (m_size m <= batchBytes cfg)%N /\ choose_topic cfg m <> None.
Proof.
  intros merr ms H m Hi. unfold validate in H.
  destruct (first_too_large cfg 0 ms) eqn:E; [discriminate|].
  split.
  - eapply ftl_none; eauto.
  - eapply fte_none; eauto.
Qed.

End Validate.

Lemma C08_validate_spec_proof : stmt_C08_validate_spec.
Proof.
  unfold stmt_C08_validate_spec. intros cfg merr msgs.
  split; [|split; [|split]].
  - intros i m Hn Hs. destruct (ftl_complete cfg msgs 0 i m Hn Hs) as [i' [Hle Hf]].
    exists i'. split; [exact Hle|]. unfold validate. rewrite Hf. reflexivity.
  - intros i H. unfold validate in H.
    destruct (first_too_large cfg 0 msgs) as [j|] eqn:E.
    + inversion H; subst. destruct (ftl_sound cfg _ _ _ E) as [_ [m [Hn Hs]]].
      rewrite Nat.sub_0_r in Hn. eauto.
    + exfalso. eapply fte_not_toolarge; eauto.
  - intros Hall i m Hn Hc. unfold validate.
    rewrite (proj2 (ftl_none cfg msgs 0) Hall).
    eapply fte_some; eauto.
  - apply validate_none.
Qed.

(* ------------------------------------------------------------------ the invariant *)
Lemma sum_sizes_snoc : forall l m, sum_sizes (l ++ [m]) = (sum_sizes l + m_size m)%N.
Proof.
  unfold sum_sizes. induction l as [|x r IH]; intros m; simpl.
  - lia.
  - rewrite IH. lia.
Qed.

Section Inv.
Variable cfg : config.

Definition batch_ok (tp : tpart) (b : batch) : Prop :=
  b_bytes b = sum_sizes (b_msgs b) /\ b_msgs b <> [] /\
  length (b_msgs b) <= Nat.max 1 (batchSize cfg) /\
  (b_bytes b <= batchBytes cfg)%N /\
  forall m, In m (b_msgs b) -> tp_of cfg m = tp.

Definition curr_ok (pw : pwriter) (b : batch) : Prop :=
  batch_ok (pw_tp pw) b /\ b_size b < batchSize cfg /\ (b_bytes b < batchBytes cfg)%N /\
  pw_open pw = true /\ In (b_k b) (pw_await pw).

Definition pw_ok (pw : pwriter) : Prop :=
  (forall b, pw_curr pw = Some b -> curr_ok pw b) /\
  (forall b, In b (pw_queue pw) -> batch_ok (pw_tp pw) b) /\
  (forall sd, pw_snd pw = Some sd -> batch_ok (pw_tp pw) (sd_batch sd)) /\
  (pw_alive pw = false -> pw_queue pw = [] /\ pw_open pw = false).

Lemma add_msg_ok : forall tp b m,
  b_bytes b = sum_sizes (b_msgs b) ->
  (forall x, In x (b_msgs b) -> tp_of cfg x = tp) ->
  tp_of cfg m = tp ->
  (m_size m <= batchBytes cfg)%N ->
  (b_msgs b = [] \/ (b_size b < batchSize cfg /\ (b_bytes b + m_size m <= batchBytes cfg)%N)) ->
  batch_ok tp (add_msg b m).
Proof.
  intros tp b m Hb Htp Hm Hs Hc. unfold batch_ok, add_msg; cbn [b_bytes b_msgs].
  split; [rewrite sum_sizes_snoc, Hb; reflexivity|].
  split; [intros E; apply app_eq_nil in E; destruct E; discriminate|].
  rewrite app_length; cbn [length].
  split; [|split].
  - destruct Hc as [E|[H1 _]].
    + rewrite E; cbn [length]. lia.
    + unfold b_size in H1. lia.
  - destruct Hc as [E|[_ H2]].
    + rewrite E in Hb; simpl in Hb. lia.
    + exact H2.
  - intros x Hi. apply in_app_or in Hi. destruct Hi as [Hi|[<-|[]]]; auto.
Qed.

Lemma finish_ok : forall tp nb fin snd q al aw b',
  (forall b, In b q -> batch_ok tp b) ->
  (forall sd, snd = Some sd -> batch_ok tp (sd_batch sd)) ->
  al = true -> batch_ok tp b' -> In (b_k b') aw ->
  pw_ok (if full cfg b' then mkPw tp true nb fin snd (q ++ [b']) None al aw
         else mkPw tp true nb fin snd q (Some b') al aw).
Proof.
  intros tp nb fin snd q al aw b' Hq Hs Hal Hb Hin.
  destruct (full cfg b') eqn:F; unfold pw_ok, curr_ok; simpl.
  - split; [discriminate|]. split; [|split; [exact Hs|]].
    + intros b Hi. apply in_app_or in Hi. destruct Hi as [Hi|[<-|[]]]; auto.
    + intros E; congruence.
  - split; [|split; [exact Hq|split; [exact Hs|intros E; congruence]]].
    intros b E; inversion E; subst b; clear E.
    unfold full in F. apply orb_false_iff in F. destruct F as [F1 F2].
    apply Nat.leb_gt in F1. apply N.leb_gt in F2.
    repeat split; auto; apply Hb.
Qed.

Lemma pw_add_ok : forall pw m pw' k sp,
  pw_ok pw -> pw_open pw = true -> tp_of cfg m = pw_tp pw -> (m_size m <= batchBytes cfg)%N ->
  pw_add cfg pw m = (pw', k, sp) -> pw_ok pw'.
Proof.
  intros pw m pw' k sp Hok Hop Htp Hsz Hadd.
  destruct pw as [tp op nb fin snd q cur al aw]. simpl in Hop, Htp. subst op.
  destruct Hok as [Hc [Hq [Hs Ha]]]; simpl in Hc, Hq, Hs, Ha.
  assert (Hal : al = true) by (destruct al; [reflexivity|destruct (Ha eq_refl); discriminate]).
  unfold pw_add in Hadd. simpl in Hadd.
  destruct cur as [b|].
  - destruct (Hc b eq_refl) as [Hb [Hn [Hby [_ Hin]]]]; simpl in Hb, Hin.
    destruct Hb as [Hb1 [Hb2 [Hb3 [Hb4 Hb5]]]].
    destruct (add_fits cfg b m) eqn:F; simpl in Hadd.
    + inversion Hadd; subst pw' k sp; clear Hadd.
      apply finish_ok; auto.
      apply add_msg_ok; auto. right. split; [exact Hn|].
      unfold add_fits in F. apply negb_true_iff in F.
      apply andb_false_iff in F. destruct F as [F|F].
      * apply Nat.ltb_ge in F. unfold b_size in F. destruct (b_msgs b); [congruence|simpl in F; lia].
      * apply N.ltb_ge in F. exact F.
    + inversion Hadd; subst pw' k sp; clear Hadd.
      apply finish_ok; auto.
      * intros x Hi. apply in_app_or in Hi. destruct Hi as [Hi|[<-|[]]]; auto.
        repeat split; auto.
      * apply add_msg_ok; simpl; auto. intros x [].
      * simpl. apply in_or_app. right; left; reflexivity.
  - simpl in Hadd. inversion Hadd; subst pw' k sp; clear Hadd.
    apply finish_ok; auto.
    + apply add_msg_ok; simpl; auto. intros x [].
    + simpl. apply in_or_app. right; left; reflexivity.
Qed.

Definition pws_ok (pws : list pwriter) : Prop := forall pw, In pw pws -> pw_ok pw.

Lemma pws_add_ok : forall pws m i pws' ref sp,
  pws_ok pws -> (m_size m <= batchBytes cfg)%N ->
  pws_add cfg (tp_of cfg m) m i pws = Some (pws', ref, sp) -> pws_ok pws'.
Proof.
  induction pws as [|p r IH]; intros m i pws' ref sp Hok Hsz H; cbn [pws_add] in H.
  - discriminate.
  - destruct (pw_open p && tp_eqb (pw_tp p) (tp_of cfg m)) eqn:E.
    + apply andb_true_iff in E. destruct E as [E1 E2]. apply tp_eqb_eq in E2.
      destruct (pw_add cfg p m) as [[p' k] sp'] eqn:A. inversion H; subst; clear H.
      intros pw [<-|Hi].
      * eapply pw_add_ok; eauto. apply Hok; left; reflexivity.
      * apply Hok; right; exact Hi.
    + destruct (pws_add cfg (tp_of cfg m) m (S i) r) as [[[r' ref'] sp']|] eqn:A; [|discriminate].
      inversion H; subst; clear H.
      intros pw [<-|Hi].
      * apply Hok; left; reflexivity.
      * eapply IH; eauto. intros x Hx. apply Hok; right; exact Hx.
Qed.

Lemma new_pw_ok : forall tp, pw_ok (new_pw tp).
Proof.
  intros tp. unfold pw_ok, new_pw; simpl.
  split; [discriminate|]. split; [intros b []|]. split; discriminate.
Qed.

Lemma assign_one_ok : forall pws wg refs m pws' wg' refs',
  pws_ok pws -> (m_size m <= batchBytes cfg)%N ->
  assign_one cfg (pws, wg, refs) m = (pws', wg', refs') -> pws_ok pws'.
Proof.
  intros pws wg refs m pws' wg' refs' Hok Hsz H. unfold assign_one in H.
  destruct (pws_add cfg (tp_of cfg m) m 0 pws) as [[[r' ref'] sp']|] eqn:A.
  - inversion H; subst; clear H. eapply pws_add_ok; eauto.
  - destruct (pw_add cfg (new_pw (tp_of cfg m)) m) as [[p' k] sp'] eqn:B.
    inversion H; subst; clear H.
    intros pw Hi. apply in_app_or in Hi. destruct Hi as [Hi|[<-|[]]]; [apply Hok; exact Hi|].
    eapply pw_add_ok; [apply new_pw_ok| | | |exact B]; auto.
Qed.

Lemma fold_assign_ok : forall ms st,
  pws_ok (fst (fst st)) -> (forall m, In m ms -> (m_size m <= batchBytes cfg)%N) ->
  pws_ok (fst (fst (fold_left (assign_one cfg) ms st))).
Proof.
  induction ms as [|m r IH]; intros st Hok Hsz; cbn [fold_left].
  - exact Hok.
  - apply IH; [|intros x Hx; apply Hsz; right; exact Hx].
    destruct st as [[pws wg] refs].
    destruct (assign_one cfg (pws, wg, refs) m) as [[pws' wg'] refs'] eqn:A.
    simpl. eapply assign_one_ok; eauto. apply Hsz; left; reflexivity.
Qed.

Lemma assign_all_ok : forall pws wg ms pws' wg' refs',
  pws_ok pws -> (forall m, In m ms -> (m_size m <= batchBytes cfg)%N) ->
  assign_all cfg pws wg ms = (pws', wg', refs') -> pws_ok pws'.
Proof.
  intros pws wg ms pws' wg' refs' Hok Hsz H.
  pose proof (fold_assign_ok ms (pws, wg, []) Hok Hsz) as P.
  unfold assign_all in H. rewrite H in P. exact P.
Qed.

Lemma close_pw_ok : forall pw, pw_ok pw -> pw_ok (close_pw pw).
Proof.
  intros pw Hok. unfold close_pw. destruct (pw_open pw) eqn:Hop; [|exact Hok].
  destruct pw as [tp op nb fin snd q cur al aw]. simpl in Hop. subst op.
  destruct Hok as [Hc [Hq [Hs Ha]]]; simpl in Hc, Hq, Hs, Ha.
  assert (Hal : al = true) by (destruct al; [reflexivity|destruct (Ha eq_refl); discriminate]).
  subst al.
  destruct cur as [b|]; unfold pw_ok, curr_ok; simpl.
  - split; [discriminate|]. split; [|split; [exact Hs|discriminate]].
    intros x Hi. apply in_app_or in Hi. destruct Hi as [Hi|[<-|[]]]; auto.
    apply (Hc b eq_refl).
  - split; [discriminate|]. split; [exact Hq|]. split; [exact Hs|discriminate].
Qed.

Lemma timer_ok : forall pw k, pw_ok pw ->
  pw_ok (let pw1 := match pw_curr pw with
                    | Some b => if Nat.eqb (b_k b) k then set_curr (put pw b) None else pw
                    | None => pw
                    end in
         set_await pw1 (filter (fun x => negb (Nat.eqb x k)) (pw_await pw1))).
Proof.
  intros pw k Hok.
  destruct pw as [tp op nb fin snd q cur al aw].
  destruct Hok as [Hc [Hq [Hs Ha]]]; simpl in Hc, Hq, Hs, Ha.
  destruct cur as [b|]; simpl.
  - destruct (Hc b eq_refl) as [Hb [Hn [Hby [Hop Hin]]]]; simpl in Hb, Hop, Hin. subst op.
    destruct (Nat.eqb (b_k b) k) eqn:E; unfold pw_ok, curr_ok; simpl.
    + split; [discriminate|]. split; [|split; [exact Hs|]].
      * intros x Hi. apply in_app_or in Hi. destruct Hi as [Hi|[<-|[]]]; auto.
      * intros F. destruct (Ha F); discriminate.
    + split; [|split; [exact Hq|split; [exact Hs|exact Ha]]].
      intros x Hx. inversion Hx; subst x; clear Hx.
      repeat split; auto; try apply Hb.
      apply filter_In. split; [exact Hin|]. rewrite E. reflexivity.
  - unfold pw_ok; simpl. split; [discriminate|]. split; [exact Hq|]. split; [exact Hs|exact Ha].
Qed.

(* ---- the state invariant ---- *)
Definition att_ok (a : attempt) : Prop :=
  length (a_msgs a) <= Nat.max 1 (batchSize cfg) /\
  (sum_sizes (a_msgs a) <= batchBytes cfg)%N /\
  a_msgs a <> [] /\
  (forall m, In m (a_msgs a) -> tp_of cfg m = a_tp a).

Definition calls_ok (cs : list call) : Prop :=
  forall cl, In cl cs -> c_ph cl = CEntered ->
  forall m, In m (c_msgs cl) -> (m_size m <= batchBytes cfg)%N.

Definition inv (s : state) : Prop :=
  pws_ok (s_pws s) /\ calls_ok (s_calls s) /\ (forall a, In a (s_journal s) -> att_ok a).

Lemma inv_init : inv init.
Proof. unfold inv, pws_ok, calls_ok; simpl. split; [|split]; intros ? []. Qed.

Lemma pws_ok_upd : forall pws p pw, pws_ok pws -> pw_ok pw -> pws_ok (upd pws p pw).
Proof.
  intros pws p pw Hok Hpw x Hi. apply upd_In in Hi. destruct Hi as [->|Hi]; auto.
Qed.

Lemma calls_ok_snoc : forall cs c,
  calls_ok cs ->
  (c_ph c = CEntered -> forall m, In m (c_msgs c) -> (m_size m <= batchBytes cfg)%N) ->
  calls_ok (cs ++ [c]).
Proof.
  intros cs c Hok Hc cl Hi. apply in_app_or in Hi.
  destruct Hi as [Hi|[<-|[]]]; [apply Hok; exact Hi|exact Hc].
Qed.

Lemma calls_ok_upd : forall cs i c,
  calls_ok cs -> c_ph c <> CEntered -> calls_ok (upd cs i c).
Proof.
  intros cs i c Hok Hc cl Hi. apply upd_In in Hi.
  destruct Hi as [->|Hi]; [congruence|apply Hok; exact Hi].
Qed.

Lemma inv_step : forall s l s', inv s -> step cfg s l = Some s' -> inv s'.
Proof.
  intros s l s' [Hp [Hc Hj]] H.
  destruct l; cbn [step] in H.
  - (* Call *)
    destruct (call_admissible s g msgs); [|discriminate].
    destruct (closed s).
    { inversion H; subst; clear H. split; [exact Hp|split; [|exact Hj]]; simpl.
      apply calls_ok_snoc; auto. simpl; discriminate. }
    destruct msgs as [|m0 r].
    { inversion H; subst; clear H. split; [exact Hp|split; [|exact Hj]]; simpl.
      apply calls_ok_snoc; auto. simpl; discriminate. }
    destruct (validate cfg merr (m0 :: r)) eqn:V.
    { inversion H; subst; clear H. split; [exact Hp|split; [|exact Hj]]; simpl.
      apply calls_ok_snoc; auto. simpl; discriminate. }
    inversion H; subst; clear H. split; [exact Hp|split; [|exact Hj]]; simpl.
    apply calls_ok_snoc; auto. cbn [c_msgs]. intros _ m Hi.
    apply (validate_none cfg _ _ V m Hi).
  - (* Assign *)
    destruct (nth_error (s_calls s) c) as [cl|] eqn:N; [|discriminate].
    destruct (c_ph cl) eqn:Ph; try discriminate.
    destruct (closed s).
    { inversion H; subst; clear H. split; [exact Hp|split; [|exact Hj]]; simpl.
      apply calls_ok_upd; auto. simpl; discriminate. }
    destruct (assign_all cfg (s_pws s) (s_wg s) (c_msgs cl)) as [[pws wg] refs] eqn:A.
    inversion H; subst; clear H. split; [|split; [|exact Hj]]; simpl.
    + eapply assign_all_ok; eauto. apply Hc; [eapply nth_error_In; eauto|exact Ph].
    + apply calls_ok_upd; auto. simpl; discriminate.
  - (* Timer *)
    destruct (nth_error (s_pws s) p) as [pw|] eqn:N; [|discriminate].
    destruct (existsb (Nat.eqb k) (pw_await pw)); [|discriminate].
    inversion H; subst; clear H. split; [|split; [exact Hc|exact Hj]]; simpl.
    apply pws_ok_upd; auto. apply (timer_ok pw k). apply Hp. eapply nth_error_In; eauto.
  - (* Get *)
    destruct (nth_error (s_pws s) p) as [pw|] eqn:N; [|discriminate].
    assert (Hpw : pw_ok pw) by (apply Hp; eapply nth_error_In; eauto).
    destruct (pw_alive pw) eqn:Al; [|discriminate].
    destruct (pw_snd pw) eqn:Sn; [discriminate|].
    destruct (pw_queue pw) as [|b q] eqn:Q; [discriminate|].
    inversion H; subst; clear H. split; [|split; [exact Hc|exact Hj]]; simpl.
    apply pws_ok_upd; auto.
    destruct Hpw as [H1 [H2 [H3 H4]]]. unfold pw_ok, curr_ok; simpl.
    split; [exact H1|]. split; [intros x Hx; apply H2; rewrite Q; right; exact Hx|].
    split; [|intros F; congruence].
    intros sd E; inversion E; subst sd; simpl. apply H2. rewrite Q; left; reflexivity.
  - (* SenderExit *)
    destruct (nth_error (s_pws s) p) as [pw|] eqn:N; [|discriminate].
    assert (Hpw : pw_ok pw) by (apply Hp; eapply nth_error_In; eauto).
    destruct (pw_alive pw) eqn:Al; [|discriminate].
    destruct (pw_snd pw) eqn:Sn; [discriminate|].
    destruct (pw_queue pw) as [|b q] eqn:Q; [|discriminate].
    destruct (pw_open pw) eqn:Op; [discriminate|].
    inversion H; subst; clear H. split; [|split; [exact Hc|exact Hj]]; simpl.
    apply pws_ok_upd; auto.
    destruct Hpw as [H1 [H2 [H3 H4]]]. unfold pw_ok, curr_ok; simpl.
    split; [intros x E; destruct (H1 x E) as [_ [_ [_ [O _]]]]; congruence|].
    split; [intros x []|]. split; [discriminate|]. auto.
  - (* Attempt *)
    destruct (nth_error (s_pws s) p) as [pw|] eqn:N; [|discriminate].
    assert (Hpw : pw_ok pw) by (apply Hp; eapply nth_error_In; eauto).
    destruct (pw_snd pw) as [[b n ph]|] eqn:Sn; [|discriminate].
    destruct ph; try discriminate.
    inversion H; subst; clear H.
    destruct Hpw as [H1 [H2 [H3 H4]]]. specialize (H3 _ Sn). simpl in H3.
    split; [|split; [exact Hc|]]; simpl.
    + apply pws_ok_upd; auto. unfold pw_ok, curr_ok; simpl.
      split; [exact H1|]. split; [exact H2|]. split; [|exact H4].
      intros sd E; inversion E; subst sd; simpl. exact H3.
    + intros a Hi. apply in_app_or in Hi. destruct Hi as [Hi|[<-|[]]]; auto.
      destruct H3 as [B1 [B2 [B3 [B4 B5]]]]. unfold att_ok; simpl.
      split; [exact B3|]. split; [rewrite <- B1; exact B4|]. split; [exact B2|exact B5].
  - (* BackoffDone *)
    destruct (nth_error (s_pws s) p) as [pw|] eqn:N; [|discriminate].
    assert (Hpw : pw_ok pw) by (apply Hp; eapply nth_error_In; eauto).
    destruct (pw_snd pw) as [[b n ph]|] eqn:Sn; [|discriminate].
    destruct ph; try discriminate.
    inversion H; subst; clear H.
    destruct Hpw as [H1 [H2 [H3 H4]]]. specialize (H3 _ Sn). simpl in H3.
    split; [|split; [exact Hc|exact Hj]]; simpl.
    apply pws_ok_upd; auto. unfold pw_ok, curr_ok; simpl.
    split; [exact H1|]. split; [exact H2|]. split; [|exact H4].
    intros sd E; inversion E; subst sd; simpl. exact H3.
  - (* Finish *)
    destruct (nth_error (s_pws s) p) as [pw|] eqn:N; [|discriminate].
    assert (Hpw : pw_ok pw) by (apply Hp; eapply nth_error_In; eauto).
    destruct (pw_snd pw) as [[b n ph]|] eqn:Sn; [|discriminate].
    destruct ph; try discriminate.
    inversion H; subst; clear H.
    destruct Hpw as [H1 [H2 [H3 H4]]].
    split; [|split; [exact Hc|exact Hj]]; simpl.
    apply pws_ok_upd; auto. unfold pw_ok, curr_ok; simpl.
    split; [exact H1|]. split; [exact H2|]. split; [discriminate|exact H4].
  - (* Return *)
    destruct (nth_error (s_calls s) c) as [cl|] eqn:N; [|discriminate].
    destruct (c_ph cl) eqn:Ph; try discriminate.
    destruct (async cfg).
    + inversion H; subst; clear H. split; [exact Hp|split; [|exact Hj]]; simpl.
      apply calls_ok_upd; auto. simpl; discriminate.
    + destruct (all_results (s_pws s) (c_refs cl)); [|discriminate].
      inversion H; subst; clear H. split; [exact Hp|split; [|exact Hj]]; simpl.
      apply calls_ok_upd; auto. simpl; discriminate.
  - (* CtxDone *)
    destruct (nth_error (s_calls s) c) as [cl|] eqn:N; [|discriminate].
    destruct (c_ph cl) eqn:Ph; try discriminate.
    destruct (async cfg); [discriminate|].
    inversion H; subst; clear H. split; [exact Hp|split; [|exact Hj]]; simpl.
    apply calls_ok_upd; auto. simpl; discriminate.
  - (* CloseMark *)
    destruct (s_close s); try discriminate.
    inversion H; subst; clear H. split; [|split; [exact Hc|exact Hj]]; simpl.
    intros pw Hi. apply in_map_iff in Hi. destruct Hi as [x [<- Hx]].
    apply close_pw_ok. apply Hp; exact Hx.
  - (* CloseWaitDone *)
    destruct (s_close s); try discriminate.
    destruct (s_wg s); try discriminate.
    inversion H; subst; clear H. split; [exact Hp|split; [exact Hc|exact Hj]].
Qed.

End Inv.

Lemma runs_inv_C08 : forall cfg ls s, runs cfg ls s -> inv cfg s.
Proof.
  intros cfg ls s H. eapply runs_inv; [apply inv_init|apply inv_step|exact H].
Qed.

(* ------------------------------------------------------------------ the statements *)
Lemma C08_limits_proof : stmt_C08_limits.
Proof.
  unfold stmt_C08_limits. intros cfg ls s [Hbs _] Hr a Hi.
  destruct (runs_inv_C08 cfg ls s Hr) as [_ [_ Hj]].
  destruct (Hj a Hi) as [A1 [A2 [A3 A4]]].
  split; [lia|]. split; [exact A2|]. split; [exact A3|exact A4].
Qed.

Lemma C08_open_batch_never_full_proof : stmt_C08_open_batch_never_full.
Proof.
  unfold stmt_C08_open_batch_never_full. intros cfg ls s Hr p pw b N Hcur.
  destruct (runs_inv_C08 cfg ls s Hr) as [Hp _].
  destruct (Hp pw (nth_error_In _ _ N)) as [H1 _].
  destruct (H1 b Hcur) as [[B1 [B2 _]] [C1 [C2 _]]].
  auto.
Qed.

Lemma C08_open_batch_has_timer_proof : stmt_C08_open_batch_has_timer.
Proof.
  unfold stmt_C08_open_batch_has_timer. intros cfg ls s Hr p pw b N Hcur.
  destruct (runs_inv_C08 cfg ls s Hr) as [Hp _].
  destruct (Hp pw (nth_error_In _ _ N)) as [H1 _].
  destruct (H1 b Hcur) as [_ [_ [_ [Hop Hin]]]].
  assert (Hex : existsb (Nat.eqb (b_k b)) (pw_await pw) = true).
  { apply existsb_exists. exists (b_k b). split; [exact Hin|apply Nat.eqb_refl]. }
  assert (Hlt : p < length (s_pws s)) by (apply nth_error_Some; congruence).
  cbn [step]. rewrite N, Hex, Hcur, Nat.eqb_refl.
  eexists. eexists. split; [reflexivity|].
  unfold with_pw_done; cbn [s_pws].
  split; [apply nth_error_upd_eq; exact Hlt|].
  unfold put. rewrite Hop. simpl. auto.
Qed.

Lemma C08_queued_batch_served_proof : stmt_C08_queued_batch_served.
Proof.
  unfold stmt_C08_queued_batch_served. intros cfg ls s Hr p pw N Hq.
  destruct (runs_inv_C08 cfg ls s Hr) as [Hp _].
  destruct (Hp pw (nth_error_In _ _ N)) as [_ [_ [_ H4]]].
  assert (Hal : pw_alive pw = true).
  { destruct (pw_alive pw); [reflexivity|]. destruct (H4 eq_refl) as [E _]. congruence. }
  split; [exact Hal|].
  destruct (pw_snd pw) as [[b n ph]|] eqn:Sn.
  - destruct ph; cbn [sd_ph step]; [intros r| |]; rewrite N, Sn; discriminate.
  - cbn [step]. rewrite N, Hal, Sn. destruct (pw_queue pw); [congruence|discriminate].
Qed.

