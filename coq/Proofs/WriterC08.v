(* Proofs/WriterC08.v — proofs of the C08 statements of Proofs/WriterStmts.v about Model/Writer.v:
   limits of every produce request, what the validation rejects, the open batch. *)
From Coq Require Import List NArith Bool Arith Lia ZifyN ZifyNat ZifyBool.
From KV Require Import Lib.LTS Model.Writer Proofs.WriterStmts Proofs.WriterBase.
Import ListNotations.

(* ------------------------------------------------------------------ pure step facts *)
Lemma C08_rejected_sends_nothing_proof : stmt_C08_rejected_sends_nothing.
Proof.
  unfold stmt_C08_rejected_sends_nothing.
  intros cfg s g msgs merr e s' Hne Hv H.
  cbn [step] in H.
  destruct (call_admissible s g msgs); [|discriminate].
  destruct (closed s).
  - inversion H; reflexivity.
  - destruct msgs as [|m r]; [congruence|].
    rewrite Hv in H. inversion H; reflexivity.
Qed.

Section Validate.
Variable cfg : config.

Lemma ftl_complete : forall ms k i m,
  nth_error ms i = Some m -> (batchBytes cfg < m_size m)%N ->
  exists i', i' <= i /\ first_too_large cfg k ms = Some (k + i').
Proof.
  induction ms as [|x r IH]; intros k i m Hn Hs.
  - destruct i; discriminate.
  - cbn [first_too_large].
    destruct (batchBytes cfg <? m_size x)%N eqn:E.
    + exists 0. split; [lia|]. f_equal. lia.
    + destruct i as [|i]; simpl in Hn.
      * inversion Hn; subst. apply N.ltb_ge in E. lia.
      * destruct (IH (S k) i m Hn Hs) as [i' [Hle Hf]].
        exists (S i'). split; [lia|]. rewrite Hf. f_equal. lia.
Qed.

Lemma ftl_sound : forall ms k j,
  first_too_large cfg k ms = Some j ->
  k <= j /\ exists m, nth_error ms (j - k) = Some m /\ (batchBytes cfg < m_size m)%N.
Proof.
  induction ms as [|x r IH]; intros k j H; cbn [first_too_large] in H.
  - discriminate.
  - destruct (batchBytes cfg <? m_size x)%N eqn:E.
    + inversion H; subst. split; [lia|]. exists x. rewrite Nat.sub_diag. split; [reflexivity|].
      apply N.ltb_lt in E. exact E.
    + destruct (IH _ _ H) as [Hle [m [Hn Hs]]]. split; [lia|].
      exists m. split; [|exact Hs].
      replace (j - k) with (S (j - S k)) by lia. exact Hn.
Qed.

Lemma ftl_none : forall ms k,
  first_too_large cfg k ms = None <-> (forall m, In m ms -> (m_size m <= batchBytes cfg)%N).
Proof.
  induction ms as [|x r IH]; intros k; cbn [first_too_large].
  - split; [intros _ m []|reflexivity].
  - destruct (batchBytes cfg <? m_size x)%N eqn:E.
    + split; [discriminate|]. intros H. apply N.ltb_lt in E.
      specialize (H x (or_introl eq_refl)). lia.
    + apply N.ltb_ge in E. rewrite IH. split.
      * intros H m [<-|Hi]; auto.
      * intros H m Hi. apply H. right; exact Hi.
Qed.

Lemma fte_not_toolarge : forall merr ms k i, first_topic_err cfg merr k ms <> Some (ETooLarge i).
Proof.
  induction ms as [|x r IH]; intros k i; cbn [first_topic_err].
  - discriminate.
  - destruct (choose_topic cfg x); [|discriminate].
    destruct merr as [[j e]|]; [|apply IH].
    destruct (Nat.eqb k j); [discriminate|apply IH].
Qed.

Lemma fte_some : forall merr ms k i m,
  nth_error ms i = Some m -> choose_topic cfg m = None ->
  exists e, first_topic_err cfg merr k ms = Some e.
Proof.
  induction ms as [|x r IH]; intros k i m Hn Hc.
  - destruct i; discriminate.
  - cbn [first_topic_err]. destruct i as [|i]; simpl in Hn.
    + inversion Hn; subst. rewrite Hc. eauto.
    + destruct (choose_topic cfg x); [|eauto].
      destruct merr as [[j e]|]; [|eapply IH; eauto].
      destruct (Nat.eqb k j); [eauto|eapply IH; eauto].
Qed.

Lemma fte_none : forall merr ms k,
  first_topic_err cfg merr k ms = None -> forall m, In m ms -> choose_topic cfg m <> None.
Proof.
  induction ms as [|x r IH]; intros k H m Hi; cbn [first_topic_err] in H.
  - destruct Hi.
  - destruct (choose_topic cfg x) eqn:E; [|discriminate].
    destruct Hi as [<-|Hi]; [congruence|].
    destruct merr as [[j e]|]; [|eapply IH; eauto].
    destruct (Nat.eqb k j); [discriminate|eapply IH; eauto].
Qed.

Lemma validate_none : forall merr ms, validate cfg merr ms = None ->
  forall m, In m ms -> (m_size m <= batchBytes cfg)%N /\ choose_topic cfg m <> None.
Proof.
  intros merr ms H m Hi. unfold validate in H.
  destruct (first_too_large cfg 0 ms) eqn:E; [discriminate|].
  split.
  - eapply ftl_none; eauto.
  - eapply fte_none; eauto.
Qed.

End Validate.

Lemma C08_validate_spec_proof : stmt_C08_validate_spec.
Proof.
  unfold stmt_C08_validate_spec. intros cfg merr msgs.
  split; [|split; [|split]].
  - intros i m Hn Hs. destruct (ftl_complete cfg msgs 0 i m Hn Hs) as [i' [Hle Hf]].
    exists i'. split; [exact Hle|]. unfold validate. rewrite Hf. reflexivity.
  - intros i H. unfold validate in H.
    destruct (first_too_large cfg 0 msgs) as [j|] eqn:E.
    + inversion H; subst. destruct (ftl_sound cfg _ _ _ E) as [_ [m [Hn Hs]]].
      rewrite Nat.sub_0_r in Hn. eauto.
    + exfalso. eapply fte_not_toolarge; eauto.
  - intros Hall i m Hn Hc. unfold validate.
    rewrite (proj2 (ftl_none cfg msgs 0) Hall).
    eapply fte_some; eauto.
  - apply validate_none.
Qed.

(* ------------------------------------------------------------------ the invariant *)
Lemma sum_sizes_snoc : forall l m, sum_sizes (l ++ [m]) = (sum_sizes l + m_size m)%N.
Proof.
  unfold sum_sizes. induction l as [|x r IH]; intros m; simpl.
  - lia.
  - rewrite IH. lia.
Qed.

Section Inv.
Variable cfg : config.

Definition batch_ok (tp : tpart) (b : batch) : Prop :=
  b_bytes b = sum_sizes (b_msgs b) /\ b_msgs b <> [] /\
  length (b_msgs b) <= Nat.max 1 (batchSize cfg) /\
  (b_bytes b <= batchBytes cfg)%N /\
  forall m, In m (b_msgs b) -> tp_of cfg m = tp.

Definition curr_ok (pw : pwriter) (b : batch) : Prop :=
  batch_ok (pw_tp pw) b /\ b_size b < batchSize cfg /\ (b_bytes b < batchBytes cfg)%N /\
  pw_open pw = true /\ In (b_k b) (pw_await pw).

Definition pw_ok (pw : pwriter) : Prop :=
  (forall b, pw_curr pw = Some b -> curr_ok pw b) /\
  (forall b, In b (pw_queue pw) -> batch_ok (pw_tp pw) b) /\
  (forall sd, pw_snd pw = Some sd -> batch_ok (pw_tp pw) (sd_batch sd)) /\
  (pw_alive pw = false -> pw_queue pw = [] /\ pw_open pw = false).

Lemma add_msg_ok : forall tp b m,
  b_bytes b = sum_sizes (b_msgs b) ->
  (forall x, In x (b_msgs b) -> tp_of cfg x = tp) ->
  tp_of cfg m = tp ->
  (m_size m <= batchBytes cfg)%N ->
  (b_msgs b = [] \/ (b_size b < batchSize cfg /\ (b_bytes b + m_size m <= batchBytes cfg)%N)) ->
  batch_ok tp (add_msg b m).
Proof.
  intros tp b m Hb Htp Hm Hs Hc. unfold batch_ok, add_msg; cbn [b_bytes b_msgs].
  split; [rewrite sum_sizes_snoc, Hb; reflexivity|].
  split; [intros E; apply app_eq_nil in E; destruct E; discriminate|].
  rewrite app_length; cbn [length].
  split; [|split].
  - destruct Hc as [E|[H1 _]].
    + rewrite E; cbn [length]. lia.
    + unfold b_size in H1. lia.
  - destruct Hc as [E|[_ H2]].
    + rewrite E in Hb; simpl in Hb. lia.
    + exact H2.
  - intros x Hi. apply in_app_or in Hi. destruct Hi as [Hi|[<-|[]]]; auto.
Qed.

Lemma finish_ok : forall tp nb fin snd q al aw b',
  (forall b, In b q -> batch_ok tp b) ->
  (forall sd, snd = Some sd -> batch_ok tp (sd_batch sd)) ->
  al = true -> batch_ok tp b' -> In (b_k b') aw ->
  pw_ok (if full cfg b' then mkPw tp true nb fin snd (q ++ [b']) None al aw
         else mkPw tp true nb fin snd q (Some b') al aw).
Proof.
  intros tp nb fin snd q al aw b' Hq Hs Hal Hb Hin.
  destruct (full cfg b') eqn:F; unfold pw_ok, curr_ok; simpl.
  - split; [discriminate|]. split; [|split; [exact Hs|]].
    + intros b Hi. apply in_app_or in Hi. destruct Hi as [Hi|[<-|[]]]; auto.
    + intros E; congruence.
  - split; [|split; [exact Hq|split; [exact Hs|intros E; congruence]]].
    intros b E; inversion E; subst b; clear E.
    unfold full in F. apply orb_false_iff in F. destruct F as [F1 F2].
    apply Nat.leb_gt in F1. apply N.leb_gt in F2.
    repeat split; auto; apply Hb.
Qed.

Lemma pw_add_ok : forall pw m pw' k sp,
  pw_ok pw -> pw_open pw = true -> tp_of cfg m = pw_tp pw -> (m_size m <= batchBytes cfg)%N ->
  pw_add cfg pw m = (pw', k, sp) -> pw_ok pw'.
Proof.
  intros pw m pw' k sp Hok Hop Htp Hsz Hadd.
  destruct pw as [tp op nb fin snd q cur al aw]. simpl in Hop, Htp. subst op.
  destruct Hok as [Hc [Hq [Hs Ha]]]; simpl in Hc, Hq, Hs, Ha.
  assert (Hal : al = true) by (destruct al; [reflexivity|destruct (Ha eq_refl); discriminate]).
  unfold pw_add in Hadd. simpl in Hadd.
  destruct cur as [b|].
  - destruct (Hc b eq_refl) as [Hb [Hn [Hby [_ Hin]]]]; simpl in Hb, Hin.
    destruct Hb as [Hb1 [Hb2 [Hb3 [Hb4 Hb5]]]].
    destruct (add_fits cfg b m) eqn:F; simpl in Hadd.
    + inversion Hadd; subst pw' k sp; clear Hadd.
      apply finish_ok; auto.
      apply add_msg_ok; auto. right. split; [exact Hn|].
      unfold add_fits in F. apply negb_true_iff in F.
      apply andb_false_iff in F. destruct F as [F|F].
      * apply Nat.ltb_ge in F. unfold b_size in F. destruct (b_msgs b); [congruence|simpl in F; lia].
      * apply N.ltb_ge in F. exact F.
    + inversion Hadd; subst pw' k sp; clear Hadd.
      apply finish_ok; auto.
      * intros x Hi. apply in_app_or in Hi. destruct Hi as [Hi|[<-|[]]]; auto.
        repeat split; auto.
      * apply add_msg_ok; simpl; auto. intros x [].
      * simpl. apply in_or_app. right; left; reflexivity.
  - simpl in Hadd. inversion Hadd; subst pw' k sp; clear Hadd.
    apply finish_ok; auto.
    + apply add_msg_ok; simpl; auto. intros x [].
    + simpl. apply in_or_app. right; left; reflexivity.
Qed.
